"""Per-property configuration of bin/check: level, trusted base, assumptions, time-outs."""

TB_COMMON = [
    "Lean 4.33.0 kernel; axioms allowed: propext, Classical.choice, Quot.sound (audited by #print axioms on every theorem of the property file); no sorry/admit/native_decide/bv_decide",
    "the Go toolchain and the harness /verif/harness (build tag verif; export shims lzma/verif_export.go, verif_export.go)",
    "the Lean compiler for the core-only driver executable (same definitions the theorems are about)",
]

PROPS = {
    "C18": {
        "level": "proof",
        "trusted_base": TB_COMMON + [
            "T-table: Gen/Tables.lean (all 256 DecodeDictCap results, EncodeDictCap at all boundaries) regenerated from /repo by calling the real functions",
            "Model.encodeDictCap is hand-written after lzma.EncodeDictCap; tied by the exhaustive sweep of all 2^32-1 capacities of the real function against Spec's least code and by model-vs-Go comparison",
        ],
        "assumptions": ["Go int64 arithmetic in decodeDictCap does not overflow for codes < 40 (values < 2^32)"],
    },
    "C16": {
        "level": "proof",
        "trusted_base": TB_COMMON + [
            "T-table: chunkState.next (6 states x 8 chunk types), headerChunkType (256 bytes), defaultChunkType regenerated from /repo by calling the real functions",
            "Model.writerRun is hand-written after Writer2.flushChunk/writeChunk/writeUncompressedChunk (chunk-type bookkeeping only)",
        ],
        "assumptions": ["decoding of accepted sequences and the chunk size limits are tied by the correspondence check, not by the automaton theorems"],
    },
}

MANIFEST_TEXT = {
    "C18": {
        "text": "Proof: Lean theorems state that the regenerated graph of DecodeDictCap equals the format's 41-entry table on all 256 bytes, that the table is strictly increasing from 4 KiB to 4 GiB-1, and that the binary-search model of EncodeDictCap returns, for every capacity 1..2^32-1, the least code whose size covers it (induction over the loop, no bound). The model is tied to the real function by evaluating the real function on its entire domain on every run.",
        "design_ref": "DESIGN.md §6 C18",
        "note": "Trusted: Lean kernel, harness/table generator, exhaustive sweep harness. Model.encodeDictCap is hand-written (tied exhaustively); decode side is regenerated.",
        "technique": "Lean 4 proof (induction over binary search; decide over regenerated 256-entry table) + exhaustive correspondence on all 2^32-1 inputs",
    },
    "C16": {
        "text": "Proof: Lean theorems over the regenerated transition table of chunkState.next show, for chunk-header sequences of every length, that the reader accepts iff the format's two-flag automaton does and rejects at the offending chunk; that headerChunkType equals the format's control-byte table on all 256 bytes; and that the writer's chunk-type bookkeeping only produces legal sequences. Realised streams through the real Reader2 tie decoding and limits.",
        "design_ref": "DESIGN.md §6 C16",
        "note": "Trusted: Lean kernel, table generator (calls the real functions on their whole finite domain), hand-written Model.writerRun for the writer's chunk-type choice; size limits and decoding of accepted sequences are checked by correspondence, not proved.",
        "technique": "Lean 4 proof (refinement of regenerated finite transition table to the format automaton, lifted by induction) + exhaustive bounded correspondence",
    },
}

NOT_APPLICABLE = {p: "check not built yet in this round (work in progress; see DESIGN.md §8)" for p in
                  ["C%02d" % i for i in range(1, 19)]}
