package main

import (
	"fmt"
	"math/rand"
	"strings"

	"github.com/ulikunitz/xz/lzma"
)

// Correspondence of the ring-level model (Model/Ring.lean: buffer.go, decoderdict.go, encoderdict.go with their
// index arithmetic) with the real types: random operation scripts, biased towards tiny capacities so that every
// wrap-around position is hit, run on both sides; every observation must be equal.

type ringCase struct {
	Op   string   `json:"op"`
	Kind string   `json:"kind"`
	Args []int    `json:"args"`
	Cmds []string `json:"cmds"`
}

func smallBytes(rng *rand.Rand, n int) []byte {
	p := make([]byte, n)
	alpha := 1 + rng.Intn(3)
	for i := range p {
		p[i] = byte(rng.Intn(alpha))
	}
	return p
}

func genRingCase(rng *rand.Rand) ringCase {
	kind := []string{"buf", "ddict", "edict"}[rng.Intn(3)]
	size := 1 + rng.Intn(24)
	if rng.Intn(6) == 0 {
		size = 270 + rng.Intn(300)
	}
	c := ringCase{Op: "ring-script", Kind: kind, Args: []int{size}}
	if kind == "edict" {
		bs := 1 + rng.Intn(16)
		if rng.Intn(4) == 0 {
			bs = 273 + rng.Intn(30)
		}
		c.Args = []int{size, bs}
		size += bs
	}
	n := 5 + rng.Intn(60)
	// shadow of the encoder dictionary's counters, so that most discards are legal
	edBuffered, edHead := 0, 0
	for i := 0; i < n; i++ {
		l := rng.Intn(size + 4)
		if rng.Intn(3) == 0 {
			l = rng.Intn(4)
		}
		switch kind {
		case "buf":
			switch rng.Intn(8) {
			case 0, 1:
				c.Cmds = append(c.Cmds, "w:"+hxe(smallBytes(rng, l)))
			case 2:
				c.Cmds = append(c.Cmds, fmt.Sprintf("wb:%d", rng.Intn(3)))
			case 3:
				c.Cmds = append(c.Cmds, fmt.Sprintf("r:%d", l))
			case 4:
				c.Cmds = append(c.Cmds, fmt.Sprintf("pk:%d", l))
			case 5:
				c.Cmds = append(c.Cmds, fmt.Sprintf("d:%d", l))
			case 6:
				c.Cmds = append(c.Cmds, fmt.Sprintf("ml:%d:%s", 1+rng.Intn(size+1), hxe(smallBytes(rng, rng.Intn(12)))))
			default:
				c.Cmds = append(c.Cmds, "st")
			}
		case "ddict":
			switch rng.Intn(9) {
			case 0:
				c.Cmds = append(c.Cmds, fmt.Sprintf("wb:%d", rng.Intn(256)))
			case 1, 2, 3:
				ln := rng.Intn(8)
				if rng.Intn(5) == 0 {
					ln = rng.Intn(280)
				}
				c.Cmds = append(c.Cmds, fmt.Sprintf("wm:%d:%d", rng.Intn(size+3), ln))
			case 4:
				c.Cmds = append(c.Cmds, "w:"+hxe(genRandom(rng, l)))
			case 5, 6:
				c.Cmds = append(c.Cmds, fmt.Sprintf("r:%d", l))
			case 7:
				c.Cmds = append(c.Cmds, fmt.Sprintf("ba:%d", rng.Intn(size+3)))
			default:
				c.Cmds = append(c.Cmds, "st")
			}
		case "edict":
			switch rng.Intn(9) {
			case 0, 1, 2:
				c.Cmds = append(c.Cmds, "w:"+hxe(smallBytes(rng, l)))
				dl := edHead
				if dl > c.Args[0] {
					dl = c.Args[0]
				}
				if av := size - edBuffered - dl; l > av {
					l = av
				}
				edBuffered += l
			case 3, 4:
				k := 0
				if edBuffered > 0 {
					k = 1 + rng.Intn(edBuffered)
				}
				if k > 273 {
					k = 273
				}
				if rng.Intn(200) == 0 {
					k = edBuffered + 1 + rng.Intn(3) // illegal: the real code panics
				}
				c.Cmds = append(c.Cmds, fmt.Sprintf("d:%d", k))
				if k <= edBuffered {
					edBuffered -= k
					edHead += k
				}
			case 5:
				c.Cmds = append(c.Cmds, fmt.Sprintf("ba:%d", rng.Intn(size+3)))
			case 6:
				c.Cmds = append(c.Cmds, fmt.Sprintf("cn:%d", l))
			case 7:
				c.Cmds = append(c.Cmds, fmt.Sprintf("ml:%d:%d", 1+rng.Intn(size+1), rng.Intn(12)))
			default:
				c.Cmds = append(c.Cmds, "st")
			}
		}
	}
	return c
}

func runRingCase(r *Result, dp *DriverPool, c ringCase) error {
	goOut := lzma.VerifRingScript(c.Kind, c.Args, c.Cmds)
	var args []string
	for _, a := range c.Args {
		args = append(args, fmt.Sprint(a))
	}
	rep, err := dp.Ask(fmt.Sprintf("ring %s %s %s", c.Kind, strings.Join(args, " "), strings.Join(c.Cmds, " ")))
	if err != nil {
		return err
	}
	m := strings.Fields(rep)
	r.mu.Lock()
	r.TracesVsImpl++
	r.mu.Unlock()
	r.Inc("ring_scripts_" + c.Kind)
	r.Add("ring_ops", len(c.Cmds))
	for i, g := range goOut {
		if i >= len(m) || m[i] != g {
			got := "<none>"
			if i < len(m) {
				got = m[i]
			}
			r.Violate("broken-correspondence", "ring-model "+c.Kind+" "+strings.SplitN(c.Cmds[min(i, len(c.Cmds)-1)], ":", 2)[0], c,
				fmt.Sprintf("operation %d (%s) on the real %s gives %q, the Lean ring model gives %q", i, c.Cmds[min(i, len(c.Cmds)-1)], c.Kind, g, got))
			return nil
		}
		if g == "panic" {
			r.Inc("ring_panics")
			break
		}
	}
	return nil
}

func ringTie(r *Result, dp *DriverPool, rng *rand.Rand, n int) error {
	for i := 0; i < n; i++ {
		if err := runRingCase(r, dp, genRingCase(rng)); err != nil {
			return err
		}
	}
	return nil
}

func min(a, b int) int {
	if a < b {
		return a
	}
	return b
}
