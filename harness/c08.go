package main

import (
	"bytes"
	"fmt"
	"math/rand"
	"strings"
	"sync"
	"sync/atomic"
	"time"

	"github.com/ulikunitz/xz/lzma"
)

// one call of a Writer2 history
type w2Op struct {
	Kind string `json:"kind"` // write | flush | close
	Data string `json:"data_hex,omitempty"`
}

type w2Case struct {
	Op      string `json:"op"`
	Name    string `json:"name"`
	LC      int    `json:"lc"`
	LP      int    `json:"lp"`
	PB      int    `json:"pb"`
	DictCap int    `json:"dict_cap"`
	BufSize int    `json:"buf_size"`
	Matcher int    `json:"matcher"`
	Hist    []w2Op `json:"history"`
	// Opsfit != 0: every write whose data is "@opsfit" carries the generated input with this many
	// filler literals (harness/opsfit_gen.go: one far match with all adaptive contexts trained against it,
	// placed where the compressed chunk is nearly full)
	Opsfit int `json:"opsfit_filler,omitempty"`
	// Zero: pass the zero Writer2Config (the fields above then hold the documented defaults)
	Zero bool `json:"zero_config,omitempty"`
}

func (c w2Case) data(op w2Op) []byte {
	if op.Data == "@opsfit" {
		d, _ := opsfitGenerate(opsfitParams{Seed: 1, Filler: c.Opsfit, Tail: 1000})
		return d
	}
	return unhxe(op.Data)
}

func (c w2Case) config() lzma.Writer2Config {
	if c.Zero {
		return lzma.Writer2Config{}
	}
	return lzma.Writer2Config{Properties: &lzma.Properties{LC: c.LC, LP: c.LP, PB: c.PB}, DictCap: c.DictCap, BufSize: c.BufSize, Matcher: lzma.MatchAlgorithm(c.Matcher)}
}

func genHistory(rng *rand.Rand, matcher int, big bool) (ops []w2Op, name string) {
	n := 1 + rng.Intn(10)
	closed := false
	var kinds []string
	for i := 0; i < n; i++ {
		switch k := rng.Intn(10); {
		case k < 6:
			max := 9000
			if big && matcher == 0 {
				max = 150000
			}
			var data []byte
			switch rng.Intn(4) {
			case 0:
				data = genRandom(rng, rng.Intn(max+1))
			case 1:
				data = genText(rng, rng.Intn(max+1))
			case 2:
				data = nil
			default:
				_, data = pickData(rng, max)
			}
			if matcher == 1 && len(data) > 6000 {
				data = data[:6000]
			}
			ops = append(ops, w2Op{Kind: "write", Data: hxe(data)})
			kinds = append(kinds, fmt.Sprintf("w%d", len(data)))
		case k < 9:
			ops = append(ops, w2Op{Kind: "flush"})
			kinds = append(kinds, "F")
		default:
			ops = append(ops, w2Op{Kind: "close"})
			kinds = append(kinds, "C")
			closed = true
		}
	}
	if !closed || rng.Intn(3) == 0 {
		ops = append(ops, w2Op{Kind: "close"})
		kinds = append(kinds, "C")
	}
	return ops, strings.Join(kinds, " ")
}

func decodeLzma2Both(dp *DriverPool, s []byte, cap int) (goOut []byte, goErr string, m *modelRead, err error) {
	g := goLzma2Read(s, cap, 60*time.Second)
	rep, err := dp.Ask(fmt.Sprintf("lzma2read 1 %d %s", cap, hxe(s)))
	if err != nil {
		return nil, "", nil, err
	}
	m, err = parseModelRead(rep)
	e := g.Err
	if g.OpenErr {
		e = "open:" + e
	}
	return g.Out, e + " " + g.Msg + g.Panic, m, err
}

func runW2Case(r *Result, dp *DriverPool, cs w2Case) {
	if tooManyTimeouts() {
		r.Inc("cases_skipped_after_timeouts")
		return
	}
	viol := func(kind, sig, note string) { r.Violate(kind, sig, cs, note) }
	var buf bytes.Buffer
	var w *lzma.Writer2
	var err error
	done := withTimeout(180*time.Second, func() {
		w, err = cs.config().NewWriter2(&buf)
		if err != nil {
			return
		}
		var written []byte
		closed := false
		flushes, pendingFlushes := 0, 0
		for i, op := range cs.Hist {
			before := buf.Len()
			switch op.Kind {
			case "write":
				p := cs.data(op)
				res := guard(func() (int, error) { return w.Write(p) })
				if closed {
					if res.Err == "nil" && len(p) > 0 || res.Err == "Panic" || buf.Len() != before {
						viol("counterexample", "write-after-close", fmt.Sprintf("call %d: Write after Close returned %v and emitted %d bytes", i, res, buf.Len()-before))
					}
					continue
				}
				if res.Err != "nil" || res.N != len(p) {
					viol("counterexample", fmt.Sprintf("write-error matcher=%d: %s %s", cs.Matcher, res.Err, truncate(res.Msg+res.Panic, 50)), fmt.Sprintf("call %d: Write(%d bytes) = %+v", i, len(p), res))
					return
				}
				written = append(written, p...)
			case "flush":
				pending := buf.Len()
				res := guard(func() (int, error) { return 0, w.Flush() })
				if closed {
					if res.Err == "nil" || res.Err == "Panic" || buf.Len() != before {
						viol("counterexample", "flush-after-close", fmt.Sprintf("call %d: Flush after Close returned %+v", i, res))
					}
					continue
				}
				if res.Err != "nil" {
					viol("counterexample", "flush-error "+res.Err, fmt.Sprintf("call %d: Flush = %+v", i, res))
					return
				}
				flushes++
				// a second flush right away must emit nothing
				mid := buf.Len()
				res2 := guard(func() (int, error) { return 0, w.Flush() })
				if res2.Err != "nil" || buf.Len() != mid {
					viol("counterexample", "idle-flush-emits", fmt.Sprintf("call %d: a Flush with nothing pending emitted %d bytes / returned %+v", i, buf.Len()-mid, res2))
				}
				if buf.Len() != pending {
					pendingFlushes++
				}
				// prefix + end marker must decode to everything written so far
				prefix := append(append([]byte{}, buf.Bytes()...), 0)
				gout, gerr, m, derr := decodeLzma2Both(dp, prefix, cs.DictCap)
				if derr != nil {
					viol("broken-correspondence", "driver", derr.Error())
					return
				}
				if !strings.HasPrefix(gerr, "EOF") || !bytes.Equal(gout, written) {
					viol("counterexample", fmt.Sprintf("flush-prefix-undecodable matcher=%d (library reader): %s", cs.Matcher, truncate(gerr, 50)),
						fmt.Sprintf("after the Flush at call %d the emitted bytes (plus end marker) decode to %d bytes with status %q; %d bytes were written", i, len(gout), gerr, len(written)))
					return
				}
				if m.Class != "EOF" || !bytes.Equal(m.Out, written) {
					viol("counterexample", fmt.Sprintf("flush-prefix-undecodable matcher=%d (reference decoder): %s", cs.Matcher, m.Detail),
						fmt.Sprintf("after the Flush at call %d the Lean reference decoder gets %d bytes, %s; %d bytes were written", i, len(m.Out), m.Detail, len(written)))
					return
				}
			case "close":
				res := guard(func() (int, error) { return 0, w.Close() })
				if closed {
					if res.Err == "nil" || res.Err == "Panic" || buf.Len() != before {
						viol("counterexample", "close-after-close", fmt.Sprintf("call %d: second Close returned %+v, emitted %d bytes", i, res, buf.Len()-before))
					}
					continue
				}
				if res.Err != "nil" {
					viol("counterexample", "close-error "+res.Err+" "+truncate(res.Msg+res.Panic, 40), fmt.Sprintf("call %d: Close = %+v", i, res))
					return
				}
				closed = true
				gout, gerr, m, derr := decodeLzma2Both(dp, buf.Bytes(), cs.DictCap)
				if derr != nil {
					viol("broken-correspondence", "driver", derr.Error())
					return
				}
				if !strings.HasPrefix(gerr, "EOF") || !bytes.Equal(gout, written) {
					viol("counterexample", fmt.Sprintf("final-undecodable matcher=%d (library reader): %s", cs.Matcher, truncate(gerr, 50)),
						fmt.Sprintf("complete output decodes to %d bytes with status %q; %d bytes were written", len(gout), gerr, len(written)))
					return
				}
				if m.Class != "EOF" || !bytes.Equal(m.Out, written) || m.Pos != buf.Len() {
					viol("counterexample", fmt.Sprintf("final-undecodable matcher=%d (reference decoder): %s", cs.Matcher, m.Detail),
						fmt.Sprintf("Lean reference decoder: %d bytes, %s, consumed %d of %d; %d bytes were written", len(m.Out), m.Detail, m.Pos, buf.Len(), len(written)))
					return
				}
				for _, ck := range strings.Split(m.Info, ",") {
					r.Inc("chunk_" + strings.SplitN(ck, ":", 2)[0])
				}
				re, derr := dp.Ask(fmt.Sprintf("lzma2reenc %d %s", cs.DictCap, hxe(buf.Bytes())))
				if derr != nil {
					viol("broken-correspondence", "driver", derr.Error())
					return
				}
				r.mu.Lock()
				r.TracesVsImpl++
				r.mu.Unlock()
				if re != hxe(buf.Bytes()) {
					viol("broken-correspondence", fmt.Sprintf("reencode matcher=%d differs", cs.Matcher), "Lean model encoder, fed the parsed chunks and operations, produces different bytes: "+truncate(re, 60))
				}
				r.Count(cs.Name+fmt.Sprint(cs.LC, cs.LP, cs.PB, cs.DictCap, cs.BufSize, cs.Matcher, len(written)), pendingFlushes >= 1 && strings.Count(m.Info, ":") >= 12)
				r.Add("input_bytes", len(written))
				r.Add("flushes", flushes)
				r.Sample(map[string]interface{}{"history": cs.Name, "cfg": fmt.Sprintf("lc%d lp%d pb%d dict%d buf%d m%d", cs.LC, cs.LP, cs.PB, cs.DictCap, cs.BufSize, cs.Matcher), "chunks": truncate(m.Info, 140)})
			}
		}
	})
	if !done {
		viol("counterexample", "timeout", "history did not finish in 180 s")
	}
	if err != nil {
		viol("counterexample", "new-writer: "+err.Error(), "NewWriter2 failed for a valid configuration")
	}
}

// C08: LZMA2 writer — lossless for any call history; Flush yields a decodable prefix.
func checkC08(a *checkArgs, r *Result) error {
	dp, err := newDriverPool(a.driver, 16)
	if err != nil {
		return err
	}
	defer dp.Close()
	r.Rule = "generated call histories over {Write(p), Flush, Close} incl. calls after Close, redundant Flush, empty writes, alternating compressible/incompressible payloads, flushes around the 64 KiB / 2 MiB chunk limits x Writer2Config (all lc+lp<=4, 4096-byte dictionary, 273-byte look-ahead, both matchers); after every Flush the sink prefix (+end marker) and after Close the whole sink are decoded by the real Reader2 and by the Lean reference decoder; the Lean model re-encodes the parsed chunks (bytes identical). Non-trivial: >= 1 Flush with pending data and >= 2 chunks; distinct by (history, config)."
	rng := rand.New(rand.NewSource(a.seed))
	n, nbig := 1500, 24
	if a.tier == "thorough" {
		n, nbig = 5000, 120
	}
	var cases []w2Case
	// corpus: two consecutive raw chunks followed by compressible data (state snapshot across raw chunks)
	noise := genRandom(rand.New(rand.NewSource(3)), 70000)
	cases = append(cases, w2Case{Op: "writer2-history", Name: "corpus/raw raw compressed", LC: 3, PB: 2, DictCap: 1 << 20, BufSize: 4096,
		Hist: []w2Op{{"write", hxe(noise)}, {"flush", ""}, {"write", hxe(noise[:66000])}, {"flush", ""}, {"write", hxe(genText(rng, 5000))}, {"close", ""}}})
	cases = append(cases, w2Case{Op: "writer2-history", Name: "corpus/small dict random", LC: 3, PB: 2, DictCap: 4096, BufSize: 273,
		Hist: []w2Op{{"write", hxe(genRandom(rng, 150000))}, {"flush", ""}, {"write", hxe(genText(rng, 3000))}, {"close", ""}}})
	for i := 0; i < n; i++ {
		t := lclppb[rng.Intn(len(lclppb))]
		c := w2Case{Op: "writer2-history", LC: t[0], LP: t[1], PB: t[2], DictCap: []int{4096, 4097, 65536, 1 << 20}[rng.Intn(4)],
			BufSize: []int{273, 274, 4096}[rng.Intn(3)], Matcher: rng.Intn(2)}
		c.Hist, c.Name = genHistory(rng, c.Matcher, i < nbig)
		cases = append(cases, c)
	}
	// more than 2 MiB between flushes (uncompressed chunk limit)
	big := 1
	if a.tier == "thorough" {
		big = 6
	}
	// > 1 MiB in a single chunk (size field bits 16..20): needs better than 16:1 compression
	rep := bytes.Repeat([]byte("all work and no play makes jack a dull boy. "), 60000)
	cases = append(cases, w2Case{Op: "writer2-history", Name: fmt.Sprintf("big/repetitive w%d C", len(rep)), LC: 3, PB: 2, DictCap: 1 << 20, BufSize: 4096,
		Hist: []w2Op{{"write", hxe(rep)}, {"flush", ""}, {"write", hxe(rep[:1500000])}, {"close", ""}}})
	// one far match that costs 17-18 range-coder bytes, started where the compressed chunk has 16..21 bytes of
	// room left (F17: opLenMargin smaller than worst-case operation + Close); the filler length moves the alignment
	fillers := []int{93900, 93906, 93912, 93918, 93924, 93930, 93936, 93942}
	if a.tier == "thorough" {
		fillers = nil
		for f := 93870; f <= 93960; f++ {
			fillers = append(fillers, f)
		}
	}
	for _, f := range fillers {
		cases = append(cases, w2Case{Op: "writer2-history", Name: fmt.Sprintf("corpus/opsfit filler=%d", f), LC: 3, PB: 2, DictCap: 8 << 20, BufSize: 4096,
			Opsfit: f, Hist: []w2Op{{"write", "@opsfit"}, {"close", ""}}})
	}
	// the zero configuration: every field defaulted by fill(); the model runs with the documented defaults
	for i := 0; i < 6; i++ {
		c := w2Case{Op: "writer2-history", LC: 3, PB: 2, DictCap: 8 << 20, BufSize: 4096, Zero: true}
		c.Hist, c.Name = genHistory(rng, 0, i < 2)
		c.Name = "zero-config/" + c.Name
		cases = append(cases, c)
	}
	// a ring only just larger than a full chunk, a large look-ahead, incompressible data: whether the chunk can still be
	// copied raw out of the ring depends on the look-ahead bytes that occupy part of it
	for i := 0; i < 6; i++ {
		d := genRandom(rng, 140000+rng.Intn(40000))
		cases = append(cases, w2Case{Op: "writer2-history", Name: fmt.Sprintf("tight-ring/w%d C", len(d)), LC: 3, PB: 2,
			DictCap: 56000 + rng.Intn(9000), BufSize: []int{8192, 16384, 12000}[i%3], Matcher: 0,
			Hist: []w2Op{{"write", hxe(d)}, {"close", ""}}})
	}
	for i := 0; i < 4; i++ {
		d := genBarely(rng, 140000+rng.Intn(60000))
		cases = append(cases, w2Case{Op: "writer2-history", Name: fmt.Sprintf("barely/w%d C", len(d)), LC: 3, PB: 2, DictCap: []int{1 << 20, 65536}[i%2], BufSize: 4096,
			Hist: []w2Op{{"write", hxe(d)}, {"close", ""}}})
	}
	for i := 0; i < big; i++ {
		d := genLowEntropy(rng, 2200000+rng.Intn(200000))
		cases = append(cases, w2Case{Op: "writer2-history", Name: fmt.Sprintf("big/w%d F w100 C", len(d)), LC: 3, PB: 2, DictCap: 1 << 20, BufSize: 4096,
			Hist: []w2Op{{"write", hxe(d)}, {"flush", ""}, {"write", hxe(d[:100])}, {"close", ""}}})
	}
	var wg sync.WaitGroup
	sem := make(chan struct{}, 16)
	for _, cs := range cases {
		wg.Add(1)
		sem <- struct{}{}
		go func(cs w2Case) {
			defer wg.Done()
			defer func() { <-sem }()
			before := atomic.LoadInt32(&timeoutsSeen)
			runW2Case(r, dp, cs)
			if atomic.LoadInt32(&timeoutsSeen) != before || tooManyTimeouts() {
				return // the writer stalled: reported above; the model ties would stall as well
			}
			if cs.Opsfit == 0 || cs.Opsfit == 93918 {
				runW2Model(r, dp, cs)
			}
			if cs.Opsfit == 0 {
				runW2Auto(r, dp, cs)
			}
		}(cs)
	}
	wg.Wait()
	r.Extra["driver_requests"] = dp.Requests()
	return nil
}

func init() { checks["C08"] = checkC08 }
