package main

import (
	"fmt"
	"strings"

	"github.com/ulikunitz/xz/lzma"
)

var kindNames = []string{"eos", "ud", "u", "l", "lr", "lrn", "lrnd"}

// Go's chunk type numbers by kind index (same order as kindNames).
func kindCtype(k int) byte {
	c := lzma.VerifConsts()
	return byte(c[map[int]string{0: "cEOS", 1: "cUD", 2: "cU", 3: "cL", 4: "cLR", 5: "cLRN", 6: "cLRND"}[k]])
}

// goSeq runs the real chunkState.next over a sequence of kinds.
func goSeq(seq []int) (accepted bool, rejectAt int) {
	st := byte(lzma.VerifConsts()["stateStart"])
	for i, k := range seq {
		n, ok := lzma.VerifChunkNext(st, kindCtype(k))
		if !ok {
			return false, i
		}
		st = n
	}
	return true, -1
}

func init() { checks["C16"] = checkC16 }

func checkC16(a *checkArgs, r *Result) error {
	d, err := startDriver(a.driver)
	if err != nil {
		return err
	}
	defer d.Close()
	r.Rule = "exhaustive: all 256 control bytes (real headerChunkType vs Spec.ctrl); every sequence over the 7 chunk kinds up to length L (5 quick, 7 thorough) through the real chunkState.next vs Model.readerAccepts/Spec.legal incl. rejection index; each sequence up to length Ls realised as a concrete LZMA2 stream by the Lean spec encoder and read by the real Reader2 (accept/reject, bytes). Non-trivial: sequence of length >= 2; distinct by sequence."
	r.Exhaustive = true
	for b := 0; b < 256; b++ {
		c, ok := lzma.VerifHeaderChunkType(byte(b))
		want := "none"
		if ok {
			want = fmt.Sprint(c)
		}
		rep, err := d.Ask(fmt.Sprintf("ctrl %d", b))
		if err != nil {
			return err
		}
		r.Count(fmt.Sprintf("ctrl%d", b), true)
		if rep != want {
			r.Violate("counterexample", fmt.Sprintf("ctrl byte %#x", b),
				map[string]interface{}{"op": "ctrl", "byte": b, "go": want, "spec": rep},
				"headerChunkType disagrees with the format's control byte table")
		}
	}
	r.Add("control_bytes", 256)
	maxLen := 5
	if a.tier == "thorough" {
		maxLen = 7
	}
	seq := []int{}
	var rec func() error
	rec = func() error {
		if len(seq) > 0 {
			names := make([]string, len(seq))
			for i, k := range seq {
				names[i] = kindNames[k]
			}
			rep, err := d.Ask("chunkseq " + strings.Join(names, " "))
			if err != nil {
				return err
			}
			acc, at := goSeq(seq)
			ats := "none"
			if at >= 0 {
				ats = fmt.Sprint(at)
			}
			want := fmt.Sprintf("%v %s %v %s", acc, ats, acc, ats)
			r.Count(strings.Join(names, ","), len(seq) >= 2)
			r.TracesVsImpl++
			if len(seq) == 4 {
				r.Sample(map[string]interface{}{"seq": names, "go": fmt.Sprintf("%v %s", acc, ats), "model_and_spec": rep})
			}
			if rep != want {
				f := strings.Fields(rep)
				kind := "broken-correspondence"
				if len(f) == 4 && (f[2] != fmt.Sprint(acc) || f[3] != ats) {
					kind = "counterexample"
				}
				r.Violate(kind, "chunk sequence "+strings.Join(names, " "),
					map[string]interface{}{"op": "chunkseq", "seq": names, "go_accepts": acc, "go_reject_at": at, "model_spec": rep},
					"chunkState.next accepts/rejects differently from the format's rules (model accepts, model reject index, spec legal, spec illegal index)")
			}
		}
		if len(seq) == maxLen {
			return nil
		}
		for k := 0; k < 7; k++ {
			seq = append(seq, k)
			if err := rec(); err != nil {
				return err
			}
			seq = seq[:len(seq)-1]
		}
		return nil
	}
	if err := rec(); err != nil {
		return err
	}
	r.Extra["max_sequence_length"] = maxLen
	if err := c16Streams(a, r, d); err != nil {
		return err
	}
	if err := c16Writer(a, r, d); err != nil {
		return err
	}
	r.Extra["driver_requests"] = d.N
	return nil
}

// c16Streams is filled in by lzma2.go once the spec encoder exists.
var c16Streams = func(a *checkArgs, r *Result, d *Driver) error { return nil }
