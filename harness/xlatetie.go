package main

// xlate-exec tie: validation of the TRANSLATOR (xlate.go, trusted base of the regenerated Gen/GoSrc.lean).
// The real Go functions (through build-tagged shims) and their translations (run by the driver from the
// definitions the theorems are about) execute the same scripts; every observation must be equal:
//   * range encoder: random scripts of adaptive / direct bits and Close under byte limits from tiny to 2^63-1,
//     biased towards long 0xff carry runs; per step error, low, nrange, cacheLen, cache, N, bytes written, probability;
//   * range decoder: random and encoder-produced byte strings, truncated ones; per step bit, error, nrange, code, …;
//   * pure functions (prob inc/dec/bound, lenState, four state updates, states, litState, nlz32) on boundary and random values.
// A disagreement means the translator's semantics of a Go construct is wrong (or the shim is): a broken tie.

import (
	"bytes"
	"fmt"
	"io"
	"math/rand"
	"os"
	"path/filepath"
	"strings"

	"github.com/ulikunitz/xz"
	"github.com/ulikunitz/xz/lzma"
)

// canonPanics maps the runtime's panic texts (which carry the offending numbers) and the translation's to one form
func canonPanics(out string) string {
	parts := strings.Split(out, "|")
	for i, p := range parts {
		if !strings.HasPrefix(p, "panic:") {
			continue
		}
		switch {
		case strings.Contains(p, "slice bounds out of range"):
			parts[i] = "panic:slice-bounds"
		case strings.Contains(p, "index out of range"):
			parts[i] = "panic:index"
		case p == "panic:panic" || strings.HasPrefix(p, "panic:match length") || strings.HasPrefix(p, "panic:match distance") ||
			strings.HasPrefix(p, "panic:unsupported chunk type"):
			// an explicit panic whose argument is built at run time (fmt.Errorf): the translation keeps no text
			parts[i] = "panic:explicit"
		}
	}
	return strings.Join(parts, "|")
}

func xlateEncScript(rng *rand.Rand, n int) []string {
	var s []string
	mode := rng.Intn(4)
	for i := 0; i < n; i++ {
		switch {
		case mode == 0 && rng.Intn(3) > 0:
			// many equal direct bits: `low` creeps towards 0xff…: pending runs
			s = append(s, fmt.Sprintf("d%d", 1))
		case rng.Intn(4) == 0:
			s = append(s, fmt.Sprintf("d%d", rng.Intn(2)))
		default:
			pi := rng.Intn(8)
			b := rng.Intn(2)
			if mode == 1 {
				b = 1 // drives probabilities to their floor
			}
			if mode == 2 && pi < 4 {
				b = 0
			}
			s = append(s, fmt.Sprintf("a%d%d", pi, b))
		}
	}
	if rng.Intn(4) > 0 {
		s = append(s, "c")
	}
	return s
}

func xlateTie(r *Result, mainPool *DriverPool, rng *rand.Rand, n int) error {
	// the translated definitions run in their own executable (lean/GoSrcDriver.lean), next to the main driver
	gpath := filepath.Join(filepath.Dir(mainPool.path), "gosrc")
	dp, err := newDriverPool(gpath, 8)
	if err != nil {
		// what the translator could not translate (Gen.GoSrc.failures), to name the cause in the replay
		fails := ""
		if raw, rerr := os.ReadFile(filepath.Join(verifRoot(), "lean", "XzVerif", "Gen", "GoSrc.lean")); rerr == nil {
			for _, ln := range strings.Split(string(raw), "\n") {
				if strings.HasPrefix(ln, "def failures") {
					fails = truncate(ln, 1500)
				}
			}
		}
		r.Violate("broken-correspondence", "xlate-exec driver", map[string]interface{}{"op": "xlate-exec", "path": gpath, "translation_failures": fails},
			"the executable around the translated source (gosrc) is missing or does not start: the translation of the current source no longer builds — "+err.Error())
		return nil
	}
	defer dp.Close()
	mism := func(what, req string, goOut, leanOut string) {
		r.Violate("broken-correspondence", "xlate-exec "+what,
			map[string]interface{}{"op": "xlate-exec", "request": truncate(req, 2000), "go": truncate(goOut, 2000), "lean": truncate(leanOut, 2000)},
			"the translation of the Go source (Gen/GoSrc.lean) and the Go code itself behave differently on the same script: the translator's reading of a construct is wrong")
	}
	// encoder
	var streams [][]byte
	for i := 0; i < n; i++ {
		k := 1 + rng.Intn(400)
		if rng.Intn(10) == 0 {
			k = 2000 + rng.Intn(3000)
		}
		script := xlateEncScript(rng, k)
		var limit int64
		switch rng.Intn(4) {
		case 0:
			limit = int64(rng.Intn(40))
		case 1:
			limit = int64(k/8 + rng.Intn(20))
		case 2:
			limit = 1<<63 - 1
		default:
			limit = int64(5 + rng.Intn(2000))
		}
		goOut := strings.Join(lzma.VerifRcEncScript(limit, script), "|")
		req := fmt.Sprintf("gosrc enc %d %s", limit, strings.Join(script, " "))
		leanOut, err := dp.Ask(req)
		if err != nil {
			return err
		}
		r.Count("xlate-enc/"+req, true)
		if goOut != leanOut {
			mism("encoder", req, goOut, leanOut)
		}
		if strings.Contains(goOut, "ErrLimit") {
			r.Inc("xlate_enc_limit_hit")
		}
		if j := strings.LastIndex(goOut, "out="); j >= 0 && len(goOut)-j > 16 {
			streams = append(streams, unhx(goOut[j+4:]))
		}
	}
	r.Add("xlate_enc_scripts", n)
	// decoder
	for i := 0; i < n; i++ {
		var data []byte
		switch {
		case len(streams) > 0 && rng.Intn(2) == 0:
			data = append([]byte{}, streams[rng.Intn(len(streams))]...)
			if rng.Intn(3) == 0 {
				data = data[:rng.Intn(len(data)+1)]
			}
		default:
			data = make([]byte, rng.Intn(60))
			rng.Read(data)
			if len(data) > 0 && rng.Intn(8) > 0 {
				data[0] = 0
			}
			if len(data) > 4 && rng.Intn(6) == 0 {
				data[1], data[2], data[3], data[4] = 0xff, 0xff, 0xff, byte(0xfe+rng.Intn(2))
			}
		}
		k := 1 + rng.Intn(600)
		var script []string
		for j := 0; j < k; j++ {
			if rng.Intn(4) == 0 {
				script = append(script, "d")
			} else {
				script = append(script, fmt.Sprintf("a%d", rng.Intn(8)))
			}
		}
		goOut := strings.Join(lzma.VerifRcDecScript(data, script), "|")
		req := fmt.Sprintf("gosrc dec %s %s", hx(data)+"", strings.Join(script, " "))
		if len(data) == 0 {
			req = fmt.Sprintf("gosrc dec - %s", strings.Join(script, " "))
		}
		leanOut, err := dp.Ask(req)
		if err != nil {
			return err
		}
		r.Count("xlate-dec/"+req, true)
		if goOut != leanOut {
			mism("decoder", req, goOut, leanOut)
		}
		if strings.Contains(goOut, "io.EOF") {
			r.Inc("xlate_dec_eof_hit")
		}
	}
	r.Add("xlate_dec_scripts", n)
	// the bit-level codecs: encode a random list of symbols (tree / reverse tree / direct / length / distance codecs),
	// close, reopen as a decoder and decode the same list; every step's observation must be equal
	for i := 0; i < n/2; i++ {
		var encs, decs []string
		k := 1 + rng.Intn(60)
		for j := 0; j < k; j++ {
			switch rng.Intn(8) {
			case 6, 7:
				// literal codec (lc = 2, lp = 0: four literal states); matched literals equal to / sharing a prefix with the match byte
				sym, st, ls := rng.Intn(256), rng.Intn(12), rng.Intn(4)
				mb := rng.Intn(256)
				switch rng.Intn(3) {
				case 0:
					mb = sym
				case 1:
					mb = sym ^ (1 << uint(rng.Intn(8)))
				}
				if rng.Intn(40) == 0 {
					ls = 4 + rng.Intn(3) // outside the slice: Go's slice-bounds panic
				}
				encs = append(encs, fmt.Sprintf("Le,%d,%d,%d,%d", sym, st, mb, ls))
				decs = append(decs, fmt.Sprintf("Ld,%d,%d,%d", st, mb, ls))
			case 0:
				slot := rng.Intn(4)
				encs = append(encs, fmt.Sprintf("te,%d,%d", slot, rng.Uint32()>>uint(rng.Intn(32))))
				decs = append(decs, fmt.Sprintf("td,%d", slot))
			case 1:
				slot := rng.Intn(4)
				encs = append(encs, fmt.Sprintf("re,%d,%d", slot, rng.Uint32()>>uint(rng.Intn(32))))
				decs = append(decs, fmt.Sprintf("rd,%d", slot))
			case 2:
				nb := rng.Intn(27)
				encs = append(encs, fmt.Sprintf("de,%d,%d", nb, rng.Uint32()))
				decs = append(decs, fmt.Sprintf("dd,%d", nb))
			case 3:
				l := rng.Intn(272)
				if rng.Intn(20) == 0 {
					l = 272 + rng.Intn(3) // 272 and above: refused by the encoder
				}
				ps := rng.Intn(16)
				encs = append(encs, fmt.Sprintf("le,%d,%d", l, ps))
				if l <= 271 {
					decs = append(decs, fmt.Sprintf("ld,%d", ps))
				}
			default:
				var dist uint32
				switch rng.Intn(4) {
				case 0:
					dist = uint32(rng.Intn(200))
				case 1:
					dist = uint32(1)<<uint(rng.Intn(32)) - uint32(rng.Intn(2))
				case 2:
					dist = 0xffffffff
				default:
					dist = rng.Uint32() >> uint(rng.Intn(32))
				}
				l := rng.Intn(272)
				encs = append(encs, fmt.Sprintf("De,%d,%d", dist, l))
				decs = append(decs, fmt.Sprintf("Dd,%d", l))
			}
		}
		limit := int64(1<<63 - 1)
		if rng.Intn(4) == 0 {
			limit = int64(5 + rng.Intn(40*k/8+10))
		}
		steps := append(append(append([]string{}, encs...), "close", "open"), decs...)
		if rng.Intn(6) == 0 {
			steps = append(steps, decs...) // decoding past the end: io.EOF and what follows
		}
		var goSteps []string
		for _, st := range steps {
			goSteps = append(goSteps, strings.ReplaceAll(st, ",", " "))
		}
		goOut := strings.Join(lzma.VerifCodecScript(limit, goSteps), "|")
		req := fmt.Sprintf("gosrc codec %d %s", limit, strings.Join(steps, " "))
		leanOut, err := dp.Ask(req)
		if err != nil {
			return err
		}
		r.Count("xlate-codec/"+req, true)
		goOut, leanOut = canonPanics(goOut), canonPanics(leanOut)
		if strings.Contains(goOut, "panic:") {
			r.Inc("xlate_codec_panic_hit")
		}
		if goOut != leanOut {
			mism("codecs", req, goOut, leanOut)
		}
		if strings.Contains(goOut, "ErrLimit") {
			r.Inc("xlate_codec_limit_hit")
		}
	}
	r.Add("xlate_codec_scripts", n/2)
	// the operation level: writeLiteral / writeMatch sequences (rep-register hits, short reps, fresh distances up to the
	// end marker, lengths 1…273), closed, reopened and read back with readOp, also past the end / with a truncated stream
	for i := 0; i < n/4; i++ {
		lc, lp, pb := rng.Intn(9), rng.Intn(5), rng.Intn(5)
		if lc+lp > 5 {
			lc, lp = rng.Intn(4), rng.Intn(3) // keep the probability arrays of the literal codec small
		}
		k := 1 + rng.Intn(40)
		var steps []string
		reps := [4]int64{1, 1, 1, 1}
		for j := 0; j < k; j++ {
			if rng.Intn(3) == 0 {
				steps = append(steps, fmt.Sprintf("wl,%d", rng.Intn(256)))
				continue
			}
			var dist int64
			nn := 2 + rng.Intn(272)
			switch rng.Intn(6) {
			case 0:
				dist = reps[0]
				if rng.Intn(2) == 0 {
					nn = 1
				}
			case 1:
				dist = reps[1+rng.Intn(3)]
			case 2:
				dist = int64(1) << uint(rng.Intn(33))
			case 3:
				dist = 1 << 32 // the end marker
			default:
				dist = 1 + int64(rng.Uint32()>>uint(rng.Intn(32)))
			}
			steps = append(steps, fmt.Sprintf("wm,%d,%d", dist, nn))
			// the harness's own copy of the rep registers (only to aim at them; the tie compares the real ones)
			hit := -1
			for g := 0; g < 4; g++ {
				if reps[g] == dist {
					hit = g
					break
				}
			}
			if hit < 0 {
				hit = 3
			}
			copy(reps[1:hit+1], reps[0:hit])
			reps[0] = dist
		}
		limit := int64(1<<63 - 1)
		if rng.Intn(4) == 0 {
			limit = int64(5 + rng.Intn(8*k+10))
		}
		steps = append(steps, "sume", "close", "open")
		for j := 0; j < k+3; j++ {
			steps = append(steps, "ro")
		}
		steps = append(steps, "sumd")
		var goSteps []string
		for _, st := range steps {
			goSteps = append(goSteps, strings.ReplaceAll(st, ",", " "))
		}
		goOut := canonPanics(strings.Join(lzma.VerifOpScript(limit, lc, lp, pb, goSteps), "|"))
		req := fmt.Sprintf("gosrc op %d %d %d %d %s", limit, lc, lp, pb, strings.Join(steps, " "))
		leanOut, err := dp.Ask(req)
		if err != nil {
			return err
		}
		leanOut = canonPanics(leanOut)
		r.Count("xlate-op/"+req, true)
		if goOut != leanOut {
			mism("operations", req, goOut, leanOut)
		}
		if strings.Contains(goOut, "errEOS") {
			r.Inc("xlate_op_eos_hit")
		}
		if strings.Contains(goOut, "ErrLimit") {
			r.Inc("xlate_op_limit_hit")
		}
	}
	r.Add("xlate_op_scripts", n/4)
	// the hash table of HashTable4: entries with few distinct hashes (long chains), tiny delta rings (chains cut off by
	// the ring), queries in between
	for i := 0; i < n/4; i++ {
		capacity := 1 + rng.Intn(60)
		exp := rng.Intn(5)
		nh := 1 + rng.Intn(6)
		var steps []string
		for j := 0; j < 1+rng.Intn(150); j++ {
			h := uint64(rng.Intn(nh))
			if rng.Intn(8) == 0 {
				h = rng.Uint64()
			}
			if rng.Intn(3) == 0 {
				steps = append(steps, fmt.Sprintf("g,%d", h))
			} else {
				steps = append(steps, fmt.Sprintf("p,%d", h))
			}
		}
		var goSteps []string
		for _, st := range steps {
			goSteps = append(goSteps, strings.ReplaceAll(st, ",", " "))
		}
		goOut := canonPanics(strings.Join(lzma.VerifHashTableScript(capacity, exp, goSteps), "|"))
		req := fmt.Sprintf("gosrc ht %d %d %s", capacity, exp, strings.Join(steps, " "))
		leanOut, err := dp.Ask(req)
		if err != nil {
			return err
		}
		r.Count("xlate-ht/"+req, true)
		if goOut != canonPanics(leanOut) {
			mism("hash table", req, goOut, leanOut)
		}
	}
	r.Add("xlate_ht_scripts", n/4)
	// byteAt of both dictionaries on raw ring states
	for i := 0; i < n; i++ {
		size := 2 + rng.Intn(40)
		data := make([]byte, size)
		rng.Read(data)
		front, rear := rng.Intn(size), rng.Intn(size)
		head := int64(rng.Intn(3 * size))
		capacity := 1 + rng.Intn(size)
		dist := rng.Intn(2*size) - 2
		enc := rng.Intn(2) == 0
		want := fmt.Sprint(lzma.VerifDictByteAt(enc, data, front, rear, head, capacity, dist))
		eb := "0"
		if enc {
			eb = "1"
		}
		req := fmt.Sprintf("gosrc byteat %s %s %d %d %d %d %d", eb, hx(data), front, rear, head, capacity, dist)
		got, err := dp.Ask(req)
		if err != nil {
			return err
		}
		r.Count("xlate-byteat/"+req, true)
		if got != want {
			mism("byteAt", req, want, got)
		}
	}
	r.Add("xlate_byteat_requests", n)
	// pure functions
	ask := func(req, want string) error {
		got, err := dp.Ask(req)
		if err != nil {
			return err
		}
		r.Count("xlate-fn/"+req, true)
		if got != want {
			mism("function", req, want, got)
		}
		return nil
	}
	for p := 0; p <= 2048; p += 1 + rng.Intn(3) {
		inc, dec := lzma.VerifProbStep(uint16(p))
		if err := ask(fmt.Sprintf("gosrc fn probstep %d", p), fmt.Sprintf("%d %d", inc, dec)); err != nil {
			return err
		}
	}
	u32 := func() uint32 {
		switch rng.Intn(4) {
		case 0:
			return uint32(1)<<uint(rng.Intn(32)) - uint32(rng.Intn(2))
		case 1:
			return uint32(rng.Intn(300))
		default:
			return rng.Uint32()
		}
	}
	for i := 0; i < 400; i++ {
		p, x := uint16(rng.Intn(2049)), u32()
		if err := ask(fmt.Sprintf("gosrc fn probbound %d %d", p, x), fmt.Sprint(lzma.VerifProbBound(p, x))); err != nil {
			return err
		}
		x = u32()
		if err := ask(fmt.Sprintf("gosrc fn nlz32 %d", x), fmt.Sprint(lzma.VerifNlz32(x))); err != nil {
			return err
		}
		x = u32()
		if err := ask(fmt.Sprintf("gosrc fn lenstate %d", x), fmt.Sprint(lzma.VerifLenState(x))); err != nil {
			return err
		}
		st := uint32(rng.Intn(14))
		if rng.Intn(10) == 0 {
			st = u32()
		}
		kind := rng.Intn(4)
		if err := ask(fmt.Sprintf("gosrc fn upd %d %d", kind, st), fmt.Sprint(lzma.VerifUpdateState(kind, st))); err != nil {
			return err
		}
		head := rng.Int63()
		if rng.Intn(3) == 0 {
			head = int64(rng.Intn(1 << 20))
		}
		lc, lp, prev := rng.Intn(9), rng.Intn(5), byte(rng.Intn(256))
		if err := ask(fmt.Sprintf("gosrc fn litstate %d %d %d %d", lc, lp, prev, head), fmt.Sprint(lzma.VerifLitState(lc, lp, prev, head))); err != nil {
			return err
		}
		mask := uint32(1)<<uint(rng.Intn(5)) - 1
		s1, s2, ps := lzma.VerifStates(st%12, mask, head)
		if err := ask(fmt.Sprintf("gosrc fn states %d %d %d", st%12, mask, head), fmt.Sprintf("%d %d %d", s1, s2, ps)); err != nil {
			return err
		}
	}
	for i := 0; i < 400; i++ {
		n := rng.Int63()
		switch rng.Intn(3) {
		case 0:
			n = int64(rng.Intn(5000))
		case 1:
			n = int64(1)<<uint(rng.Intn(34)) + int64(rng.Intn(3)) - 1
		}
		if err := ask(fmt.Sprintf("gosrc fn padlen %d", n), fmt.Sprint(xz.VerifPadLen(n))); err != nil {
			return err
		}
		if err := ask(fmt.Sprintf("gosrc fn encdict %d", n), fmt.Sprint(lzma.EncodeDictCap(n))); err != nil {
			return err
		}
		c := byte(rng.Intn(256))
		dn, derr := lzma.DecodeDictCap(c)
		de := "nil"
		if derr != nil {
			de = "new:" + derr.Error()
		}
		if err := ask(fmt.Sprintf("gosrc fn decdict %d", c), fmt.Sprintf("%d %s", dn, de)); err != nil {
			return err
		}
		// uvarint: up to 12 bytes, mostly continuation bytes, the tenth byte at its limit
		k := rng.Intn(13)
		p := make([]byte, k)
		for j := range p {
			p[j] = byte(rng.Intn(256))
			if rng.Intn(3) > 0 {
				p[j] |= 0x80
			}
		}
		if k >= 10 && rng.Intn(2) == 0 {
			p[9] = byte(rng.Intn(3))
		}
		br := bytes.NewReader(p)
		x, cnt, uerr := xz.VerifReadUvarintR(br)
		ue := "nil"
		switch {
		case uerr == io.EOF:
			ue = "io.EOF"
		case uerr != nil:
			ue = "errOverflowU64"
		}
		hp := hx(p)
		if k == 0 {
			hp = "-"
		}
		if err := ask("gosrc fn uvarint "+hp, fmt.Sprintf("%d %d %s %d", x, cnt, ue, br.Len())); err != nil {
			return err
		}
	}
	for c := 0; c < 256; c++ {
		vf := "errInvalidFlags"
		if xz.VerifVerifyFlags(byte(c)) {
			vf = "nil"
		}
		if err := ask(fmt.Sprintf("gosrc fn verifyflags %d", c), vf); err != nil {
			return err
		}
		p, perr := lzma.PropertiesForCode(byte(c))
		want := fmt.Sprintf("%d %d %d nil", p.LC, p.LP, p.PB)
		if perr != nil {
			want = fmt.Sprintf("%d %d %d new:%s", p.LC, p.LP, p.PB, perr.Error())
		}
		if err := ask(fmt.Sprintf("gosrc fn propsforcode %d", c), want); err != nil {
			return err
		}
		if perr == nil {
			if err := ask(fmt.Sprintf("gosrc fn propscode %d %d %d", p.LC, p.LP, p.PB), fmt.Sprint(p.Code())); err != nil {
				return err
			}
		}
	}
	r.Add("xlate_fn_requests", 400*10+256*3)
	return nil
}
