package main

import (
	"bytes"
	"errors"
	"fmt"
	"io"
	"strings"
	"sync/atomic"
	"time"

	"github.com/ulikunitz/xz"
	"github.com/ulikunitz/xz/lzma"
)

// errClass maps an error to the small enum compared with the model.
func errClass(err error) string {
	switch {
	case err == nil:
		return "nil"
	case err == io.EOF:
		return "EOF"
	case errors.Is(err, io.ErrUnexpectedEOF):
		return "UnexpectedEOF"
	}
	return "Other"
}

type callRes struct {
	N     int    `json:"n"`
	Err   string `json:"err"`
	Msg   string `json:"msg,omitempty"`
	Panic string `json:"panic,omitempty"`
}

// guard runs f and converts a panic into a result.
func guard(f func() (int, error)) (res callRes) {
	defer func() {
		if r := recover(); r != nil {
			res = callRes{Err: "Panic", Panic: fmt.Sprint(r)}
		}
	}()
	n, err := f()
	res = callRes{N: n, Err: errClass(err)}
	if err != nil {
		res.Msg = err.Error()
	}
	return res
}

// withTimeout runs f in a goroutine; ok=false if it did not finish in d.
// timeoutsSeen counts operations that did not finish: their goroutines keep spinning, so after a few of them the
// case runners stop starting new cases (the run is a violation anyway and must end with its replay, not starve)
var timeoutsSeen int32

func tooManyTimeouts() bool { return atomic.LoadInt32(&timeoutsSeen) >= 3 }

func withTimeout(d time.Duration, f func()) bool {
	done := make(chan struct{})
	go func() {
		defer close(done)
		f()
	}()
	select {
	case <-done:
		return true
	case <-time.After(d):
		atomic.AddInt32(&timeoutsSeen, 1)
		return false
	}
}

type xzCfg struct {
	LC, LP, PB int
	DictCap    int
	BufSize    int
	BlockSize  int64
	CheckSum   byte
	NoCheckSum bool
	Matcher    int
	// Zero: pass the zero configuration (every field defaulted by fill()); the other fields of this struct then
	// hold the documented defaults (lc3 lp0 pb2, 8 MiB dictionary, 4096 look-ahead, CRC64, no block size)
	Zero bool
}

func (c xzCfg) String() string {
	return fmt.Sprintf("lc%d lp%d pb%d dict%d buf%d blk%d chk%d nochk%v m%d", c.LC, c.LP, c.PB, c.DictCap, c.BufSize, c.BlockSize, c.CheckSum, c.NoCheckSum, c.Matcher)
}

func (c xzCfg) config() xz.WriterConfig {
	if c.Zero {
		return xz.WriterConfig{}
	}
	return xz.WriterConfig{Properties: &lzma.Properties{LC: c.LC, LP: c.LP, PB: c.PB}, DictCap: c.DictCap,
		BufSize: c.BufSize, BlockSize: c.BlockSize, CheckSum: c.CheckSum, NoCheckSum: c.NoCheckSum,
		Matcher: lzma.MatchAlgorithm(c.Matcher)}
}

type writeTrace struct {
	Out      []byte
	Calls    []callRes // one per Write, then Close
	NewErr   string
	TimedOut bool
}

func (t *writeTrace) firstErr() string {
	if t.NewErr != "" {
		return "new: " + t.NewErr
	}
	for i, c := range t.Calls {
		if c.Err != "nil" {
			return fmt.Sprintf("call %d: %s %s%s", i, c.Err, c.Msg, c.Panic)
		}
	}
	return ""
}

// goXzWrite writes data in the given partition and closes.
func goXzWrite(c xzCfg, data []byte, parts []int, d time.Duration) *writeTrace {
	t := &writeTrace{}
	ok := withTimeout(d, func() {
		var buf bytes.Buffer
		w, err := c.config().NewWriter(&buf)
		if err != nil {
			t.NewErr = err.Error()
			return
		}
		off := 0
		for _, k := range parts {
			p := data[off : off+k]
			off += k
			t.Calls = append(t.Calls, guard(func() (int, error) { return w.Write(p) }))
		}
		t.Calls = append(t.Calls, guard(func() (int, error) { return 0, w.Close() }))
		t.Out = buf.Bytes()
	})
	t.TimedOut = !ok
	return t
}

type readTrace struct {
	Out      []byte
	Err      string // class of the terminal status: EOF = clean end
	Msg      string
	OpenErr  bool
	Panic    string
	TimedOut bool
}

func readAllGuard(r io.Reader, t *readTrace) {
	defer func() {
		if p := recover(); p != nil {
			t.Err = "Panic"
			t.Panic = fmt.Sprint(p)
		}
	}()
	var buf bytes.Buffer
	p := make([]byte, 32*1024)
	for {
		n, err := r.Read(p)
		buf.Write(p[:n])
		if n > len(p) {
			t.Err = "Panic"
			t.Panic = "n > len(p)"
			break
		}
		if err != nil {
			t.Err = errClass(err)
			t.Msg = err.Error()
			// a caller may well call Read again after an error or EOF: that must not panic and
			// must not deliver data after a clean end
			for k := 0; k < 2; k++ {
				n2, err2 := r.Read(p)
				if n2 > len(p) {
					t.Err = "Panic"
					t.Panic = "n > len(p)"
				}
				if err == io.EOF && (n2 > 0 || err2 != io.EOF) {
					t.Err = "Panic"
					t.Panic = fmt.Sprintf("Read after end of stream returned (%d, %v)", n2, err2)
				}
			}
			break
		}
	}
	t.Out = buf.Bytes()
}

func goXzRead(data []byte, dictCap int, single bool, d time.Duration) *readTrace {
	t := &readTrace{}
	ok := withTimeout(d, func() {
		defer func() {
			if p := recover(); p != nil {
				t.Err = "Panic"
				t.Panic = fmt.Sprint(p)
			}
		}()
		r, err := xz.ReaderConfig{DictCap: dictCap, SingleStream: single}.NewReader(bytes.NewReader(data))
		if err != nil {
			t.OpenErr = true
			t.Err = errClass(err)
			t.Msg = err.Error()
			return
		}
		readAllGuard(r, t)
	})
	t.TimedOut = !ok
	return t
}

// goXzReadSrc: as goXzRead, from an arbitrary source (fragmenting readers)
func goXzReadSrc(src io.Reader, dictCap int, single bool, d time.Duration) *readTrace {
	t := &readTrace{}
	ok := withTimeout(d, func() {
		defer func() {
			if p := recover(); p != nil {
				t.Err = "Panic"
				t.Panic = fmt.Sprint(p)
			}
		}()
		r, err := xz.ReaderConfig{DictCap: dictCap, SingleStream: single}.NewReader(src)
		if err != nil {
			t.OpenErr = true
			t.Err = errClass(err)
			t.Msg = err.Error()
			return
		}
		readAllGuard(r, t)
	})
	t.TimedOut = !ok
	return t
}

func goLzma2Read(data []byte, dictCap int, d time.Duration) *readTrace {
	t := &readTrace{}
	ok := withTimeout(d, func() {
		defer func() {
			if p := recover(); p != nil {
				t.Err = "Panic"
				t.Panic = fmt.Sprint(p)
			}
		}()
		r, err := lzma.Reader2Config{DictCap: dictCap}.NewReader2(bytes.NewReader(data))
		if err != nil {
			t.OpenErr = true
			t.Err = errClass(err)
			t.Msg = err.Error()
			return
		}
		readAllGuard(r, t)
	})
	t.TimedOut = !ok
	return t
}

func goLzmaRead(data []byte, dictCap int, d time.Duration) *readTrace {
	t := &readTrace{}
	ok := withTimeout(d, func() {
		defer func() {
			if p := recover(); p != nil {
				t.Err = "Panic"
				t.Panic = fmt.Sprint(p)
			}
		}()
		r, err := lzma.ReaderConfig{DictCap: dictCap}.NewReader(bytes.NewReader(data))
		if err != nil {
			t.OpenErr = true
			t.Err = errClass(err)
			t.Msg = err.Error()
			return
		}
		readAllGuard(r, t)
	})
	t.TimedOut = !ok
	return t
}

// modelRead is the parsed reply of the driver's *read commands.
type modelRead struct {
	Class  string
	Pos    int
	Out    []byte
	Info   string
	Detail string
}

func parseModelRead(rep string) (*modelRead, error) {
	parts := strings.SplitN(rep, " | ", 3)
	f := strings.Fields(parts[0])
	if len(f) != 3 {
		return nil, fmt.Errorf("bad driver reply %q", truncate(rep, 200))
	}
	m := &modelRead{Class: f[0]}
	fmt.Sscan(f[1], &m.Pos)
	if f[2] != "-" {
		m.Out = unhx(f[2])
	}
	if len(parts) > 1 {
		m.Info = parts[1]
	}
	if len(parts) > 2 {
		m.Detail = parts[2]
	}
	return m, nil
}

func hxe(b []byte) string {
	if len(b) == 0 {
		return "-"
	}
	return hx(b)
}

func b2i(b bool) int {
	if b {
		return 1
	}
	return 0
}
