package main

import (
	"bytes"
	"encoding/binary"
	"fmt"
	"math/rand"
	"strings"
	"sync"
	"time"

	"github.com/ulikunitz/xz/lzma"
)

type lzCfg struct {
	LC, LP, PB   int
	DictCap      int
	BufSize      int
	Matcher      int
	SizeInHeader bool
	Size         int64
	EOSMarker    bool
	Zero         bool // pass the zero WriterConfig (fields above = documented defaults: lc3 lp0 pb2, 8 MiB, 4096, end marker)
}

func (c lzCfg) String() string {
	return fmt.Sprintf("lc%d lp%d pb%d dict%d buf%d m%d sizeInHeader=%v size=%d marker=%v", c.LC, c.LP, c.PB, c.DictCap, c.BufSize, c.Matcher, c.SizeInHeader, c.Size, c.EOSMarker)
}

func (c lzCfg) config() lzma.WriterConfig {
	if c.Zero {
		return lzma.WriterConfig{}
	}
	return lzma.WriterConfig{Properties: &lzma.Properties{LC: c.LC, LP: c.LP, PB: c.PB}, DictCap: c.DictCap, BufSize: c.BufSize,
		Matcher: lzma.MatchAlgorithm(c.Matcher), SizeInHeader: c.SizeInHeader, Size: c.Size, EOSMarker: c.EOSMarker}
}

type lzCase struct {
	Op    string `json:"op"`
	Name  string `json:"name"`
	Cfg   lzCfg  `json:"cfg"`
	Data  string `json:"data_hex"`
	Parts []int  `json:"parts"`
}

// sinkNoByteWriter hides bytes.Buffer's WriteByte so that lzma.Writer takes its bufio path.
type sinkNoByteWriter struct{ b *bytes.Buffer }

func (s sinkNoByteWriter) Write(p []byte) (int, error) { return s.b.Write(p) }

func goLzmaWrite(c lzCfg, data []byte, parts []int, plain bool) *writeTrace {
	t := &writeTrace{}
	ok := withTimeout(120*time.Second, func() {
		var buf bytes.Buffer
		var w *lzma.Writer
		var err error
		if plain {
			w, err = c.config().NewWriter(sinkNoByteWriter{&buf})
		} else {
			w, err = c.config().NewWriter(&buf)
		}
		if err != nil {
			t.NewErr = err.Error()
			return
		}
		off := 0
		for _, k := range parts {
			p := data[off : off+k]
			off += k
			t.Calls = append(t.Calls, guard(func() (int, error) { return w.Write(p) }))
		}
		t.Calls = append(t.Calls, guard(func() (int, error) { return 0, w.Close() }))
		t.Out = buf.Bytes()
	})
	t.TimedOut = !ok
	return t
}

func runLzCase(r *Result, dp *DriverPool, prop string, cs lzCase, plain bool) {
	if tooManyTimeouts() {
		r.Inc("cases_skipped_after_timeouts")
		return
	}
	data := unhxe(cs.Data)
	c := cs.Cfg
	w := goLzmaWrite(c, data, cs.Parts, plain)
	viol := func(kind, sig, note string) { r.Violate(kind, sig, cs, note) }
	if w.TimedOut {
		viol("counterexample", "write-timeout", "writer did not finish")
		return
	}
	if e := w.firstErr(); e != "" {
		viol("counterexample", fmt.Sprintf("write-error matcher=%d: %s", c.Matcher, e), "Write/Close of a valid configuration failed: "+e)
		return
	}
	if !plain {
		var ws []string
		off := 0
		for _, k := range cs.Parts {
			ws = append(ws, hxe(data[off:off+k]))
			off += k
		}
		runW1Model(r, dp, w1Case{Op: "writer1-history", Cfg: c, Writes: ws})
		runW1Auto(r, dp, w1Case{Op: "writer1-history", Cfg: c, Writes: ws})
	}
	g := goLzmaRead(w.Out, 0, 60*time.Second)
	goOK := g.Err == "EOF" && !g.OpenErr && bytes.Equal(g.Out, data)
	if !goOK && prop == "C06" {
		viol("counterexample", fmt.Sprintf("roundtrip matcher=%d sizeInHeader=%v marker=%v: reader %s %s", c.Matcher, c.SizeInHeader, c.EOSMarker, g.Err, g.Msg),
			fmt.Sprintf("library reader returned %d bytes (want %d), status %s %s %s", len(g.Out), len(data), g.Err, g.Msg, g.Panic))
	}
	// the reader must honour the dictionary size of the header whatever (smaller) capacity the caller configures
	if goOK {
		g2 := goLzmaRead(w.Out, 4096, 60*time.Second)
		if !(g2.Err == "EOF" && !g2.OpenErr && bytes.Equal(g2.Out, data)) {
			viol("counterexample", fmt.Sprintf("roundtrip with ReaderConfig.DictCap=4096 matcher=%d dict=%d: reader %s %s", c.Matcher, c.DictCap, g2.Err, g2.Msg),
				fmt.Sprintf("library reader configured with DictCap 4096 returned %d bytes (want %d), status %s %s %s; the header declares %d", len(g2.Out), len(data), g2.Err, g2.Msg, g2.Panic, c.DictCap))
		}
	}
	rep, err := dp.Ask(fmt.Sprintf("lzmaread %d %s", 0, hxe(w.Out)))
	if err != nil {
		viol("broken-correspondence", "driver", err.Error())
		return
	}
	m, err := parseModelRead(rep)
	if err != nil {
		viol("broken-correspondence", "driver-reply", err.Error())
		return
	}
	specOK := m.Class == "EOF" && bytes.Equal(m.Out, data) && m.Pos == len(w.Out)
	if !specOK && prop == "C07" {
		viol("counterexample", fmt.Sprintf("spec-reject matcher=%d sizeInHeader=%v marker=%v: %s", c.Matcher, c.SizeInHeader, c.EOSMarker, m.Detail),
			fmt.Sprintf("the Lean reference decoder does not recover the input from the emitted stream (%s, %d of %d bytes, consumed %d of %d)", m.Detail, len(m.Out), len(data), m.Pos, len(w.Out)))
	}
	if specOK != goOK {
		viol("broken-correspondence", fmt.Sprintf("reader-vs-spec go=%s spec=%s", g.Err, m.Class), "library reader and Lean decoder disagree on the writer's output")
	}
	// header truthfulness
	if len(w.Out) >= 13 {
		wantProps := byte((c.PB*5+c.LP)*9 + c.LC)
		dict := binary.LittleEndian.Uint32(w.Out[1:5])
		size := binary.LittleEndian.Uint64(w.Out[5:13])
		wantSize := uint64(1<<64 - 1)
		if c.SizeInHeader {
			wantSize = uint64(len(data))
		}
		hasMarker := strings.Contains(m.Info, "marker=true")
		wantMarker := c.EOSMarker || !c.SizeInHeader
		if w.Out[0] != wantProps || int(dict) < c.DictCap || size != wantSize || hasMarker != wantMarker {
			viol("counterexample", fmt.Sprintf("header-untruthful sizeInHeader=%v size=%d marker=%v", c.SizeInHeader, len(data), c.EOSMarker),
				fmt.Sprintf("header props %d (want %d), dict %d (cap %d), size %#x (want %#x), marker present %v (want %v)", w.Out[0], wantProps, dict, c.DictCap, size, wantSize, hasMarker, wantMarker))
		}
	}
	re, err := dp.Ask("lzmareenc " + hxe(w.Out))
	if err != nil {
		viol("broken-correspondence", "driver", err.Error())
		return
	}
	r.mu.Lock()
	r.TracesVsImpl++
	r.mu.Unlock()
	if re != hxe(w.Out) {
		viol("broken-correspondence", fmt.Sprintf("reencode matcher=%d differs", c.Matcher), "Lean model encoder, fed the operations parsed from the Go output, produces different bytes: "+truncate(re, 60))
	}
	r.Count(cs.Name+c.String()+fmt.Sprint(cs.Parts), len(data) >= 16)
	r.Inc(fmt.Sprintf("mode_size=%v_marker=%v", c.SizeInHeader, c.EOSMarker))
	r.Inc(fmt.Sprintf("matcher_%d", c.Matcher))
	r.Add("input_bytes", len(data))
	r.Sample(map[string]interface{}{"name": cs.Name, "cfg": c.String(), "in": len(data), "out": len(w.Out), "model": truncate(m.Info, 100)})
}

// sizeContract: with an explicit size the writer accepts exactly that many bytes.
func sizeContract(r *Result, dp *DriverPool, rng *rand.Rand, n int) {
	for i := 0; i < n; i++ {
		size := []int{0, 1, 5, 273, 1000, 5000}[rng.Intn(6)]
		_, data := pickData(rng, 8000)
		bufSize := 4096
		if i%3 == 0 {
			// sizes beyond dictionary + look-ahead: by the time the surplus arrives part of the accepted bytes has
			// left the look-ahead buffer (Compressed() > 0), and the offered length is size + a few bytes, size or
			// a little less (a seeded change that dropped Compressed() from the room computation was missed before)
			size = []int{4096 + 273, 8192, 8193, 9000, 12000, 20000}[rng.Intn(6)]
			bufSize = []int{273, 1000, 4096}[rng.Intn(3)]
			want := size + []int{-300, -1, 0, 1, 7, 300, 5000}[rng.Intn(7)]
			for len(data) < want {
				_, more := pickData(rng, 8000)
				data = append(data, more...)
				data = append(data, byte(len(data)))
			}
			data = data[:want]
		}
		c := lzCfg{LC: 3, PB: 2, DictCap: 4096, BufSize: bufSize, SizeInHeader: true, Size: int64(size), EOSMarker: rng.Intn(2) == 0, Matcher: rng.Intn(2)}
		if rng.Intn(3) == 0 {
			c.SizeInHeader = false // fill() turns a positive size into SizeInHeader
		}
		{
			// the same history (short, exact or surplus, over 1..3 calls) through the model of the classic writer
			var ws []string
			off := 0
			for off < len(data) {
				k := 1 + rng.Intn(len(data)-off)
				if rng.Intn(2) == 0 {
					k = len(data) - off
				}
				ws = append(ws, hxe(data[off:off+k]))
				off += k
			}
			if rng.Intn(4) == 0 {
				ws = append(ws, "-")
			}
			runW1Model(r, dp, w1Case{Op: "writer1-history", Cfg: c, Writes: ws})
			runW1Auto(r, dp, w1Case{Op: "writer1-history", Cfg: c, Writes: ws})
		}
		if !c.SizeInHeader && size == 0 {
			continue // no explicit size configured
		}
		var buf bytes.Buffer
		w, err := c.config().NewWriter(&buf)
		if err != nil {
			r.Violate("counterexample", "size-contract new", map[string]interface{}{"cfg": c}, err.Error())
			continue
		}
		r.Count(fmt.Sprint("sz", i), true)
		cs := map[string]interface{}{"op": "size-contract", "cfg": c, "data_hex": hxe(data)}
		if len(data) < size {
			// fewer bytes: Close must fail
			n1, e1 := w.Write(data)
			e2 := w.Close()
			if e1 != nil || n1 != len(data) || e2 == nil {
				r.Violate("counterexample", "size-contract short write accepted", cs, fmt.Sprintf("Size=%d, wrote %d: Write=(%d,%v) Close=%v; Close must fail", size, len(data), n1, e1, e2))
			}
			continue
		}
		// surplus bytes: refused with exact accepted count, over one or two calls
		split := rng.Intn(len(data) + 1)
		if size > 0 && rng.Intn(2) == 0 {
			// the first call brings exactly the announced size (or nearly): the surplus comes in a call of its own
			split = minInt(len(data), maxInt(0, size-[]int{0, 0, 1, 273, 300}[rng.Intn(5)]))
		}
		n1, e1 := w.Write(data[:split])
		n2, e2 := w.Write(data[split:])
		e3 := w.Close()
		wantN1 := minInt(split, size)
		wantN2 := minInt(len(data)-split, size-wantN1)
		surplus := len(data) > size
		bad := n1 != wantN1 || n2 != wantN2 || e3 != nil
		if surplus && e1 == nil && e2 == nil {
			bad = true
		}
		if !surplus && (e1 != nil || e2 != nil) {
			bad = true
		}
		if bad {
			r.Violate("counterexample", fmt.Sprintf("size-contract surplus size=%d", size), cs,
				fmt.Sprintf("Size=%d, offered %d+%d: Write=(%d,%v),(%d,%v) Close=%v; want accepted %d,%d", size, split, len(data)-split, n1, e1, n2, e2, e3, wantN1, wantN2))
			continue
		}
		g := goLzmaRead(buf.Bytes(), 0, 30*time.Second)
		if g.Err != "EOF" || !bytes.Equal(g.Out, data[:size]) || binary.LittleEndian.Uint64(buf.Bytes()[5:13]) != uint64(size) {
			r.Violate("counterexample", "size-contract content", cs, "stream does not hold exactly the accepted bytes / header misstates the length")
		}
	}
}

func checkLzmaWriter(prop string) func(a *checkArgs, r *Result) error {
	return func(a *checkArgs, r *Result) error {
		dp, err := newDriverPool(a.driver, 16)
		if err != nil {
			return err
		}
		defer dp.Close()
		r.Rule = "generated (data x classic WriterConfig incl. all 225 property codes, Size = len incl. 0, EOSMarker on/off, both matchers, ByteWriter and plain sinks x partition) cases: real lzma.Writer -> real lzma.Reader, -> Lean decoder, header fields judged, -> Lean model re-encodes the parsed operations (bytes identical); explicit-size contract (short, exact, surplus). Non-trivial: input >= 16 bytes; distinct by (data, config, partition)."
		rng := rand.New(rand.NewSource(a.seed))
		n := 1350
		if a.tier == "thorough" {
			n = 6000
		}
		var cases []lzCase
		for i := 0; i < 4; i++ {
			name, d := pickData(rng, 30000)
			cases = append(cases, lzCase{Op: "lzmawrite", Name: "zero-config/" + name, Cfg: lzCfg{LC: 3, PB: 2, DictCap: 8 << 20, BufSize: 4096, EOSMarker: true, Zero: true}, Data: hxe(d), Parts: partition(rng, len(d))})
		}
		cases = append(cases, lzCase{Op: "lzmawrite", Name: "corpus/F5-size0", Cfg: lzCfg{LC: 3, PB: 2, DictCap: 4096, BufSize: 4096, SizeInHeader: true}, Data: "-", Parts: []int{0}})
		code := 0
		for i := 0; i < n; i++ {
			c := lzCfg{LC: code % 9, LP: (code / 9) % 5, PB: (code / 45) % 5}
			code = (code + 1) % 225
			if prop == "C07" && c.LC+c.LP > 4 {
				c.LC = rng.Intn(5 - c.LP%5)
				if c.LC+c.LP > 4 {
					c.LP = 0
				}
			}
			c.DictCap = []int{4096, 4097, 65536, 1 << 20}[rng.Intn(4)]
			c.BufSize = []int{273, 274, 4096, 65536}[rng.Intn(4)] // also a look-ahead larger than the dictionary
			c.Matcher = rng.Intn(2)
			max := 40000
			if c.Matcher == 1 {
				max = 10000
			}
			name, data := pickData(rng, max)
			if c.BufSize > c.DictCap && i%2 == 0 {
				// a repetition at a distance between the dictionary capacity and the look-ahead size
				x := genRandom(rng, c.DictCap+1+rng.Intn(5000))
				data = append(append([]byte{}, x...), x...)
				name = fmt.Sprintf("double-beyond-dict/%d", len(data))
			}
			switch rng.Intn(3) {
			case 0:
				c.EOSMarker = true
			case 1:
				c.SizeInHeader, c.Size = true, int64(len(data))
			default:
				c.SizeInHeader, c.Size, c.EOSMarker = true, int64(len(data)), true
			}
			cases = append(cases, lzCase{Op: "lzmawrite", Name: name, Cfg: c, Data: hxe(data), Parts: partition(rng, len(data))})
		}
		var wg sync.WaitGroup
		sem := make(chan struct{}, 16)
		for i, cs := range cases {
			wg.Add(1)
			sem <- struct{}{}
			go func(i int, cs lzCase) {
				defer wg.Done()
				defer func() { <-sem }()
				runLzCase(r, dp, prop, cs, i%2 == 1)
			}(i, cs)
		}
		wg.Wait()
		nscript := 2000
		if a.tier == "thorough" {
			nscript = 10000
		}
		if err := scriptedOpsTie(r, dp, rng, nscript, prop == "C07"); err != nil {
			return err
		}
		if prop == "C06" {
			sizeContract(r, dp, rng, 180)
		} else {
			if err := c07Reader(a, r, dp, rng); err != nil {
				return err
			}
		}
		r.Extra["driver_requests"] = dp.Requests()
		return nil
	}
}

// c07Reader: valid classic streams from the liblzma corpus, the LZMA SDK samples shipped in
// /repo/lzma/examples and the Lean spec encoder (three end modes, any lc/lp/pb, empty content).
func c07Reader(a *checkArgs, r *Result, dp *DriverPool, rng *rand.Rand) error {
	n := 1500
	if a.tier == "thorough" {
		n = 8000
	}
	type item struct {
		name            string
		stream, content []byte
	}
	var items []item
	for _, b := range corpusStreams(1 << 22) {
		if b.Kind == "lzma" {
			items = append(items, item{b.Name, b.Stream, b.Content})
		}
	}
	r.Add("corpus_lzma_streams", len(items))
	for i := 0; i < n; i++ {
		lc, lp, pb := randProps(rng, false)
		dict := []int{4096, 8192, 65536, 1 << 20, 100, 0}[rng.Intn(6)]
		window := dict
		if window < 4096 {
			window = 4096
		}
		g := &opGen{rng: rng, dictSize: window}
		nops := rng.Intn(150)
		if rng.Intn(10) == 0 {
			nops = 0
		}
		ops := make([]string, 0, nops)
		for j := 0; j < nops; j++ {
			ops = append(ops, g.next())
		}
		mode := rng.Intn(3)
		size, marker := "-", 1
		switch mode {
		case 1:
			size, marker = fmt.Sprint(len(g.content)), 0
		case 2:
			size = fmt.Sprint(len(g.content))
		}
		opstr := strings.Join(ops, ".")
		if opstr == "" {
			opstr = "."
		}
		rep, err := dp.Ask(fmt.Sprintf("lzmabuild %d %d %s %d %s", (pb*5+lp)*9+lc, dict, size, marker, opstr))
		if err != nil {
			return err
		}
		if rep == "bad-op" {
			return fmt.Errorf("lzmabuild rejected its input")
		}
		items = append(items, item{fmt.Sprintf("spec-gen/%d lc%d lp%d pb%d dict%d mode%d ops%d", i, lc, lp, pb, dict, mode, nops), unhxe(rep), g.content})
	}
	{
		// a header dictionary size that is not of the 2^n / 3*2^n form and exceeds the reader's default, with a match
		// farther back than that default: the reader must size its dictionary from the header
		ops := []string{"L7"}
		nn := 1
		for nn < 9000100 {
			ops = append(ops, "M273,0")
			nn += 273
		}
		ops = append(ops, "M100,9000000")
		nn += 100
		rep, err := dp.Ask(fmt.Sprintf("lzmabuild %d %d %s %d %s", 93, 12000000, "-", 1, strings.Join(ops, ".")))
		if err != nil {
			return err
		}
		if rep == "bad-op" {
			return fmt.Errorf("lzmabuild rejected the far-match stream")
		}
		items = append(items, item{"spec-gen/far-match dict12000000", unhxe(rep), bytes.Repeat([]byte{7}, nn)})
	}
	var wg sync.WaitGroup
	sem := make(chan struct{}, 16)
	for _, it := range items {
		wg.Add(1)
		sem <- struct{}{}
		go func(it item) {
			defer wg.Done()
			defer func() { <-sem }()
			c := rdCase{Op: "read-valid", Kind: "lzma", Name: it.name, Stream: hxe(it.stream), Want: hxe(it.content)}
			m, err := modelRead_(dp, c, it.stream, true)
			if err != nil || m.Class != "EOF" || !bytes.Equal(m.Out, it.content) {
				r.Violate("broken-correspondence", "spec-rejects-valid-stream", c, "the Lean decoder does not reproduce the expected content of a stream valid by construction")
				return
			}
			for _, cap := range []int{0, 4096, 1 << 20} {
				cc := c
				cc.DictCap = cap
				g := goRead(cc, it.stream, 60*time.Second)
				r.Count(fmt.Sprintf("%s#%d", it.name, cap), len(it.content) > 0)
				r.mu.Lock()
				r.TracesVsImpl++
				r.mu.Unlock()
				if g.Err != "EOF" || g.OpenErr || !bytes.Equal(g.Out, it.content) {
					r.Violate("counterexample", fmt.Sprintf("valid-lzma-misread size=%d: %s %s", len(it.content), g.Err, truncate(g.Msg, 50)), cc,
						fmt.Sprintf("reader returned %d bytes (want %d), status %s %s %s on a valid classic stream", len(g.Out), len(it.content), g.Err, g.Msg, g.Panic))
					return
				}
			}
		}(it)
	}
	wg.Wait()
	return nil
}

func init() {
	checks["C06"] = checkLzmaWriter("C06")
	checks["C07"] = checkLzmaWriter("C07")
}
