package main

// T-xlate: a translator from a subset of Go (integer arithmetic on fixed-width machine integers, struct
// fields, if / switch / for, calls among the translated functions, a few modelled external calls) to pure
// Lean 4 definitions over BitVec. `xzh gen` regenerates Gen/GoSrc.lean from /repo's CURRENT source on
// every run; Proofs/GoSrc*.lean prove that the regenerated definitions refine the hand-written Nat-level
// codec (Codec/Rc.lean, Codec/Lzma.lean), so the theorems of the stack are re-checked against what the
// source says now, including Go's wrap-around arithmetic (uint32 / uint64 / int64), not against my reading.
//
// Shape of the output (see Model/GoPrelude.lean for Go.Err, Go.Res, Go.ByteWriter, Go.ByteReader):
//   * uintN / intN / named integer types  -> BitVec N (signed types use the signed comparison / shift / extension)
//   * struct types                         -> Lean structures holding the supported fields only (pointers to
//                                             structs are flattened: no aliasing inside the translated subset)
//   * a function                           -> a pure function returning (results…, updated receiver, updated
//                                             pointer parameters…); wrapped in Go.Res when it can panic
//                                             (explicit panic, array index) or loops (fuel parameter)
//   * statements are translated in continuation-passing style: the code after an `if` is emitted inside each
//     branch that can fall through, so Go's mutable variables become shadowing `let`s.
// Anything outside the subset makes the function fail to translate; the failure is written into
// Gen.GoSrc.failures and breaks a theorem of Props (a broken tie, not a silent gap).

import (
	"fmt"
	"go/ast"
	"go/constant"
	"go/importer"
	"go/token"
	"go/types"
	"os"
	"path/filepath"
	"sort"
	"strings"
)

// what is translated: package -> function keys ("recvType.method" or "func")
// interfaces of the source modelled as sums of the struct types that implement them (nil = the `none` alternative)
var xlateSums = map[string][]string{
	"operation": {"lit", "match"},
}

var xlateTargets = map[string][]string{
	"lzma": {
		"prob.dec", "prob.inc", "prob.bound",
		"nlz32", "lenState",
		"LimitedByteWriter.WriteByte",
		"rangeEncoder.Available", "rangeEncoder.writeByte", "rangeEncoder.shiftLow",
		"rangeEncoder.DirectEncodeBit", "rangeEncoder.EncodeBit", "rangeEncoder.Close",
		"rangeDecoder.updateCode", "rangeDecoder.DirectDecodeBit", "rangeDecoder.DecodeBit",
		"rangeDecoder.possiblyAtEnd", "newRangeDecoder",
		"state.updateStateLiteral", "state.updateStateMatch", "state.updateStateRep", "state.updateStateShortRep",
		"state.states", "state.litState",
		"decodeDictCap", "DecodeDictCap", "EncodeDictCap",
		"directCodec.Encode", "directCodec.Decode",
		"treeCodec.Encode", "treeCodec.Decode", "treeReverseCodec.Encode", "treeReverseCodec.Decode",
		"prob.Encode", "prob.Decode", "lengthCodec.Encode", "lengthCodec.Decode",
		"distCodec.Encode", "distCodec.Decode",
		"literalCodec.Encode", "literalCodec.Decode",
		"buffer.Cap", "buffer.Available", "decoderDict.dictLen", "decoderDict.byteAt",
		"encoderDict.Len", "encoderDict.Pos", "encoderDict.ByteAt", "iverson",
		"decoder.decodeLiteral", "decoder.readOp", "encoder.writeLiteral", "encoder.writeMatch", "encoder.writeOp",
		"PropertiesForCode", "Properties.Code",
		"uint16BE", "headerChunkType", "headerLen", "chunkHeader.UnmarshalBinary", "chunkState.next", "chunkState.defaultChunkType",
		"buffer.Buffered", "buffer.addIndex", "buffer.Discard", "buffer.WriteByte", "decoderDict.WriteByte",
		"encoderDict.DictLen", "encoderDict.Available", "encoderDict.Buffered",
		"hashTableExponent", "hashTable.buffered", "hashTable.addIndex", "hashTable.putDelta", "hashTable.putEntry", "hashTable.getMatches",
		"binTree.max", "binTree.min", "binTree.distance", "binTree.pred", "binTree.succ",
		"uint32LE", "uint64LE", "header.unmarshalBinary", "validDictCap", "ValidHeader",
	},
	".": {"padLen", "readUvarint", "readSizeInBlockHeader", "readRecord", "verifyFlags"},
}

type xfunc struct {
	key, lean string
	decl      *ast.FuncDecl
	sig       *types.Signature
	recv      *types.Var
	ptrs      []*types.Var // receiver (if pointer) and pointer parameters, in order
	mut       map[*types.Var]bool
	canFail   bool
	needsFuel bool
	body      string
	err       error
	nloops    int
	aux       []string
}

type xstruct struct {
	named  *types.Named
	lean   string
	fields []string // "name : type"
	zero   []string // "name := zero"
	has    map[string]bool
}

type xl struct {
	p           *pkgSrc
	info        *types.Info
	pkg         *types.Package
	funcs       map[string]*xfunc
	byObj       map[*types.Func]*xfunc
	order       []string
	structs     map[string]*xstruct
	sorder      []string
	usedStructs map[string]bool
	usedSums    map[string]bool
	globals     map[string]string // lean defs of global tables
	gorder      []string
}

type xerr struct{ msg string }

func (e xerr) Error() string { return e.msg }

func (x *xl) fail(n ast.Node, f string, a ...any) {
	pos := x.p.fset.Position(n.Pos())
	panic(xerr{fmt.Sprintf("%s:%d: %s", filepath.Base(pos.Filename), pos.Line, fmt.Sprintf(f, a...))})
}

func intInfo(t types.Type) (bits int, signed bool, ok bool) {
	b, isB := t.Underlying().(*types.Basic)
	if !isB {
		return 0, false, false
	}
	switch b.Kind() {
	case types.Uint8:
		return 8, false, true
	case types.Uint16:
		return 16, false, true
	case types.Uint32:
		return 32, false, true
	case types.Uint64, types.Uint, types.Uintptr:
		return 64, false, true
	case types.Int8:
		return 8, true, true
	case types.Int16:
		return 16, true, true
	case types.Int32:
		return 32, true, true
	case types.Int64, types.Int:
		return 64, true, true
	}
	return 0, false, false
}

func isErrorType(t types.Type) bool {
	n, ok := t.(*types.Named)
	return ok && n.Obj().Pkg() == nil && n.Obj().Name() == "error"
}

// parameters through which a callee's effects are visible to the caller: pointers, and the two modelled interfaces
// (an io.ByteReader / io.ByteWriter value stands for the stream behind it)
func isRefType(t types.Type) bool {
	if _, ok := t.(*types.Pointer); ok {
		return true
	}
	if _, ok := t.(*types.Slice); ok {
		// a slice parameter written through by the callee (an out-parameter): the updated array is returned; the
		// caller's argument must be an lvalue; callee and caller must not hold another live view of it (not checked)
		return true
	}
	return namedIs(t, "io", "ByteReader") || namedIs(t, "io", "ByteWriter")
}

func namedIs(t types.Type, pkg, name string) bool {
	n, ok := t.(*types.Named)
	return ok && n.Obj().Pkg() != nil && n.Obj().Pkg().Path() == pkg && n.Obj().Name() == name
}

func (x *xl) leanType(n ast.Node, t types.Type) string {
	if bits, _, ok := intInfo(t); ok {
		return fmt.Sprintf("(BitVec %d)", bits)
	}
	if b, ok := t.Underlying().(*types.Basic); ok {
		switch b.Kind() {
		case types.Bool:
			return "Bool"
		case types.String:
			return "String"
		}
	}
	if isErrorType(t) {
		return "Go.Err"
	}
	if namedIs(t, "io", "ByteWriter") {
		return "Go.ByteWriter"
	}
	if namedIs(t, "io", "ByteReader") {
		return "Go.ByteReader"
	}
	if p, ok := t.(*types.Pointer); ok {
		return x.leanType(n, p.Elem())
	}
	if nm, ok := t.(*types.Named); ok {
		if alts, ok := xlateSums[nm.Obj().Name()]; ok && nm.Obj().Pkg() == x.pkg {
			for _, a := range alts {
				if o, ok := x.pkg.Scope().Lookup(a).(*types.TypeName); ok {
					x.leanType(n, o.Type())
					x.usedStructs[a] = true
				}
			}
			x.usedSums[nm.Obj().Name()] = true
			return "GoSrc.S_" + nm.Obj().Name()
		}
	}
	if nm, ok := t.(*types.Named); ok {
		if _, ok := nm.Underlying().(*types.Struct); ok {
			x.usedStructs[nm.Obj().Name()] = true
			return x.structOf(nm).lean
		}
	}
	if a, ok := t.(*types.Array); ok {
		return "(Array " + x.leanType(n, a.Elem()) + ")"
	}
	if sl, ok := t.(*types.Slice); ok {
		if _, _, isInt := intInfo(sl.Elem()); isInt {
			return "(Array " + x.leanType(n, sl.Elem()) + ")"
		}
		if nm := derefNamed(sl.Elem()); nm != nil {
			if _, isPtr := sl.Elem().(*types.Pointer); !isPtr {
				// a slice of completely representable structures
				ns := x.structOf(nm)
				if len(ns.fields) == nm.Underlying().(*types.Struct).NumFields() && len(ns.fields) > 0 {
					return "(Array " + x.leanType(n, sl.Elem()) + ")"
				}
			}
		}
	}
	x.fail(n, "unsupported type %s", t)
	return ""
}

func (x *xl) zeroOf(n ast.Node, t types.Type) string {
	if bits, _, ok := intInfo(t); ok {
		return fmt.Sprintf("(0#%d)", bits)
	}
	if b, ok := t.Underlying().(*types.Basic); ok {
		switch b.Kind() {
		case types.Bool:
			return "false"
		case types.String:
			return "\"\""
		}
	}
	if isErrorType(t) {
		return "Go.Err.nil"
	}
	if _, ok := t.(*types.Slice); ok {
		return "#[]"
	}
	if nm, ok := t.(*types.Named); ok {
		if _, ok := xlateSums[nm.Obj().Name()]; ok {
			return "GoSrc.S_" + nm.Obj().Name() + ".none"
		}
	}
	if at, ok := t.(*types.Array); ok {
		return fmt.Sprintf("(Array.replicate %d %s)", at.Len(), x.zeroOf(n, at.Elem()))
	}
	return "(default : " + x.leanType(n, t) + ")"
}

func (x *xl) structOf(nm *types.Named) *xstruct {
	name := nm.Obj().Name()
	if s, ok := x.structs[name]; ok {
		return s
	}
	s := &xstruct{named: nm, lean: "GoSrc.T_" + name, has: map[string]bool{}}
	x.structs[name] = s
	st := nm.Underlying().(*types.Struct)
	for i := 0; i < st.NumFields(); i++ {
		f := st.Field(i)
		var lt, z string
		func() {
			defer func() {
				if r := recover(); r != nil {
					if _, ok := r.(xerr); !ok {
						panic(r)
					}
					lt = ""
				}
			}()
			if at, isArr := f.Type().(*types.Array); isArr {
				// fixed-size arrays of integers or of completely representable structs (modelled as Lean arrays whose
				// size is a well-formedness hypothesis of the theorems; every access is bounds-checked against the size)
				if _, _, isInt := intInfo(at.Elem()); !isInt {
					nm := derefNamed(at.Elem())
					if nm == nil {
						return
					}
					ns := x.structOf(nm)
					if len(ns.fields) != nm.Underlying().(*types.Struct).NumFields() || len(ns.fields) == 0 {
						return
					}
				}
			}
			if nm := derefNamed(f.Type()); nm != nil {
				// a nested struct is kept only when it is representable completely
				// a nested struct is kept when at least one of its fields is representable (its unsupported fields —
				// interfaces, maps — are dropped, and a function touching them fails to translate)
				ns := x.structOf(nm)
				if len(ns.fields) == 0 {
					return
				}
			}
			lt = x.leanType(nil2(), f.Type())
			z = x.zeroOf(nil2(), f.Type())
		}()
		if lt == "" {
			continue
		}
		s.fields = append(s.fields, fmt.Sprintf("%s : %s", leanIdent(f.Name()), lt))
		s.zero = append(s.zero, fmt.Sprintf("%s := %s", leanIdent(f.Name()), z))
		s.has[f.Name()] = true
	}
	x.sorder = append(x.sorder, name)
	return s
}

type nilNode struct{}

func (nilNode) Pos() token.Pos { return token.NoPos }
func (nilNode) End() token.Pos { return token.NoPos }
func nil2() ast.Node           { return nilNode{} }

var leanKeywords = map[string]bool{"end": true, "at": true, "from": true, "open": true, "in": true, "fun": true, "then": true,
	"do": true, "if": true, "else": true, "let": true, "have": true, "show": true, "by": true, "match": true, "with": true,
	"where": true, "def": true, "theorem": true, "structure": true, "namespace": true, "section": true, "instance": true,
	"class": true, "Type": true, "Prop": true, "Sort": true, "import": true, "export": true, "mutual": true, "private": true,
	"protected": true, "return": true, "for": true, "unless": true, "try": true, "catch": true, "finally": true, "mut": true,
	"using": true, "calc": true, "rec": true, "macro": true, "syntax": true, "open_": false, "variable": true, "universe": true, "example": true, "abbrev": true, "inductive": true, "deriving": true, "extends": true, "this": true, "nomatch": true, "nofun": true, "suffices": true, "obtain": false, "set_option": true, "attribute": true, "noncomputable": true, "partial": true, "termination_by": true, "decreasing_by": true, "state": false, "fuel": true, "default": true}

func leanIdent(s string) string {
	if leanKeywords[s] || s == "_" {
		return s + "_"
	}
	return s
}

// ---------------------------------------------------------------------------------------------------------------------
// per-function translation context

type xctx struct {
	x       *xl
	f       *xfunc
	names   map[types.Object]string
	used    map[string]bool
	scope   []types.Object // variables in scope, in declaration order (for loop tuples)
	tmp     int
	idxMemo map[*ast.IndexExpr]string
	aliases map[types.Object]ast.Expr   // local pointer variables bound to `&lvalue`: compile-time aliases
	views   map[types.Object]*sliceView // local slices bound to `base[lo:hi]`: views into the base slice
	aliasDeps map[types.Object]bool    // variables occurring in the index of a live alias: must not be reassigned
	natVars []string                    // immutable Nat variables (view bounds) that loops must receive as parameters
	pre     []func(string) string
	depth   int
	// loop context
	inLoop   bool
	loopRet  func(vals string) string // how to return from inside a loop
	loopVars []types.Object
}

func (c *xctx) name(o types.Object) string {
	if n, ok := c.names[o]; ok {
		return n
	}
	base := leanIdent(o.Name())
	n := base
	for i := 1; c.used[n]; i++ {
		n = fmt.Sprintf("%s_%d", base, i)
	}
	c.used[n] = true
	c.names[o] = n
	return n
}

func (c *xctx) fresh(p string) string {
	c.tmp++
	n := fmt.Sprintf("%s_%d", p, c.tmp)
	c.used[n] = true
	return n
}

func (c *xctx) declare(o types.Object) string {
	n := c.name(o)
	for _, s := range c.scope {
		if s == o {
			return n
		}
	}
	c.scope = append(c.scope, o)
	return n
}

func (c *xctx) ind() string { return "\n" + strings.Repeat("  ", c.depth+1) }

func (c *xctx) flush(code string) string {
	for i := len(c.pre) - 1; i >= 0; i-- {
		code = c.pre[i](code)
	}
	c.pre = nil
	return code
}

func (c *xctx) lit(n ast.Node, v constant.Value, t types.Type) string {
	if bits, _, ok := intInfo(t); ok {
		iv := constant.ToInt(v)
		if iv.Kind() != constant.Int {
			c.x.fail(n, "non-integer constant")
		}
		if constant.Sign(iv) < 0 {
			return fmt.Sprintf("(BitVec.ofInt %d (%s))", bits, iv.ExactString())
		}
		return fmt.Sprintf("(%s#%d)", iv.ExactString(), bits)
	}
	if b, ok := t.Underlying().(*types.Basic); ok {
		switch {
		case b.Info()&types.IsBoolean != 0:
			if constant.BoolVal(v) {
				return "true"
			}
			return "false"
		case b.Info()&types.IsString != 0:
			return leanStr(constant.StringVal(v))
		case b.Info()&types.IsInteger != 0: // untyped integer (shift counts)
			return constant.ToInt(v).ExactString()
		}
	}
	c.x.fail(n, "unsupported constant of type %s", t)
	return ""
}

// shift count as a Nat term
func (c *xctx) shiftCount(e ast.Expr) string {
	tv := c.x.info.Types[e]
	if tv.Value != nil {
		iv := constant.ToInt(tv.Value)
		if constant.Sign(iv) < 0 {
			c.x.fail(e, "negative shift count")
		}
		return iv.ExactString()
	}
	_, signed, ok := intInfo(tv.Type)
	if !ok || signed {
		c.x.fail(e, "shift count must be unsigned or constant (type %s)", tv.Type)
	}
	return "(" + c.expr(e) + ").toNat"
}

func (c *xctx) expr(e ast.Expr) string {
	info := c.x.info
	tv, hasTV := info.Types[e]
	if hasTV && tv.Value != nil {
		return c.lit(e, tv.Value, tv.Type)
	}
	switch v := e.(type) {
	case *ast.ParenExpr:
		return c.expr(v.X)
	case *ast.Ident:
		if v.Name == "nil" {
			if isErrorType(tv.Type) || tv.Type == types.Typ[types.UntypedNil] {
				// the type of an untyped nil in context is recorded on the expression
				return c.nilOf(e)
			}
			return c.nilOf(e)
		}
		o := info.Uses[v]
		if o == nil {
			o = info.Defs[v]
		}
		switch ob := o.(type) {
		case *types.Var:
			if a, ok := c.aliases[ob]; ok {
				return c.expr(a)
			}
			if ob.Parent() == c.x.pkg.Scope() {
				if isErrorType(ob.Type()) {
					return fmt.Sprintf("(Go.Err.named %s)", leanStr(ob.Name()))
				}
				return c.x.global(v, ob)
			}
			return c.name(ob)
		}
		c.x.fail(e, "unsupported identifier %s", v.Name)
	case *ast.SelectorExpr:
		if sel, ok := info.Selections[v]; ok && sel.Kind() == types.FieldVal {
			base := c.expr(v.X)
			return base + "." + strings.Join(c.fieldChain(v, sel), ".")
		}
		// qualified identifier
		if o, ok := info.Uses[v.Sel].(*types.Var); ok && o.Pkg() != nil && isErrorType(o.Type()) {
			return fmt.Sprintf("(Go.Err.named %s)", leanStr(o.Pkg().Name()+"."+o.Name()))
		}
		c.x.fail(e, "unsupported selector")
	case *ast.StarExpr:
		return c.expr(v.X)
	case *ast.UnaryExpr:
		switch v.Op {
		case token.SUB:
			return "(-" + c.expr(v.X) + ")"
		case token.XOR:
			return "(~~~" + c.expr(v.X) + ")"
		case token.NOT:
			return "(!" + c.expr(v.X) + ")"
		case token.ADD:
			return c.expr(v.X)
		case token.AND:
			if cl, ok := v.X.(*ast.CompositeLit); ok {
				return c.complit(cl)
			}
			return c.expr(v.X)
		}
		c.x.fail(e, "unsupported unary operator %s", v.Op)
	case *ast.BinaryExpr:
		return c.binary(v)
	case *ast.CallExpr:
		rs := c.call(v)
		if len(rs) != 1 {
			c.x.fail(e, "call with %d results used as a value", len(rs))
		}
		return rs[0]
	case *ast.CompositeLit:
		return c.complit(v)
	case *ast.IndexExpr:
		return c.index(v)
	case *ast.SliceExpr:
		// a slice of a slice as a VALUE (a copy): only where the result is read, never written through — callers check
		if v.Max != nil {
			c.x.fail(e, "three-index slice")
		}
		if _, ok := info.Types[v.X].Type.Underlying().(*types.Slice); !ok {
			c.x.fail(e, "slice of a non-slice")
		}
		base := c.expr(v.X)
		lo, hi := "0", "("+base+").size"
		if v.Low != nil {
			lo = c.shiftCount(v.Low)
		}
		if v.High != nil {
			hi = c.shiftCount(v.High)
		}
		l, h := c.fresh("lo"), c.fresh("hi")
		c.f.canFail = true
		c.pre = append(c.pre, func(rest string) string {
			return fmt.Sprintf("let %s := %s%slet %s := %s%sif %s < %s ∨ (%s).size < %s then Go.Res.panic \"slice bounds out of range\" else%s%s",
				l, lo, c.ind(), h, hi, c.ind(), h, l, base, h, c.ind(), rest)
		})
		return fmt.Sprintf("((%s).extract %s %s)", base, l, h)
	}
	c.x.fail(e, "unsupported expression %T", e)
	return ""
}

func isNilIdent(e ast.Expr) bool {
	for {
		p, ok := e.(*ast.ParenExpr)
		if !ok {
			break
		}
		e = p.X
	}
	id, ok := e.(*ast.Ident)
	return ok && id.Name == "nil"
}

// expression in a context that expects type t (gives an untyped nil its type)
func sumName(t types.Type) string {
	if nm, ok := t.(*types.Named); ok {
		if _, ok := xlateSums[nm.Obj().Name()]; ok {
			return nm.Obj().Name()
		}
	}
	return ""
}

func (c *xctx) exprT(e ast.Expr, t types.Type) string {
	if sn := sumName(t); sn != "" {
		c.x.leanType(e, t)
		if isNilIdent(e) {
			return "GoSrc.S_" + sn + ".none"
		}
		et := c.x.info.Types[e].Type
		if ent, ok := et.(*types.Named); ok && sumName(et) == "" {
			// a concrete implementation stored in the interface
			for _, a := range xlateSums[sn] {
				if a == ent.Obj().Name() {
					return fmt.Sprintf("(GoSrc.S_%s.%s %s)", sn, leanIdent(a), c.expr(e))
				}
			}
			c.x.fail(e, "type %s is not a registered alternative of %s", ent.Obj().Name(), sn)
		}
		return c.expr(e)
	}
	if isNilIdent(e) {
		if isErrorType(t) {
			return "Go.Err.nil"
		}
		if _, ok := t.(*types.Pointer); ok {
			return c.x.zeroOf(e, t)
		}
		c.x.fail(e, "unsupported nil of type %s", t)
	}
	return c.expr(e)
}

func (c *xctx) nilOf(e ast.Expr) string {
	t := c.x.info.Types[e].Type
	if t == nil || t == types.Typ[types.UntypedNil] {
		c.x.fail(e, "nil of unknown type")
	}
	if isErrorType(t) {
		return "Go.Err.nil"
	}
	if _, ok := t.(*types.Pointer); ok {
		return c.x.zeroOf(e, t)
	}
	c.x.fail(e, "unsupported nil of type %s", t)
	return ""
}

// fieldChain resolves a field selection (including promotion through embedded structs) to the list of field names
func (c *xctx) fieldChain(v *ast.SelectorExpr, sel *types.Selection) []string {
	t := c.x.info.Types[v.X].Type
	var names []string
	for _, idx := range sel.Index() {
		nm := derefNamed(t)
		if nm == nil {
			c.x.fail(v, "field of unsupported type")
		}
		xs := c.x.structOf(nm)
		f := nm.Underlying().(*types.Struct).Field(idx)
		if !xs.has[f.Name()] {
			c.x.fail(v, "field %s.%s is outside the translated subset", nm.Obj().Name(), f.Name())
		}
		names = append(names, leanIdent(f.Name()))
		t = f.Type()
	}
	return names
}

func derefNamed(t types.Type) *types.Named {
	if p, ok := t.(*types.Pointer); ok {
		t = p.Elem()
	}
	n, _ := t.(*types.Named)
	if n == nil {
		return nil
	}
	if _, ok := n.Underlying().(*types.Struct); !ok {
		return nil
	}
	return n
}

func (c *xctx) complit(cl *ast.CompositeLit) string {
	nm := derefNamed(c.x.info.Types[cl].Type)
	if nm == nil {
		c.x.fail(cl, "unsupported composite literal")
	}
	xs := c.x.structOf(nm)
	set := map[string]string{}
	for _, el := range cl.Elts {
		kv, ok := el.(*ast.KeyValueExpr)
		if !ok {
			// positional: the i-th field
			st := nm.Underlying().(*types.Struct)
			if len(cl.Elts) != st.NumFields() {
				c.x.fail(cl, "positional composite literal with missing fields")
			}
			for j, pe := range cl.Elts {
				f := st.Field(j)
				if !xs.has[f.Name()] {
					c.x.fail(cl, "field %s outside the subset", f.Name())
				}
				set[f.Name()] = c.exprT(pe, f.Type())
			}
			break
		}
		k := kv.Key.(*ast.Ident).Name
		if !xs.has[k] {
			c.x.fail(cl, "field %s outside the subset", k)
		}
		set[k] = c.expr(kv.Value)
	}
	st := nm.Underlying().(*types.Struct)
	var parts []string
	for i := 0; i < st.NumFields(); i++ {
		f := st.Field(i)
		if !xs.has[f.Name()] {
			continue
		}
		if v, ok := set[f.Name()]; ok {
			parts = append(parts, leanIdent(f.Name())+" := "+v)
		} else {
			parts = append(parts, leanIdent(f.Name())+" := "+c.x.zeroOf(cl, f.Type()))
		}
	}
	return "({ " + strings.Join(parts, ", ") + " } : " + xs.lean + ")"
}

func (c *xctx) index(v *ast.IndexExpr) string {
	xt := c.x.info.Types[v.X].Type.Underlying()
	if vw := c.viewOf(v.X); vw != nil {
		sl := xt.(*types.Slice)
		i, ok := c.idxMemo[v]
		if !ok {
			i = c.viewIndex(v, vw)
			c.idxMemo[v] = i
		}
		return fmt.Sprintf("(%s.getD %s %s)", c.expr(vw.base), i, c.x.zeroOf(v, sl.Elem()))
	}
	if at, ok := xt.(*types.Array); ok && !c.isGlobalArray(v.X) {
		if tv := c.x.info.Types[v.Index]; tv.Value != nil {
			if k, exact := constant.Int64Val(constant.ToInt(tv.Value)); exact && k >= 0 && k < at.Len() {
				// constant index inside the array's static length: checked by the Go compiler
				return fmt.Sprintf("(%s.getD %d %s)", c.expr(v.X), k, c.x.zeroOf(v, at.Elem()))
			}
		}
		arr := c.expr(v.X)
		i, ok := c.idxMemo[v]
		if !ok {
			i = c.indexNat(v)
			c.idxMemo[v] = i
		}
		return fmt.Sprintf("(%s.getD %s %s)", arr, i, c.x.zeroOf(v, at.Elem()))
	}
	if sl, ok := xt.(*types.Slice); ok {
		arr := c.expr(v.X)
		i, ok := c.idxMemo[v]
		if !ok {
			i = c.indexNat(v)
			c.idxMemo[v] = i
		}
		return fmt.Sprintf("(%s.getD %s %s)", arr, i, c.x.zeroOf(v, sl.Elem()))
	}
	at, ok := xt.(*types.Array)
	if !ok {
		c.x.fail(v, "indexing of a non-array")
	}
	arr := c.expr(v.X)
	_, signed, iok := intInfo(c.x.info.Types[v.Index].Type)
	if !iok {
		c.x.fail(v, "index type")
	}
	idx := c.expr(v.Index)
	var nat string
	if signed {
		nat = "(" + idx + ").toInt.toNat"
	} else {
		nat = "(" + idx + ").toNat"
	}
	i := c.fresh("i")
	n := at.Len()
	c.f.canFail = true
	neg := ""
	if signed {
		neg = fmt.Sprintf("(%s).toInt < 0 ∨ ", idx)
	}
	c.pre = append(c.pre, func(rest string) string {
		return fmt.Sprintf("let %s := %s%sif %s%d ≤ %s then Go.Res.panic \"index out of range\" else%s%s", i, nat, c.ind(), neg, n, i, c.ind(), rest)
	})
	return fmt.Sprintf("(%s.getD %s %s)", arr, i, c.x.zeroOf(v, at.Elem()))
}

func (c *xctx) viewOf(e ast.Expr) *sliceView {
	id, ok := e.(*ast.Ident)
	if !ok {
		return nil
	}
	o := c.x.info.Uses[id]
	if o == nil {
		return nil
	}
	return c.views[o]
}

// viewIndex: index into a view, as an index into its base (range check against the view's length)
func (c *xctx) viewIndex(v *ast.IndexExpr, vw *sliceView) string {
	_, signed, iok := intInfo(c.x.info.Types[v.Index].Type)
	if !iok || signed {
		c.x.fail(v, "index into a slice view must be unsigned")
	}
	idx := c.expr(v.Index)
	i := c.fresh("i")
	c.f.canFail = true
	lo, hi := vw.lo, vw.hi
	c.pre = append(c.pre, func(rest string) string {
		return fmt.Sprintf("if %s - %s ≤ (%s).toNat then Go.Res.panic \"index out of range\" else%slet %s := %s + (%s).toNat%s%s", hi, lo, idx, c.ind(), i, lo, idx, c.ind(), rest)
	})
	return i
}

func (c *xctx) isGlobalArray(e ast.Expr) bool {
	id, ok := e.(*ast.Ident)
	if !ok {
		return false
	}
	o, _ := c.x.info.Uses[id].(*types.Var)
	return o != nil && o.Parent() == c.x.pkg.Scope()
}

// indexNat: the index of a slice access as a Nat variable, bound after the range check (panic when out of range)
func (c *xctx) indexNat(v *ast.IndexExpr) string {
	_, signed, iok := intInfo(c.x.info.Types[v.Index].Type)
	if !iok {
		c.x.fail(v, "index type")
	}
	arr := c.expr(v.X)
	idx := c.expr(v.Index)
	nat := "(" + idx + ").toNat"
	neg := ""
	if signed {
		nat = "(" + idx + ").toInt.toNat"
		neg = fmt.Sprintf("(%s).toInt < 0 ∨ ", idx)
	}
	i := c.fresh("i")
	c.f.canFail = true
	c.pre = append(c.pre, func(rest string) string {
		return fmt.Sprintf("let %s := %s%sif %s%s.size ≤ %s then Go.Res.panic \"index out of range\" else%s%s", i, nat, c.ind(), neg, arr, i, c.ind(), rest)
	})
	return i
}

func (c *xctx) binary(v *ast.BinaryExpr) string {
	info := c.x.info
	lt := info.Types[v.X].Type
	switch v.Op {
	case token.LAND:
		return "(" + c.expr(v.X) + " && " + c.pureExpr(v.Y) + ")"
	case token.LOR:
		return "(" + c.expr(v.X) + " || " + c.pureExpr(v.Y) + ")"
	case token.SHL, token.SHR:
		bits, signed, ok := intInfo(info.Types[v].Type)
		if !ok {
			c.x.fail(v, "shift of a non-integer")
		}
		_ = bits
		a := c.expr(v.X)
		n := c.shiftCount(v.Y)
		if v.Op == token.SHL {
			return fmt.Sprintf("(BitVec.shiftLeft %s %s)", a, n)
		}
		if signed {
			return fmt.Sprintf("(BitVec.sshiftRight %s %s)", a, n)
		}
		return fmt.Sprintf("(BitVec.ushiftRight %s %s)", a, n)
	}
	for _, side := range []ast.Expr{v.X, v.Y} {
		if isNilIdent(side) {
			other := v.X
			if side == v.X {
				other = v.Y
			}
			if _, isPtr := info.Types[other].Type.(*types.Pointer); isPtr {
				// a nil pointer has no faithful image (pointers to structs are flattened to values)
				c.x.fail(v, "pointer compared with nil")
			}
		}
	}
	var a, b string
	switch {
	case isNilIdent(v.Y):
		a = c.expr(v.X)
		b = c.exprT(v.Y, lt)
	case isNilIdent(v.X):
		b = c.expr(v.Y)
		a = c.exprT(v.X, info.Types[v.Y].Type)
	default:
		a, b = c.expr(v.X), c.expr(v.Y)
	}
	_, signed, isInt := intInfo(lt)
	switch v.Op {
	case token.EQL:
		return fmt.Sprintf("(%s == %s)", a, b)
	case token.NEQ:
		return fmt.Sprintf("(%s != %s)", a, b)
	}
	if !isInt {
		c.x.fail(v, "operator %s on type %s", v.Op, lt)
	}
	cmp := func(u, s string, x, y string) string {
		if signed {
			return fmt.Sprintf("(BitVec.%s %s %s)", s, x, y)
		}
		return fmt.Sprintf("(BitVec.%s %s %s)", u, x, y)
	}
	switch v.Op {
	case token.LSS:
		return cmp("ult", "slt", a, b)
	case token.LEQ:
		return cmp("ule", "sle", a, b)
	case token.GTR:
		return cmp("ult", "slt", b, a)
	case token.GEQ:
		return cmp("ule", "sle", b, a)
	case token.ADD:
		return fmt.Sprintf("(%s + %s)", a, b)
	case token.SUB:
		return fmt.Sprintf("(%s - %s)", a, b)
	case token.MUL:
		return fmt.Sprintf("(%s * %s)", a, b)
	case token.AND:
		return fmt.Sprintf("(%s &&& %s)", a, b)
	case token.OR:
		return fmt.Sprintf("(%s ||| %s)", a, b)
	case token.XOR:
		return fmt.Sprintf("(%s ^^^ %s)", a, b)
	case token.AND_NOT:
		return fmt.Sprintf("(%s &&& ~~~%s)", a, b)
	case token.QUO, token.REM:
		yv := info.Types[v.Y].Value
		if yv == nil || constant.Sign(constant.ToInt(yv)) == 0 {
			c.x.fail(v, "division by a non-constant")
		}
		op := map[bool]map[token.Token]string{false: {token.QUO: "BitVec.udiv", token.REM: "BitVec.umod"}, true: {token.QUO: "BitVec.sdiv", token.REM: "BitVec.srem"}}[signed][v.Op]
		return fmt.Sprintf("(%s %s %s)", op, a, b)
	}
	c.x.fail(v, "unsupported binary operator %s", v.Op)
	return ""
}

// the right operand of && / || must not need statement-level bindings (it is evaluated conditionally)
func (c *xctx) pureExpr(e ast.Expr) string {
	n := len(c.pre)
	s := c.expr(e)
	if len(c.pre) != n {
		c.x.fail(e, "call or index inside a conditionally evaluated operand")
	}
	return s
}

// lvalue path: root variable + field names
func (c *xctx) path(e ast.Expr) (types.Object, []string) {
	switch v := e.(type) {
	case *ast.ParenExpr:
		return c.path(v.X)
	case *ast.Ident:
		o := c.x.info.Uses[v]
		if o == nil {
			o = c.x.info.Defs[v]
		}
		if a, ok := c.aliases[o]; ok {
			return c.path(a)
		}
		if ob, ok := o.(*types.Var); ok && ob.Parent() != c.x.pkg.Scope() {
			return ob, nil
		}
		c.x.fail(e, "assignment to a non-local")
	case *ast.StarExpr:
		return c.path(v.X)
	case *ast.UnaryExpr:
		if v.Op == token.AND {
			return c.path(v.X)
		}
	case *ast.SelectorExpr:
		if sel, ok := c.x.info.Selections[v]; ok && sel.Kind() == types.FieldVal {
			o, p := c.path(v.X)
			return o, append(p, c.fieldChain(v, sel)...)
		}
	case *ast.IndexExpr:
		if vw := c.viewOf(v.X); vw != nil {
			o, p := c.path(vw.base)
			i, ok := c.idxMemo[v]
			if !ok {
				i = c.viewIndex(v, vw)
				c.idxMemo[v] = i
			}
			return o, append(p, "["+i+"]")
		}
		if at, ok := c.x.info.Types[v.X].Type.Underlying().(*types.Array); ok && !c.isGlobalArray(v.X) {
			if tv := c.x.info.Types[v.Index]; tv.Value != nil {
				if k, exact := constant.Int64Val(constant.ToInt(tv.Value)); exact && k >= 0 && k < at.Len() {
					o, p := c.path(v.X)
					return o, append(p, fmt.Sprintf("[%d]", k))
				}
			}
		}
		_, isSlice := c.x.info.Types[v.X].Type.Underlying().(*types.Slice)
		_, isArray := c.x.info.Types[v.X].Type.Underlying().(*types.Array)
		if isSlice || (isArray && !c.isGlobalArray(v.X)) {
			o, p := c.path(v.X)
			i, ok := c.idxMemo[v]
			if !ok {
				i = c.indexNat(v)
				c.idxMemo[v] = i
			}
			return o, append(p, "["+i+"]")
		}
	}
	c.x.fail(e, "unsupported assignment target %T", e)
	return nil, nil
}

// `let root := <root with path := val>`
func (c *xctx) assignTo(e ast.Expr, val string) string {
	if id, ok := e.(*ast.Ident); ok && id.Name == "_" {
		return ""
	}
	o, p := c.path(e)
	if len(p) == 0 && c.aliasDeps[o] {
		c.x.fail(e, "variable %s is used in the index of a live pointer alias and reassigned", o.Name())
	}
	root := c.name(o)
	return fmt.Sprintf("let %s := %s", root, withPath(root, p, val))
}

func withPath(base string, p []string, val string) string {
	if len(p) == 0 {
		return val
	}
	if strings.HasPrefix(p[0], "[") {
		i := strings.Trim(p[0], "[]")
		return fmt.Sprintf("(%s.setIfInBounds %s %s)", base, i, withPath(fmt.Sprintf("(%s.getD %s default)", base, i), p[1:], val))
	}
	return fmt.Sprintf("{ %s with %s := %s }", base, p[0], withPath(base+"."+p[0], p[1:], val))
}

// call: returns the names / terms of the Go results; bindings are pushed to c.pre
func (c *xctx) call(v *ast.CallExpr) []string {
	info := c.x.info
	// conversion
	if tv, ok := info.Types[v.Fun]; ok && tv.IsType() {
		if len(v.Args) != 1 {
			c.x.fail(v, "conversion arity")
		}
		src := info.Types[v.Args[0]].Type
		sb, ss, ok1 := intInfo(src)
		db, _, ok2 := intInfo(tv.Type)
		if !ok1 || !ok2 {
			c.x.fail(v, "unsupported conversion %s -> %s", src, tv.Type)
		}
		a := c.expr(v.Args[0])
		switch {
		case db == sb:
			return []string{a}
		case db < sb:
			return []string{fmt.Sprintf("(BitVec.setWidth %d %s)", db, a)}
		case ss:
			return []string{fmt.Sprintf("(BitVec.signExtend %d %s)", db, a)}
		default:
			return []string{fmt.Sprintf("(BitVec.setWidth %d %s)", db, a)}
		}
	}
	// len(slice / array)
	if id, ok := v.Fun.(*ast.Ident); ok && id.Name == "len" && len(v.Args) == 1 {
		if _, isB := info.Uses[id].(*types.Builtin); isB {
			switch at := info.Types[v.Args[0]].Type.Underlying().(type) {
			case *types.Slice:
				return []string{fmt.Sprintf("(BitVec.ofNat 64 (%s).size)", c.expr(v.Args[0]))}
			case *types.Array:
				return []string{fmt.Sprintf("(%d#64)", at.Len())}
			}
		}
	}
	// errors.New("…")
	if se, ok := v.Fun.(*ast.SelectorExpr); ok {
		if o, ok := info.Uses[se.Sel].(*types.Func); ok && o.Pkg() != nil && o.Pkg().Path() == "errors" && o.Name() == "New" {
			if tv := info.Types[v.Args[0]]; tv.Value != nil {
				return []string{fmt.Sprintf("(Go.Err.new %s)", leanStr(constant.StringVal(tv.Value)))}
			}
		}
	}
	var callee *types.Func
	var recvExpr ast.Expr
	switch fn := v.Fun.(type) {
	case *ast.Ident:
		callee, _ = info.Uses[fn].(*types.Func)
	case *ast.SelectorExpr:
		if sel, ok := info.Selections[fn]; ok && sel.Kind() == types.MethodVal {
			callee, _ = sel.Obj().(*types.Func)
			recvExpr = fn.X
		}
	}
	if callee == nil {
		c.x.fail(v, "unsupported call")
	}
	// modelled externals: io.ByteWriter.WriteByte, io.ByteReader.ReadByte
	if recvExpr != nil {
		rt := info.Types[recvExpr].Type
		if namedIs(rt, "io", "ByteWriter") && callee.Name() == "WriteByte" {
			a := c.expr(v.Args[0])
			r, m := c.fresh("err"), c.fresh("w")
			wb := c.assignTo(recvExpr, m)
			c.noteMut(recvExpr)
			call := fmt.Sprintf("Go.ByteWriter.WriteByte %s %s", c.expr(recvExpr), a)
			c.pre = append(c.pre, func(rest string) string {
				return fmt.Sprintf("let (%s, %s) := %s%s%s%s%s", r, m, call, c.ind(), wb, c.ind(), rest)
			})
			return []string{r}
		}
		if namedIs(rt, "io", "ByteReader") && callee.Name() == "ReadByte" {
			b, r, m := c.fresh("b"), c.fresh("err"), c.fresh("r")
			wb := c.assignTo(recvExpr, m)
			c.noteMut(recvExpr)
			call := fmt.Sprintf("Go.ByteReader.ReadByte %s", c.expr(recvExpr))
			c.pre = append(c.pre, func(rest string) string {
				return fmt.Sprintf("let (%s, %s, %s) := %s%s%s%s%s", b, r, m, call, c.ind(), wb, c.ind(), rest)
			})
			return []string{b, r}
		}
	}
	tf := c.x.byObj[callee]
	if tf == nil {
		c.x.fail(v, "call of %s, which is not translated", callee.Name())
	}
	if tf.err != nil {
		c.x.fail(v, "call of %s, whose translation failed", callee.Name())
	}
	var args []string
	if tf.needsFuel {
		args = append(args, "fuel")
		c.f.needsFuel = true
	}
	if tf.canFail {
		c.f.canFail = true
	}
	var ptrExprs []ast.Expr
	if recvExpr != nil {
		args = append(args, c.expr(recvExpr))
		if isRefType(tf.recv.Type()) {
			ptrExprs = append(ptrExprs, recvExpr)
		}
	}
	for i, a := range v.Args {
		args = append(args, c.exprT(a, tf.sig.Params().At(i).Type()))
		if isRefType(tf.sig.Params().At(i).Type()) {
			ptrExprs = append(ptrExprs, a)
		}
	}
	var pat, res, wbs []string
	for i := 0; i < tf.sig.Results().Len(); i++ {
		r := c.fresh("r")
		pat = append(pat, r)
		res = append(res, r)
	}
	for i, pv := range tf.ptrs {
		if tf.mut[pv] {
			m := c.fresh("m")
			pat = append(pat, m)
			wbs = append(wbs, c.assignTo(ptrExprs[i], m))
			c.noteMut(ptrExprs[i])
		}
	}
	call := tf.lean + " " + strings.Join(args, " ")
	if !tf.canFail && len(pat) == 1 && len(res) == 1 {
		// a pure function (no panic, no loop, nothing mutated): an ordinary expression
		return []string{"(" + call + ")"}
	}
	var p string
	switch len(pat) {
	case 0:
		p = "_"
	case 1:
		p = pat[0]
	default:
		p = "(" + strings.Join(pat, ", ") + ")"
	}
	canFail := tf.canFail
	c.pre = append(c.pre, func(rest string) string {
		body := rest
		for i := len(wbs) - 1; i >= 0; i-- {
			if wbs[i] != "" {
				body = wbs[i] + c.ind() + body
			}
		}
		if canFail {
			return fmt.Sprintf("Go.Res.bind (%s) (fun %s =>%s%s)", call, p, c.ind(), body)
		}
		return fmt.Sprintf("let %s := %s%s%s", p, call, c.ind(), body)
	})
	if len(res) == 0 {
		return nil
	}
	return res
}

func (c *xctx) noteMut(e ast.Expr) {
	o, _ := c.path(e)
	if v, ok := o.(*types.Var); ok {
		for _, p := range c.f.ptrs {
			if p == v {
				c.f.mut[p] = true
			}
		}
	}
}

// ---------------------------------------------------------------------------------------------------------------------
// statements, continuation-passing

// sliceView: `v := base[lo:hi]` — reads and writes of v[i] go to base[lo+i], range-checked against hi-lo
type sliceView struct {
	base   ast.Expr
	lo, hi string // Nat variables
}

type kont struct {
	fall func() string // code for what follows when control falls off the end
	brk  func() string
	cont func() string
}

func (c *xctx) retTuple(vals []string) string {
	all := append([]string{}, vals...)
	for _, p := range c.f.ptrs {
		if c.f.mut[p] {
			all = append(all, c.name(p))
		}
	}
	var t string
	switch len(all) {
	case 0:
		t = "()"
	case 1:
		t = all[0]
	default:
		t = "(" + strings.Join(all, ", ") + ")"
	}
	return t
}

func (c *xctx) ret(vals []string) string {
	t := c.retTuple(vals)
	if c.inLoop {
		return "Go.Res.ok (Sum.inl " + t + ")"
	}
	if c.f.canFailFinal() {
		return "Go.Res.ok " + t
	}
	return t
}

// canFail is discovered during translation; the body is generated twice (second time with the final value)
func (f *xfunc) canFailFinal() bool { return f.canFail }

func (c *xctx) namedResults() []string {
	var vals []string
	rs := c.f.sig.Results()
	for i := 0; i < rs.Len(); i++ {
		if rs.At(i).Name() == "" {
			return nil
		}
		vals = append(vals, c.name(rs.At(i)))
	}
	return vals
}

func (c *xctx) stmts(ss []ast.Stmt, k kont) string {
	if len(ss) == 0 {
		return k.fall()
	}
	s := ss[0]
	// index variables (bounds-checked once, shared by a read and its write-back) live for one statement only: the code
	// after an `if` is generated once per branch and must not refer to bindings of another branch
	c.idxMemo = map[*ast.IndexExpr]string{}
	rest := func() string { return c.stmts(ss[1:], k) }
	line := func(l string) string {
		pre := c.pre
		c.pre = nil
		code := rest()
		if l != "" {
			code = l + c.ind() + code
		}
		c.pre = pre
		return c.flush(code)
	}
	switch v := s.(type) {
	case *ast.EmptyStmt:
		return rest()
	case *ast.BlockStmt:
		return c.stmts(v.List, kont{fall: rest, brk: k.brk, cont: k.cont})
	case *ast.DeclStmt:
		gd := v.Decl.(*ast.GenDecl)
		if gd.Tok == token.CONST {
			return rest()
		}
		if gd.Tok != token.VAR {
			c.x.fail(s, "unsupported declaration")
		}
		var lets []string
		for _, sp := range gd.Specs {
			vs := sp.(*ast.ValueSpec)
			for i, n := range vs.Names {
				o := c.x.info.Defs[n]
				var val string
				if len(vs.Values) > i {
					val = c.expr(vs.Values[i])
				} else {
					val = c.x.zeroOf(n, o.Type())
				}
				lets = append(lets, fmt.Sprintf("let %s : %s := %s", c.declare(o), c.x.leanType(n, o.Type()), val))
			}
		}
		return line(strings.Join(lets, c.ind()))
	case *ast.ExprStmt:
		call, ok := v.X.(*ast.CallExpr)
		if !ok {
			c.x.fail(s, "unsupported expression statement")
		}
		if id, ok := call.Fun.(*ast.Ident); ok && id.Name == "panic" {
			msg := "panic"
			if tv := c.x.info.Types[call.Args[0]]; tv.Value != nil && tv.Value.Kind() == constant.String {
				msg = constant.StringVal(tv.Value)
			}
			c.f.canFail = true
			return c.flush("Go.Res.panic " + leanStr(msg))
		}
		c.call(call)
		return line("")
	case *ast.IncDecStmt:
		op := "+"
		if v.Tok == token.DEC {
			op = "-"
		}
		bits, _, ok := intInfo(c.x.info.Types[v.X].Type)
		if !ok {
			c.x.fail(s, "++/-- on a non-integer")
		}
		c.noteMut(v.X)
		return line(c.assignTo(v.X, fmt.Sprintf("(%s %s 1#%d)", c.expr(v.X), op, bits)))
	case *ast.AssignStmt:
		return line(c.assign(v))
	case *ast.ReturnStmt:
		var vals []string
		if len(v.Results) == 0 {
			vals = c.namedResults()
		} else if len(v.Results) == 1 && c.f.sig.Results().Len() > 1 {
			call, ok := v.Results[0].(*ast.CallExpr)
			if !ok {
				c.x.fail(s, "return arity")
			}
			vals = c.call(call)
		} else {
			for i, r := range v.Results {
				vals = append(vals, c.exprT(r, c.f.sig.Results().At(i).Type()))
			}
		}
		return c.flush(c.ret(vals))
	case *ast.IfStmt:
		var initCode string
		if v.Init != nil {
			as, ok := v.Init.(*ast.AssignStmt)
			if !ok {
				c.x.fail(s, "unsupported if-init")
			}
			initCode = c.assign(as)
		}
		cond := c.expr(v.Cond)
		pre := c.pre
		c.pre = nil
		c.depth++
		scopeLen := len(c.scope) // variables declared inside one branch are not in scope in the other
		savedDeps := map[types.Object]bool{}
		for k0, v0 := range c.aliasDeps {
			savedDeps[k0] = v0
		}
		thenCode := c.stmts(v.Body.List, kont{fall: rest, brk: k.brk, cont: k.cont})
		c.scope = c.scope[:scopeLen]
		c.aliasDeps = savedDeps // aliases created in the then-branch (or in the code after the if, generated inside it) are not live in the else-branch
		var elseCode string
		switch el := v.Else.(type) {
		case nil:
			elseCode = rest()
		case *ast.BlockStmt:
			elseCode = c.stmts(el.List, kont{fall: rest, brk: k.brk, cont: k.cont})
		case *ast.IfStmt:
			elseCode = c.stmts([]ast.Stmt{el}, kont{fall: rest, brk: k.brk, cont: k.cont})
		}
		c.depth--
		code := fmt.Sprintf("if %s then%s  %s%selse%s  %s", cond, c.ind(), thenCode, c.ind(), c.ind(), elseCode)
		if initCode != "" {
			code = initCode + c.ind() + code
		}
		c.pre = pre
		return c.flush(code)
	case *ast.SwitchStmt:
		if v.Init != nil {
			c.x.fail(s, "switch with init")
		}
		var tag string
		if v.Tag != nil {
			tag = c.expr(v.Tag)
		}
		pre := c.pre
		c.pre = nil
		afterSwitch := kont{fall: rest, brk: rest, cont: k.cont}
		var dflt *ast.CaseClause
		var clauses []*ast.CaseClause
		for _, cc := range v.Body.List {
			cl := cc.(*ast.CaseClause)
			if cl.List == nil {
				dflt = cl
			} else {
				clauses = append(clauses, cl)
			}
			for _, b := range cl.Body {
				if br, ok := b.(*ast.BranchStmt); ok && br.Tok == token.FALLTHROUGH {
					c.x.fail(s, "fallthrough")
				}
			}
		}
		var build func(i int) string
		build = func(i int) string {
			if i == len(clauses) {
				if dflt != nil {
					return c.stmts(dflt.Body, afterSwitch)
				}
				return rest()
			}
			var conds []string
			for _, e := range clauses[i].List {
				if tag != "" {
					conds = append(conds, fmt.Sprintf("(%s == %s)", tag, c.pureExpr(e)))
				} else {
					conds = append(conds, c.pureExpr(e))
				}
			}
			c.depth++
			scopeLen := len(c.scope)
			savedDeps := map[types.Object]bool{}
			for k0, v0 := range c.aliasDeps {
				savedDeps[k0] = v0
			}
			th := c.stmts(clauses[i].Body, afterSwitch)
			c.scope = c.scope[:scopeLen]
			c.aliasDeps = savedDeps
			el := build(i + 1)
			c.depth--
			return fmt.Sprintf("if %s then%s  %s%selse%s  %s", strings.Join(conds, " || "), c.ind(), th, c.ind(), c.ind(), el)
		}
		code := build(0)
		c.pre = pre
		return c.flush(code)
	case *ast.TypeSwitchStmt:
		as, ok := v.Assign.(*ast.AssignStmt)
		var subject ast.Expr
		var bound *ast.Ident
		if ok && len(as.Lhs) == 1 && len(as.Rhs) == 1 {
			bound, _ = as.Lhs[0].(*ast.Ident)
			if ta, ok := as.Rhs[0].(*ast.TypeAssertExpr); ok {
				subject = ta.X
			}
		} else if es, ok := v.Assign.(*ast.ExprStmt); ok {
			if ta, ok := es.X.(*ast.TypeAssertExpr); ok {
				subject = ta.X
			}
		}
		if subject == nil || v.Init != nil {
			c.x.fail(s, "unsupported type switch")
		}
		sn := sumName(c.x.info.Types[subject].Type)
		if sn == "" {
			c.x.fail(s, "type switch on a type that is not a registered sum")
		}
		subj := c.expr(subject)
		pre := c.pre
		c.pre = nil
		after := kont{fall: rest, brk: rest, cont: k.cont}
		var alts []string
		seen := map[string]bool{}
		var dflt *ast.CaseClause
		c.depth++
		for _, cc := range v.Body.List {
			cl := cc.(*ast.CaseClause)
			if cl.List == nil {
				dflt = cl
				continue
			}
			if len(cl.List) != 1 {
				c.x.fail(s, "type switch clause with several types")
			}
			tn, ok := c.x.info.Types[cl.List[0]].Type.(*types.Named)
			if !ok {
				c.x.fail(s, "type switch clause")
			}
			name := tn.Obj().Name()
			seen[name] = true
			v0 := "_"
			scopeLen := len(c.scope)
			if bound != nil {
				if o := c.x.info.Implicits[cl]; o != nil {
					v0 = c.declare(o)
				}
			}
			body := c.stmts(cl.Body, after)
			c.scope = c.scope[:scopeLen]
			alts = append(alts, fmt.Sprintf("| GoSrc.S_%s.%s %s =>%s  %s", sn, leanIdent(name), v0, c.ind(), body))
		}
		var rem []string
		rem = append(rem, "GoSrc.S_"+sn+".none")
		for _, a := range xlateSums[sn] {
			if !seen[a] {
				rem = append(rem, fmt.Sprintf("GoSrc.S_%s.%s _", sn, leanIdent(a)))
			}
		}
		dcode := ""
		if dflt != nil {
			dcode = c.stmts(dflt.Body, after)
		} else {
			dcode = rest()
		}
		c.depth--
		alts = append(alts, fmt.Sprintf("| %s =>%s  %s", strings.Join(rem, " | "), c.ind(), dcode))
		code := fmt.Sprintf("(match %s with%s%s)", subj, c.ind(), strings.Join(alts, c.ind()))
		c.pre = pre
		return c.flush(code)
	case *ast.BranchStmt:
		if v.Label != nil {
			c.x.fail(s, "labelled branch")
		}
		switch v.Tok {
		case token.BREAK:
			if k.brk == nil {
				c.x.fail(s, "break outside a loop")
			}
			return k.brk()
		case token.CONTINUE:
			if k.cont == nil {
				c.x.fail(s, "continue outside a loop")
			}
			return k.cont()
		}
		c.x.fail(s, "unsupported branch")
	case *ast.ForStmt:
		return c.forStmt(v, rest)
	}
	c.x.fail(s, "unsupported statement %T", s)
	return ""
}

func (c *xctx) assign(v *ast.AssignStmt) string {
	info := c.x.info
	var lets []string
	target := func(lhs ast.Expr, val string) {
		if v.Tok == token.DEFINE {
			id := lhs.(*ast.Ident)
			if id.Name == "_" {
				return
			}
			if o := info.Defs[id]; o != nil {
				lets = append(lets, fmt.Sprintf("let %s : %s := %s", c.declare(o), c.x.leanType(id, o.Type()), val))
				return
			}
		}
		c.noteMut(lhs)
		if l := c.assignTo(lhs, val); l != "" {
			lets = append(lets, l)
		}
	}
	if v.Tok == token.DEFINE && len(v.Lhs) == 1 && len(v.Rhs) == 1 {
		if se, ok := v.Rhs[0].(*ast.SliceExpr); ok && se.Low != nil && se.High != nil && se.Max == nil {
			if _, isSlice := info.Types[se.X].Type.Underlying().(*types.Slice); isSlice {
				if id, ok := v.Lhs[0].(*ast.Ident); ok {
					if o := info.Defs[id]; o != nil {
						_, s1, ok1 := intInfo(info.Types[se.Low].Type)
						_, s2, ok2 := intInfo(info.Types[se.High].Type)
						if !ok1 || !ok2 || s1 || s2 {
							c.x.fail(v, "slice bounds must be unsigned")
						}
						lo, hi := c.fresh("lo"), c.fresh("hi")
						base := c.expr(se.X)
						loE, hiE := c.expr(se.Low), c.expr(se.High)
						c.f.canFail = true
						c.views[o] = &sliceView{base: se.X, lo: lo, hi: hi}
						c.natVars = append(c.natVars, lo, hi)
						// Go: panics unless lo <= hi <= cap(base); the slices of the subset are made with len == cap
						return fmt.Sprintf("let %s := (%s).toNat%slet %s := (%s).toNat%sif %s < %s ∨ %s.size < %s then Go.Res.panic \"slice bounds out of range\" else",
							lo, loE, c.ind(), hi, hiE, c.ind(), hi, lo, base, hi)
					}
				}
			}
		}
		if ue, ok := v.Rhs[0].(*ast.UnaryExpr); ok && ue.Op == token.AND {
			if _, isLit := ue.X.(*ast.CompositeLit); !isLit {
				if id, ok := v.Lhs[0].(*ast.Ident); ok {
					if o := info.Defs[id]; o != nil {
						// `p := &lvalue`: a compile-time alias; the lvalue's indexes are evaluated (and range-checked) here
						c.aliases[o] = ue.X
						c.path(ue.X)
						// the alias is re-evaluated at each use: sound only while the variables in its index keep their value
						ast.Inspect(ue.X, func(n ast.Node) bool {
							if ix, ok := n.(*ast.IndexExpr); ok {
								ast.Inspect(ix.Index, func(m ast.Node) bool {
									if id, ok := m.(*ast.Ident); ok {
										if vo, ok := info.Uses[id].(*types.Var); ok {
											c.aliasDeps[vo] = true
										}
									}
									return true
								})
							}
							return true
						})
						return ""
					}
				}
			}
		}
	}
	switch {
	case v.Tok == token.ASSIGN || v.Tok == token.DEFINE:
		if len(v.Rhs) == 1 && len(v.Lhs) > 1 {
			call, ok := v.Rhs[0].(*ast.CallExpr)
			if !ok {
				c.x.fail(v, "unsupported multi-assignment")
			}
			rs := c.call(call)
			if len(rs) != len(v.Lhs) {
				c.x.fail(v, "assignment arity")
			}
			for i, l := range v.Lhs {
				target(l, rs[i])
			}
		} else {
			if len(v.Lhs) != len(v.Rhs) {
				c.x.fail(v, "assignment arity")
			}
			if len(v.Lhs) > 1 {
				// parallel assignment: evaluate all right sides first
				var tmps []string
				for _, r := range v.Rhs {
					t := c.fresh("t")
					lets = append(lets, fmt.Sprintf("let %s := %s", t, c.expr(r)))
					tmps = append(tmps, t)
				}
				for i, l := range v.Lhs {
					target(l, tmps[i])
				}
			} else {
				if lt := info.Types[v.Lhs[0]].Type; lt != nil && (isNilIdent(v.Rhs[0]) || sumName(lt) != "") {
					target(v.Lhs[0], c.exprT(v.Rhs[0], lt))
				} else if v.Tok == token.DEFINE {
					target(v.Lhs[0], c.expr(v.Rhs[0]))
				} else {
					target(v.Lhs[0], c.expr(v.Rhs[0]))
				}
			}
		}
	default:
		// op-assignment
		ops := map[token.Token]token.Token{token.ADD_ASSIGN: token.ADD, token.SUB_ASSIGN: token.SUB, token.MUL_ASSIGN: token.MUL,
			token.AND_ASSIGN: token.AND, token.OR_ASSIGN: token.OR, token.XOR_ASSIGN: token.XOR, token.SHL_ASSIGN: token.SHL,
			token.SHR_ASSIGN: token.SHR, token.AND_NOT_ASSIGN: token.AND_NOT, token.QUO_ASSIGN: token.QUO, token.REM_ASSIGN: token.REM}
		op, ok := ops[v.Tok]
		if !ok {
			c.x.fail(v, "unsupported assignment operator %s", v.Tok)
		}
		be := &ast.BinaryExpr{X: v.Lhs[0], Op: op, Y: v.Rhs[0], OpPos: v.TokPos}
		// the synthetic node has no recorded type: give it the type of the left side
		info.Types[be] = types.TypeAndValue{Type: info.Types[v.Lhs[0]].Type}
		target(v.Lhs[0], c.binary(be))
	}
	return strings.Join(lets, c.ind())
}

// hasLoopBreak: a `break` that leaves this loop (not one inside a nested switch / select / for)
func hasLoopBreak(b *ast.BlockStmt) bool {
	found := false
	var walk func(n ast.Node, inner bool)
	walk = func(n ast.Node, inner bool) {
		ast.Inspect(n, func(m ast.Node) bool {
			switch x := m.(type) {
			case *ast.BranchStmt:
				if x.Tok == token.BREAK && !inner {
					found = true
				}
			case *ast.SwitchStmt, *ast.TypeSwitchStmt, *ast.SelectStmt, *ast.ForStmt, *ast.RangeStmt:
				if m != n {
					walk(m, true)
					return false
				}
			}
			return true
		})
	}
	walk(b, false)
	return found
}

func (c *xctx) forStmt(v *ast.ForStmt, rest func() string) string {
	c.f.canFail = true
	c.f.needsFuel = true
	if c.inLoop {
		c.x.fail(v, "nested loop")
	}
	var initCode string
	if v.Init != nil {
		as, ok := v.Init.(*ast.AssignStmt)
		if !ok {
			c.x.fail(v, "unsupported for-init")
		}
		initCode = c.assign(as)
	}
	if len(c.pre) != 0 {
		c.x.fail(v, "call in for-init")
	}
	c.f.nloops++
	lname := fmt.Sprintf("%s_loop%d", c.f.lean, c.f.nloops)
	vars := append([]types.Object{}, c.scope...)
	var names, typed []string
	for _, o := range vars {
		names = append(names, c.name(o))
		typed = append(typed, fmt.Sprintf("(%s : %s)", c.name(o), c.x.leanType(v, o.Type())))
	}
	// immutable Nat variables (bounds of slice views) are passed along, not returned
	callNames := append(append([]string{}, names...), c.natVars...)
	for _, nv := range c.natVars {
		typed = append(typed, fmt.Sprintf("(%s : Nat)", nv))
	}
	tuple := "(" + strings.Join(names, ", ") + ")"
	if len(names) == 1 {
		tuple = names[0]
	}
	if len(names) == 0 {
		tuple = "()"
	}
	// body of the auxiliary function
	saveDepth := c.depth
	c.depth = 1
	c.inLoop = true
	next := func() string {
		code := ""
		if v.Post != nil {
			switch p := v.Post.(type) {
			case *ast.IncDecStmt:
				code = c.stmts([]ast.Stmt{p}, kont{fall: func() string { return lname + " fuel " + strings.Join(callNames, " ") }})
				return code
			case *ast.AssignStmt:
				code = c.stmts([]ast.Stmt{p}, kont{fall: func() string { return lname + " fuel " + strings.Join(callNames, " ") }})
				return code
			default:
				c.x.fail(v, "unsupported for-post")
			}
		}
		return lname + " fuel " + strings.Join(callNames, " ")
	}
	done := func() string { return "Go.Res.ok (Sum.inr " + tuple + ")" }
	scopeLen := len(c.scope)
	body := c.stmts(v.Body.List, kont{fall: next, brk: done, cont: next})
	c.scope = c.scope[:scopeLen]
	if v.Cond != nil {
		cond := c.pureExpr(v.Cond)
		body = fmt.Sprintf("if %s then%s  %s%selse%s  %s", cond, c.ind(), body, c.ind(), c.ind(), done())
	}
	c.inLoop = false
	c.depth = saveDepth
	retT := c.retType(false)
	varT := "Unit"
	if len(vars) > 0 {
		var ts []string
		for _, o := range vars {
			ts = append(ts, c.x.leanType(v, o.Type()))
		}
		varT = strings.Join(ts, " × ")
	}
	aux := fmt.Sprintf("def %s (fuel : Nat) %s : Go.Res (Sum (%s) (%s)) :=\n  match fuel with\n  | 0 => Go.Res.fuel\n  | fuel + 1 =>\n    %s\n",
		strings.TrimPrefix(lname, "GoSrc."), strings.Join(typed, " "), retT, varT, body)
	c.f.aux = append(c.f.aux, aux)
	r := c.fresh("lr")
	var after string
	func() {
		// `for { … }` that is left only by `return` and is the last statement of a function with unnamed results: the
		// code after it is unreachable (Go accepts the missing return); elsewhere the code after the loop is translated
		defer func() {
			if rc := recover(); rc != nil {
				xe, ok := rc.(xerr)
				if ok && strings.Contains(xe.msg, "missing return") && v.Cond == nil && !hasLoopBreak(v.Body) {
					after = "Go.Res.panic \"unreachable\""
					return
				}
				panic(rc)
			}
		}()
		after = rest()
	}()
	var okRet string
	if c.inLoop {
		okRet = "Go.Res.ok (Sum.inl " + r + ")"
	} else {
		okRet = "Go.Res.ok " + r
	}
	code := fmt.Sprintf("Go.Res.bind (%s fuel %s) (fun %s =>%s  match %s with%s  | Sum.inl %s => %s%s  | Sum.inr %s =>%s    %s)",
		lname, strings.Join(callNames, " "), r, c.ind(), r, c.ind(), r, okRet, c.ind(), tuple, c.ind(), after)
	if initCode != "" {
		code = initCode + c.ind() + code
	}
	return code
}

// type of the tuple a function returns (without the Go.Res wrapper unless wrap)
func (c *xctx) retType(wrap bool) string {
	var ts []string
	rs := c.f.sig.Results()
	for i := 0; i < rs.Len(); i++ {
		ts = append(ts, c.x.leanType(c.f.decl, rs.At(i).Type()))
	}
	for _, p := range c.f.ptrs {
		if c.f.mut[p] {
			ts = append(ts, c.x.leanType(c.f.decl, p.Type()))
		}
	}
	t := "Unit"
	if len(ts) > 0 {
		t = strings.Join(ts, " × ")
	}
	if wrap && c.f.canFail {
		return "Go.Res (" + t + ")"
	}
	return t
}

func (x *xl) global(n ast.Node, o *types.Var) string {
	name := "GoSrc.G_" + o.Name()
	if _, ok := x.globals[o.Name()]; ok {
		return name
	}
	// find the declaration
	for _, f := range x.p.files {
		for _, d := range f.Decls {
			gd, ok := d.(*ast.GenDecl)
			if !ok || gd.Tok != token.VAR {
				continue
			}
			for _, sp := range gd.Specs {
				vs := sp.(*ast.ValueSpec)
				for i, nm := range vs.Names {
					if x.info.Defs[nm] != o || len(vs.Values) <= i {
						continue
					}
					cl, ok := vs.Values[i].(*ast.CompositeLit)
					at, isArr := o.Type().Underlying().(*types.Array)
					if !ok || !isArr {
						x.fail(n, "unsupported global %s", o.Name())
					}
					var items []string
					c := &xctx{x: x, f: &xfunc{}, names: map[types.Object]string{}, used: map[string]bool{}}
					for _, el := range cl.Elts {
						tv := x.info.Types[el]
						if tv.Value == nil {
							x.fail(n, "non-constant element in global %s", o.Name())
						}
						items = append(items, c.lit(el, tv.Value, at.Elem()))
					}
					if int64(len(items)) != at.Len() {
						x.fail(n, "global %s: sparse array literal", o.Name())
					}
					x.globals[o.Name()] = fmt.Sprintf("def G_%s : %s := #[%s]\n", o.Name(), x.leanType(n, o.Type()), strings.Join(items, ", "))
					x.gorder = append(x.gorder, o.Name())
					return name
				}
			}
		}
	}
	x.fail(n, "global %s not found", o.Name())
	return ""
}

func (x *xl) translate(f *xfunc) (err error) {
	defer func() {
		if r := recover(); r != nil {
			if xe, ok := r.(xerr); ok {
				err = xe
				return
			}
			panic(r)
		}
	}()
	gen := func() string {
		c := &xctx{x: x, f: f, names: map[types.Object]string{}, used: map[string]bool{"fuel": true}, idxMemo: map[*ast.IndexExpr]string{}, aliases: map[types.Object]ast.Expr{}, views: map[types.Object]*sliceView{}, aliasDeps: map[types.Object]bool{}}
		f.nloops = 0
		f.aux = nil
		var params []string
		if f.needsFuel {
			params = append(params, "(fuel : Nat)")
		}
		if f.recv != nil {
			params = append(params, fmt.Sprintf("(%s : %s)", c.declare(f.recv), x.leanType(f.decl, f.recv.Type())))
		}
		for i := 0; i < f.sig.Params().Len(); i++ {
			p := f.sig.Params().At(i)
			params = append(params, fmt.Sprintf("(%s : %s)", c.declare(p), x.leanType(f.decl, p.Type())))
		}
		var lets []string
		rs := f.sig.Results()
		for i := 0; i < rs.Len(); i++ {
			if rs.At(i).Name() != "" && rs.At(i).Name() != "_" {
				lets = append(lets, fmt.Sprintf("let %s : %s := %s", c.declare(rs.At(i)), x.leanType(f.decl, rs.At(i).Type()), x.zeroOf(f.decl, rs.At(i).Type())))
			}
		}
		body := c.stmts(f.decl.Body.List, kont{fall: func() string {
			if rs.Len() > 0 {
				if nr := c.namedResults(); nr != nil {
					return c.ret(nr)
				}
				x.fail(f.decl, "missing return")
			}
			return c.ret(nil)
		}})
		if len(lets) > 0 {
			body = strings.Join(lets, "\n  ") + "\n  " + body
		}
		return fmt.Sprintf("def %s %s : %s :=\n  %s\n", strings.TrimPrefix(f.lean, "GoSrc."), strings.Join(params, " "), c.retType(true), body)
	}
	// canFail / needsFuel / mut are discovered while translating: iterate until stable
	for i := 0; i < 6; i++ {
		cf, nf, nm := f.canFail, f.needsFuel, len(mutSet(f))
		f.body = gen()
		if cf == f.canFail && nf == f.needsFuel && nm == len(mutSet(f)) {
			return nil
		}
	}
	return xerr{f.key + ": translation does not stabilise"}
}

func mutSet(f *xfunc) []*types.Var {
	var r []*types.Var
	for _, p := range f.ptrs {
		if f.mut[p] {
			r = append(r, p)
		}
	}
	return r
}

func genGoSrc(dir string) error {
	var sb strings.Builder
	sb.WriteString("-- GENERATED by `xzh gen` (harness/xlate.go) from /repo's Go source. Do not edit.\nimport XzVerif.Model.GoPrelude\nset_option linter.unusedVariables false\nnamespace GoSrc\n\n")
	var failures, translated []string
	var pkgs []string
	for k := range xlateTargets {
		pkgs = append(pkgs, k)
	}
	sort.Strings(pkgs)
	for _, rel := range pkgs {
		p, err := loadPkg(rel)
		if err != nil {
			return err
		}
		conf := types.Config{Importer: importer.ForCompiler(p.fset, "source", nil), Error: func(error) {}}
		info := &types.Info{Types: map[ast.Expr]types.TypeAndValue{}, Uses: map[*ast.Ident]types.Object{}, Defs: map[*ast.Ident]types.Object{}, Selections: map[*ast.SelectorExpr]*types.Selection{}, Implicits: map[ast.Node]types.Object{}}
		pkg, _ := conf.Check("github.com/ulikunitz/xz/"+rel, p.fset, p.files, info)
		x := &xl{p: p, info: info, pkg: pkg, funcs: map[string]*xfunc{}, byObj: map[*types.Func]*xfunc{}, structs: map[string]*xstruct{}, globals: map[string]string{}, usedStructs: map[string]bool{}, usedSums: map[string]bool{}}
		want := map[string]bool{}
		for _, k := range xlateTargets[rel] {
			want[k] = true
		}
		for _, f := range p.files {
			for _, d := range f.Decls {
				fd, ok := d.(*ast.FuncDecl)
				if !ok || fd.Body == nil {
					continue
				}
				obj, _ := info.Defs[fd.Name].(*types.Func)
				if obj == nil {
					continue
				}
				sig := obj.Type().(*types.Signature)
				key := fd.Name.Name
				if sig.Recv() != nil {
					t := sig.Recv().Type()
					if pt, ok := t.(*types.Pointer); ok {
						t = pt.Elem()
					}
					key = t.(*types.Named).Obj().Name() + "." + key
				}
				if !want[key] {
					continue
				}
				xf := &xfunc{key: key, lean: "GoSrc." + strings.ReplaceAll(key, ".", "_"), decl: fd, sig: sig, recv: sig.Recv(), mut: map[*types.Var]bool{}}
				if sig.Recv() != nil {
					if isRefType(sig.Recv().Type()) {
						xf.ptrs = append(xf.ptrs, sig.Recv())
					}
				}
				for i := 0; i < sig.Params().Len(); i++ {
					if isRefType(sig.Params().At(i).Type()) {
						xf.ptrs = append(xf.ptrs, sig.Params().At(i))
					}
				}
				x.funcs[key] = xf
				x.byObj[obj] = xf
			}
		}
		for _, k := range xlateTargets[rel] {
			if x.funcs[k] == nil {
				failures = append(failures, rel+"."+k+": function not found in the source")
			}
		}
		// translate in dependency order: repeat until no progress (callees must be final before callers)
		done := map[string]bool{}
		for round := 0; round < len(xlateTargets[rel])+1; round++ {
			for _, k := range xlateTargets[rel] {
				f := x.funcs[k]
				if f == nil || done[k] {
					continue
				}
				// are all translated callees done?
				ready := true
				ast.Inspect(f.decl.Body, func(n ast.Node) bool {
					if ce, ok := n.(*ast.CallExpr); ok {
						var callee *types.Func
						switch fn := ce.Fun.(type) {
						case *ast.Ident:
							callee, _ = info.Uses[fn].(*types.Func)
						case *ast.SelectorExpr:
							if sel, ok := info.Selections[fn]; ok {
								callee, _ = sel.Obj().(*types.Func)
							}
						}
						if tf := x.byObj[callee]; tf != nil && tf != f && !done[tf.key] {
							ready = false
						}
					}
					return true
				})
				if !ready {
					continue
				}
				f.err = x.translate(f)
				done[k] = true
				x.order = append(x.order, k)
			}
		}
		for _, k := range xlateTargets[rel] {
			if f := x.funcs[k]; f != nil && !done[k] {
				f.err = xerr{"call cycle"}
				x.order = append(x.order, k)
			}
		}
		// emit: structs (dependencies first: sorder is post-order of registration, nested ones are registered later -> reverse)
		emitted := map[string]bool{}
		var emitStruct func(name string)
		emitStruct = func(name string) {
			if emitted[name] {
				return
			}
			emitted[name] = true
			s := x.structs[name]
			st := s.named.Underlying().(*types.Struct)
			for i := 0; i < st.NumFields(); i++ {
				ft := st.Field(i).Type()
				if at, ok := ft.(*types.Array); ok {
					ft = at.Elem()
				}
				if st2, ok := ft.(*types.Slice); ok {
					ft = st2.Elem()
				}
				if nm := derefNamed(ft); nm != nil && s.has[st.Field(i).Name()] {
					emitStruct(nm.Obj().Name())
				}
			}
			fmt.Fprintf(&sb, "structure T_%s where\n", name)
			for _, f := range s.fields {
				fmt.Fprintf(&sb, "  %s\n", f)
			}
			sb.WriteString("  deriving Inhabited, DecidableEq, Repr\n\n")
		}
		names := append([]string{}, x.sorder...)
		sort.Strings(names)
		for _, n := range names {
			if x.usedStructs[n] {
				emitStruct(n)
			}
		}
		var sums []string
		for sn := range x.usedSums {
			sums = append(sums, sn)
		}
		sort.Strings(sums)
		for _, sn := range sums {
			fmt.Fprintf(&sb, "inductive S_%s where\n  | none\n", sn)
			for _, a := range xlateSums[sn] {
				fmt.Fprintf(&sb, "  | %s (v : GoSrc.T_%s)\n", leanIdent(a), a)
			}
			sb.WriteString("  deriving Inhabited, DecidableEq, Repr\n\n")
		}
		for _, g := range x.gorder {
			sb.WriteString(x.globals[g] + "\n")
		}
		for _, k := range x.order {
			f := x.funcs[k]
			if f.err != nil {
				failures = append(failures, rel+"."+k+": "+f.err.Error())
				continue
			}
			pos := p.fset.Position(f.decl.Pos())
			fmt.Fprintf(&sb, "-- %s/%s: %s\n", rel, filepath.Base(pos.Filename), k)
			for _, a := range f.aux {
				sb.WriteString(a + "\n")
			}
			sb.WriteString(f.body + "\n")
			translated = append(translated, rel+"."+k)
		}
	}
	var fl, tl []string
	for _, f := range failures {
		fl = append(fl, leanStr(f))
	}
	for _, t := range translated {
		tl = append(tl, leanStr(t))
	}
	fmt.Fprintf(&sb, "def failures : List String := %s\n\ndef translated : List String := %s\n\nend GoSrc\n", leanList(fl), leanList(tl))
	return os.WriteFile(filepath.Join(dir, "GoSrc.lean"), []byte(sb.String()), 0o644)
}
