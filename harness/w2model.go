package main

import (
	"bytes"
	"fmt"
	"strings"
	"time"

	"github.com/ulikunitz/xz/lzma"
)

// Functional correspondence of the Lean model of Writer2 (Model/Writer2.lean: Write/Flush/Close
// bookkeeping, encoder.Write/compress/writeOp/Close, dictionary space arithmetic, byte limit,
// raw-vs-compressed decision, chunk headers, chunk state machine, state snapshot) with the real
// Writer2: the real writer runs the call history with its real match finder wrapped by a
// recorder (verif shim); the model replays the recorded proposals and must predict, for every
// call, the returned count, the error class and the sink length, and at the end the sink bytes.

func w2ErrName(res callRes) string {
	switch {
	case res.Err == "nil":
		return "ok"
	case res.Err == "Panic":
		return "panic"
	case res.Msg == "lzma: writer closed":
		return "closed"
	case res.Msg == lzma.ErrLimit.Error():
		return "limit"
	}
	return "other"
}

func vopsString(ops []lzma.VerifOp) string {
	if len(ops) == 0 {
		return "-"
	}
	var sb strings.Builder
	sb.Grow(len(ops) * 6)
	for i, o := range ops {
		if i > 0 {
			sb.WriteByte('.')
		}
		if o.Len == 0 {
			fmt.Fprintf(&sb, "L%d", o.Byte)
		} else {
			fmt.Fprintf(&sb, "M%d,%d", o.Dist, o.Len)
		}
	}
	return sb.String()
}

// runW2Model returns false when the comparison could not be made.
func runW2Model(r *Result, dp *DriverPool, cs w2Case) bool {
	viol := func(kind, sig, note string) { r.Violate(kind, sig, cs, note) }
	var buf bytes.Buffer
	var goCalls []string
	var calls []string
	var ops *[]lzma.VerifOp
	var nerr error
	done := withTimeout(180*time.Second, func() {
		var w *lzma.Writer2
		w, ops, nerr = lzma.VerifNewRecWriter2(&buf, cs.config())
		if nerr != nil {
			return
		}
		for _, op := range cs.Hist {
			var res callRes
			switch op.Kind {
			case "write":
				p := cs.data(op)
				res = guard(func() (int, error) { return w.Write(p) })
				calls = append(calls, "W"+hxe(p))
			case "flush":
				res = guard(func() (int, error) { return 0, w.Flush() })
				calls = append(calls, "F")
			case "close":
				res = guard(func() (int, error) { return 0, w.Close() })
				calls = append(calls, "C")
			}
			goCalls = append(goCalls, fmt.Sprintf("%d:%s@%d", res.N, w2ErrName(res), buf.Len()))
			if res.Err != "nil" && w2ErrName(res) != "closed" {
				break // behaviour after a failed call is not specified; the model stops too
			}
		}
	})
	if !done || nerr != nil {
		return false // reported by runW2Case
	}
	rep, err := dp.Ask(fmt.Sprintf("w2run %d %d %d %s %s", (cs.PB*5+cs.LP)*9+cs.LC, cs.DictCap, cs.BufSize, vopsString(*ops), strings.Join(calls, " ")))
	if err != nil {
		viol("broken-correspondence", "driver", err.Error())
		return false
	}
	parts := strings.Split(rep, " | ")
	if len(parts) < 4 {
		viol("broken-correspondence", "writer2-model: bad driver reply", truncate(rep, 200))
		return false
	}
	r.mu.Lock()
	r.TracesVsImpl++
	r.mu.Unlock()
	r.Inc("writer2_model_histories")
	r.Add("writer2_model_ops", len(*ops))
	mCalls := strings.Fields(parts[0])
	for i := range goCalls {
		if i >= len(mCalls) || mCalls[i] != goCalls[i] {
			got := "<none>"
			if i < len(mCalls) {
				got = mCalls[i]
			}
			viol("broken-correspondence", fmt.Sprintf("writer2-model call result matcher=%d", cs.Matcher),
				fmt.Sprintf("call %d (%s): real Writer2 returned n:err@sinkLen = %s, the Lean model of Writer2 (fed the operations the real match finder proposed) says %s", i, cs.Hist[i].Kind, goCalls[i], got))
			return true
		}
	}
	if parts[1] != hxe(buf.Bytes()) {
		m := unhxe(parts[1])
		pos := 0
		for pos < len(m) && pos < buf.Len() && m[pos] == buf.Bytes()[pos] {
			pos++
		}
		viol("broken-correspondence", fmt.Sprintf("writer2-model sink bytes matcher=%d", cs.Matcher),
			fmt.Sprintf("the Lean model of Writer2 predicts different sink bytes (first difference at %d of %d; model %d bytes); chunks(model)=%s", pos, buf.Len(), len(m), truncate(parts[2], 120)))
		return true
	}
	if strings.TrimSpace(parts[3]) != "left=0" {
		viol("broken-correspondence", "writer2-model unused proposals",
			"the model did not request the same number of match-finder proposals as the real encoder: "+parts[3])
	}
	return true
}

// runW2Auto: the Lean model of the whole LZMA2 writer with its own HashTable4 model (hash chains, rolling hash,
// ring-level selection) computes the stream from the call history alone; it must equal the real writer's output
// with the default match finder, call by call and byte for byte.
func runW2Auto(r *Result, dp *DriverPool, cs w2Case) {
	if cs.DictCap > 8192 {
		return // the Lean state is copied once per proposal (immutable arrays): small dictionaries only
	}
	tot := 0
	for _, op := range cs.Hist {
		if op.Kind == "write" {
			tot += len(cs.data(op))
		}
	}
	if tot > 40000 || (cs.Matcher == 1 && tot > 12000) {
		return
	}
	var buf bytes.Buffer
	w, err := cs.config().NewWriter2(&buf)
	if err != nil {
		return
	}
	var goCalls, calls []string
	total := 0
	if !withTimeout(180*time.Second, func() {
		for _, op := range cs.Hist {
			var res callRes
			switch op.Kind {
			case "write":
				p := cs.data(op)
				total += len(p)
				res = guard(func() (int, error) { return w.Write(p) })
				calls = append(calls, "W"+hxe(p))
			case "flush":
				res = guard(func() (int, error) { return 0, w.Flush() })
				calls = append(calls, "F")
			case "close":
				res = guard(func() (int, error) { return 0, w.Close() })
				calls = append(calls, "C")
			}
			goCalls = append(goCalls, fmt.Sprintf("%d:%s@%d", res.N, w2ErrName(res), buf.Len()))
			if res.Err != "nil" && w2ErrName(res) != "closed" {
				break
			}
		}
	}) {
		r.Violate("counterexample", fmt.Sprintf("write-timeout matcher=%d dict=%d buf=%d", cs.Matcher, cs.DictCap, cs.BufSize), cs, "the writer did not finish the history in 180 s")
		return
	}
	rep, err := dp.Ask(fmt.Sprintf("w2auto %d %d %d %d %s", cs.Matcher, (cs.PB*5+cs.LP)*9+cs.LC, cs.DictCap, cs.BufSize, strings.Join(calls, " ")))
	if err != nil {
		r.Violate("broken-correspondence", "driver", cs, err.Error())
		return
	}
	parts := strings.Split(rep, " | ")
	if len(parts) < 3 {
		r.Violate("broken-correspondence", "writer2-auto: bad driver reply", cs, truncate(rep, 200))
		return
	}
	r.mu.Lock()
	r.TracesVsImpl++
	r.mu.Unlock()
	r.Inc(fmt.Sprintf("writer2_auto_histories_matcher%d", cs.Matcher))
	r.Add("writer2_auto_bytes", total)
	mCalls := strings.Fields(parts[0])
	for i := range goCalls {
		if i >= len(mCalls) || mCalls[i] != goCalls[i] {
			got := "<none>"
			if i < len(mCalls) {
				got = mCalls[i]
			}
			r.Violate("broken-correspondence", fmt.Sprintf("writer2-auto call result (Lean match finder model %d)", cs.Matcher), cs,
				fmt.Sprintf("call %d: real Writer2 (HashTable4) returned %s, the Lean model computing its own proposals says %s", i, goCalls[i], got))
			return
		}
	}
	if parts[1] != hxe(buf.Bytes()) {
		m := unhxe(parts[1])
		pos := 0
		for pos < len(m) && pos < buf.Len() && m[pos] == buf.Bytes()[pos] {
			pos++
		}
		r.Violate("broken-correspondence", fmt.Sprintf("writer2-auto sink bytes (Lean match finder model %d)", cs.Matcher), cs,
			fmt.Sprintf("the Lean model of Writer2 with its own HashTable4 model produces different bytes (first difference at %d of %d; model %d bytes)", pos, buf.Len(), len(m)))
	}
}
