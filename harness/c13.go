package main

import (
	"bytes"
	"fmt"
	"io"
	"math/rand"
	"os"
	"strings"
	"sync"
	"time"

	"github.com/ulikunitz/xz"
	"github.com/ulikunitz/xz/lzma"
)

// fragReader hands out its data according to a fragmentation script.
type fragReader struct {
	data []byte
	mode int // 0 whole, 1 one byte at a time, 2 random short reads, 3 data together with EOF, 4 short reads + data-with-EOF
	rng  *rand.Rand
}

func (f *fragReader) Read(p []byte) (int, error) {
	if len(f.data) == 0 {
		return 0, io.EOF
	}
	if len(p) == 0 {
		return 0, nil
	}
	n := len(p)
	switch f.mode {
	case 1:
		n = 1
	case 2, 4:
		n = 1 + f.rng.Intn(minInt(len(p), 17))
	}
	if n > len(f.data) {
		n = len(f.data)
	}
	copy(p, f.data[:n])
	f.data = f.data[n:]
	if len(f.data) == 0 && (f.mode == 3 || f.mode == 4) {
		return n, io.EOF
	}
	return n, nil
}

type schedCase struct {
	Op     string `json:"op"`
	Kind   string `json:"kind"`
	Name   string `json:"name"`
	Stream string `json:"stream_hex"`
	Sizes  []int  `json:"read_sizes"`
	Frag   int    `json:"fragmentation"`
	Seed   int64  `json:"frag_seed"`
}

func openReader(kind string, src io.Reader) (io.Reader, error) {
	switch kind {
	case "xz":
		return xz.NewReader(src)
	case "lzma2":
		return lzma.NewReader2(src)
	}
	return lzma.NewReader(src)
}

// runSchedule reads the stream with the given buffer-size schedule and fragmentation and
// returns the concatenated data, the per-call log and a verdict.
func runSchedule(c schedCase, stream []byte) (out []byte, problem string, trace []string, used []int) {
	defer func() {
		if p := recover(); p != nil {
			problem = fmt.Sprint("panic: ", p)
		}
	}()
	src := &fragReader{data: append([]byte{}, stream...), mode: c.Frag, rng: rand.New(rand.NewSource(c.Seed))}
	rd, err := openReader(c.Kind, src)
	if err != nil {
		return nil, "open: " + err.Error(), nil, nil
	}
	var buf bytes.Buffer
	eofSeen := false
	zeroProgress := 0
	for i := 0; i < 4*len(stream)*300+100000; i++ {
		sz := c.Sizes[i%len(c.Sizes)]
		p := make([]byte, sz)
		n, err := rd.Read(p)
		used = append(used, sz)
		trace = append(trace, fmt.Sprintf("%d:%d", n, b2i(err == io.EOF)))
		if n > sz || n < 0 {
			return buf.Bytes(), fmt.Sprintf("Read returned n=%d for a buffer of %d", n, sz), trace, used
		}
		if eofSeen && n > 0 {
			return buf.Bytes(), "data delivered after end of stream had been reported", trace, used
		}
		buf.Write(p[:n])
		if err == io.EOF {
			if eofSeen {
				// stable: keep probing a few times with non-empty buffers
				zeroProgress++
				if zeroProgress >= 3 {
					return buf.Bytes(), "", trace, used
				}
				c.Sizes = []int{1, 7, 4096}
				continue
			}
			eofSeen = true
			c.Sizes = []int{1, 7, 4096}
			continue
		}
		if eofSeen {
			if sz == 0 && n == 0 && err == nil {
				continue // a zero-length read may return (0, nil) at any time
			}
			return buf.Bytes(), fmt.Sprintf("after end of stream a Read(%d) returned (%d, %v) instead of (0, EOF)", sz, n, err), trace, used
		}
		if err != nil {
			return buf.Bytes(), "error: " + err.Error(), trace, used
		}
		if n == 0 && sz > 0 {
			zeroProgress++
			if zeroProgress > 1000 {
				return buf.Bytes(), "no progress: Read keeps returning (0, nil) for a non-empty buffer", trace, used
			}
		} else if n > 0 {
			zeroProgress = 0
		}
	}
	return buf.Bytes(), "did not reach end of stream", trace, used
}

// C13: decoded output independent of read sizes and source fragmentation; EOF is stable.
func checkC13(a *checkArgs, r *Result) error {
	dp, err := newDriverPool(a.driver, 8)
	if err != nil {
		return err
	}
	defer dp.Close()
	r.Rule = "valid streams of all three formats (library-written multi-block xz, multi-chunk LZMA2, classic LZMA in its three end modes, liblzma corpus, multi-stream chains) x generated Read buffer-length schedules (cyclic lists containing 0 and 1, sizes straddling block/chunk boundaries) x source fragmentations (whole, byte-wise, random short reads, data returned together with EOF); oracle: concatenated data equals the content, status EOF, never data after EOF, (0,EOF) stays. Non-trivial: schedule contains a 0 or 1 and fragmentation is not 'whole', or content >= 64 bytes; distinct by (stream, schedule, fragmentation). The Lean side of this property is the layered reader-loop model of Model/ReadLoop.lean and the lazy ring-level reader models Model/LazyDec.lean (classic), LazyDec2.lean (LZMA2), LazyXz.lean (xz), which are run on valid, truncated, bit-flipped, extended, structurally mutated streams and chains under read-length schedules: per call the count, the status (nil / EOF / error class) and all delivered bytes must equal the real reader's (theorems in Props/C13.lean). Source fragmentation on the Lean side: the access layer of Model/Src.lean (io.ReadFull, ByteReader.ReadByte, io.CopyN, the doubly limited copy of uncompressed chunks, as the Go standard library implements them) is run on fragmenting / failing sources against the real functions (bytes, status, limits per operation), and is proved insensitive to the fragmentation; that the code reaches a source only through that layer is a pinned fact regenerated from /repo (Gen/SrcReads.lean)."
	if only := os.Getenv("VERIF_ONLY"); only != "" {
		// development aid: run one of the lazy-reader ties alone
		n := 60
		if a.tier == "thorough" {
			n = 400
		}
		switch only {
		case "lazy":
			lazyTie(r, dp, rand.New(rand.NewSource(a.seed+13)), n)
		case "lazy2":
			return lazy2Tie(r, dp, rand.New(rand.NewSource(a.seed+14)), n)
		case "lazyxz":
			return lazyXzTie(r, dp, rand.New(rand.NewSource(a.seed+15)), n)
		case "src":
			return srcTie(r, dp, rand.New(rand.NewSource(a.seed+16)), 20*n)
		}
		return nil
	}
	rng := rand.New(rand.NewSource(a.seed))
	nlib, per := 60, 48
	if a.tier == "thorough" {
		nlib, per = 300, 60
	}
	bases := libraryStreams(rng, nlib, 3000)
	for _, b := range corpusStreams(3000) {
		bases = append(bases, b)
	}
	// multi-stream
	var xzs []baseStream
	for _, b := range bases {
		if b.Kind == "xz" {
			xzs = append(xzs, b)
		}
	}
	for i := 0; i+1 < len(xzs) && i < 10; i += 2 {
		pad := []int{0, 4, 8}[rng.Intn(3)]
		s := append(append(append([]byte{}, xzs[i].Stream...), make([]byte, pad)...), xzs[i+1].Stream...)
		bases = append(bases, baseStream{"xz", "multi/" + xzs[i].Name + "+" + xzs[i+1].Name, s, append(append([]byte{}, xzs[i].Content...), xzs[i+1].Content...), 0})
	}
	type job struct {
		c schedCase
		b baseStream
	}
	var jobs []job
	for _, b := range bases {
		for k := 0; k < per; k++ {
			var sizes []int
			switch k % 6 {
			case 0:
				sizes = []int{1}
			case 1:
				sizes = []int{0, 1}
			case 2:
				sizes = []int{0, 3, 0, 0, 1000}
			case 3:
				sizes = []int{len(b.Content), 1}
				if len(b.Content) > 1 {
					sizes = []int{len(b.Content) - 1, 0, 1, 1}
				}
			default:
				m := 1 + rng.Intn(6)
				for j := 0; j < m; j++ {
					sizes = append(sizes, []int{0, 1, 2, 7, 100, 273, 4096, rng.Intn(len(b.Content) + 2)}[rng.Intn(8)])
				}
				allZero := true
				for _, s := range sizes {
					if s > 0 {
						allZero = false
					}
				}
				if allZero {
					sizes = append(sizes, 5)
				}
			}
			jobs = append(jobs, job{schedCase{Op: "read-schedule", Kind: b.Kind, Name: b.Name, Stream: hxe(b.Stream), Sizes: sizes, Frag: rng.Intn(5), Seed: rng.Int63()}, b})
		}
	}
	var wg sync.WaitGroup
	sem := make(chan struct{}, 16)
	for _, j := range jobs {
		wg.Add(1)
		sem <- struct{}{}
		go func(j job) {
			defer wg.Done()
			defer func() { <-sem }()
			var out []byte
			var problem string
			var trace []string
			var used []int
			orig := append([]int{}, j.c.Sizes...)
			done := withTimeout(60*time.Second, func() { out, problem, trace, used = runSchedule(j.c, j.b.Stream) })
			j.c.Sizes = orig
			small := false
			for _, s := range orig {
				if s <= 1 {
					small = true
				}
			}
			r.Count(fmt.Sprint(j.c.Name, orig, j.c.Frag, j.c.Seed), (small && j.c.Frag != 0) || len(j.b.Content) >= 64)
			r.Inc(fmt.Sprintf("frag_%d", j.c.Frag))
			r.Inc("kind_" + j.c.Kind)
			if !done {
				r.Violate("counterexample", "hang kind="+j.c.Kind, j.c, "reader did not finish within 60 s")
				return
			}
			if problem != "" {
				r.Violate("counterexample", fmt.Sprintf("schedule kind=%s frag=%d: %s", j.c.Kind, j.c.Frag, truncate(problem, 60)), j.c, problem)
				return
			}
			// per-call correspondence with the contract model ReadLoop.readSeqLens (Lean driver)
			if len(used) > 0 && len(used) < 20000 {
				req := fmt.Sprintf("readseq %d", len(j.b.Content))
				for _, u := range used {
					req += fmt.Sprint(" ", u)
				}
				rep, err := dp.Ask(req)
				if err != nil {
					r.Violate("broken-correspondence", "driver", j.c, err.Error())
					return
				}
				r.mu.Lock()
				r.TracesVsImpl++
				r.mu.Unlock()
				// a zero-length Read may answer (0, nil) or, once everything has been delivered,
				// (0, EOF): canonicalise those entries to the model's answer
				mt0 := strings.Fields(rep)
				cum := 0
				for k := range trace {
					var n, e int
					fmt.Sscanf(trace[k], "%d:%d", &n, &e)
					if used[k] == 0 && n == 0 && k < len(mt0) && (e == 0 || cum == len(j.b.Content)) {
						trace[k] = mt0[k]
					}
					cum += n
				}
				if rep != strings.Join(trace, " ") {
					mt := strings.Fields(rep)
					k := 0
					for k < len(mt) && k < len(trace) && mt[k] == trace[k] {
						k++
					}
					r.Violate("broken-correspondence", fmt.Sprintf("read-contract kind=%s frag=%d", j.c.Kind, j.c.Frag), j.c,
						fmt.Sprintf("per-call (n:eof) results differ from the model at call %d (buffer %d): go %v, model %v", k, used[minInt(k, len(used)-1)], trace[minInt(k, len(trace)-1):minInt(k+3, len(trace))], mt[minInt(k, len(mt)-1):minInt(k+3, len(mt))]))
				}
			}
			if !bytes.Equal(out, j.b.Content) {
				r.Violate("counterexample", fmt.Sprintf("schedule-dependent-output kind=%s frag=%d", j.c.Kind, j.c.Frag), j.c,
					fmt.Sprintf("delivered %d bytes that differ from the %d bytes of content", len(out), len(j.b.Content)))
			}
			r.Sample(map[string]interface{}{"stream": truncate(j.c.Name, 80), "read_sizes": orig, "fragmentation": j.c.Frag, "bytes": len(out)})
		}(j)
	}
	wg.Wait()
	nlazy := 60
	if a.tier == "thorough" {
		nlazy = 400
	}
	lazyTie(r, dp, rand.New(rand.NewSource(a.seed+13)), nlazy)
	if err := lazy2Tie(r, dp, rand.New(rand.NewSource(a.seed+14)), nlazy); err != nil {
		return err
	}
	if err := lazyXzTie(r, dp, rand.New(rand.NewSource(a.seed+15)), nlazy); err != nil {
		return err
	}
	return srcTie(r, dp, rand.New(rand.NewSource(a.seed+16)), 20*nlazy)
}

func init() { checks["C13"] = checkC13 }
