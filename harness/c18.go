package main

import (
	"encoding/binary"
	"fmt"
	"hash/crc32"
	"math/rand"
	"runtime"
	"strconv"
	"strings"
	"sync"

	"github.com/ulikunitz/xz"
	"github.com/ulikunitz/xz/lzma"
)

// C18: dictionary-size code. Exhaustive evaluation of the real EncodeDictCap on
// 1..2^32-1 against the least-code function over the format's table (taken from
// the Lean Spec through the driver), all 256 decode bytes, the encoder model on
// boundaries and random capacities, and the filter byte of marshalled block headers.
func checkC18(a *checkArgs, r *Result) error {
	d, err := startDriver(a.driver)
	if err != nil {
		return err
	}
	defer d.Close()
	s, err := d.Ask("dictsizes")
	if err != nil {
		return err
	}
	var sizes []int64
	for _, f := range strings.Fields(s) {
		v, err := strconv.ParseInt(f, 10, 64)
		if err != nil {
			return fmt.Errorf("dictsizes: %v", err)
		}
		sizes = append(sizes, v)
	}
	if len(sizes) != 41 {
		return fmt.Errorf("dictsizes: got %d entries", len(sizes))
	}
	r.Rule = "exhaustive: every capacity 1..2^32-1 through the real lzma.EncodeDictCap compared with the least code over the Lean Spec table; every byte 0..255 through lzma.DecodeDictCap compared with Spec and Model; Model.encodeDictCap compared with Go on all boundaries ±1 and random capacities; block headers marshalled by the real code. Non-trivial: capacities not equal to a representable size (the search has to round up); distinct by value."
	r.Exhaustive = true

	// 1. all 256 bytes
	for b := 0; b < 256; b++ {
		n, gerr := lzma.DecodeDictCap(byte(b))
		rep, err := d.Ask(fmt.Sprintf("dictbyte %d", b))
		if err != nil {
			return err
		}
		want := "none"
		if gerr == nil {
			want = fmt.Sprint(n)
		}
		f := strings.Fields(rep)
		r.Count(fmt.Sprintf("dec%d", b), b > 0)
		if len(f) != 2 || f[0] != want {
			r.Violate("counterexample", fmt.Sprintf("decode byte %d", b),
				map[string]interface{}{"op": "decode", "byte": b, "go": want, "spec": rep},
				"lzma.DecodeDictCap disagrees with the format's table")
		} else if f[1] != want {
			r.Violate("broken-correspondence", fmt.Sprintf("decode-model byte %d", b),
				map[string]interface{}{"op": "decode", "byte": b, "go": want, "model": f[1]},
				"Model.decodeDictCap disagrees with lzma.DecodeDictCap")
		}
	}
	r.Add("decode_bytes", 256)

	// 2. exhaustive sweep of the encoder
	workers := runtime.NumCPU()
	var wg sync.WaitGroup
	const total = int64(1)<<32 - 1
	chunk := (total + int64(workers)) / int64(workers)
	type bad struct {
		n         int64
		got, want int
	}
	bads := make(chan bad, 64)
	nontriv := make([]int64, workers)
	for w := 0; w < workers; w++ {
		wg.Add(1)
		go func(w int) {
			defer wg.Done()
			lo := int64(w)*chunk + 1
			hi := lo + chunk
			if hi > total+1 {
				hi = total + 1
			}
			c := 0
			for c < 40 && sizes[c] < lo {
				c++
			}
			reported := 0
			for n := lo; n < hi; n++ {
				for c < 40 && sizes[c] < n {
					c++
				}
				got := int(lzma.EncodeDictCap(n))
				if got != c && reported < 3 {
					reported++
					bads <- bad{n, got, c}
				}
				if sizes[c] != n {
					nontriv[w]++
				}
			}
		}(w)
	}
	go func() { wg.Wait(); close(bads) }()
	for b := range bads {
		kind := "smaller than the capacity"
		if b.got <= 40 && sizes[minInt(b.got, 40)] >= b.n {
			kind = "not the smallest"
		}
		r.Violate("counterexample", fmt.Sprintf("encode n=%d", b.n),
			map[string]interface{}{"op": "encode", "n": b.n, "go": b.got, "least": b.want},
			"lzma.EncodeDictCap returns a code whose size is "+kind)
	}
	var nt int64
	for _, v := range nontriv {
		nt += v
	}
	r.mu.Lock()
	r.Evaluations += int(total)
	r.Nontrivial += int(nt)
	r.mu.Unlock()
	r.Add("encode_capacities_swept", int(total))

	// 3. encoder model vs Go
	rng := rand.New(rand.NewSource(a.seed))
	var ns []int64
	ns = append(ns, 1, 2, 3)
	for _, s := range sizes {
		ns = append(ns, s-1, s, s+1)
	}
	k := 3000
	if a.tier == "thorough" {
		k = 100000
	}
	for i := 0; i < k; i++ {
		switch i % 3 {
		case 0:
			ns = append(ns, 1+rng.Int63n(total))
		case 1:
			ns = append(ns, 1+rng.Int63n(1<<uint(13+rng.Intn(20))))
		default:
			s := sizes[rng.Intn(41)]
			ns = append(ns, s+int64(rng.Intn(2001))-1000)
		}
	}
	for _, n := range ns {
		if n < 1 || n > total {
			continue
		}
		rep, err := d.Ask(fmt.Sprintf("encdict %d", n))
		if err != nil {
			return err
		}
		got := fmt.Sprint(lzma.EncodeDictCap(n))
		f := strings.Fields(rep)
		r.Count(fmt.Sprintf("m%d", n), true)
		r.TracesVsImpl++
		if len(f) != 2 || f[0] != got {
			r.Violate("broken-correspondence", fmt.Sprintf("encode-model n=%d", n),
				map[string]interface{}{"op": "encode", "n": n, "go": got, "model": rep},
				"Model.encodeDictCap disagrees with lzma.EncodeDictCap")
		}
		if len(r.Samples) < 4 {
			r.Sample(map[string]interface{}{"capacity": n, "go_code": got, "model_code_and_spec_least": rep})
		}
	}
	r.Add("model_vs_go_capacities", len(ns))

	// 4. block headers marshalled by the real code carry the same code
	for i := 0; i < 400; i++ {
		n := ns[rng.Intn(len(ns))]
		if n < 1 || n > total {
			continue
		}
		hdr, ok := xz.VerifBlockHeader(-1, -1, n)
		if !ok {
			r.Violate("counterexample", fmt.Sprintf("blockheader n=%d", n),
				map[string]interface{}{"op": "blockheader", "n": n}, "block header cannot be marshalled")
			continue
		}
		_, _, dc, ok := xz.VerifParseBlockHeader(hdr)
		c := int(lzma.EncodeDictCap(n))
		r.Count(fmt.Sprintf("bh%d", n), true)
		if !ok || dc < n || (c > 0 && sizes[c-1] >= n) || dc != sizes[minInt(c, 40)] || hdr[4] != byte(c) {
			r.Violate("counterexample", fmt.Sprintf("blockheader n=%d", n),
				map[string]interface{}{"op": "blockheader", "n": n, "header": hx(hdr), "declared": dc},
				"block header declares a dictionary size that is not the smallest representable size >= capacity")
		}
	}
	r.Add("block_headers", 400)

	// 5. the block-header parser accepts exactly the codes 0..40 with the format's sizes
	tmpl, ok := xz.VerifBlockHeader(-1, -1, 4096)
	if !ok || len(tmpl) != 12 {
		return fmt.Errorf("cannot marshal a block header template")
	}
	for b := 0; b < 256; b++ {
		h := append([]byte{}, tmpl...)
		h[4] = byte(b)
		binary.LittleEndian.PutUint32(h[8:], crc32.ChecksumIEEE(h[:8]))
		_, _, dc, ok := xz.VerifParseBlockHeader(h)
		r.Count(fmt.Sprintf("bhparse%d", b), b > 0)
		switch {
		case b <= 40 && (!ok || dc != sizes[b]):
			r.Violate("counterexample", fmt.Sprintf("blockheader-parse byte %d", b),
				map[string]interface{}{"op": "blockheader-parse", "byte": b, "header": hx(h), "accepted": ok, "declared": dc},
				"the block header parser rejects or mis-decodes a valid dictionary size code")
		case b > 40 && ok:
			r.Violate("counterexample", fmt.Sprintf("blockheader-parse byte %d", b),
				map[string]interface{}{"op": "blockheader-parse", "byte": b, "header": hx(h), "accepted": ok, "declared": dc},
				"the block header parser accepts a dictionary size byte outside 0..40")
		}
	}
	r.Add("block_header_dict_bytes_parsed", 256)
	r.Extra["driver_requests"] = d.N
	return nil
}

func minInt(a, b int) int {
	if a < b {
		return a
	}
	return b
}

func init() { checks["C18"] = checkC18 }

func maxInt(a, b int) int {
	if a > b {
		return a
	}
	return b
}
