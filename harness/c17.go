package main

import (
	"bytes"
	"fmt"
	"math/rand"
	"strings"
	"sync"
	"time"

	"github.com/ulikunitz/xz/lzma"
)

type c17Case struct {
	Op      string `json:"op"`
	Family  string `json:"family"` // run | double | random
	Writer  string `json:"writer"` // xz | lzma2
	N       int    `json:"n"`
	Byte    int    `json:"byte"`
	Seed    int64  `json:"data_seed"`
	Cfg     xzCfg  `json:"cfg"`
	Out     int    `json:"out"`
	Allowed int    `json:"allowed"`
	// 0: one Write; otherwise the data is handed over in Write calls of this many bytes (no Flush in between): the
	// property speaks about the data, not about how it is cut into calls
	Piece int `json:"write_piece,omitempty"`
}

// c17Parts: the partition of n bytes into Write calls
func c17Parts(n, piece int) []int {
	if piece <= 0 || piece >= n {
		return []int{n}
	}
	var parts []int
	for n > 0 {
		k := piece
		if k > n {
			k = n
		}
		parts = append(parts, k)
		n -= k
	}
	return parts
}

func c17Data(c c17Case) []byte {
	rng := rand.New(rand.NewSource(c.Seed))
	switch c.Family {
	case "run":
		return bytes.Repeat([]byte{byte(c.Byte)}, c.N)
	case "double":
		x := genRandom(rng, c.N)
		return append(append([]byte{}, x...), x...)
	}
	return genRandom(rng, c.N)
}

// C17: compression is effective on redundancy and never expands data noticeably.
// chunkPremises measures, on a real output, the two premises of Props.C17.C17_expansion_accounting:
// every compressed chunk is not larger than its raw form (+3), and every chunk except the last of
// its block carries at least 3000 bytes.
func chunkPremises(r *Result, dp *DriverPool, cs c17Case, out []byte) {
	var line string
	if cs.Writer == "xz" {
		line = "xzread 1 0 0 " + hxe(out)
	} else {
		line = fmt.Sprintf("lzma2read 1 %d %s", cs.Cfg.DictCap, hxe(out))
	}
	rep, err := dp.Ask(line)
	if err != nil {
		r.Violate("broken-correspondence", "driver", cs, err.Error())
		return
	}
	m, err := parseModelRead(rep)
	if err != nil || m.Class != "EOF" {
		r.Violate("counterexample", "reference decoder rejects the output", cs, truncate(rep, 120))
		return
	}
	var blocks [][]string
	if cs.Writer == "xz" {
		for _, b := range parseBlocks(m.Info) {
			blocks = append(blocks, b.Chunks)
		}
	} else {
		blocks = [][]string{strings.Split(strings.TrimSpace(m.Info), ",")}
	}
	r.mu.Lock()
	r.TracesVsImpl++
	r.mu.Unlock()
	for _, chunks := range blocks {
		var data []string
		for _, c := range chunks {
			if !strings.HasPrefix(c, "eos") && c != "" {
				data = append(data, c)
			}
		}
		for i, c := range data {
			f := strings.Split(c, ":")
			if len(f) < 3 {
				continue
			}
			var u, csz int
			fmt.Sscan(f[1], &u)
			fmt.Sscan(f[2], &csz)
			raw := f[0] == "u" || f[0] == "ud"
			r.Inc("chunks_measured")
			if !raw && csz+6 > u+3+3 {
				r.Violate("counterexample", "chunk-form-rule: compressed chunk larger than its raw form", cs,
					fmt.Sprintf("chunk %d (%s): compressed %d + header > uncompressed %d + 3: the smaller form was not chosen", i, f[0], csz, u))
			}
			if i < len(data)-1 && u < 3000 {
				r.Violate("counterexample", "chunk-fill: a chunk that is not the last carries < 3000 bytes", cs,
					fmt.Sprintf("chunk %d (%s) carries %d bytes (compressed %d) although more data followed", i, f[0], u, csz))
			}
		}
	}
}

func checkC17(a *checkArgs, r *Result) error {
	dp, err := newDriverPool(a.driver, 8)
	if err != nil {
		return err
	}
	defer dp.Close()
	r.Rule = "size oracle of the property on the real writers: runs b^n (any byte, n up to 4 MiB for HashTable4, 40 KiB for BinaryTree whose run time is quadratic on runs) <= n/500; X||X for random X with |X| <= DictCap <= 1.15|X|; random data with DictCap >= 64 KiB <= n + n/500; each plus 128 bytes per stream and 64 per block; over dictionary sizes, look-ahead sizes, lc/lp/pb, both match finders, xz and LZMA2 writers (no Flush), the data handed over in one Write or in pieces of 512 … 65536 bytes. Every output is also read back. Non-trivial: n >= 4096; distinct by case."
	rng := rand.New(rand.NewSource(a.seed))
	n := 130
	if a.tier == "thorough" {
		n = 1500
	}
	var cases []c17Case
	for i := 0; i < n; i++ {
		t := lclppb[rng.Intn(len(lclppb))]
		c := xzCfg{LC: t[0], LP: t[1], PB: t[2], BufSize: []int{273, 4096, 1000}[rng.Intn(3)], Matcher: i % 2, CheckSum: []byte{1, 4, 10}[rng.Intn(3)]}
		cs := c17Case{Op: "size-bound", Seed: rng.Int63(), Writer: []string{"xz", "lzma2"}[rng.Intn(2)]}
		switch i % 3 {
		case 0:
			cs.Family = "run"
			c.DictCap = []int{4096, 65536, 1 << 20, 8 << 20}[rng.Intn(4)]
			cs.Byte = rng.Intn(256)
			if i%6 == 0 {
				cs.Byte = 0
			}
			if c.Matcher == 1 {
				cs.N = 1 + rng.Intn(40000)
			} else {
				cs.N = []int{1 + rng.Intn(100000), 1 << 20, 1 + rng.Intn(4<<20)}[rng.Intn(3)]
			}
		case 1:
			cs.Family = "double"
			c.DictCap = []int{4096, 65536, 1 << 20}[rng.Intn(3)]
			cs.N = 16 + rng.Intn(minInt(c.DictCap, 200000)-15)
			if rng.Intn(4) == 0 {
				cs.N = minInt(c.DictCap, 300000)
			}
		default:
			cs.Family = "random"
			c.DictCap = []int{65536, 1 << 20, 8 << 20}[rng.Intn(3)]
			cs.N = []int{rng.Intn(70000), rng.Intn(300000), 65536, 65537, 1 + rng.Intn(3<<20)}[rng.Intn(5)]
			if c.Matcher == 1 && cs.N > 200000 {
				cs.N = 200000
			}
			if rng.Intn(3) == 0 && cs.Writer == "xz" {
				c.BlockSize = int64(1000 + rng.Intn(100000))
			}
		}
		cs.Cfg = c
		if i%4 == 3 || i%7 == 0 {
			cs.Piece = []int{512, 1024, 4096, 65536, 1 + rng.Intn(5000)}[rng.Intn(5)]
			if cs.N/cs.Piece > 20000 {
				cs.Piece = 4096
			}
		}
		cases = append(cases, cs)
	}
	var wg sync.WaitGroup
	sem := make(chan struct{}, 16)
	for _, cs := range cases {
		wg.Add(1)
		sem <- struct{}{}
		go func(cs c17Case) {
			defer wg.Done()
			defer func() { <-sem }()
			data := c17Data(cs)
			var out []byte
			blocks := 1
			if cs.Writer == "xz" {
				w := goXzWrite(cs.Cfg, data, c17Parts(len(data), cs.Piece), 600*time.Second)
				if e := w.firstErr(); e != "" || w.TimedOut {
					r.Violate("counterexample", "write-error", cs, e)
					return
				}
				out = w.Out
				if cs.Cfg.BlockSize > 0 {
					blocks = (len(data) + int(cs.Cfg.BlockSize) - 1) / int(cs.Cfg.BlockSize)
					if blocks == 0 {
						blocks = 1
					}
				}
				g := goXzRead(out, 0, false, 600*time.Second)
				if g.Err != "EOF" || !bytes.Equal(g.Out, data) {
					r.Violate("counterexample", "roundtrip", cs, "output does not read back")
					return
				}
			} else {
				var buf bytes.Buffer
				wr, err := lzma.Writer2Config{Properties: &lzma.Properties{LC: cs.Cfg.LC, LP: cs.Cfg.LP, PB: cs.Cfg.PB}, DictCap: cs.Cfg.DictCap, BufSize: cs.Cfg.BufSize, Matcher: lzma.MatchAlgorithm(cs.Cfg.Matcher)}.NewWriter2(&buf)
				if err != nil {
					r.Violate("counterexample", "new-writer", cs, err.Error())
					return
				}
				off := 0
				for _, k := range c17Parts(len(data), cs.Piece) {
					wr.Write(data[off : off+k])
					off += k
				}
				wr.Close()
				out = buf.Bytes()
				g := goLzma2Read(out, 0, 600*time.Second)
				if g.Err != "EOF" || !bytes.Equal(g.Out, data) {
					r.Violate("counterexample", "roundtrip", cs, "output does not read back")
					return
				}
			}
			if cs.Cfg.DictCap >= 65536 {
				chunkPremises(r, dp, cs, out)
			}
			allowance := 128 + 64*blocks
			var allowed int
			switch cs.Family {
			case "run":
				allowed = len(data)/500 + allowance
			case "double":
				allowed = cs.N*115/100 + allowance
			default:
				allowed = len(data) + len(data)/500 + allowance
			}
			cs.Out, cs.Allowed = len(out), allowed
			r.Count(fmt.Sprint(cs.Family, cs.N, cs.Byte, cs.Seed, cs.Cfg), len(data) >= 4096)
			r.Inc("family_" + cs.Family)
			r.Inc(fmt.Sprintf("matcher_%d", cs.Cfg.Matcher))
			if cs.Piece > 0 {
				r.Inc("written_in_pieces")
			}
			if len(out) > allowed {
				r.Violate("counterexample", fmt.Sprintf("bound-exceeded family=%s matcher=%d writer=%s", cs.Family, cs.Cfg.Matcher, cs.Writer), cs,
					fmt.Sprintf("%s input of %d bytes compresses to %d bytes; the property allows %d", cs.Family, len(data), len(out), allowed))
			}
			r.Sample(map[string]interface{}{"family": cs.Family, "n": len(data), "out": len(out), "allowed": allowed, "cfg": cs.Cfg.String(), "writer": cs.Writer})
		}(cs)
	}
	wg.Wait()
	return nil
}

func init() { checks["C17"] = checkC17 }
