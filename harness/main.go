// Command xzh is the verification harness for ulikunitz/xz: it is rebuilt
// from /repo's working tree (build tag verif) on every check run.
package main

import (
	"fmt"
	"os"
)

func main() {
	if len(os.Args) < 2 {
		fmt.Fprintln(os.Stderr, "usage: xzh <command> [args]")
		os.Exit(2)
	}
	cmds := map[string]func([]string) int{
		"gen": cmdGen,
	}
	for k, v := range extraCmds {
		cmds[k] = v
	}
	f, ok := cmds[os.Args[1]]
	if !ok {
		fmt.Fprintf(os.Stderr, "xzh: unknown command %q\n", os.Args[1])
		os.Exit(2)
	}
	os.Exit(f(os.Args[2:]))
}

var extraCmds = map[string]func([]string) int{}
