// Package opsfit builds a deterministic input for which a single LZMA
// operation (a far match) costs many more range-coder output bytes than
// the encoder margin opLenMargin assumes.
//
// The generator only produces bytes. Which operations the encoder chooses
// is decided by the real (greedy, hash-table) matcher of package lzma; the
// data is laid out so that the matcher has exactly one choice:
//
//   - a "literal" is a fresh pseudo-random byte that does not create a
//     4-gram seen before and no 2-byte match at the distances 1..8;
//   - a "match (dist, len)" is a copy of len bytes of never-used random
//     ofSource data followed by a byte that differs from the ofSource.
//
// Layout (absolute positions, MiB = 1<<20):
//
//	1.5 MiB  F1  random ofSource, 4-8 MiB before the training area
//	5.0 MiB  F2  random ofSource of the critical match (3-4 MiB back)
//	6.0 MiB  F3  random ofSource, 2-3 MiB back
//	7.0 MiB  F4  random ofSource, 1-2 MiB back
//	8.0 MiB  F5  random ofSource, 64 KiB-1 MiB back
//	8.5 MiB      training stages A-D, filler, critical match, tail
//
// Everything else is zero bytes.
package main

// opsfitParams parametrise the generated input.
type opsfitParams struct {
	// Seed of the pseudo-random generator.
	Seed uint64
	// Filler is the number of random literals between training and
	// the critical match. Each one costs about one byte of compressed
	// output, so it moves rangeEncoder.Available() at the start of
	// the critical match.
	Filler int
	// Reps is the number of repetitions per training phase
	// (0 = 200).
	Reps int
	// Tail is the number of random literals after the critical
	// match.
	Tail int
	// NoTrain skips the training (stages A-D).
	NoTrain bool
}

// Positions of interest in the generated data.
type opsfitInfo struct {
	// TrainStart is the position of the first training byte.
	TrainStart int
	// FillerStart is the position of the first filler literal.
	FillerStart int
	// Critical is the position of the critical match and
	// CriticalDist/CriticalLen its distance and length.
	Critical     int
	CriticalDist int
	CriticalLen  int
}

const (
	ofKib = 1 << 10
	ofMib = 1 << 20
)

type ofGen struct {
	out  []byte
	x    uint64
	seen map[uint32]struct{}
	// recent match distances (to avoid repeating one)
	recent [8]int
	nrec   int
}

func (g *ofGen) next() uint64 {
	// splitmix64
	g.x += 0x9e3779b97f4a7c15
	z := g.x
	z = (z ^ (z >> 30)) * 0xbf58476d1ce4e5b9
	z = (z ^ (z >> 27)) * 0x94d049bb133111eb
	return z ^ (z >> 31)
}

// put appends a byte and registers its 4-gram.
func (g *ofGen) put(b byte) {
	g.out = append(g.out, b)
	n := len(g.out)
	if n >= 4 {
		k := uint32(g.out[n-4])<<24 | uint32(g.out[n-3])<<16 |
			uint32(g.out[n-2])<<8 | uint32(g.out[n-1])
		g.seen[k] = struct{}{}
	}
}

// ok reports whether appending b creates neither a known 4-gram nor a
// 2-byte match at a distance 1..8.
func (g *ofGen) ok(b byte) bool {
	n := len(g.out)
	if n >= 3 {
		k := uint32(g.out[n-3])<<24 | uint32(g.out[n-2])<<16 |
			uint32(g.out[n-1])<<8 | uint32(b)
		if _, dup := g.seen[k]; dup {
			return false
		}
	}
	for d := 1; d <= 9; d++ {
		if n-1-d < 0 {
			break
		}
		if g.out[n-d] == b && g.out[n-1-d] == g.out[n-1] {
			return false
		}
	}
	return true
}

// fresh appends a random byte that differs from the byte not (if
// not >= 0) and cannot be part of an unintended match.
func (g *ofGen) fresh(not int) {
	for {
		b := byte(g.next() >> 56)
		if int(b) == not || !g.ok(b) {
			continue
		}
		g.put(b)
		return
	}
}

func (g *ofGen) zerosTo(pos int) {
	if len(g.out) > pos {
		panic("opsfit: layout overrun")
	}
	for len(g.out) < pos {
		g.out = append(g.out, 0)
	}
	g.seen[0] = struct{}{}
}

// ofSource is a block of unused random bytes.
type ofSource struct{ pos, end int }

func (g *ofGen) block(pos, size int) *ofSource {
	g.zerosTo(pos)
	for i := 0; i < size; i++ {
		g.fresh(-1)
	}
	return &ofSource{pos: pos, end: pos + size}
}

// copyFrom appends the match (dist, n) with a ofSource taken from s and
// a following literal that ends the match. If nibble >= 0 the four
// least-significant bits of dist-1 are nibble. The distance differs
// from the recently used ones. It returns the distance.
func (g *ofGen) copyFrom(s *ofSource, n int, nibble int) int {
	for {
		d := len(g.out) - s.pos
		good := nibble < 0 || (d-1)&15 == nibble
		if s.pos > 0 && len(g.out) > 0 &&
			g.out[s.pos-1] == g.out[len(g.out)-1] {
			// the match would start one byte earlier
			good = false
		}
		for _, r := range g.recent {
			if r == d {
				good = false
			}
		}
		if s.pos+n+1 > s.end {
			panic("opsfit: ofSource block exhausted")
		}
		if good && g.copyOK(s.pos, n) {
			break
		}
		s.pos++
	}
	d := len(g.out) - s.pos
	for i := 0; i < n; i++ {
		g.put(g.out[s.pos+i])
	}
	g.fresh(int(g.out[s.pos+n]))
	// one byte gap, so that consecutive copies are not contiguous
	// in the ofSource
	s.pos += n + 1
	g.recent[g.nrec%len(g.recent)] = d
	g.nrec++
	return d
}

// copyOK reports whether copying n bytes from position pos creates no
// 2-byte match at a distance 1..8 (which the matcher could prefer at
// the position before the copy).
func (g *ofGen) copyOK(pos, n int) bool {
	m := len(g.out)
	good := true
	for i := 0; i < n && i < 12; i++ {
		b := g.out[pos+i]
		k := len(g.out)
		for d := 1; d <= 9 && k-1-d >= 0; d++ {
			if g.out[k-d] == b && g.out[k-1-d] == g.out[k-1] {
				good = false
			}
		}
		g.out = append(g.out, b)
	}
	g.out = g.out[:m]
	return good
}

// opsfitGenerate builds the input.
func opsfitGenerate(p opsfitParams) ([]byte, opsfitInfo) {
	var info opsfitInfo
	reps := p.Reps
	if reps == 0 {
		reps = 200
	}
	g := &ofGen{x: p.Seed, seen: make(map[uint32]struct{})}
	g.out = make([]byte, 0, 9*ofMib+p.Filler+p.Tail)

	f1 := g.block(3*ofMib/2, 160*ofKib)
	f2 := g.block(5*ofMib, 1*ofKib)
	f3 := g.block(6*ofMib, 16*ofKib)
	f4 := g.block(7*ofMib, 16*ofKib)
	f5 := g.block(8*ofMib, 16*ofKib)
	g.zerosTo(17 * ofMib / 2)
	// leave the zero run with a few literals
	for i := 0; i < 8; i++ {
		g.fresh(-1)
	}
	info.TrainStart = len(g.out)

	if !p.NoTrain {
		// Stage A: high length tree. The critical length is 18,
		// i.e. the 8-bit symbol 0; the nodes on its path are
		// trained to expect a 1, the deepest node first.
		for k := 0; k < 8; k++ {
			n := 18 + (1 << uint(k))
			for i := 0; i < reps; i++ {
				g.copyFrom(f1, n, -1)
			}
		}
		// Stage B: lengths 10..17 train choice2 to 0.
		for i := 0; i < reps; i++ {
			g.copyFrom(f1, 12, -1)
		}
		// Stage C: lengths 5..9 train choice to 0 and, with
		// chosen distances, the slot tree for slot 43 = 101011
		// and the align tree for the nibble 0000.
		//   slot 42    node 10101 -> 0    nibble 1000
		//   slot 40/41 node 1010  -> 0    nibble x100
		//   slot 44/45 node 101   -> 1    nibble xx10
		//   slot 32-39 node 10    -> 0    nibble xxx1
		//   slot < 32  root       -> 0    nibble xxx1
		// (node 1 would need slots >= 48, i.e. a dictionary
		// larger than 8 MiB; it stays correctly predicted)
		local := &ofSource{}
		for k, s := range []*ofSource{f3, f4, f1, f5, local} {
			if s == local {
				*local = *g.block(len(g.out), 8*ofKib)
			}
			nib := []int{8, 4, 2, 1, 1}[k]
			for i := 0; i < reps; i++ {
				g.copyFrom(s, 6, nib)
			}
		}
		// Stage D: rep0 matches after three literals (state 0)
		// train isRep[0] to 1.
		d := 0
		for i := 0; i < reps+1; i++ {
			if i == 0 {
				d = g.copyFrom(f1, 4, -1)
			} else {
				s := len(g.out) - d
				for j := 0; j < 4; j++ {
					g.put(g.out[s+j])
				}
				g.fresh(int(g.out[s+4]))
			}
			s := len(g.out) - d
			g.fresh(int(g.out[s]))
			g.fresh(int(g.out[s]))
		}
	}

	// Stage E: filler literals; they train isMatch[state 0] to 0.
	info.FillerStart = len(g.out)
	for i := 0; i < p.Filler; i++ {
		g.fresh(-1)
	}

	// The critical match: length 18, slot 43, nibble 0, in state 0.
	info.Critical = len(g.out)
	info.CriticalLen = 18
	info.CriticalDist = g.copyFrom(f2, 18, 0)

	for i := 0; i < p.Tail; i++ {
		g.fresh(-1)
	}
	return g.out, info
}
