module verif/harness

go 1.21

require github.com/ulikunitz/xz v0.0.0

replace github.com/ulikunitz/xz => /repo
