package main

import (
	"bytes"
	"fmt"
	"math/rand"
)

// Data generators (DESIGN.md §2.4). Every random choice derives from the rng passed in.

type dataGen struct {
	name string
	gen  func(rng *rand.Rand, n int) []byte
}

func genRandom(rng *rand.Rand, n int) []byte {
	b := make([]byte, n)
	rng.Read(b)
	return b
}

func genRun(rng *rand.Rand, n int) []byte {
	return bytes.Repeat([]byte{byte(rng.Intn(256))}, n)
}

func genZeroPrefixed(rng *rand.Rand, n int) []byte {
	b := genText(rng, n)
	k := 1 + rng.Intn(4)
	for i := 0; i < k && i < len(b); i++ {
		b[i] = 0
	}
	return b
}

func genPeriodic(rng *rand.Rand, n int) []byte {
	k := 1 + rng.Intn(300)
	unit := genRandom(rng, k)
	b := make([]byte, n)
	for i := range b {
		b[i] = unit[i%k]
	}
	// sprinkle a few mutations so that rep matches are interrupted by literals
	for j := 0; j < n/97; j++ {
		b[rng.Intn(n)] ^= byte(1 + rng.Intn(255))
	}
	return b
}

var words = []string{"the", "quick", "brown", "fox", "jumps", "over", "lazy", "dog", "lorem", "ipsum",
	"dolor", "sit", "amet", "xz", "lzma", "range", "coder", "\n", ", ", ". ", "0000", "abcdefgh"}

func genText(rng *rand.Rand, n int) []byte {
	var buf bytes.Buffer
	for buf.Len() < n {
		buf.WriteString(words[rng.Intn(len(words))])
		if rng.Intn(3) > 0 {
			buf.WriteByte(' ')
		}
	}
	return buf.Bytes()[:n]
}

func genDouble(rng *rand.Rand, n int) []byte {
	x := genRandom(rng, n/2)
	return append(append([]byte{}, x...), x...)[:2*(n/2)]
}

func genMixed(rng *rand.Rand, n int) []byte {
	var buf bytes.Buffer
	for buf.Len() < n {
		k := 1 + rng.Intn(4096)
		switch rng.Intn(5) {
		case 0:
			buf.Write(genRandom(rng, k))
		case 1:
			buf.Write(genRun(rng, k))
		case 2:
			buf.Write(genText(rng, k))
		case 3:
			buf.Write(genPeriodic(rng, k))
		default:
			// copy of something earlier (long-distance match)
			if buf.Len() > 0 {
				b := buf.Bytes()
				s := rng.Intn(len(b))
				e := s + k
				if e > len(b) {
					e = len(b)
				}
				buf.Write(append([]byte{}, b[s:e]...))
			}
		}
	}
	return buf.Bytes()[:n]
}

func genLowEntropy(rng *rand.Rand, n int) []byte {
	b := make([]byte, n)
	for i := range b {
		if rng.Intn(16) == 0 {
			b[i] = byte(rng.Intn(4))
		}
	}
	return b
}

// genBarely: incompressible data in which a small stretch (0.5 .. 3 %) of every 64 KiB repeats an earlier stretch:
// compresses by a fraction of a percent, so that the raw and the LZMA form of a chunk are within a few bytes
func genBarely(rng *rand.Rand, n int) []byte {
	d := genRandom(rng, n)
	for base := 0; base+70000 <= n; base += 64000 + rng.Intn(3000) {
		k := 300 + rng.Intn(1800)
		src := base + rng.Intn(20000)
		dst := base + 30000 + rng.Intn(30000)
		copy(d[dst:dst+k], d[src:src+k])
	}
	return d
}

var dataGens = []dataGen{
	{"text", genText}, {"random", genRandom}, {"run", genRun}, {"zeroprefix", genZeroPrefixed},
	{"periodic", genPeriodic}, {"double", genDouble}, {"mixed", genMixed}, {"lowentropy", genLowEntropy},
	{"barely", genBarely},
}

// sizes that matter: empty, tiny, around the 273 look-ahead, the 4096 dictionary, 64 KiB.
var edgeSizes = []int{0, 1, 2, 3, 15, 16, 272, 273, 274, 546, 1000, 4095, 4096, 4097, 8192, 20000, 65535, 65536, 65537}

func pickSize(rng *rand.Rand, max int) int {
	switch rng.Intn(4) {
	case 0:
		s := edgeSizes[rng.Intn(len(edgeSizes))]
		if s <= max {
			return s
		}
		return max
	case 1:
		return rng.Intn(64)
	default:
		return rng.Intn(max + 1)
	}
}

func pickData(rng *rand.Rand, max int) (string, []byte) {
	g := dataGens[rng.Intn(len(dataGens))]
	n := pickSize(rng, max)
	return fmt.Sprintf("%s/%d", g.name, n), g.gen(rng, n)
}

// partition splits n bytes into write sizes, including zero-length writes.
func partition(rng *rand.Rand, n int) []int {
	switch rng.Intn(5) {
	case 0:
		return []int{n}
	case 1: // byte-wise prefix then rest
		var p []int
		k := rng.Intn(8)
		for i := 0; i < k && n > 0; i++ {
			p = append(p, 1)
			n--
		}
		return append(p, 0, n)
	}
	var p []int
	for n > 0 {
		var k int
		switch rng.Intn(6) {
		case 0:
			k = 0
		case 1:
			k = 1
		case 2:
			k = rng.Intn(300)
		default:
			k = rng.Intn(n + 1)
		}
		if k > n {
			k = n
		}
		p = append(p, k)
		n -= k
	}
	if rng.Intn(3) == 0 {
		p = append(p, 0)
	}
	return p
}
