package main

import (
	"bytes"
	"fmt"
	"math/rand"
	"os/exec"
	"strings"
	"sync"
	"time"
)

// genXzStream builds one .xz stream with an arbitrary legal layout through the Lean spec
// encoder. Returns the stream, its content and a description.
func genXzStream(rng *rand.Rand, dp *DriverPool, maxOps int) (stream, content []byte, desc string, err error) {
	flags := []int{0, 1, 4, 10}[rng.Intn(4)]
	nblocks := rng.Intn(4)
	if rng.Intn(3) == 0 {
		nblocks = 1
	}
	var toks []string
	var allContent []byte
	var dk []string
	for b := 0; b < nblocks; b++ {
		dc := rng.Intn(8)            // 4 KiB … 48 KiB windows keep edge distances reachable
		bigDict := rng.Intn(40) == 0 // a declared dictionary above the reader's 8 MiB default (the generator still keeps distances small)
		if rng.Intn(4) == 0 {
			dc = 8 + rng.Intn(12)
		}
		g := &opGen{rng: rng, dictSize: int(specDictSize(dc))}
		if bigDict {
			dc = 25 + rng.Intn(4) // 12 … 32 MiB declared; operations stay within the window chosen above
		}
		nch := rng.Intn(6)
		if rng.Intn(5) == 0 {
			nch = 0 // empty block: just the end marker
		}
		specs, kinds := genChunks(g, nch, maxOps)
		ep, wcs, wus := rng.Intn(3)*rng.Intn(2), rng.Intn(2), rng.Intn(2)
		if rng.Intn(8) == 0 {
			// long header padding up to the format's maximum: without size fields the header is 12 bytes
			// before padding, so 253 extra words give the largest legal header (1024 bytes, size byte 0xff)
			wcs, wus = 0, 0
			ep = 253 - rng.Intn(2)*rng.Intn(250)
		}
		toks = append(toks, "B", fmt.Sprint(ep), fmt.Sprint(wcs), fmt.Sprint(wus), fmt.Sprint(dc))
		toks = append(toks, specs...)
		toks = append(toks, "eos/-/-")
		allContent = append(allContent, g.content...)
		dk = append(dk, strings.Join(kinds, "+"))
	}
	pad := 0
	rep, err := dp.Ask(fmt.Sprintf("xzbuild %d %d %s", flags, pad, strings.Join(toks, " ")))
	if err != nil {
		return nil, nil, "", err
	}
	if rep == "bad-op" || strings.HasPrefix(rep, "fail") {
		return nil, nil, "", fmt.Errorf("xzbuild rejected the spec: %s", truncate(strings.Join(toks, " "), 300))
	}
	return unhxe(rep), allContent, fmt.Sprintf("flags=%d blocks=[%s]", flags, strings.Join(dk, " | ")), nil
}

func specDictSize(c int) int64 {
	if c == 40 {
		return 1<<32 - 1
	}
	return int64(2+c%2) << uint(c/2+11)
}

// C03: the reader decodes every valid LZMA2-only .xz stream to the right bytes, whichever
// encoder wrote it, independent of ReaderConfig.DictCap.
func checkC03(a *checkArgs, r *Result) error {
	dp, err := newDriverPool(a.driver, 16)
	if err != nil {
		return err
	}
	defer dp.Close()
	r.Rule = "valid foreign streams: the frozen liblzma 5.8.2 corpus (varied presets, lc/lp/pb, checks, block sizes) and streams built by the Lean spec encoder from generated legal operation sequences (literal, match, rep0-3, short rep; lengths 2..273; distances up to the window edge), chunk layouts (all 7 kinds, mid-stream state/property/dictionary resets, raw chunks) and container layouts (optional size fields, header padding, empty blocks/streams, all checks); each read by the real reader under several ReaderConfig.DictCap values; expected content is known by construction. Non-trivial: >= 2 chunk kinds or a rep/short-rep operation; distinct by stream bytes."
	rng := rand.New(rand.NewSource(a.seed))
	n, maxOps := 2000, 150
	if a.tier == "thorough" {
		n, maxOps = 8000, 400
	}
	type item struct {
		name            string
		stream, content []byte
		nontrivial      bool
	}
	var items []item
	for _, b := range corpusStreams(1 << 22) {
		if b.Kind == "xz" {
			items = append(items, item{b.Name, b.Stream, b.Content, true})
		}
	}
	r.Add("corpus_streams", len(items))
	// ring-level model of buffer / decoderDict / encoderDict vs the real types
	nring := 4000
	if a.tier == "thorough" {
		nring = 40000
	}
	if err := ringTie(r, dp, rand.New(rand.NewSource(a.seed+77)), nring); err != nil {
		return err
	}
	// the translator behind Gen/GoSrc.lean (range decoder and friends) against the Go code
	nx := 400
	if a.tier == "thorough" {
		nx = 4000
	}
	if err := xlateTie(r, dp, rand.New(rand.NewSource(a.seed+912)), nx); err != nil {
		return err
	}
	for i := 0; i < n; i++ {
		s, c, desc, err := genXzStream(rng, dp, maxOps)
		if err != nil {
			return err
		}
		items = append(items, item{fmt.Sprintf("spec-gen/%d %s", i, desc), s, c, strings.Contains(desc, "+")})
	}
	bitems, err := boundaryStreams(rng, dp)
	if err != nil {
		return err
	}
	for _, b := range bitems {
		items = append(items, item{b.name, b.stream, b.content, true})
	}
	r.Add("boundary_streams", len(bitems))
	xzBin, _ := exec.LookPath("xz")
	var wg sync.WaitGroup
	sem := make(chan struct{}, 16)
	for idx, it := range items {
		wg.Add(1)
		sem <- struct{}{}
		go func(idx int, it item) {
			defer wg.Done()
			defer func() { <-sem }()
			c := rdCase{Op: "read-valid", Kind: "xz", Name: it.name, Stream: hxe(it.stream), Want: hxe(it.content)}
			// the spec must accept its own stream (otherwise the generator is at fault, not the code)
			m, err := modelRead_(dp, c, it.stream, true)
			if err != nil {
				r.Violate("broken-correspondence", "driver", c, err.Error())
				return
			}
			if m.Class != "EOF" || !bytes.Equal(m.Out, it.content) {
				r.Violate("broken-correspondence", "spec-rejects-valid-stream "+m.Detail, c, "the Lean strict decoder does not reproduce the expected content of a stream that is valid by construction: "+m.Detail)
				return
			}
			if strings.HasPrefix(it.name, "spec-gen") && xzBin != "" && a.tier == "thorough" && idx%10 == 0 {
				cmd := exec.Command(xzBin, "-dc")
				cmd.Stdin = bytes.NewReader(it.stream)
				out, err := cmd.Output()
				r.Inc("validated_by_xz_utils")
				if err != nil || !bytes.Equal(out, it.content) {
					r.Violate("broken-correspondence", "xz-utils-rejects-spec-stream", c, "xz-utils does not accept a stream produced by the Lean spec encoder")
				}
			}
			for _, cap := range []int{0, 4096, 65536, 8 << 20} {
				cc := c
				cc.DictCap = cap
				g := goRead(cc, it.stream, 60*time.Second)
				r.Count(fmt.Sprintf("%s#%d", it.name, cap), it.nontrivial)
				r.mu.Lock()
				r.TracesVsImpl++
				r.mu.Unlock()
				if g.Err != "EOF" || g.OpenErr || !bytes.Equal(g.Out, it.content) {
					r.Violate("counterexample", fmt.Sprintf("valid-stream-misread dictcap=%d: %s %s", cap, g.Err, truncate(g.Msg, 60)), cc,
						fmt.Sprintf("reader returned %d bytes (want %d) and status %s %s %s on a valid stream", len(g.Out), len(it.content), g.Err, g.Msg, g.Panic))
					return
				}
			}
			for _, ck := range strings.Split(m.Info, ",") {
				if i := strings.Index(ck, "k="); i >= 0 {
					ck = ck[i+2:]
				}
				r.Inc("chunk_" + strings.SplitN(ck, ":", 2)[0])
			}
			r.Sample(map[string]interface{}{"name": truncate(it.name, 120), "stream_bytes": len(it.stream), "content_bytes": len(it.content)})
		}(idx, it)
	}
	wg.Wait()
	r.Extra["driver_requests"] = dp.Requests()
	return nil
}

func init() { checks["C03"] = checkC03 }

// boundaryStreams builds streams whose chunks sit exactly on the format's field limits: a
// compressed chunk of exactly 65536 compressed bytes (size field 0xffff), a chunk of exactly 2 MiB
// of uncompressed data (size field 0x1fffff), a raw chunk of exactly 65536 bytes.
func boundaryStreams(rng *rand.Rand, dp *DriverPool) (items []struct {
	name            string
	stream, content []byte
}, err error) {
	specs, err := boundarySpecs(rng, dp.Ask)
	if err != nil {
		return nil, err
	}
	for _, sp := range specs {
		rep, err := dp.Ask("xzbuild 4 0 B 0 1 1 20 " + strings.Join(sp.specs, " ") + " eos/-/-")
		if err != nil {
			return nil, err
		}
		if rep == "bad-op" {
			return nil, fmt.Errorf("xzbuild rejected a boundary stream")
		}
		items = append(items, struct {
			name            string
			stream, content []byte
		}{sp.name, unhxe(rep), sp.content})
	}
	return items, nil
}

type boundarySpec struct {
	name    string
	specs   []string
	content []byte
}

// boundarySpecs: chunk lists (spec-encoder notation) at the limits of the chunk header fields
func boundarySpecs(rng *rand.Rand, ask func(string) (string, error)) (items []boundarySpec, err error) {
	add := func(name string, specs []string, content []byte) error {
		items = append(items, boundarySpec{name, specs, content})
		return nil
	}
	dp := struct{ Ask func(string) (string, error) }{ask}
	// (1) compressed size exactly 65536: K incompressible literals, K adjusted until the size field is 0xffff
	lits := make([]byte, 70000)
	rng.Read(lits)
	// size(k) = compressed size of the chunk holding the first k literals; monotone in k
	size := func(k int) (int, string, error) {
		ops := make([]string, k)
		for i := 0; i < k; i++ {
			ops[i] = fmt.Sprintf("L%d", lits[i])
		}
		spec := "lrnd/93/" + strings.Join(ops, ".")
		rep, err := dp.Ask("lzma2build 4096 " + spec)
		if err != nil {
			return 0, "", err
		}
		s := unhxe(rep)
		if len(s) < 7 {
			return 0, "", fmt.Errorf("lzma2build failed")
		}
		return len(s) - 6, spec, nil // header of an lrnd chunk: 6 bytes
	}
	for attempt := 0; attempt < 6; attempt++ {
		lo, hi := 60000, 69000 // size(lo) < 65536 <= size(hi)
		for lo+1 < hi {
			mid := (lo + hi) / 2
			sz, _, err := size(mid)
			if err != nil {
				return nil, err
			}
			if sz >= 65536 {
				hi = mid
			} else {
				lo = mid
			}
		}
		sz, spec, err := size(hi)
		if err != nil {
			return nil, err
		}
		if sz == 65536 {
			if err := add("boundary/compressed-size-65536", []string{spec}, append([]byte{}, lits[:hi]...)); err != nil {
				return nil, err
			}
			break
		}
		// the size jumped over 65536: change the literals near the end and search again
		for j := 1; j <= 40; j++ {
			lits[hi-j] = byte(rng.Intn(256))
		}
	}
	// (2) uncompressed size exactly 2 MiB in one chunk
	ops := []string{"L7"}
	n := 1
	for n+273 <= 1<<21 {
		ops = append(ops, "M273,0")
		n += 273
	}
	if rest := 1<<21 - n; rest >= 2 {
		ops = append(ops, fmt.Sprintf("M%d,0", rest))
		n += rest
	} else if rest == 1 {
		ops = append(ops, "S")
		n++
	}
	if err := add("boundary/uncompressed-size-2MiB", []string{"lrnd/93/" + strings.Join(ops, ".")}, bytes.Repeat([]byte{7}, n)); err != nil {
		return nil, err
	}
	// (3) raw chunk of exactly 65536 bytes followed by a compressed chunk
	raw := make([]byte, 65536)
	rng.Read(raw)
	if err := add("boundary/raw-65536", []string{"ud/-/" + hx(raw), "lrn/93/M200,65535.L1"}, append(append(append([]byte{}, raw...), raw[:200]...), 1)); err != nil {
		return nil, err
	}
	// (4) uncompressed size 2^20 + 1 (only bit 20 of the 21-bit size field set), followed by a chunk without reset
	ops = []string{"L9"}
	n = 1
	for n+273 <= 1<<20+1 {
		ops = append(ops, "M273,0")
		n += 273
	}
	if rest := 1<<20 + 1 - n; rest >= 2 {
		ops = append(ops, fmt.Sprintf("M%d,0", rest))
		n += rest
	} else if rest == 1 {
		ops = append(ops, "S")
		n++
	}
	if err := add("boundary/uncompressed-size-1MiB+1", []string{"lrnd/93/" + strings.Join(ops, "."), "l/-/M100,0.L3"}, append(bytes.Repeat([]byte{9}, n+100), 3)); err != nil {
		return nil, err
	}
	return items, nil
}
