package main

import (
	"bytes"
	"errors"
	"fmt"
	"io"
	"math/rand"
	"strings"

	"github.com/ulikunitz/xz/lzma"
)

// Correspondence of the SOURCE ACCESS layer (Model/Src.lean) with what the Go code really calls: io.ReadFull,
// lzma.ByteReader(src).ReadByte, io.CopyN (into a bytes.Buffer, an io.ReaderFrom, and into a plain io.Writer) and the
// doubly limited copy of uncompressedReader.fill, all on a source that fragments (whole / one byte / varying short
// reads), reports its end alone or together with the last bytes, and ends with io.EOF or with an error of its own.
// The same operation list is run on the real functions and on the model; bytes, status and limits must be equal.
// Proofs/Src.lean shows that the model's accessors return what the reader models assume for EVERY fragmentation.

type srcCase struct {
	Op       string   `json:"op"`
	Data     string   `json:"data_hex"`
	Fails    bool     `json:"source_fails"`
	Together bool     `json:"end_with_last_bytes"`
	FragMode int      `json:"frag_mode"`
	Seed     int      `json:"seed"`
	Ops      []string `json:"ops"`
}

var errSrcTie = errors.New("verif: source failure")

type modelSrc struct {
	data     []byte
	pos      int
	calls    uint64
	mode     int
	seed     uint64
	together bool
	fails    bool
}

func (s *modelSrc) end() error {
	if s.fails {
		return errSrcTie
	}
	return io.EOF
}

func (s *modelSrc) frag() int {
	switch s.mode {
	case 0:
		return 1000000000
	case 1:
		return 1
	}
	return int(((s.seed*31+s.calls)*2654435761)%4294967296/65536%97 + 1)
}

func (s *modelSrc) Read(p []byte) (int, error) {
	if len(p) == 0 {
		return 0, nil
	}
	if s.pos >= len(s.data) {
		s.calls++
		return 0, s.end()
	}
	n := len(p)
	if f := s.frag(); n > f {
		n = f
	}
	if n > len(s.data)-s.pos {
		n = len(s.data) - s.pos
	}
	copy(p, s.data[s.pos:s.pos+n])
	s.pos += n
	s.calls++
	if s.together && s.pos >= len(s.data) {
		return n, s.end()
	}
	return n, nil
}

// writerOnly hides bytes.Buffer's ReadFrom
type writerOnly struct{ b *bytes.Buffer }

func (w writerOnly) Write(p []byte) (int, error) { return w.b.Write(p) }

func srcStatus(err error) string {
	switch {
	case err == nil:
		return "ok"
	case err == io.EOF:
		return "EOF"
	case err == io.ErrUnexpectedEOF:
		return "UnexpectedEOF"
	case errors.Is(err, errSrcTie):
		return "src"
	case strings.Contains(err.Error(), "no data"):
		return "noData"
	}
	return "other(" + err.Error() + ")"
}

func hxd(b []byte) string {
	if len(b) == 0 {
		return "-"
	}
	return hxe(b)
}

func goSrcOps(cs srcCase) []string {
	s := &modelSrc{data: unhxe(cs.Data), mode: cs.FragMode, seed: uint64(cs.Seed), together: cs.Together, fails: cs.Fails}
	br := lzma.ByteReader(s)
	var out []string
	for i, op := range cs.Ops {
		var a, b int
		switch op[0] {
		case 'F':
			fmt.Sscanf(op[1:], "%d", &a)
			buf := make([]byte, a)
			n, err := io.ReadFull(s, buf)
			out = append(out, hxd(buf[:n])+":"+srcStatus(err))
		case 'B':
			c, err := br.ReadByte()
			if err != nil {
				out = append(out, "-:"+srcStatus(err))
			} else {
				out = append(out, hxe([]byte{c})+":ok")
			}
		case 'C':
			fmt.Sscanf(op[1:], "%d", &a)
			var buf bytes.Buffer
			var n int64
			var err error
			if i%2 == 0 {
				n, err = io.CopyN(&buf, s, int64(a))
			} else {
				n, err = io.CopyN(writerOnly{&buf}, s, int64(a))
			}
			if int(n) != buf.Len() {
				out = append(out, "count-mismatch")
			}
			out = append(out, hxd(buf.Bytes())+":"+srcStatus(err))
		case 'L':
			fmt.Sscanf(op[1:], "%d/%d", &a, &b)
			lr := io.LimitedReader{R: s, N: int64(a)}
			var buf bytes.Buffer
			_, err := io.CopyN(writerOnly{&buf}, &lr, int64(b))
			out = append(out, fmt.Sprintf("%s:%s:%d", hxd(buf.Bytes()), srcStatus(err), lr.N))
		}
	}
	return out
}

func srcTie(r *Result, dp *DriverPool, rng *rand.Rand, n int) error {
	for i := 0; i < n; i++ {
		size := []int{0, 1, 2, 5, 40, 300, 70000}[rng.Intn(7)]
		if size > 300 && i%8 != 0 {
			size = 300
		}
		cs := srcCase{Op: "src-access", Data: hxd(genRandom(rng, size)), Fails: rng.Intn(2) == 0, Together: rng.Intn(2) == 0, FragMode: rng.Intn(3), Seed: rng.Intn(1000)}
		left := size
		for k := 0; k < 1+rng.Intn(12); k++ {
			amt := func() int {
				switch rng.Intn(6) {
				case 0:
					return 0
				case 1:
					return 1
				case 2:
					return left // exactly what is left
				case 3:
					return left + 1 + rng.Intn(3)
				case 4:
					return 40000 + rng.Intn(40000) // beyond the 32 KiB copy buffer
				}
				return rng.Intn(left + 2)
			}
			var op string
			a := amt()
			switch rng.Intn(4) {
			case 0:
				op = fmt.Sprintf("F%d", a)
			case 1:
				op, a = "B", 1
			case 2:
				op = fmt.Sprintf("C%d", a)
			default:
				w := amt()
				op = fmt.Sprintf("L%d/%d", a, w)
				if w < a {
					a = w
				}
			}
			cs.Ops = append(cs.Ops, op)
			if a > left {
				a = left
			}
			left -= a
		}
		rep, err := dp.Ask(fmt.Sprintf("srcops %s %d %d %d %d %s", cs.Data, b2i(cs.Fails), b2i(cs.Together), cs.FragMode, cs.Seed, strings.Join(cs.Ops, " ")))
		if err != nil {
			return err
		}
		r.mu.Lock()
		r.TracesVsImpl++
		r.mu.Unlock()
		r.Inc("src_access_runs")
		r.Inc(fmt.Sprintf("src_frag%d_fails%v_together%v", cs.FragMode, cs.Fails, cs.Together))
		got := goSrcOps(cs)
		want := strings.Fields(rep)
		for j := range got {
			st := got[j][strings.Index(got[j], ":")+1:]
			r.Inc("src_status_" + strings.SplitN(st, ":", 2)[0])
			if j >= len(want) || want[j] != got[j] {
				w := "<none>"
				if j < len(want) {
					w = want[j]
				}
				r.Violate("broken-correspondence", "source access layer", cs, fmt.Sprintf("operation %d (%s): the Go standard library / lzma.ByteReader returned %s, Model/Src.lean says %s", j, cs.Ops[j], truncate(got[j], 120), truncate(w, 120)))
				break
			}
		}
	}
	return nil
}
