package main

import (
	"bytes"
	"fmt"
	"math/rand"
	"os"
	"os/exec"
	"path/filepath"
	"strings"
	"sync"
	"time"

	"github.com/ulikunitz/xz"
	"github.com/ulikunitz/xz/lzma"
)

// gxz scenarios: the unmodified binary built from /repo runs under strace; faults (error
// injection) and crashes (SIGKILL on syscall entry) are placed on every file-system call of the
// run, selected by (path, syscall) so that Go's thread scheduling cannot move them.

type gxzScenario struct {
	Op        string `json:"op"`
	Mode      string `json:"mode"`   // compress | decompress
	Format    string `json:"format"` // xz | lzma
	Keep      bool   `json:"keep"`
	Force     bool   `json:"force"`
	TgtExists bool   `json:"target_exists"`
	TmpExists bool   `json:"stale_tmp_exists"`
	Input     string `json:"input"` // valid | corrupt | truncated
	NoSuffix  bool   `json:"no_known_suffix"`
	Fault     string `json:"fault,omitempty"`
	Crash     string `json:"crash,omitempty"`
	Path      string `json:"injected_path,omitempty"`
	Syscall   string `json:"injected_syscall,omitempty"`
	// Payload "regimes": incompressible and compressible stretches alternate (raw, raw, compressed, raw, compressed
	// LZMA2 chunks), so that the writer's state snapshot around raw chunks and the encoder ring wrap are exercised
	Payload string `json:"payload,omitempty"`
}

var gxzRegimes = func() []byte {
	rng := rand.New(rand.NewSource(42))
	d := genRandom(rng, 140000)
	d = append(d, genText(rng, 30000)...)
	d = append(d, genRandom(rng, 70000)...)
	d = append(d, genText(rng, 20000)...)
	return d
}()

func (s gxzScenario) payload() []byte {
	if s.Payload == "regimes" {
		return gxzRegimes
	}
	if s.Payload == "multistream" {
		return gxzMulti
	}
	return gxzPayload
}

// gxzMulti: the content of a concatenated archive whose first stream holds exactly 65536 bytes (a multiple of
// io.Copy's buffer), the second an empty file, the third a short text
var gxzMulti = func() []byte {
	rng := rand.New(rand.NewSource(43))
	return append(genText(rng, 65536), genText(rng, 3000)...)
}()

func (s gxzScenario) String() string {
	return fmt.Sprintf("%s %s keep=%v force=%v tgt=%v tmp=%v input=%s nosuffix=%v", s.Mode, s.Format, s.Keep, s.Force, s.TgtExists, s.TmpExists, s.Input, s.NoSuffix)
}

type injection struct {
	step    string // model step
	which   string // inp | tgt | tmp
	syscall string
	errno   string
}

var injections = []injection{
	{"openInp", "inp", "newfstatat", "EIO"},
	{"openInp", "inp", "openat", "EIO"},
	{"statTgt", "tgt", "newfstatat", "EIO"},
	{"openTmp", "tmp", "openat", "ENOSPC"},
	{"copy", "inp", "read", "EIO"},
	{"finish", "tmp", "write", "ENOSPC"},
	{"closeTmp", "tmp", "close", "EIO"},
	{"removeTmp", "tmp", "unlinkat", "-"}, // crash only: a failing unlink of the temporary file cannot be repaired
	{"rename", "tmp", "renameat", "EIO"},
	{"closeInp", "inp", "close", "EIO"},
	{"removeInp", "inp", "unlinkat", "EIO"},
}

var gxzPayload = []byte(strings.Repeat("gxz never loses data: the quick brown fox jumps over the lazy dog.\n", 40))

func compressWith(format string, data []byte) []byte {
	var buf bytes.Buffer
	if format == "xz" {
		w, _ := xz.WriterConfig{BlockSize: 1000}.NewWriter(&buf) // several blocks
		w.Write(data)
		w.Close()
	} else {
		w, _ := lzma.NewWriter(&buf)
		w.Write(data)
		w.Close()
	}
	return buf.Bytes()
}

func decodes(format string, s []byte) ([]byte, bool) {
	var t *readTrace
	if format == "xz" {
		t = goXzRead(s, 0, false, 20*time.Second)
	} else {
		t = goLzmaRead(s, 0, 20*time.Second)
	}
	return t.Out, t.Err == "EOF" && !t.OpenErr
}

// classify turns the real directory into the model's abstract file states.
func classify(dir string, sc gxzScenario, names [3]string, orig, other, staleTmp []byte) (st [3]string) {
	for i, n := range names {
		b, err := os.ReadFile(filepath.Join(dir, n))
		switch {
		case err != nil:
			st[i] = "absent"
		case i == 0 && bytes.Equal(b, orig):
			st[i] = "orig"
		case i == 1 && sc.TgtExists && bytes.Equal(b, other):
			st[i] = "other"
		case i == 2 && sc.TmpExists && bytes.Equal(b, staleTmp):
			st[i] = "other"
		default:
			complete := false
			if sc.Mode == "compress" {
				out, ok := decodes(sc.Format, b)
				complete = ok && bytes.Equal(out, sc.payload())
			} else {
				complete = bytes.Equal(b, sc.payload())
			}
			if complete {
				st[i] = "complete"
			} else {
				st[i] = "part"
			}
		}
	}
	return st
}

func runGxzScenario(r *Result, d *DriverPool, gxz string, sc gxzScenario, inj *injection, crash bool) {
	// strace occasionally loses the race with the dying tracee ("ptrace(PTRACE_LISTEN…): Input/output
	// error") and then exits with its own status: such a run says nothing about gxz and is repeated
	for attempt := 0; attempt < 4; attempt++ {
		if runGxzScenarioOnce(r, d, gxz, sc, inj, crash) {
			return
		}
		r.Inc("strace_hiccup_retries")
	}
}

func runGxzScenarioOnce(r *Result, d *DriverPool, gxz string, sc gxzScenario, inj *injection, crash bool) (conclusive bool) {
	dir, err := os.MkdirTemp("", "gxzrun")
	if err != nil {
		return true
	}
	defer os.RemoveAll(dir)
	// names
	base := "datafile"
	var inpName, tgtName string
	ext := "." + sc.Format
	if sc.Mode == "compress" {
		inpName, tgtName = base, base+ext
	} else {
		inpName, tgtName = base+ext, base
		if sc.NoSuffix {
			inpName, tgtName = base+".dat", base+".dat"
		}
	}
	tmpName := tgtName + "." + sc.Mode
	orig := sc.payload()
	if sc.Mode == "decompress" {
		orig = compressWith(sc.Format, sc.payload())
		if sc.Payload == "multistream" {
			// three xz streams: 65536 bytes, nothing, the rest; separated by 0 / 4 bytes of padding
			p := sc.payload()
			orig = append([]byte{}, compressWith("xz", p[:65536])...)
			orig = append(orig, compressWith("xz", nil)...)
			orig = append(orig, 0, 0, 0, 0)
			orig = append(orig, compressWith("xz", p[65536:])...)
		}
		switch sc.Input {
		case "corrupt":
			orig = append([]byte{}, orig...)
			orig[len(orig)/2] ^= 0x55
		case "truncated":
			orig = orig[:len(orig)*2/3]
		case "truncated-at-block-boundary":
			if l, ok := layoutOf(orig, 8); ok && len(l.blocks) > 1 {
				orig = orig[:l.blocks[0].checkEnd]
			} else {
				orig = orig[:len(orig)-1]
			}
		case "truncated-after-header":
			orig = orig[:13]
			if sc.Format == "xz" {
				orig = orig[:12]
			}
		}
	}
	other := []byte("pre-existing target\n")
	stale := bytes.Repeat([]byte("stale temporary file left by a killed run\n"), 400) // longer than any output here
	os.WriteFile(filepath.Join(dir, inpName), orig, 0o644)
	if sc.TgtExists && tgtName != inpName {
		os.WriteFile(filepath.Join(dir, tgtName), other, 0o644)
	}
	if sc.TmpExists {
		os.WriteFile(filepath.Join(dir, tmpName), stale, 0o644)
	}
	args := []string{}
	if sc.Mode == "decompress" {
		args = append(args, "-d")
	}
	if sc.Format == "lzma" && sc.Mode == "compress" {
		args = append(args, "-F", "lzma")
	}
	if sc.Keep {
		args = append(args, "-k")
	}
	if sc.Force {
		args = append(args, "-f")
	}
	args = append(args, "-q", "--", inpName)
	var cmd *exec.Cmd
	fault, crashStep := "none", "none"
	if inj != nil {
		rel := map[string]string{"inp": inpName, "tgt": tgtName, "tmp": tmpName}[inj.which]
		p := filepath.Join(dir, rel)
		tamper := fmt.Sprintf("inject=%s:error=%s", inj.syscall, inj.errno)
		if crash {
			tamper = fmt.Sprintf("inject=%s:signal=KILL", inj.syscall)
			crashStep = inj.step
		} else {
			fault = inj.step
		}
		// for decompression the first read of the input is the header probe (format detection)
		if sc.Mode == "decompress" && inj.step == "copy" {
			if crash {
				crashStep = "probe"
			} else {
				fault = "probe"
			}
		}
		sargs := append([]string{"-f", "-qq", "-e", "signal=none", "-o", "/dev/null", "-P", rel, "-P", p, "-e", "trace=" + inj.syscall, "-e", tamper, gxz}, args...)
		cmd = exec.Command("strace", sargs...)
		sc.Path, sc.Syscall = inj.which, inj.syscall
	} else {
		cmd = exec.Command(gxz, args...)
	}
	sc.Fault, sc.Crash = fault, crashStep
	cmd.Dir = dir
	var stderr bytes.Buffer
	cmd.Stderr = &stderr
	cmd.Stdin = nil
	err = cmd.Run()
	exit := 0
	if err != nil {
		if ee, ok := err.(*exec.ExitError); ok {
			exit = ee.ExitCode()
			if exit < 0 {
				exit = 137
			}
		} else {
			r.Violate("broken-correspondence", "cannot-run-gxz", sc, err.Error())
			return true
		}
	}
	if inj != nil && strings.Contains(stderr.String(), "strace: ptrace(") {
		return false
	}
	if crash && exit != 137 {
		// the call was never reached (e.g. the run ended earlier): behaves like no injection
		crashStep = "none"
		sc.Crash = "unreached"
	}
	st := classify(dir, sc, [3]string{inpName, tgtName, tmpName}, orig, other, stale)
	if sc.NoSuffix && sc.Mode == "decompress" {
		// target name = input name: only the input path is meaningful
		st[1] = "absent"
	}
	r.Count(fmt.Sprint(sc, fault, crashStep, sc.Path, sc.Syscall), inj != nil)
	r.Inc("mode_" + sc.Mode + "_" + sc.Format)
	// direct oracle on the real directory
	dataSafe := st[0] == "orig" || st[1] == "complete"
	if !dataSafe {
		r.Violate("counterexample", fmt.Sprintf("data-lost %s fault=%s crash=%s", sc.Mode, fault, sc.Crash), sc,
			fmt.Sprintf("after the run (exit %d) neither the input nor a complete output exists: input=%s target=%s tmp=%s; stderr: %s", exit, st[0], st[1], st[2], truncate(stderr.String(), 200)))
	}
	if exit != 137 {
		if exit != 0 && (st[0] != "orig" || st[1] == "part") {
			r.Violate("counterexample", fmt.Sprintf("failure-not-clean %s fault=%s", sc.Mode, fault), sc,
				fmt.Sprintf("failing run (exit %d) left input=%s target=%s", exit, st[0], st[1]))
		}
		if st[2] == "part" || st[2] == "complete" {
			r.Violate("counterexample", fmt.Sprintf("temporary-file-left %s fault=%s", sc.Mode, fault), sc, fmt.Sprintf("run exited with %d and left its temporary file behind", exit))
		}
		if exit == 0 && (st[1] != "complete" || (sc.Keep && st[0] != "orig") || (!sc.Keep && st[0] != "absent")) {
			r.Violate("counterexample", fmt.Sprintf("success-without-result %s", sc.Mode), sc, fmt.Sprintf("exit 0 with input=%s target=%s", st[0], st[1]))
		}
		bad := sc.Mode == "decompress" && (sc.Input != "valid" || sc.NoSuffix)
		if bad && exit == 0 {
			r.Violate("counterexample", "bad-input-accepted "+sc.Input, sc, "corrupt / truncated / unnamed input processed with exit 0")
		}
	}
	// model
	t0, m0 := "absent", "absent"
	if sc.TgtExists {
		t0 = "other"
	}
	if sc.TmpExists {
		m0 = "other"
	}
	badInput := sc.Mode == "decompress" && sc.Input != "valid"
	rep, err := d.Ask(fmt.Sprintf("gxzrun %d %d %d %d %d %s %s %s %s", b2i(sc.Mode == "decompress"), b2i(sc.Keep), b2i(sc.Force), b2i(badInput), b2i(sc.NoSuffix && sc.Mode == "decompress"), t0, m0, fault, crashStep))
	if err != nil {
		r.Violate("broken-correspondence", "driver", sc, err.Error())
		return true
	}
	r.mu.Lock()
	r.TracesVsImpl++
	r.mu.Unlock()
	got := fmt.Sprintf("%s %s %s %d", st[0], st[1], st[2], exit)
	if sc.NoSuffix && sc.Mode == "decompress" {
		f := strings.Fields(rep)
		if len(f) == 4 {
			f[1] = "absent"
			if !sc.TmpExists {
				f[2] = st[2]
			}
			rep = strings.Join(f, " ")
		}
	}
	if rep != got {
		r.Violate("broken-correspondence", fmt.Sprintf("gxz-vs-model %s fault=%s crash=%s", sc.Mode, fault, sc.Crash), sc,
			fmt.Sprintf("real run: input/target/tmp/exit = %s; model Gxz.run: %s; stderr: %s", got, rep, truncate(stderr.String(), 160)))
	}
	if inj != nil {
		r.Sample(map[string]interface{}{"scenario": sc.String(), "fault": fault, "crash": sc.Crash, "real": got, "model": rep})
	}
	return true
}

// C10: gxz never loses data.
func checkC10(a *checkArgs, r *Result) error {
	gxz := os.Getenv("XZH_GXZ")
	if gxz == "" {
		gxz = verifRoot() + "/harness/gxz-bin"
	}
	if _, err := os.Stat(gxz); err != nil {
		return fmt.Errorf("gxz binary %s missing: %v", gxz, err)
	}
	if _, err := exec.LookPath("strace"); err != nil {
		return fmt.Errorf("strace not available: %v", err)
	}
	dp, err := newDriverPool(a.driver, 4)
	if err != nil {
		return err
	}
	defer dp.Close()
	r.Rule = "scenarios {compress, decompress} x {xz, lzma} x {-k} x {-f} x target exists x stale temporary file x {valid, corrupt, truncated input} x name without known suffix; for each scenario the unmodified gxz binary (built from /repo) runs once plainly and once per (file-system call) x {injected failure, SIGKILL on entry} under strace (calls selected by path and syscall name); oracle on the real directory: data safe, failing run leaves input and no partial target, no temporary file unless killed, exit status; and the abstract outcome must equal Gxz.run. Exhaustive over the injection points of each scenario. Non-trivial: runs with an injection; distinct by (scenario, injection)."
	r.Exhaustive = true
	rng := rand.New(rand.NewSource(a.seed))
	var scs []gxzScenario
	for _, mode := range []string{"compress", "decompress"} {
		for _, format := range []string{"xz", "lzma"} {
			for _, keep := range []bool{false, true} {
				for _, force := range []bool{false, true} {
					for _, tgt := range []bool{false, true} {
						sc := gxzScenario{Op: "gxz-run", Mode: mode, Format: format, Keep: keep, Force: force, TgtExists: tgt, Input: "valid"}
						scs = append(scs, sc)
					}
				}
			}
			scs = append(scs, gxzScenario{Op: "gxz-run", Mode: mode, Format: format, TmpExists: true, Input: "valid"},
				gxzScenario{Op: "gxz-run", Mode: mode, Format: format, TmpExists: true, Force: true, Input: "valid"})
			if mode == "decompress" {
				scs = append(scs, gxzScenario{Op: "gxz-run", Mode: mode, Format: format, Input: "corrupt"},
					gxzScenario{Op: "gxz-run", Mode: mode, Format: format, Input: "truncated"},
					gxzScenario{Op: "gxz-run", Mode: mode, Format: format, Force: true, Input: "truncated"},
					gxzScenario{Op: "gxz-run", Mode: mode, Format: format, Input: "truncated-at-block-boundary"},
					gxzScenario{Op: "gxz-run", Mode: mode, Format: format, Input: "truncated-after-header"},
					gxzScenario{Op: "gxz-run", Mode: mode, Format: format, Force: true, Input: "valid", NoSuffix: true},
					gxzScenario{Op: "gxz-run", Mode: mode, Format: format, Input: "valid", NoSuffix: true})
			}
		}
	}
	var regimes []gxzScenario
	for _, mode := range []string{"compress", "decompress"} {
		for _, format := range []string{"xz", "lzma"} {
			regimes = append(regimes, gxzScenario{Op: "gxz-run", Mode: mode, Format: format, Input: "valid", Payload: "regimes"})
		}
	}
	regimes = append(regimes, gxzScenario{Op: "gxz-run", Mode: "decompress", Format: "xz", Input: "valid", Payload: "multistream"},
		gxzScenario{Op: "gxz-run", Mode: "decompress", Format: "xz", Keep: true, Input: "valid", Payload: "multistream"})
	if a.tier != "thorough" {
		// quick: a deterministic half of the grid, always including the special scenarios
		var keep []gxzScenario
		for i, sc := range scs {
			if sc.TmpExists || sc.Input != "valid" || sc.NoSuffix || (i+int(a.seed))%2 == 0 {
				keep = append(keep, sc)
			}
		}
		scs = keep
	}
	_ = rng
	var wg sync.WaitGroup
	sem := make(chan struct{}, 12)
	run := func(sc gxzScenario, inj *injection, crash bool) {
		wg.Add(1)
		sem <- struct{}{}
		go func() {
			defer wg.Done()
			defer func() { <-sem }()
			runGxzScenario(r, dp, gxz, sc, inj, crash)
		}()
	}
	for _, sc := range regimes {
		run(sc, nil, false) // plain runs only: the payload, not the fault grid, is what these add
	}
	for _, sc := range scs {
		run(sc, nil, false)
		for i := range injections {
			if sc.NoSuffix && sc.Mode == "decompress" && injections[i].which != "inp" {
				continue // target and temporary names alias the input's name in this scenario
			}
			if injections[i].errno != "-" {
				run(sc, &injections[i], false)
			}
			run(sc, &injections[i], true)
		}
	}
	wg.Wait()
	multiFileRuns(r, gxz)
	stdoutFailureRuns(r, gxz)
	r.Extra["scenarios"] = len(scs)
	r.Extra["driver_requests"] = dp.Requests()
	return nil
}

type gxzMultiCase struct {
	Op     string   `json:"op"`
	Mode   string   `json:"mode"`
	Format string   `json:"format"`
	Files  []string `json:"files"`
	Bad    int      `json:"failing_file_index"`
	Why    string   `json:"why_it_fails"`
}

// multiFileRuns: one gxz run over three files of which exactly one cannot be processed (first, middle or last):
// the run must exit non-zero, the failing file must be left untouched without debris, and the other two must be
// converted completely (a failure never spills over, a success never hides it).
func multiFileRuns(r *Result, gxz string) {
	payloads := [][]byte{bytes.Repeat([]byte("first file\n"), 300), genText(rand.New(rand.NewSource(3)), 5000), bytes.Repeat([]byte{7}, 2000)}
	for _, mode := range []string{"compress", "decompress"} {
		for _, format := range []string{"xz", "lzma"} {
			for bad := 0; bad < 3; bad++ {
				for _, why := range []string{"corrupt-or-target-exists", "missing"} {
					dir, err := os.MkdirTemp("", "gxzmulti")
					if err != nil {
						return
					}
					ext := "." + format
					var args, inNames, outNames []string
					var inData [][]byte
					if mode == "decompress" {
						args = append(args, "-d")
					}
					args = append(args, "-F", format)
					for i := 0; i < 3; i++ {
						name := fmt.Sprintf("f%d.dat", i)
						in, out := name, name+ext
						d := payloads[i]
						if mode == "decompress" {
							in, out = name+ext, name
							d = compressWith(format, payloads[i])
						}
						if i == bad {
							switch {
							case why == "missing":
								d = nil
							case mode == "decompress":
								d = append([]byte{}, d...)
								d[len(d)/2] ^= 0x55
								d = d[:len(d)-3]
							default:
								os.WriteFile(filepath.Join(dir, out), []byte("pre-existing target\n"), 0o644)
							}
						}
						if d != nil {
							os.WriteFile(filepath.Join(dir, in), d, 0o644)
						}
						inNames, outNames, inData = append(inNames, in), append(outNames, out), append(inData, d)
						args = append(args, in)
					}
					cmd := exec.Command(gxz, args...)
					cmd.Dir = dir
					cmd.Run()
					code := cmd.ProcessState.ExitCode()
					cs := gxzMultiCase{Op: "gxz-multi", Mode: mode, Format: format, Files: inNames, Bad: bad, Why: why}
					r.Count(fmt.Sprint("multi", mode, format, bad, why), true)
					r.Inc("multi_file_runs")
					if code == 0 {
						r.Violate("counterexample", fmt.Sprintf("multi-file exit status 0 although file %d failed (%s %s)", bad, mode, why), cs,
							"a run in which one file could not be processed exited with status 0")
					}
					for i := 0; i < 3; i++ {
						got, gerr := os.ReadFile(filepath.Join(dir, inNames[i]))
						out, oerr := os.ReadFile(filepath.Join(dir, outNames[i]))
						if i == bad {
							if inData[i] != nil && (gerr != nil || !bytes.Equal(got, inData[i])) {
								r.Violate("counterexample", fmt.Sprintf("multi-file failing input not left untouched (%s)", mode), cs, "the file that could not be processed was removed or changed")
							}
							continue
						}
						okOut := false
						if oerr == nil {
							if mode == "compress" {
								dec, ok := decodes(format, out)
								okOut = ok && bytes.Equal(dec, payloads[i])
							} else {
								okOut = bytes.Equal(out, payloads[i])
							}
						}
						if !okOut || gerr == nil {
							r.Violate("counterexample", fmt.Sprintf("multi-file healthy file %d not processed (%s, failing file %d)", i, mode, bad), cs,
								"a file next to a failing one was not converted completely (output missing/wrong or input still present)")
						}
					}
					if ents, err := os.ReadDir(dir); err == nil {
						for _, e := range ents {
							if strings.HasSuffix(e.Name(), ".compress") || strings.HasSuffix(e.Name(), ".decompress") {
								r.Violate("counterexample", "multi-file temporary file left", cs, "temporary file "+e.Name()+" left behind")
							}
						}
					}
					os.RemoveAll(dir)
				}
			}
		}
	}
}

// stdoutFailureRuns: -c / filter mode with a standard output that refuses every byte (/dev/full): the run must exit
// non-zero whatever the size of the output (small outputs reach the descriptor only in the final flush), and the input
// must be left untouched.
func stdoutFailureRuns(r *Result, gxz string) {
	full, err := os.OpenFile("/dev/full", os.O_WRONLY, 0)
	if err != nil {
		return
	}
	full.Close()
	for _, mode := range []string{"compress", "decompress"} {
		for _, format := range []string{"xz", "lzma"} {
			for _, size := range []int{0, 10, 3000, 200000} {
				for _, stdin := range []bool{false, true} {
					dir, err := os.MkdirTemp("", "gxzfull")
					if err != nil {
						return
					}
					payload := genText(rand.New(rand.NewSource(int64(size))), size)
					in := payload
					name := "f.dat"
					args := []string{"-c", "-F", format}
					if mode == "decompress" {
						in = compressWith(format, payload)
						name = "f.dat." + format
						args = append(args, "-d")
					}
					os.WriteFile(filepath.Join(dir, name), in, 0o644)
					cmd := exec.Command(gxz)
					if stdin {
						f, _ := os.Open(filepath.Join(dir, name))
						cmd.Stdin = f
						cmd.Args = append([]string{gxz}, args[1:]...) // filter mode: no -c needed
						defer f.Close()
					} else {
						cmd.Args = append(append([]string{gxz}, args...), name)
					}
					out, _ := os.OpenFile("/dev/full", os.O_WRONLY, 0)
					cmd.Stdout = out
					cmd.Dir = dir
					cmd.Run()
					out.Close()
					code := cmd.ProcessState.ExitCode()
					cs := gxzMultiCase{Op: "gxz-stdout-full", Mode: mode, Format: format, Files: []string{name}, Why: fmt.Sprintf("stdout=/dev/full size=%d stdin=%v", size, stdin)}
					r.Count(fmt.Sprint("full", mode, format, size, stdin), true)
					r.Inc("stdout_failure_runs")
					// an empty compressed/decompressed output still has bytes to write when compressing; decompressing
					// an empty payload writes nothing, so success is legitimate there
					wantFail := !(mode == "decompress" && size == 0)
					if wantFail && code == 0 {
						r.Violate("counterexample", fmt.Sprintf("stdout-write-failure exit status 0 (%s %s size=%d stdin=%v)", mode, format, size, stdin), cs,
							"every write to standard output failed (ENOSPC) but gxz exited with status 0")
					}
					if got, err := os.ReadFile(filepath.Join(dir, name)); err != nil || !bytes.Equal(got, in) {
						r.Violate("counterexample", "stdout-write-failure input not left untouched", cs, "the input file was removed or changed although the output could not be written")
					}
					os.RemoveAll(dir)
				}
			}
		}
	}
}

func init() { checks["C10"] = checkC10 }
