package main

import (
	"bytes"
	"errors"
	"fmt"
	"io"
	"math/rand"
	"strings"
	"sync"
	"time"

	"github.com/ulikunitz/xz"
	"github.com/ulikunitz/xz/lzma"
)

var errSink = errors.New("verif: injected sink failure")
var errSource = errors.New("verif: injected source failure")

// faultSink fails at the k-th Write call. mode: 0 fail once, 1 fail forever,
// 2 partial write then fail once, 3 partial write and fail forever.
type faultSink struct {
	buf       bytes.Buffer
	k, mode   int
	calls     int
	triggered bool
	curCall   int // index of the writer call in progress (set by the harness)
	trigCall  int // writer call during which the fault first struck
}

func (s *faultSink) Write(p []byte) (int, error) {
	s.calls++
	fail := s.calls == s.k || (s.calls > s.k && (s.mode == 1 || s.mode == 3) && s.k > 0)
	if !fail || s.k <= 0 {
		return s.buf.Write(p)
	}
	if !s.triggered {
		s.trigCall = s.curCall
	}
	s.triggered = true
	if s.mode >= 2 && len(p) > 1 {
		n := len(p) / 2
		s.buf.Write(p[:n])
		return n, errSink
	}
	return 0, errSink
}

// byteFaultSink is the same sink seen through io.ByteWriter as well: the classic LZMA writer then hands it to the
// range encoder directly (no bufio.Writer in between, whose error would be sticky), so that every encoder path sees
// the failure itself and a fail-once fault is followed by successful writes
type byteFaultSink struct{ *faultSink }

func (s byteFaultSink) WriteByte(c byte) error {
	_, err := s.faultSink.Write([]byte{c})
	return err
}

type sinkCase struct {
	Op     string   `json:"op"`
	Writer string   `json:"writer"` // xz | lzma | lzma2
	Name   string   `json:"name"`
	Cfg    string   `json:"cfg"`
	Hist   []string `json:"history"` // "w<hex>", "f", "c"
	K      int      `json:"fail_at_sink_call"`
	Byte   bool     `json:"sink_is_byte_writer,omitempty"`
	Mode   int      `json:"mode"`
}

type wcloser interface {
	Write(p []byte) (int, error)
	Close() error
}

// runSinkHistory drives one writer over a history against a faulty sink.
func runSinkHistory(writer string, mk func(w io.Writer) (wcloser, error), hist []string, s *faultSink, byteSink bool) (calls []callRes, newErr error, panicked string) {
	calls = make([]callRes, 0, len(hist))
	defer func() {
		if p := recover(); p != nil {
			panicked = fmt.Sprint(p)
		}
	}()
	var sink io.Writer = s
	if byteSink {
		sink = byteFaultSink{s}
	}
	w, err := mk(sink)
	if err != nil {
		return nil, err, ""
	}
	for _, h := range hist {
		s.curCall = len(calls)
		switch h[0] {
		case 'w':
			p := unhxe(h[1:])
			calls = append(calls, guard(func() (int, error) { return w.Write(p) }))
		case 'f':
			if f, ok := w.(interface{ Flush() error }); ok {
				calls = append(calls, guard(func() (int, error) { return 0, f.Flush() }))
			}
		case 'c':
			calls = append(calls, guard(func() (int, error) { return 0, w.Close() }))
		}
	}
	return calls, nil, ""
}

func decodeBy(writer string, s []byte) ([]byte, string) {
	var t *readTrace
	switch writer {
	case "xz":
		t = goXzRead(s, 0, false, 30*time.Second)
	case "lzma2":
		t = goLzma2Read(s, 0, 30*time.Second)
	default:
		t = goLzmaRead(s, 0, 30*time.Second)
	}
	if t.OpenErr {
		return nil, "open:" + t.Err
	}
	return t.Out, t.Err
}

// failingSource returns errSource once k bytes have been delivered.
type failingSource struct {
	data     []byte
	k        int
	together bool // return the last bytes together with the error
	pos      int
}

func (f *failingSource) Read(p []byte) (int, error) {
	if f.pos >= f.k {
		return 0, errSource
	}
	n := len(p)
	if n > f.k-f.pos {
		n = f.k - f.pos
	}
	copy(p, f.data[f.pos:f.pos+n])
	f.pos += n
	if f.pos >= f.k && f.together {
		return n, errSource
	}
	return n, nil
}

// C09: I/O failures are never masked.
func checkC09(a *checkArgs, r *Result) error {
	r.Rule = "writer side: base histories (xz multi-block, LZMA2 with Flush, classic LZMA on plain and ByteWriter sinks) x every index k of the sink's Write calls x {fail once, fail forever, partial write + fail once, partial + forever} (ByteWriter sinks: one call per stream byte, every k up to 400 and about 2000 sampled later ones, fail once / forever); oracle: no panic (also in the calls issued after the failure, incl. Close), some call returns non-nil when the fault was reached, all-nil only with a complete decodable stream. Reader side: valid streams x every source offset k x {error alone, error together with data}; oracle: open or a Read returns the injected error (errors.Is), never a clean end. Exhaustive per base case. Model ties: the Lean models of the LZMA2 writer and of the xz writer on a failing sink (Model/Writer2F.lean, Model/XzWF.lean) are run on the same histories and fault plans as the real writers (every / sampled sink call index x 4 fault kinds, all calls issued also after the failure): per-call count, error class, sink length, final sink bytes and number of sink calls must be equal. The classic writer on a failing sink (Model/Writer1F.lean: plain sink behind bufio's 4096-byte buffer, io.ByteWriter sink reached byte by byte) is tied in the same way up to and including the call in which the first fault strikes (which call fails, its count, what the sink holds, the number of sink calls; with a plain sink every later Close must fail and the sink must not be called again). Non-trivial: the fault was reached; distinct by (case, k, mode)."
	r.Exhaustive = true
	rng := rand.New(rand.NewSource(a.seed))
	nbase := 30
	if a.tier == "thorough" {
		nbase = 120
	}
	type base struct {
		writer, name, cfg string
		mk                func(w io.Writer) (wcloser, error)
		hist              []string
		data              []byte
		byteSink          bool
	}
	var bases []base
	for i := 0; i < nbase; i++ {
		var hist []string
		var data []byte
		nw := 1 + rng.Intn(3)
		for j := 0; j < nw; j++ {
			_, d := pickData(rng, 2500)
			if i%4 == 0 && j == 0 {
				d = genRandom(rng, 70000) // incompressible: raw chunk path (CopyN)
			}
			hist = append(hist, "w"+hxe(d))
			data = append(data, d...)
			if rng.Intn(3) == 0 {
				hist = append(hist, "f")
			}
		}
		hist = append(hist, "c")
		if rng.Intn(2) == 0 {
			hist = append(hist, "c")
		}
		switch i % 3 {
		case 0:
			c := pickXzCfg(rng, i)
			c.Matcher = 0
			if c.BlockSize > 0 && c.BlockSize < 100 {
				c.BlockSize = 100 + int64(rng.Intn(300))
			}
			if i%4 == 0 {
				// ring a little larger than a chunk and more data than the ring holds: the raw-chunk
				// copy out of the encoder dictionary wraps around the ring's end (two sink writes)
				c.DictCap, c.BufSize, c.BlockSize = 65536, 4096, 0
				big := genRandom(rng, 200000)
				hist = append([]string{"w" + hxe(big)}, hist...)
				data = append(big, data...)
			}
			if i%4 == 2 || i == 3 {
				// one Write that crosses block boundaries, blocks larger than the encoder ring:
				// chunks are flushed to the sink inside that Write
				c.DictCap, c.BufSize, c.BlockSize = 4096, 4096, 120000
				big := genRandom(rng, 300000)
				hist = append([]string{"w" + hxe(big)}, hist...)
				data = append(big, data...)
			}
			cfg := c.config()
			bases = append(bases, base{"xz", fmt.Sprintf("xz/%d", i), c.String(), func(w io.Writer) (wcloser, error) { return cfg.NewWriter(w) }, hist, data, false})
		case 1:
			t := lclppb[rng.Intn(len(lclppb))]
			cfg := lzma.Writer2Config{Properties: &lzma.Properties{LC: t[0], LP: t[1], PB: t[2]}, DictCap: []int{4096, 65536}[rng.Intn(2)], BufSize: 4096}
			if i%4 == 1 {
				cfg.DictCap = 65536
				big := genRandom(rng, 180000)
				hist = append([]string{"w" + hxe(big)}, hist...)
				data = append(big, data...)
			}
			bases = append(bases, base{"lzma2", fmt.Sprintf("lzma2/%d", i), fmt.Sprintf("%+v dict%d", *cfg.Properties, cfg.DictCap), func(w io.Writer) (wcloser, error) { return cfg.NewWriter2(w) }, hist, data, false})
		default:
			cfg := lzma.WriterConfig{DictCap: 4096, EOSMarker: true}
			if rng.Intn(2) == 0 {
				cfg.SizeInHeader, cfg.Size, cfg.EOSMarker = true, int64(len(data)), rng.Intn(2) == 0
			}
			// every other classic case writes to a sink that is an io.ByteWriter itself
			bs := (i/3)%2 == 0
			bases = append(bases, base{"lzma", fmt.Sprintf("lzma/%d", i), fmt.Sprintf("sizeInHeader=%v marker=%v bytesink=%v", cfg.SizeInHeader, cfg.EOSMarker, bs), func(w io.Writer) (wcloser, error) { return cfg.NewWriter(w) }, hist, data, bs})
		}
	}
	{
		// corpus F18: a transient failure in the header of an uncompressed chunk, then more calls up to Close
		rd := genRandom(rand.New(rand.NewSource(18)), 180000)
		d2, d3 := genText(rand.New(rand.NewSource(19)), 63), genText(rand.New(rand.NewSource(20)), 2500)
		cfg := lzma.Writer2Config{Properties: &lzma.Properties{LC: 0, LP: 2, PB: 4}, DictCap: 65536, BufSize: 4096}
		bases = append(bases, base{"lzma2", "corpus/F18", "lc0 lp2 pb4 dict65536", func(w io.Writer) (wcloser, error) { return cfg.NewWriter2(w) },
			[]string{"w" + hxe(rd), "w" + hxe(d2), "f", "w" + hxe(d3), "c"}, append(append(append([]byte{}, rd...), d2...), d3...), false})
	}
	{
		// a chunk that ends because it holds exactly 2 MiB of uncompressed data (the Write loop itself flushes it),
		// then more calls: the sink failing while THAT chunk is written leaves written() at the limit
		z := make([]byte, 1<<21)
		cfg := lzma.Writer2Config{DictCap: 65536, BufSize: 4096}
		bases = append(bases, base{"lzma2", "full-chunk/2MiB", "lc3 lp0 pb2 dict65536", func(w io.Writer) (wcloser, error) { return cfg.NewWriter2(w) },
			[]string{"w" + hxe(z[:1000]), "w" + hxe(z[1000:]), "w" + hxe([]byte("tail")), "f", "w" + hxe([]byte("x")), "c"}, append(append(append([]byte{}, z...), []byte("tail")...), 'x'), false})
	}
	type job struct {
		b    base
		k, m int
	}
	var jobs []job
	for _, b := range bases {
		s := &faultSink{}
		_, nerr, pan := runSinkHistory(b.writer, b.mk, b.hist, s, b.byteSink)
		if nerr != nil || pan != "" {
			r.Violate("counterexample", "fault-free run fails "+b.writer, sinkCase{Op: "sink-fault", Writer: b.writer, Name: b.name, Cfg: b.cfg, Hist: b.hist}, fmt.Sprint(nerr, pan))
			continue
		}
		total := s.calls
		r.Add("sink_calls_"+b.writer, total)
		if b.byteSink {
			// one sink call per stream byte: every k up to 400 (header, first operations) and a sample of
			// the later ones; a one-byte write has no partial form (modes 0 and 1 only)
			r.Add("sink_calls_bytesink", total)
			step := 1
			if total > 2400 {
				step = total / 2000
			}
			for k := 1; k <= total; k++ {
				if k > 400 && step > 1 && (k+i0(b.name))%step != 0 {
					continue
				}
				jobs = append(jobs, job{b, k, 0}, job{b, k, 1})
			}
			continue
		}
		for k := 1; k <= total; k++ {
			for m := 0; m < 4; m++ {
				jobs = append(jobs, job{b, k, m})
			}
		}
	}
	var wg sync.WaitGroup
	sem := make(chan struct{}, 16)
	for _, j := range jobs {
		wg.Add(1)
		sem <- struct{}{}
		go func(j job) {
			defer wg.Done()
			defer func() { <-sem }()
			s := &faultSink{k: j.k, mode: j.m}
			cs := sinkCase{Op: "sink-fault", Writer: j.b.writer, Name: j.b.name, Cfg: j.b.cfg, Hist: j.b.hist, K: j.k, Mode: j.m, Byte: j.b.byteSink}
			calls, nerr, pan := runSinkHistory(j.b.writer, j.b.mk, j.b.hist, s, j.b.byteSink)
			if j.b.byteSink {
				r.Inc("writer_lzma_bytesink")
			}
			r.Count(fmt.Sprint(j.b.name, j.k, j.m), s.triggered)
			r.Inc("writer_" + j.b.writer)
			if pan != "" {
				r.Violate("counterexample", fmt.Sprintf("panic writer=%s: %s", j.b.writer, truncate(pan, 60)), cs, "a call panicked after the sink failure: "+pan)
				return
			}
			anyErr := nerr != nil
			// the failure must surface in the call during which the sink failed or in a later one, up
			// to and including the next Close; a redundant Close after a successful one fails with
			// errClosed whatever happened before and does not count
			kinds := []byte{}
			for _, h := range j.b.hist {
				if h[0] == 'f' && j.b.writer != "lzma2" {
					continue // classic and xz writers have no Flush: the entry produced no call
				}
				kinds = append(kinds, h[0])
			}
			from, upto := 0, len(calls)
			if s.triggered && nerr == nil {
				from = s.trigCall
				for ci := from; ci < len(kinds) && ci < len(calls); ci++ {
					if kinds[ci] == 'c' {
						upto = ci + 1
						break
					}
				}
			}
			for ci, c := range calls {
				if ci < from || ci >= upto {
					if c.Err == "Panic" {
						r.Violate("counterexample", fmt.Sprintf("panic writer=%s: %s", j.b.writer, truncate(c.Panic, 60)), cs, "a call panicked: "+c.Panic)
						return
					}
					continue
				}
				if c.Err == "Panic" {
					r.Violate("counterexample", fmt.Sprintf("panic writer=%s: %s", j.b.writer, truncate(c.Panic, 60)), cs, "a call panicked after the sink failure: "+c.Panic)
					return
				}
				if c.Err != "nil" {
					anyErr = true
					// the contract speaks about calls up to and including the first error; later calls only must not panic
					for _, c2 := range calls[ci+1:] {
						if c2.Err == "Panic" {
							r.Violate("counterexample", fmt.Sprintf("panic writer=%s: %s", j.b.writer, truncate(c2.Panic, 60)), cs, "a call issued after the reported sink failure panicked: "+c2.Panic)
							return
						}
					}
					break
				}
			}
			if s.triggered && !anyErr {
				r.Violate("counterexample", fmt.Sprintf("masked-sink-failure writer=%s mode=%d", j.b.writer, j.m), cs,
					fmt.Sprintf("the sink failed at its call %d but every Write/Flush/Close returned nil", j.k))
				return
			}
			if !anyErr {
				out, st := decodeBy(j.b.writer, s.buf.Bytes())
				if st != "EOF" || !bytes.Equal(out, j.b.data) {
					r.Violate("counterexample", "success-without-valid-stream writer="+j.b.writer, cs, "all calls returned nil but the sink does not hold a complete valid stream: "+st)
				}
			}
			if j.k%7 == 0 && j.m == 2 {
				r.Sample(map[string]interface{}{"case": j.b.name, "cfg": j.b.cfg, "fail_at": j.k, "mode": j.m, "calls": calls})
			}
		}(j)
	}
	wg.Wait()
	// the Lean model of Writer2 on a failing sink (Model/Writer2F.lean) against the real writer
	dp, err := newDriverPool(a.driver, 16)
	if err != nil {
		return err
	}
	nfc := 40
	if a.tier == "thorough" {
		nfc = 120
	}
	w2fTie(r, dp, rand.New(rand.NewSource(a.seed+77)), nfc)
	xzwfTie(r, dp, rand.New(rand.NewSource(a.seed+78)), nfc/2)
	w1fTie(r, dp, rand.New(rand.NewSource(a.seed+79)), nfc/2)
	dp.Close()
	// reader side
	streams := libraryStreams(rng, nbase*2, 900)
	streams = append(streams, corpusStreams(700)...)
	type rjob struct {
		b        baseStream
		k        int
		together bool
	}
	var rjobs []rjob
	for _, b := range streams {
		for k := 0; k < len(b.Stream); k++ {
			rjobs = append(rjobs, rjob{b, k, k%2 == 1})
		}
	}
	// multi-stream files with stream padding: faults inside and right after the padding words, both fault styles
	var xzs []baseStream
	for _, b := range streams {
		if b.Kind == "xz" && len(b.Stream) < 400 {
			xzs = append(xzs, b)
		}
	}
	for i := 0; i+2 < len(xzs) && i < 12; i += 3 {
		var st, content []byte
		name := "chain"
		for j, b := range xzs[i : i+3] {
			st = append(st, b.Stream...)
			content = append(content, b.Content...)
			pad := []int{8, 4, 0, 12}[(i+j)%4]
			if j == 2 {
				pad = []int{0, 4}[i%2]
			}
			st = append(st, make([]byte, pad)...)
			name += fmt.Sprintf("/%d+pad%d", len(b.Stream), pad)
		}
		cb := baseStream{"xz", name, st, content, xzs[i].Check}
		for k := 0; k < len(st); k++ {
			rjobs = append(rjobs, rjob{cb, k, false}, rjob{cb, k, true})
		}
	}
	for _, j := range rjobs {
		wg.Add(1)
		sem <- struct{}{}
		go func(j rjob) {
			defer wg.Done()
			defer func() { <-sem }()
			cs := map[string]interface{}{"op": "source-fault", "kind": j.b.Kind, "name": j.b.Name, "stream_hex": hxe(j.b.Stream), "fail_at_offset": j.k, "error_with_data": j.together}
			var gotErr error
			pan := ""
			func() {
				defer func() {
					if p := recover(); p != nil {
						pan = fmt.Sprint(p)
					}
				}()
				src := &failingSource{data: j.b.Stream, k: j.k, together: j.together}
				rd, err := openReader(j.b.Kind, src)
				if err != nil {
					gotErr = err
					return
				}
				_, gotErr = io.Copy(io.Discard, rd)
				if gotErr == nil {
					gotErr = io.EOF
				}
			}()
			r.Count(fmt.Sprint("src", j.b.Name, j.k, j.together), true)
			r.Inc("reader_" + j.b.Kind)
			if pan != "" {
				r.Violate("counterexample", "panic reader="+j.b.Kind, cs, "reader panicked on a failing source: "+pan)
				return
			}
			if gotErr == io.EOF {
				r.Violate("counterexample", fmt.Sprintf("masked-source-failure reader=%s region=%s", j.b.Kind, region(j.b, j.k)), cs,
					fmt.Sprintf("the source failed at offset %d but the reader reported a clean end of stream", j.k))
				return
			}
			if !errors.Is(gotErr, errSource) {
				r.Violate("counterexample", fmt.Sprintf("source-error-replaced reader=%s region=%s: %s", j.b.Kind, region(j.b, j.k), truncate(strings.Split(gotErr.Error(), ":")[0], 40)), cs,
					fmt.Sprintf("the source failed at offset %d with its own error; the reader returned %q, which does not wrap it", j.k, gotErr.Error()))
			}
		}(j)
	}
	wg.Wait()
	_ = xz.CRC32
	return nil
}

// i0: a small offset derived from the case name, so that sampled fault positions differ between cases
func i0(name string) int {
	n := 0
	for _, c := range name {
		n += int(c)
	}
	return n
}

func init() { checks["C09"] = checkC09 }
