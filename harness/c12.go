package main

import (
	"bytes"
	"fmt"
	"math/rand"
	"sync"
	"time"
)

// C12: concatenated streams with 4-byte-multiple zero padding decode to the concatenation;
// leading padding, misaligned padding and trailing garbage are errors; SingleStream takes one.
func checkC12(a *checkArgs, r *Result) error {
	dp, err := newDriverPool(a.driver, 16)
	if err != nil {
		return err
	}
	defer dp.Close()
	r.Rule = "lists of 0-4 valid streams (library-written, liblzma corpus, Lean spec encoder, empty streams, mixed check types) x padding lengths 0..16 before / between / after x trailing garbage x SingleStream on/off; expected content and verdict computed from the construction; every case also through the Lean model. Non-trivial: >= 2 streams or any padding/garbage; distinct by input bytes and flag."
	rng := rand.New(rand.NewSource(a.seed))
	var pool []baseStream
	for _, b := range libraryStreams(rng, 40, 600) {
		if b.Kind == "xz" {
			pool = append(pool, b)
		}
	}
	for _, b := range corpusStreams(700) {
		if b.Kind == "xz" {
			pool = append(pool, b)
		}
	}
	for i := 0; i < 12; i++ {
		s, c, desc, err := genXzStream(rng, dp, 30)
		if err != nil {
			return err
		}
		pool = append(pool, baseStream{"xz", "spec-gen/" + desc, s, c, 0})
	}
	n := 6000
	if a.tier == "thorough" {
		n = 30000
	}
	type job struct {
		c       rdCase
		in      []byte
		want    []byte
		wantOK  bool
		why     string
		nontriv bool
	}
	var jobs []job
	for i := 0; i < n; i++ {
		k := rng.Intn(5)
		if i%7 == 0 {
			k = 2
		}
		single := rng.Intn(4) == 0
		var in, want []byte
		ok := true
		why := "valid chain"
		lead := 0
		if rng.Intn(8) == 0 {
			lead = 1 + rng.Intn(16)
		}
		in = append(in, make([]byte, lead)...)
		if lead > 0 {
			ok, why = false, "padding before the first stream"
		}
		if k == 0 {
			ok, why = false, "no stream"
		}
		var names []string
		firstEnd := -1
		var firstContent []byte
		for j := 0; j < k; j++ {
			b := pool[rng.Intn(len(pool))]
			names = append(names, truncate(b.Name, 30))
			in = append(in, b.Stream...)
			if ok {
				want = append(want, b.Content...)
			}
			if j == 0 {
				firstEnd = len(in)
				firstContent = b.Content
			}
			pad := []int{0, 0, 4, 8, 12, 16, 1, 2, 3, 5, 6, 7, 9, 13}[rng.Intn(14)]
			if rng.Intn(2) == 0 {
				pad = []int{0, 4, 8}[rng.Intn(3)]
			}
			in = append(in, make([]byte, pad)...)
			if pad%4 != 0 && ok {
				ok, why = false, fmt.Sprintf("padding of %d bytes after stream %d", pad, j)
			}
		}
		if k > 0 && rng.Intn(6) == 0 {
			g := make([]byte, 1+rng.Intn(13))
			if rng.Intn(2) == 0 {
				g = make([]byte, 4)
			}
			rng.Read(g)
			g[rng.Intn(len(g))] |= 1
			in = append(in, g...)
			if ok {
				ok, why = false, fmt.Sprintf("%d trailing non-zero bytes", len(g))
			}
		}
		if single && lead == 0 && k > 0 {
			want = firstContent
			if len(in) == firstEnd {
				ok, why = true, "single stream, nothing follows"
			} else {
				ok, why = false, "SingleStream and bytes follow the first stream"
			}
		}
		c := rdCase{Op: "read-chain", Kind: "xz", Name: fmt.Sprintf("lead=%d streams=%v single=%v (%s)", lead, names, single, why), Stream: hxe(in), Single: single}
		jobs = append(jobs, job{c, in, want, ok, why, k >= 2 || len(in) != firstEnd})
	}
	// SingleStream with exactly ONE byte after the stream (zero and non-zero)
	for i, b := range pool {
		if i >= 4 || b.Kind != "xz" {
			continue
		}
		for _, tb := range []byte{0, 0x5a} {
			in := append(append([]byte{}, b.Stream...), tb)
			c := rdCase{Op: "read-chain", Kind: "xz", Name: fmt.Sprintf("single stream + one trailing byte %#x", tb), Stream: hxe(in), Single: true}
			jobs = append(jobs, job{c, in, b.Content, false, "SingleStream and one byte follows the stream", true})
		}
	}
	var wg sync.WaitGroup
	sem := make(chan struct{}, 16)
	for _, j := range jobs {
		wg.Add(1)
		sem <- struct{}{}
		go func(j job) {
			defer wg.Done()
			defer func() { <-sem }()
			g := goRead(j.c, j.in, 30*time.Second)
			r.Count(j.c.Stream+fmt.Sprint(j.c.Single), j.nontriv)
			r.Inc("expect_ok_" + fmt.Sprint(j.wantOK))
			clean := g.Err == "EOF" && !g.OpenErr
			if g.Err == "Panic" || g.TimedOut {
				r.Violate("counterexample", "panic-or-timeout", j.c, g.Panic)
				return
			}
			if j.wantOK && (!clean || !bytes.Equal(g.Out, j.want)) {
				r.Violate("counterexample", "valid-chain-rejected-or-misread single="+fmt.Sprint(j.c.Single), j.c,
					fmt.Sprintf("expected %d bytes and a clean end; got %d bytes, %s %s", len(j.want), len(g.Out), g.Err, g.Msg))
			}
			if !j.wantOK && clean {
				r.Violate("counterexample", "invalid-chain-accepted: "+j.why, j.c, "expected an error ("+j.why+") but the reader reported a clean end of stream")
			}
			if !j.wantOK && j.c.Single && !g.OpenErr && !bytes.Equal(g.Out, j.want) && len(j.want) > 0 {
				r.Violate("counterexample", "single-stream-content", j.c, "SingleStream did not yield exactly the first stream's content before the error")
			}
			// the verdict must not depend on how the source hands out its bytes (one at a time, short reads, the
			// last bytes together with io.EOF)
			for _, mode := range []int{3, 4, 1} {
				if mode == 1 && len(j.in) > 20000 {
					continue
				}
				src := &fragReader{data: append([]byte{}, j.in...), mode: mode, rng: rand.New(rand.NewSource(int64(len(j.in))))}
				t := goXzReadSrc(src, j.c.DictCap, j.c.Single, 30*time.Second)
				r.Inc(fmt.Sprintf("fragmented_source_mode%d", mode))
				tclean := t.Err == "EOF" && !t.OpenErr
				if tclean != clean || (clean && !bytes.Equal(t.Out, g.Out)) || t.Err == "Panic" {
					fc := j.c
					fc.Name += fmt.Sprintf(" [source fragmentation %d]", mode)
					r.Violate("counterexample", fmt.Sprintf("verdict-depends-on-source-fragmentation single=%v mode=%d", j.c.Single, mode), fc,
						fmt.Sprintf("whole source: %s %s (%d bytes); fragmented source (mode %d: 1 byte-wise, 3 data with EOF, 4 short reads + data with EOF): %s %s (%d bytes)", g.Err, g.Msg, len(g.Out), mode, t.Err, t.Msg, len(t.Out)))
					break
				}
			}
			m, err := modelRead_(dp, j.c, j.in, false)
			if err != nil {
				r.Violate("broken-correspondence", "driver", j.c, err.Error())
				return
			}
			r.mu.Lock()
			r.TracesVsImpl++
			r.mu.Unlock()
			if ok, why := agree(g, m); !ok {
				r.Violate("broken-correspondence", "reader-vs-model "+truncate(why, 40), j.c, "real reader and Lean model disagree: "+why)
			}
			r.Sample(map[string]interface{}{"case": j.c.Name, "go": g.Err + " " + g.Msg, "bytes": len(g.Out)})
		}(j)
	}
	wg.Wait()
	r.Extra["driver_requests"] = dp.Requests()
	return nil
}

func init() { checks["C12"] = checkC12 }
