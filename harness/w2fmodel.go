package main

import (
	"fmt"
	"math/rand"
	"strings"
	"sync"

	"github.com/ulikunitz/xz/lzma"
)

// Functional correspondence of the Lean model of Writer2 on a FAILING sink (Model/Writer2F.lean: the sink calls of
// writeUncompressedChunk / CopyN / writeCompressedChunk / Close, the stored error, what later calls return) with the
// real Writer2: the same call history is run on the real writer over a fault-injecting io.Writer and through the
// driver (`w2frun`, which computes the match finder's proposals itself); per call the count, the error class and the
// sink length, at the end the sink bytes and the number of sink calls must be equal — for every index k of the sink
// calls and the four fault kinds, ALL calls of the history being issued also after the failure.

type w2fCase struct {
	Op      string   `json:"op"`
	LC      int      `json:"lc"`
	LP      int      `json:"lp"`
	PB      int      `json:"pb"`
	DictCap int      `json:"dict_cap"`
	BufSize int      `json:"buf_size"`
	Matcher int      `json:"matcher"`
	Calls   []string `json:"calls"` // W<hex>, F, C
	K       int      `json:"fail_at_sink_call"`
	Mode    int      `json:"mode"`
}

func w2fErrName(res callRes) string {
	switch {
	case res.Err == "nil":
		return "ok"
	case res.Err == "Panic":
		return "panic"
	case res.Msg == errSink.Error():
		return "sink"
	case res.Msg == "lzma: writer closed":
		return "closed"
	case res.Msg == lzma.ErrLimit.Error():
		return "limit"
	}
	return "other"
}

// goW2F runs the history on the real writer over a fault sink; every call is issued.
func goW2F(cs w2fCase) (calls []string, sink []byte, ncalls int) {
	s := &faultSink{k: cs.K, mode: cs.Mode}
	cfg := lzma.Writer2Config{Properties: &lzma.Properties{LC: cs.LC, LP: cs.LP, PB: cs.PB}, DictCap: cs.DictCap, BufSize: cs.BufSize,
		Matcher: []lzma.MatchAlgorithm{lzma.HashTable4, lzma.BinaryTree}[cs.Matcher]}
	w, err := cfg.NewWriter2(s)
	if err != nil {
		return nil, nil, 0
	}
	for _, c := range cs.Calls {
		var res callRes
		switch c[0] {
		case 'W':
			p := unhxe(c[1:])
			res = guard(func() (int, error) { return w.Write(p) })
		case 'F':
			res = guard(func() (int, error) { return 0, w.Flush() })
		default:
			res = guard(func() (int, error) { return 0, w.Close() })
		}
		pn := 0
		name := w2fErrName(res)
		if name == "panic" {
			pn, name = 1, "ok"
		}
		calls = append(calls, fmt.Sprintf("%d:%s:%d@%d", res.N, name, pn, s.buf.Len()))
		if pn == 1 {
			break // the state of a writer that panicked is not modelled
		}
	}
	return calls, s.buf.Bytes(), s.calls
}

func w2fTie(r *Result, dp *DriverPool, rng *rand.Rand, ncases int) {
	type job struct{ cs w2fCase }
	var jobs []job
	for i := 0; i < ncases; i++ {
		t := lclppb[rng.Intn(len(lclppb))]
		cs := w2fCase{Op: "w2f", LC: t[0], LP: t[1], PB: t[2], DictCap: []int{4096, 4097, 5000, 8192}[rng.Intn(4)],
			BufSize: []int{273, 300, 1000, 4096}[rng.Intn(4)], Matcher: i % 2}
		budget := 24000
		if cs.Matcher == 1 {
			budget = 9000
		}
		nw := 1 + rng.Intn(4)
		for j := 0; j < nw && budget > 0; j++ {
			var d []byte
			switch rng.Intn(4) {
			case 0: // incompressible and longer than the ring: raw chunks whose copy wraps around the ring's end
				d = genRandom(rng, 1+rng.Intn(budget))
			case 1:
				d = genRandom(rng, rng.Intn(200))
			default:
				_, d = pickData(rng, budget/2)
			}
			budget -= len(d)
			cs.Calls = append(cs.Calls, "W"+hxe(d))
			if rng.Intn(3) == 0 {
				cs.Calls = append(cs.Calls, "F")
			}
		}
		cs.Calls = append(cs.Calls, "C")
		if rng.Intn(2) == 0 {
			cs.Calls = append(cs.Calls, "C")
		}
		_, _, total := goW2F(cs) // fault-free: number of sink calls
		r.Add("w2f_sink_calls", total)
		for k := 0; k <= total; k++ {
			for m := 0; m < 4; m++ {
				if k == 0 && m > 0 {
					continue
				}
				c := cs
				c.K, c.Mode = k, m
				jobs = append(jobs, job{c})
			}
		}
	}
	var wg sync.WaitGroup
	sem := make(chan struct{}, 16)
	for _, j := range jobs {
		wg.Add(1)
		sem <- struct{}{}
		go func(cs w2fCase) {
			defer wg.Done()
			defer func() { <-sem }()
			goCalls, sink, ncalls := goW2F(cs)
			rep, err := dp.Ask(fmt.Sprintf("w2frun %d %d %d %d %d %d %s", cs.Matcher, (cs.PB*5+cs.LP)*9+cs.LC, cs.DictCap, cs.BufSize, cs.K, cs.Mode, strings.Join(cs.Calls, " ")))
			if err != nil {
				r.Violate("broken-correspondence", "driver", cs, err.Error())
				return
			}
			parts := strings.Split(rep, " | ")
			if len(parts) < 3 {
				r.Violate("broken-correspondence", "writer2-fault-model: bad driver reply", cs, truncate(rep, 200))
				return
			}
			r.mu.Lock()
			r.TracesVsImpl++
			r.mu.Unlock()
			r.Inc("writer2_fault_model_runs")
			r.Inc(fmt.Sprintf("writer2_fault_model_mode%d", cs.Mode))
			mCalls := strings.Fields(parts[0])
			for i := range goCalls {
				if i >= len(mCalls) || mCalls[i] != goCalls[i] {
					got := "<none>"
					if i < len(mCalls) {
						got = mCalls[i]
					}
					kind := "broken-correspondence"
					if strings.Contains(goCalls[i], ":1@") {
						kind = "counterexample" // the real writer panicked
					}
					r.Violate(kind, fmt.Sprintf("writer2-fault-model call result mode=%d", cs.Mode), cs,
						fmt.Sprintf("call %d (%s): real Writer2 on the failing sink returned n:err:panic@sinkLen = %s, the Lean model (Model/Writer2F.lean) says %s", i, cs.Calls[i][:1], goCalls[i], got))
					return
				}
			}
			if len(goCalls) == len(cs.Calls) {
				if parts[1] != hxe(sink) {
					r.Violate("broken-correspondence", fmt.Sprintf("writer2-fault-model sink bytes mode=%d", cs.Mode), cs,
						fmt.Sprintf("the sink holds %d bytes, the model predicts %d", len(sink), len(unhxe(parts[1]))))
					return
				}
				if strings.TrimSpace(parts[2]) != fmt.Sprintf("calls=%d", ncalls) {
					r.Violate("broken-correspondence", fmt.Sprintf("writer2-fault-model sink calls mode=%d", cs.Mode), cs,
						fmt.Sprintf("the real writer issued %d sink calls, the model %s", ncalls, parts[2]))
				}
			}
		}(j.cs)
	}
	wg.Wait()
}

// ---- the xz writer on a failing sink (Model/XzWF.lean) ----

type xzwfCase struct {
	Op    string   `json:"op"`
	Cfg   xzCfg    `json:"cfg"`
	Calls []string `json:"calls"` // W<hex>, C
	K     int      `json:"fail_at_sink_call"`
	Mode  int      `json:"mode"`
}

func xzwfErrName(res callRes) string {
	switch {
	case res.Err == "nil":
		return "ok"
	case res.Err == "Panic":
		return "panic"
	case res.Msg == errSink.Error():
		return "sink"
	case res.Msg == "xz: writer already closed" || res.Msg == "lzma: writer closed":
		return "closed"
	case res.Msg == lzma.ErrLimit.Error():
		return "limit"
	}
	return "other"
}

func goXzWF(cs xzwfCase) (calls []string, sink []byte, ncalls int, newErr string) {
	s := &faultSink{k: cs.K, mode: cs.Mode}
	var w wcloser
	var err error
	if pn := func() (p string) {
		defer func() {
			if x := recover(); x != nil {
				p = fmt.Sprint(x)
			}
		}()
		w, err = cs.Cfg.config().NewWriter(s)
		return ""
	}(); pn != "" {
		return nil, s.buf.Bytes(), s.calls, "panic"
	}
	if err != nil {
		if err.Error() == errSink.Error() {
			return nil, s.buf.Bytes(), s.calls, "sink"
		}
		return nil, s.buf.Bytes(), s.calls, "other"
	}
	for _, c := range cs.Calls {
		var res callRes
		if c[0] == 'W' {
			p := unhxe(c[1:])
			res = guard(func() (int, error) { return w.Write(p) })
		} else {
			res = guard(func() (int, error) { return 0, w.Close() })
		}
		pn := 0
		name := xzwfErrName(res)
		if name == "panic" {
			pn, name = 1, "ok"
		}
		calls = append(calls, fmt.Sprintf("%d:%s:%d@%d", res.N, name, pn, s.buf.Len()))
		if pn == 1 {
			break
		}
	}
	return calls, s.buf.Bytes(), s.calls, ""
}

func xzwfTie(r *Result, dp *DriverPool, rng *rand.Rand, ncases int) {
	var jobs []xzwfCase
	for i := 0; i < ncases; i++ {
		c := pickXzCfg(rng, i)
		c.Zero = false
		c.Matcher = i % 2
		c.DictCap = []int{4096, 4097, 5000, 8192}[rng.Intn(4)]
		c.BufSize = []int{273, 300, 1000, 4096}[rng.Intn(4)]
		switch rng.Intn(3) {
		case 0:
			c.BlockSize = 0
		case 1:
			c.BlockSize = int64(200 + rng.Intn(3000))
		default:
			c.BlockSize = int64(1 + rng.Intn(6000))
		}
		cs := xzwfCase{Op: "xzwf", Cfg: c}
		budget := 14000
		if c.Matcher == 1 {
			budget = 7000
		}
		if c.BlockSize > 0 && c.BlockSize < 200 {
			budget = int(c.BlockSize) * 30 // few blocks
		}
		nw := 1 + rng.Intn(3)
		for j := 0; j < nw && budget > 0; j++ {
			var d []byte
			if rng.Intn(3) == 0 {
				d = genRandom(rng, 1+rng.Intn(budget))
			} else {
				_, d = pickData(rng, budget/2)
			}
			budget -= len(d)
			cs.Calls = append(cs.Calls, "W"+hxe(d))
		}
		cs.Calls = append(cs.Calls, "C")
		if rng.Intn(2) == 0 {
			cs.Calls = append(cs.Calls, []string{"C", "W" + hxe([]byte("tail"))}[rng.Intn(2)], "C")
		}
		_, _, total, _ := goXzWF(cs)
		r.Add("xzwf_sink_calls", total)
		step := 1
		if total > 60 {
			step = total / 60
		}
		for k := 0; k <= total; k++ {
			if k > 12 && k < total-12 && k%step != 0 {
				continue
			}
			for m := 0; m < 4; m++ {
				if k == 0 && m > 0 {
					continue
				}
				x := cs
				x.K, x.Mode = k, m
				jobs = append(jobs, x)
			}
		}
	}
	var wg sync.WaitGroup
	sem := make(chan struct{}, 16)
	for _, j := range jobs {
		wg.Add(1)
		sem <- struct{}{}
		go func(cs xzwfCase) {
			defer wg.Done()
			defer func() { <-sem }()
			c := cs.Cfg
			goCalls, sink, ncalls, newErr := goXzWF(cs)
			blk := c.BlockSize
			if blk == 0 {
				blk = 1<<63 - 1
			}
			rep, err := dp.Ask(fmt.Sprintf("xzwfrun %d %d %d %d %d %d %d %d %s", c.Matcher, (c.PB*5+c.LP)*9+c.LC, c.DictCap, c.BufSize, blk, checksumOf(c), cs.K, cs.Mode, strings.Join(cs.Calls, " ")))
			if err != nil {
				r.Violate("broken-correspondence", "driver", cs, err.Error())
				return
			}
			r.mu.Lock()
			r.TracesVsImpl++
			r.mu.Unlock()
			r.Inc("xzwriter_fault_model_runs")
			if strings.HasPrefix(rep, "new:") || newErr != "" {
				if rep != "new:"+newErr {
					kind := "broken-correspondence"
					if newErr == "panic" {
						kind = "counterexample"
					}
					r.Violate(kind, "xzwriter-fault-model NewWriter", cs, fmt.Sprintf("NewWriter on the failing sink: go %q, model %q", newErr, truncate(rep, 60)))
				}
				return
			}
			parts := strings.Split(rep, " | ")
			if len(parts) < 3 {
				r.Violate("broken-correspondence", "xzwriter-fault-model: bad driver reply", cs, truncate(rep, 200))
				return
			}
			mCalls := strings.Fields(parts[0])
			for i := range goCalls {
				if i >= len(mCalls) || mCalls[i] != goCalls[i] {
					got := "<none>"
					if i < len(mCalls) {
						got = mCalls[i]
					}
					kind := "broken-correspondence"
					if strings.Contains(goCalls[i], ":1@") {
						kind = "counterexample"
					}
					r.Violate(kind, fmt.Sprintf("xzwriter-fault-model call result mode=%d", cs.Mode), cs,
						fmt.Sprintf("call %d (%s): real xz.Writer on the failing sink returned n:err:panic@sinkLen = %s, the Lean model (Model/XzWF.lean) says %s", i, cs.Calls[i][:1], goCalls[i], got))
					return
				}
			}
			if len(goCalls) == len(cs.Calls) {
				if parts[1] != hxe(sink) {
					r.Violate("broken-correspondence", fmt.Sprintf("xzwriter-fault-model sink bytes mode=%d", cs.Mode), cs,
						fmt.Sprintf("the sink holds %d bytes, the model predicts %d", len(sink), len(unhxe(parts[1]))))
					return
				}
				if strings.TrimSpace(parts[2]) != fmt.Sprintf("calls=%d", ncalls) {
					r.Violate("broken-correspondence", fmt.Sprintf("xzwriter-fault-model sink calls mode=%d", cs.Mode), cs,
						fmt.Sprintf("the real writer issued %d sink calls, the model %s", ncalls, parts[2]))
				}
			}
		}(j)
	}
	wg.Wait()
}
