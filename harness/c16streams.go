package main

import (
	"bytes"
	"fmt"
	"math/rand"
	"strings"
	"time"
)

// c16Streams realises chunk-kind sequences as concrete LZMA2 streams with the Lean spec encoder
// and reads them with the real Reader2: a legal sequence must decode to the generated content, an
// illegal one must be rejected, with exactly the bytes of the chunks before the offending one.
func init() {
	c16Streams = func(a *checkArgs, r *Result, d *Driver) error {
		rng := rand.New(rand.NewSource(a.seed))
		maxLen := 4
		if a.tier == "thorough" {
			maxLen = 5
		}
		kinds := []string{"eos", "ud", "u", "l", "lr", "lrn", "lrnd"}
		seq := []int{}
		var rec func() error
		count := 0
		rec = func() error {
			if len(seq) > 0 {
				// build: each chunk gets a small payload; the generator keeps the content in sync
				g := &opGen{rng: rng, dictSize: 4096}
				var specs []string
				var prefixContent [][]byte // content after chunk i
				needDict, needProps := true, true
				legalUpTo := len(seq)
				ended := false
				for i, k := range seq {
					kn := kinds[k]
					legal := !ended
					if legal {
						switch kn {
						case "eos", "ud", "lrnd":
						case "u":
							legal = !needDict
						case "lrn":
							legal = !needDict
						default: // l, lr
							legal = !needDict && !needProps
						}
					}
					if !legal && legalUpTo == len(seq) {
						legalUpTo = i
					}
					switch kn {
					case "eos":
						specs = append(specs, "eos/-/-")
						ended = true
					case "ud", "u":
						if kn == "ud" {
							g.dictBase = len(g.content)
							needDict, needProps = false, true
						}
						raw := make([]byte, 1+rng.Intn(6))
						rng.Read(raw)
						if rng.Intn(2) == 0 {
							raw[len(raw)-1] |= 0xe0 // literal context of the next chunk depends on this byte
						}
						g.content = append(g.content, raw...)
						specs = append(specs, fmt.Sprintf("%s/-/%s", kn, hx(raw)))
					default:
						props := "-"
						if kn == "lrnd" {
							g.dictBase = len(g.content)
							needDict = false
						}
						if kn == "lrn" || kn == "lrnd" {
							props = "93"
							needProps = false
						}
						if kn != "l" {
							g.resetState()
						}
						var ops []string
						nops := 1 + rng.Intn(4)
						if rng.Intn(2) == 0 {
							nops = 8 + rng.Intn(16) // enough operations for a stale state / dictionary to show
						}
						for j := 0; j < nops; j++ {
							ops = append(ops, g.next())
						}
						specs = append(specs, fmt.Sprintf("%s/%s/%s", kn, props, strings.Join(ops, ".")))
					}
					prefixContent = append(prefixContent, append([]byte{}, g.content...))
				}
				rep, err := d.Ask("lzma2build 4096 " + strings.Join(specs, " "))
				if err != nil {
					return err
				}
				if rep == "bad-op" {
					return fmt.Errorf("lzma2build rejected %v", specs)
				}
				stream := unhxe(rep)
				names := make([]string, len(seq))
				for i, k := range seq {
					names[i] = kinds[k]
				}
				cs := rdCase{Op: "read-chunk-sequence", Kind: "lzma2", Name: strings.Join(names, " "), Stream: hxe(stream), DictCap: 4096}
				g2 := goLzma2Read(stream, 4096, 20*time.Second)
				count++
				r.Count("stream:"+cs.Name, len(seq) >= 2)
				// expected: legal up to the first eos → clean with the content before it; illegal → error
				eosAt := -1
				for i, k := range seq {
					if kinds[k] == "eos" {
						eosAt = i
						break
					}
				}
				switch {
				case eosAt >= 0 && legalUpTo > eosAt:
					var want []byte
					if eosAt > 0 {
						want = prefixContent[eosAt-1]
					}
					if g2.Err != "EOF" || !bytes.Equal(g2.Out, want) {
						r.Violate("counterexample", "legal chunk sequence misread: "+cs.Name, cs,
							fmt.Sprintf("sequence legal up to its end marker: expected %d bytes and a clean end, got %d bytes, %s %s", len(want), len(g2.Out), g2.Err, g2.Msg))
					}
				case legalUpTo < len(seq) && (eosAt < 0 || legalUpTo < eosAt):
					if g2.Err == "EOF" {
						r.Violate("counterexample", "illegal chunk sequence accepted: "+cs.Name, cs, fmt.Sprintf("chunk %d (%s) is not allowed there, but the reader reported a clean end", legalUpTo, names[legalUpTo]))
					}
					var want []byte
					if legalUpTo > 0 {
						want = prefixContent[legalUpTo-1]
					}
					if !bytes.HasPrefix(want, g2.Out) {
						r.Violate("counterexample", "rejected too late: "+cs.Name, cs, "bytes of the offending chunk (or later) were delivered")
					}
				default:
					// legal but without end marker: runs into the end of input
					if g2.Err == "EOF" {
						r.Violate("counterexample", "sequence without end marker accepted: "+cs.Name, cs, "clean end although the stream has no end marker")
					}
				}
				// model agreement
				m, err := d.Ask(fmt.Sprintf("lzma2read 0 4096 %s", hxe(stream)))
				if err != nil {
					return err
				}
				mr, _ := parseModelRead(m)
				if mr != nil {
					if ok, why := agree(g2, mr); !ok {
						r.Violate("broken-correspondence", "reader-vs-model chunk sequence "+cs.Name, cs, why)
					}
				}
			}
			if len(seq) == maxLen {
				return nil
			}
			for k := 0; k < 7; k++ {
				seq = append(seq, k)
				if err := rec(); err != nil {
					return err
				}
				seq = seq[:len(seq)-1]
			}
			return nil
		}
		if err := rec(); err != nil {
			return err
		}
		r.Extra["realised_streams"] = count
		// chunks at the limits of the header's size fields (2 MiB / 2^20+1 uncompressed, 65536 compressed, 65536 raw)
		bs, err := boundarySpecs(rng, d.Ask)
		if err != nil {
			return err
		}
		for _, b := range bs {
			rep, err := d.Ask("lzma2build 2097152 " + strings.Join(b.specs, " ") + " eos/-/-")
			if err != nil {
				return err
			}
			if rep == "bad-op" {
				return fmt.Errorf("lzma2build rejected %s", b.name)
			}
			stream := unhxe(rep)
			g2 := goLzma2Read(stream, 1<<21, 60*time.Second)
			r.Count("stream:"+b.name, true)
			if g2.Err != "EOF" || !bytes.Equal(g2.Out, b.content) {
				cs := rdCase{Op: "read-chunk-sequence", Kind: "lzma2", Name: b.name, Stream: hxe(stream), DictCap: 1 << 21}
				r.Violate("counterexample", "legal chunk sequence misread: "+b.name, cs,
					fmt.Sprintf("chunk at a size-field limit: expected %d bytes and a clean end, got %d bytes, %s %s", len(b.content), len(g2.Out), g2.Err, g2.Msg))
			}
		}
		return nil
	}
}

// c16Writer observes the chunk sequences the real Writer2 emits over generated call histories
// and judges them with the format's rules (Spec.legal through the driver).
func c16Writer(a *checkArgs, r *Result, d *Driver) error {
	rng := rand.New(rand.NewSource(a.seed + 77))
	n := 150
	if a.tier == "thorough" {
		n = 1500
	}
	for i := 0; i < n; i++ {
		c := w2Case{Op: "writer2-history", LC: 3, PB: 2, DictCap: []int{4096, 65536, 1 << 20}[rng.Intn(3)], BufSize: 4096, Matcher: 0}
		c.Hist, c.Name = genHistory(rng, 0, i%10 == 0)
		if i%3 == 0 { // start with chunks that are stored uncompressed, then compressible data
			c.Hist = append([]w2Op{{"write", hxe(genRandom(rng, 64+rng.Intn(3000)))}, {"flush", ""}}, c.Hist...)
			c.Name = "wRand F " + c.Name
		}
		var buf bytes.Buffer
		w, err := c.config().NewWriter2(&buf)
		if err != nil {
			continue
		}
		closed := false
		for _, op := range c.Hist {
			if closed {
				break
			}
			switch op.Kind {
			case "write":
				w.Write(unhxe(op.Data))
			case "flush":
				w.Flush()
			case "close":
				w.Close()
				closed = true
			}
		}
		// walk the chunk headers independently of the library
		var kinds []string
		s := buf.Bytes()
		p := 0
		bad := ""
		for p < len(s) {
			ctl := s[p]
			switch {
			case ctl == 0:
				kinds = append(kinds, "eos")
				p++
			case ctl == 1 || ctl == 2:
				if p+3 > len(s) {
					bad = "truncated raw header"
					p = len(s)
					break
				}
				u := int(s[p+1])<<8 | int(s[p+2]) + 1
				kinds = append(kinds, map[byte]string{1: "ud", 2: "u"}[ctl])
				p += 3 + u
			case ctl >= 0x80:
				k := []string{"l", "lr", "lrn", "lrnd"}[(ctl>>5)&3]
				hl := 5
				if k == "lrn" || k == "lrnd" {
					hl = 6
				}
				if p+hl > len(s) {
					bad = "truncated header"
					p = len(s)
					break
				}
				cs := int(s[p+3])<<8 | int(s[p+4]) + 1
				kinds = append(kinds, k)
				p += hl + cs
			default:
				bad = fmt.Sprintf("invalid control byte %#x at %d", ctl, p)
				p = len(s)
			}
		}
		r.Count("writer:"+c.Name+fmt.Sprint(c.DictCap), len(kinds) >= 2)
		r.Inc("writer_histories")
		if bad != "" || p != len(s) {
			r.Violate("counterexample", "writer-output-not-a-chunk-sequence", c, "the writer's output cannot be walked as LZMA2 chunks: "+bad)
			continue
		}
		rep, err := d.Ask("chunkseq " + strings.Join(kinds, " "))
		if err != nil {
			return err
		}
		f := strings.Fields(rep)
		if len(f) != 4 || f[2] != "true" {
			r.Violate("counterexample", "writer-emits-illegal-chunk-sequence", c, fmt.Sprintf("Writer2 emitted the chunk kinds %v, which the format does not allow (model/spec verdict: %s)", kinds, rep))
		}
	}
	return nil
}
