package main

import (
	"fmt"
	"math/rand"
	"strings"

	"github.com/ulikunitz/xz/lzma"
)

// Correspondence of Model/Select.lean (what hashTable.NextOp / binTree.NextOp propose, given the candidate distances
// their search structures deliver) with the real match finders: the real finder runs over generated data; before each
// NextOp the candidate lists are read off its search structure (verif shim, read-only); the Lean ring-level model,
// driven by the same dictionary writes and discards, must propose the same operation from the same candidates.

func selectTie(r *Result, dp *DriverPool, rng *rand.Rand, n int) error {
	for i := 0; i < n; i++ {
		alg := lzma.MatchAlgorithm(rng.Intn(2))
		dictCap := []int{4096, 4097, 5000, 8192}[rng.Intn(4)]
		bufSize := []int{273, 274, 300, 1000, 4096}[rng.Intn(5)]
		max := 12000
		if alg == lzma.BinaryTree {
			max = 5000
		}
		var data []byte
		switch rng.Intn(5) {
		case 0:
			data = genLowEntropy(rng, rng.Intn(max))
		case 1:
			data = genPeriodic(rng, rng.Intn(max))
		case 2:
			data = genMixed(rng, rng.Intn(max))
		case 3:
			data = genZeroPrefixed(rng, rng.Intn(max))
		default:
			_, data = pickData(rng, max)
		}
		cmds, obs, err := lzma.VerifMatcherTrace(alg, dictCap, bufSize, data)
		cs := map[string]interface{}{"op": "select-trace", "matcher": int(alg), "dict_cap": dictCap, "buf_size": bufSize, "data_hex": hxe(data)}
		if err != nil {
			r.Violate("counterexample", fmt.Sprintf("matcher-panic matcher=%d", alg), cs, "the match finder panicked: "+err.Error())
			continue
		}
		rep, err := dp.Ask(fmt.Sprintf("ring edict %d %d %s", dictCap, bufSize, strings.Join(cmds, " ")))
		if err != nil {
			return err
		}
		m := strings.Fields(rep)
		r.mu.Lock()
		r.TracesVsImpl++
		r.mu.Unlock()
		r.Inc(fmt.Sprintf("select_traces_matcher%d", alg))
		nx := 0
		for j, o := range obs {
			if strings.HasPrefix(cmds[j], "nx") {
				nx++
			}
			if j >= len(m) || m[j] != o {
				got := "<none>"
				if j < len(m) {
					got = m[j]
				}
				r.Violate("broken-correspondence", fmt.Sprintf("select-model matcher=%d %s", alg, strings.SplitN(cmds[j], ":", 2)[0]), cs,
					fmt.Sprintf("command %d (%s): the real match finder / dictionary gives %q, the Lean model gives %q", j, truncate(cmds[j], 80), o, got))
				break
			}
		}
		r.Add("select_proposals", nx)
		// HashTable4: the candidate distances themselves, recomputed by the Lean hash-table model (hash chains,
		// rolling hash) from the bytes discarded so far, at a few sampled proposals
		{
			pos := 0 // bytes discarded so far
			var look []byte
			consumed := 0
			_ = look
			for j, c := range cmds {
				switch {
				case strings.HasPrefix(c, "w:"):
					var k int
					fmt.Sscanf(obs[j], "%d,", &k)
					consumed += k
				case strings.HasPrefix(c, "d:"):
					var k int
					fmt.Sscanf(c, "d:%d", &k)
					pos += k
				case strings.HasPrefix(c, "nxb:") && rng.Intn(60) == 0:
					f := strings.Split(c, ":")
					hi := consumed
					if hi > pos+273 {
						hi = pos + 273
					}
					rep, err := dp.Ask(fmt.Sprintf("btcands %d %s %s", dictCap, hxe(data[:pos]), hxe(data[pos:hi])))
					if err != nil {
						return err
					}
					// the real lists are cut at 40, the check budget is 32: compare as delivered
					want := f[2] + ":" + f[3] + ":" + f[4]
					r.Inc("bintree_candidate_queries")
					if strings.TrimSpace(rep) != want {
						r.Violate("broken-correspondence", "bintree-model candidates", cs,
							fmt.Sprintf("at position %d the real binary tree delivers candidates [%s], the Lean model of the tree [%s]", pos, truncate(want, 200), truncate(strings.TrimSpace(rep), 200)))
						break
					}
				case strings.HasPrefix(c, "nxh:") && rng.Intn(60) == 0:
					f := strings.Split(c, ":")
					hi := consumed
					if hi > pos+273 {
						hi = pos + 273
					}
					rep, err := dp.Ask(fmt.Sprintf("htcands %d %s %s", dictCap, hxe(data[:pos]), hxe(data[pos:hi])))
					if err != nil {
						return err
					}
					want := f[2]
					if want == "-" {
						want = ""
					}
					r.Inc("hashtable_candidate_queries")
					if strings.TrimSpace(rep) != want {
						r.Violate("broken-correspondence", "hashtable-model candidates", cs,
							fmt.Sprintf("at position %d the real hash table delivers candidate distances [%s], the Lean model of the hash table [%s]", pos, want, strings.TrimSpace(rep)))
						break
					}
				}
			}
		}
	}
	return nil
}
