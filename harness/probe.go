package main

import (
	"bytes"
	"fmt"
	"math/rand"
	"time"
)

// probe: ad-hoc smoke test of Lean model against Go (development aid).
func cmdProbe(args []string) int {
	d, err := startDriver(args[0])
	if err != nil {
		fmt.Println(err)
		return 2
	}
	defer d.Close()
	rng := rand.New(rand.NewSource(7))
	for i := 0; i < 40; i++ {
		name, data := pickData(rng, 30000)
		c := xzCfg{LC: 3, LP: 0, PB: 2, DictCap: 1 << 16, BufSize: 4096, CheckSum: []byte{0, 1, 4, 10}[rng.Intn(4)], Matcher: 0}
		if i%3 == 0 {
			c.LC, c.LP, c.PB = rng.Intn(5), 0, rng.Intn(5)
			c.LP = rng.Intn(5 - c.LC)
			c.BlockSize = int64(1 + rng.Intn(20000))
		}
		t0 := time.Now()
		w := goXzWrite(c, data, partition(rng, len(data)), 20*time.Second)
		if e := w.firstErr(); e != "" || w.TimedOut {
			fmt.Println(i, name, c, "WRITE ERR", e, w.TimedOut)
			continue
		}
		t1 := time.Now()
		rep, err := d.Ask(fmt.Sprintf("xzread 1 0 0 %s", hxe(w.Out)))
		if err != nil {
			fmt.Println(err)
			return 2
		}
		m, err := parseModelRead(rep)
		if err != nil {
			fmt.Println(err)
			return 2
		}
		t2 := time.Now()
		re, _ := d.Ask("xzreenc " + hxe(w.Out))
		t3 := time.Now()
		okDec := m.Class == "EOF" && bytes.Equal(m.Out, data)
		okRe := re == hxe(w.Out)
		fmt.Printf("%d %s %s in=%d out=%d dec=%v reenc=%v go=%v lean=%v reenc=%v %s\n", i, name, c, len(data), len(w.Out), okDec, okRe, t1.Sub(t0), t2.Sub(t1), t3.Sub(t2), func() string {
			if !okDec {
				return m.Detail + " " + truncate(m.Info, 300)
			}
			return ""
		}())
	}
	return 0
}

func init() { extraCmds["probe"] = cmdProbe }
