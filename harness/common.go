package main

import (
	"bufio"
	"crypto/sha256"
	"encoding/hex"
	"encoding/json"
	"flag"
	"fmt"
	"io"
	"os"
	"os/exec"
	"sort"
	"strings"
	"sync"
)

// Violation is one failing case found by a check.
type Violation struct {
	Kind      string      `json:"kind"` // counterexample | broken-correspondence
	Signature string      `json:"signature"`
	Case      interface{} `json:"case"`
	Note      string      `json:"note"`
}

// Result is what a harness check hands back to bin/check.
type Result struct {
	mu           sync.Mutex
	Property     string                 `json:"property"`
	Tier         string                 `json:"tier"`
	Seed         int64                  `json:"seed"`
	Evaluations  int                    `json:"evaluations"`
	Nontrivial   int                    `json:"distinct_nontrivial"`
	Rule         string                 `json:"rule"`
	Samples      []interface{}          `json:"samples"`
	Violations   []Violation            `json:"violations"`
	Dist         map[string]int         `json:"distribution"`
	Extra        map[string]interface{} `json:"extra"`
	Exhaustive   bool                   `json:"exhaustive"`
	TracesVsImpl int                    `json:"traces_validated_against_impl"`
	seen         map[string]bool
	perSig       map[string]int
}

func newResult(prop, tier string, seed int64) *Result {
	return &Result{Property: prop, Tier: tier, Seed: seed, Dist: map[string]int{},
		Extra: map[string]interface{}{}, seen: map[string]bool{}}
}

// Count registers one evaluated case; key identifies it (distinctness),
// nontrivial says whether it counts as non-trivial under the check's rule.
func (r *Result) Count(key string, nontrivial bool) {
	r.mu.Lock()
	defer r.mu.Unlock()
	r.Evaluations++
	if nontrivial {
		h := sha256.Sum256([]byte(key))
		k := string(h[:8])
		if !r.seen[k] {
			r.seen[k] = true
			r.Nontrivial++
		}
	}
}

func (r *Result) CountN(n int) {
	r.mu.Lock()
	r.Evaluations += n
	r.mu.Unlock()
}

func (r *Result) Inc(k string) {
	r.mu.Lock()
	r.Dist[k]++
	r.mu.Unlock()
}

func (r *Result) Add(k string, n int) {
	r.mu.Lock()
	r.Dist[k] += n
	r.mu.Unlock()
}

func (r *Result) Sample(s interface{}) {
	r.mu.Lock()
	if len(r.Samples) < 6 {
		r.Samples = append(r.Samples, s)
	}
	r.mu.Unlock()
}

func (r *Result) Violate(kind, sig string, c interface{}, note string) {
	r.mu.Lock()
	defer r.mu.Unlock()
	// keep a few cases per signature so that one frequent (possibly known) finding cannot crowd
	// out a different one
	if r.perSig == nil {
		r.perSig = map[string]int{}
	}
	r.perSig[sig]++
	if r.perSig[sig] <= 3 && len(r.Violations) < 400 {
		r.Violations = append(r.Violations, Violation{kind, sig, c, note})
	}
}

func (r *Result) NViol() int {
	r.mu.Lock()
	defer r.mu.Unlock()
	return len(r.Violations)
}

func (r *Result) write(path string) error {
	sort.SliceStable(r.Violations, func(i, j int) bool { return r.Violations[i].Signature < r.Violations[j].Signature })
	b, err := json.MarshalIndent(r, "", " ")
	if err != nil {
		return err
	}
	return os.WriteFile(path, b, 0o644)
}

// Driver is a client of the Lean `driver` executable (line protocol).
type Driver struct {
	cmd *exec.Cmd
	in  *bufio.Writer
	out *bufio.Reader
	mu  sync.Mutex
	N   int
}

func startDriver(path string) (*Driver, error) {
	cmd := exec.Command(path)
	stdin, err := cmd.StdinPipe()
	if err != nil {
		return nil, err
	}
	stdout, err := cmd.StdoutPipe()
	if err != nil {
		return nil, err
	}
	cmd.Stderr = os.Stderr
	if err := cmd.Start(); err != nil {
		return nil, err
	}
	return &Driver{cmd: cmd, in: bufio.NewWriterSize(stdin, 1<<20), out: bufio.NewReaderSize(stdout, 1<<20)}, nil
}

// Ask sends one request line and returns the reply line.
func (d *Driver) Ask(line string) (string, error) {
	d.mu.Lock()
	defer d.mu.Unlock()
	d.N++
	if _, err := d.in.WriteString(line + "\n"); err != nil {
		return "", err
	}
	if err := d.in.Flush(); err != nil {
		return "", err
	}
	s, err := d.out.ReadString('\n')
	if err != nil {
		return "", fmt.Errorf("driver died on %q: %v", truncate(line, 200), err)
	}
	return strings.TrimRight(s, "\n"), nil
}

func (d *Driver) Close() {
	d.cmd.Process.Kill()
	d.cmd.Wait()
}

// DriverPool runs several driver processes for parallel checks.
type DriverPool struct {
	path string
	ch   chan *Driver
	all  []*Driver
}

func newDriverPool(path string, n int) (*DriverPool, error) {
	p := &DriverPool{ch: make(chan *Driver, n), path: path}
	for i := 0; i < n; i++ {
		d, err := startDriver(path)
		if err != nil {
			return nil, err
		}
		p.all = append(p.all, d)
		p.ch <- d
	}
	return p, nil
}

func (p *DriverPool) Ask(line string) (string, error) {
	d := <-p.ch
	s, err := d.Ask(line)
	p.ch <- d
	return s, err
}

func (p *DriverPool) Close() {
	for _, d := range p.all {
		d.Close()
	}
}

func (p *DriverPool) Requests() int {
	n := 0
	for _, d := range p.all {
		n += d.N
	}
	return n
}

func truncate(s string, n int) string {
	if len(s) <= n {
		return s
	}
	return s[:n] + "…"
}

func hx(b []byte) string { return hex.EncodeToString(b) }

func unhx(s string) []byte {
	b, err := hex.DecodeString(s)
	if err != nil {
		panic(err)
	}
	return b
}

// checkArgs are the common flags of `xzh check`.
type checkArgs struct {
	tier   string
	seed   int64
	driver string
	out    string
	replay string
	known  string
}

func parseCheckArgs(args []string) (string, *checkArgs) {
	fs := flag.NewFlagSet("check", flag.ExitOnError)
	a := &checkArgs{}
	fs.StringVar(&a.tier, "tier", "quick", "quick|thorough")
	fs.Int64Var(&a.seed, "seed", 1, "PRNG seed")
	fs.StringVar(&a.driver, "driver", "", "path of the Lean driver executable")
	fs.StringVar(&a.out, "out", "", "result JSON path")
	fs.StringVar(&a.replay, "replay", "", "replay file")
	fs.StringVar(&a.known, "known", "", "known findings file")
	if len(args) < 1 {
		fmt.Fprintln(os.Stderr, "usage: xzh check <property> [flags]")
		os.Exit(2)
	}
	fs.Parse(args[1:])
	return args[0], a
}

var checks = map[string]func(a *checkArgs, r *Result) error{}

func cmdCheck(args []string) int {
	prop, a := parseCheckArgs(args)
	f, ok := checks[prop]
	if !ok {
		fmt.Fprintf(os.Stderr, "xzh: no check for %s\n", prop)
		return 2
	}
	r := newResult(prop, a.tier, a.seed)
	if a.replay != "" {
		handled, err := replayCase(a, r, prop)
		if err != nil {
			fmt.Fprintf(os.Stderr, "xzh replay: %v\n", err)
			return 2
		}
		if handled {
			if r.Evaluations == 0 {
				r.Evaluations = 1
			}
			if a.out != "" {
				r.write(a.out)
			}
			return 0
		}
	}
	if err := f(a, r); err != nil {
		fmt.Fprintf(os.Stderr, "xzh check %s: %v\n", prop, err)
		return 2
	}
	if a.out != "" {
		if err := r.write(a.out); err != nil {
			fmt.Fprintln(os.Stderr, err)
			return 2
		}
	} else {
		b, _ := json.MarshalIndent(r, "", " ")
		io.WriteString(os.Stdout, string(b)+"\n")
	}
	return 0
}

func init() { extraCmds["check"] = cmdCheck }

// verifRoot is the directory of the framework (the snapshot it runs from).
func verifRoot() string {
	if r := os.Getenv("VERIF_ROOT"); r != "" {
		return r
	}
	return "/verif"
}
