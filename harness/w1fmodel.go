package main

import (
	"bytes"
	"fmt"
	"io"
	"math/rand"
	"strings"
	"sync"

	"github.com/ulikunitz/xz/lzma"
)

// Functional correspondence of Model/Writer1F.lean (the classic lzma.Writer on a FAILING sink, plain io.Writer behind
// bufio.Writer or an io.ByteWriter reached directly) with the real writer: the same history on a fault-injecting sink;
// up to and including the call in which the first fault strikes, every call's (n, error class) and the sink length
// after it must be equal, the sink bytes must be those of the model, and (plain sinks, bufio's sticky error) every Close
// after the failure must fail and no further sink call may happen. What the model leaves open after the failing call is
// not compared (the oracle of C09 scans those calls for panics and masked errors).

type w1fCase struct {
	Op    string   `json:"op"`
	Kind  int      `json:"sink_kind"` // 0 plain (bufio), 1 io.ByteWriter
	Cfg   lzCfg    `json:"cfg"`
	Calls []string `json:"calls"` // W<hex>, C
	K     int      `json:"fail_at_sink_call"`
	Mode  int      `json:"mode"`
}

func w1fErr(res callRes) string {
	switch {
	case res.Err == "nil":
		return "ok"
	case res.Err == "Panic":
		return "panic"
	case res.Msg == errSink.Error():
		return "sink"
	case res.Msg == lzma.ErrNoSpace.Error():
		return "nospace"
	case strings.Contains(res.Msg, "size"):
		return "size"
	}
	return "other"
}

func goW1F(cs w1fCase) (calls []string, sink []byte, ncalls int, open string) {
	s := &faultSink{k: cs.K, mode: cs.Mode}
	var sink_ io.Writer = s
	if cs.Kind == 1 {
		sink_ = byteFaultSink{s}
	}
	var w *lzma.Writer
	res := guard(func() (int, error) {
		var err error
		w, err = cs.Cfg.config().NewWriter(sink_)
		return 0, err
	})
	if res.Err != "nil" {
		return nil, s.buf.Bytes(), s.calls, w1fErr(res)
	}
	for _, c := range cs.Calls {
		var res callRes
		if c[0] == 'W' {
			p := unhxe(c[1:])
			res = guard(func() (int, error) { return w.Write(p) })
		} else {
			res = guard(func() (int, error) { return 0, w.Close() })
		}
		calls = append(calls, fmt.Sprintf("%d:%s@%d", res.N, w1fErr(res), s.buf.Len()))
		if res.Err == "Panic" {
			break
		}
		if c[0] == 'C' && res.Err == "nil" {
			break
		}
	}
	return calls, s.buf.Bytes(), s.calls, ""
}

func w1fTie(r *Result, dp *DriverPool, rng *rand.Rand, ncases int) {
	var cases []w1fCase
	for i := 0; i < ncases; i++ {
		t := lclppb[rng.Intn(len(lclppb))]
		cfg := lzCfg{LC: t[0], LP: t[1], PB: t[2], DictCap: []int{4096, 4097, 8192}[rng.Intn(3)], BufSize: []int{273, 4096}[rng.Intn(2)], Matcher: rng.Intn(2)}
		var writes [][]byte
		tot := 0
		for j := 0; j < 1+rng.Intn(3); j++ {
			var d []byte
			switch rng.Intn(3) {
			case 0:
				d = genRandom(rng, 3000+rng.Intn(7000)) // incompressible: the stream outgrows bufio's buffer
			case 1:
				_, d = pickData(rng, 6000)
			default:
				d = genRandom(rng, rng.Intn(300))
			}
			if cfg.Matcher == 1 && tot+len(d) > 7000 {
				d = d[:0]
			}
			writes = append(writes, d)
			tot += len(d)
		}
		switch rng.Intn(3) {
		case 0:
			cfg.EOSMarker = true
		case 1:
			cfg.SizeInHeader, cfg.Size = true, int64(tot)
		default:
			cfg.SizeInHeader, cfg.Size, cfg.EOSMarker = true, int64(tot)+int64(rng.Intn(3))-1, true // also a wrong announced size
			if cfg.Size < 0 {
				cfg.Size = 0
			}
		}
		var calls []string
		for _, d := range writes {
			calls = append(calls, "W"+hxe(d))
		}
		calls = append(calls, "C", "C")
		kind := 0 // plain sinks make few calls (one per 4096 stream bytes): more base cases of them
		if rng.Intn(3) == 0 {
			kind = 1
		}
		// fault-free run: number of sink calls
		base := w1fCase{Op: "w1f", Kind: kind, Cfg: cfg, Calls: calls}
		_, _, n, _ := goW1F(base)
		cases = append(cases, base)
		var ks []int
		if kind == 0 || n <= 12 {
			for k := 1; k <= n+1; k++ {
				ks = append(ks, k)
			}
		} else {
			ks = []int{1, 2, 3, 14, 15, n, n + 1}
			for j := 0; j < 6; j++ {
				ks = append(ks, 1+rng.Intn(n))
			}
		}
		for _, k := range ks {
			c := base
			c.K, c.Mode = k, rng.Intn(4)
			cases = append(cases, c)
		}
		if kind == 1 && n > 20 {
			// io.ByteWriter sink failing ONCE in the middle of an operation: the writer goes on with a half-encoded
			// operation behind it; every later call and all bytes are compared with Model/Writer1G.lean
			for j := 0; j < 12; j++ {
				c := base
				c.K, c.Mode = 14+rng.Intn(n-14), 0
				cases = append(cases, c)
			}
		}
	}
	var wg sync.WaitGroup
	sem := make(chan struct{}, 16)
	for _, cs := range cases {
		wg.Add(1)
		sem <- struct{}{}
		go func(cs w1fCase) {
			defer wg.Done()
			defer func() { <-sem }()
			c := cs.Cfg
			q := fmt.Sprintf("w1frun %d %d %d %d %d %d %d %d %d %d %s", cs.Kind, c.Matcher, (c.PB*5+c.LP)*9+c.LC, c.DictCap, c.BufSize, b2i(c.SizeInHeader), c.Size, b2i(c.EOSMarker), cs.K, cs.Mode, strings.Join(cs.Calls, " "))
			rep, err := dp.Ask(q)
			if err != nil {
				r.Violate("broken-correspondence", "driver", cs, err.Error())
				return
			}
			goCalls, sink, ncalls, open := goW1F(cs)
			w1gCompare(r, dp, cs, goCalls, sink, ncalls, open)
			r.mu.Lock()
			r.TracesVsImpl++
			r.mu.Unlock()
			r.Inc(fmt.Sprintf("writer1f_runs_kind%d", cs.Kind))
			if strings.HasPrefix(rep, "open:") || open != "" {
				r.Inc("writer1f_open_failed")
				if rep != "open:"+open {
					r.Violate("broken-correspondence", "writer1F NewWriter", cs, fmt.Sprintf("NewWriter: go %q, model %q", open, truncate(rep, 60)))
				}
				return
			}
			parts := strings.Split(rep, " | ")
			if len(parts) != 3 {
				r.Violate("broken-correspondence", "writer1F: bad driver reply", cs, truncate(rep, 200))
				return
			}
			m := strings.Fields(parts[0])
			failedAt := -1
			for i, g := range goCalls {
				if i >= len(m) {
					r.Violate("broken-correspondence", "writer1F call count", cs, fmt.Sprintf("the real writer was called %d times, the model ends after %d", len(goCalls), len(m)))
					return
				}
				switch {
				case strings.HasPrefix(m[i], "?:open"):
					// left open by the model
				case strings.HasPrefix(m[i], "0:err@"):
					if strings.HasPrefix(g, "0:ok@") {
						r.Violate("counterexample", "writer1F: Close succeeded after a sink failure", cs, fmt.Sprintf("call %d: the real Close returned nil although call %d had failed on the sink (bufio keeps the error); model: an error", i, failedAt))
						return
					}
				default:
					if m[i] != g {
						kind := "broken-correspondence"
						if strings.Contains(g, ":panic@") {
							kind = "counterexample"
						}
						r.Violate(kind, "writer1F call result", cs, fmt.Sprintf("call %d (%s): the real lzma.Writer returned n:err@sink = %s, Model/Writer1F.lean says %s", i, cs.Calls[i][:1], g, m[i]))
						return
					}
					if strings.Contains(g, ":sink@") && failedAt < 0 {
						failedAt = i
						r.Inc("writer1f_fault_reached")
					}
				}
			}
			msink := strings.TrimSpace(parts[1]) // "-" when empty, as hxe
			if failedAt < 0 || cs.Kind == 0 {
				// no fault, or bufio's sticky error: the sink holds exactly the model's bytes, in as many calls
				if msink != hxe(sink) {
					r.Violate("broken-correspondence", "writer1F sink bytes", cs, fmt.Sprintf("sink holds %d bytes, the model's sink %d (or different content)", len(sink), len(msink)/2))
					return
				}
				if strings.TrimSpace(parts[2]) != fmt.Sprint(ncalls) {
					r.Violate("broken-correspondence", "writer1F sink calls", cs, fmt.Sprintf("the sink was called %d times, the model says %s", ncalls, parts[2]))
				}
			} else if msink != "-" && !strings.HasPrefix(hxe(sink), msink) {
				r.Violate("broken-correspondence", "writer1F sink bytes", cs, "what the sink held when the fault struck is not what the model says")
			}
			if failedAt < 0 && cs.K == 0 && len(goCalls) > 0 && strings.HasPrefix(goCalls[len(goCalls)-1], "0:ok@") {
				// fault-free and closed: the stream must decode
				rd, err := lzma.NewReader(bytes.NewReader(sink))
				if err == nil {
					_, err = io.ReadAll(rd)
				}
				if err != nil {
					r.Violate("counterexample", "writer1F: fault-free stream undecodable", cs, err.Error())
				}
			}
		}(cs)
	}
	wg.Wait()
}

// w1gCompare: the same run against Model/Writer1G.lean, which stays exact after the fault: EVERY call of the history
// (n, error class, sink length), the final sink bytes and the number of sink calls must be equal.
func w1gCompare(r *Result, dp *DriverPool, cs w1fCase, goCalls []string, sink []byte, ncalls int, open string) {
	c := cs.Cfg
	q := fmt.Sprintf("w1grun %d %d %d %d %d %d %d %d %d %d %s", cs.Kind, c.Matcher, (c.PB*5+c.LP)*9+c.LC, c.DictCap, c.BufSize, b2i(c.SizeInHeader), c.Size, b2i(c.EOSMarker), cs.K, cs.Mode, strings.Join(cs.Calls, " "))
	rep, err := dp.Ask(q)
	if err != nil {
		r.Violate("broken-correspondence", "driver", cs, err.Error())
		return
	}
	r.Inc(fmt.Sprintf("writer1g_runs_kind%d", cs.Kind))
	if strings.HasPrefix(rep, "open:") || open != "" {
		if rep != "open:"+open {
			r.Violate("broken-correspondence", "writer1G NewWriter", cs, fmt.Sprintf("NewWriter: go %q, model %q", open, truncate(rep, 60)))
		}
		return
	}
	parts := strings.Split(rep, " | ")
	if len(parts) != 3 {
		r.Violate("broken-correspondence", "writer1G: bad driver reply", cs, truncate(rep, 200))
		return
	}
	m := strings.Fields(parts[0])
	after := false
	for i, g := range goCalls {
		if i >= len(m) || m[i] != g {
			got := "<none>"
			if i < len(m) {
				got = m[i]
			}
			kind := "broken-correspondence"
			if strings.Contains(g, ":panic@") {
				kind = "counterexample"
			}
			when := "before or at the fault"
			if after {
				when = "AFTER the call that hit the fault"
			}
			r.Violate(kind, "writer1G call result", cs, fmt.Sprintf("call %d (%s, %s): the real lzma.Writer returned n:err@sink = %s, Model/Writer1G.lean says %s", i, cs.Calls[i][:1], when, g, got))
			return
		}
		if strings.Contains(g, ":sink@") {
			if after {
				r.Inc("writer1g_error_again_after_fault")
			}
			after = true
		} else if after {
			r.Inc("writer1g_calls_compared_after_fault")
		}
	}
	if len(m) != len(goCalls) {
		r.Violate("broken-correspondence", "writer1G call count", cs, fmt.Sprintf("the real writer was called %d times, the model lists %d calls", len(goCalls), len(m)))
		return
	}
	if strings.TrimSpace(parts[1]) != hxe(sink) {
		r.Violate("broken-correspondence", "writer1G sink bytes", cs, fmt.Sprintf("sink holds %d bytes, the model's sink %d (or different content)", len(sink), len(strings.TrimSpace(parts[1]))/2))
		return
	}
	if strings.TrimSpace(parts[2]) != fmt.Sprint(ncalls) {
		r.Violate("broken-correspondence", "writer1G sink calls", cs, fmt.Sprintf("the sink was called %d times, the model says %s", ncalls, parts[2]))
	}
}
