package main

import (
	"bytes"
	"encoding/binary"
	"fmt"
	"math/rand"
	"os"
	"path/filepath"
	"sort"
	"strings"
	"time"

	"github.com/ulikunitz/xz/lzma"
)

// rdCase is one reader input.
type rdCase struct {
	Op      string `json:"op"`
	Kind    string `json:"kind"` // xz | lzma2 | lzma
	Name    string `json:"name"`
	Stream  string `json:"stream_hex"`
	DictCap int    `json:"dict_cap"`
	Single  bool   `json:"single_stream"`
	Want    string `json:"want_hex,omitempty"` // original content when known
}

func goRead(c rdCase, stream []byte, d time.Duration) *readTrace {
	switch c.Kind {
	case "xz":
		return goXzRead(stream, c.DictCap, c.Single, d)
	case "lzma2":
		return goLzma2Read(stream, c.DictCap, d)
	default:
		return goLzmaRead(stream, c.DictCap, d)
	}
}

func modelRead_(dp *DriverPool, c rdCase, stream []byte, strict bool) (*modelRead, error) {
	var line string
	switch c.Kind {
	case "xz":
		line = fmt.Sprintf("xzread %d %d %d %s", b2i(strict), c.DictCap, b2i(c.Single), hxe(stream))
	case "lzma2":
		cap := c.DictCap
		if cap == 0 {
			cap = 8 << 20
		}
		line = fmt.Sprintf("lzma2read %d %d %s", b2i(strict), cap, hxe(stream))
	default:
		cap := c.DictCap
		if cap == 0 {
			cap = 8 << 20
		}
		line = fmt.Sprintf("lzmaread %d %s", cap, hxe(stream))
	}
	rep, err := dp.Ask(line)
	if err != nil {
		return nil, err
	}
	return parseModelRead(rep)
}

// agree compares the Go reader's observable outcome with the model's (functional mode):
// clean end iff clean end; equal bytes when clean; Go's delivered bytes a prefix of the model's
// when both fail (the Go reader is lazy and withholds what it decoded in the failing call).
func agree(g *readTrace, m *modelRead) (bool, string) {
	gc := g.Err == "EOF" && !g.OpenErr
	mc := m.Class == "EOF"
	if g.Err == "Panic" || g.TimedOut {
		return false, "go panicked or timed out: " + g.Panic
	}
	if gc != mc {
		return false, fmt.Sprintf("go status %s (%s) vs model %s (%s)", g.Err, g.Msg, m.Class, m.Detail)
	}
	if gc {
		if !bytes.Equal(g.Out, m.Out) {
			return false, fmt.Sprintf("both accept, different bytes (go %d, model %d)", len(g.Out), len(m.Out))
		}
		return true, ""
	}
	if !bytes.HasPrefix(m.Out, g.Out) {
		return false, fmt.Sprintf("both fail, go delivered %d bytes that are not a prefix of the model's %d", len(g.Out), len(m.Out))
	}
	return true, ""
}

// baseStream is a valid stream with its content.
type baseStream struct {
	Kind    string
	Name    string
	Stream  []byte
	Content []byte
	Check   int // xz: check id of the (first) stream
}

// libraryStreams writes streams with the library itself (after its writers have been judged by
// C01/C06/C08): xz single/multi block with all checks, LZMA2, classic in the three end modes.
func libraryStreams(rng *rand.Rand, n int, maxLen int) []baseStream {
	var out []baseStream
	for i := 0; i < n; i++ {
		name, data := pickData(rng, maxLen)
		switch i % 5 {
		case 0, 1, 2:
			c := pickXzCfg(rng, i)
			c.Matcher = 0
			if c.BlockSize == 1 || c.BlockSize == 2 {
				c.BlockSize = 50
			}
			if len(data) > maxData(c, false) {
				data = data[:maxData(c, false)]
			}
			w := goXzWrite(c, data, []int{len(data)}, 60*time.Second)
			if w.firstErr() != "" {
				continue
			}
			out = append(out, baseStream{"xz", "lib-xz/" + name + "/" + c.String(), w.Out, data, checksumOf(c)})
		case 3:
			var buf bytes.Buffer
			t := lclppb[rng.Intn(len(lclppb))]
			cfg := lzma.Writer2Config{Properties: &lzma.Properties{LC: t[0], LP: t[1], PB: t[2]}, DictCap: 4096 << uint(rng.Intn(6)), BufSize: 4096}
			w, err := cfg.NewWriter2(&buf)
			if err != nil {
				continue
			}
			half := len(data) / 2
			w.Write(data[:half])
			if rng.Intn(2) == 0 {
				w.Flush()
			}
			w.Write(data[half:])
			if w.Close() != nil {
				continue
			}
			out = append(out, baseStream{"lzma2", "lib-lzma2/" + name, buf.Bytes(), data, 0})
		default:
			var buf bytes.Buffer
			cfg := lzma.WriterConfig{Properties: &lzma.Properties{LC: rng.Intn(9), LP: rng.Intn(5), PB: rng.Intn(5)}, DictCap: 4096 << uint(rng.Intn(6))}
			mode := rng.Intn(3)
			switch mode {
			case 0:
				cfg.EOSMarker = true
			case 1:
				cfg.SizeInHeader = true
				cfg.Size = int64(len(data))
			default:
				cfg.SizeInHeader = true
				cfg.Size = int64(len(data))
				cfg.EOSMarker = true
			}
			w, err := cfg.NewWriter(&buf)
			if err != nil {
				continue
			}
			w.Write(data)
			if w.Close() != nil {
				continue
			}
			out = append(out, baseStream{"lzma", fmt.Sprintf("lib-lzma/mode%d/%s", mode, name), buf.Bytes(), data, 0})
		}
	}
	// the empty content in the two modes that announce size 0 (with and without end marker)
	for _, marker := range []bool{false, true} {
		var buf bytes.Buffer
		if w, err := (lzma.WriterConfig{SizeInHeader: true, Size: 0, EOSMarker: marker}).NewWriter(&buf); err == nil {
			if w.Close() == nil {
				out = append(out, baseStream{"lzma", fmt.Sprintf("lib-lzma/size0/marker=%v", marker), append([]byte{}, buf.Bytes()...), nil, 0})
			}
		}
	}
	return out
}

// corpusStreams loads the frozen liblzma corpus (files up to maxLen bytes).
func corpusStreams(maxLen int) []baseStream {
	dir := verifRoot() + "/corpus/liblzma"
	var out []baseStream
	ents, _ := os.ReadDir(dir)
	var names []string
	for _, e := range ents {
		names = append(names, e.Name())
	}
	sort.Strings(names)
	for _, n := range names {
		var kind string
		switch filepath.Ext(n) {
		case ".xz":
			kind = "xz"
		case ".lzma":
			kind = "lzma"
		default:
			continue
		}
		if strings.HasPrefix(n, "multi-") {
			continue
		}
		s, err := os.ReadFile(filepath.Join(dir, n))
		if err != nil || len(s) > maxLen {
			continue
		}
		raw, err := os.ReadFile(filepath.Join(dir, strings.SplitN(n, "-", 2)[0]+".raw"))
		if err != nil {
			continue
		}
		chk := 0
		if kind == "xz" && len(s) > 8 {
			chk = int(s[7])
		}
		out = append(out, baseStream{kind, "liblzma/" + n, s, raw, chk})
	}
	return out
}

// farMatchStreams: library-written streams of all three formats whose content is a random block followed by a copy
// of its beginning, so that matches at distances well above 4096 (up to the content length) occur while the
// dictionary the stream was written with is larger. Used with a declared / allocated dictionary that is made
// smaller than those distances (the reader must report an error, never panic or deliver other bytes).
func farMatchStreams(rng *rand.Rand, n int) []baseStream {
	var out []baseStream
	for i := 0; i < n; i++ {
		blk := 5000 + rng.Intn(9000)
		data := genRandom(rng, blk)
		data = append(data, data[:1000+rng.Intn(blk-1000)]...)
		data = append(data, genText(rng, rng.Intn(2000))...)
		switch i % 3 {
		case 0:
			c := xzCfg{LC: 3, PB: 2, DictCap: 1 << 16, BufSize: 4096, CheckSum: []byte{1, 4, 10}[rng.Intn(3)]}
			w := goXzWrite(c, data, []int{len(data)}, 60*time.Second)
			if w.firstErr() == "" {
				out = append(out, baseStream{"xz", fmt.Sprintf("far-match/xz/%d", len(data)), w.Out, data, checksumOf(c)})
			}
		case 1:
			var buf bytes.Buffer
			w, err := lzma.Writer2Config{DictCap: 1 << 16}.NewWriter2(&buf)
			if err == nil {
				w.Write(data)
				if w.Close() == nil {
					out = append(out, baseStream{"lzma2", fmt.Sprintf("far-match/lzma2/%d", len(data)), buf.Bytes(), data, 0})
				}
			}
		default:
			var buf bytes.Buffer
			w, err := lzma.WriterConfig{DictCap: 1 << 16, SizeInHeader: rng.Intn(2) == 0, Size: int64(len(data)), EOSMarker: true}.NewWriter(&buf)
			if err == nil {
				w.Write(data)
				if w.Close() == nil {
					out = append(out, baseStream{"lzma", fmt.Sprintf("far-match/lzma/%d", len(data)), buf.Bytes(), data, 0})
				}
			}
		}
	}
	return out
}

// shrinkDict returns the stream with its declared dictionary made 4096 bytes (xz: every block header, CRC re-sealed;
// classic LZMA: header field) and the DictCap to read it with; LZMA2 has no declared size, only the reader's DictCap.
func shrinkDict(b baseStream) (stream []byte, dictCap int, ok bool) {
	t := append([]byte{}, b.Stream...)
	switch b.Kind {
	case "lzma2":
		return t, 4096, true
	case "lzma":
		if len(t) < 13 {
			return nil, 0, false
		}
		binary.LittleEndian.PutUint32(t[1:], 4096)
		return t, 4096, true
	}
	l, lok := layoutOf(t, checkSizeOf(b.Check))
	if !lok || len(l.blocks) == 0 {
		return nil, 0, false
	}
	for _, blk := range l.blocks {
		fo := blk.hdr + 2
		for _, bit := range []byte{0x40, 0x80} {
			if t[blk.hdr+1]&bit != 0 {
				_, k := binary.Uvarint(t[fo:])
				fo += k
			}
		}
		t[fo+2] = 0
		reseal(t, blk.hdr, blk.hdr+blk.hdrLen-4)
	}
	return t, 0, true
}
