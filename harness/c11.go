package main

import (
	"math/rand"
	"sync"
	"time"
)

// mutate applies 1..4 byte-level edits.
func mutateBytes(rng *rand.Rand, s []byte) []byte {
	t := append([]byte{}, s...)
	n := 1 + rng.Intn(4)
	for i := 0; i < n; i++ {
		if len(t) == 0 {
			t = append(t, byte(rng.Intn(256)))
			continue
		}
		switch rng.Intn(8) {
		case 0:
			t[rng.Intn(len(t))] ^= 1 << uint(rng.Intn(8))
		case 1:
			t[rng.Intn(len(t))] = byte(rng.Intn(256))
		case 2:
			p := rng.Intn(len(t) + 1)
			t = append(t[:p], append([]byte{byte(rng.Intn(256))}, t[p:]...)...)
		case 3:
			p := rng.Intn(len(t))
			t = append(t[:p], t[p+1:]...)
		case 4:
			t = t[:rng.Intn(len(t)+1)]
		case 5: // duplicate a slice
			p := rng.Intn(len(t))
			q := p + rng.Intn(minInt(len(t)-p, 32)+1)
			t = append(t[:q], append(append([]byte{}, t[p:q]...), t[q:]...)...)
		case 6:
			t[rng.Intn(len(t))] = []byte{0, 0xff, 0x80, 1, 2, 0xe0}[rng.Intn(6)]
		case 7: // swap
			p, q := rng.Intn(len(t)), rng.Intn(len(t))
			t[p], t[q] = t[q], t[p]
		}
	}
	return t
}

// C11: readers never panic or stall on arbitrary input.
func checkC11(a *checkArgs, r *Result) error {
	dp, err := newDriverPool(a.driver, 16)
	if err != nil {
		return err
	}
	defer dp.Close()
	r.Rule = "arbitrary byte strings for the xz, LZMA2 and classic LZMA readers: byte-level mutations (flip, set, insert, delete, truncate, duplicate, swap) of valid seeds (library-written, liblzma corpus, Lean spec encoder), structure-aware mutants with re-sealed CRC32 (xz), and purely random strings; declared dictionary sizes are kept <= 64 MiB (classic header dictionary field masked, xz dictionary code <= 28). Each input: real reader under recover with a 20 s time-out (oracle: no panic, returns, n <= len(p)) and the Lean model (same accept/reject and delivered prefix). Non-trivial: input passes the 12/13-byte header check of its format (or is an LZMA2 sequence with a valid first control byte); distinct by input bytes."
	rng := rand.New(rand.NewSource(a.seed))
	n := 80000
	if a.tier == "thorough" {
		n = 400000
	}
	seeds := libraryStreams(rng, 60, 1500)
	seeds = append(seeds, corpusStreams(2500)...)
	for i := 0; i < 20; i++ {
		s, c, desc, err := genXzStream(rng, dp, 40)
		if err != nil {
			return err
		}
		seeds = append(seeds, baseStream{"xz", "spec-gen/" + desc, s, c, int(s[7])})
	}
	far := farMatchStreams(rng, 12)
	seeds = append(seeds, far...)
	type job struct {
		c  rdCase
		in []byte
	}
	jobs := make(chan job, 64)
	var wg sync.WaitGroup
	for w := 0; w < 16; w++ {
		wg.Add(1)
		go func() {
			defer wg.Done()
			for j := range jobs {
				g := goRead(j.c, j.in, 20*time.Second)
				nontriv := false
				switch j.c.Kind {
				case "xz":
					nontriv = !(g.OpenErr)
				case "lzma":
					nontriv = !g.OpenErr
				default:
					nontriv = len(j.in) > 0 && (j.in[0] <= 2 || j.in[0] >= 0x80)
				}
				r.Count(j.c.Stream+j.c.Kind, nontriv)
				r.Inc("kind_" + j.c.Kind)
				r.Inc("go_status_" + g.Err)
				if g.Err == "Panic" {
					r.Violate("counterexample", "panic kind="+j.c.Kind+": "+truncate(g.Panic, 50), j.c, "reader panicked: "+g.Panic)
					continue
				}
				if g.TimedOut {
					r.Violate("counterexample", "stall kind="+j.c.Kind, j.c, "a Read call did not return within 20 s")
					continue
				}
				m, err := modelRead_(dp, j.c, j.in, false)
				if err != nil {
					r.Violate("broken-correspondence", "driver", j.c, err.Error())
					continue
				}
				r.mu.Lock()
				r.TracesVsImpl++
				r.mu.Unlock()
				if ok, why := agree(g, m); !ok {
					r.Violate("broken-correspondence", "reader-vs-model kind="+j.c.Kind+" "+truncate(why, 30), j.c, "real reader and Lean model disagree on an arbitrary input: "+why)
				}
				if nontriv {
					r.Sample(map[string]interface{}{"kind": j.c.Kind, "name": truncate(j.c.Name, 60), "len": len(j.in), "go": g.Err + " " + truncate(g.Msg, 50), "model": m.Class})
				}
			}
		}()
	}
	// corpus first: matches farther back than a dictionary that was made smaller after the fact
	for _, b := range far {
		if t, dc, ok := shrinkDict(b); ok {
			jobs <- job{rdCase{Op: "read-arbitrary", Kind: b.Kind, Name: b.Name + " dict-shrunk-to-4096", Stream: hxe(t), DictCap: dc}, t}
			for k := 0; k < 20; k++ {
				u := mutateBytes(rng, t)
				jobs <- job{rdCase{Op: "read-arbitrary", Kind: b.Kind, Name: b.Name + " dict-shrunk-to-4096 mutated", Stream: hxe(u), DictCap: dc}, u}
			}
		}
	}
	for i := 0; i < n; i++ {
		b := seeds[rng.Intn(len(seeds))]
		var in []byte
		name := b.Name
		kind := b.Kind
		switch {
		case i%10 == 9:
			in = make([]byte, rng.Intn(200))
			rng.Read(in)
			kind = []string{"xz", "lzma2", "lzma"}[rng.Intn(3)]
			if kind == "lzma2" && len(in) > 0 && rng.Intn(2) == 0 {
				in[0] = []byte{1, 2, 0xe0, 0xc0, 0x80}[rng.Intn(5)]
			}
			name = "random"
		case kind == "xz" && i%3 == 0:
			ms := structuralMutants(rng, b.Stream, checkSizeOf(b.Check), len(b.Content))
			if len(ms) == 0 {
				in = mutateBytes(rng, b.Stream)
				break
			}
			m := ms[rng.Intn(len(ms))]
			in = m.s
			if rng.Intn(2) == 0 {
				in = mutateBytes(rng, in)
			}
			name += " " + m.name
		default:
			in = mutateBytes(rng, b.Stream)
		}
		if kind == "lzma" && len(in) > 4 {
			in[4] &= 0x03 // declared dictionary < 64 MiB
		}
		jobs <- job{rdCase{Op: "read-arbitrary", Kind: kind, Name: name, Stream: hxe(in)}, in}
	}
	close(jobs)
	wg.Wait()
	r.Extra["driver_requests"] = dp.Requests()
	return nil
}

func init() { checks["C11"] = checkC11 }
