package main

import (
	"bytes"
	"crypto/sha256"
	"fmt"
	"github.com/ulikunitz/xz"
	"io"
	"math/rand"
	"os"
	"os/exec"
	"runtime"
	"strings"
	"sync"
	"sync/atomic"
	"time"

	"github.com/ulikunitz/xz/lzma"
)

// one unit of work: compress with a writer, then decompress; returns the compressed bytes
type c14Work struct {
	kind string // xz | lzma | lzma2
	cfg  xzCfg
	data []byte
}

func (w c14Work) run() (out []byte, problem string) {
	defer func() {
		if p := recover(); p != nil {
			problem = fmt.Sprint("panic: ", p)
		}
	}()
	var buf bytes.Buffer
	switch w.kind {
	case "xz":
		t := goXzWrite(w.cfg, w.data, []int{len(w.data)}, 120*time.Second)
		if e := t.firstErr(); e != "" || t.TimedOut {
			return nil, "write: " + e
		}
		g := goXzRead(t.Out, 0, false, 120*time.Second)
		if g.Err != "EOF" || !bytes.Equal(g.Out, w.data) {
			return t.Out, "round trip failed: " + g.Err + " " + g.Msg + g.Panic
		}
		return t.Out, ""
	case "lzma2":
		wr, err := lzma.Writer2Config{Properties: &lzma.Properties{LC: w.cfg.LC, LP: w.cfg.LP, PB: w.cfg.PB}, DictCap: w.cfg.DictCap, BufSize: w.cfg.BufSize, Matcher: lzma.MatchAlgorithm(w.cfg.Matcher)}.NewWriter2(&buf)
		if err != nil {
			return nil, err.Error()
		}
		wr.Write(w.data)
		if err := wr.Close(); err != nil {
			return nil, err.Error()
		}
		g := goLzma2Read(buf.Bytes(), 0, 120*time.Second)
		if g.Err != "EOF" || !bytes.Equal(g.Out, w.data) {
			return buf.Bytes(), "round trip failed: " + g.Err + " " + g.Msg + g.Panic
		}
	default:
		wr, err := lzma.WriterConfig{Properties: &lzma.Properties{LC: w.cfg.LC, LP: w.cfg.LP, PB: w.cfg.PB}, DictCap: w.cfg.DictCap, BufSize: w.cfg.BufSize, Matcher: lzma.MatchAlgorithm(w.cfg.Matcher)}.NewWriter(&buf)
		if err != nil {
			return nil, err.Error()
		}
		wr.Write(w.data)
		if err := wr.Close(); err != nil {
			return nil, err.Error()
		}
		g := goLzmaRead(buf.Bytes(), 0, 120*time.Second)
		if g.Err != "EOF" || !bytes.Equal(g.Out, w.data) {
			return buf.Bytes(), "round trip failed: " + g.Err + " " + g.Msg + g.Panic
		}
	}
	return buf.Bytes(), ""
}

func c14Works(rng *rand.Rand, n int) []c14Work {
	var ws []c14Work
	for i := 0; i < n; i++ {
		c := pickXzCfg(rng, i)
		if c.BlockSize > 0 && c.BlockSize < 300 {
			c.BlockSize = 300
		}
		max := 20000
		if c.Matcher == 1 {
			max = 5000
		}
		_, d := pickData(rng, max)
		ws = append(ws, c14Work{[]string{"xz", "xz", "lzma2", "lzma"}[i%4], c, d})
	}
	// regime switches: several raw chunks with compressed chunks in between (state snapshots, raw-chunk readers)
	for i := 0; i < 4; i++ {
		c := xzCfg{LC: 3, PB: 2, DictCap: []int{65536, 1 << 20}[i%2], BufSize: 4096}
		var d []byte
		for k := 0; k < 2; k++ {
			d = append(d, genRandom(rng, 66000+rng.Intn(6000))...)
			d = append(d, genText(rng, 3000+rng.Intn(20000))...)
		}
		ws = append(ws, c14Work{[]string{"xz", "lzma2"}[i%2], c, d})
	}
	return ws
}

// c14Inner runs inside the race-instrumented binary: sequential reference, then N goroutines
// each driving its own instances, under several GOMAXPROCS values, with yield points.
func c14Inner(seed int64, tier string) (evals, distinct int, problems []string, samples []string, hashes []string) {
	rng := rand.New(rand.NewSource(seed))
	n := 48
	rounds := []int{16, 4, 1}
	if tier == "thorough" {
		n = 160
	}
	ws := c14Works(rng, n)
	// The concurrent phase comes FIRST, before anything in this process has used the library, so
	// that unsynchronised lazy initialisation is exercised by goroutines without a
	// happens-before order; the sequential reference is computed afterwards.
	type obs struct {
		i, procs, par int
		out           []byte
		problem       string
	}
	var observed []obs
	var mu sync.Mutex
	for _, procs := range rounds {
		old := runtime.GOMAXPROCS(procs)
		for _, par := range []int{32, 8, 2} {
			var wg sync.WaitGroup
			start := make(chan struct{})
			for g := 0; g < par; g++ {
				wg.Add(1)
				go func(g int) {
					defer wg.Done()
					<-start
					for i := g; i < len(ws); i += par / 2 { // overlapping assignment: the same case runs in two goroutines
						runtime.Gosched()
						out, p := ws[i].run()
						mu.Lock()
						evals++
						observed = append(observed, obs{i, procs, par, out, p})
						mu.Unlock()
					}
				}(g)
			}
			close(start)
			wg.Wait()
		}
		runtime.GOMAXPROCS(old)
	}
	// history independence: X, then other inputs through writers of the same configuration, then X
	// again — the second X must give the same bytes (no state survives a closed writer)
	for i := 0; i < 24; i++ {
		c := xzCfg{LC: 3, PB: 2, DictCap: []int{8 << 20, 1 << 20, 65536, 4096}[i%4], BufSize: 4096, Matcher: (i / 4) % 2}
		kind := []string{"xz", "lzma2", "lzma"}[i%3]
		max := 60000
		if c.Matcher == 1 {
			max = 6000
		}
		x := c14Work{kind, c, genText(rng, 500+rng.Intn(max))}
		out1, _ := x.run()
		for k := 0; k < 3; k++ {
			y := c14Work{kind, c, genText(rng, 300+rng.Intn(max))}
			if k == 1 {
				y.data = genMixed(rng, 300+rng.Intn(max))
			}
			y.run()
		}
		out2, _ := x.run()
		evals += 5
		if !bytes.Equal(out1, out2) {
			problems = append(problems, fmt.Sprintf("nondeterministic output: %s %s, %d bytes in: %d bytes out first, %d bytes after other writers of the same configuration had been used", kind, c, len(x.data), len(out1), len(out2)))
		}
	}
	ref := make([][]byte, len(ws))
	for i, w := range ws {
		out, p := w.run()
		if p != "" {
			problems = append(problems, fmt.Sprintf("sequential case %d (%s %s): %s", i, w.kind, w.cfg, p))
		}
		ref[i] = out
		out2, _ := w.run()
		if !bytes.Equal(out, out2) {
			problems = append(problems, fmt.Sprintf("nondeterministic output: case %d (%s %s, %d bytes in) gives different bytes on a second run", i, w.kind, w.cfg, len(w.data)))
		}
		evals += 2
		h := sha256.Sum256(out)
		hashes = append(hashes, fmt.Sprintf("%d %x", i, h[:8]))
	}
	for _, o := range observed {
		if o.problem != "" {
			problems = append(problems, fmt.Sprintf("concurrent case %d (%s %s) GOMAXPROCS=%d goroutines=%d: %s", o.i, ws[o.i].kind, ws[o.i].cfg, o.procs, o.par, o.problem))
		} else if !bytes.Equal(o.out, ref[o.i]) {
			problems = append(problems, fmt.Sprintf("output differs from the sequential run: case %d (%s %s) GOMAXPROCS=%d goroutines=%d", o.i, ws[o.i].kind, ws[o.i].cfg, o.procs, o.par))
		}
	}
	for i, w := range ws {
		if i < 4 {
			samples = append(samples, fmt.Sprintf("%s %s in=%d out=%d", w.kind, w.cfg, len(w.data), len(ref[i])))
		}
	}
	// the shared standard logger (internal/xlog) with debug output enabled: concurrent readers must produce
	// exactly the lines a sequential run produces, one complete Write per line, no overlapping Writes
	problems = append(problems, c14Logging()...)
	evals += 8
	return evals, len(ws), problems, samples, hashes
}

// slowSink is a log destination that notices overlapping Write calls and keeps the lines.
type slowSink struct {
	mu       sync.Mutex
	inflight int32
	overlap  int32
	lines    []string
}

func (s *slowSink) Write(p []byte) (int, error) {
	if atomic.AddInt32(&s.inflight, 1) > 1 {
		atomic.AddInt32(&s.overlap, 1)
	}
	line := string(p) // copy before yielding: the logger may reuse its buffer afterwards
	time.Sleep(200 * time.Microsecond)
	cp := string(append([]byte{}, p...))
	if cp != line {
		atomic.AddInt32(&s.overlap, 1)
	}
	s.mu.Lock()
	s.lines = append(s.lines, cp)
	s.mu.Unlock()
	atomic.AddInt32(&s.inflight, -1)
	return len(p), nil
}

func c14Logging() (problems []string) {
	var buf bytes.Buffer
	w, err := xz.WriterConfig{BlockSize: 700}.NewWriter(&buf)
	if err != nil {
		return []string{"logging phase: " + err.Error()}
	}
	w.Write(genText(rand.New(rand.NewSource(7)), 5000))
	w.Close()
	stream := buf.Bytes()
	readAll := func() {
		r, err := xz.NewReader(bytes.NewReader(stream))
		if err == nil {
			io.Copy(io.Discard, r)
		}
	}
	seq := &slowSink{}
	old := xz.VerifLog(seq, 0)
	readAll()
	want := append([]string{}, seq.lines...)
	conc := &slowSink{}
	xz.VerifLog(conc, 0)
	var wg sync.WaitGroup
	const n = 6
	for i := 0; i < n; i++ {
		wg.Add(1)
		go func() { defer wg.Done(); readAll() }()
	}
	wg.Wait()
	xz.VerifLog(io.Discard, old)
	if len(want) == 0 {
		return nil // the library emits no debug lines: nothing shared to observe
	}
	if conc.overlap > 0 {
		problems = append(problems, fmt.Sprintf("data-race: %d overlapping or torn Write calls on the shared logger's destination with %d concurrent readers", conc.overlap, n))
	}
	count := map[string]int{}
	for _, l := range conc.lines {
		count[l]++
	}
	for _, l := range want {
		if count[l] != n*countOf(want, l) {
			problems = append(problems, fmt.Sprintf("log lines of %d concurrent readers differ from %d times the sequential lines (line %q: %d times, want %d)", n, n, truncate(l, 40), count[l], n*countOf(want, l)))
			break
		}
	}
	return problems
}

func countOf(l []string, x string) int {
	c := 0
	for _, y := range l {
		if y == x {
			c++
		}
	}
	return c
}

// cmdC14Fresh computes the output hash of ONE case as the first use of the library in a fresh
// process: the reference for "deterministic function of configuration and input".
func cmdC14Fresh(args []string) int {
	var seed int64 = 1
	tier := "quick"
	idx := 0
	fmt.Sscan(args[0], &seed)
	tier = args[1]
	fmt.Sscan(args[2], &idx)
	n := 48
	if tier == "thorough" {
		n = 160
	}
	ws := c14Works(rand.New(rand.NewSource(seed)), n)
	out, p := ws[idx].run()
	h := sha256.Sum256(out)
	fmt.Printf("%d %x %s\n", idx, h[:8], p)
	return 0
}

func cmdC14Inner(args []string) int {
	var seed int64 = 1
	tier := "quick"
	if len(args) > 0 {
		fmt.Sscan(args[0], &seed)
	}
	if len(args) > 1 {
		tier = args[1]
	}
	evals, distinct, problems, samples, hashes := c14Inner(seed, tier)
	fmt.Printf("EVALS %d DISTINCT %d\n", evals, distinct)
	for _, s := range samples {
		fmt.Println("SAMPLE " + s)
	}
	for _, h := range hashes {
		fmt.Println("HASH " + h)
	}
	for _, p := range problems {
		fmt.Println("PROBLEM " + p)
	}
	return 0
}

// C14: independent instances are safe concurrently; output deterministic.
func checkC14(a *checkArgs, r *Result) error {
	r.Rule = "N in {2,8,32} goroutines x GOMAXPROCS in {1,4,16}, each goroutine driving its own xz / LZMA2 / LZMA writer and reader over generated (data, config) cases, the same case in two goroutines at once, with yield points, inside a race-detector build of the harness; oracle: every goroutine's compressed bytes equal the sequential reference (and a repeated sequential run), round trip intact, no race report. Non-trivial: every case (input through a writer and a reader); distinct by case. Lean side: Props/C14.lean over the regenerated table of package-level variables, logger methods and imports."
	race := os.Getenv("XZH_RACE")
	if race == "" {
		race = verifRoot() + "/harness/xzh-race"
	}
	if _, err := os.Stat(race); err != nil {
		return fmt.Errorf("race-instrumented harness %s missing: %v", race, err)
	}
	cmd := exec.Command(race, "c14inner", fmt.Sprint(a.seed), a.tier)
	cmd.Env = append(os.Environ(), "GORACE=halt_on_error=0 exitcode=0")
	var stdout, stderr bytes.Buffer
	cmd.Stdout, cmd.Stderr = &stdout, &stderr
	done := make(chan error, 1)
	go func() { done <- cmd.Run() }()
	select {
	case err := <-done:
		if err != nil {
			r.Violate("counterexample", "race-harness-crashed", map[string]interface{}{"op": "concurrent", "stderr": truncate(stderr.String(), 3000)}, "the concurrent run crashed: "+err.Error())
		}
	case <-time.After(25 * time.Minute):
		cmd.Process.Kill()
		r.Violate("counterexample", "race-harness-hang", map[string]interface{}{"op": "concurrent"}, "the concurrent run did not finish")
	}
	inproc := map[string]string{}
	for _, ln := range strings.Split(stdout.String(), "\n") {
		if strings.HasPrefix(ln, "HASH ") {
			f := strings.Fields(ln)
			if len(f) == 3 {
				inproc[f[1]] = f[2]
			}
		}
	}
	// fresh-process references: each case computed as the very first use of the library
	{
		var wg sync.WaitGroup
		var mu sync.Mutex
		sem := make(chan struct{}, 16)
		for idx := range inproc {
			wg.Add(1)
			sem <- struct{}{}
			go func(idx string) {
				defer wg.Done()
				defer func() { <-sem }()
				out, err := exec.Command(race, "c14fresh", fmt.Sprint(a.seed), a.tier, idx).Output()
				f := strings.Fields(string(out))
				mu.Lock()
				defer mu.Unlock()
				r.Evaluations++
				if err != nil || len(f) < 2 {
					r.Violations = append(r.Violations, Violation{"broken-correspondence", "fresh-process reference failed", map[string]interface{}{"op": "concurrent", "case": idx}, fmt.Sprint(err)})
					return
				}
				if f[1] != inproc[idx] {
					r.Violations = append(r.Violations, Violation{"counterexample", "output depends on what the process did before", map[string]interface{}{"op": "concurrent", "seed": a.seed, "case": idx},
						fmt.Sprintf("case %s: output in a process that ran other readers/writers before differs from the output of a fresh process (hash %s vs %s)", idx, inproc[idx], f[1])})
				}
			}(idx)
		}
		wg.Wait()
	}
	for _, ln := range strings.Split(stdout.String(), "\n") {
		switch {
		case strings.HasPrefix(ln, "EVALS "):
			var e, d int
			fmt.Sscanf(ln, "EVALS %d DISTINCT %d", &e, &d)
			r.Evaluations += e
			r.Nontrivial += d
		case strings.HasPrefix(ln, "SAMPLE "):
			r.Sample(ln[7:])
		case strings.HasPrefix(ln, "PROBLEM "):
			sig := ln[8:]
			if i := strings.Index(sig, ":"); i > 0 && strings.HasPrefix(sig, "nondeterministic") {
				sig = "nondeterministic output"
			} else if strings.HasPrefix(sig, "output differs") {
				sig = "output differs from the sequential run"
			} else {
				sig = truncate(sig, 60)
			}
			r.Violate("counterexample", sig, map[string]interface{}{"op": "concurrent", "seed": a.seed, "detail": ln[8:]}, ln[8:])
		}
	}
	if strings.Contains(stderr.String(), "DATA RACE") {
		rep := stderr.String()
		i := strings.Index(rep, "WARNING: DATA RACE")
		r.Violate("counterexample", "data-race", map[string]interface{}{"op": "concurrent", "seed": a.seed, "race_report": truncate(rep[i:], 4000)}, "the race detector reported a data race between independent instances")
	}
	r.Extra["race_detector"] = "go build -race"
	return nil
}

func init() {
	checks["C14"] = checkC14
	extraCmds["c14inner"] = cmdC14Inner
	extraCmds["c14fresh"] = cmdC14Fresh
}
