package main

import (
	"bytes"
	"encoding/json"
	"fmt"
	"os"
	"time"
)

// replayCase re-executes the case stored in a replay file on the current tree. It returns
// handled=false when the stored case is of a kind that is only meaningful inside a full run
// (then the caller runs the whole check).
func replayCase(a *checkArgs, r *Result, prop string) (handled bool, err error) {
	b, err := os.ReadFile(a.replay)
	if err != nil {
		return false, err
	}
	var rp struct {
		Kind string          `json:"kind"`
		Case json.RawMessage `json:"case"`
	}
	if err := json.Unmarshal(b, &rp); err != nil {
		return false, err
	}
	var head struct {
		Op string `json:"op"`
	}
	if len(rp.Case) == 0 || json.Unmarshal(rp.Case, &head) != nil || head.Op == "" {
		return false, nil
	}
	dp, err := newDriverPool(a.driver, 2)
	if err != nil {
		return false, err
	}
	defer dp.Close()
	r.Rule = "replay of a stored case: " + head.Op
	switch head.Op {
	case "xzwrite":
		var c xzCase
		json.Unmarshal(rp.Case, &c)
		sizes, err := driverSizes(dp)
		if err != nil {
			return false, err
		}
		runXzCase(r, dp, prop, c, sizes)
	case "lzmawrite":
		var c lzCase
		json.Unmarshal(rp.Case, &c)
		runLzCase(r, dp, prop, c, false)
		runLzCase(r, dp, prop, c, true)
	case "writer2-history":
		var c w2Case
		json.Unmarshal(rp.Case, &c)
		runW2Case(r, dp, c)
		runW2Model(r, dp, c)
	case "ring-script":
		var c ringCase
		json.Unmarshal(rp.Case, &c)
		if err := runRingCase(r, dp, c); err != nil {
			return false, err
		}
	case "gxz-run":
		var c gxzScenario
		json.Unmarshal(rp.Case, &c)
		gxz := os.Getenv("XZH_GXZ")
		if gxz == "" {
			gxz = verifRoot() + "/harness/gxz-bin"
		}
		var inj *injection
		for i := range injections {
			if injections[i].which == c.Path && injections[i].syscall == c.Syscall {
				inj = &injections[i]
			}
		}
		runGxzScenario(r, dp, gxz, c, inj, c.Crash != "" && c.Crash != "none")
	case "gxz-cli":
		var c cliCase
		json.Unmarshal(rp.Case, &c)
		gxz := os.Getenv("XZH_GXZ")
		if gxz == "" {
			gxz = verifRoot() + "/harness/gxz-bin"
		}
		runCliCase(r, dp, gxz, c)
	case "read-prefix", "read-mutant", "read-valid", "read-chain", "read-arbitrary", "read-chunk-sequence":
		var c rdCase
		json.Unmarshal(rp.Case, &c)
		stream := unhxe(c.Stream)
		g := goRead(c, stream, 60*time.Second)
		m, err := modelRead_(dp, c, stream, false)
		if err != nil {
			return false, err
		}
		r.Count(c.Name, true)
		fmt.Printf("replay %s %q: go status=%s openErr=%v msg=%q panic=%q bytes=%d | model status=%s (%s) bytes=%d\n", head.Op, c.Name, g.Err, g.OpenErr, g.Msg, g.Panic, len(g.Out), m.Class, m.Detail, len(m.Out))
		if ok, why := agree(g, m); !ok {
			r.Violate("broken-correspondence", "reader-vs-model (replay)", c, why)
		}
		if g.Err == "Panic" || g.TimedOut {
			r.Violate("counterexample", "panic-or-timeout (replay)", c, g.Panic)
		}
		clean := g.Err == "EOF" && !g.OpenErr
		switch head.Op {
		case "read-prefix":
			if clean {
				r.Violate("counterexample", "clean-eof on a truncated stream (replay)", c, "prefix ends with end-of-stream")
			}
		case "read-mutant":
			if clean && c.Want != "" && !bytes.Equal(g.Out, unhxe(c.Want)) {
				r.Violate("counterexample", "silent-corruption (replay)", c, "clean end with different content")
			}
		case "read-valid":
			if !clean || (c.Want != "" && !bytes.Equal(g.Out, unhxe(c.Want))) {
				r.Violate("counterexample", "valid-stream-misread (replay)", c, fmt.Sprintf("status %s %s, %d bytes", g.Err, g.Msg, len(g.Out)))
			}
		case "read-arbitrary":
		}
	default:
		return false, nil
	}
	return true, nil
}
