package main

import (
	"bytes"
	"fmt"
	"github.com/ulikunitz/xz/lzma"
	"math/rand"
	"sync"
	"time"
)

// C05: every proper prefix of a valid stream fails with an error other than end-of-stream and
// delivers only a prefix of the content. Exhaustive over cut positions per base stream; every
// cut also goes through the Lean model (functional correspondence).
func checkC05(a *checkArgs, r *Result) error {
	dp, err := newDriverPool(a.driver, 16)
	if err != nil {
		return err
	}
	defer dp.Close()
	r.Rule = "base streams: library-written xz (single/multi block, all checks), LZMA2, classic LZMA (marker / size / both) and the frozen liblzma corpus; every cut position 0..len-1 of each (stride on long streams, all positions within 64 bytes of both ends) through the real readers and the Lean model. Non-trivial: cut beyond the 12/13-byte header; distinct by (stream, cut)."
	rng := rand.New(rand.NewSource(a.seed))
	nlib, maxLen, full := 30, 1500, 2500
	if a.tier == "thorough" {
		nlib, maxLen, full = 200, 6000, 8000
	}
	bases := append(libraryStreams(rng, nlib, maxLen), corpusStreams(full*4)...)
	// content larger than the reader's dictionary (the decoder refills its ring several times): classic LZMA and
	// LZMA2 written and read with a 4096-byte dictionary
	type sized struct {
		b   baseStream
		cap int
	}
	var bigs []sized
	for i := 0; i < 3; i++ {
		data := genText(rng, 14000+rng.Intn(8000))
		var buf bytes.Buffer
		if w, err := (lzma.WriterConfig{DictCap: 4096, SizeInHeader: i%2 == 0, Size: int64(len(data)), EOSMarker: i > 0}).NewWriter(&buf); err == nil {
			w.Write(data)
			if w.Close() == nil {
				bigs = append(bigs, sized{baseStream{"lzma", fmt.Sprintf("beyond-dict/lzma/%d", len(data)), append([]byte{}, buf.Bytes()...), data, 0}, 4096})
			}
		}
		buf.Reset()
		if w, err := (lzma.Writer2Config{DictCap: 4096}).NewWriter2(&buf); err == nil {
			w.Write(data)
			if w.Close() == nil {
				bigs = append(bigs, sized{baseStream{"lzma2", fmt.Sprintf("beyond-dict/lzma2/%d", len(data)), append([]byte{}, buf.Bytes()...), data, 0}, 4096})
			}
		}
	}
	// multi-stream: two streams with padding
	var xzs []baseStream
	for _, b := range bases {
		if b.Kind == "xz" && len(b.Stream) < 1200 {
			xzs = append(xzs, b)
		}
	}
	type job struct {
		b   baseStream
		cut int
		// boundaries at which a cut is a legal end (multi-stream)
		legal map[int]bool
		cap   int // ReaderConfig.DictCap (0 = default)
	}
	var jobs []job
	r.Exhaustive = true
	for _, b := range bases {
		n := len(b.Stream)
		stride := 1
		if n > full {
			stride = 1 + n/full*3
			r.Exhaustive = false
		}
		for k := 0; k < n; k++ {
			if stride > 1 && k%stride != 0 && k > 64 && k < n-64 {
				continue
			}
			jobs = append(jobs, job{b, k, nil, 0})
		}
	}
	for _, sb := range bigs {
		n := len(sb.b.Stream)
		for k := 0; k < n; k++ {
			if k%3 != 0 && k > 64 && k < n-64 {
				continue
			}
			jobs = append(jobs, job{sb.b, k, nil, sb.cap})
		}
	}
	for i := 0; i+1 < len(xzs) && i < 8; i += 2 {
		pad := []int{0, 4, 8}[rng.Intn(3)]
		s := append(append(append([]byte{}, xzs[i].Stream...), make([]byte, pad)...), xzs[i+1].Stream...)
		tail := []int{0, 4}[rng.Intn(2)]
		s = append(s, make([]byte, tail)...)
		legal := map[int]bool{}
		l1 := len(xzs[i].Stream)
		for p := 0; p <= pad; p += 4 {
			legal[l1+p] = true
		}
		for p := 0; p <= tail; p += 4 {
			legal[l1+pad+len(xzs[i+1].Stream)+p] = true
		}
		b := baseStream{"xz", fmt.Sprintf("multi/%s+%d+%s+%d", xzs[i].Name, pad, xzs[i+1].Name, tail), s,
			append(append([]byte{}, xzs[i].Content...), xzs[i+1].Content...), 0}
		for k := 0; k < len(s); k++ {
			jobs = append(jobs, job{b, k, legal, 0})
		}
	}
	r.Extra["base_streams"] = len(bases)
	var wg sync.WaitGroup
	sem := make(chan struct{}, 16)
	for _, j := range jobs {
		wg.Add(1)
		sem <- struct{}{}
		go func(j job) {
			defer wg.Done()
			defer func() { <-sem }()
			pre := j.b.Stream[:j.cut]
			c := rdCase{Op: "read-prefix", Kind: j.b.Kind, Name: fmt.Sprintf("%s cut=%d/%d", j.b.Name, j.cut, len(j.b.Stream)), Stream: hxe(pre), Want: "", DictCap: j.cap}
			g := goRead(c, pre, 30*time.Second)
			r.Count(c.Name, j.cut > 13)
			r.Inc("kind_" + j.b.Kind)
			r.Inc("go_status_" + g.Err)
			isLegalEnd := j.legal != nil && j.legal[j.cut]
			if g.TimedOut || g.Err == "Panic" {
				r.Violate("counterexample", "panic-or-timeout "+j.b.Kind, c, "reader panicked or hung on a truncated stream: "+g.Panic)
				return
			}
			if !isLegalEnd {
				if g.Err == "EOF" {
					where := "read"
					if g.OpenErr {
						where = "open"
					}
					r.Violate("counterexample", fmt.Sprintf("clean-eof kind=%s at %s cut-region=%s", j.b.Kind, where, region(j.b, j.cut)), c,
						fmt.Sprintf("prefix of %d/%d bytes ends with end-of-stream (delivered %d of %d bytes)", j.cut, len(j.b.Stream), len(g.Out), len(j.b.Content)))
				}
			}
			if !bytes.HasPrefix(j.b.Content, g.Out) {
				r.Violate("counterexample", "non-prefix-output kind="+j.b.Kind, c, "bytes delivered before the error are not a prefix of the content")
			}
			m, err := modelRead_(dp, c, pre, false)
			if err != nil {
				r.Violate("broken-correspondence", "driver", c, err.Error())
				return
			}
			r.mu.Lock()
			r.TracesVsImpl++
			r.mu.Unlock()
			if ok, why := agree(g, m); !ok {
				r.Violate("broken-correspondence", "reader-vs-model kind="+j.b.Kind+" "+why[:minInt(len(why), 40)], c, "real reader and Lean model disagree on a truncated stream: "+why)
			}
			if j.cut%97 == 0 {
				r.Sample(map[string]interface{}{"case": c.Name, "go": g.Err + " " + g.Msg, "model": m.Class + " " + m.Detail, "delivered": len(g.Out)})
			}
		}(j)
	}
	wg.Wait()
	r.Extra["driver_requests"] = dp.Requests()
	return nil
}

// region names the part of an xz stream a cut falls into (for signatures).
func region(b baseStream, cut int) string {
	if b.Kind != "xz" {
		if cut < 13 {
			return "header"
		}
		if cut < 18 {
			return "rc-init"
		}
		return "body"
	}
	if cut < 12 {
		return "stream-header"
	}
	if cut >= len(b.Stream)-12 {
		return "footer"
	}
	return "blocks-or-index"
}

func init() { checks["C05"] = checkC05 }
