package main

// T-facts: syntactic facts extracted from /repo's source with go/parser, go/ast and go/types
// and written as Lean tables (Gen/Globals.lean, Gen/ErrFlow.lean). The Lean side states what
// must hold of these tables (Props/C14.lean, Props/C09.lean); a new global that is written
// after initialisation, or a new dropped / nil-replaced error on an I/O path, breaks a theorem.

import (
	"fmt"
	"go/ast"
	"go/importer"
	"go/parser"
	"go/token"
	"go/types"
	"os"
	"path/filepath"
	"sort"
	"strings"
)

type pkgSrc struct {
	rel   string // "." , "lzma", …
	fset  *token.FileSet
	files []*ast.File
	names []string
}

func loadPkg(rel string) (*pkgSrc, error) {
	root := os.Getenv("VERIF_REPO")
	if root == "" {
		root = "/repo"
	}
	dir := filepath.Join(root, rel)
	ents, err := os.ReadDir(dir)
	if err != nil {
		return nil, err
	}
	p := &pkgSrc{rel: rel, fset: token.NewFileSet()}
	for _, e := range ents {
		n := e.Name()
		if !strings.HasSuffix(n, ".go") || strings.HasSuffix(n, "_test.go") || strings.HasPrefix(n, "verif_") || strings.Contains(n, "_windows") {
			continue
		}
		f, err := parser.ParseFile(p.fset, filepath.Join(dir, n), nil, parser.ParseComments)
		if err != nil {
			return nil, err
		}
		if f.Name.Name == "main" && rel != "cmd/gxz" {
			continue
		}
		p.files = append(p.files, f)
		p.names = append(p.names, n)
	}
	return p, nil
}

func rootIdent(e ast.Expr) *ast.Ident {
	for {
		switch x := e.(type) {
		case *ast.Ident:
			return x
		case *ast.SelectorExpr:
			e = x.X
		case *ast.IndexExpr:
			e = x.X
		case *ast.SliceExpr:
			e = x.X
		case *ast.StarExpr:
			e = x.X
		case *ast.ParenExpr:
			e = x.X
		default:
			return nil
		}
	}
}

func leanStr(s string) string {
	return "\"" + strings.ReplaceAll(strings.ReplaceAll(s, "\\", "\\\\"), "\"", "\\\"") + "\""
}

// genGlobals: every package-level variable with the places that may write to it after
// initialisation (assignment to it or through it, ++/--, address taken, copy into it).
func genGlobals(dir string) error {
	var rows []string
	var lrows []string
	var irows []string
	var mrows []string
	for _, rel := range []string{".", "lzma", "internal/hash", "internal/xlog"} {
		p, err := loadPkg(rel)
		if err != nil {
			return err
		}
		imps := map[string]bool{}
		for _, f := range p.files {
			for _, im := range f.Imports {
				imps[strings.Trim(im.Path.Value, "\"")] = true
			}
		}
		var il []string
		for k := range imps {
			il = append(il, k)
		}
		sort.Strings(il)
		for _, k := range il {
			irows = append(irows, fmt.Sprintf("(%s, %s)", leanStr(rel), leanStr(k)))
		}
		globals := map[string]bool{}
		for _, f := range p.files {
			for _, d := range f.Decls {
				if gd, ok := d.(*ast.GenDecl); ok && gd.Tok == token.VAR {
					for _, s := range gd.Specs {
						for _, n := range s.(*ast.ValueSpec).Names {
							if n.Name != "_" {
								globals[n.Name] = true
							}
						}
					}
				}
			}
		}
		writes := map[string][]string{}
		for fi, f := range p.files {
			for _, d := range f.Decls {
				fd, ok := d.(*ast.FuncDecl)
				if !ok || fd.Body == nil {
					continue
				}
				isGlobal := func(id *ast.Ident) bool {
					if id == nil || !globals[id.Name] {
						return false
					}
					if id.Obj != nil {
						// resolved within the file: must be the package-level declaration
						if _, ok := id.Obj.Decl.(*ast.ValueSpec); !ok {
							return false
						}
						vs := id.Obj.Decl.(*ast.ValueSpec)
						return p.fset.Position(vs.Pos()).Column == 5 || isTopLevel(f, vs)
					}
					return true
				}
				note := func(id *ast.Ident, kind string) {
					writes[id.Name] = append(writes[id.Name], fmt.Sprintf("%s:%s:%s", p.names[fi], fd.Name.Name, kind))
				}
				ast.Inspect(fd.Body, func(n ast.Node) bool {
					switch x := n.(type) {
					case *ast.AssignStmt:
						for _, l := range x.Lhs {
							if id := rootIdent(l); isGlobal(id) {
								if _, plain := l.(*ast.Ident); plain && x.Tok == token.DEFINE {
									continue
								}
								note(id, "assign")
							}
						}
					case *ast.IncDecStmt:
						if id := rootIdent(x.X); isGlobal(id) {
							note(id, "incdec")
						}
					case *ast.UnaryExpr:
						if x.Op == token.AND {
							if id := rootIdent(x.X); isGlobal(id) {
								note(id, "address-taken")
							}
						}
					case *ast.RangeStmt:
						if id := rootIdent(x.X); isGlobal(id) {
							// iteration order of a map must not influence anything observable
							mrows = append(mrows, fmt.Sprintf("(%s, %s, %s)", leanStr(rel), leanStr(fd.Name.Name), leanStr(id.Name)))
						}
						for _, l := range []ast.Expr{x.Key, x.Value} {
							if l != nil && x.Tok == token.ASSIGN {
								if id := rootIdent(l); isGlobal(id) {
									note(id, "range-assign")
								}
							}
						}
					case *ast.CallExpr:
						if fn, ok := x.Fun.(*ast.Ident); ok && fn.Name == "copy" && len(x.Args) > 0 {
							if id := rootIdent(x.Args[0]); isGlobal(id) {
								note(id, "copy-into")
							}
						}
					}
					return true
				})
			}
		}
		var names []string
		for n := range globals {
			names = append(names, n)
		}
		sort.Strings(names)
		for _, n := range names {
			ws := writes[n]
			sort.Strings(ws)
			var q []string
			for _, w := range ws {
				q = append(q, leanStr(w))
			}
			rows = append(rows, fmt.Sprintf("(%s, %s, [%s])", leanStr(rel), leanStr(n), strings.Join(q, ", ")))
		}
		// logger discipline: methods of *Logger that assign to a field of the receiver
		if rel == "internal/xlog" {
			for _, f := range p.files {
				for _, d := range f.Decls {
					fd, ok := d.(*ast.FuncDecl)
					if !ok || fd.Recv == nil || fd.Body == nil || len(fd.Recv.List) == 0 || len(fd.Recv.List[0].Names) == 0 {
						continue
					}
					recv := fd.Recv.List[0].Names[0].Name
					writesField, locks := false, false
					ast.Inspect(fd.Body, func(n ast.Node) bool {
						switch x := n.(type) {
						case *ast.AssignStmt:
							for _, l := range x.Lhs {
								if _, isSel := l.(*ast.SelectorExpr); isSel {
									if id := rootIdent(l); id != nil && id.Name == recv {
										writesField = true
									}
								}
							}
						case *ast.CallExpr:
							if se, ok := x.Fun.(*ast.SelectorExpr); ok && se.Sel.Name == "Lock" {
								if id := rootIdent(se.X); id != nil && id.Name == recv {
									locks = true
								}
							}
						}
						return true
					})
					lrows = append(lrows, fmt.Sprintf("(%s, %v, %v)", leanStr(fd.Name.Name), writesField, locks))
				}
			}
		}
	}
	var sb strings.Builder
	sb.WriteString("/- GENERATED by harness `xzh gen` from /repo (T-facts: go/ast). Do not edit. -/\nnamespace Gen\n\n")
	fmt.Fprintf(&sb, "/-- (package, variable, places that may write to it after initialisation) -/\ndef globals : List (String × String × List String) :=\n  [%s]\n\n", strings.Join(rows, ",\n   "))
	fmt.Fprintf(&sb, "/-- (package, imported path) -/\ndef imports : List (String × String) :=\n  [%s]\n\n", strings.Join(irows, ",\n   "))
	fmt.Fprintf(&sb, "/-- (package, function, variable): range loops over a package-level variable -/\ndef globalRanges : List (String × String × String) :=\n  [%s]\n\n", strings.Join(mrows, ",\n   "))
	sort.Strings(lrows)
	fmt.Fprintf(&sb, "/-- methods of xlog.Logger: (name, assigns to a receiver field, takes the receiver's mutex) -/\ndef loggerMethods : List (String × Bool × Bool) :=\n  [%s]\n\nend Gen\n", strings.Join(lrows, ",\n   "))
	return os.WriteFile(filepath.Join(dir, "Globals.lean"), []byte(sb.String()), 0o644)
}

func isTopLevel(f *ast.File, vs *ast.ValueSpec) bool {
	for _, d := range f.Decls {
		if gd, ok := d.(*ast.GenDecl); ok {
			for _, s := range gd.Specs {
				if s == vs {
					return true
				}
			}
		}
	}
	return false
}

// genErrFlow: how every error produced by a call is consumed, in the functions of the files
// anchored by C09.
func genErrFlow(dir string) error {
	anchored := map[string]map[string]string{
		".":    {"writer.go": "write", "reader.go": "read", "format.go": "both", "lzmafilter.go": "both"},
		"lzma": {"writer2.go": "write", "writer.go": "write", "encoder.go": "write", "rangecodec.go": "both", "bytewriter.go": "write", "encoderdict.go": "write", "reader2.go": "read", "reader.go": "read", "breader.go": "read", "decoder.go": "read", "header2.go": "both"},
	}
	errType := types.Universe.Lookup("error").Type()
	var rows []string
	for _, rel := range []string{".", "lzma"} {
		p, err := loadPkg(rel)
		if err != nil {
			return err
		}
		conf := types.Config{Importer: importer.ForCompiler(p.fset, "source", nil), Error: func(error) {}}
		info := &types.Info{Types: map[ast.Expr]types.TypeAndValue{}, Uses: map[*ast.Ident]types.Object{}, Defs: map[*ast.Ident]types.Object{}}
		path := "github.com/ulikunitz/xz"
		if rel != "." {
			path += "/" + rel
		}
		conf.Check(path, p.fset, p.files, info)
		hasErr := func(call *ast.CallExpr) (idx int, n int) {
			tv, ok := info.Types[call]
			if !ok {
				return -1, 0
			}
			switch t := tv.Type.(type) {
			case *types.Tuple:
				for i := 0; i < t.Len(); i++ {
					if types.Identical(t.At(i).Type(), errType) {
						return i, t.Len()
					}
				}
			default:
				if tv.Type != nil && types.Identical(tv.Type, errType) {
					return 0, 1
				}
			}
			return -1, 0
		}
		callee := func(call *ast.CallExpr) string {
			switch f := call.Fun.(type) {
			case *ast.Ident:
				return f.Name
			case *ast.SelectorExpr:
				// methods of hash.Hash* values and of bytes.Buffer are named by the receiver's TYPE, so that the
				// whitelist of calls that cannot fail does not depend on how a variable or field happens to be called
				if tv, ok := info.Types[f.X]; ok && tv.Type != nil {
					ts := tv.Type.String()
					ts = strings.TrimPrefix(ts, "*")
					switch ts {
					case "hash.Hash", "hash.Hash32", "hash.Hash64", "bytes.Buffer":
						return "(" + ts + ")." + f.Sel.Name
					}
				}
				return exprStr(f.X) + "." + f.Sel.Name
			}
			return "?"
		}
		for fi, f := range p.files {
			path, ok := anchored[rel][p.names[fi]]
			if !ok {
				continue
			}
			for _, d := range f.Decls {
				fd, ok := d.(*ast.FuncDecl)
				if !ok || fd.Body == nil {
					continue
				}
				fname := fd.Name.Name
				if fd.Recv != nil && len(fd.Recv.List) > 0 {
					fname = exprStr(fd.Recv.List[0].Type) + "." + fname
				}
				add := func(call *ast.CallExpr, disp string) {
					rows = append(rows, fmt.Sprintf("(%s, %s, %s, %s, %s)", leanStr(rel+"/"+p.names[fi]), leanStr(path), leanStr(fname), leanStr(callee(call)), leanStr(disp)))
				}
				// returns error?
				retErrIdx := -1
				if fd.Type.Results != nil {
					i := 0
					for _, fl := range fd.Type.Results.List {
						k := len(fl.Names)
						if k == 0 {
							k = 1
						}
						if tv, ok := info.Types[fl.Type]; ok && types.Identical(tv.Type, errType) {
							retErrIdx = i + k - 1
						}
						i += k
					}
				}
				ast.Inspect(fd.Body, func(n ast.Node) bool {
					switch x := n.(type) {
					case *ast.ExprStmt:
						if call, ok := x.X.(*ast.CallExpr); ok {
							if i, _ := hasErr(call); i >= 0 {
								add(call, "dropped")
							}
						}
					case *ast.DeferStmt:
						if i, _ := hasErr(x.Call); i >= 0 {
							add(x.Call, "dropped-in-defer")
						}
					case *ast.AssignStmt:
						if len(x.Rhs) == 1 {
							if call, ok := x.Rhs[0].(*ast.CallExpr); ok {
								if i, n := hasErr(call); i >= 0 && len(x.Lhs) == n {
									if id, ok := x.Lhs[i].(*ast.Ident); ok && id.Name == "_" {
										add(call, "blank")
									} else {
										add(call, "bound")
									}
								}
							}
						}
					case *ast.ReturnStmt:
						for _, r := range x.Results {
							if call, ok := r.(*ast.CallExpr); ok {
								if i, _ := hasErr(call); i >= 0 {
									add(call, "returned")
								}
							}
						}
					case *ast.IfStmt:
						// `if <e> != nil { … return …, nil }` where <e> is an error and the
						// function's error result is the literal nil: the error is replaced by nil
						if be, ok := x.Cond.(*ast.BinaryExpr); ok && be.Op == token.NEQ && retErrIdx >= 0 {
							if tv, ok := info.Types[be.X]; ok && tv.Type != nil && types.Identical(tv.Type, errType) {
								if id, ok := be.Y.(*ast.Ident); ok && id.Name == "nil" {
									for _, st := range x.Body.List {
										if rs, ok := st.(*ast.ReturnStmt); ok && len(rs.Results) > retErrIdx {
											if rid, ok := rs.Results[retErrIdx].(*ast.Ident); ok && rid.Name == "nil" {
												rows = append(rows, fmt.Sprintf("(%s, %s, %s, %s, %s)", leanStr(rel+"/"+p.names[fi]), leanStr(path), leanStr(fname), leanStr(exprStr(be.X)), leanStr("replaced-by-nil")))
											}
										}
									}
								}
							}
						}
					}
					return true
				})
			}
		}
	}
	sort.Strings(rows)
	var sb strings.Builder
	sb.WriteString("/- GENERATED by harness `xzh gen` from /repo (T-facts: go/types). Do not edit. -/\nnamespace Gen\n\n")
	var parts []string
	for i := 0; i < len(rows); i += 40 {
		j := i + 40
		if j > len(rows) {
			j = len(rows)
		}
		pn := fmt.Sprintf("errFlow_%d", i/40)
		fmt.Fprintf(&sb, "def %s : List (String × String × String × String × String) :=\n  [%s]\n\n", pn, strings.Join(rows[i:j], ",\n   "))
		parts = append(parts, pn)
	}
	fmt.Fprintf(&sb, "/-- (file, path read|write|both, function, callee or error expression, disposition) for every call that\n    yields an error in the files anchored by C09 -/\ndef errFlow : List (String × String × String × String × String) :=\n  %s\n\nend Gen\n", strings.Join(parts, " ++ "))
	return os.WriteFile(filepath.Join(dir, "ErrFlow.lean"), []byte(sb.String()), 0o644)
}

// genPanicSites: every explicit panic( … ) in the packages the readers run through, with the
// enclosing function (C11: each listed site needs an argument why no input reaches it).
func genPanicSites(dir string) error {
	var rows []string
	for _, rel := range []string{".", "lzma"} {
		p, err := loadPkg(rel)
		if err != nil {
			return err
		}
		for fi, f := range p.files {
			for _, d := range f.Decls {
				fd, ok := d.(*ast.FuncDecl)
				if !ok || fd.Body == nil {
					continue
				}
				fname := fd.Name.Name
				if fd.Recv != nil && len(fd.Recv.List) > 0 {
					fname = exprStr(fd.Recv.List[0].Type) + "." + fname
				}
				n := 0
				ast.Inspect(fd.Body, func(nd ast.Node) bool {
					if call, ok := nd.(*ast.CallExpr); ok {
						if id, ok := call.Fun.(*ast.Ident); ok && id.Name == "panic" {
							n++
						}
					}
					return true
				})
				if n > 0 {
					rows = append(rows, fmt.Sprintf("(%s, %s, %d)", leanStr(rel+"/"+p.names[fi]), leanStr(fname), n))
				}
			}
		}
	}
	sort.Strings(rows)
	var sb strings.Builder
	sb.WriteString("/- GENERATED by harness `xzh gen` from /repo (T-facts: go/ast). Do not edit. -/\nnamespace Gen\n\n")
	fmt.Fprintf(&sb, "/-- (file, function, number of explicit panic calls) in packages xz and lzma -/\ndef panicSites : List (String × String × Nat) :=\n  [%s]\n\nend Gen\n", strings.Join(rows, ",\n   "))
	return os.WriteFile(filepath.Join(dir, "PanicSites.lean"), []byte(sb.String()), 0o644)
}

// genSrcReads: every place where the packages xz and lzma can touch a caller-supplied SOURCE: calls of a method Read /
// ReadByte on a value whose static type is an interface (io.Reader, io.ByteReader, a chunk reader …), and calls of the
// io / bufio / ioutil functions that read from one. Property C13 (fragmentation independence) rests on the fact that the
// source is only reached through io.ReadFull, io.CopyN, io.LimitReader, io.TeeReader and the one-byte reads of
// breader.ReadByte (Model/Src.lean); Props/C13.lean pins the list.
func genSrcReads(dir string) error {
	var rows, wrows []string
	for _, rel := range []string{".", "lzma"} {
		p, err := loadPkg(rel)
		if err != nil {
			return err
		}
		conf := types.Config{Importer: importer.ForCompiler(p.fset, "source", nil), Error: func(error) {}}
		info := &types.Info{Types: map[ast.Expr]types.TypeAndValue{}, Uses: map[*ast.Ident]types.Object{}, Defs: map[*ast.Ident]types.Object{}, Selections: map[*ast.SelectorExpr]*types.Selection{}}
		path := "github.com/ulikunitz/xz"
		if rel != "." {
			path += "/" + rel
		}
		conf.Check(path, p.fset, p.files, info)
		for fi, f := range p.files {
			for _, d := range f.Decls {
				fd, ok := d.(*ast.FuncDecl)
				if !ok || fd.Body == nil {
					continue
				}
				fname := fd.Name.Name
				if fd.Recv != nil && len(fd.Recv.List) > 0 {
					fname = exprStr(fd.Recv.List[0].Type) + "." + fname
				}
				ast.Inspect(fd.Body, func(nd ast.Node) bool {
					call, ok := nd.(*ast.CallExpr)
					if !ok {
						return true
					}
					sel, ok := call.Fun.(*ast.SelectorExpr)
					if !ok {
						return true
					}
					// package functions that read from an io.Reader
					if id, ok := sel.X.(*ast.Ident); ok {
						if pn, ok := info.Uses[id].(*types.PkgName); ok {
							switch pn.Imported().Path() {
							case "io", "bufio", "io/ioutil":
								switch sel.Sel.Name {
								case "ReadFull", "ReadAtLeast", "ReadAll", "Copy", "CopyN", "CopyBuffer", "LimitReader", "TeeReader", "NewReader", "NewReaderSize", "MultiReader", "NewSectionReader":
									rows = append(rows, fmt.Sprintf("(%s, %s, %s)", leanStr(rel+"/"+p.names[fi]), leanStr(fname), leanStr(pn.Imported().Path()+"."+sel.Sel.Name)))
								}
								switch sel.Sel.Name {
								case "Copy", "CopyN", "CopyBuffer", "WriteString", "MultiWriter", "NewWriter", "NewWriterSize":
									wrows = append(wrows, fmt.Sprintf("(%s, %s, %s)", leanStr(rel+"/"+p.names[fi]), leanStr(fname), leanStr(pn.Imported().Path()+"."+sel.Sel.Name)))
								}
							}
							return true
						}
					}
					isRead := sel.Sel.Name == "Read" || sel.Sel.Name == "ReadByte"
					isWrite := sel.Sel.Name == "Write" || sel.Sel.Name == "WriteByte" || sel.Sel.Name == "WriteString" || sel.Sel.Name == "Flush"
					if !isRead && !isWrite {
						return true
					}
					tv, ok := info.Types[sel.X]
					if !ok || tv.Type == nil {
						return true
					}
					_, isIface := tv.Type.Underlying().(*types.Interface)
					ts := strings.TrimPrefix(tv.Type.String(), "*")
					row := fmt.Sprintf("(%s, %s, %s)", leanStr(rel+"/"+p.names[fi]), leanStr(fname), leanStr("("+tv.Type.String()+")."+sel.Sel.Name))
					if isRead && isIface {
						rows = append(rows, row)
					}
					// the sink: interface-typed writers (hash.Hash* are interfaces too, but cannot fail and are not sinks) and bufio.Writer
					if isWrite && ((isIface && !strings.HasPrefix(ts, "hash.")) || ts == "bufio.Writer") {
						wrows = append(wrows, row)
					}
					return true
				})
			}
		}
	}
	sort.Strings(rows)
	sort.Strings(wrows)
	var sb strings.Builder
	sb.WriteString("/- GENERATED by harness `xzh gen` from /repo (T-facts: go/types). Do not edit. -/\nnamespace Gen\n\n")
	fmt.Fprintf(&sb, "/-- (file, function, callee): calls of Write / WriteByte / Flush on interface-typed values (hash.Hash excluded) and on\n    bufio.Writer, and of the io / bufio functions that write to an io.Writer, in packages xz and lzma -/\ndef sinkWrites : List (String × String × String) :=\n  [%s]\n\n", strings.Join(wrows, ",\n   "))
	fmt.Fprintf(&sb, "/-- (file, function, callee): calls of Read / ReadByte on interface-typed values and of the io / bufio functions that\n    read from an io.Reader, in packages xz and lzma -/\ndef srcReads : List (String × String × String) :=\n  [%s]\n\nend Gen\n", strings.Join(rows, ",\n   "))
	return os.WriteFile(filepath.Join(dir, "SrcReads.lean"), []byte(sb.String()), 0o644)
}

func exprStr(e ast.Expr) string {
	switch x := e.(type) {
	case *ast.Ident:
		return x.Name
	case *ast.SelectorExpr:
		return exprStr(x.X) + "." + x.Sel.Name
	case *ast.StarExpr:
		return exprStr(x.X)
	case *ast.CallExpr:
		return exprStr(x.Fun) + "()"
	case *ast.IndexExpr:
		return exprStr(x.X) + "[]"
	case *ast.ParenExpr:
		return exprStr(x.X)
	case *ast.UnaryExpr:
		return x.Op.String() + exprStr(x.X)
	}
	return "?"
}
