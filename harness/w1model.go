package main

import (
	"bytes"
	"fmt"
	"strings"

	"github.com/ulikunitz/xz/lzma"
)

// Functional correspondence of Model/Writer1.lean (classic lzma.Writer: fill(), header, explicit-size contract,
// encoder loop without byte limit, end marker, Close) with the real writer: the real match finder's proposals are
// recorded and replayed into the model, which must predict every call's (n, error class) and the stream bytes.

type w1Case struct {
	Op     string   `json:"op"`
	Cfg    lzCfg    `json:"cfg"`
	Writes []string `json:"writes_hex"`
}

func w1Err(res callRes) string {
	switch {
	case res.Err == "nil":
		return "ok"
	case res.Err == "Panic":
		return "panic"
	case res.Msg == lzma.ErrNoSpace.Error():
		return "nospace"
	case strings.Contains(res.Msg, "size"):
		return "size"
	}
	return "other"
}

func runW1Model(r *Result, dp *DriverPool, cs w1Case) {
	var buf bytes.Buffer
	w, ops, err := lzma.VerifNewRecWriter(&buf, cs.Cfg.config())
	if err != nil {
		return // invalid configuration: judged elsewhere
	}
	var goCalls, calls []string
	failed := false
	for _, h := range cs.Writes {
		p := unhxe(h)
		res := guard(func() (int, error) { return w.Write(p) })
		goCalls = append(goCalls, fmt.Sprintf("%d:%s", res.N, w1Err(res)))
		calls = append(calls, "W"+hxe(p))
		if e := w1Err(res); e != "ok" && e != "nospace" {
			failed = true
			break
		}
	}
	closed := false
	if !failed {
		res := guard(func() (int, error) { return 0, w.Close() })
		goCalls = append(goCalls, fmt.Sprintf("0:%s", w1Err(res)))
		calls = append(calls, "C")
		closed = res.Err == "nil"
	}
	c := cs.Cfg
	rep, err := dp.Ask(fmt.Sprintf("w1run %d %d %d %d %d %d %s %s", (c.PB*5+c.LP)*9+c.LC, c.DictCap, c.BufSize, b2i(c.SizeInHeader), c.Size, b2i(c.EOSMarker),
		vopsString(*ops), strings.Join(calls, " ")))
	if err != nil {
		r.Violate("broken-correspondence", "driver", cs, err.Error())
		return
	}
	parts := strings.Split(rep, " | ")
	if len(parts) != 2 {
		r.Violate("broken-correspondence", "writer1-model: bad driver reply", cs, truncate(rep, 200))
		return
	}
	r.mu.Lock()
	r.TracesVsImpl++
	r.mu.Unlock()
	r.Inc("writer1_model_histories")
	m := strings.Fields(parts[0])
	for i, g := range goCalls {
		if i >= len(m) || m[i] != g {
			got := "<none>"
			if i < len(m) {
				got = m[i]
			}
			r.Violate("broken-correspondence", "writer1-model call result", cs,
				fmt.Sprintf("call %d: the real lzma.Writer returned n:err = %s, the Lean model of the classic writer (fed the real match finder's proposals) says %s", i, g, got))
			return
		}
	}
	if closed && parts[1] != hxe(buf.Bytes()) {
		r.Violate("broken-correspondence", "writer1-model stream bytes", cs,
			fmt.Sprintf("the Lean model of the classic writer predicts a different stream (%d bytes real, model %s...)", buf.Len(), truncate(parts[1], 40)))
	}
}

// runW1Auto: the Lean classic-writer model with its own match finder model (HashTable4 / BinaryTree) computes the stream
// from the call history alone; it must equal the real lzma.Writer's results call by call and its stream byte for byte.
func runW1Auto(r *Result, dp *DriverPool, cs w1Case) {
	c := cs.Cfg
	tot := 0
	for _, h := range cs.Writes {
		tot += len(h) / 2
	}
	if c.DictCap > 8192 || tot > 30000 || (c.Matcher == 1 && tot > 9000) {
		return // the Lean state is copied once per proposal: small configurations only
	}
	var buf bytes.Buffer
	w, err := c.config().NewWriter(&buf)
	if err != nil {
		return
	}
	var goCalls, calls []string
	failed := false
	for _, h := range cs.Writes {
		p := unhxe(h)
		res := guard(func() (int, error) { return w.Write(p) })
		goCalls = append(goCalls, fmt.Sprintf("%d:%s", res.N, w1Err(res)))
		calls = append(calls, "W"+hxe(p))
		if e := w1Err(res); e != "ok" && e != "nospace" {
			failed = true
			break
		}
	}
	closed := false
	if !failed {
		res := guard(func() (int, error) { return 0, w.Close() })
		goCalls = append(goCalls, fmt.Sprintf("0:%s", w1Err(res)))
		calls = append(calls, "C")
		closed = res.Err == "nil"
	}
	rep, err := dp.Ask(fmt.Sprintf("w1auto %d %d %d %d %d %d %d %s", c.Matcher, (c.PB*5+c.LP)*9+c.LC, c.DictCap, c.BufSize, b2i(c.SizeInHeader), c.Size, b2i(c.EOSMarker), strings.Join(calls, " ")))
	if err != nil {
		r.Violate("broken-correspondence", "driver", cs, err.Error())
		return
	}
	parts := strings.Split(rep, " | ")
	if len(parts) != 2 {
		r.Violate("broken-correspondence", "writer1-auto: bad driver reply", cs, truncate(rep, 200))
		return
	}
	r.mu.Lock()
	r.TracesVsImpl++
	r.mu.Unlock()
	r.Inc(fmt.Sprintf("writer1_auto_histories_matcher%d", c.Matcher))
	m := strings.Fields(parts[0])
	for i, g := range goCalls {
		if i >= len(m) || m[i] != g {
			got := "<none>"
			if i < len(m) {
				got = m[i]
			}
			r.Violate("broken-correspondence", fmt.Sprintf("writer1-auto call result (Lean match finder model %d)", c.Matcher), cs,
				fmt.Sprintf("call %d: the real lzma.Writer returned n:err = %s, the Lean classic-writer model computing its own proposals says %s", i, g, got))
			return
		}
	}
	if closed && parts[1] != hxe(buf.Bytes()) {
		r.Violate("broken-correspondence", fmt.Sprintf("writer1-auto stream bytes (Lean match finder model %d)", c.Matcher), cs,
			fmt.Sprintf("the Lean classic-writer model with its own match finder model produces a different stream (%d bytes real)", buf.Len()))
	}
}
