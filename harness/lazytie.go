package main

import (
	"bytes"
	"errors"
	"fmt"
	"io"
	"math/rand"
	"os"
	"path/filepath"
	"strings"
	"sync"
	"time"

	"github.com/ulikunitz/xz"
	"github.com/ulikunitz/xz/lzma"
)

// Functional correspondence of the LAZY classic reader model (Model/LazyDec.lean: decoder.Read / decompress / readOp /
// apply on the decoder dictionary's ring, NewReader) with the real lzma.Reader: the same stream — valid, truncated or
// damaged — is read with the same schedule of buffer lengths; per call the count and the status (nil, io.EOF, or the
// error) and all delivered bytes must be equal. A change of the refill threshold, of the ring arithmetic, of the size /
// end-marker handling or of what a call returns when an error strikes moves this tie.

type lazyCase struct {
	Op      string `json:"op"`
	Name    string `json:"name"`
	Stream  string `json:"stream_hex"`
	DictCap int    `json:"reader_dict_cap"`
	Sizes   []int  `json:"read_sizes"`
	// 0: the source ends with io.EOF; 1..3: it FAILS with an error of its own once all bytes have been delivered
	// (1: as much as asked per Read, 2: one byte per Read, 3: short reads of varying length). The model is then run with
	// srcErr = true (commands lzlazyE …). The error arrives alone: a source that returns it together with its last
	// bytes is told apart by io.Copy (uncompressed LZMA2 chunks) and is left to the direct oracle of C09.
	SrcFail int `json:"src_fail,omitempty"`
}

var errLazySrc = errors.New("verif: injected source failure")

// lazySrc: the source of a lazy-tie case. Without failure a bytes.Reader (an io.ByteReader, as most callers pass);
// with failure a plain io.Reader that fragments as the mode says and never reports io.EOF.
type lazySrc struct {
	data []byte
	pos  int
	mode int
	x    uint32
}

func (f *lazySrc) Read(p []byte) (int, error) {
	if f.pos >= len(f.data) {
		return 0, errLazySrc
	}
	n := len(p)
	switch f.mode {
	case 2:
		if n > 1 {
			n = 1
		}
	case 3:
		f.x = f.x*1664525 + 1013904223
		if m := int(f.x>>16)%97 + 1; n > m {
			n = m
		}
	}
	if n > len(f.data)-f.pos {
		n = len(f.data) - f.pos
	}
	copy(p, f.data[f.pos:f.pos+n])
	f.pos += n
	return n, nil
}

func eSuffix(srcFail int) string {
	if srcFail != 0 {
		return "E"
	}
	return ""
}

func newLazySrc(stream []byte, mode int) io.Reader {
	if mode == 0 {
		return bytes.NewReader(stream)
	}
	return &lazySrc{data: stream, mode: mode, x: uint32(len(stream))}
}

func lazyStatus(err error) string {
	switch {
	case err != nil && errors.Is(err, errLazySrc):
		return "src"
	case err == nil:
		return "ok"
	case err == io.EOF:
		return "EOF"
	case err == io.ErrUnexpectedEOF:
		return "UnexpectedEOF"
	}
	switch err.Error() {
	case "lzma: wrong uncompressed data size":
		return "size"
	case "lzma: data after end of stream marker":
		return "dataAfterEOS"
	case lzma.ErrNoSpace.Error():
		return "noSpace"
	case "writeMatch: distance out of range":
		return "distRange"
	case "writeMatch: length out of range":
		return "lenRange"
	}
	return "other(" + strings.ReplaceAll(err.Error(), " ", "_") + ")"
}

func goLazy(cs lazyCase) (calls []string, delivered []byte, openErr string) {
	defer func() {
		if p := recover(); p != nil {
			calls = append(calls, "0:panic")
		}
	}()
	rd, err := lzma.ReaderConfig{DictCap: cs.DictCap}.NewReader(newLazySrc(unhxe(cs.Stream), cs.SrcFail))
	if err != nil {
		if errors.Is(err, errLazySrc) {
			return nil, nil, "src"
		}
		return nil, nil, err.Error()
	}
	more := 3 // calls still to be made after an error (the caller ignoring it): results must equal the model's, no panic
	if cs.SrcFail != 0 {
		more = 0 // what was half decoded when the source failed is not modelled
	}
	for _, sz := range cs.Sizes {
		p := make([]byte, sz)
		n, err := rd.Read(p)
		delivered = append(delivered, p[:n]...)
		calls = append(calls, fmt.Sprintf("%d:%s", n, lazyStatus(err)))
		if err != nil && err != io.EOF {
			if more == 0 {
				break
			}
			more--
			continue // after io.EOF the schedule goes on: end of stream must be stable
		}
	}
	return calls, delivered, ""
}

func lazyTie(r *Result, dp *DriverPool, rng *rand.Rand, nbase int) {
	var cases []lazyCase
	mk := func(name string, stream []byte, content int) {
		caps := []int{4096, 4096, 5000, 1 << 16, 4097, 0}
		for v := 0; v < 3; v++ {
			var sizes []int
			budget := content + 600
			switch v {
			case 0:
				sz := []int{1, 273, 4095, 4096, 4097, 100000}[rng.Intn(6)]
				for budget > 0 {
					sizes = append(sizes, sz)
					budget -= sz
				}
				if len(sizes) > 3000 {
					sizes = sizes[:3000]
				}
			default:
				for budget > 0 && len(sizes) < 400 {
					sz := []int{0, 1, 2, 272, 273, 274, 1000, 3823, 3824, 4096, rng.Intn(9000)}[rng.Intn(11)]
					sizes = append(sizes, sz)
					budget -= sz
				}
			}
			sizes = append(sizes, 7, 0, 7) // past the end: end of stream must be stable
			cases = append(cases, lazyCase{Op: "lazy-read", Name: name, Stream: hxe(stream), DictCap: caps[rng.Intn(len(caps))], Sizes: sizes})
		}
		// the same bytes, mostly cut somewhere, from a source that FAILS where they end (C09, reader side)
		{
			cut := stream
			if rng.Intn(4) != 0 {
				cut = stream[:rng.Intn(len(stream)+1)]
			}
			var sizes []int
			for budget := content + 600; budget > 0 && len(sizes) < 400; {
				sz := []int{1, 2, 273, 1000, 4096, 1 + rng.Intn(9000)}[rng.Intn(6)]
				sizes = append(sizes, sz)
				budget -= sz
			}
			cases = append(cases, lazyCase{Op: "lazy-read", Name: "srcfail/" + name, Stream: hxe(cut), DictCap: caps[rng.Intn(len(caps))], Sizes: sizes, SrcFail: 1 + rng.Intn(3)})
		}
	}
	for i := 0; i < nbase; i++ {
		name, data := pickData(rng, 30000)
		if i%5 == 0 {
			// literal prefix + long runs: every fill level of the ring modulo the maximal match length
			k := rng.Intn(273)
			data = append(genRandom(rng, k), make([]byte, 9000+rng.Intn(6000))...)
			name = fmt.Sprintf("prefix%d+zeros", k)
		}
		var buf bytes.Buffer
		cfg := lzma.WriterConfig{Properties: &lzma.Properties{LC: rng.Intn(9), LP: rng.Intn(5), PB: rng.Intn(5)}, DictCap: []int{4096, 4097, 8192, 65536}[rng.Intn(4)], Matcher: []lzma.MatchAlgorithm{lzma.HashTable4, lzma.BinaryTree}[rng.Intn(2)]}
		mode := rng.Intn(3)
		switch mode {
		case 0:
			cfg.EOSMarker = true
		case 1:
			cfg.SizeInHeader, cfg.Size = true, int64(len(data))
		default:
			cfg.SizeInHeader, cfg.Size, cfg.EOSMarker = true, int64(len(data)), true
		}
		w, err := cfg.NewWriter(&buf)
		if err != nil {
			continue
		}
		w.Write(data)
		if w.Close() != nil {
			continue
		}
		s := buf.Bytes()
		mk(fmt.Sprintf("lib/%s/mode%d", name, mode), s, len(data))
		// damaged variants: truncation, a flipped bit, a wrong declared size, bytes appended
		switch i % 4 {
		case 0:
			mk("truncated/"+name, s[:rng.Intn(len(s)+1)], len(data))
		case 1:
			m := append([]byte{}, s...)
			m[rng.Intn(len(m))] ^= 1 << uint(rng.Intn(8))
			mk("bitflip/"+name, m, len(data))
		case 2:
			if mode != 0 {
				m := append([]byte{}, s...)
				d := int64(len(data)) + int64(rng.Intn(5)) - 2
				if d < 0 {
					d = 0
				}
				for j := 0; j < 8; j++ {
					m[5+j] = byte(d >> (8 * uint(j)))
				}
				mk("wrong-size/"+name, m, len(data))
			}
		default:
			mk("appended/"+name, append(append([]byte{}, s...), genRandom(rng, 1+rng.Intn(8))...), len(data))
		}
	}
	for _, b := range corpusStreams(30000) {
		if b.Kind == "lzma" && rng.Intn(2) == 0 {
			mk("liblzma/"+b.Name, b.Stream, len(b.Content))
		}
	}
	// corpus of past failures of the tie: a crafted stream on which the range decoder reaches `code = range - 1` with an
	// odd range right before a direct bit; afterwards `code >= range` and the uint32 arithmetic of the real decoder matters
	// (the Nat-level decoder model of rounds 1-8 delivered 130 KB here where the real reader reports a distance error)
	if raw, err := os.ReadFile(filepath.Join(verifRoot(), "corpus", "rc-code-ge-range.lzma.hex")); err == nil {
		st := unhx(strings.TrimSpace(string(raw)))
		for _, sizes := range [][]int{{100000, 100000, 100000}, {4096, 4096, 4096, 100000, 100000}, {1, 273, 100000, 100000}} {
			cases = append(cases, lazyCase{Op: "lazy-read", Name: "corpus/rc-code-ge-range", Stream: hxe(st), DictCap: 4096, Sizes: sizes})
		}
	}
	var wg sync.WaitGroup
	sem := make(chan struct{}, 16)
	for _, cs := range cases {
		wg.Add(1)
		sem <- struct{}{}
		go func(cs lazyCase) {
			defer wg.Done()
			defer func() { <-sem }()
			goCalls, delivered, openErr := goLazy(cs)
			q := fmt.Sprintf("lzlazy%s %d %s", eSuffix(cs.SrcFail), cs.DictCap, cs.Stream)
			for _, s := range cs.Sizes {
				q += fmt.Sprint(" ", s)
			}
			rep, err := dp.Ask(q)
			if err != nil {
				r.Violate("broken-correspondence", "driver", cs, err.Error())
				return
			}
			r.mu.Lock()
			r.TracesVsImpl++
			r.mu.Unlock()
			r.Inc("lazy_reader_runs")
			r.Inc("lazy_" + strings.SplitN(cs.Name, "/", 2)[0])
			if strings.HasPrefix(rep, "open:") || openErr != "" {
				if !strings.HasPrefix(rep, "open:") || openErr == "" || (rep == "open:src") != (openErr == "src") {
					r.Violate("broken-correspondence", "lazy-reader open", cs, fmt.Sprintf("NewReader: go %q, model %q", openErr, truncate(rep, 80)))
				}
				return
			}
			parts := strings.Split(rep, " | ")
			if len(parts) < 2 {
				r.Violate("broken-correspondence", "lazy-reader: bad driver reply", cs, truncate(rep, 200))
				return
			}
			if len(goCalls) > 0 {
				r.Inc("lazy_final_" + strings.SplitN(goCalls[len(goCalls)-1], ":", 2)[1])
			}
			mCalls := strings.Fields(parts[0])
			for i := range goCalls {
				if i >= len(mCalls) || mCalls[i] != goCalls[i] {
					got := "<none>"
					if i < len(mCalls) {
						got = mCalls[i]
					}
					kind := "broken-correspondence"
					if strings.HasSuffix(goCalls[i], ":panic") || strings.HasSuffix(goCalls[i], ":noSpace") {
						kind = "counterexample"
					}
					r.Violate(kind, "lazy-reader call result "+strings.SplitN(cs.Name, "/", 2)[0], cs,
						fmt.Sprintf("call %d (buffer %d): real lzma.Reader returned n:status = %s, the lazy reader model (Model/LazyDec.lean) says %s", i, cs.Sizes[i], goCalls[i], got))
					return
				}
			}
			if len(mCalls) != len(goCalls) {
				r.Violate("broken-correspondence", "lazy-reader call count", cs, fmt.Sprintf("go made %d calls before stopping, the model %d", len(goCalls), len(mCalls)))
				return
			}
			if strings.TrimSpace(parts[1]) != hxe(delivered) {
				r.Violate("broken-correspondence", "lazy-reader delivered bytes", cs, fmt.Sprintf("go delivered %d bytes, the model %d", len(delivered), len(unhxe(strings.TrimSpace(parts[1])))))
			}
		}(cs)
	}
	wg.Wait()
}

// ---- the lazy LZMA2 reader (Model/LazyDec2.lean) against lzma.Reader2 ----

func lazy2Status(err error) string {
	if err == nil || err == io.EOF || err == io.ErrUnexpectedEOF {
		return lazyStatus(err)
	}
	switch err.Error() {
	case "lzma: unexpected chunk type":
		return "other(unexpected_chunk_type)"
	case "lzma: invalid properties code":
		return "other(invalid_properties_code)"
	}
	s := lazyStatus(err)
	if strings.HasPrefix(s, "other(") {
		if strings.Contains(s, "unsupported_chunk_header") {
			return "other(unsupported_chunk_header_byte)"
		}
		if strings.Contains(s, "first_byte_not_zero") || strings.Contains(s, "newRangeDecoder") || strings.Contains(s, "range_decoder") {
			return "other(range_decoder_init)"
		}
	}
	return s
}

func goLazy2(cs lazyCase) (calls []string, delivered []byte) {
	defer func() {
		if p := recover(); p != nil {
			calls = append(calls, "0:panic")
		}
	}()
	rd, err := lzma.Reader2Config{DictCap: cs.DictCap}.NewReader2(newLazySrc(unhxe(cs.Stream), cs.SrcFail))
	if err != nil {
		return []string{"0:open"}, nil
	}
	more := 3 // calls still to be made after an error (the caller ignoring it): results must equal the model's, no panic
	if cs.SrcFail != 0 {
		more = 0 // what was half decoded when the source failed is not modelled
	}
	for _, sz := range cs.Sizes {
		p := make([]byte, sz)
		n, err := rd.Read(p)
		delivered = append(delivered, p[:n]...)
		calls = append(calls, fmt.Sprintf("%d:%s", n, lazy2Status(err)))
		if err != nil && err != io.EOF {
			if more == 0 {
				break
			}
			more--
			continue
		}
	}
	return calls, delivered
}

func lazy2Tie(r *Result, dp *DriverPool, rng *rand.Rand, nbase int) error {
	var cases []lazyCase
	mk := func(name string, stream []byte, content int) {
		caps := []int{4096, 4096, 5000, 1 << 16, 4097, 0}
		for v := 0; v < 3; v++ {
			var sizes []int
			budget := content + 600
			switch v {
			case 0:
				sz := []int{1, 273, 4095, 4096, 4097, 100000}[rng.Intn(6)]
				for budget > 0 {
					sizes = append(sizes, sz)
					budget -= sz
				}
				if len(sizes) > 3000 {
					sizes = sizes[:3000]
				}
			default:
				for budget > 0 && len(sizes) < 400 {
					sz := []int{0, 1, 2, 272, 273, 274, 1000, 3823, 3824, 4096, rng.Intn(9000)}[rng.Intn(11)]
					sizes = append(sizes, sz)
					budget -= sz
				}
			}
			sizes = append(sizes, 7, 0, 7)
			cases = append(cases, lazyCase{Op: "lazy2-read", Name: name, Stream: hxe(stream), DictCap: caps[rng.Intn(len(caps))], Sizes: sizes})
		}
		// the same bytes, mostly cut somewhere, from a source that FAILS where they end (C09, reader side)
		{
			cut := stream
			if rng.Intn(4) != 0 {
				cut = stream[:rng.Intn(len(stream)+1)]
			}
			var sizes []int
			for budget := content + 600; budget > 0 && len(sizes) < 400; {
				sz := []int{1, 2, 273, 1000, 4096, 1 + rng.Intn(9000)}[rng.Intn(6)]
				sizes = append(sizes, sz)
				budget -= sz
			}
			cases = append(cases, lazyCase{Op: "lazy2-read", Name: "srcfail/" + name, Stream: hxe(cut), DictCap: caps[rng.Intn(len(caps))], Sizes: sizes, SrcFail: 1 + rng.Intn(3)})
		}
	}
	for i := 0; i < nbase; i++ {
		var s []byte
		var content int
		name := ""
		if i%2 == 0 {
			// written by the library: several chunks incl. raw ones, flushes
			var buf bytes.Buffer
			t := lclppb[rng.Intn(len(lclppb))]
			cfg := lzma.Writer2Config{Properties: &lzma.Properties{LC: t[0], LP: t[1], PB: t[2]}, DictCap: []int{4096, 8192, 65536}[rng.Intn(3)], BufSize: 4096}
			w, err := cfg.NewWriter2(&buf)
			if err != nil {
				continue
			}
			for j := 0; j < 1+rng.Intn(3); j++ {
				var d []byte
				if rng.Intn(3) == 0 {
					d = genRandom(rng, rng.Intn(12000))
				} else {
					_, d = pickData(rng, 12000)
				}
				w.Write(d)
				content += len(d)
				if rng.Intn(2) == 0 {
					w.Flush()
				}
			}
			w.Close()
			s, name = buf.Bytes(), "lib"
		} else {
			// spec-encoder chunk sequences: all chunk kinds, resets, raw chunks, window-edge distances
			g := &opGen{rng: rng, dictSize: 4096}
			specs, kinds := genChunks(g, 1+rng.Intn(6), 60)
			rep, err := dp.Ask("lzma2build 4096 " + strings.Join(append(specs, "eos/-/-"), " "))
			if err != nil {
				return err
			}
			if rep == "bad-op" || strings.HasPrefix(rep, "fail") {
				continue
			}
			s, content, name = unhxe(rep), len(g.content), "spec/"+strings.Join(kinds, "+")
		}
		mk(name, s, content)
		switch i % 5 {
		case 0:
			mk("truncated/"+name, s[:rng.Intn(len(s)+1)], content)
		case 1:
			m := append([]byte{}, s...)
			m[rng.Intn(len(m))] ^= 1 << uint(rng.Intn(8))
			mk("bitflip/"+name, m, content)
		case 2:
			mk("appended/"+name, append(append([]byte{}, s...), genRandom(rng, 1+rng.Intn(8))...), content)
		case 3:
			mk("no-eos/"+name, s[:len(s)-1], content)
		case 4:
			// header fields of the first chunk: control byte, size bytes, properties byte
			m := append([]byte{}, s...)
			j := []int{0, 0, 1, 3, 4, 5, 5}[rng.Intn(7)]
			if j < len(m) {
				m[j] = byte(rng.Intn(256))
			}
			mk("header/"+name, m, content)
		}
	}
	// a compressed chunk whose range-coder start is short (declared size below five, or the input ends) with a zero or
	// a non-zero first byte: newRangeDecoder rejects the non-zero byte before it runs out of bytes
	for _, first := range []byte{0, 1} {
		for _, csz := range []int{1, 3, 5, 9} {
			for avail := 0; avail <= 5; avail++ {
				st := []byte{0xE0, 0, 0, 0, byte(csz - 1), 0x5D}
				st = append(st, append([]byte{first}, make([]byte, 8)...)[:avail]...)
				mk(fmt.Sprintf("short-init/first%d-csize%d-avail%d", first, csz, avail), st, 0)
			}
		}
	}
	var wg sync.WaitGroup
	sem := make(chan struct{}, 16)
	for _, cs := range cases {
		wg.Add(1)
		sem <- struct{}{}
		go func(cs lazyCase) {
			defer wg.Done()
			defer func() { <-sem }()
			goCalls, delivered := goLazy2(cs)
			q := fmt.Sprintf("lz2lazy%s %d %s", eSuffix(cs.SrcFail), cs.DictCap, cs.Stream)
			for _, s := range cs.Sizes {
				q += fmt.Sprint(" ", s)
			}
			rep, err := dp.Ask(q)
			if err != nil {
				r.Violate("broken-correspondence", "driver", cs, err.Error())
				return
			}
			r.mu.Lock()
			r.TracesVsImpl++
			r.mu.Unlock()
			r.Inc("lazy2_reader_runs")
			r.Inc("lazy2_" + strings.SplitN(cs.Name, "/", 2)[0])
			parts := strings.Split(rep, " | ")
			if len(parts) < 2 {
				r.Violate("broken-correspondence", "lazy2-reader: bad driver reply", cs, truncate(rep, 200))
				return
			}
			if len(goCalls) > 0 {
				r.Inc("lazy2_final_" + strings.SplitN(strings.SplitN(goCalls[len(goCalls)-1], ":", 2)[1], "(", 2)[0])
			}
			mCalls := strings.Fields(parts[0])
			for i := range goCalls {
				if i >= len(mCalls) || mCalls[i] != goCalls[i] {
					got := "<none>"
					if i < len(mCalls) {
						got = mCalls[i]
					}
					kind := "broken-correspondence"
					if strings.HasSuffix(goCalls[i], ":panic") || strings.HasSuffix(goCalls[i], ":noSpace") {
						kind = "counterexample"
					}
					r.Violate(kind, "lazy2-reader call result "+strings.SplitN(cs.Name, "/", 2)[0], cs,
						fmt.Sprintf("call %d (buffer %d): real lzma.Reader2 returned n:status = %s, the lazy LZMA2 reader model (Model/LazyDec2.lean) says %s", i, cs.Sizes[minInt(i, len(cs.Sizes)-1)], goCalls[i], got))
					return
				}
			}
			if len(mCalls) != len(goCalls) {
				r.Violate("broken-correspondence", "lazy2-reader call count", cs, fmt.Sprintf("go made %d calls before stopping, the model %d", len(goCalls), len(mCalls)))
				return
			}
			if strings.TrimSpace(parts[1]) != hxe(delivered) {
				r.Violate("broken-correspondence", "lazy2-reader delivered bytes", cs, fmt.Sprintf("go delivered %d bytes, the model %d", len(delivered), len(unhxe(strings.TrimSpace(parts[1])))))
			}
		}(cs)
	}
	wg.Wait()
	return nil
}

// ---- the lazy xz reader (Model/LazyXz.lean) against xz.Reader ----

type lazyXzCase struct {
	Op      string `json:"op"`
	Name    string `json:"name"`
	Stream  string `json:"stream_hex"`
	DictCap int    `json:"reader_dict_cap"`
	Single  bool   `json:"single_stream"`
	Sizes   []int  `json:"read_sizes"`
	SrcFail int    `json:"src_fail,omitempty"` // as in lazyCase
}

func lazyXzStatus(err error) string {
	switch {
	case err != nil && errors.Is(err, errLazySrc):
		return "src"
	case err == nil:
		return "ok"
	case err == io.EOF:
		return "EOF"
	case err == io.ErrUnexpectedEOF:
		return "UnexpectedEOF"
	case err.Error() == lzma.ErrNoSpace.Error():
		return "noSpace"
	}
	return "other"
}

func goLazyXz(cs lazyXzCase) (calls []string, delivered []byte, openSt string) {
	defer func() {
		if p := recover(); p != nil {
			calls = append(calls, "0:panic")
		}
	}()
	rd, err := xz.ReaderConfig{DictCap: cs.DictCap, SingleStream: cs.Single}.NewReader(newLazySrc(unhxe(cs.Stream), cs.SrcFail))
	if err != nil {
		return nil, nil, lazyXzStatus(err)
	}
	more := 0 // the xz reader's errors are not sticky and Model/LazyXz.lean keeps no faithful state after one: stop at the first (readAllGuard still calls Read after errors, looking for panics)
	for _, sz := range cs.Sizes {
		p := make([]byte, sz)
		n, err := rd.Read(p)
		delivered = append(delivered, p[:n]...)
		calls = append(calls, fmt.Sprintf("%d:%s", n, lazyXzStatus(err)))
		if err != nil && err != io.EOF {
			if more == 0 {
				break
			}
			more--
			continue
		}
	}
	return calls, delivered, ""
}

func lazyXzTie(r *Result, dp *DriverPool, rng *rand.Rand, nbase int) error {
	var cases []lazyXzCase
	mk := func(name string, stream []byte, content int, blockEnds []int) {
		for v := 0; v < 3; v++ {
			var sizes []int
			budget := content + 600
			switch {
			case v == 0 && len(blockEnds) > 0:
				// buffers that end exactly on block / stream boundaries of the content
				prev := 0
				for _, e := range blockEnds {
					if e > prev {
						sizes = append(sizes, e-prev)
						prev = e
					}
				}
			case v == 1:
				sz := []int{1, 273, 1000, 4096, 100000}[rng.Intn(5)]
				for budget > 0 {
					sizes = append(sizes, sz)
					budget -= sz
				}
				if len(sizes) > 3000 {
					sizes = sizes[:3000]
				}
			default:
				for budget > 0 && len(sizes) < 400 {
					sz := []int{0, 1, 2, 273, 1000, 4096, rng.Intn(9000)}[rng.Intn(7)]
					sizes = append(sizes, sz)
					budget -= sz
				}
			}
			sizes = append(sizes, 7, 0, 7)
			cases = append(cases, lazyXzCase{Op: "lazyxz-read", Name: name, Stream: hxe(stream), DictCap: []int{0, 4096, 1 << 16}[rng.Intn(3)], Single: rng.Intn(4) == 0, Sizes: sizes})
		}
		// the same bytes, mostly cut somewhere, from a source that FAILS where they end (C09, reader side)
		{
			cut := stream
			if rng.Intn(4) != 0 {
				cut = stream[:rng.Intn(len(stream)+1)]
			}
			var sizes []int
			for budget := content + 600; budget > 0 && len(sizes) < 400; {
				sz := []int{1, 2, 273, 1000, 4096, 1 + rng.Intn(9000)}[rng.Intn(6)]
				sizes = append(sizes, sz)
				budget -= sz
			}
			cases = append(cases, lazyXzCase{Op: "lazyxz-read", Name: "srcfail/" + name, Stream: hxe(cut), DictCap: []int{0, 4096, 1 << 16}[rng.Intn(3)], Single: rng.Intn(4) == 0, Sizes: sizes, SrcFail: 1 + rng.Intn(3)})
		}
	}
	var prevStream []byte
	var prevContent int
	for i := 0; i < nbase; i++ {
		var s []byte
		var content int
		var ends []int
		name := ""
		flagsOf := 0
		if i%2 == 0 {
			c := pickXzCfg(rng, i)
			c.Matcher = 0
			if c.DictCap > 1<<20 {
				c.DictCap = 1 << 20
			}
			if c.BlockSize > 0 && c.BlockSize < 50 {
				c.BlockSize = 50 + int64(rng.Intn(3000))
			}
			_, d := pickData(rng, 12000)
			w := goXzWrite(c, d, []int{len(d)}, 60*time.Second)
			if w.firstErr() != "" {
				continue
			}
			s, content, name = w.Out, len(d), "lib"
			flagsOf = checksumOf(c)
			if c.BlockSize > 0 {
				for e := int(c.BlockSize); e < len(d); e += int(c.BlockSize) {
					ends = append(ends, e)
				}
			}
			ends = append(ends, len(d))
		} else {
			st, ct, desc, err := genXzStream(rng, dp, 40)
			if err != nil {
				return err
			}
			s, content, name = st, len(ct), "spec/"+truncate(desc, 40)
			fmt.Sscanf(desc, "flags=%d", &flagsOf)
			ends = []int{len(ct)}
		}
		mk(name, s, content, ends)
		if i%3 != 2 {
			// structural mutants with re-sealed checksums (declared sizes, index records, flags, padding …): the
			// container-level checks of the lazy model against the real reader, call by call
			ms := structuralMutants(rng, s, checkSizeOf(flagsOf), content)
			rng.Shuffle(len(ms), func(a, b int) { ms[a], ms[b] = ms[b], ms[a] })
			for k := 0; k < len(ms) && k < 3; k++ {
				mk("mutant-"+ms[k].name+"/"+name, ms[k].s, content, nil)
				if rng.Intn(2) == 0 && len(ms[k].s) > 0 {
					// a mutant that is also cut: which of the two defects is reported (the order of the reader's checks)
					mk("cut-mutant-"+ms[k].name+"/"+name, ms[k].s[:rng.Intn(len(ms[k].s))], content, nil)
				}
			}
		}
		switch i % 6 {
		case 0:
			mk("truncated/"+name, s[:rng.Intn(len(s)+1)], content, nil)
		case 1:
			m := append([]byte{}, s...)
			m[rng.Intn(len(m))] ^= 1 << uint(rng.Intn(8))
			mk("bitflip/"+name, m, content, nil)
		case 2:
			mk("appended/"+name, append(append([]byte{}, s...), genRandom(rng, 1+rng.Intn(8))...), content, nil)
		case 3:
			if prevStream != nil {
				pad := make([]byte, []int{0, 4, 8, 3}[rng.Intn(4)])
				chain := append(append(append([]byte{}, prevStream...), pad...), s...)
				mk("chain/"+name, chain, prevContent+content, []int{prevContent, prevContent + content})
			}
		case 4:
			mk("padded/"+name, append(append([]byte{}, s...), make([]byte, []int{4, 8, 2, 5}[rng.Intn(4)])...), content, ends)
		}
		prevStream, prevContent = s, content
	}
	var wg sync.WaitGroup
	sem := make(chan struct{}, 16)
	for _, cs := range cases {
		wg.Add(1)
		sem <- struct{}{}
		go func(cs lazyXzCase) {
			defer wg.Done()
			defer func() { <-sem }()
			goCalls, delivered, openSt := goLazyXz(cs)
			q := fmt.Sprintf("xzlazy%s %d %d %s", eSuffix(cs.SrcFail), cs.DictCap, b2i(cs.Single), cs.Stream)
			for _, s := range cs.Sizes {
				q += fmt.Sprint(" ", s)
			}
			rep, err := dp.Ask(q)
			if err != nil {
				r.Violate("broken-correspondence", "driver", cs, err.Error())
				return
			}
			r.mu.Lock()
			r.TracesVsImpl++
			r.mu.Unlock()
			r.Inc("lazyxz_reader_runs")
			r.Inc("lazyxz_" + strings.SplitN(cs.Name, "/", 2)[0])
			if strings.HasPrefix(rep, "open:") || openSt != "" {
				if rep != "open:"+openSt {
					r.Violate("broken-correspondence", "lazyxz-reader open", cs, fmt.Sprintf("NewReader: go %q, model %q", openSt, truncate(rep, 80)))
				}
				return
			}
			parts := strings.Split(rep, " | ")
			if len(parts) < 2 {
				r.Violate("broken-correspondence", "lazyxz-reader: bad driver reply", cs, truncate(rep, 200))
				return
			}
			if len(goCalls) > 0 {
				r.Inc("lazyxz_final_" + strings.SplitN(goCalls[len(goCalls)-1], ":", 2)[1])
			}
			mCalls := strings.Fields(parts[0])
			for i := range goCalls {
				if i >= len(mCalls) || mCalls[i] != goCalls[i] {
					got := "<none>"
					if i < len(mCalls) {
						got = mCalls[i]
					}
					kind := "broken-correspondence"
					if strings.HasSuffix(goCalls[i], ":panic") || strings.HasSuffix(goCalls[i], ":noSpace") {
						kind = "counterexample"
					}
					r.Violate(kind, "lazyxz-reader call result "+strings.SplitN(cs.Name, "/", 2)[0], cs,
						fmt.Sprintf("call %d (buffer %d): real xz.Reader returned n:status = %s, the lazy xz reader model (Model/LazyXz.lean) says %s", i, cs.Sizes[minInt(i, len(cs.Sizes)-1)], goCalls[i], got))
					return
				}
			}
			if len(mCalls) != len(goCalls) {
				r.Violate("broken-correspondence", "lazyxz-reader call count", cs, fmt.Sprintf("go made %d calls before stopping, the model %d", len(goCalls), len(mCalls)))
				return
			}
			if strings.TrimSpace(parts[1]) != hxe(delivered) {
				r.Violate("broken-correspondence", "lazyxz-reader delivered bytes", cs, fmt.Sprintf("go delivered %d bytes, the model %d", len(delivered), len(unhxe(strings.TrimSpace(parts[1])))))
			}
		}(cs)
	}
	wg.Wait()
	return nil
}
