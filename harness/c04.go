package main

import (
	"bytes"
	"encoding/binary"
	"fmt"
	"hash/crc32"
	"math/rand"
	"sync"
	"time"
)

// structural mutations of an xz stream written by the library: one field is edited and the
// enclosing CRC32 re-sealed so that only the targeted cross-check can object.

type xzLayout struct {
	blocks []struct{ hdr, hdrLen, dataEnd, checkEnd int } // offsets
	index  int
	footer int
}

// layoutOf parses the (valid, library-written) stream far enough to locate its fields. It
// relies only on the format: block header size byte, index records (unpadded sizes).
func layoutOf(s []byte, checkSize int) (l xzLayout, ok bool) {
	defer func() {
		if recover() != nil {
			ok = false
		}
	}()
	footer := len(s) - 12
	isize := (int(binary.LittleEndian.Uint32(s[footer+4:])) + 1) * 4
	index := footer - isize
	// read the records
	p := index + 1
	cnt, k := binary.Uvarint(s[p:])
	p += k
	pos := 12
	for i := 0; i < int(cnt); i++ {
		unp, k := binary.Uvarint(s[p:])
		p += k
		_, k = binary.Uvarint(s[p:])
		p += k
		hl := (int(s[pos]) + 1) * 4
		b := struct{ hdr, hdrLen, dataEnd, checkEnd int }{pos, hl, pos + int(unp) - checkSize, 0}
		padded := (int(unp) + 3) / 4 * 4
		b.checkEnd = pos + padded
		l.blocks = append(l.blocks, b)
		pos += padded
	}
	if pos != index {
		return l, false
	}
	l.index, l.footer = index, footer
	return l, true
}

func reseal(s []byte, lo, hi int) {
	binary.LittleEndian.PutUint32(s[hi:], crc32.ChecksumIEEE(s[lo:hi]))
}

type mutant struct {
	name string
	s    []byte
	// meta: the edit makes the redundant metadata inconsistent, so it must be rejected even
	// when the content still decodes
	meta bool
}

func structuralMutants(rng *rand.Rand, s []byte, checkSize int, contentLen int) []mutant {
	l, ok := layoutOf(s, checkSize)
	if !ok || len(l.blocks) == 0 {
		return nil
	}
	var out []mutant
	add := func(name string, meta bool, f func(t []byte) []byte) {
		t := f(append([]byte{}, s...))
		if t != nil && !bytes.Equal(t, s) {
			out = append(out, mutant{name, t, meta})
		}
	}
	// stream header flags (both header and footer stay self-consistent individually)
	add("header-flags", true, func(t []byte) []byte {
		t[7] = []byte{0, 1, 4, 10}[rng.Intn(4)]
		reseal(t, 6, 8)
		return t
	})
	add("header-reserved-flag", true, func(t []byte) []byte { t[6] = 1 << uint(rng.Intn(8)); reseal(t, 6, 8); return t })
	add("header-unsupported-check", true, func(t []byte) []byte { t[7] = []byte{2, 3, 5, 9, 11, 15}[rng.Intn(6)]; reseal(t, 6, 8); return t })
	add("footer-flags", true, func(t []byte) []byte {
		t[l.footer+9] = []byte{0, 1, 4, 10}[rng.Intn(4)]
		reseal2(t, l.footer)
		return t
	})
	add("footer-reserved", true, func(t []byte) []byte { t[l.footer+8] = byte(1 + rng.Intn(255)); reseal2(t, l.footer); return t })
	add("footer-backward-size", true, func(t []byte) []byte {
		v := binary.LittleEndian.Uint32(t[l.footer+4:])
		binary.LittleEndian.PutUint32(t[l.footer+4:], v+uint32(1+rng.Intn(3)))
		reseal2(t, l.footer)
		return t
	})
	add("footer-backward-size-bit", true, func(t []byte) []byte {
		v := binary.LittleEndian.Uint32(t[l.footer+4:])
		binary.LittleEndian.PutUint32(t[l.footer+4:], v^(1<<uint(rng.Intn(32))))
		reseal2(t, l.footer)
		return t
	})
	bi := rng.Intn(len(l.blocks))
	b := l.blocks[bi]
	// locate the filter flags inside the block header (size fields are optional)
	fo := b.hdr + 2
	for _, bit := range []byte{0x40, 0x80} {
		if s[b.hdr+1]&bit != 0 {
			_, k := binary.Uvarint(s[fo:])
			fo += k
		}
	}
	hasSizes := s[b.hdr+1]&0xC0 != 0
	add("block-reserved-flags", true, func(t []byte) []byte {
		t[b.hdr+1] |= 4 << uint(rng.Intn(4))
		reseal(t, b.hdr, b.hdr+b.hdrLen-4)
		return t
	})
	add("block-filter-count", true, func(t []byte) []byte {
		t[b.hdr+1] |= byte(1 + rng.Intn(3))
		reseal(t, b.hdr, b.hdr+b.hdrLen-4)
		return t
	})
	add("block-filter-id", true, func(t []byte) []byte {
		t[fo] = []byte{0x03, 0x04, 0x20, 0x22}[rng.Intn(4)]
		reseal(t, b.hdr, b.hdr+b.hdrLen-4)
		return t
	})
	// the filter id re-encoded as a longer uvarint that agrees with 0x21 in its low byte (0x121, 0x2021, 0x4021):
	// fits into the header padding, every other field unchanged; an unsupported filter id
	add("block-filter-id-multibyte", true, func(t []byte) []byte {
		enc := [][]byte{{0xa1, 0x02}, {0xa1, 0x40}, {0xa1, 0x80, 0x01}}[rng.Intn(3)]
		rest := append([]byte{}, t[fo+1:b.hdr+b.hdrLen-4]...) // props size, dict code, padding
		// need len(enc)-1 spare zero bytes at the end of the header
		for i := 0; i < len(enc)-1; i++ {
			if len(rest) == 0 || rest[len(rest)-1] != 0 {
				return nil
			}
			rest = rest[:len(rest)-1]
		}
		if len(rest) < 2 {
			return nil
		}
		copy(t[fo:], append(append([]byte{}, enc...), rest...))
		reseal(t, b.hdr, b.hdr+b.hdrLen-4)
		return t
	})
	add("block-header-padding", true, func(t []byte) []byte {
		padLo, padHi := fo+3, b.hdr+b.hdrLen-4
		if padHi <= padLo {
			return nil
		}
		t[padLo+rng.Intn(padHi-padLo)] = byte(1 + rng.Intn(255))
		reseal(t, b.hdr, b.hdr+b.hdrLen-4)
		return t
	})
	add("block-dict-code-invalid", true, func(t []byte) []byte {
		t[fo+2] = byte(41 + rng.Intn(200))
		reseal(t, b.hdr, b.hdr+b.hdrLen-4)
		return t
	})
	// declared sizes in the block header (rewrite the header with size fields, same length if it fits)
	for _, which := range []string{"csize", "usize"} {
		which := which
		add("block-declared-"+which, true, func(t []byte) []byte {
			if hasSizes {
				return nil
			}
			h := []byte{0, 0}
			var v uint64
			if which == "csize" {
				h[1] = 0x40
				actual := uint64(b.dataEnd - b.hdr - b.hdrLen)
				v = []uint64{actual + uint64(1+rng.Intn(3)), actual - 1, 1, actual * 2, actual + 4}[rng.Intn(5)]
				if v == actual || v == 0 {
					v = actual + 1
				}
			} else {
				h[1] = 0x80
				v = uint64(contentLen + 1 + rng.Intn(5)) // larger than any block's content
				if contentLen > 0 && len(l.blocks) == 1 {
					v = []uint64{0, uint64(contentLen - 1), uint64(contentLen + 1), uint64(2 * contentLen), 1 << uint(rng.Intn(40)) << 8}[rng.Intn(5)]
					if v == uint64(contentLen) {
						v = 0
					}
				}
			}
			tmp := make([]byte, 10)
			k := binary.PutUvarint(tmp, v)
			h = append(h, tmp[:k]...)
			h = append(h, t[b.hdr+2:b.hdr+5]...)
			for len(h)%4 != 0 {
				h = append(h, 0)
			}
			if len(h)+4 != b.hdrLen {
				return nil
			}
			h[0] = byte(b.hdrLen/4 - 1)
			copy(t[b.hdr:], h)
			reseal(t, b.hdr, b.hdr+b.hdrLen-4)
			return t
		})
	}
	add("block-padding-nonzero", true, func(t []byte) []byte {
		padEnd := b.checkEnd - checkSize
		if padEnd <= b.dataEnd {
			return nil
		}
		t[b.dataEnd+rng.Intn(padEnd-b.dataEnd)] = byte(1 + rng.Intn(255))
		return t
	})
	add("check-value", true, func(t []byte) []byte {
		if checkSize == 0 {
			return nil
		}
		t[b.checkEnd-1-rng.Intn(checkSize)] ^= 1 << uint(rng.Intn(8))
		return t
	})
	// index records: re-marshal the index with one edited record / count
	add("index-record", true, func(t []byte) []byte {
		// records start at index+2 when the count fits one byte
		p := l.index + 2
		q := p + rng.Intn(l.footer-4-p)
		if t[q] == 0 {
			return nil // padding byte: covered by index-padding
		}
		t[q] ^= byte(1 << uint(rng.Intn(7)))
		reseal(t, l.index, l.footer-4)
		return t
	})
	add("index-count", true, func(t []byte) []byte { t[l.index+1] += byte(1 + rng.Intn(2)); reseal(t, l.index, l.footer-4); return t })
	add("index-padding", true, func(t []byte) []byte {
		q := l.footer - 5
		if t[q] != 0 {
			return nil
		}
		t[q] = byte(1 + rng.Intn(255))
		reseal(t, l.index, l.footer-4)
		return t
	})
	add("index-indicator", true, func(t []byte) []byte { t[l.index] = 1; return t })
	// uvarint edge cases in the index (count / records re-encoded, index and footer re-sealed consistently):
	// 11-byte encoding, 10-byte encoding whose last byte exceeds 1, values >= 2^63
	huge := func(name string, enc []byte, which int) {
		add(name, true, func(t []byte) []byte {
			rs := indexRecords(t, l)
			if len(rs) == 0 {
				return nil
			}
			body := []byte{0}
			tmp := make([]byte, 10)
			if which == 0 {
				body = append(body, enc...) // the record count itself
			} else {
				body = append(body, tmp[:binary.PutUvarint(tmp, uint64(len(rs)))]...)
			}
			for i, r := range rs {
				if which == 1 && i == 0 {
					body = append(body, enc...)
				} else {
					body = append(body, tmp[:binary.PutUvarint(tmp, r[0])]...)
				}
				if which == 2 && i == len(rs)-1 {
					body = append(body, enc...)
				} else {
					body = append(body, tmp[:binary.PutUvarint(tmp, r[1])]...)
				}
			}
			for len(body)%4 != 0 {
				body = append(body, 0)
			}
			crc := make([]byte, 4)
			binary.LittleEndian.PutUint32(crc, crc32.ChecksumIEEE(body))
			idx := append(body, crc...)
			u := append(append([]byte{}, t[:l.index]...), idx...)
			foot := append([]byte{}, t[l.footer:]...)
			binary.LittleEndian.PutUint32(foot[4:], uint32(len(idx)/4-1))
			u = append(u, foot...)
			reseal2(u, len(u)-12)
			return u
		})
	}
	over11 := []byte{0x80, 0x80, 0x80, 0x80, 0x80, 0x80, 0x80, 0x80, 0x80, 0x80, 0x01}
	over10 := []byte{0xff, 0xff, 0xff, 0xff, 0xff, 0xff, 0xff, 0xff, 0xff, 0x02}
	big63 := []byte{0x80, 0x80, 0x80, 0x80, 0x80, 0x80, 0x80, 0x80, 0x80, 0x01} // 2^63
	for w, wn := range []string{"count", "unpadded", "uncompressed"} {
		huge("index-uvarint-11-bytes-"+wn, over11, w)
		huge("index-uvarint-overflow-"+wn, over10, w)
		huge("index-uvarint-2^63-"+wn, big63, w)
	}
	// block header: declared compressed size 2^63 (header grows by 12 bytes; index record and sizes adjusted so
	// that only the size field itself is wrong), reserved filter id
	add("block-filter-id-reserved", true, func(t []byte) []byte {
		enc := []byte{0x80, 0x80, 0x80, 0x80, 0x80, 0x80, 0x80, 0x80, 0x40} // 2^62: reserved range
		if b.hdrLen != 12 || hasSizes {
			return nil
		}
		// new header: size byte, flags, filter id (9 bytes), props size, dict code, padding to 16+4
		h := []byte{0, t[b.hdr+1]}
		h = append(h, enc...)
		h = append(h, t[fo+1], t[fo+2])
		for (len(h)+4)%4 != 0 {
			h = append(h, 0)
		}
		h[0] = byte((len(h)+4)/4 - 1)
		crc := make([]byte, 4)
		binary.LittleEndian.PutUint32(crc, crc32.ChecksumIEEE(h))
		h = append(h, crc...)
		u := append(append([]byte{}, t[:b.hdr]...), h...)
		u = append(u, t[b.hdr+b.hdrLen:]...)
		return u
	})
	// a smaller (still valid) dictionary size code: legal iff every distance still fits; never "metadata"
	add("block-dict-code-shrink", false, func(t []byte) []byte {
		if t[fo+2] == 0 {
			return nil
		}
		t[fo+2] = byte(rng.Intn(int(t[fo+2])))
		reseal(t, b.hdr, b.hdr+b.hdrLen-4)
		return t
	})
	// a size field of exactly 2^63 (and 2^63±1, 2^64-1): the block header is rebuilt with the field present, the
	// index record of the block is adjusted to the new header length, index CRC and backward size recomputed — only
	// the declared size is wrong
	recs0 := indexRecords(s, l)
	if bi < len(recs0) {
		for _, which := range []byte{0x40, 0x80} {
			for _, val := range []uint64{1 << 63, 1<<63 - 1, 1<<63 + 1, 1<<64 - 1} {
				which, val := which, val
				add(fmt.Sprintf("block-size-field-huge-%#x", which), true, func(t []byte) []byte {
					tmp := make([]byte, 10)
					nh := []byte{0, which}
					nh = append(nh, tmp[:binary.PutUvarint(tmp, val)]...)
					nh = append(nh, t[fo:fo+3]...) // filter id, props size, dict code
					for (len(nh)+4)%4 != 0 {
						nh = append(nh, 0)
					}
					nh[0] = byte((len(nh)+4)/4 - 1)
					crc := make([]byte, 4)
					binary.LittleEndian.PutUint32(crc, crc32.ChecksumIEEE(nh))
					nh = append(nh, crc...)
					delta := len(nh) - b.hdrLen
					rs := append([][2]uint64{}, recs0...)
					rs[bi][0] = uint64(int64(rs[bi][0]) + int64(delta))
					idx := marshalIndex(rs)
					u := append([]byte{}, t[:b.hdr]...)
					u = append(u, nh...)
					u = append(u, t[b.hdr+b.hdrLen:l.index]...)
					u = append(u, idx...)
					foot := append([]byte{}, t[l.footer:]...)
					binary.LittleEndian.PutUint32(foot[4:], uint32(len(idx)/4-1))
					u = append(u, foot...)
					reseal2(u, len(u)-12)
					return u
				})
			}
		}
	}
	// structurally valid index (count, records, padding, CRC32, backward size all consistent with each other)
	// that does not describe the blocks: a record dropped, a record duplicated, two records swapped
	recs := indexRecords(s, l)
	rebuild := func(name string, rs [][2]uint64) {
		add(name, true, func(t []byte) []byte {
			idx := marshalIndex(rs)
			u := append(append([]byte{}, t[:l.index]...), idx...)
			foot := append([]byte{}, t[l.footer:]...)
			binary.LittleEndian.PutUint32(foot[4:], uint32(len(idx)/4-1))
			u = append(u, foot...)
			reseal2(u, len(u)-12)
			return u
		})
	}
	if len(recs) > 0 {
		rebuild("index-record-dropped", recs[:len(recs)-1])
		rebuild("index-record-dropped-first", recs[1:])
		rebuild("index-record-duplicated", append(append([][2]uint64{}, recs...), recs[len(recs)-1]))
		rebuild("index-empty", nil)
	}
	if len(recs) > 1 && recs[0] != recs[len(recs)-1] {
		sw := append([][2]uint64{}, recs...)
		sw[0], sw[len(sw)-1] = sw[len(sw)-1], sw[0]
		rebuild("index-records-swapped", sw)
	}
	return out
}

func indexRecords(s []byte, l xzLayout) (recs [][2]uint64) {
	defer func() {
		if recover() != nil {
			recs = nil
		}
	}()
	p := l.index + 1
	cnt, k := binary.Uvarint(s[p:])
	p += k
	for i := 0; i < int(cnt); i++ {
		a, k := binary.Uvarint(s[p:])
		p += k
		b, k2 := binary.Uvarint(s[p:])
		p += k2
		recs = append(recs, [2]uint64{a, b})
	}
	return recs
}

func marshalIndex(rs [][2]uint64) []byte {
	out := []byte{0}
	tmp := make([]byte, 10)
	out = append(out, tmp[:binary.PutUvarint(tmp, uint64(len(rs)))]...)
	for _, r := range rs {
		out = append(out, tmp[:binary.PutUvarint(tmp, r[0])]...)
		out = append(out, tmp[:binary.PutUvarint(tmp, r[1])]...)
	}
	for len(out)%4 != 0 {
		out = append(out, 0)
	}
	crc := make([]byte, 4)
	binary.LittleEndian.PutUint32(crc, crc32.ChecksumIEEE(out))
	return append(out, crc...)
}

func reseal2(t []byte, footer int) {
	binary.LittleEndian.PutUint32(t[footer:], crc32.ChecksumIEEE(t[footer+4:footer+10]))
}

func checkSizeOf(id int) int {
	switch id {
	case 1:
		return 4
	case 4:
		return 8
	case 10:
		return 32
	}
	return 0
}

// C04: a damaged xz stream never decodes "successfully" to different content; inconsistent
// metadata is always an error.
func checkC04(a *checkArgs, r *Result) error {
	dp, err := newDriverPool(a.driver, 16)
	if err != nil {
		return err
	}
	defer dp.Close()
	r.Rule = "base xz streams (library-written single/multi block with every check type incl. none, liblzma corpus); mutants: every single-bit flip (exhaustive on the small bases), bursts <= 32 bits, byte insertions/deletions at every offset (stride on long streams), field-level edits with re-sealed CRC32 (structural mutator). Every mutant through the real reader (oracle: never clean end with different content; metadata edits always rejected) and through the Lean model (same outcome). Non-trivial: mutant differs from the base beyond the 12-byte stream header; distinct by mutant bytes."
	rng := rand.New(rand.NewSource(a.seed))
	nlib, flipBases, maxLen := 40, 8, 800
	if a.tier == "thorough" {
		nlib, flipBases, maxLen = 120, 40, 3000
	}
	var bases []baseStream
	for _, b := range libraryStreams(rng, nlib*2, maxLen) {
		if b.Kind == "xz" {
			bases = append(bases, b)
		}
	}
	for _, b := range corpusStreams(1200) {
		if b.Kind == "xz" {
			bases = append(bases, b)
		}
	}
	for _, b := range farMatchStreams(rng, 6) {
		if b.Kind == "xz" {
			bases = append(bases, b)
		}
	}
	type job struct {
		b baseStream
		m mutant
	}
	var jobs []job
	for i, b := range bases {
		s := b.Stream
		cs := checkSizeOf(b.Check)
		if i < flipBases || len(s) < 200 {
			for bit := 0; bit < len(s)*8; bit++ {
				t := append([]byte{}, s...)
				t[bit/8] ^= 1 << uint(bit%8)
				jobs = append(jobs, job{b, mutant{fmt.Sprintf("bitflip@%d.%d", bit/8, bit%8), t, false}})
			}
		} else {
			for k := 0; k < 60; k++ {
				bit := rng.Intn(len(s) * 8)
				t := append([]byte{}, s...)
				t[bit/8] ^= 1 << uint(bit%8)
				jobs = append(jobs, job{b, mutant{fmt.Sprintf("bitflip@%d.%d", bit/8, bit%8), t, false}})
			}
		}
		for k := 0; k < 25; k++ { // bursts
			t := append([]byte{}, s...)
			start := rng.Intn(len(s) * 8)
			n := 2 + rng.Intn(31)
			for j := 0; j < n && start+j < len(s)*8; j++ {
				if rng.Intn(2) == 0 || j == 0 || j == n-1 {
					t[(start+j)/8] ^= 1 << uint((start+j)%8)
				}
			}
			jobs = append(jobs, job{b, mutant{fmt.Sprintf("burst@%d+%d", start, n), t, false}})
		}
		stride := 1 + len(s)/150
		for off := 0; off <= len(s); off += stride {
			ins := append(append(append([]byte{}, s[:off]...), byte(rng.Intn(256))), s[off:]...)
			jobs = append(jobs, job{b, mutant{fmt.Sprintf("insert@%d", off), ins, false}})
			if off < len(s) {
				del := append(append([]byte{}, s[:off]...), s[off+1:]...)
				jobs = append(jobs, job{b, mutant{fmt.Sprintf("delete@%d", off), del, false}})
			}
		}
		// deletions of a whole tail at structural offsets (stream header, block header, block boundaries, index, footer)
		if l, ok := layoutOf(s, cs); ok {
			cuts := map[int]bool{12: true, 13: true, l.index: true, l.index + 1: true, l.footer: true, l.footer - 1: true, len(s) - 1: true}
			for _, blk := range l.blocks {
				for _, o := range []int{blk.hdr, blk.hdr + 1, blk.hdr + blk.hdrLen, blk.dataEnd, blk.checkEnd, blk.checkEnd + 1, blk.checkEnd - 1} {
					cuts[o] = true
				}
			}
			for o := range cuts {
				if o > 0 && o < len(s) {
					jobs = append(jobs, job{b, mutant{fmt.Sprintf("cut@%d", o), append([]byte{}, s[:o]...), false}})
				}
			}
		}
		for k := 0; k < 3; k++ {
			for _, m := range structuralMutants(rng, s, cs, len(b.Content)) {
				jobs = append(jobs, job{b, m})
			}
		}
	}
	r.Extra["base_streams"] = len(bases)
	var wg sync.WaitGroup
	sem := make(chan struct{}, 16)
	for _, j := range jobs {
		wg.Add(1)
		sem <- struct{}{}
		go func(j job) {
			defer wg.Done()
			defer func() { <-sem }()
			c := rdCase{Op: "read-mutant", Kind: "xz", Name: j.b.Name + " " + j.m.name, Stream: hxe(j.m.s), Want: hxe(j.b.Content)}
			g := goRead(c, j.m.s, 30*time.Second)
			differs := !bytes.Equal(j.m.s[:minInt(12, len(j.m.s))], j.b.Stream[:12]) == false
			r.Count(hxe(j.m.s), differs)
			r.Inc("mutator_" + splitAt(j.m.name))
			r.Inc("go_status_" + g.Err)
			if g.TimedOut || g.Err == "Panic" {
				r.Violate("counterexample", "panic-or-timeout "+splitAt(j.m.name), c, "reader panicked or hung: "+g.Panic)
				return
			}
			clean := g.Err == "EOF" && !g.OpenErr
			if clean && !bytes.Equal(g.Out, j.b.Content) && j.b.Check != 0 {
				r.Violate("counterexample", "silent-corruption mutator="+splitAt(j.m.name), c,
					fmt.Sprintf("reader reports a clean end of stream after delivering %d bytes that differ from the original %d", len(g.Out), len(j.b.Content)))
			}
			if clean && j.m.meta {
				r.Violate("counterexample", "metadata-accepted field="+j.m.name, c, "an edit that makes the redundant metadata inconsistent was accepted")
			}
			m, err := modelRead_(dp, c, j.m.s, false)
			if err != nil {
				r.Violate("broken-correspondence", "driver", c, err.Error())
				return
			}
			r.mu.Lock()
			r.TracesVsImpl++
			r.mu.Unlock()
			if ok, why := agree(g, m); !ok {
				r.Violate("broken-correspondence", "reader-vs-model mutator="+splitAt(j.m.name), c, "real reader and Lean model disagree on a damaged stream: "+why)
			}
			if j.m.meta {
				r.Sample(map[string]interface{}{"case": c.Name, "go": g.Err + " " + g.Msg, "model": m.Class + " " + m.Detail})
			}
		}(j)
	}
	wg.Wait()
	r.Extra["driver_requests"] = dp.Requests()
	return nil
}

func splitAt(s string) string {
	for i, c := range s {
		if c == '@' {
			return s[:i]
		}
	}
	return s
}

func init() { checks["C04"] = checkC04 }
