package main

import (
	"bytes"
	"fmt"
	"math/rand"
	"strings"

	"github.com/ulikunitz/xz/lzma"
)

type scriptCase struct {
	Op      string   `json:"op"`
	LC      int      `json:"lc"`
	LP      int      `json:"lp"`
	PB      int      `json:"pb"`
	DictCap int      `json:"dict_cap"`
	Marker  bool     `json:"marker"`
	Ops     []string `json:"ops"`
	Content string   `json:"content_hex"`
}

// scriptedOpsTie drives the real encoder (writeLiteral / writeMatch, range encoder, state) with
// arbitrary legal operation sequences through the scripted match finder of the verif shim and
// compares its bytes with the Lean model encoder fed the same operations; the real decoder must
// then return the content. This ties the whole operation codec independently of what the two
// real match finders happen to propose.
func scriptedOpsTie(r *Result, dp *DriverPool, rng *rand.Rand, n int, lzma2Props bool) error {
	for i := 0; i < n; i++ {
		lc, lp, pb := randProps(rng, lzma2Props)
		dict := []int{4096, 4096, 8192, 65536}[rng.Intn(4)]
		g := &opGen{rng: rng, dictSize: dict}
		nops := 1 + rng.Intn(200)
		var vops []lzma.VerifOp
		var raws []string
		for j := 0; j < nops; j++ {
			d, ln, b, raw := g.nextAbstract()
			if ln == 0 {
				vops = append(vops, lzma.VerifOp{Byte: b})
			} else {
				vops = append(vops, lzma.VerifOp{Dist: int64(d), Len: ln})
			}
			raws = append(raws, raw)
		}
		marker := rng.Intn(2) == 0
		cs := scriptCase{Op: "scripted-ops", LC: lc, LP: lp, PB: pb, DictCap: dict, Marker: marker, Ops: raws, Content: hxe(g.content)}
		out, err := lzma.VerifEncodeOps(lzma.Properties{LC: lc, LP: lp, PB: pb}, dict, 4096, g.content, vops, marker)
		r.Count("script"+strings.Join(raws, "."), nops >= 4)
		r.Inc("scripted_op_sequences")
		if err != nil {
			r.Violate("counterexample", "scripted-encode-error: "+err.Error(), cs, "the real encoder failed on a legal operation sequence: "+err.Error())
			continue
		}
		size := "-"
		if !marker {
			size = fmt.Sprint(len(g.content))
		}
		rep, err := dp.Ask(fmt.Sprintf("lzmabuild %d %d %s %d %s", (pb*5+lp)*9+lc, dict, size, b2i(marker), strings.Join(raws, ".")))
		if err != nil {
			return err
		}
		model := unhxe(rep)
		r.mu.Lock()
		r.TracesVsImpl++
		r.mu.Unlock()
		if len(model) < 13 || !bytes.Equal(model[13:], out) {
			pos := 0
			for pos < len(out) && 13+pos < len(model) && model[13+pos] == out[pos] {
				pos++
			}
			r.Violate("broken-correspondence", "scripted-ops encoder bytes differ", cs,
				fmt.Sprintf("real encoder and Lean model encoder produce different bytes for the same operations (first difference at byte %d of %d)", pos, len(out)))
			continue
		}
		// the real decoder must give the content back
		g2 := goLzmaRead(append(append([]byte{}, model[:13]...), out...), 0, 30e9)
		if g2.Err != "EOF" || !bytes.Equal(g2.Out, g.content) {
			r.Violate("counterexample", "scripted-ops roundtrip: "+g2.Err+" "+truncate(g2.Msg, 40), cs,
				fmt.Sprintf("the real decoder does not return the content of a stream the real encoder wrote from legal operations: %s %s", g2.Err, g2.Msg))
		}
	}
	return nil
}
