package main

import (
	"bytes"
	"fmt"
	"math/rand"
	"os"
	"os/exec"
	"path/filepath"
	"sort"
	"strconv"
	"strings"
	"sync"
	"time"
)

type cliFile struct {
	Name    string `json:"name"`
	Kind    string `json:"kind"` // plain | xz | lzma | corrupt-xz
	Mode    uint32 `json:"mode"`
	Payload int    `json:"payload_seed"`
}

type cliCase struct {
	Op    string    `json:"op"`
	Files []cliFile `json:"files"`
	Argv  []string  `json:"argv"`
}

var cliNames = []string{"a.txt", "notes", "with space.txt", "-dash.txt", "1", "t", "true", "0", "12", "data.bin", "archive.tar", "x.tar", "f", "F", "false"}

func cliPayload(seed int) []byte {
	rng := rand.New(rand.NewSource(int64(seed)))
	return genText(rng, 200+rng.Intn(3000))
}

func (f cliFile) bytes() []byte {
	p := cliPayload(f.Payload)
	switch f.Kind {
	case "xz":
		return compressWith("xz", p)
	case "lzma":
		return compressWith("lzma", p)
	case "corrupt-xz":
		b := compressWith("xz", p)
		b[len(b)/2] ^= 0x40
		return b
	}
	return p
}

type treeEntry struct {
	data []byte
	mode uint32
}

func readTree(dir string) map[string]treeEntry {
	t := map[string]treeEntry{}
	ents, _ := os.ReadDir(dir)
	for _, e := range ents {
		b, err := os.ReadFile(filepath.Join(dir, e.Name()))
		if err != nil {
			os.Chmod(filepath.Join(dir, e.Name()), 0o600)
			b, _ = os.ReadFile(filepath.Join(dir, e.Name()))
		}
		fi, _ := e.Info()
		m := uint32(0)
		if fi != nil {
			m = uint32(fi.Mode().Perm())
		}
		t[e.Name()] = treeEntry{b, m}
	}
	return t
}

// modelTree computes the expected final directory from the Lean model (parse + plan per operand).
// ok=false means the model predicts something the harness does not model (stdin mode etc.).
func modelRun(d *DriverPool, c cliCase, initial map[string]treeEntry) (exit int, tree map[string]string, stdoutFiles []string, modelled bool, err error) {
	var hs []string
	for _, a := range c.Argv {
		hs = append(hs, hxe([]byte(a)))
	}
	rep, err := d.Ask("gxzargs " + strings.Join(hs, " "))
	if err != nil {
		return 0, nil, nil, false, err
	}
	tree = map[string]string{}
	for n, e := range initial {
		tree[n] = "init:" + hx(e.data)
	}
	if rep == "ERR" {
		return 1, tree, nil, true, nil // usage error: gflag.Usage prints the usage and exits with status 1
	}
	parts := strings.SplitN(rep, " |", 2)
	flags := map[string]string{}
	for _, kv := range strings.Fields(parts[0]) {
		p := strings.SplitN(kv, "=", 2)
		flags[p[0]] = p[1]
	}
	var operands []string
	if len(parts) > 1 {
		for _, h := range strings.Fields(parts[1]) {
			operands = append(operands, string(unhxe(h)))
		}
	}
	if flags["help"] == "1" || flags["license"] == "1" || flags["version"] == "1" {
		return 0, tree, nil, true, nil
	}
	if flags["format"] == "INVALID" {
		return 1, tree, nil, true, nil
	}
	if len(operands) == 0 {
		return 0, tree, nil, false, nil // stdin mode: not modelled here
	}
	exit = 0
	for _, op := range operands {
		if op == "-" {
			return 0, tree, nil, false, nil
		}
		cur, exists := tree[op]
		if !exists {
			exit = 1
			continue
		}
		// content kind of the operand as it is now
		var data []byte
		if strings.HasPrefix(cur, "init:") {
			data = unhx(cur[5:])
		} else {
			f := strings.Split(cur, ":")
			data = unhx(f[len(f)-1])
		}
		kind := "plain"
		if len(data) >= 6 && bytes.Equal(data[:6], []byte{0xfd, '7', 'z', 'X', 'Z', 0}) {
			kind = "xz"
		} else if len(data) >= 13 && data[0] <= 224 && lzmaValidHeader(data[:13]) {
			kind = "lzma"
		}
		fmtName := flags["format"]
		// target existence needs the target name: ask the plan twice (with and without target)
		ask := func(te bool) (string, error) {
			return d.Ask(fmt.Sprintf("gxzplan %s %s %s %s %s %s %s %d", flags["stdout"], flags["decompress"], flags["force"], flags["keep"], fmtName, hxe([]byte(op)), kind, b2i(te)))
		}
		a0, err := ask(false)
		if err != nil {
			return 0, nil, nil, false, err
		}
		act := a0
		if strings.HasPrefix(a0, "file ") {
			t := string(unhxe(strings.Fields(a0)[1]))
			if _, te := tree[t]; te {
				if act, err = ask(true); err != nil {
					return 0, nil, nil, false, err
				}
			}
		}
		switch {
		case act == "fail":
			exit = 1
		case act == "stdout":
			// decoding may still fail for corrupt content
			if flags["decompress"] == "1" {
				if _, ok := decodes(kind, data); !ok {
					exit = 1
					continue
				}
			}
			stdoutFiles = append(stdoutFiles, op)
		default:
			f := strings.Fields(act)
			t := string(unhxe(f[1]))
			if flags["decompress"] == "1" {
				out, ok := decodes(kind, data)
				if !ok {
					exit = 1
					continue
				}
				tree[t] = "plainout:" + op + ":" + hx(out)
			} else {
				tree[t] = "compressed:" + fmtOrXz(fmtName) + ":" + hx([]byte(op)) + ":" + hx(data)
			}
			if f[2] != "1" {
				delete(tree, op)
			}
		}
	}
	return exit, tree, stdoutFiles, true, nil
}

func fmtOrXz(f string) string {
	if f == "lzma" {
		return "lzma"
	}
	return "xz"
}

func lzmaValidHeader(h []byte) bool {
	// lzma.ValidHeader: properties byte ok, dictionary size 2^n or 2^n+2^(n-1), size < 2^38 or unknown
	dc := uint32(h[1]) | uint32(h[2])<<8 | uint32(h[3])<<16 | uint32(h[4])<<24
	ok := dc == 1<<32-1
	for n := uint(10); n < 32; n++ {
		if dc == 1<<n || dc == 1<<n+1<<(n-1) {
			ok = true
		}
	}
	if !ok {
		return false
	}
	var s uint64
	for i := 0; i < 8; i++ {
		s |= uint64(h[5+i]) << (8 * uint(i))
	}
	return s == 1<<64-1 || s <= 1<<38
}

// referenceOperands: the property's reading of a command line — every token before "--" that
// starts with '-' is an option (the argument of -F/--format/--cpuprofile excepted), every other
// token is a file operand; after "--" everything is an operand.
func referenceOperands(argv []string) (ops []string, swallowSuspects []string) {
	i := 0
	for i < len(argv) {
		a := argv[i]
		if a == "--" {
			ops = append(ops, argv[i+1:]...)
			break
		}
		if len(a) >= 2 && a[0] == '-' {
			takes := a == "-F" || a == "--format" || a == "--cpuprofile" || (a[1] != '-' && strings.HasSuffix(a, "F"))
			if takes && i+1 < len(argv) {
				i += 2
				continue
			}
			// an option with optional argument directly followed by an operand
			if i+1 < len(argv) && argv[i+1] != "--" && !(len(argv[i+1]) >= 1 && argv[i+1][0] == '-') {
				swallowSuspects = append(swallowSuspects, argv[i+1])
			}
			i++
			continue
		}
		ops = append(ops, a)
		i++
	}
	return
}

func runCliCase(r *Result, d *DriverPool, gxz string, c cliCase) {
	dir, err := os.MkdirTemp("", "gxzcli")
	if err != nil {
		return
	}
	defer func() {
		filepath.Walk(dir, func(p string, _ os.FileInfo, _ error) error { os.Chmod(p, 0o700); return nil })
		os.RemoveAll(dir)
	}()
	for _, f := range c.Files {
		os.WriteFile(filepath.Join(dir, f.Name), f.bytes(), os.FileMode(f.Mode))
		os.Chmod(filepath.Join(dir, f.Name), os.FileMode(f.Mode))
	}
	initial := readTree(dir)
	for _, f := range c.Files { // restore modes possibly changed by readTree
		os.Chmod(filepath.Join(dir, f.Name), os.FileMode(f.Mode))
	}
	cmd := exec.Command(gxz, c.Argv...)
	cmd.Dir = dir
	cmd.Stdin = bytes.NewReader(nil)
	var stdout, stderr bytes.Buffer
	cmd.Stdout, cmd.Stderr = &stdout, &stderr
	done := make(chan error, 1)
	go func() { done <- cmd.Run() }()
	var runErr error
	select {
	case runErr = <-done:
	case <-time.After(60 * time.Second):
		cmd.Process.Kill()
		r.Violate("counterexample", "gxz-hang", c, "gxz did not finish within 60 s")
		return
	}
	exit := 0
	if runErr != nil {
		if ee, ok := runErr.(*exec.ExitError); ok {
			exit = ee.ExitCode()
		} else {
			r.Violate("broken-correspondence", "cannot-run-gxz", c, runErr.Error())
			return
		}
	}
	final := readTree(dir)
	r.Count(fmt.Sprint(c.Argv, c.Files), len(c.Argv) >= 2)
	// ---- model correspondence
	mexit, mtree, mstdout, modelled, err := modelRun(d, c, initial)
	if err != nil {
		r.Violate("broken-correspondence", "driver", c, err.Error())
		return
	}
	if modelled {
		r.mu.Lock()
		r.TracesVsImpl++
		r.mu.Unlock()
		var names, mnames []string
		for n := range final {
			names = append(names, n)
		}
		for n := range mtree {
			mnames = append(mnames, n)
		}
		sort.Strings(names)
		sort.Strings(mnames)
		if exit != mexit && strings.Join(names, "\x00") == strings.Join(mnames, "\x00") && (exit == 0) != (mexit == 0) {
			r.Violate("counterexample", fmt.Sprintf("exit-status %d but expected %d", exit, mexit), c,
				fmt.Sprintf("the exit status must be non-zero exactly when some file could not be processed: real %d, expected %d (files %q); stderr: %s", exit, mexit, names, truncate(stderr.String(), 200)))
		} else if exit == mexit && strings.Join(names, "\x00") != strings.Join(mnames, "\x00") {
			r.Violate("counterexample", "resulting-file-names-differ", c,
				fmt.Sprintf("after the run the directory holds %q; the command-line semantics (theorems of Props/C15 about target names, -k, -c, -f) give %q; exit %d", names, mnames, exit))
		} else if exit != mexit || strings.Join(names, "\x00") != strings.Join(mnames, "\x00") {
			r.Violate("broken-correspondence", fmt.Sprintf("gxz-vs-model exit %d/%d", exit, mexit), c,
				fmt.Sprintf("real: exit %d, files %q; model (GFlag.parse + plan): exit %d, files %q; stderr: %s", exit, names, mexit, mnames, truncate(stderr.String(), 200)))
		} else {
			// contents: outputs must hold the right data, permissions must not grow
			for n, want := range mtree {
				got := final[n]
				switch {
				case strings.HasPrefix(want, "init:"):
					if !bytes.Equal(got.data, unhx(want[5:])) {
						r.Violate("counterexample", "untouched-file-changed", c, fmt.Sprintf("file %q was not to be touched but its content changed", n))
					}
				case strings.HasPrefix(want, "plainout:"):
					p := strings.SplitN(want, ":", 3)
					if !bytes.Equal(got.data, unhx(p[2])) {
						r.Violate("counterexample", "decompressed-content-wrong", c, fmt.Sprintf("%q does not hold the decoded content of %q", n, p[1]))
					}
					if src, ok := initial[p[1]]; ok && got.mode&^src.mode != 0 {
						r.Violate("counterexample", "permission-bits-added", c, fmt.Sprintf("output %q has mode %o, its input %q had %o", n, got.mode, p[1], src.mode))
					}
				case strings.HasPrefix(want, "compressed:"):
					p := strings.SplitN(want, ":", 4)
					srcName := string(unhx(p[2]))
					if src, ok := initial[srcName]; ok && got.mode&^src.mode != 0 {
						r.Violate("counterexample", "permission-bits-added", c, fmt.Sprintf("output %q has mode %o, its input %q had %o", n, got.mode, srcName, src.mode))
					}
					p = []string{p[0], p[1], p[3]}
					out, ok := decodes(p[1], got.data)
					if !ok || !bytes.Equal(out, unhx(p[2])) {
						r.Violate("counterexample", "compressed-content-wrong", c, fmt.Sprintf("%q does not decode (as %s) to its input", n, p[1]))
					}
					// reference decoder (strict) accepts gxz's xz output
					if p[1] == "xz" {
						if rep, err := d.Ask("xzread 1 0 0 " + hxe(got.data)); err == nil && !strings.HasPrefix(rep, "EOF ") {
							r.Violate("counterexample", "gxz-output-not-valid-xz", c, "the Lean reference decoder rejects a file written by gxz: "+truncate(rep, 80))
						}
					}
				}
			}
			if len(mstdout) > 0 && stdout.Len() == 0 {
				r.Violate("counterexample", "stdout-empty", c, "-c produced no output")
			}
		}
	}
	// ---- property oracle independent of the flag parser
	ops, suspects := referenceOperands(c.Argv)
	var mparsed []string
	if rep, err := d.Ask("gxzargs " + strings.Join(func() []string {
		var hs []string
		for _, a := range c.Argv {
			hs = append(hs, hxe([]byte(a)))
		}
		return hs
	}(), " ")); err == nil && rep != "ERR" {
		parts := strings.SplitN(rep, " |", 2)
		if len(parts) > 1 {
			for _, h := range strings.Fields(parts[1]) {
				mparsed = append(mparsed, string(unhxe(h)))
			}
		}
		if strings.Join(ops, "\x00") != strings.Join(mparsed, "\x00") && exit != 2 {
			sig := "operands-misparsed"
			for _, s := range suspects {
				if _, err := strconv.ParseBool(s); err == nil {
					sig = "argv-optional-arg: boolean/counter option swallows the operand " + strconv.Quote(s)
				} else if _, err := strconv.ParseInt(s, 0, 0); err == nil {
					sig = "argv-optional-arg: boolean/counter option swallows the operand " + strconv.Quote(s)
				}
			}
			r.Violate("counterexample", sig, c, fmt.Sprintf("file operands per the documented command-line syntax: %q; gxz processes: %q", ops, mparsed))
		}
	}
	if exit == 0 && modelled && mexit == 0 {
		r.Inc("exit_0")
	} else {
		r.Inc(fmt.Sprintf("exit_%d", exit))
	}
	r.Sample(map[string]interface{}{"argv": c.Argv, "files": len(c.Files), "exit": exit, "model_exit": mexit})
}

func genCliCase(rng *rand.Rand) cliCase {
	c := cliCase{Op: "gxz-cli"}
	nf := 1 + rng.Intn(4)
	used := map[string]bool{}
	decompress := rng.Intn(2) == 0
	for i := 0; i < nf; i++ {
		name := cliNames[rng.Intn(len(cliNames))]
		kind := "plain"
		if decompress && rng.Intn(5) > 0 {
			kind = []string{"xz", "lzma", "xz", "corrupt-xz"}[rng.Intn(4)]
			suffix := map[string]string{"xz": ".xz", "lzma": ".lzma", "corrupt-xz": ".xz"}[kind]
			switch rng.Intn(6) {
			case 0:
				suffix = map[string]string{"xz": ".txz", "lzma": ".tlz", "corrupt-xz": ".txz"}[kind]
			case 1:
				suffix = "" // no known suffix
			}
			name += suffix
		}
		if used[name] {
			continue
		}
		used[name] = true
		c.Files = append(c.Files, cliFile{Name: name, Kind: kind, Mode: []uint32{0o644, 0o600, 0o640, 0o664, 0o444}[rng.Intn(5)], Payload: rng.Intn(1 << 20)})
	}
	// a pre-existing target now and then
	if rng.Intn(4) == 0 && len(c.Files) > 0 {
		f := c.Files[0]
		t := f.Name + ".xz"
		if decompress && strings.Contains(f.Name, ".") {
			t = f.Name[:strings.LastIndex(f.Name, ".")]
		}
		if !used[t] && t != "" {
			used[t] = true
			c.Files = append(c.Files, cliFile{Name: t, Kind: "plain", Mode: 0o644, Payload: rng.Intn(1 << 20)})
		}
	}
	var flags []string
	if decompress {
		flags = append(flags, []string{"-d", "--decompress"}[rng.Intn(2)])
	} else if rng.Intn(4) == 0 {
		flags = append(flags, "-z")[:0] // -z is not an option of gxz: never emit it
	}
	for _, f := range []string{"-k", "-f", "-c", "-q", "-v", "--keep", "--force", "-qq"} {
		if rng.Intn(5) == 0 {
			flags = append(flags, f)
		}
	}
	if rng.Intn(4) == 0 {
		flags = append(flags, fmt.Sprintf("-%d", rng.Intn(10)))
	}
	if rng.Intn(4) == 0 {
		f := []string{"xz", "lzma", "alone", "auto", "gzip"}[rng.Intn(5)]
		switch rng.Intn(3) {
		case 0:
			flags = append(flags, "-F", f)
		case 1:
			flags = append(flags, "--format="+f)
		default:
			flags = append(flags, "--format", f)
		}
	}
	if rng.Intn(6) == 0 { // bundle two shorts
		flags = append(flags, "-kf")
	}
	if rng.Intn(40) == 0 {
		flags = append(flags, "--no-such-option")
	}
	if rng.Intn(40) == 0 {
		flags = append(flags, []string{"-x", "-kx", "-Z"}[rng.Intn(3)]) // unknown short option, also inside a bundle
	}
	if rng.Intn(30) == 0 {
		flags = append(flags, []string{"--keep=true", "--keep=false", "--force=1", "--stdout=0", "--quiet=2", "--decompress=false"}[rng.Intn(6)])
	}
	rng.Shuffle(len(flags), func(i, j int) { flags[i], flags[j] = flags[j], flags[i] })
	var ops []string
	for _, f := range c.Files {
		if rng.Intn(5) > 0 {
			ops = append(ops, f.Name)
		}
	}
	if rng.Intn(10) == 0 {
		ops = append(ops, "missing-file")
	}
	rng.Shuffle(len(ops), func(i, j int) { ops[i], ops[j] = ops[j], ops[i] })
	needDD := false
	for _, o := range ops {
		if strings.HasPrefix(o, "-") {
			needDD = true
		}
	}
	switch {
	case needDD || rng.Intn(3) == 0:
		c.Argv = append(append(flags, "--"), ops...)
	case rng.Intn(3) == 0 && len(ops) > 0: // options after / between operands
		c.Argv = append(append([]string{ops[0]}, flags...), ops[1:]...)
	default:
		c.Argv = append(flags, ops...)
	}
	if len(ops) == 0 {
		c.Argv = append(c.Argv, "missing-file")
	}
	return c
}

// C15: gxz command line.
func checkC15(a *checkArgs, r *Result) error {
	gxz := os.Getenv("XZH_GXZ")
	if gxz == "" {
		gxz = verifRoot() + "/harness/gxz-bin"
	}
	if _, err := os.Stat(gxz); err != nil {
		return fmt.Errorf("gxz binary %s missing: %v", gxz, err)
	}
	dp, err := newDriverPool(a.driver, 8)
	if err != nil {
		return err
	}
	defer dp.Close()
	r.Rule = "generated invocations of the unmodified gxz binary: directory states (names with spaces, leading dashes, names that parse as booleans/integers, known/unknown suffixes, .txz/.tlz, pre-existing targets, several permission modes, plain / xz / lzma / corrupt contents) x argument vectors (flag subsets and orders, bundled shorts, long options with and without '=', '--', options between operands, presets, -F values, unknown options, missing files, multi-file invocations with failing members); compared with the Lean model (GFlag.parse + plan): exit status and resulting file names, contents validated by decoding, gxz's xz output judged by the Lean strict decoder, permission bits; plus compress/decompress round trips over both formats and presets 0-9, and an oracle for the documented command-line syntax that is independent of the flag parser. Non-trivial: >= 2 arguments; distinct by (argv, directory)."
	rng := rand.New(rand.NewSource(a.seed))
	n := 2000
	if a.tier == "thorough" {
		n = 8000
	}
	var wg sync.WaitGroup
	sem := make(chan struct{}, 12)
	for i := 0; i < n; i++ {
		c := genCliCase(rng)
		wg.Add(1)
		sem <- struct{}{}
		go func(c cliCase) {
			defer wg.Done()
			defer func() { <-sem }()
			runCliCase(r, dp, gxz, c)
		}(c)
	}
	// round trips: gxz f; gxz -d f.ext  for both formats and all presets
	for _, format := range []string{"xz", "lzma"} {
		for preset := 0; preset <= 9; preset++ {
			wg.Add(1)
			sem <- struct{}{}
			go func(format string, preset int) {
				defer wg.Done()
				defer func() { <-sem }()
				dir, _ := os.MkdirTemp("", "gxzrt")
				defer os.RemoveAll(dir)
				name := []string{"file.txt", "with space", "noext"}[preset%3]
				payload := cliPayload(1000 + preset)
				if preset%3 == 2 && preset > 0 { // a match further back than the smallest preset's dictionary (256 KiB)
					head := cliPayload(77)
					payload = append(append(append([]byte{}, head...), genRandom(rand.New(rand.NewSource(int64(preset))), 400000)...), head...)
				}
				if preset%3 == 1 { // incompressible prefix spanning several LZMA2 chunks, then text
					payload = append(genRandom(rand.New(rand.NewSource(int64(preset))), 200000), payload...)
				}
				mode := []os.FileMode{0o644, 0o600, 0o640}[preset%3]
				os.WriteFile(filepath.Join(dir, name), payload, mode)
				os.Chmod(filepath.Join(dir, name), mode)
				cs := map[string]interface{}{"op": "gxz-roundtrip", "format": format, "preset": preset, "name": name}
				run := func(args ...string) int {
					cmd := exec.Command(gxz, args...)
					cmd.Dir = dir
					if err := cmd.Run(); err != nil {
						if ee, ok := err.(*exec.ExitError); ok {
							return ee.ExitCode()
						}
						return -1
					}
					return 0
				}
				e1 := run(fmt.Sprintf("-%d", preset), "-F", format, "--", name)
				t1 := readTree(dir)
				cname := name + "." + format
				r.Count(fmt.Sprint("rt", format, preset), true)
				if e1 != 0 || len(t1) != 1 || t1[cname].data == nil {
					r.Violate("counterexample", "roundtrip-compress "+format, cs, fmt.Sprintf("gxz -%d -F %s: exit %d, directory %v", preset, format, e1, keysOf(t1)))
					return
				}
				if t1[cname].mode&^uint32(mode) != 0 {
					r.Violate("counterexample", "permission-bits-added", cs, fmt.Sprintf("compressed file mode %o, input %o", t1[cname].mode, mode))
				}
				dargs := []string{"-d", "--", cname}
				if preset%3 == 2 {
					dargs = []string{"-d", "-0", "--", cname} // a smaller preset at decompression must not matter
				}
				e2 := run(dargs...)
				t2 := readTree(dir)
				if e2 != 0 || len(t2) != 1 || !bytes.Equal(t2[name].data, payload) || t2[name].mode&^uint32(mode) != 0 {
					r.Violate("counterexample", "roundtrip-decompress "+format, cs, fmt.Sprintf("gxz -d: exit %d, directory %v, mode %o (input %o)", e2, keysOf(t2), t2[name].mode, mode))
				}
			}(format, preset)
		}
	}
	wg.Wait()
	r.Extra["driver_requests"] = dp.Requests()
	return nil
}

func keysOf(m map[string]treeEntry) []string {
	var k []string
	for n := range m {
		k = append(k, n)
	}
	sort.Strings(k)
	return k
}

func init() { checks["C15"] = checkC15 }
