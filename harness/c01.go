package main

import (
	"bytes"
	"encoding/json"
	"fmt"
	"math/rand"
	"os"
	"regexp"
	"strconv"
	"strings"
	"sync"
	"time"

	"github.com/ulikunitz/xz"
	"github.com/ulikunitz/xz/lzma"
)

// xz writer cases: C01 (round trip with the library's reader, calls after Close),
// C02 (validity under the Lean Spec decoder, container consistency), plus the relational tie
// (the Lean model re-encodes the operations parsed from the Go output; bytes must be identical).

type xzCase struct {
	Op    string `json:"op"`
	Name  string `json:"name"`
	Cfg   xzCfg  `json:"cfg"`
	Data  string `json:"data_hex"`
	Parts []int  `json:"parts"`
}

var lclppb [][3]int

func init() {
	for lc := 0; lc <= 4; lc++ {
		for lp := 0; lc+lp <= 4; lp++ {
			for pb := 0; pb <= 4; pb++ {
				lclppb = append(lclppb, [3]int{lc, lp, pb})
			}
		}
	}
}

func pickXzCfg(rng *rand.Rand, i int) xzCfg {
	t := lclppb[rng.Intn(len(lclppb))]
	if i%3 == 0 {
		t = [3]int{3, 0, 2}
	}
	c := xzCfg{LC: t[0], LP: t[1], PB: t[2]}
	c.DictCap = []int{4096, 4097, 6144, 65536, 1 << 20, 4096, 65536}[rng.Intn(7)]
	if rng.Intn(4) == 0 {
		// one below / at / one above a representable dictionary size (2^k and 3*2^(k-1)), up to 1.5 MiB
		k := 12 + rng.Intn(9)
		base := []int{1 << uint(k), 3 << uint(k-1)}[rng.Intn(2)]
		c.DictCap = base + rng.Intn(3) - 1
		if c.DictCap < 4096 {
			c.DictCap = 4096
		}
	}
	c.BufSize = []int{273, 274, 4096, 4096, 1000}[rng.Intn(5)]
	c.BlockSize = []int64{0, 0, 0, 1, 2, 273, 1000, 4096, 65536, 100000}[rng.Intn(10)]
	switch rng.Intn(6) {
	case 0:
		c.CheckSum = 0 // default CRC64
	case 1:
		c.CheckSum = xz.CRC32
	case 2:
		c.CheckSum = xz.CRC64
	case 3:
		c.CheckSum = xz.SHA256
	case 4:
		c.NoCheckSum = true
	case 5:
		c.CheckSum = xz.CRC32
		c.NoCheckSum = rng.Intn(2) == 0
	}
	c.Matcher = rng.Intn(2)
	return c
}

// maxData bounds the input so that the case stays cheap: tiny block sizes create one block per
// byte, the BinaryTree matcher is quadratic on runs.
func maxData(c xzCfg, big bool) int {
	m := 70000
	if big {
		m = 400000
	}
	if c.BlockSize > 0 && c.BlockSize <= 2 {
		m = 40
	} else if c.BlockSize > 0 && c.BlockSize < 1000 {
		m = 6000
	}
	if c.Matcher == 1 && m > 12000 {
		m = 12000
	}
	return m
}

var blockRe = regexp.MustCompile(`B hl=(\d+) cs=(\S+) us=(\S+) dc=(\d+) u=(\d+) c=(\d+) k=(\S*)`)

type blockInfo struct {
	HL, DC, U, C int
	Chunks       []string
}

func parseBlocks(info string) []blockInfo {
	var bs []blockInfo
	for _, m := range blockRe.FindAllStringSubmatch(info, -1) {
		b := blockInfo{}
		b.HL, _ = strconv.Atoi(m[1])
		b.DC, _ = strconv.Atoi(m[4])
		b.U, _ = strconv.Atoi(m[5])
		b.C, _ = strconv.Atoi(m[6])
		if m[7] != "" {
			b.Chunks = strings.Split(m[7], ",")
		}
		bs = append(bs, b)
	}
	return bs
}

func checksumOf(c xzCfg) int {
	if c.NoCheckSum {
		return 0
	}
	if c.CheckSum == 0 {
		return int(xz.CRC64)
	}
	return int(c.CheckSum)
}

// runXzCase runs one writer case through every oracle. prop selects which oracles raise
// violations for the property being checked ("C01" or "C02"); correspondence breaks count for both.
// caseData: "@opsfit:<filler>" denotes the generated input of harness/opsfit_gen.go
func caseData(s string) []byte {
	var f int
	if n, _ := fmt.Sscanf(s, "@opsfit:%d", &f); n == 1 {
		d, _ := opsfitGenerate(opsfitParams{Seed: 1, Filler: f, Tail: 1000})
		return d
	}
	var gap, seed int
	if n, _ := fmt.Sscanf(s, "@far:%d:%d", &gap, &seed); n == 2 {
		// a block, a long run of zeros, the same block again: one match at a distance beyond the gap
		x := genRandom(rand.New(rand.NewSource(int64(seed))), 65536)
		d := append(append(append(make([]byte, 0, gap+131072), x...), make([]byte, gap)...), x...)
		return d
	}
	return unhxe(s)
}

func runXzCase(r *Result, dp *DriverPool, prop string, cs xzCase, sizes []int64) {
	if tooManyTimeouts() {
		r.Inc("cases_skipped_after_timeouts")
		return
	}
	data := caseData(cs.Data)
	c := cs.Cfg
	viol := func(kind, sig, note string) {
		r.Violate(kind, sig, cs, note)
	}
	w := goXzWrite(c, data, cs.Parts, 120*time.Second)
	if w.TimedOut {
		viol("counterexample", "write-timeout "+cs.Name+" "+c.String(), "writer did not finish in 120 s")
		return
	}
	if e := w.firstErr(); e != "" {
		if prop == "C01" {
			viol("counterexample", fmt.Sprintf("write-error matcher=%d dict=%d: %s", c.Matcher, c.DictCap, e), "Write/Close of valid configuration failed: "+e)
		}
		return
	}
	// functional tie of the WHOLE xz writer: the Lean model (block bookkeeping + Writer2 machine + its own model of
	// the selected match finder + container assembly incl. checks) computes the stream from the Write calls alone
	if prop == "C01" && c.DictCap <= 8192 && len(data) <= 30000 && (c.Matcher == 0 || len(data) <= 9000) && (c.BlockSize == 0 || c.BlockSize >= 200) {
		blk := c.BlockSize
		if blk == 0 {
			blk = 1<<63 - 1
		}
		q := fmt.Sprintf("xzwauto %d %d %d %d %d %d", c.Matcher, (c.PB*5+c.LP)*9+c.LC, c.DictCap, c.BufSize, blk, checksumOf(c))
		off := 0
		for _, k := range cs.Parts {
			q += " W" + hxe(data[off:off+k])
			off += k
		}
		if rep, err := dp.Ask(q); err == nil {
			r.Inc(fmt.Sprintf("xzwriter_auto_matcher%d", c.Matcher))
			if strings.TrimSpace(rep) != hxe(w.Out) {
				m := unhxe(strings.TrimSpace(rep))
				pos := 0
				for pos < len(m) && pos < len(w.Out) && m[pos] == w.Out[pos] {
					pos++
				}
				viol("broken-correspondence", fmt.Sprintf("xzwriter-auto stream bytes matcher=%d", c.Matcher),
					fmt.Sprintf("the Lean model of the whole xz writer (with its own match finder model) produces a different stream: first difference at byte %d of %d (model %d bytes)", pos, len(w.Out), len(m)))
			}
		}
	}
	nontrivial := len(data) >= 16
	// Go reader
	g := goXzRead(w.Out, 0, false, 120*time.Second)
	goOK := g.Err == "EOF" && bytes.Equal(g.Out, data)
	if !goOK && prop == "C01" {
		viol("counterexample", fmt.Sprintf("roundtrip matcher=%d: reader %s %s", c.Matcher, g.Err, g.Msg),
			fmt.Sprintf("library reader returned %d bytes (want %d), status %s %s %s", len(g.Out), len(data), g.Err, g.Msg, g.Panic))
	}
	// Lean Spec decoder (strict)
	rep, err := dp.Ask(fmt.Sprintf("xzread 1 0 0 %s", hxe(w.Out)))
	if err != nil {
		viol("broken-correspondence", "driver-died", err.Error())
		return
	}
	m, err := parseModelRead(rep)
	if err != nil {
		viol("broken-correspondence", "driver-reply", err.Error())
		return
	}
	specOK := m.Class == "EOF" && bytes.Equal(m.Out, data)
	if !specOK && prop == "C02" {
		viol("counterexample", fmt.Sprintf("spec-reject matcher=%d: %s", c.Matcher, m.Detail),
			fmt.Sprintf("the Lean reference decoder (strict format rules) does not accept the emitted stream or decodes other bytes: %s; %d bytes, want %d", m.Detail, len(m.Out), len(data)))
	}
	if specOK != goOK {
		// reader and spec disagree about the writer's output
		viol("broken-correspondence", fmt.Sprintf("reader-vs-spec matcher=%d go=%s spec=%s", c.Matcher, g.Err, m.Class),
			"library reader and Lean Spec decoder disagree on the writer's output")
	}
	if specOK {
		blocks := parseBlocks(m.Info)
		// container consistency beyond what the strict decoder enforces
		if prop == "C02" {
			bsz := c.BlockSize
			for i, b := range blocks {
				if bsz > 0 && i < len(blocks)-1 && int64(b.U) != bsz {
					viol("counterexample", fmt.Sprintf("block-size block %d has %d want %d", i, b.U, bsz), "a block other than the last does not carry exactly BlockSize bytes")
				}
				if bsz > 0 && int64(b.U) > bsz {
					viol("counterexample", fmt.Sprintf("block-size block %d exceeds", i), "block larger than BlockSize")
				}
				if sizes[b.DC] < int64(c.DictCap) || (b.DC > 0 && sizes[b.DC-1] >= int64(c.DictCap)) {
					viol("counterexample", fmt.Sprintf("dict-code %d for capacity %d", b.DC, c.DictCap), "declared dictionary size is not the smallest representable size >= DictCap")
				}
			}
			// functional tie of the block bookkeeping (Model/XzWriter.lean): the model predicts every block's size
			if bsz > 0 && bsz < 1<<40 {
				q := fmt.Sprintf("xwrun %d", bsz)
				for _, k := range cs.Parts {
					q += fmt.Sprintf(" %d", k)
				}
				if rep, err := dp.Ask(q); err == nil {
					var got []string
					for _, b := range blocks {
						got = append(got, fmt.Sprint(b.U))
					}
					r.Inc("xzwriter_model_histories")
					if strings.TrimSpace(rep) != strings.Join(got, " ") {
						viol("broken-correspondence", "xzwriter-model block sizes", fmt.Sprintf("the Lean model of the xz writer's block bookkeeping predicts block sizes [%s], the real output has [%s]", truncate(rep, 80), truncate(strings.Join(got, " "), 80)))
					}
				}
			}
			if !strings.Contains(m.Info, fmt.Sprintf("S flags=%d ", checksumOf(c))) {
				viol("counterexample", "check-type", "stream flags do not carry the configured check: "+truncate(m.Info, 80))
			}
			if strings.Count(m.Info, "S flags=") != 1 {
				viol("counterexample", "stream-count", "writer emitted other than exactly one stream")
			}
		}
		for _, b := range blocks {
			if len(b.Chunks) >= 3 {
				nontrivial = nontrivial && true
			}
			for _, ch := range b.Chunks {
				r.Inc("chunk_" + strings.SplitN(ch, ":", 2)[0])
			}
		}
		r.Add("blocks", len(blocks))
	}
	// relational tie: re-encode the parsed operations with the Lean encoder
	re, err := dp.Ask("xzreenc " + hxe(w.Out))
	if err != nil {
		viol("broken-correspondence", "driver-died", err.Error())
		return
	}
	r.mu.Lock()
	r.TracesVsImpl++
	r.mu.Unlock()
	if re != hxe(w.Out) {
		pos := 0
		for pos < len(re) && pos < 2*len(w.Out) && re[pos] == hxe(w.Out)[pos] {
			pos++
		}
		viol("broken-correspondence", fmt.Sprintf("reencode matcher=%d differs", c.Matcher),
			fmt.Sprintf("Lean model encoder, fed the operations and chunk layout parsed from the Go output, produces different bytes (first difference at byte %d; reply %s)", pos/2, truncate(re, 60)))
	}
	r.Count(cs.Name+c.String()+fmt.Sprint(cs.Parts), nontrivial && (strings.Contains(m.Info, "lrnd:") || strings.Contains(m.Info, "ud:")))
	r.Inc("data_" + strings.SplitN(cs.Name, "/", 2)[0])
	r.Inc(fmt.Sprintf("matcher_%d", c.Matcher))
	r.Inc(fmt.Sprintf("check_%d", checksumOf(c)))
	r.Add("input_bytes", len(data))
	r.Sample(map[string]interface{}{"name": cs.Name, "cfg": c.String(), "parts": len(cs.Parts), "in": len(data), "out": len(w.Out), "info": truncate(m.Info, 160)})
}

func unhxe(s string) []byte {
	if s == "-" || s == "" {
		return nil
	}
	return unhx(s)
}

func driverSizes(dp *DriverPool) ([]int64, error) {
	s, err := dp.Ask("dictsizes")
	if err != nil {
		return nil, err
	}
	var sizes []int64
	for _, f := range strings.Fields(s) {
		v, _ := strconv.ParseInt(f, 10, 64)
		sizes = append(sizes, v)
	}
	if len(sizes) != 41 {
		return nil, fmt.Errorf("dictsizes: %q", s)
	}
	return sizes, nil
}

// afterCloseChecks: Write / Close after Close fail and emit nothing.
func afterCloseChecks(r *Result, rng *rand.Rand) {
	for i := 0; i < 12; i++ {
		c := pickXzCfg(rng, i)
		_, data := pickData(rng, 2000)
		var buf bytes.Buffer
		w, err := c.config().NewWriter(&buf)
		if err != nil {
			continue
		}
		w.Write(data)
		if err := w.Close(); err != nil {
			continue
		}
		n0 := buf.Len()
		res := []callRes{
			guard(func() (int, error) { return w.Write([]byte("x")) }),
			guard(func() (int, error) { return 0, w.Close() }),
			guard(func() (int, error) { return w.Write(nil) }),
		}
		r.Count(fmt.Sprintf("afterclose%d", i), true)
		cs := map[string]interface{}{"op": "after-close", "cfg": c, "data_hex": hxe(data), "calls": res}
		if res[0].Err == "nil" || res[0].Err == "Panic" || res[1].Err == "nil" || res[1].Err == "Panic" || res[2].Err == "Panic" || res[0].N != 0 {
			r.Violate("counterexample", "after-close call succeeded or panicked", cs, "Write/Close after Close must fail")
		}
		if buf.Len() != n0 {
			r.Violate("counterexample", "after-close emitted bytes", cs, "a call after Close wrote to the sink")
		}
	}
}

func checkXzWriter(prop string) func(a *checkArgs, r *Result) error {
	return func(a *checkArgs, r *Result) error {
		dp, err := newDriverPool(a.driver, 16)
		if err != nil {
			return err
		}
		defer dp.Close()
		sizes, err := driverSizes(dp)
		if err != nil {
			return err
		}
		r.Rule = "generated (data family x size x WriterConfig x partition) cases from one PRNG; each case: real xz.Writer -> real xz.Reader, -> Lean Spec decoder (strict), -> Lean model re-encodes the parsed operations/chunks/container (bytes must be identical); plus calls after Close and partition independence. Non-trivial: input >= 16 bytes and the output contains at least one LZMA or raw chunk; distinct by (data, config, partition)."
		if a.replay != "" {
			var rp struct {
				Case xzCase `json:"case"`
			}
			b, err := os.ReadFile(a.replay)
			if err != nil {
				return err
			}
			if err := json.Unmarshal(b, &rp); err != nil {
				return err
			}
			runXzCase(r, dp, prop, rp.Case, sizes)
			return nil
		}
		rng := rand.New(rand.NewSource(a.seed))
		if prop == "C01" {
			nsel := 300
			if a.tier == "thorough" {
				nsel = 3000
			}
			if err := selectTie(r, dp, rand.New(rand.NewSource(a.seed+31)), nsel); err != nil {
				return err
			}
		}
		n := 2500
		big := 8
		if a.tier == "thorough" {
			n, big = 4000, 40
		}
		var cases []xzCase
		// corpus of past failures first
		cases = append(cases,
			xzCase{Op: "xzwrite", Name: "corpus/F1-zero-prefix-bintree", Cfg: xzCfg{LC: 3, PB: 2, DictCap: 1 << 20, BufSize: 4096, Matcher: 1},
				Data: hxe(append([]byte{0}, bytes.Repeat([]byte("abcdefgh"), 200)...)), Parts: []int{1601}},
			xzCase{Op: "xzwrite", Name: "corpus/F2-small-dict-random", Cfg: xzCfg{LC: 3, PB: 2, DictCap: 4096, BufSize: 4096},
				Data: hxe(genRandom(rand.New(rand.NewSource(5)), 200000)), Parts: []int{200000}})
		noise := genRandom(rand.New(rand.NewSource(9)), 140000)
		cases = append(cases, xzCase{Op: "xzwrite", Name: "corpus/raw-raw-compressed", Cfg: xzCfg{LC: 3, PB: 2, DictCap: 1 << 20, BufSize: 4096},
			Data: hxe(append(append([]byte{}, noise...), genText(rng, 30000)...)), Parts: []int{170000}})
		// F17: one far match costing 17-18 range-coder bytes where the compressed chunk is nearly full
		fillers := []int{93912, 93918, 93924}
		if a.tier == "thorough" {
			fillers = nil
			for f := 93880; f <= 93950; f += 2 {
				fillers = append(fillers, f)
			}
		}
		for _, f := range fillers {
			cases = append(cases, xzCase{Op: "xzwrite", Name: fmt.Sprintf("corpus/opsfit filler=%d", f), Cfg: xzCfg{LC: 3, PB: 2, DictCap: 8 << 20, BufSize: 4096},
				Data: fmt.Sprintf("@opsfit:%d", f), Parts: []int{len(caseData(fmt.Sprintf("@opsfit:%d", f)))}})
		}
		// a match farther back than the reader's default dictionary (8 MiB): the reader must size its dictionary
		// from the block header
		{
			ds := fmt.Sprintf("@far:%d:7", 9<<20)
			cases = append(cases, xzCase{Op: "xzwrite", Name: "far-match/12000000", Cfg: xzCfg{LC: 3, PB: 2, DictCap: 12000000, BufSize: 4096}, Data: ds, Parts: []int{len(caseData(ds))}})
		}
		// the zero configuration (all defaults)
		for i := 0; i < 4; i++ {
			name, d := pickData(rng, 60000)
			cases = append(cases, xzCase{Op: "xzwrite", Name: "zero-config/" + name, Cfg: xzCfg{LC: 3, PB: 2, DictCap: 8 << 20, BufSize: 4096, Zero: true}, Data: hxe(d), Parts: partition(rng, len(d))})
		}
		// barely compressible data: the raw and the LZMA form of every chunk are nearly the same size
		for i := 0; i < 6; i++ {
			d := genBarely(rng, 140000+rng.Intn(80000))
			c := xzCfg{LC: 3, PB: 2, DictCap: []int{1 << 20, 8 << 20, 65536}[i%3], BufSize: 4096, Matcher: 0}
			cases = append(cases, xzCase{Op: "xzwrite", Name: fmt.Sprintf("barely/%d", len(d)), Cfg: c, Data: hxe(d), Parts: []int{len(d)}})
		}
		// alignment sweep: k literals, then maximal matches (273 bytes) until the dictionary buffers of writer and
		// reader wrap: every residue of the fill level modulo the maximal match length is met
		for k := 0; k < 2*273; k++ {
			m := k / 273
			k := k % 273
			d := make([]byte, k, k+13000)
			for j := range d {
				d[j] = byte(1 + j%251)
			}
			d = append(d, make([]byte, 3*4096+k%7)...)
			cases = append(cases, xzCase{Op: "xzwrite", Name: fmt.Sprintf("align/%d/m%d", k, m), Cfg: xzCfg{LC: 3, PB: 2, DictCap: 4096, BufSize: []int{4096, 273, 1000}[k%3], Matcher: m}, Data: hxe(d), Parts: []int{len(d)}})
		}
		// a ring only just larger than a full chunk with a large look-ahead, incompressible data
		for i := 0; i < 4; i++ {
			d := genRandom(rng, 140000+rng.Intn(40000))
			c := xzCfg{LC: 3, PB: 2, DictCap: 56000 + rng.Intn(9000), BufSize: []int{8192, 16384}[i%2], Matcher: 0}
			cases = append(cases, xzCase{Op: "xzwrite", Name: fmt.Sprintf("tight-ring/%d", len(d)), Cfg: c, Data: hxe(d), Parts: []int{len(d)}})
		}
		for i := 0; i < big*2; i++ { // regime switches: several raw chunks, then compressible data, and back
			var d []byte
			for k := 0; k < 2+rng.Intn(3); k++ {
				d = append(d, genRandom(rng, 66000+rng.Intn(80000))...)
				d = append(d, genText(rng, 1000+rng.Intn(40000))...)
			}
			c := pickXzCfg(rng, 1+i) // random lc/lp/pb (i%3 != 0 for most)
			c.Matcher, c.DictCap, c.BlockSize = 0, []int{65536, 1 << 20}[rng.Intn(2)], 0
			cases = append(cases, xzCase{Op: "xzwrite", Name: fmt.Sprintf("regimes/%d", len(d)), Cfg: c, Data: hxe(d), Parts: partition(rng, len(d))})
		}
		for i := 0; i < n; i++ {
			c := pickXzCfg(rng, i)
			name, data := pickData(rng, maxData(c, i < big*4 && i%4 == 0))
			cases = append(cases, xzCase{Op: "xzwrite", Name: name, Cfg: c, Data: hxe(data), Parts: partition(rng, len(data))})
		}
		// a few multi-chunk / multi-MiB inputs (chunk limits 64 KiB / 2 MiB)
		bigN := 1
		if a.tier == "thorough" {
			bigN = 8
		}
		for i := 0; i < bigN; i++ {
			sz := 2200000 + rng.Intn(300000)
			var data []byte
			switch i % 3 {
			case 0:
				data = genLowEntropy(rng, sz) // very compressible: hits the 2 MiB uncompressed limit
			case 1:
				data = genMixed(rng, sz/4)
			default:
				data = genRandom(rng, sz/8)
			}
			c := xzCfg{LC: 3, PB: 2, DictCap: 1 << 20, BufSize: 4096}
			cases = append(cases, xzCase{Op: "xzwrite", Name: fmt.Sprintf("big/%d", len(data)), Cfg: c, Data: hxe(data), Parts: []int{len(data)}})
		}
		rep := bytes.Repeat([]byte("all work and no play makes jack a dull boy. "), 58000)
		cases = append(cases, xzCase{Op: "xzwrite", Name: fmt.Sprintf("big/repetitive/%d", len(rep)), Cfg: xzCfg{LC: 3, PB: 2, DictCap: 1 << 20, BufSize: 4096}, Data: hxe(rep), Parts: []int{len(rep)}})
		var wg sync.WaitGroup
		sem := make(chan struct{}, 16)
		for _, cs := range cases {
			wg.Add(1)
			sem <- struct{}{}
			go func(cs xzCase) {
				defer wg.Done()
				defer func() { <-sem }()
				runXzCase(r, dp, prop, cs, sizes)
			}(cs)
		}
		wg.Wait()
		nscript := 1500
		if a.tier == "thorough" {
			nscript = 6000
		}
		if err := scriptedOpsTie(r, dp, rng, nscript, true); err != nil {
			return err
		}
		if prop == "C02" {
			// the translator behind Gen/GoSrc.lean (range coder, probabilities, state arithmetic) against the Go code
			nx := 400
			if a.tier == "thorough" {
				nx = 4000
			}
			if err := xlateTie(r, dp, rand.New(rand.NewSource(a.seed+911)), nx); err != nil {
				return err
			}
		}
		if prop == "C01" {
			afterCloseChecks(r, rng)
			// partition independence / determinism
			for i := 0; i < 40; i++ {
				c := pickXzCfg(rng, i)
				name, data := pickData(rng, maxData(c, false)/2)
				w1 := goXzWrite(c, data, []int{len(data)}, 60*time.Second)
				w2 := goXzWrite(c, data, partition(rng, len(data)), 60*time.Second)
				r.Count("part"+name+c.String(), len(data) > 16)
				if w1.firstErr() == "" && w2.firstErr() == "" && !bytes.Equal(w1.Out, w2.Out) {
					r.Violate("counterexample", "partition-dependence matcher="+fmt.Sprint(c.Matcher),
						xzCase{Op: "xzwrite", Name: name, Cfg: c, Data: hxe(data)}, "output depends on how the input is split over Write calls")
				}
			}
		}
		r.Extra["driver_requests"] = dp.Requests()
		_ = lzma.HashTable4
		return nil
	}
}

func init() {
	checks["C01"] = checkXzWriter("C01")
	checks["C02"] = checkXzWriter("C02")
}
