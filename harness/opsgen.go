package main

import (
	"fmt"
	"math/rand"
	"strings"
)

// Specification-driven generator of legal LZMA operation sequences, LZMA2 chunk layouts and
// .xz container layouts. It tracks the decoded content itself, so the expected output of every
// generated stream is known by construction (independent of the Go code and of the Lean model).

type opGen struct {
	rng      *rand.Rand
	content  []byte // everything decoded so far (all chunks of the current block / stream)
	dictBase int    // index in content where the dictionary starts (after a reset)
	dictSize int    // window
	rep      [4]int // stored distances (distance-1)
}

func (g *opGen) dictLen() int {
	n := len(g.content) - g.dictBase
	if n > g.dictSize {
		n = g.dictSize
	}
	return n
}

func (g *opGen) copyFrom(dist, n int) {
	for i := 0; i < n; i++ {
		g.content = append(g.content, g.content[len(g.content)-dist])
	}
}

func (g *opGen) resetState() { g.rep = [4]int{} }

func (g *opGen) pickLen() int {
	switch g.rng.Intn(6) {
	case 0:
		return 2
	case 1:
		return 2 + g.rng.Intn(8) // low
	case 2:
		return 10 + g.rng.Intn(8) // mid
	case 3:
		return 273
	case 4:
		return 18 + g.rng.Intn(256) // high
	default:
		return 2 + g.rng.Intn(40)
	}
}

func (g *opGen) pickDist() int {
	dl := g.dictLen()
	switch g.rng.Intn(6) {
	case 0:
		return dl // window edge
	case 1:
		return 1 + g.rng.Intn(minInt(dl, 4))
	case 2:
		return 1 + g.rng.Intn(minInt(dl, 128))
	case 3:
		if dl > 1 {
			return dl - g.rng.Intn(minInt(dl-1, 3)) // near the edge
		}
		return 1
	default:
		return 1 + g.rng.Intn(dl)
	}
}

// next produces one legal operation, applies it and returns its textual form.
func (g *opGen) next() string {
	dl := g.dictLen()
	k := g.rng.Intn(100)
	if dl == 0 || k < 30 {
		var b byte
		if len(g.content) > 0 && g.rng.Intn(3) == 0 {
			b = g.content[len(g.content)-1] ^ byte(1<<uint(g.rng.Intn(8)))
		} else {
			b = byte(g.rng.Intn(256))
			if g.rng.Intn(4) == 0 {
				b = 0
			}
		}
		g.content = append(g.content, b)
		return fmt.Sprintf("L%d", b)
	}
	if k < 55 { // new match
		d := g.pickDist()
		n := g.pickLen()
		g.copyFrom(d, n)
		g.rep = [4]int{d - 1, g.rep[0], g.rep[1], g.rep[2]}
		return fmt.Sprintf("M%d,%d", n, d-1)
	}
	if k < 70 { // short rep
		if g.rep[0]+1 <= dl {
			g.copyFrom(g.rep[0]+1, 1)
			return "S"
		}
	}
	// rep match with index gi
	gi := g.rng.Intn(4)
	if k >= 92 {
		gi = 3
	}
	if g.rep[gi]+1 > dl {
		// not applicable: fall back to a literal
		b := byte(g.rng.Intn(256))
		g.content = append(g.content, b)
		return fmt.Sprintf("L%d", b)
	}
	d := g.rep[gi]
	switch gi {
	case 1:
		g.rep = [4]int{d, g.rep[0], g.rep[2], g.rep[3]}
	case 2:
		g.rep = [4]int{d, g.rep[0], g.rep[1], g.rep[3]}
	case 3:
		g.rep = [4]int{d, g.rep[0], g.rep[1], g.rep[2]}
	}
	n := g.pickLen()
	g.copyFrom(d+1, n)
	return fmt.Sprintf("R%d,%d", gi, n)
}

var kindNamesAll = []string{"eos", "ud", "u", "l", "lr", "lrn", "lrnd"}

// legalKinds lists the chunk kinds (other than eos) allowed by the format given the two flags.
func legalKinds(needDict, needProps bool) []string {
	if needDict {
		return []string{"ud", "lrnd"}
	}
	if needProps {
		return []string{"ud", "u", "lrn", "lrnd"}
	}
	return []string{"ud", "u", "l", "lr", "lrn", "lrnd", "l", "l", "lr"}
}

func randProps(rng *rand.Rand, lzma2 bool) (lc, lp, pb int) {
	if lzma2 {
		t := lclppb[rng.Intn(len(lclppb))]
		return t[0], t[1], t[2]
	}
	return rng.Intn(9), rng.Intn(5), rng.Intn(5)
}

// genChunks produces a legal chunk sequence (without the final eos) as driver chunk specs and
// returns the kinds used. The generator g accumulates the content.
func genChunks(g *opGen, nChunks, maxOps int) (specs []string, kinds []string) {
	needDict, needProps := true, true
	for i := 0; i < nChunks; i++ {
		ks := legalKinds(needDict, needProps)
		k := ks[g.rng.Intn(len(ks))]
		switch k {
		case "ud", "u":
			if k == "ud" {
				g.dictBase = len(g.content)
				needDict, needProps = false, true
			}
			n := 1 + g.rng.Intn(300)
			if g.rng.Intn(8) == 0 {
				n = 65536
			}
			raw := make([]byte, n)
			g.rng.Read(raw)
			if g.rng.Intn(2) == 0 && len(g.content) >= n { // repeat earlier content so later matches are interesting
				copy(raw, g.content[len(g.content)-n:])
			}
			g.content = append(g.content, raw...)
			specs = append(specs, fmt.Sprintf("%s/-/%s", k, hx(raw)))
		default:
			props := "-"
			if k == "lrnd" {
				g.dictBase = len(g.content)
				needDict = false
			}
			if k == "lrn" || k == "lrnd" {
				lc, lp, pb := randProps(g.rng, true)
				props = fmt.Sprint((pb*5+lp)*9 + lc)
				needProps = false
			}
			if k != "l" {
				g.resetState()
			}
			nops := 1 + g.rng.Intn(maxOps)
			ops := make([]string, 0, nops)
			for j := 0; j < nops; j++ {
				ops = append(ops, g.next())
			}
			specs = append(specs, fmt.Sprintf("%s/%s/%s", k, props, strings.Join(ops, ".")))
		}
		kinds = append(kinds, k)
	}
	return specs, kinds
}

// goChoice converts an abstract copy (distance, length) into the operation the Go encoder's
// writeMatch emits for it: the first rep register holding the distance wins; length 1 is the
// short rep. It mirrors lzma/encoder.go and also updates the generator's rep registers.
func (g *opGen) goChoice(dist, n int) string {
	d := dist - 1
	gi := -1
	for i := 0; i < 4; i++ {
		if g.rep[i] == d {
			gi = i
			break
		}
	}
	if gi < 0 {
		g.rep = [4]int{d, g.rep[0], g.rep[1], g.rep[2]}
		return fmt.Sprintf("M%d,%d", n, d)
	}
	if gi == 0 && n == 1 {
		return "S"
	}
	switch gi {
	case 1:
		g.rep = [4]int{d, g.rep[0], g.rep[2], g.rep[3]}
	case 2:
		g.rep = [4]int{d, g.rep[0], g.rep[1], g.rep[3]}
	case 3:
		g.rep = [4]int{d, g.rep[0], g.rep[1], g.rep[2]}
	}
	return fmt.Sprintf("R%d,%d", gi, n)
}

// nextAbstract produces one legal abstract operation (literal or copy), applies it, and returns
// it both as the Go scripted-matcher operation and as the bit-stream operation Go will emit.
func (g *opGen) nextAbstract() (dist, n int, lit byte, raw string) {
	dl := g.dictLen()
	k := g.rng.Intn(100)
	if dl == 0 || k < 35 {
		var b byte
		switch {
		case dl > 0 && g.rep[0]+1 <= dl && g.rng.Intn(3) == 0:
			b = g.content[len(g.content)-g.rep[0]-1] // equals the match byte: all eight bits take the matched path
		case len(g.content) > 0 && g.rng.Intn(3) == 0:
			b = g.content[len(g.content)-1] ^ byte(1<<uint(g.rng.Intn(8)))
		default:
			b = byte(g.rng.Intn(256))
			if g.rng.Intn(4) == 0 {
				b = 0
			}
		}
		g.content = append(g.content, b)
		return 0, 0, b, fmt.Sprintf("L%d", b)
	}
	var d int
	switch {
	case k < 60:
		d = g.pickDist()
	default:
		d = g.rep[g.rng.Intn(4)] + 1
		if d > dl {
			d = g.pickDist()
		}
	}
	ln := g.pickLen()
	if d == g.rep[0]+1 && g.rng.Intn(4) == 0 {
		ln = 1
	}
	raw = g.goChoice(d, ln)
	g.copyFrom(d, ln)
	return d, ln, 0, raw
}
