import XzVerif.Model.DictCap
import XzVerif.Spec.DictCap
import XzVerif.Model.Chunk
import XzVerif.Model.Xz
import XzVerif.Model.Lzma1
import XzVerif.Model.ReadLoop
import XzVerif.Model.Gxz
import XzVerif.Model.GFlag
import XzVerif.Model.Writer2
import XzVerif.Model.Ring
import XzVerif.Model.Writer1
import XzVerif.Model.XzWriter
import XzVerif.Model.Select
import XzVerif.Model.HashTable
import XzVerif.Model.BinTree
import XzVerif.Model.XzW
import XzVerif.Model.Writer2F
import XzVerif.Model.LazyDec
import XzVerif.Model.XzWF
import XzVerif.Model.LazyDec2
import XzVerif.Model.LazyXz
import XzVerif.Model.Src
import XzVerif.Model.Writer1F
import XzVerif.Model.Writer1G
/-
  driver — line protocol around the executable definitions of Spec and Model.
  One request per line on stdin, one reply line on stdout.  Core-only, so it links.
-/
open Spec Model

def kindOfName (s : String) : Option ChunkKind :=
  match s with
  | "eos" => some .eos | "ud" => some .ud | "u" => some .u | "l" => some .l
  | "lr" => some .lr | "lrn" => some .lrn | "lrnd" => some .lrnd | _ => none

def nameOfKind : ChunkKind → String
  | .eos => "eos" | .ud => "ud" | .u => "u" | .l => "l" | .lr => "lr" | .lrn => "lrn" | .lrnd => "lrnd"

def optNatStr : Option Nat → String
  | none => "none"
  | some n => toString n

def hexVal (c : UInt8) : UInt8 :=
  if c ≥ 48 ∧ c ≤ 57 then c - 48 else if c ≥ 97 ∧ c ≤ 102 then c - 87 else if c ≥ 65 ∧ c ≤ 70 then c - 55 else 0

/-- "-" denotes the empty byte string -/
def unhex (s : String) : ByteArray := Id.run do
  if s = "-" then return ByteArray.empty
  let u := s.toUTF8
  let mut o := ByteArray.emptyWithCapacity (u.size / 2)
  for i in [0:u.size / 2] do
    o := o.push (hexVal (u.get! (2 * i)) * 16 + hexVal (u.get! (2 * i + 1)))
  return o

def hexDigit (n : UInt8) : UInt8 := if n < 10 then n + 48 else n + 87

def hex (b : ByteArray) : String := Id.run do
  if b.size = 0 then return "-"
  let mut o := ByteArray.emptyWithCapacity (b.size * 2)
  for i in [0:b.size] do
    let x := b.get! i
    o := o.push (hexDigit (x / 16))
    o := o.push (hexDigit (x % 16))
  return String.fromUTF8! o

def chunkInfo (c : Lzma2.Chunk) : String :=
  s!"{nameOfKind c.kind}:{c.usize}:{c.csize}:{c.consumed}:{if c.marker then 1 else 0}:{c.ops.size}"

def xzInfo (r : Xz.Result) : String :=
  " ".intercalate (r.streams.toList.map (fun s =>
    s!"S flags={s.flags} pad={s.padAfter} " ++ " ".intercalate (s.blocks.toList.map (fun b =>
      s!"B hl={b.hdr.len} cs={optNatStr b.hdr.csize} us={optNatStr b.hdr.usize} dc={b.hdr.dictCode} u={b.usize} c={b.csize} k=" ++
        ",".intercalate (b.chunks.toList.map chunkInfo)))))

def opStr : Lzma.RawOp → String
  | .lit b => s!"L{b}"
  | .mtch len d => s!"M{len},{d}"
  | .rep g len => s!"R{g},{len}"
  | .shortRep => "S"

def parseOp (s : String) : Option Lzma.RawOp :=
  let body := (s.drop 1).toString
  match s.front with
  | 'L' => body.toNat?.map Lzma.RawOp.lit
  | 'S' => some .shortRep
  | 'M' => match body.splitOn "," with
    | [a, b] => match a.toNat?, b.toNat? with
      | some a, some b => some (.mtch a b)
      | _, _ => none
    | _ => none
  | 'R' => match body.splitOn "," with
    | [a, b] => match a.toNat?, b.toNat? with
      | some a, some b => some (.rep a b)
      | _, _ => none
    | _ => none
  | _ => none

/-- fragmentation of a model source: mode 0 everything asked for, 1 one byte per Read, 2 varying short reads -/
def srcFrag (mode seed : Nat) (i : Nat) : Nat :=
  match mode with
  | 0 => 1000000000
  | 1 => 1
  | _ => (((seed * 31 + i) * 2654435761) % 4294967296) / 65536 % 97 + 1

def srcStName : Src.St → String
  | .ok => "ok" | .eof => "EOF" | .unexpectedEOF => "UnexpectedEOF" | .src => "src" | .noData => "noData"

/-- the accessor operations of Model/Src.lean on one source; per operation `<hex>:<status>` -/
def srcOps : Src.S → List String → List String
  | _, [] => []
  | s, op :: rest =>
    let hx (b : ByteArray) : String := if b.size = 0 then "-" else hex b
    match op.toList with
    | 'F' :: n => match (String.ofList n).toNat? with
      | some n => let (s', out, st) := Src.readFull s n; s!"{hx out}:{srcStName st}" :: srcOps s' rest
      | none => ["bad-op"]
    | ['B'] => let (s', b, st) := Src.readByte s
      (match b with | some b => s!"{hx (ByteArray.empty.push b)}:{srcStName st}" | none => s!"-:{srcStName st}") :: srcOps s' rest
    | 'C' :: n => match (String.ofList n).toNat? with
      | some n => let (s', out, st) := Src.copyN s n; s!"{hx out}:{srcStName st}" :: srcOps s' rest
      | none => ["bad-op"]
    | 'L' :: a => match (String.ofList a).splitOn "/" with
      | [nn, w] => match nn.toNat?, w.toNat? with
        | some nn, some w => let (s', n', out, st) := Src.copyLim s nn w; s!"{hx out}:{srcStName st}:{n'}" :: srcOps s' rest
        | _, _ => ["bad-op"]
      | _ => ["bad-op"]
    | _ => ["bad-op"]

def boolOf (s : String) : Bool := s = "1"

def fstateOf (s : String) : Option Gxz.FState :=
  match s with
  | "absent" => some .absent | "orig" => some .orig | "other" => some .other
  | "part" => some .part | "complete" => some .complete | _ => none

def fstateName : Gxz.FState → String
  | .absent => "absent" | .orig => "orig" | .other => "other" | .part => "part" | .complete => "complete"

def stepOf (s : String) : Option (Option Gxz.Step) :=
  match s with
  | "none" => some none
  | "probe" => some (some .probe)
  | "openInp" => some (some .openInp) | "statTgt" => some (some .statTgt) | "openTmp" => some (some .openTmp)
  | "copy" => some (some .copy) | "finish" => some (some .finish) | "closeTmp" => some (some .closeTmp)
  | "removeTmp" => some (some .removeTmp)
  | "rename" => some (some .rename) | "closeInp" => some (some .closeInp) | "removeInp" => some (some .removeInp)
  | _ => none

/-- chunk spec: kind SLASH (props byte or dash) SLASH (ops joined by '.'), or for raw chunks kind SLASH dash SLASH hex -/
def parseChunk (s : String) : Option Lzma2.Chunk :=
  match s.splitOn "/" with
  | [k, p, body] =>
    match kindOfName k with
    | none => none
    | some kind =>
      if kind = .eos then some { kind := .eos, usize := 0 }
      else if kind = .u ∨ kind = .ud then
        let raw := unhex body
        some { kind := kind, usize := raw.size, raw := raw }
      else
        let props := if p = "-" then none else p.toNat?.bind Lzma2.propsOfByte
        match (body.splitOn ".").filter (· ≠ "") |>.mapM parseOp with
        | some ops => some { kind := kind, usize := 0, props := props, ops := ops.toArray }
        | none => none
  | _ => none

/-- block specs separated by the token `B`: `B <extraPad> <cs> <us> <dictCode> <chunk>...` -/
partial def parseBlocks (toks : List String) (acc : Array Xz.BlockSpec) : Option (Array Xz.BlockSpec) :=
  match toks with
  | [] => some acc
  | "B" :: ep :: cs :: us :: dc :: rest =>
    let chunkToks := rest.takeWhile (· ≠ "B")
    let rest' := rest.dropWhile (· ≠ "B")
    match ep.toNat?, dc.toNat?, chunkToks.mapM parseChunk with
    | some ep, some dc, some cks =>
      parseBlocks rest' (acc.push { extraPad := ep, withCs := boolOf cs, withUs := boolOf us, dictCode := dc, chunks := cks.toArray })
    | _, _, _ => none
  | _ => none

def b01 (b : Bool) : String := if b then "1" else "0"

/-- one command of a ring script on a plain buffer -/
def ringBufCmd (b : Ring.Buf) (cmd : String) : Ring.Buf × String :=
  match cmd.splitOn ":" with
  | ["w", h] => let (b', n, e) := b.write (unhex h); (b', s!"{n},{b01 e}")
  | ["wb", c] => match c.toNat? with
    | some c => match b.writeByte c.toUInt8 with
      | some b' => (b', "ok")
      | none => (b, "nospace")
    | none => (b, "bad-op")
  | ["r", n] => match n.toNat? with
    | some n => let (b', p) := b.read n; (b', hex p)
    | none => (b, "bad-op")
  | ["pk", n] => match n.toNat? with
    | some n => (b, hex (b.peek n))
    | none => (b, "bad-op")
  | ["d", n] => match n.toNat? with
    | some n => let (b', k, e) := b.discard n; (b', s!"{k},{b01 e}")
    | none => (b, "bad-op")
  | ["ml", d, h] => match d.toNat? with
    | some d => (b, toString (b.matchLen d (unhex h)))
    | none => (b, "bad-op")
  | ["st"] => (b, s!"{b.front},{b.rear},{b.buffered},{b.available}")
  | _ => (b, "bad-op")

def ringDDictCmd (d : Ring.DDict) (cmd : String) : Ring.DDict × String :=
  match cmd.splitOn ":" with
  | ["wb", c] => match c.toNat? with
    | some c => match d.writeByte c.toUInt8 with
      | some d' => (d', "ok")
      | none => (d, "nospace")
    | none => (d, "bad-op")
  | ["wm", dist, len] => match dist.toNat?, len.toNat? with
    | some dist, some len => match d.writeMatch dist len with
      | .ok d' => (d', "ok")
      | .distRange => (d, "dist")
      | .lenRange => (d, "len")
      | .noSpace => (d, "nospace")
      | .panic => (d, "panic")
    | _, _ => (d, "bad-op")
  | ["w", h] => let (d', n, e) := d.write (unhex h); (d', s!"{n},{b01 e}")
  | ["r", n] => match n.toNat? with
    | some n => let (d', p) := d.read n; (d', hex p)
    | none => (d, "bad-op")
  | ["ba", dist] => match dist.toNat? with
    | some dist => (d, toString (d.byteAt dist).toNat)
    | none => (d, "bad-op")
  | ["st"] => (d, s!"{d.head},{d.dictLen},{d.buf.available},{d.buf.buffered}")
  | _ => (d, "bad-op")

def natList (s : String) : Option (List Nat) :=
  if s = "-" then some [] else (s.splitOn ",").mapM String.toNat?

def selRes : Sel.Res → String
  | .panic => "panic"
  | .op (.lit b) => s!"L{b}"
  | .op (.mtch d n) => s!"M{d},{n}"

def ringEDictCmd (d : Ring.EDict) (cmd : String) : Ring.EDict × String :=
  match cmd.splitOn ":" with
  | ["w", h] => let (d', n, e) := d.write (unhex h); (d', s!"{n},{b01 e}")
  | ["d", n] => match n.toNat? with
    | some n => match d.discard n with
      | some (d', p) => (d', hex p)
      | none => (d, "panic")
    | none => (d, "bad-op")
  | ["ba", dist] => match dist.toNat? with
    | some dist => (d, toString (d.byteAt dist).toNat)
    | none => (d, "bad-op")
  | ["cn", n] => match n.toNat? with
    | some n => let (o, e) := d.copyN n; (d, s!"{hex o},{b01 e}")
    | none => (d, "bad-op")
  | ["ml", dist, n] => match dist.toNat?, n.toNat? with
    | some dist, some n => (d, toString (d.buf.matchLen dist (d.buf.peek n)))
    | _, _ => (d, "bad-op")
  | ["st"] => (d, s!"{d.head},{d.len},{d.dictLen},{d.available},{d.buffered}")
  | ["nxh", rep0, cands] => match rep0.toNat?, natList cands with
    | some rep0, some cands => (d, selRes (Sel.nextOpHT d cands rep0))
    | _, _ => (d, "bad-op")
  | ["nxb", rep0, sp, a, b] => match rep0.toNat?, natList a, natList b with
    | some rep0, some a, some b => (d, selRes (Sel.nextOpBT d (sp = "1") a b rep0))
    | _, _, _ => (d, "bad-op")
  | _ => (d, "bad-op")

def runScript {α : Type} (f : α → String → α × String) : α → List String → List String
  | _, [] => []
  | a, c :: cs => let (a', o) := f a c; o :: runScript f a' cs

def parseGoOp (s : String) : Option W2.GoOp :=
  let body := (s.drop 1).toString
  match s.front with
  | 'L' => body.toNat?.map W2.GoOp.lit
  | 'M' => match body.splitOn "," with
    | [a, b] => match a.toNat?, b.toNat? with
      | some a, some b => some (.mtch a b)
      | _, _ => none
    | _ => none
  | _ => none

def parseCall (s : String) : Option W2.Call :=
  if s = "F" then some .flush else if s = "C" then some .close
  else if s.front = 'W' then some (.write (unhex (s.drop 1).toString)) else none

def errName : Option W2.Err → String
  | none => "ok" | some .closed => "closed" | some .limit => "limit" | some (.other _) => "other"

/-- a read schedule that goes on after `io.EOF` (C13: end of stream is stable) and for up to `more` further calls after
    an error (what the reader does when the caller ignores an error: never a panic, C11) -/
def seqCont {α : Type} (rd : α → Nat → α × ByteArray × LazyDec.RStat) : α → List Nat → Nat → List (ByteArray × LazyDec.RStat)
  | _, [], _ => []
  | x, len :: rest, more =>
    let (x', out, st) := rd x len
    match st with
    | .err _ => if more = 0 then [(out, st)] else (out, st) :: seqCont rd x' rest (more - 1)
    | _ => (out, st) :: seqCont rd x' rest more

def ferrName : Option W2F.FErr → String
  | none => "ok" | some .sink => "sink" | some (.w e) => errName (some e)

def handle (line : String) : String :=
  match (line.trimAscii.toString.splitOn " ").filter (· ≠ "") with
  | ["dictsizes"] => " ".intercalate ((List.range 41).map (fun c => toString (Spec.dictSize c)))
  | ["dictbyte", b] => match b.toNat? with
    | some b => optNatStr (Spec.dictSizeOfByte b) ++ " " ++ optNatStr (Model.decodeDictCap b)
    | none => "bad-op"
  | ["encdict", n] => match n.toNat? with
    | some n => toString (Model.encodeDictCap n) ++ " " ++ toString (Spec.leastCode n)
    | none => "bad-op"
  | ["ctrl", b] => match b.toNat? with
    | some b => match Spec.ctrl b with
      | some k => toString (ctypeOf k)
      | none => "none"
    | none => "bad-op"
  | "chunkseq" :: ks => match ks.mapM kindOfName with
    | some ks =>
      s!"{Model.readerAccepts ks} {optNatStr (Model.readerFirstReject Gen.lzma_stateStart ks 0)} {Spec.legal ks} {optNatStr (Spec.firstIllegal .init ks 0)}"
    | none => "bad-op"
  -- xzread <strict> <cfgCap> <single> <hex>  →  <class> <pos> <out-hex> | <info>
  | ["xzread", strict, cap, single, h] => match cap.toNat? with
    | some cap =>
      let r := Xz.read (boolOf strict) cap (boolOf single) (unhex h)
      s!"{r.status.cls} {r.pos} {hex r.out} | {xzInfo r} | {repr r.status}"
    | none => "bad-op"
  -- xzreenc <hex> → re-encoded bytes of the parsed stream(s), or fail
  | ["xzreenc", h] =>
    let r := Xz.read false 0 false (unhex h)
    if r.status.isClean then hex (Xz.emit r.streams) else s!"fail {repr r.status}"
  | ["lzma2read", strict, cap, h] => match cap.toNat? with
    | some cap =>
      let (r, st) := Lzma2.decode (boolOf strict) cap (unhex h) 0 ByteArray.empty
      s!"{st.cls} {r.pos} {hex r.h.out} | {",".intercalate (r.chunks.toList.map chunkInfo)} | {repr st}"
    | none => "bad-op"
  | ["lzma2reenc", cap, h] => match cap.toNat? with
    | some cap =>
      let (r, st) := Lzma2.decode false cap (unhex h) 0 ByteArray.empty
      if st.isClean then hex (Lzma2.emit cap r.chunks) else s!"fail {repr st}"
    | none => "bad-op"
  | ["lzmaread", cap, h] => match cap.toNat? with
    | some cap =>
      let r := Lzma1.read cap (unhex h)
      let hs := match r.header with
        | some hd => s!"lc={hd.props.lc} lp={hd.props.lp} pb={hd.props.pb} dict={hd.dictCap} size={optNatStr hd.size}"
        | none => "noheader"
      s!"{r.status.cls} {r.consumed} {hex r.out} | open={r.openError} marker={r.marker} {hs} nops={r.ops.size} | {repr r.status}"
    | none => "bad-op"
  | ["lzmareenc", h] =>
    let r := Lzma1.read 0 (unhex h)
    match r.header, r.status.isClean with
    | some hd, true => hex (Lzma1.encode hd r.ops false)
    | _, _ => s!"fail {repr r.status}"
  -- lzma2build <cap> <chunk>... → LZMA2 bytes from chunk specs (spec encoder)
  | "lzma2build" :: cap :: cks => match cap.toNat?, cks.mapM parseChunk with
    | some cap, some cks => hex (Lzma2.emit cap cks.toArray)
    | _, _ => "bad-op"
  -- xzbuild <flags> <padAfter> B … → one .xz stream
  | "xzbuild" :: flags :: pad :: rest => match flags.toNat?, pad.toNat?, parseBlocks rest #[] with
    | some f, some pa, some bs => hex (Xz.buildStream f bs pa)
    | _, _, _ => "bad-op"
  -- lzmabuild <propsByte> <dictCap> <size or -> <marker 0/1> <ops> → classic .lzma stream
  | ["lzmabuild", pb, dc, sz, mk, ops] =>
    match pb.toNat?.bind Lzma2.propsOfByte, dc.toNat?, ((ops.splitOn ".").filter (· ≠ "")).mapM parseOp with
    | some p, some dc, some ops =>
      let size := if sz = "-" then none else sz.toNat?
      hex (Lzma1.encode { props := p, dictCap := dc, size := size } ops.toArray (boolOf mk))
    | _, _, _ => "bad-op"
  -- readseq <content length> <sizes>... → per-call (n,eof) of the reader contract model
  | "readseq" :: l :: sizes => match l.toNat?, sizes.mapM String.toNat? with
    | some l, some sizes => " ".intercalate ((ReadLoop.readSeqLens l sizes).map (fun (n, e) => s!"{n}:{if e then 1 else 0}"))
    | _, _ => "bad-op"
  -- gxzrun <keep> <force> <badInput> <badName> <tgt0> <tmp0> <fault> <crash> → inp tgt tmp exit
  | ["gxzrun", dcm, k, f, bi, bn, t0, m0, fault, crash] =>
    match fstateOf t0, fstateOf m0, stepOf fault, stepOf crash with
    | some t0, some m0, some fault, some crash =>
      let r := Gxz.run ⟨boolOf dcm, boolOf k, boolOf f, boolOf bi, boolOf bn⟩ ⟨.orig, t0, m0⟩ fault crash
      s!"{fstateName r.fs.inp} {fstateName r.fs.tgt} {fstateName r.fs.tmp} {r.exit}"
    | _, _, _, _ => "bad-op"
  -- gxzargs <hex(arg)>... → ERR | flags … | operands (hex)
  | "gxzargs" :: hs =>
    let args := hs.map (fun h => String.fromUTF8! (unhex h))
    match GFlag.parse args with
    | none => "ERR"
    | some (o, ops) =>
      let b (x : Bool) := if x then "1" else "0"
      let fmt := match GFlag.normalizeFormat o with | some f => f | none => "INVALID"
      s!"help={b o.help} stdout={b o.stdout} decompress={b o.decompress} force={b o.force} keep={b o.keep} license={b o.license} version={b o.version} quiet={o.quiet} verbose={o.verbose} preset={o.preset} format={fmt} |" ++
        String.join (ops.map (fun a => " " ++ hex a.toUTF8))
  -- gxzplan <stdout> <decompress> <force> <keep> <fmt> <hex(path)> <plain|xz|lzma> <targetExists> → action
  | ["gxzplan", so, d, f, k, fmt, ph, c, te] =>
    let o : GFlag.Opts := { stdout := boolOf so, decompress := boolOf d, force := boolOf f, keep := boolOf k }
    let content := match c with | "xz" => GFlag.Content.xz | "lzma" => GFlag.Content.lzma | _ => GFlag.Content.plain
    match GFlag.plan o fmt (String.fromUTF8! (unhex ph)) content (boolOf te) with
    | .fail => "fail"
    | .toStdout => "stdout"
    | .toFile t keep => s!"file {hex t.toUTF8} {if keep then 1 else 0}"
  -- w2run <propsByte> <dictCap> <bufSize> <ops> <call>... → per call n:err@sinkLen | sink | chunks
  | "w2run" :: pb :: dc :: bs :: ops :: calls =>
    match pb.toNat?.bind Lzma2.propsOfByte, dc.toNat?, bs.toNat?,
          ((ops.splitOn ".").filter (fun x => x ≠ "" ∧ x ≠ "-")).mapM parseGoOp, calls.mapM parseCall with
    | some p, some dc, some bs, some ops, some calls =>
      let cfg : W2.Cfg := { props := p, dictCap := dc, bufSize := bs }
      let (w, rs) := W2.run cfg W2.Script (W2.init cfg ops) calls
      " ".intercalate (rs.map (fun (r, sz) => s!"{r.n}:{errName r.err}@{sz}")) ++ " | " ++ hex w.out ++ " | " ++
        ",".intercalate (w.chunks.toList.map (fun c => s!"{nameOfKind c.kind}:{c.raw.size}:{c.ops.size}")) ++
        s!" | left={w.m.length}"
    | _, _, _, _, _ => "bad-op"
  -- ring buf <size> <cmd>... | ring ddict <cap> <cmd>... | ring edict <dictCap> <bufSize> <cmd>...
  | "ring" :: "buf" :: sz :: cmds => match sz.toNat? with
    | some sz => " ".intercalate (runScript ringBufCmd (Ring.Buf.new sz) cmds)
    | none => "bad-op"
  | "ring" :: "ddict" :: sz :: cmds => match sz.toNat? with
    | some sz => " ".intercalate (runScript ringDDictCmd (Ring.DDict.new sz) cmds)
    | none => "bad-op"
  | "ring" :: "edict" :: dc :: bs :: cmds => match dc.toNat?, bs.toNat? with
    | some dc, some bs => " ".intercalate (runScript ringEDictCmd (Ring.EDict.new dc bs) cmds)
    | _, _ => "bad-op"
  -- w1run <propsByte> <dictCap> <bufSize> <sizeInHeader> <size> <eos> <ops> <call>... → per call n:err | stream
  | "w1run" :: pb :: dc :: bs :: sih :: sz :: eos :: ops :: calls =>
    match pb.toNat?.bind Lzma2.propsOfByte, dc.toNat?, bs.toNat?, sz.toNat?,
          ((ops.splitOn ".").filter (fun x => x ≠ "" ∧ x ≠ "-")).mapM parseGoOp with
    | some p, some dc, some bs, some sz, some ops =>
      let cfg := W1.fill { props := p, dictCap := dc, bufSize := bs, sizeInHeader := boolOf sih, size := sz, eosMarker := boolOf eos }
      let cl : List W1.Call := calls.map (fun c => if c = "C" then W1.Call.close else W1.Call.write (unhex (c.drop 1).toString))
      let (rs, out) := W1.run cfg W2.Script (W1.init cfg ops) cl
      let en : Option W1.Err → String := fun e => match e with
        | none => "ok" | some .noSpace => "nospace" | some .size => "size" | some (.other _) => "other"
      " ".intercalate (rs.map (fun (n, e) => s!"{n}:{en e}")) ++ " | " ++ (match out with | some o => hex o | none => "none")
    | _, _, _, _, _ => "bad-op"
  -- w1auto <matcher> <propsByte> <dictCap> <bufSize> <sizeInHeader> <size> <eos> <call>... → as w1run, the match finder being
  -- the Lean HashTable4 (0) / BinaryTree (1) model: the classic writer model computes the stream from the calls alone
  | "w1auto" :: mt :: pb :: dc :: bs :: sih :: sz :: eos :: calls =>
    match pb.toNat?.bind Lzma2.propsOfByte, dc.toNat?, bs.toNat?, sz.toNat? with
    | some p, some dc, some bs, some sz =>
      let cfg := W1.fill { props := p, dictCap := dc, bufSize := bs, sizeInHeader := boolOf sih, size := sz, eosMarker := boolOf eos }
      let cl : List W1.Call := calls.map (fun c => if c = "C" then W1.Call.close else W1.Call.write (unhex (c.drop 1).toString))
      let (rs, out) :=
        if mt = "1" then W1.run cfg BT.BT4 (W1.init cfg (BT.St.new dc bs)) cl
        else W1.run cfg HT.HT4 (W1.init cfg (HT.St.new dc bs)) cl
      let en : Option W1.Err → String := fun e => match e with
        | none => "ok" | some .noSpace => "nospace" | some .size => "size" | some (.other _) => "other"
      " ".intercalate (rs.map (fun (n, e) => s!"{n}:{en e}")) ++ " | " ++ (match out with | some o => hex o | none => "none")
    | _, _, _, _ => "bad-op"
  -- xwrun <blockSize> <len>... → uncompressed sizes of the blocks after Write(len)… Close
  | "xwrun" :: bs :: lens => match bs.toNat?, lens.mapM String.toNat? with
    | some bs, some lens => " ".intercalate ((XW.run bs lens).blocks.map toString)
    | _, _ => "bad-op"
  -- w2auto <propsByte> <dictCap> <bufSize> <call>... → as w2run, the match finder being the Lean HashTable4 model
  | "w2auto" :: mt :: pb :: dc :: bs :: calls =>
    match pb.toNat?.bind Lzma2.propsOfByte, dc.toNat?, bs.toNat?, calls.mapM parseCall with
    | some p, some dc, some bs, some calls =>
      let cfg : W2.Cfg := { props := p, dictCap := dc, bufSize := bs }
      let (out, chunks, rs) :=
        if mt = "1" then
          let (w, rs) := W2.run cfg BT.BT4 (W2.init cfg (BT.St.new dc bs)) calls
          (w.out, w.chunks, rs)
        else
          let (w, rs) := W2.run cfg HT.HT4 (W2.init cfg (HT.St.new dc bs)) calls
          (w.out, w.chunks, rs)
      let w : (ByteArray × Array Lzma2.Chunk) := (out, chunks)
      " ".intercalate (rs.map (fun (r, sz) => s!"{r.n}:{errName r.err}@{sz}")) ++ " | " ++ hex w.1 ++ " | " ++
        ",".intercalate (w.2.toList.map (fun c => s!"{nameOfKind c.kind}:{c.raw.size}:{c.ops.size}"))
    | _, _, _, _ => "bad-op"
  -- w2frun <matcher> <propsByte> <dictCap> <bufSize> <k> <mode> <call>... → the LZMA2 writer model on a failing sink:
  -- per call n:err:panic@sinkLen | sink bytes | number of sink calls
  | "w2frun" :: mt :: pb :: dc :: bs :: k :: mode :: calls =>
    match pb.toNat?.bind Lzma2.propsOfByte, dc.toNat?, bs.toNat?, k.toNat?, mode.toNat?, calls.mapM parseCall with
    | some p, some dc, some bs, some k, some mode, some calls =>
      let cfg : W2.Cfg := { props := p, dictCap := dc, bufSize := bs }
      let F := W2F.planOf k mode
      let (out, ncalls, rs) :=
        if mt = "1" then
          let (s, rs) := W2F.run cfg BT.BT4 F (W2F.init cfg (BT.St.new dc bs)) calls
          (s.w.out, s.calls, rs)
        else
          let (s, rs) := W2F.run cfg HT.HT4 F (W2F.init cfg (HT.St.new dc bs)) calls
          (s.w.out, s.calls, rs)
      " ".intercalate (rs.map (fun (r, sz) => s!"{r.n}:{ferrName r.err}:{if r.panic then 1 else 0}@{sz}")) ++ " | " ++ hex out ++
        s!" | calls={ncalls}"
    | _, _, _, _, _, _ => "bad-op"
  -- lzlazy <cfgCap> <hex(stream)> <len>... → the lazy classic reader (ring level): open:<err> | per call n:status … | delivered bytes
  | "lzlazy" :: cc :: h :: lens => match cc.toNat?, lens.mapM String.toNat? with
    | some cc, some lens =>
      let en : LazyDec.Err → String := fun e => match e with
        | .unexpectedEOF => "UnexpectedEOF" | .size => "size" | .dataAfterEOS => "dataAfterEOS" | .noSpace => "noSpace"
        | .distRange => "distRange" | .lenRange => "lenRange" | .panic => "panic" | .src => "src" | .other w => "other(" ++ w.replace " " "_" ++ ")"
      match LazyDec.newReader cc (unhex h) with
      | .error e => "open:" ++ en e
      | .ok l =>
        let rs := seqCont LazyDec.read l lens 3
        " ".intercalate (rs.map (fun (o, st) => s!"{o.size}:" ++ (match st with | .ok => "ok" | .eof => "EOF" | .err e => en e))) ++
          " | " ++ hex (LazyDec.delivered rs)
    | _, _ => "bad-op"
  -- lz2lazy <cfgCap> <hex(stream)> <len>... → the lazy LZMA2 reader (ring level): per call n:status … | delivered bytes
  | "lz2lazy" :: cc :: h :: lens => match cc.toNat?, lens.mapM String.toNat? with
    | some cc, some lens =>
      let en : LazyDec.Err → String := fun e => match e with
        | .unexpectedEOF => "UnexpectedEOF" | .size => "size" | .dataAfterEOS => "dataAfterEOS" | .noSpace => "noSpace"
        | .distRange => "distRange" | .lenRange => "lenRange" | .panic => "panic" | .src => "src" | .other w => "other(" ++ w.replace " " "_" ++ ")"
      let rs := seqCont LazyDec2.read (LazyDec2.newReader2 cc (unhex h)) lens 3
      " ".intercalate (rs.map (fun (o, st) => s!"{o.size}:" ++ (match st with | .ok => "ok" | .eof => "EOF" | .err e => en e))) ++
        " | " ++ hex (LazyDec.delivered rs)
    | _, _ => "bad-op"
  -- xzlazy <cfgCap> <single 0/1> <hex(stream)> <len>... → the lazy xz reader: open:<status> or per call n:status … | delivered bytes
  | "xzlazy" :: cc :: sg :: h :: lens => match cc.toNat?, lens.mapM String.toNat? with
    | some cc, some lens =>
      let sn : LazyDec.RStat → String := fun st => match st with
        | .ok => "ok" | .eof => "EOF" | .err .unexpectedEOF => "UnexpectedEOF" | .err .panic => "panic" | .err .noSpace => "noSpace" | .err .src => "src" | .err _ => "other"
      match LazyXz.newReader cc (boolOf sg) (unhex h) with
      | .error st => "open:" ++ sn st
      | .ok x =>
        let rs := seqCont LazyXz.read x lens 0  -- the model keeps no faithful state after an error of the xz reader (errors there are not sticky)
        " ".intercalate (rs.map (fun (o, st) => s!"{o.size}:" ++ sn st)) ++ " | " ++ hex (LazyDec.delivered rs)
    | _, _ => "bad-op"
  -- w1frun <kind 0 plain/1 byteWriter> <matcher> <propsByte> <dictCap> <bufSize> <sizeInHeader> <size> <eos> <k> <mode> <call>… →
  -- the classic writer model on a failing sink: open:sink, or per call n:res@sinkLen, then | sink bytes | sink calls
  | "w1frun" :: kd :: mt :: pb :: dc :: bs :: sih :: sz :: eos :: k :: md :: calls =>
    match pb.toNat?.bind Lzma2.propsOfByte, dc.toNat?, bs.toNat?, sz.toNat?, k.toNat?, md.toNat? with
    | some p, some dc, some bs, some sz, some k, some md =>
      let cfg := W1.fill { props := p, dictCap := dc, bufSize := bs, sizeInHeader := boolOf sih, size := sz, eosMarker := boolOf eos }
      let cl : List W1.Call := calls.map (fun c => if c = "C" then W1.Call.close else W1.Call.write (unhex (c.drop 1).toString))
      let kind : W1F.Kind := if kd = "1" then .byteWriter else .plain
      let F := W2F.planOf k md
      let en : Option W1.Err → String := fun e => match e with
        | none => "ok" | some .noSpace => "nospace" | some .size => "size" | some (.other _) => "other"
      let show_ (rs : List (W1F.Res × Nat)) (sunk : ByteArray) (ncalls : Nat) : String :=
        " ".intercalate (rs.map (fun (r, len) => (match r with
          | .done n e => s!"{n}:{en e}" | .sink n => s!"{n}:sink" | .open_ => "?:open" | .err => "0:err") ++ s!"@{len}")) ++
          " | " ++ (if sunk.size = 0 then "-" else hex sunk) ++ s!" | {ncalls}"
      if mt = "1" then
        match W1F.new cfg kind F (BT.St.new dc bs) with
        | (_, false) => "open:sink"
        | (s0, true) => let (sf, rs) := W1F.run cfg BT.BT4 kind F s0 cl; show_ rs sf.sunk sf.calls
      else
        match W1F.new cfg kind F (HT.St.new dc bs) with
        | (_, false) => "open:sink"
        | (s0, true) => let (sf, rs) := W1F.run cfg HT.HT4 kind F s0 cl; show_ rs sf.sunk sf.calls
    | _, _, _, _, _, _ => "bad-op"
  -- w1grun <kind> <matcher> <propsByte> <dictCap> <bufSize> <sizeInHeader> <size> <eos> <k> <mode> <call>… → the classic writer
  -- model that stays exact after the fault (Model/Writer1G.lean): open:sink, or per call n:res@sinkLen | sink bytes | sink calls
  | "w1grun" :: kd :: mt :: pb :: dc :: bs :: sih :: sz :: eos :: k :: md :: calls =>
    match pb.toNat?.bind Lzma2.propsOfByte, dc.toNat?, bs.toNat?, sz.toNat?, k.toNat?, md.toNat? with
    | some p, some dc, some bs, some sz, some k, some md =>
      let cfg := W1.fill { props := p, dictCap := dc, bufSize := bs, sizeInHeader := boolOf sih, size := sz, eosMarker := boolOf eos }
      let cl : List W1.Call := calls.map (fun c => if c = "C" then W1.Call.close else W1.Call.write (unhex (c.drop 1).toString))
      let kind : W1F.Kind := if kd = "1" then .byteWriter else .plain
      let F := W2F.planOf k md
      let en : Option W1.Err → String := fun e => match e with
        | none => "ok" | some .noSpace => "nospace" | some .size => "size" | some (.other _) => "other"
      let show_ (rs : List (W1G.Res × Nat)) (sunk : ByteArray) (ncalls : Nat) : String :=
        " ".intercalate (rs.map (fun (r, len) => (match r with
          | .done n e => s!"{n}:{en e}" | .sink n => s!"{n}:sink" | .panic => "0:panic") ++ s!"@{len}")) ++
          " | " ++ (if sunk.size = 0 then "-" else hex sunk) ++ s!" | {ncalls}"
      if mt = "1" then
        match W1G.new cfg kind F (BT.St.new dc bs) with
        | (_, false) => "open:sink"
        | (s0, true) => let (sf, rs) := W1G.run cfg BT.BT4 kind F s0 cl; show_ rs sf.k.sunk sf.k.calls
      else
        match W1G.new cfg kind F (HT.St.new dc bs) with
        | (_, false) => "open:sink"
        | (s0, true) => let (sf, rs) := W1G.run cfg HT.HT4 kind F s0 cl; show_ rs sf.k.sunk sf.k.calls
    | _, _, _, _, _, _ => "bad-op"
  -- srcops <hex(data)|-> <fails 0/1> <together 0/1> <fragMode> <seed> op… → the accessors of Model/Src.lean (F<n> io.ReadFull,
  -- B ReadByte, C<n> io.CopyN, L<N>/<want> the doubly limited copy) on a fragmenting source; per op bytes:status, then pos
  | "srcops" :: h :: fl :: tg :: fm :: sd :: ops => match fm.toNat?, sd.toNat? with
    | some fm, some sd =>
      let s : Src.S := { data := if h = "-" then ByteArray.empty else unhex h, frag := srcFrag fm sd, together := boolOf tg,
                         ends := if boolOf fl then .fail else .eof }
      " ".intercalate (srcOps s ops)
    | _, _ => "bad-op"
  -- lzlazyE / lz2lazyE / xzlazyE: as above with a SOURCE THAT FAILS where the given bytes end (error other than io.EOF);
  -- the sequences stop at the first error
  | "lzlazyE" :: cc :: h :: lens => match cc.toNat?, lens.mapM String.toNat? with
    | some cc, some lens =>
      let en : LazyDec.Err → String := fun e => match e with
        | .unexpectedEOF => "UnexpectedEOF" | .size => "size" | .dataAfterEOS => "dataAfterEOS" | .noSpace => "noSpace"
        | .distRange => "distRange" | .lenRange => "lenRange" | .panic => "panic" | .src => "src" | .other w => "other(" ++ w.replace " " "_" ++ ")"
      match LazyDec.newReaderE true cc (unhex h) with
      | .error e => "open:" ++ en e
      | .ok l =>
        let rs := seqCont LazyDec.read l lens 0
        " ".intercalate (rs.map (fun (o, st) => s!"{o.size}:" ++ (match st with | .ok => "ok" | .eof => "EOF" | .err e => en e))) ++
          " | " ++ hex (LazyDec.delivered rs)
    | _, _ => "bad-op"
  | "lz2lazyE" :: cc :: h :: lens => match cc.toNat?, lens.mapM String.toNat? with
    | some cc, some lens =>
      let en : LazyDec.Err → String := fun e => match e with
        | .unexpectedEOF => "UnexpectedEOF" | .size => "size" | .dataAfterEOS => "dataAfterEOS" | .noSpace => "noSpace"
        | .distRange => "distRange" | .lenRange => "lenRange" | .panic => "panic" | .src => "src" | .other w => "other(" ++ w.replace " " "_" ++ ")"
      let rs := seqCont LazyDec2.read (LazyDec2.newReader2E true cc (unhex h)) lens 0
      " ".intercalate (rs.map (fun (o, st) => s!"{o.size}:" ++ (match st with | .ok => "ok" | .eof => "EOF" | .err e => en e))) ++
        " | " ++ hex (LazyDec.delivered rs)
    | _, _ => "bad-op"
  | "xzlazyE" :: cc :: sg :: h :: lens => match cc.toNat?, lens.mapM String.toNat? with
    | some cc, some lens =>
      let sn : LazyDec.RStat → String := fun st => match st with
        | .ok => "ok" | .eof => "EOF" | .err .unexpectedEOF => "UnexpectedEOF" | .err .panic => "panic" | .err .noSpace => "noSpace" | .err .src => "src" | .err _ => "other"
      match LazyXz.newReaderE true cc (boolOf sg) (unhex h) with
      | .error st => "open:" ++ sn st
      | .ok x =>
        let rs := seqCont LazyXz.read x lens 0
        " ".intercalate (rs.map (fun (o, st) => s!"{o.size}:" ++ sn st)) ++ " | " ++ hex (LazyDec.delivered rs)
    | _, _ => "bad-op"
  -- btcands <dictCap> <hex(history)> <hex(look ≤ 273)> → special:a:b of the Lean binary tree model
  | ["btcands", dc, h, l] => match dc.toNat? with
    | some dc =>
      let hist := unhex h
      let t := (BT.Tree.new dc).write hist 0 hist.size
      let (sp, a, b) := t.cands (unhex l)
      let f (x : List Nat) : String := if x.isEmpty then "-" else ",".intercalate (x.map toString)
      s!"{if sp then 1 else 0}:{f a}:{f b}"
    | none => "bad-op"
  -- htcands <dictCap> <hex(history)> <hex(look)> → candidate distances of the Lean hash table model
  | ["htcands", dc, h, l] => match dc.toNat? with
    | some dc =>
      let hist := unhex h
      let t := (HT.Tab.new dc).write hist 0 hist.size
      ",".intercalate ((t.cands (unhex l)).map toString)
    | none => "bad-op"
  -- xzwauto <matcher> <propsByte> <dictCap> <bufSize> <blockSize> <flags> W<hex>… → the stream of the Lean xz writer
  | "xzwauto" :: mt :: pb :: dc :: bs :: blk :: fl :: calls =>
    match pb.toNat?.bind Lzma2.propsOfByte, dc.toNat?, bs.toNat?, blk.toNat?, fl.toNat? with
    | some p, some dc, some bs, some blk, some fl =>
      let cfg : XzW.Cfg := { w2 := { props := p, dictCap := dc, bufSize := bs }, blockSize := blk, flags := fl }
      let writes := calls.map (fun c => unhex (c.drop 1).toString)
      if mt = "1" then hex (XzW.run cfg BT.BT4 (BT.St.new dc bs) writes)
      else hex (XzW.run cfg HT.HT4 (HT.St.new dc bs) writes)
    | _, _, _, _, _ => "bad-op"
  -- xzwfrun <matcher> <propsByte> <dictCap> <bufSize> <blockSize> <flags> <k> <mode> (W<hex>|C)... → the xz writer model on a
  -- failing sink: new:<err> or per call n:err:panic@sinkLen | sink bytes | number of sink calls
  | "xzwfrun" :: mt :: pb :: dc :: bs :: blk :: fl :: k :: mode :: calls =>
    match pb.toNat?.bind Lzma2.propsOfByte, dc.toNat?, bs.toNat?, blk.toNat?, fl.toNat?, k.toNat?, mode.toNat? with
    | some p, some dc, some bs, some blk, some fl, some k, some mode =>
      let cfg : XzW.Cfg := { w2 := { props := p, dictCap := dc, bufSize := bs }, blockSize := blk, flags := fl }
      let F := W2F.planOf k mode
      let cl : List XzWF.Call := calls.map (fun c => if c = "C" then .close else .write (unhex (c.drop 1).toString))
      let xe : Option XzWF.XErr → String := fun e => match e with
        | none => "ok" | some .closed => "closed" | some .sink => "sink" | some (.w e) => errName (some e)
      let fmt (out : ByteArray) (ncalls : Nat) (rs : List (XzWF.CallRes × Nat)) : String :=
        " ".intercalate (rs.map (fun (r, sz) => s!"{r.n}:{xe r.err}:{if r.panic then 1 else 0}@{sz}")) ++ " | " ++ hex out ++ s!" | calls={ncalls}"
      if mt = "1" then
        match XzWF.new cfg F (BT.St.new dc bs) with
        | .error e => "new:" ++ xe (some e)
        | .ok s0 => let (s, rs) := XzWF.run cfg BT.BT4 F (BT.St.new dc bs) s0 cl; fmt s.f.w.out s.f.calls rs
      else
        match XzWF.new cfg F (HT.St.new dc bs) with
        | .error e => "new:" ++ xe (some e)
        | .ok s0 => let (s, rs) := XzWF.run cfg HT.HT4 F (HT.St.new dc bs) s0 cl; fmt s.f.w.out s.f.calls rs
    | _, _, _, _, _, _, _ => "bad-op"
  | ["lzmaops", h] =>
    let r := Lzma1.read 0 (unhex h)
    " ".intercalate (r.ops.toList.map opStr)
  | _ => "bad-op"

partial def loop (h : IO.FS.Stream) (out : IO.FS.Stream) : IO Unit := do
  let line ← h.getLine
  if line.isEmpty then return ()
  out.putStrLn (handle line)
  out.flush
  loop h out

def main : IO Unit := do
  loop (← IO.getStdin) (← IO.getStdout)
