import XzVerif.Model.DictCap
import XzVerif.Spec.DictCap
import XzVerif.Model.Chunk
/-
  driver — line protocol around the executable definitions of Spec and Model.
  One request per line on stdin, one reply line on stdout.  Core-only, so it links.
-/
open Spec Model

def kindOfName (s : String) : Option ChunkKind :=
  match s with
  | "eos" => some .eos | "ud" => some .ud | "u" => some .u | "l" => some .l
  | "lr" => some .lr | "lrn" => some .lrn | "lrnd" => some .lrnd | _ => none

def optNatStr : Option Nat → String
  | none => "none"
  | some n => toString n

def handle (line : String) : String :=
  match (line.trimAscii.toString.splitOn " ").filter (· ≠ "") with
  | ["dictsizes"] => " ".intercalate ((List.range 41).map (fun c => toString (Spec.dictSize c)))
  | ["dictbyte", b] => match b.toNat? with
    | some b => optNatStr (Spec.dictSizeOfByte b) ++ " " ++ optNatStr (Model.decodeDictCap b)
    | none => "bad-op"
  | ["encdict", n] => match n.toNat? with
    | some n => toString (Model.encodeDictCap n) ++ " " ++ toString (Spec.leastCode n)
    | none => "bad-op"
  | ["ctrl", b] => match b.toNat? with
    | some b => match Spec.ctrl b with
      | some k => toString (ctypeOf k)
      | none => "none"
    | none => "bad-op"
  | "chunkseq" :: ks => match ks.mapM kindOfName with
    | some ks =>
      s!"{Model.readerAccepts ks} {optNatStr (Model.readerFirstReject Gen.lzma_stateStart ks 0)} {Spec.legal ks} {optNatStr (Spec.firstIllegal .init ks 0)}"
    | none => "bad-op"
  | _ => "bad-op"

partial def loop (h : IO.FS.Stream) (out : IO.FS.Stream) : IO Unit := do
  let line ← h.getLine
  if line.isEmpty then return ()
  out.putStrLn (handle line)
  out.flush
  loop h out

def main : IO Unit := do
  loop (← IO.getStdin) (← IO.getStdout)
