import XzVerif.Codec.Rc
