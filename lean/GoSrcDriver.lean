import XzVerif.Model.GoSrcRun
/-
  gosrc — line protocol around the REGENERATED translation of the Go source (Gen/GoSrc.lean), used by the xlate-exec tie
  (validation of the translator).  A separate executable: when a source change leaves the translator's subset, only this
  tie and the theorems about the translation break, not the driver of the hand-written models.
-/
def handleLine (line : String) : String :=
  match (line.trimAscii.toString.splitOn " ").filter (· ≠ "") with
  | "gosrc" :: rest => GoSrcRun.handle rest
  | _ => "bad-op"

partial def loop (h : IO.FS.Stream) (out : IO.FS.Stream) : IO Unit := do
  let line ← h.getLine
  if line.isEmpty then return ()
  out.putStrLn (handleLine line)
  out.flush
  loop h out

def main : IO Unit := do
  loop (← IO.getStdin) (← IO.getStdout)
