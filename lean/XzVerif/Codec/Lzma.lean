import XzVerif.Codec.Rc
/-
  Codec.Lzma — the bit-level LZMA codec written from the format description: probability
  update, bit-tree / reverse bit-tree / direct-bit codecs, length, distance and literal codecs,
  the 12-state machine and the per-operation decision tree.  Every decoder is a `Rc.DecTree`
  and every encoder a `Rc.Path`, so the range coder (Codec.Rc) is the only place where
  arithmetic coding appears.  Used by both Spec and Model (DESIGN.md §2.1).  Core-only.

  Probability addresses are positions in one flat table (layout below); the layout is internal
  to this model (the Go code uses separate slices) and unobservable.
-/
namespace Lzma
open Rc

/-! ### probability update (lzma/prob.go: movebits = 5, probbits = 11) -/

def probNext (p : Nat) (b : Bool) : Nat :=
  if b then p - p / 32 else p + (2048 - p) / 32

def pm : PM where
  next := probNext
  ok := by
    intro p b h
    unfold POk probNext at *
    cases b <;> simp <;> omega

/-! ### flat layout of the probability table -/

def aIsMatch : Nat := 0          -- 12 states × 16 position states
def aIsRep : Nat := 192          -- 12
def aIsRepG0 : Nat := 204        -- 12
def aIsRepG1 : Nat := 216        -- 12
def aIsRepG2 : Nat := 228        -- 12
def aIsRepG0Long : Nat := 240    -- 12 × 16
def aLen : Nat := 432            -- length codec: 2 + 16·8 + 16·8 + 256 = 514
def aRepLen : Nat := 946         -- 514
def aDist : Nat := 1460          -- 4·64 + 124 + 16 = 396
def aLit : Nat := 1856           -- 0x300 << (lc + lp)

def tableSize (lc lp : Nat) : Nat := aLit + 0x300 * 2 ^ (lc + lp)

def initTable (lc lp : Nat) : Tbl := Array.replicate (tableSize lc lp) 1024

/-! ### elementary trees -/

def bitOf (b : Bool) : Nat := if b then 1 else 0

def DecTree.map {α β : Type} (t : DecTree α) (f : α → β) : DecTree β := t.bind (fun a => .ret (f a))

/-- MSB-first bit tree with `bits` levels at `base` (treeCodec.Decode) -/
def treeDec (base bits : Nat) : DecTree Nat :=
  DecTree.map (treeDecGo base bits 1) (fun m => m - 2 ^ bits)

def treeEnc (base bits v : Nat) : Path := treeEncGo base bits 1 v

/-- LSB-first bit tree (treeReverseCodec.Decode): `n` bits left, node `m`, bit position `j` -/
def rtreeDecGo (base : Nat) : Nat → Nat → Nat → Nat → DecTree Nat
  | 0, _, _, v => .ret v
  | n + 1, m, j, v => .ask (.adaptive (base + m))
      (fun b => rtreeDecGo base n (2 * m + bitOf b) (j + 1) (v + bitOf b * 2 ^ j))

def rtreeDec (base bits : Nat) : DecTree Nat := rtreeDecGo base bits 1 0 0

def rtreeEncGo (base : Nat) : Nat → Nat → Nat → Path
  | 0, _, _ => []
  | n + 1, m, v =>
    let b := v % 2 = 1
    (.adaptive (base + m), b) :: rtreeEncGo base n (2 * m + bitOf b) (v / 2)

def rtreeEnc (base bits v : Nat) : Path := rtreeEncGo base bits 1 v

/-- `n` direct bits, MSB first (directCodec) -/
def directDecGo : Nat → Nat → DecTree Nat
  | 0, v => .ret v
  | n + 1, v => .ask .direct (fun b => directDecGo n (2 * v + bitOf b))

def directDec (n : Nat) : DecTree Nat := directDecGo n 0

def directEnc : Nat → Nat → Path
  | 0, _ => []
  | n + 1, v => (.direct, (v / 2 ^ n) % 2 = 1) :: directEnc n v

/-! ### length codec (lengthcodec.go): value l = len − 2 ∈ [0, 272) -/

def lenDec (L ps : Nat) : DecTree Nat :=
  .ask (.adaptive L) (fun b0 =>
    if !b0 then treeDec (L + 2 + ps * 8) 3
    else .ask (.adaptive (L + 1)) (fun b1 =>
      if !b1 then DecTree.map (treeDec (L + 130 + ps * 8) 3) (· + 8)
      else DecTree.map (treeDec (L + 258) 8) (· + 16)))

def lenEnc (L ps l : Nat) : Path :=
  if l < 8 then (.adaptive L, false) :: treeEnc (L + 2 + ps * 8) 3 l
  else if l < 16 then (.adaptive L, true) :: (.adaptive (L + 1), false) :: treeEnc (L + 130 + ps * 8) 3 (l - 8)
  else (.adaptive L, true) :: (.adaptive (L + 1), true) :: treeEnc (L + 258) 8 (l - 16)

/-! ### distance codec (distcodec.go): value dist = distance − 1 ∈ [0, 2^32) -/

def lenState (l : Nat) : Nat := if l ≥ 4 then 3 else l

/-- start of the reverse tree of position slot `s` (4 ≤ s < 14) inside the distance block -/
def posModelOff (s : Nat) : Nat :=
  match s with
  | 4 => 0 | 5 => 2 | 6 => 4 | 7 => 8 | 8 => 12 | 9 => 20 | 10 => 28 | 11 => 44 | 12 => 60 | _ => 92

def aAlign : Nat := aDist + 256 + 124

def distDec (l : Nat) : DecTree Nat :=
  (treeDec (aDist + lenState l * 64) 6).bind (fun slot =>
    if slot < 4 then .ret slot
    else
      let bits := slot / 2 - 1
      let base := (2 + slot % 2) * 2 ^ bits
      if slot < 14 then
        DecTree.map (rtreeDec (aDist + 256 + posModelOff slot) bits) (base + ·)
      else
        (directDec (bits - 4)).bind (fun u =>
          DecTree.map (rtreeDec aAlign 4) (fun a => base + u * 16 + a)))

/-- floor(log2 d) for d ≥ 1 -/
def log2 (d : Nat) : Nat := Nat.log2 d

def posSlot (dist : Nat) : Nat :=
  if dist < 4 then dist
  else
    let bits := log2 dist - 1
    2 * (bits + 1) + (dist / 2 ^ bits) % 2

def distEnc (dist l : Nat) : Path :=
  let slot := posSlot dist
  let p0 := treeEnc (aDist + lenState l * 64) 6 slot
  if slot < 4 then p0
  else
    let bits := slot / 2 - 1
    if slot < 14 then p0 ++ rtreeEnc (aDist + 256 + posModelOff slot) bits (dist % 2 ^ bits)
    else p0 ++ directEnc (bits - 4) ((dist % 2 ^ bits) / 16) ++ rtreeEnc aAlign 4 (dist % 16)

/-! ### literal codec (literalcodec.go) -/

def litPlainDec (base : Nat) : Nat → Nat → DecTree Nat
  | 0, sym => .ret (sym - 0x100)
  | n + 1, sym => .ask (.adaptive (base + sym)) (fun b => litPlainDec base n (2 * sym + bitOf b))

def litMatchedDec (base : Nat) : Nat → Nat → Nat → DecTree Nat
  | 0, sym, _ => .ret (sym - 0x100)
  | n + 1, sym, mb =>
    let matchBit := (mb / 2 ^ n) % 2
    .ask (.adaptive (base + (1 + matchBit) * 256 + sym)) (fun b =>
      if bitOf b = matchBit then litMatchedDec base n (2 * sym + bitOf b) mb
      else litPlainDec base n (2 * sym + bitOf b))

def litPlainEnc (base : Nat) : Nat → Nat → Nat → Path
  | 0, _, _ => []
  | n + 1, sym, s =>
    let b := (s / 2 ^ n) % 2 = 1
    (.adaptive (base + sym), b) :: litPlainEnc base n (2 * sym + bitOf b) s

def litMatchedEnc (base : Nat) : Nat → Nat → Nat → Nat → Path
  | 0, _, _, _ => []
  | n + 1, sym, mb, s =>
    let matchBit := (mb / 2 ^ n) % 2
    let b := (s / 2 ^ n) % 2 = 1
    (.adaptive (base + (1 + matchBit) * 256 + sym), b) ::
      (if bitOf b = matchBit then litMatchedEnc base n (2 * sym + bitOf b) mb s
       else litPlainEnc base n (2 * sym + bitOf b) s)

/-! ### the 12-state machine (state.go) -/

def updLit (s : Nat) : Nat := if s < 4 then 0 else if s < 10 then s - 3 else s - 6
def updMatch (s : Nat) : Nat := if s < 7 then 7 else 10
def updRep (s : Nat) : Nat := if s < 7 then 8 else 11
def updShortRep (s : Nat) : Nat := if s < 7 then 9 else 11

/-! ### operations -/

/-- an operation as it appears in the bit stream.  `dist` is the stored value, i.e. the real
    distance minus one; `len` is the real length. `mtch len 0xFFFFFFFF` is the end marker. -/
inductive RawOp where
  | lit (b : Nat)
  | mtch (len dist : Nat)
  | rep (g len : Nat)
  | shortRep
  deriving DecidableEq, Repr, Inhabited

def eosDist : Nat := 0xFFFFFFFF

structure St where
  st : Nat := 0
  r0 : Nat := 0
  r1 : Nat := 0
  r2 : Nat := 0
  r3 : Nat := 0
  deriving DecidableEq, Repr, Inhabited

def St.rep (s : St) (g : Nat) : Nat :=
  match g with
  | 0 => s.r0 | 1 => s.r1 | 2 => s.r2 | _ => s.r3

/-- effect of an operation on state and rep registers -/
def St.apply (s : St) : RawOp → St
  | .lit _ => { s with st := updLit s.st }
  | .mtch _ d => { st := updMatch s.st, r0 := d, r1 := s.r0, r2 := s.r1, r3 := s.r2 }
  | .shortRep => { s with st := updShortRep s.st }
  | .rep g _ =>
    match g with
    | 0 => { s with st := updRep s.st }
    | 1 => { s with st := updRep s.st, r0 := s.r1, r1 := s.r0 }
    | 2 => { s with st := updRep s.st, r0 := s.r2, r1 := s.r0, r2 := s.r1 }
    | _ => { s with st := updRep s.st, r0 := s.r3, r1 := s.r0, r2 := s.r1, r3 := s.r2 }

/-- coding context of one operation: everything the bit-level codec looks at -/
structure Ctx where
  st : Nat        -- state 0…11
  ps : Nat        -- position state: pos & (2^pb − 1)
  litBase : Nat   -- aLit + 0x300 · litState
  matchByte : Nat -- byte at distance rep0 + 1 (0 if outside the dictionary)

def litState (lc lp pos prev : Nat) : Nat :=
  (pos % 2 ^ lp) * 2 ^ lc + prev / 2 ^ (8 - lc)

def repLenDec (c : Ctx) (g : Nat) : DecTree RawOp :=
  DecTree.map (lenDec aRepLen c.ps) (fun n => .rep g (n + 2))

/-- decoder.readOp as a decision tree -/
def opDec (c : Ctx) : DecTree RawOp :=
  .ask (.adaptive (aIsMatch + c.st * 16 + c.ps)) (fun b =>
    if !b then
      DecTree.map (if c.st ≥ 7 then litMatchedDec c.litBase 8 1 c.matchByte else litPlainDec c.litBase 8 1)
        RawOp.lit
    else .ask (.adaptive (aIsRep + c.st)) (fun b =>
      if !b then
        (lenDec aLen c.ps).bind (fun n => DecTree.map (distDec n) (fun d => .mtch (n + 2) d))
      else .ask (.adaptive (aIsRepG0 + c.st)) (fun b =>
        if !b then
          .ask (.adaptive (aIsRepG0Long + c.st * 16 + c.ps)) (fun b =>
            if !b then .ret .shortRep else repLenDec c 0)
        else .ask (.adaptive (aIsRepG1 + c.st)) (fun b =>
          if !b then repLenDec c 1
          else .ask (.adaptive (aIsRepG2 + c.st)) (fun b =>
            if !b then repLenDec c 2 else repLenDec c 3)))))

/-- encoder.writeLiteral / writeMatch as a path -/
def opEnc (c : Ctx) : RawOp → Path
  | .lit s =>
    (.adaptive (aIsMatch + c.st * 16 + c.ps), false) ::
      (if c.st ≥ 7 then litMatchedEnc c.litBase 8 1 c.matchByte s else litPlainEnc c.litBase 8 1 s)
  | .mtch len d =>
    (.adaptive (aIsMatch + c.st * 16 + c.ps), true) :: (.adaptive (aIsRep + c.st), false) ::
      (lenEnc aLen c.ps (len - 2) ++ distEnc d (len - 2))
  | .shortRep =>
    [(.adaptive (aIsMatch + c.st * 16 + c.ps), true), (.adaptive (aIsRep + c.st), true),
     (.adaptive (aIsRepG0 + c.st), false), (.adaptive (aIsRepG0Long + c.st * 16 + c.ps), false)]
  | .rep g len =>
    let hd : Path := [(.adaptive (aIsMatch + c.st * 16 + c.ps), true), (.adaptive (aIsRep + c.st), true)]
    let sel : Path :=
      match g with
      | 0 => [(.adaptive (aIsRepG0 + c.st), false), (.adaptive (aIsRepG0Long + c.st * 16 + c.ps), true)]
      | 1 => [(.adaptive (aIsRepG0 + c.st), true), (.adaptive (aIsRepG1 + c.st), false)]
      | 2 => [(.adaptive (aIsRepG0 + c.st), true), (.adaptive (aIsRepG1 + c.st), true),
              (.adaptive (aIsRepG2 + c.st), false)]
      | _ => [(.adaptive (aIsRepG0 + c.st), true), (.adaptive (aIsRepG1 + c.st), true),
              (.adaptive (aIsRepG2 + c.st), true)]
    hd ++ sel ++ lenEnc aRepLen c.ps (len - 2)

/-- which operations the bit-level codec can represent -/
def RawOp.wf : RawOp → Prop
  | .lit b => b < 256
  | .mtch len d => 2 ≤ len ∧ len ≤ 273 ∧ d < 2 ^ 32
  | .rep g len => g < 4 ∧ 2 ≤ len ∧ len ≤ 273
  | .shortRep => True

instance (o : RawOp) : Decidable o.wf := by
  cases o <;> unfold RawOp.wf <;> infer_instance

end Lzma
