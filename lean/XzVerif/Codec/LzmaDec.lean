import XzVerif.Codec.Lzma
/-
  Codec.LzmaDec — operation-level LZMA decoding over a history buffer: the loop of
  lzma/decoder.go (`readOp`, `apply`, `decompress`) in batch form, and the matching
  operation-level encoder.  A `strict` flag selects the format's rules (Spec) or the more
  permissive behaviour of the Go reader (Model); see DESIGN.md §2.1.  Core-only.
-/
namespace Lzma
open Rc

structure Props where
  lc : Nat
  lp : Nat
  pb : Nat
  deriving DecidableEq, Repr, Inhabited

inductive Status where
  | eof                      -- clean end of stream
  | unexpectedEOF            -- input ended too early
  | err (what : String)      -- any other error
  deriving DecidableEq, Repr, Inhabited

def Status.isClean : Status → Bool
  | .eof => true
  | _ => false

def Status.cls : Status → String
  | .eof => "EOF"
  | .unexpectedEOF => "UnexpectedEOF"
  | .err _ => "Other"

/-- the status with which `newRangeDecoder` fails on the bytes `seg` it can see: the first byte is read and checked
    (a non-zero one is rejected) BEFORE the other four are read, so a short segment with a non-zero first byte is a
    format error, not a truncation -/
def initStatus (seg : List Nat) : Status :=
  match seg with
  | [] => .unexpectedEOF
  | b0 :: _ =>
    if b0 ≠ 0 then .err "range decoder init"
    else if seg.length < 5 then .unexpectedEOF else .err "range decoder init"

/-- output so far and the part of it that forms the dictionary -/
structure Hist where
  out : ByteArray
  dictStart : Nat     -- index in `out` where the current dictionary begins (after a reset)
  cap : Nat           -- dictionary capacity

def Hist.pos (h : Hist) : Nat := h.out.size - h.dictStart

def Hist.dictLen (h : Hist) : Nat := min h.pos h.cap

def Hist.byteAt (h : Hist) (dist : Nat) : Nat :=
  if 0 < dist ∧ dist ≤ h.dictLen then (h.out.get! (h.out.size - dist)).toNat else 0

def Hist.push (h : Hist) (b : Nat) : Hist := { h with out := h.out.push b.toUInt8 }

def Hist.copyMatch (h : Hist) (dist : Nat) : Nat → Hist
  | 0 => h
  | n + 1 => ({ h with out := h.out.push (h.out.get! (h.out.size - dist)) } : Hist).copyMatch dist n

def Hist.reset (h : Hist) : Hist := { h with dictStart := h.out.size }

/-- coding context of the next operation -/
def mkCtx (p : Props) (s : St) (h : Hist) : Ctx :=
  { st := s.st
    ps := h.pos % 2 ^ p.pb
    litBase := aLit + 0x300 * litState p.lc p.lp h.pos (h.byteAt 1)
    matchByte := h.byteAt (s.r0 + 1) }

structure DecSt where
  s : St
  tbl : Tbl
  rd : Dec
  h : Hist
  ops : Array RawOp := #[]   -- operations decoded so far in this segment (for re-encoding)

inductive StepRes where
  | cont (d : DecSt)
  | marker (d : DecSt)
  | fail (d : DecSt) (st : Status)

def DecSt.copy (d : DecSt) (dist len : Nat) : StepRes :=
  if 0 < dist ∧ dist ≤ d.h.dictLen then .cont { d with h := d.h.copyMatch dist len }
  else .fail d (.err "distance out of range")

/-- read one operation and apply it (readOp + apply).  The state is taken apart first so that
    the probability table is passed on uniquely referenced (in-place updates when compiled). -/
def decStep (p : Props) (d : DecSt) : StepRes :=
  match d with
  | ⟨s, tbl, rd, h, ops⟩ =>
    match decTree pm (opDec (mkCtx p s h)) tbl rd with
    | none => .fail { s := s, tbl := #[], rd := { range := 0, code := 0, inp := [] }, h := h, ops := ops } .unexpectedEOF
    | some (op, tbl', rd') =>
      let s' := s.apply op
      let d1 : DecSt := { s := s', tbl := tbl', rd := rd', h := h, ops := ops.push op }
      match op with
      | .lit b => .cont { d1 with h := d1.h.push b }
      | .mtch len dd => if dd = eosDist then .marker d1 else d1.copy (dd + 1) len
      | .rep _ len => d1.copy (s'.r0 + 1) len
      | .shortRep => d1.copy (s'.r0 + 1) 1

/-- Result of decoding one range-coded segment (a classic stream body or an LZMA2 chunk). -/
structure SegRes where
  d : DecSt
  status : Status      -- .eof = the segment ended properly
  sawMarker : Bool

/-- `decompress` in batch form. `size` is the declared uncompressed size of the segment
    (`none` = unknown, end marker required); `start` the output length at segment start.
    `strict`: the format's rules — no end marker when the size is known and `noMarker` is set
    (LZMA2), and the range decoder must be exactly finished (code = 0). -/
def decSegment (p : Props) (size : Option Nat) (start : Nat) (strictNoMarker : Bool) :
    Nat → DecSt → SegRes
  | 0, d => ⟨d, .err "fuel exhausted", false⟩
  | fuel + 1, d =>
    if size = some (d.h.out.size - start) then
      -- size reached (only possible here when it was 0 from the start)
      finish d
    else
      match decStep p d with
      | .fail d' st => ⟨d', st, false⟩
      | .marker d' =>
        if strictNoMarker then ⟨d', .err "end marker not allowed", true⟩
        else if d'.rd.code ≠ 0 then ⟨d', .err "data after end of stream marker", true⟩
        else match size with
          | some sz => if sz ≠ d'.h.out.size - start then ⟨d', .err "wrong uncompressed size", true⟩
                       else ⟨d', .eof, true⟩
          | none => ⟨d', .eof, true⟩
      | .cont d' =>
        match size with
        | none => decSegment p size start strictNoMarker fuel d'
        | some sz =>
          let n := d'.h.out.size - start
          if n ≥ sz then
            if n > sz then ⟨d', .err "wrong uncompressed size", false⟩ else finish d'
          else decSegment p size start strictNoMarker fuel d'
where
  /-- the declared size has been produced: the coder must be at its end, or an end marker
      (and nothing else) must follow -/
  finish (d : DecSt) : SegRes :=
    if d.rd.code = 0 then ⟨d, .eof, false⟩
    else if strictNoMarker then ⟨d, .err "range decoder not finished", false⟩
    else match decStep p d with
      | .fail d' st => ⟨d', st, false⟩
      | .marker d' => ⟨d', .eof, true⟩
      | .cont d' => ⟨d', .err "wrong uncompressed size", false⟩

/-! ### operation-level encoder -/

structure EncSt where
  s : St
  tbl : Tbl
  e : Enc          -- invariant of the executable: `e.out = []`, bytes are moved to `bytes`
  bytes : ByteArray
  h : Hist

def encPath : Tbl → Enc → Path → Tbl × Enc
  | t, e, [] => (t, e)
  | t, e, (.adaptive c, b) :: π =>
    encPath (t.upd c (pm.next (t.get c) b)) (e.step ⟨some (t.get c), b⟩) π
  | t, e, (.direct, b) :: π => encPath t (e.step ⟨none, b⟩) π

def flushOut (e : Enc) (acc : ByteArray) : Enc × ByteArray :=
  ({ e with out := [] }, e.out.foldl (fun a x => a.push x.toUInt8) acc)

/-- effect of an operation on the history (the operation must be applicable) -/
def Hist.applyOp (h : Hist) (s' : St) : RawOp → Hist
  | .lit b => h.push b
  | .mtch len dd => if dd = eosDist then h else h.copyMatch (dd + 1) len
  | .rep _ len => h.copyMatch (s'.r0 + 1) len
  | .shortRep => h.copyMatch (s'.r0 + 1) 1

/-- encode one operation -/
def encStep (p : Props) (x : EncSt) (op : RawOp) : EncSt :=
  match x with
  | ⟨s, tbl, e, bytes, h⟩ =>
    let (tbl', e') := encPath tbl e (opEnc (mkCtx p s h) op)
    let (e'', bytes') := flushOut e' bytes
    let s' := s.apply op
    { s := s', tbl := tbl', e := e'', bytes := bytes', h := h.applyOp s' op }

def encClose (x : EncSt) : ByteArray :=
  (flushOut { x.e with out := x.e.close } x.bytes).2

def bytesToList (b : ByteArray) (lo hi : Nat) : List Nat :=
  ((List.range (hi - lo)).map (fun i => (b.get! (lo + i)).toNat))

end Lzma
