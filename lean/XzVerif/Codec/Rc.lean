/-
  Codec.Rc — Nat-level model of the LZMA range coder (lzma/rangecodec.go, lzma/prob.go),
  decision trees (`DecTree`) as the common shape of every bit-level decoder and
  `Path`s as the common shape of every bit-level encoder.  Core-only (no Mathlib):
  this file is linked into the `driver` executable; theorems live in Proofs/Rc.lean.
-/
namespace Rc

def num (ds : List Nat) : Nat := ds.foldl (fun a d => a * 256 + d) 0

structure Enc where
  low : Nat
  range : Nat
  cache : Nat
  cacheLen : Nat
  out : List Nat

def pend (c n : Nat) : Nat := c * 256 ^ (n - 1) + (256 ^ (n - 1) - 1)

/-- abstract value of everything emitted or pending, scaled so that `low` is the 32-bit window -/
def Enc.T (e : Enc) : Nat := (num e.out * 256 ^ e.cacheLen + pend e.cache e.cacheLen) * 2 ^ 32 + e.low

def emit (out : List Nat) (first rest : Nat) : Nat → List Nat
  | 0 => out
  | n + 1 => emit (out ++ [first]) rest rest n

def Enc.shiftLow (e : Enc) : Enc :=
  if e.low % 2 ^ 32 < 0xff000000 ∨ e.low / 2 ^ 32 ≠ 0 then
    let carry := e.low / 2 ^ 32
    { e with
      low := (e.low % 2 ^ 24) * 256
      cache := (e.low % 2 ^ 32) / 2 ^ 24
      cacheLen := 1
      out := emit e.out ((e.cache + carry) % 256) ((255 + carry) % 256) e.cacheLen }
  else
    { e with low := (e.low % 2 ^ 24) * 256, cacheLen := e.cacheLen + 1 }

/-- invariants of a reachable encoder state (at rest points, i.e. before `range` is rescaled) -/
structure Enc.Inv (e : Enc) : Prop where
  cl : 1 ≤ e.cacheLen
  cache : e.cache < 256
  low : e.low < 2 ^ 33
  ff : e.cache = 255 → e.low < 2 ^ 32

def Enc.digits (e : Enc) : Nat := e.out.length + e.cacheLen

/-- rest-point invariant (after normalisation) -/
structure Enc.Rest (e : Enc) : Prop extends e.Inv where
  rlo : 2 ^ 24 ≤ e.range
  rhi : e.range < 2 ^ 32
  sum : e.low + e.range ≤ 2 ^ 33 - 512
  ffs : e.cache = 255 → e.low + e.range ≤ 2 ^ 32

/-- mid-point invariant (after a bit was applied, before normalisation) -/
structure Enc.Mid (e : Enc) : Prop extends e.Inv where
  rpos : 0 < e.range
  rhi : e.range < 2 ^ 32
  sum : e.low + e.range ≤ 2 ^ 33 - 512
  ffs : e.cache = 255 → e.low + e.range ≤ 2 ^ 32

def Enc.norm (e : Enc) : Enc :=
  if e.range < 2 ^ 24 then ({ e with range := e.range * 256 }).shiftLow else e

structure Decn where
  p : Option Nat   -- some p: adaptive with probability p/2048 ; none: direct bit
  b : Bool

def Decn.ok (dn : Decn) : Prop := ∀ p, dn.p = some p → 31 ≤ p ∧ p ≤ 2017

def Enc.apply (e : Enc) (dn : Decn) : Enc :=
  match dn.p with
  | some p =>
    let bound := (e.range / 2048) * p
    if dn.b then { e with low := e.low + bound, range := e.range - bound }
    else { e with range := bound }
  | none =>
    let r := e.range / 2
    { e with range := r, low := e.low + (if dn.b then r else 0) }

def Enc.step (e : Enc) (dn : Decn) : Enc := (e.apply dn).norm

def Enc.encodeAll (e : Enc) (ds : List Decn) : Enc := ds.foldl Enc.step e

def Enc.Dig (e : Enc) : Prop := ∀ x ∈ e.out, x < 256

def Enc.close (e : Enc) : List Nat := (e.shiftLow.shiftLow.shiftLow.shiftLow.shiftLow).out

structure Dec where
  range : Nat
  code : Nat
  inp : List Nat

def Dec.norm (d : Dec) : Option Dec :=
  if d.range < 2 ^ 24 then
    match d.inp with
    | [] => none
    | x :: r => some { range := d.range * 256, code := (d.code * 256 + x) % 2 ^ 32, inp := r }
  else some d

/-- One decoded bit.  The decoder works in uint32 exactly as the Go code / xz-utils do: `norm` truncates the
    shifted `code`, and the direct bit is decided by the sign bit of the wrapped difference `code - range/2`.
    `code < range` is NOT an invariant on corrupt input (odd `range`, `code = range - 1`, one direct bit).
    NOTE: the wrapped difference is written `2 ^ 32 + d.code - r`, not `d.code + 2 ^ 32 - r`: `Nat.add`
    recurses on its second argument, so with a symbolic `d.code` the first form is stuck at once, while the
    second makes the kernel peel 2^32 successors when it has to compare two unfoldings (the equation lemmas
    of `decTree` then take ten minutes and fail with "deep recursion"). -/
def Dec.step (d : Dec) (p : Option Nat) : Option (Bool × Dec) :=
  match p with
  | some p =>
    let bound := (d.range / 2048) * p
    if d.code < bound then ({ d with range := bound } : Dec).norm.map (fun d' => (false, d'))
    else ({ d with code := d.code - bound, range := d.range - bound } : Dec).norm.map (fun d' => (true, d'))
  | none =>
    let r := d.range / 2
    let c := (2 ^ 32 + d.code - r) % 2 ^ 32          -- uint32(code - r)
    if 2 ^ 31 ≤ c then ({ d with range := r } : Dec).norm.map (fun d' => (false, d'))    -- sign bit set: bit 0, code restored
    else ({ d with code := c, range := r } : Dec).norm.map (fun d' => (true, d'))

def Dec.decodeAll (d : Dec) : List (Option Nat) → Option (List Bool × Dec)
  | [] => some ([], d)
  | p :: ps =>
    match d.step p with
    | none => none
    | some (b, d') =>
      match d'.decodeAll ps with
      | none => none
      | some (bs, d'') => some (b :: bs, d'')

/-- decoder/encoder synchronisation predicate: the decoder has consumed `pre`, still has `inp`,
    and the final output is `W` -/
structure Sync (e : Enc) (d : Dec) (W pre inp : List Nat) (F : Nat) : Prop where
  split : W = pre ++ inp
  len : inp.length + e.digits = F
  range : d.range = e.range
  code : num pre = e.T + d.code
  inp : d.inp = inp

/-- initial states and the top-level statement -/
def Enc.init : Enc := { low := 0, range := 2 ^ 32 - 1, cache := 0, cacheLen := 1, out := [] }

def encode (ds : List Decn) : List Nat := (Enc.init.encodeAll ds).close

def Dec.init (bs : List Nat) : Option Dec :=
  match bs with
  | b0 :: b1 :: b2 :: b3 :: b4 :: r =>
    if b0 ≠ 0 then none
    else
      let code := ((b1 * 256 + b2) * 256 + b3) * 256 + b4
      if code ≥ 2 ^ 32 - 1 then none else some { range := 2 ^ 32 - 1, code := code, inp := r }
  | _ => none

inductive Ask where
  | adaptive (c : Nat)
  | direct
  deriving DecidableEq

inductive DecTree (α : Type) where
  | ret (a : α)
  | ask (q : Ask) (k : Bool → DecTree α)

abbrev Path := List (Ask × Bool)

def DecTree.follow {α : Type} : DecTree α → Path → Option (α × Path)
  | .ret a, π => some (a, π)
  | .ask _ _, [] => none
  | .ask q k, (q', b) :: π => if q = q' then (k b).follow π else none

/-- adaptive probability table: a flat array of 11-bit probabilities; addresses outside the
    array read as the constant 1024 and are never updated (same on the encoder and decoder side) -/
abbrev Tbl := Array Nat

def Tbl.get (t : Tbl) (c : Nat) : Nat := t.getD c 1024

def Tbl.upd (t : Tbl) (c v : Nat) : Tbl := t.setIfInBounds c v

def POk (p : Nat) : Prop := 31 ≤ p ∧ p ≤ 2017

def Tbl.ok (t : Tbl) : Prop := ∀ c, POk (t.get c)

/-- probability model: the update function and the fact that it keeps p in [31, 2017] -/
structure PM where
  next : Nat → Bool → Nat
  ok : ∀ p b, POk p → POk (next p b)

def toDecns (pm : PM) : Tbl → Path → List Decn
  | _, [] => []
  | t, (.adaptive c, b) :: π => ⟨some (t.get c), b⟩ :: toDecns pm (t.upd c (pm.next (t.get c) b)) π
  | t, (.direct, b) :: π => ⟨none, b⟩ :: toDecns pm t π

def decTree {α : Type} (pm : PM) : DecTree α → Tbl → Dec → Option (α × Tbl × Dec)
  | .ret a, t, d => some (a, t, d)
  | .ask (.adaptive c) k, t, d =>
    match d.step (some (t.get c)) with
    | none => none
    | some (b, d') => decTree pm (k b) (t.upd c (pm.next (t.get c) b)) d'
  | .ask .direct k, t, d =>
    match d.step none with
    | none => none
    | some (b, d') => decTree pm (k b) t d'

def DecTree.bind {α β : Type} : DecTree α → (α → DecTree β) → DecTree β
  | .ret a, f => f a
  | .ask q k, f => .ask q (fun b => (k b).bind f)

/-- MSB-first bit-tree codec (lzma/treecodecs.go `treeCodec`): decoder as a tree -/
def treeDecGo (base : Nat) : Nat → Nat → DecTree Nat
  | 0, m => .ret m
  | n + 1, m => .ask (.adaptive (base + m)) (fun b => treeDecGo base n (2 * m + (if b then 1 else 0)))

/-- encoder path for the `n` low bits of `v`, MSB first, starting at tree node `m` -/
def treeEncGo (base : Nat) : Nat → Nat → Nat → Path
  | 0, _, _ => []
  | n + 1, m, v =>
    let b := (v / 2 ^ n) % 2 = 1
    (.adaptive (base + m), b) :: treeEncGo base n (2 * m + (if b then 1 else 0)) v

end Rc
