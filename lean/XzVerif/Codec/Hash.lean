/-
  Codec.Hash — CRC-32 (IEEE), CRC-64 (ECMA-182, reflected, as used by .xz) and SHA-256, written
  from their definitions.  Executable; the container theorems treat them as opaque functions.
-/
namespace Hash

def crc32Table : Array UInt32 := Id.run do
  let mut t : Array UInt32 := Array.mkEmpty 256
  for i in [0:256] do
    let mut c : UInt32 := i.toUInt32
    for _ in [0:8] do
      c := if c &&& 1 = 1 then (c >>> 1) ^^^ 0xEDB88320 else c >>> 1
    t := t.push c
  return t

def crc32Update (crc : UInt32) (b : ByteArray) (lo hi : Nat) : UInt32 := Id.run do
  let mut c := crc ^^^ 0xFFFFFFFF
  for i in [lo:hi] do
    c := crc32Table[((c ^^^ (b.get! i).toUInt32) &&& 0xFF).toNat]! ^^^ (c >>> 8)
  return c ^^^ 0xFFFFFFFF

def crc32 (b : ByteArray) (lo hi : Nat) : UInt32 := crc32Update 0 b lo hi

def crc64Table : Array UInt64 := Id.run do
  let mut t : Array UInt64 := Array.mkEmpty 256
  for i in [0:256] do
    let mut c : UInt64 := i.toUInt64
    for _ in [0:8] do
      c := if c &&& 1 = 1 then (c >>> 1) ^^^ 0xC96C5795D7870F42 else c >>> 1
    t := t.push c
  return t

def crc64 (b : ByteArray) (lo hi : Nat) : UInt64 := Id.run do
  let mut c : UInt64 := 0xFFFFFFFFFFFFFFFF
  for i in [lo:hi] do
    c := crc64Table[((c ^^^ (b.get! i).toUInt64) &&& 0xFF).toNat]! ^^^ (c >>> 8)
  return c ^^^ 0xFFFFFFFFFFFFFFFF

def shaK : Array UInt32 := #[
  0x428a2f98, 0x71374491, 0xb5c0fbcf, 0xe9b5dba5, 0x3956c25b, 0x59f111f1, 0x923f82a4, 0xab1c5ed5,
  0xd807aa98, 0x12835b01, 0x243185be, 0x550c7dc3, 0x72be5d74, 0x80deb1fe, 0x9bdc06a7, 0xc19bf174,
  0xe49b69c1, 0xefbe4786, 0x0fc19dc6, 0x240ca1cc, 0x2de92c6f, 0x4a7484aa, 0x5cb0a9dc, 0x76f988da,
  0x983e5152, 0xa831c66d, 0xb00327c8, 0xbf597fc7, 0xc6e00bf3, 0xd5a79147, 0x06ca6351, 0x14292967,
  0x27b70a85, 0x2e1b2138, 0x4d2c6dfc, 0x53380d13, 0x650a7354, 0x766a0abb, 0x81c2c92e, 0x92722c85,
  0xa2bfe8a1, 0xa81a664b, 0xc24b8b70, 0xc76c51a3, 0xd192e819, 0xd6990624, 0xf40e3585, 0x106aa070,
  0x19a4c116, 0x1e376c08, 0x2748774c, 0x34b0bcb5, 0x391c0cb3, 0x4ed8aa4a, 0x5b9cca4f, 0x682e6ff3,
  0x748f82ee, 0x78a5636f, 0x84c87814, 0x8cc70208, 0x90befffa, 0xa4506ceb, 0xbef9a3f7, 0xc67178f2]

def rotr (x : UInt32) (n : UInt32) : UInt32 := (x >>> n) ||| (x <<< (32 - n))

def shaBlock (h : Array UInt32) (blk : ByteArray) (off : Nat) : Array UInt32 := Id.run do
  let mut w : Array UInt32 := Array.mkEmpty 64
  for i in [0:16] do
    let j := off + 4 * i
    w := w.push (((blk.get! j).toUInt32 <<< 24) ||| ((blk.get! (j+1)).toUInt32 <<< 16) |||
      ((blk.get! (j+2)).toUInt32 <<< 8) ||| (blk.get! (j+3)).toUInt32)
  for i in [16:64] do
    let w15 := w[i-15]!
    let w2 := w[i-2]!
    let s0 := rotr w15 7 ^^^ rotr w15 18 ^^^ (w15 >>> 3)
    let s1 := rotr w2 17 ^^^ rotr w2 19 ^^^ (w2 >>> 10)
    w := w.push (w[i-16]! + s0 + w[i-7]! + s1)
  let mut a := h[0]!
  let mut b := h[1]!
  let mut c := h[2]!
  let mut d := h[3]!
  let mut e := h[4]!
  let mut f := h[5]!
  let mut g := h[6]!
  let mut hh := h[7]!
  for i in [0:64] do
    let s1 := rotr e 6 ^^^ rotr e 11 ^^^ rotr e 25
    let ch := (e &&& f) ^^^ ((~~~ e) &&& g)
    let t1 := hh + s1 + ch + shaK[i]! + w[i]!
    let s0 := rotr a 2 ^^^ rotr a 13 ^^^ rotr a 22
    let maj := (a &&& b) ^^^ (a &&& c) ^^^ (b &&& c)
    let t2 := s0 + maj
    hh := g; g := f; f := e; e := d + t1; d := c; c := b; b := a; a := t1 + t2
  return #[h[0]! + a, h[1]! + b, h[2]! + c, h[3]! + d, h[4]! + e, h[5]! + f, h[6]! + g, h[7]! + hh]

def sha256 (b : ByteArray) (lo hi : Nat) : ByteArray := Id.run do
  let n := hi - lo
  let mut msg : ByteArray := b.extract lo hi
  msg := msg.push 0x80
  while msg.size % 64 ≠ 56 do
    msg := msg.push 0
  let bits : UInt64 := (n * 8).toUInt64
  for i in [0:8] do
    msg := msg.push ((bits >>> (56 - 8 * i).toUInt64) &&& 0xFF).toUInt8
  let mut h : Array UInt32 := #[0x6a09e667, 0xbb67ae85, 0x3c6ef372, 0xa54ff53a, 0x510e527f, 0x9b05688c,
    0x1f83d9ab, 0x5be0cd19]
  for k in [0:msg.size / 64] do
    h := shaBlock h msg (64 * k)
  let mut out := ByteArray.empty
  for x in h do
    out := out.push (x >>> 24).toUInt8
    out := out.push (x >>> 16).toUInt8
    out := out.push (x >>> 8).toUInt8
    out := out.push x.toUInt8
  return out

def le32 (x : UInt32) : ByteArray :=
  ByteArray.empty |>.push x.toUInt8 |>.push (x >>> 8).toUInt8 |>.push (x >>> 16).toUInt8 |>.push (x >>> 24).toUInt8

def le64 (x : UInt64) : ByteArray := Id.run do
  let mut o := ByteArray.empty
  for i in [0:8] do
    o := o.push (x >>> (8 * i).toUInt64).toUInt8
  return o

end Hash
