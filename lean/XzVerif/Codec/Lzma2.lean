import XzVerif.Codec.LzmaDec
import XzVerif.Spec.Lzma2Chunks
/-
  Codec.Lzma2 — LZMA2 chunk framing: header layout, the reader loop of lzma/reader2.go in batch
  form over a byte array, and the chunk emitter used to re-encode parsed streams.
  `strict = true` gives the format's rules (Spec), `strict = false` the Go reader's (Model).
-/
namespace Lzma2
open Lzma Rc Spec

/-- what a chunk turned out to contain (for validity judgements and re-encoding) -/
structure Chunk where
  kind : ChunkKind
  usize : Nat               -- uncompressed size (0 for eos)
  csize : Nat := 0          -- compressed size (LZMA chunks)
  props : Option Props := none   -- properties carried by the header (lrn, lrnd)
  ops : Array RawOp := #[]  -- LZMA chunks
  raw : ByteArray := ByteArray.empty  -- uncompressed chunks
  consumed : Nat := 0       -- compressed bytes the range decoder actually read
  marker : Bool := false

/-- properties byte: (pb·5 + lp)·9 + lc, at most 224 -/
def propsOfByte (b : Nat) : Option Props :=
  if b > 224 then none else some { lc := b % 9, lp := (b / 9) % 5, pb := (b / 45) % 5 }

def byteOfProps (p : Props) : Nat := (p.pb * 5 + p.lp) * 9 + p.lc

structure RState where
  inp : ByteArray
  pos : Nat
  seq : SeqState := .init
  h : Hist
  props : Option Props := none
  s : St := {}
  tbl : Tbl := #[]
  chunks : Array Chunk := #[]

def get (b : ByteArray) (i : Nat) : Nat := (b.get! i).toNat

inductive ChunkRes where
  | next (r : RState)
  | done (r : RState) (st : Status)

/-- one `startChunk` + reading the chunk to its end -/
def readChunk (strict : Bool) (r : RState) : ChunkRes :=
  let inp := r.inp
  if r.pos ≥ inp.size then .done r .unexpectedEOF else
  let c := get inp r.pos
  match Spec.ctrl c with
  | none => .done r (.err "unsupported chunk header byte")
  | some kind =>
    let hlen := match kind with
      | .eos => 1 | .ud => 3 | .u => 3 | .l => 5 | .lr => 5 | .lrn => 6 | .lrnd => 6
    if r.pos + hlen > inp.size then .done r .unexpectedEOF else
    let hprops : Option (Option Props) :=
      if kind = .lrn ∨ kind = .lrnd then
        match propsOfByte (get inp (r.pos + 5)) with
        | none => none
        | some p => some (some p)
      else some none
    match hprops with
    | none => .done r (.err "invalid properties code")
    | some hp =>
    match seqStep r.seq kind with
    | none => .done r (.err "unexpected chunk type")
    | some seq' =>
      if kind = .eos then
        .done { r with pos := r.pos + 1, seq := seq', chunks := r.chunks.push { kind := .eos, usize := 0 } } .eof
      else
      let h := if kind = .ud ∨ kind = .lrnd then r.h.reset else r.h
      let body := r.pos + hlen
      if kind = .ud ∨ kind = .u then
        let usize := get inp (r.pos + 1) * 256 + get inp (r.pos + 2) + 1
        let avail := inp.size - body
        let n := min usize avail
        let raw := inp.extract body (body + n)
        let h' := { h with out := h.out ++ raw }
        let r' := { r with pos := body + n, seq := seq', h := h',
                           chunks := r.chunks.push { kind := kind, usize := usize, raw := raw } }
        if n < usize then .done r' .unexpectedEOF else .next r'
      else
        let usize := ((c % 32) * 65536 + get inp (r.pos + 1) * 256 + get inp (r.pos + 2)) + 1
        let csize := get inp (r.pos + 3) * 256 + get inp (r.pos + 4) + 1
        -- state / properties handling
        let props? : Option Props := match hp with
          | some p => some p
          | none => r.props
        match props? with
        | none => .done r (.err "no properties")   -- excluded by the chunk automaton
        | some p =>
          if strict ∧ p.lc + p.lp > 4 then .done r (.err "lc + lp > 4") else
          let fresh := kind ≠ .l
          let s : St := if fresh then {} else r.s
          let tbl : Tbl := if fresh then initTable p.lc p.lp else r.tbl
          let avail := inp.size - body
          let n := min csize avail
          let seg := bytesToList inp body (body + n)
          match Dec.init seg with
          | none =>
            let st : Status := initStatus seg
            .done { r with pos := body, seq := seq', h := h, props := some p } st
          | some rd =>
            let d0 : DecSt := { s := s, tbl := tbl, rd := rd, h := h }
            let res := decSegment p (some usize) h.out.size strict (usize + 2) d0
            let consumed := n - res.d.rd.inp.length
            let ck : Chunk := { kind := kind, usize := usize, csize := csize, props := hp,
                                ops := res.d.ops, consumed := consumed, marker := res.sawMarker }
            let r' := { r with pos := body + consumed, seq := seq', h := res.d.h, props := some p,
                               s := res.d.s, tbl := res.d.tbl, chunks := r.chunks.push ck }
            match res.status with
            | .eof =>
              if strict ∧ consumed ≠ csize then .done r' (.err "compressed size mismatch")
              else .next r'
            | .unexpectedEOF =>
              -- the limited reader ran dry: a real end of input or the end of the chunk
              .done r' .unexpectedEOF
            | st => .done r' st

/-- read chunks until the end marker or an error -/
def readAll (strict : Bool) : Nat → RState → RState × Status
  | 0, r => (r, .err "fuel exhausted")
  | fuel + 1, r =>
    match readChunk strict r with
    | .done r' st => (r', st)
    | .next r' => readAll strict fuel r'

/-- decode an LZMA2 stream starting at `pos`; returns final state and status -/
def decode (strict : Bool) (cap : Nat) (inp : ByteArray) (pos : Nat) (out : ByteArray) : RState × Status :=
  readAll strict (inp.size - pos + 2) { inp := inp, pos := pos, h := { out := out, dictStart := out.size, cap := cap } }

/-! ### emitter: re-encode a parsed chunk sequence -/

def be16 (n : Nat) : ByteArray := ByteArray.empty |>.push (n / 256).toUInt8 |>.push (n % 256).toUInt8

def ctrlOf : ChunkKind → Nat
  | .eos => 0 | .ud => 1 | .u => 2 | .l => 0x80 | .lr => 0xA0 | .lrn => 0xC0 | .lrnd => 0xE0

structure EState where
  out : ByteArray := ByteArray.empty
  h : Hist
  props : Option Props := none
  s : St := {}
  tbl : Tbl := #[]

/-- emit one chunk from its operations / raw bytes.  For LZMA chunks the coder state continues
    from the previous LZMA chunk unless the kind resets it — also across raw chunks, which is the
    state-snapshot behaviour of Writer2 (`w.encoder.state = w.start`). -/
def emitChunk (e : EState) (c : Chunk) : EState :=
  match c.kind with
  | .eos => { e with out := e.out.push 0 }
  | .ud | .u =>
    let h := if c.kind = .ud then e.h.reset else e.h
    { e with out := (e.out.push (ctrlOf c.kind).toUInt8) ++ be16 (c.raw.size - 1) ++ c.raw,
             h := { h with out := h.out ++ c.raw } }
  | k =>
    let p := match c.props with
      | some p => p
      | none => e.props.getD ⟨0, 0, 0⟩
    let fresh := k ≠ .l
    let h := if k = .lrnd then e.h.reset else e.h
    let x0 : EncSt := { s := if fresh then {} else e.s, tbl := if fresh then initTable p.lc p.lp else e.tbl,
                        e := Enc.init, bytes := ByteArray.empty, h := h }
    let x := c.ops.foldl (encStep p) x0
    let body := encClose x
    let usize := x.h.out.size - h.out.size
    let hdr := (ByteArray.empty.push (ctrlOf k + (usize - 1) / 65536).toUInt8) ++ be16 ((usize - 1) % 65536) ++
      be16 (body.size - 1)
    let hdr := match c.props with
      | some p => hdr.push (byteOfProps p).toUInt8
      | none => hdr
    { out := e.out ++ hdr ++ body, h := x.h, props := some p, s := x.s, tbl := x.tbl }

def emit (cap : Nat) (cs : Array Chunk) : ByteArray :=
  (cs.foldl emitChunk { h := { out := ByteArray.empty, dictStart := 0, cap := cap } }).out

end Lzma2
