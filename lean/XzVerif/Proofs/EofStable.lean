import XzVerif.Proofs.LazyXz
import XzVerif.Proofs.EofStableLemmas
/-!
  "Once end of stream has been reported, every further read into a non-empty buffer returns zero bytes and end of stream
  again" (C13) for the three lazy reader models, for EVERY input and EVERY schedule — including schedules that go on
  reading after the end.
-/
namespace EofStable
open Lzma LazyDec

/-- a schedule that goes on whatever a call returns (the state is threaded through) -/
def seq1 : LSt → List Nat → List (ByteArray × RStat)
  | _, [] => []
  | l, len :: rest => let (l', out, st) := LazyDec.read l len; (out, st) :: seq1 l' rest

def seq2 : LazyDec2.R2 → List Nat → List (ByteArray × RStat)
  | _, [] => []
  | r, len :: rest => let (r', out, st) := LazyDec2.read r len; (out, st) :: seq2 r' rest

def seqX : LazyXz.X → List Nat → List (ByteArray × RStat)
  | _, [] => []
  | x, len :: rest => let (x', out, st) := LazyXz.read x len; (out, st) :: seqX x' rest

/-- what may follow an end of stream: nothing but empty results; a non-empty buffer gets `io.EOF` again
    (`zeroOk`: a zero-length read may answer nil instead) -/
def StableAfterEof (zeroOk : Bool) (lens : List Nat) (rs : List (ByteArray × RStat)) : Prop :=
  ∀ i j, i < j → j < rs.length → (rs[i]!).2 = .eof →
    (rs[j]!).1 = ByteArray.empty ∧ ((rs[j]!).2 = .eof ∨ (zeroOk = true ∧ lens[j]! = 0 ∧ (rs[j]!).2 = .ok))

/-! ## helper lemmas: the three schedules are instances of `seqG` -/

theorem seq1_eq : ∀ (lens : List Nat) (l : LSt), seq1 l lens = seqG (fun l len => LazyDec.read l len) l lens := by
  intro lens
  induction lens with
  | nil => intro l; rfl
  | cons len rest ih =>
    intro l
    rw [seq1, seqG]
    rcases LazyDec.read l len with ⟨l', out, st⟩
    simp only [ih]

theorem seq2_eq : ∀ (lens : List Nat) (r : LazyDec2.R2),
    seq2 r lens = seqG (fun r len => LazyDec2.read r len) r lens := by
  intro lens
  induction lens with
  | nil => intro r; rfl
  | cons len rest ih =>
    intro r
    rw [seq2, seqG]
    rcases LazyDec2.read r len with ⟨r', out, st⟩
    simp only [ih]

theorem seqX_eq : ∀ (lens : List Nat) (x : LazyXz.X), seqX x lens = seqG (fun x len => LazyXz.read x len) x lens := by
  intro lens
  induction lens with
  | nil => intro x; rfl
  | cons len rest ih =>
    intro x
    rw [seqX, seqG]
    rcases LazyXz.read x len with ⟨x', out, st⟩
    simp only [ih]

/-! ## statements -/

/-- classic reader -/
theorem lzma_eof_stable (cfgCap : Nat) (inp : ByteArray) (l : LSt) (h : newReader cfgCap inp = .ok l) (lens : List Nat) :
    StableAfterEof true lens (seq1 l lens) := by
  rw [seq1_eq]
  have hw : W1 l := by
    obtain ⟨p, size, cap, R, _, ⟨d, hs, _⟩, _⟩ := LazyDec.newReader_init cfgCap inp l h
    exact ⟨_, cap, _, hs.rel⟩
  intro i j hij hj he
  exact seqG_stable (fun l len => LazyDec.read l len) true W1 Dead1 (fun s len => (read1_step s len).1)
    (fun s len => (read1_step s len).2) lens l hw i j hij hj he

set_option linter.unusedVariables false in
/-- LZMA2 reader (the stored `io.EOF` is returned also for zero-length reads) -/
theorem lzma2_eof_stable (cfgCap : Nat) (hcap : 4096 ≤ effCap cfgCap) (inp : ByteArray) (lens : List Nat) :
    StableAfterEof false lens (seq2 (LazyDec2.newReader2 cfgCap inp) lens) := by
  rw [seq2_eq]
  intro i j hij hj he
  exact seqG_stable (fun r len => LazyDec2.read r len) false (fun _ => True) (fun r => r.err = some .eof)
    (fun s len => (read2_step s len).1) (fun s len => (read2_step s len).2) lens _ trivial i j hij hj he

set_option linter.unusedVariables false in
/-- xz reader, multi-stream and SingleStream -/
theorem xz_eof_stable (cfgCap : Nat) (single : Bool) (inp : ByteArray) (x : LazyXz.X)
    (h : LazyXz.newReader cfgCap single inp = .ok x) (lens : List Nat) :
    StableAfterEof true lens (seqX x lens) := by
  rw [seqX_eq]
  intro i j hij hj he
  exact seqG_stable (fun x len => LazyXz.read x len) true (fun _ => True) DeadX
    (fun s len => (readX_step s len).1) (fun s len => (readX_step s len).2) lens x trivial i j hij hj he

end EofStable

#print axioms EofStable.lzma_eof_stable
#print axioms EofStable.lzma2_eof_stable
#print axioms EofStable.xz_eof_stable
