import XzVerif.Proofs.Writer2FLemmas

/-!
  Helper lemmas for Proofs/Writer2F.lean, part 2: the writer on a failing sink (`W2F.flushChunk`, `write`,
  `flushLoop`, `step`) under the invariant of Proofs/Writer2Inv.lean *up to the sink bytes* (`InvG`): a failed
  end-of-stream write leaves garbage in the sink but the encoder state intact.  On success every function returns
  exactly what its `Model/Writer2.lean` counterpart returns; the only error is the sink's; nothing panics.
-/

set_option linter.unusedSimpArgs false
set_option linter.unusedVariables false

namespace W2F
open W2 Lzma Rc Lzma2 Spec

variable {σ : Type}

/-- the margin of the repaired encoder is sufficient: no error but the sink's can occur -/
theorem hmargin : 25 ≤ Gen.lzma_opLenMargin := by decide

/-- the invariant holds up to the sink bytes: `t` is a twin of `w` with the right sink bytes -/
def InvG (c : Cfg) (I : σ → ByteArray → ByteArray → Prop) (w : WSt σ) : Prop := ∃ t, er t = er w ∧ InvI c I t

def RunInvG (c : Cfg) (I : σ → ByteArray → ByteArray → Prop) (w : WSt σ) (d : ByteArray) : Prop :=
  ∃ t, er t = er w ∧ RunInv c I t d

theorem er_fields {a b : WSt σ} (h : er a = er b) :
    a.hist = b.hist ∧ a.look = b.look ∧ a.start = b.start ∧ a.cstate = b.cstate ∧ a.written = b.written := by
  have h1 := congrArg WSt.hist h
  have h2 := congrArg WSt.look h
  have h3 := congrArg WSt.start h
  have h4 := congrArg WSt.cstate h
  have h1' : a.hist = b.hist := h1
  have h2' : a.look = b.look := h2
  have h3' : a.start = b.start := h3
  refine ⟨h1', h2', h3', h4, ?_⟩
  unfold WSt.written WSt.compressed
  rw [h1', h2', h3']

/-! ### `flushChunk` -/

theorem panics_closeSt (c : Cfg) (w' : WSt σ) (hi : Inv c w') (hpos : 0 < w'.compressed)
    (hb : w'.body.size + w'.e.digits + 9 ≤ Gen.lzma_maxCompressed) : panics c (closeSt w') = false := by
  have hsz := closeSt_body_size w' hi.erest.toInv hi.eout
  have hwr := hi.wr
  have h1 : ¬ (Gen.lzma_maxUncompressed < (closeSt w').compressed) := by
    have : (closeSt w').compressed = w'.compressed := rfl
    unfold WSt.written at hwr
    omega
  have hct : (closeSt w').ctype = w'.ctype := rfl
  have h2 : ¬ (closeSt w').ctype = Gen.lzma_cU := by
    rw [hct]; rcases hi.ctype_cases with h | h | h <;> rw [h] <;> decide
  have h3 : ¬ (closeSt w').ctype = Gen.lzma_cUD := by
    rw [hct]; rcases hi.ctype_cases with h | h | h <;> rw [h] <;> decide
  have h4 : ¬ (closeSt w').body.size = 0 := by omega
  have h5 : ¬ (Gen.lzma_maxCompressed < (closeSt w').body.size) := by omega
  unfold panics
  simp only [h1, h2, h3, h4, h5, decide_false, Bool.or_false, Bool.and_false, Bool.or_self]

def FCS (s : FSt σ) (w'' : WSt σ) : Res σ → Prop
  | .ok s' => s'.w = w'' ∧ s'.hit = s.hit ∧ s'.err = s.err
  | .err s' e => e = .sink ∧ s'.err = some .sink ∧ s'.hit = true
  | .panic _ => False

/-- without a panic and without an error of the writer itself, `W2F.flushChunk` either does what `W2.flushChunk`
    does or reports the sink's error -/
theorem flushChunk_struct (c : Cfg) (M : Matcher σ) (F : Plan) (s : FSt σ) (w'' : WSt σ)
    (h : W2.flushChunk c M s.w = .ok w'')
    (hp : ∀ w1, W2.encClose c M s.w = .ok w1 → ¬ s.w.written = 0 → panics c w1 = false) :
    FCS s w'' (flushChunk c M F s) := by
  unfold flushChunk
  unfold W2.flushChunk at h
  by_cases hw : s.w.written = 0
  · rw [if_pos hw] at h ⊢
    exact ⟨Except.ok.inj h, rfl, rfl⟩
  · rw [if_neg hw] at h ⊢
    cases h1 : W2.encClose c M s.w with
    | error e => rw [h1] at h; cases h
    | ok w1 =>
      rw [h1] at h
      dsimp only at h ⊢
      rw [if_neg (by rw [hp w1 h1 hw]; simp)]
      cases h2 : writeChunk c w1 with
      | error e => rw [h2] at h; cases h
      | ok w2 =>
        rw [h2] at h
        dsimp only at h ⊢
        obtain ⟨a1, a2, a3, a4, a5⟩ := sinkWrites_spec F (segments c w1 w2) { s with w := w1 }
        rcases hsw : sinkWrites F { s with w := w1 } (segments c w1 w2) with ⟨s', b⟩
        rw [hsw] at a1 a2 a3 a4 a5
        cases b with
        | false => exact ⟨rfl, rfl, a5 rfl⟩
        | true =>
          obtain ⟨b1, b2⟩ := a4 rfl
          have hout : s'.w.out = w2.out := by
            rw [b2, cat_segments]
            exact (writeChunk_out c w1 w2 h2).symm
          dsimp only
          cases h3 : Model.chunkNext w2.cstate w2.ctype with
          | none => rw [h3] at h; cases h
          | some cs' =>
            rw [h3] at h
            dsimp only at h ⊢
            have h' := Except.ok.inj h
            refine ⟨?_, b1, a2⟩
            rw [← h', hout]

def FCPost (c : Cfg) (I : σ → ByteArray → ByteArray → Prop) (M : Matcher σ) (s : FSt σ) : Res σ → Prop
  | .ok s' => InvG c I s'.w ∧ W2.flushChunk c M s.w = .ok s'.w ∧ s'.hit = s.hit ∧ s'.err = s.err ∧
      s'.w.hist ++ s'.w.look = s.w.hist ++ s.w.look ∧ s'.w.written ≤ s.w.written ∧
      (0 < s.w.written → s'.w.written < s.w.written)
  | .err s' e => e = .sink ∧ s'.err = some .sink ∧ s'.hit = true
  | .panic _ => False

theorem flushChunk_F (c : Cfg) (hc : CfgOk' c) (M : Matcher σ) (I : σ → ByteArray → ByteArray → Prop)
    (hI : MatcherInv' c M I) (F : Plan) (s : FSt σ) (hg : InvG c I s.w) :
    FCPost c I M s (flushChunk c M F s) := by
  obtain ⟨t, ht, hit⟩ := hg
  have hsw : s.w = setOut t s.w.out := er_eq ht.symm
  have hfl := flushChunk_spec c hc M I hI t hit
  cases hr : W2.flushChunk c M t with
  | error e => rw [hr] at hfl; exact absurd hmargin hfl.2
  | ok t'' =>
    rw [hr] at hfl
    obtain ⟨b1, b2, b3, b4⟩ := hfl
    have hso := flushChunk_setOut c M t s.w.out
    rw [← hsw, hr] at hso
    cases hr2 : W2.flushChunk c M s.w with
    | error e => rw [hr2] at hso; simp [exEr] at hso
    | ok w'' =>
      rw [hr2] at hso
      simp only [exEr] at hso
      have hso' : er w'' = er t'' := Except.ok.inj hso
      have hp : ∀ w1, W2.encClose c M s.w = .ok w1 → ¬ s.w.written = 0 → panics c w1 = false := by
        intro w1 h1 hw
        have hwt : t.written = s.w.written := (er_fields ht).2.2.2.2
        have hcl := encClose_spec c hc M I hI t hit (by omega)
        rw [hsw, encClose_setOut] at h1
        cases hc1 : W2.encClose c M t with
        | error e => rw [hc1] at h1; cases h1
        | ok t1 =>
          rw [hc1] at hcl h1
          obtain ⟨t', hi', _, hpos, rfl, hb, _⟩ := hcl
          have : w1 = setOut (closeSt t') s.w.out := (Except.ok.inj h1).symm
          rw [this]
          exact panics_closeSt c t' hi'.toInv hpos hb
      have hst := flushChunk_struct c M F s w'' hr2 hp
      obtain ⟨f1, f2, f3, f4, f5⟩ := er_fields hso'
      obtain ⟨g1, g2, g3, g4, g5⟩ := er_fields ht
      cases hf : flushChunk c M F s with
      | ok s' =>
        rw [hf] at hst
        obtain ⟨e1, e2, e3⟩ := hst
        refine ⟨⟨t'', by rw [e1]; exact hso'.symm, b1⟩, by rw [e1]; exact hr2, e2, e3, ?_, ?_, ?_⟩
        · rw [e1, f1, f2, b2, g1, g2]
        · rw [e1, f5, ← g5]; exact b3
        · rw [e1, f5, ← g5]; exact b4
      | err s' e => rw [hf] at hst; exact hst
      | panic s' => rw [hf] at hst; exact hst

/-! ### `write` -/

def FWPost (c : Cfg) (I : σ → ByteArray → ByteArray → Prop) (M : Matcher σ) (p : ByteArray) (fuel : Nat)
    (s : FSt σ) (n : Nat) (r : WRes σ) : Prop :=
  r.panic = false ∧
  ((r.err = none ∧ InvG c I r.s.w ∧ r.s.w.written < Gen.lzma_maxUncompressed ∧ r.n = p.size ∧
     r.s.w.hist ++ r.s.w.look = s.w.hist ++ s.w.look ++ p.extract n p.size ∧ r.s.hit = s.hit ∧ r.s.err = s.err ∧
     W2.write c M p fuel s.w n = (r.s.w, r.n, none)) ∨
   (r.err = some .sink ∧ r.s.err = some .sink ∧ r.s.hit = true))

theorem FWPost.step {c : Cfg} {I : σ → ByteArray → ByteArray → Prop} {M : Matcher σ} {p : ByteArray} {fuel : Nat}
    {s s1 : FSt σ} {n n1 : Nat} {r : WRes σ}
    (hd : s1.w.hist ++ s1.w.look = s.w.hist ++ s.w.look ++ p.extract n n1) (hn : n ≤ n1) (hn1 : n1 ≤ p.size)
    (hhit : s1.hit = s.hit) (herr : s1.err = s.err)
    (hW : W2.write c M p (fuel + 1) s.w n = W2.write c M p fuel s1.w n1)
    (h : FWPost c I M p fuel s1 n1 r) : FWPost c I M p (fuel + 1) s n r := by
  obtain ⟨h1, h2⟩ := h
  refine ⟨h1, ?_⟩
  rcases h2 with ⟨a1, a2, a3, a4, a5, a6, a7, a8⟩ | h2
  · refine Or.inl ⟨a1, a2, a3, a4, ?_, a6.trans hhit, a7.trans herr, hW.trans a8⟩
    rw [a5, hd, ByteArray.append_assoc, ByteArray.extract_append_extract, Nat.min_eq_left hn,
      Nat.max_eq_right hn1]
  · exact Or.inr h2

theorem write_F (c : Cfg) (hc : CfgOk' c) (M : Matcher σ) (I : σ → ByteArray → ByteArray → Prop)
    (hI : MatcherInv' c M I) (F : Plan) (p : ByteArray) :
    ∀ (fuel : Nat) (s : FSt σ) (n : Nat), InvG c I s.w → s.w.written < Gen.lzma_maxUncompressed → n ≤ p.size →
      2 * (p.size - n) + s.w.written + 1 ≤ fuel → FWPost c I M p fuel s n (W2F.write c M F p fuel s n) := by
  intro fuel
  induction fuel with
  | zero => intro s n _ _ _ h; omega
  | succ fuel ih =>
    intro s n hg hwr hn hf
    obtain ⟨t, ht, hit⟩ := hg
    have hsw : s.w = setOut t s.w.out := er_eq ht.symm
    obtain ⟨g1, g2, g3, g4, g5⟩ := er_fields ht
    unfold W2F.write
    by_cases hlt : n < p.size
    · rw [if_pos hlt]
      simp only []
      generalize hm : Gen.lzma_maxUncompressed - s.w.written = m
      rw [if_neg (by omega)]
      generalize hq : p.extract n (if n + m < p.size then n + m else p.size) = q
      have hqs : q.size = min m (p.size - n) := by
        rw [← hq, ByteArray.size_extract]
        split <;> omega
      have hqe : ∀ k, k ≤ q.size → q.extract 0 k = p.extract n (n + k) := by
        intro k hk
        rw [← hq, ByteArray.extract_extract]
        congr 1
        split <;> omega
      have hew := encWrite_spec c hc M I hI q (q.size + 2) t 0 hit (Nat.zero_le _) (by omega)
        (by split <;> omega)
      have hso := encWrite_setOut c M q s.w.out (q.size + 2) t 0
      rw [← hsw] at hso
      -- the same step of `W2.write`
      have hWu : ∀ (res : OpRes σ) (k : Nat), encWrite c M q (q.size + 2) s.w 0 = (res, k) →
          W2.write c M p (fuel + 1) s.w n =
            (match (res, k) with
             | (.bad w' s, k) => (w', n + k, some (.other s))
             | (.broken w', k) =>
               (if w'.look.size > 0 then { w' with m := (M.next w'.m w'.hist w'.look w'.s).2 } else w', n + k,
                 some .limit)
             | (.limit w', k) =>
               match W2.flushChunk c M w' with
               | .error e => (w', n + k, some e)
               | .ok w'' => W2.write c M p fuel w'' (n + k)
             | (.ok w', k) =>
               if k = m then
                 match W2.flushChunk c M w' with
                 | .error e => (w', n + k, some e)
                 | .ok w'' => W2.write c M p fuel w'' (n + k)
               else W2.write c M p fuel w' (n + k)) := by
        intro res k henc
        rw [W2.write, if_pos hlt]
        simp only []
        rw [hm, if_neg (by omega), hq, henc]
        cases res <;> rfl
      rcases hr : encWrite c M q (q.size + 2) t 0 with ⟨res, k⟩
      rw [hr] at hew hso
      dsimp only at hso
      have hWk := hWu _ _ hso
      rw [hso]
      cases res with
      | bad t' what => exact absurd hew id
      | broken t' => exact absurd hmargin hew
      | limit t' =>
        obtain ⟨a1, a2, a3, a4, a5, a6⟩ := hew
        simp only [opSetOut] at hWk ⊢
        have hw' := a2.written hit.start
        rw [ByteArray.size_extract] at hw'
        have hd' := a2.data
        rw [hqe k a4] at hd'
        have hfl := flushChunk_F c hc M I hI F { s with w := setOut t' s.w.out } ⟨t', rfl, a1⟩
        cases hfc : flushChunk c M F { s with w := setOut t' s.w.out } with
        | err s' e =>
          rw [hfc] at hfl
          obtain ⟨e1, e2, e3⟩ := hfl
          subst e1
          exact ⟨rfl, Or.inr ⟨rfl, e2, e3⟩⟩
        | panic s' => rw [hfc] at hfl; exact absurd hfl id
        | ok s' =>
          rw [hfc] at hfl
          obtain ⟨b1, b2, b3, b4, b5, b6, b7⟩ := hfl
          dsimp only at b2 b5 b6 b7 ⊢
          have hwt : (setOut t' s.w.out).written = t'.written := rfl
          have hpos : 0 < t'.written := by unfold WSt.written; omega
          have := b7 (by rw [hwt]; exact hpos)
          refine FWPost.step (s1 := s') (n1 := n + k) ?_ (by omega) (by omega) b3 b4 ?_
            (ih s' (n + k) b1 (by omega) (by omega) (by omega))
          · rw [b5, show (setOut t' s.w.out).hist = t'.hist from rfl, show (setOut t' s.w.out).look = t'.look from rfl,
              hd', g1, g2]
          · rw [hWk, b2]
      | ok t' =>
        obtain ⟨a1, a2, a3⟩ := hew
        simp only [opSetOut] at hWk ⊢
        have hw' := a2.written hit.start
        rw [ByteArray.size_extract] at hw'
        have hd' := a2.data
        rw [hqe k (by omega)] at hd'
        have hwt : (setOut t' s.w.out).written = t'.written := rfl
        by_cases hkm : k = m
        · rw [if_pos hkm] at hWk ⊢
          have hfl := flushChunk_F c hc M I hI F { s with w := setOut t' s.w.out } ⟨t', rfl, a1⟩
          cases hfc : flushChunk c M F { s with w := setOut t' s.w.out } with
          | err s' e =>
            rw [hfc] at hfl
            obtain ⟨e1, e2, e3⟩ := hfl
            subst e1
            exact ⟨rfl, Or.inr ⟨rfl, e2, e3⟩⟩
          | panic s' => rw [hfc] at hfl; exact absurd hfl id
          | ok s' =>
            rw [hfc] at hfl
            obtain ⟨b1, b2, b3, b4, b5, b6, b7⟩ := hfl
            dsimp only at b2 b5 b6 b7 ⊢
            have := b7 (by rw [hwt]; omega)
            refine FWPost.step (s1 := s') (n1 := n + k) ?_ (by omega) (by omega) b3 b4 ?_
              (ih s' (n + k) b1 (by omega) (by omega) (by omega))
            · rw [b5, show (setOut t' s.w.out).hist = t'.hist from rfl,
                show (setOut t' s.w.out).look = t'.look from rfl, hd', g1, g2]
            · rw [hWk, b2]
        · rw [if_neg hkm] at hWk ⊢
          have hs1w : ({ s with w := setOut t' s.w.out } : FSt σ).w.written = t'.written := rfl
          refine FWPost.step (s1 := { s with w := setOut t' s.w.out }) (n1 := n + k) ?_ (by omega) (by omega) rfl rfl
            hWk (ih { s with w := setOut t' s.w.out } (n + k) ⟨t', rfl, a1⟩ (by rw [hs1w]; omega) (by omega)
              (by rw [hs1w]; omega))
          show t'.hist ++ t'.look = _
          rw [hd', g1, g2]
    · rw [if_neg hlt]
      have : n = p.size := by omega
      subst this
      refine ⟨rfl, Or.inl ⟨rfl, ⟨t, ht, hit⟩, hwr, rfl, ?_, rfl, rfl, ?_⟩⟩
      · rw [ByteArray.extract_same, ByteArray.append_empty]
      · rw [W2.write, if_neg hlt]

/-! ### `flushLoop` -/

def FLPostF (c : Cfg) (I : σ → ByteArray → ByteArray → Prop) (M : Matcher σ) (fuel : Nat) (s : FSt σ) :
    Res σ → Prop
  | .ok s' => InvG c I s'.w ∧ s'.w.written = 0 ∧ s'.w.hist ++ s'.w.look = s.w.hist ++ s.w.look ∧
      s'.hit = s.hit ∧ s'.err = s.err ∧ W2.flushLoop c M fuel s.w = .ok s'.w
  | .err s' e => e = .sink ∧ s'.err = some .sink ∧ s'.hit = true
  | .panic _ => False

theorem flushLoop_F (c : Cfg) (hc : CfgOk' c) (M : Matcher σ) (I : σ → ByteArray → ByteArray → Prop)
    (hI : MatcherInv' c M I) (F : Plan) :
    ∀ (fuel : Nat) (s : FSt σ), InvG c I s.w → s.w.written < fuel →
      FLPostF c I M fuel s (W2F.flushLoop c M F fuel s) := by
  intro fuel
  induction fuel with
  | zero => intro s _ h; omega
  | succ fuel ih =>
    intro s hg hf
    unfold W2F.flushLoop
    by_cases hw : s.w.written > 0
    · rw [if_pos hw]
      have hfl := flushChunk_F c hc M I hI F s hg
      cases hfc : flushChunk c M F s with
      | ok s' =>
        rw [hfc] at hfl
        obtain ⟨b1, b2, b3, b4, b5, b6, b7⟩ := hfl
        dsimp only
        have := b7 hw
        have h := ih s' b1 (by omega)
        cases hr : W2F.flushLoop c M F fuel s' with
        | ok s'' =>
          rw [hr] at h
          obtain ⟨c1, c2, c3, c4, c5, c6⟩ := h
          refine ⟨c1, c2, c3.trans b5, c4.trans b3, c5.trans b4, ?_⟩
          rw [W2.flushLoop, if_pos hw, b2]
          exact c6
        | err s'' e => rw [hr] at h; exact h
        | panic s'' => rw [hr] at h; exact h
      | err s' e => rw [hfc] at hfl; exact hfl
      | panic s' => rw [hfc] at hfl; exact absurd hfl id
    · rw [if_neg hw]
      exact ⟨hg, by omega, rfl, rfl, rfl, by rw [W2.flushLoop, if_neg hw]⟩

/-! ### `step` -/

theorem RunInvG.intro {c : Cfg} {I : σ → ByteArray → ByteArray → Prop} {w : WSt σ} {d : ByteArray}
    (hg : InvG c I w) (hwr : w.written < Gen.lzma_maxUncompressed) (hd : w.hist ++ w.look = d) :
    RunInvG c I w d := by
  obtain ⟨t, ht, hit⟩ := hg
  obtain ⟨g1, g2, g3, g4, g5⟩ := er_fields ht
  exact ⟨t, ht, hit, by rw [g5]; exact hwr, by rw [g1, g2]; exact hd⟩

theorem RunInvG.elim {c : Cfg} {I : σ → ByteArray → ByteArray → Prop} {w : WSt σ} {d : ByteArray}
    (h : RunInvG c I w d) :
    InvG c I w ∧ w.written < Gen.lzma_maxUncompressed ∧ w.hist ++ w.look = d ∧ w.closed = false := by
  obtain ⟨t, ht, hr⟩ := h
  obtain ⟨g1, g2, g3, g4, g5⟩ := er_fields ht
  refine ⟨⟨t, ht, hr.inv⟩, by rw [← g5]; exact hr.wr, by rw [← g1, ← g2]; exact hr.data, ?_⟩
  have := hr.inv.toInv.notClosed
  unfold WSt.closed at this ⊢
  rw [← g4]; exact this

theorem step_write_F (c : Cfg) (hc : CfgOk' c) (M : Matcher σ) (I : σ → ByteArray → ByteArray → Prop)
    (hI : MatcherInv' c M I) (F : Plan) (s : FSt σ) (d p : ByteArray) (h : RunInvG c I s.w d) (he : s.err = none) :
    (step c M F s (.write p)).2.panic = false ∧
    (((step c M F s (.write p)).2.err = none ∧ RunInvG c I (step c M F s (.write p)).1.w (d ++ p) ∧
        (step c M F s (.write p)).1.hit = s.hit ∧ (step c M F s (.write p)).1.err = none ∧
        W2.step c M s.w (.write p) =
          ((step c M F s (.write p)).1.w, ({ n := (step c M F s (.write p)).2.n, err := none } : W2.CallRes))) ∨
     ((step c M F s (.write p)).2.err = some .sink ∧ (step c M F s (.write p)).1.err = some .sink ∧
        (step c M F s (.write p)).1.hit = true)) := by
  obtain ⟨hg, hwr, hd, hcl⟩ := h.elim
  have hw := write_F c hc M I hI F p (2 * p.size + s.w.written + 2) s 0 hg hwr (Nat.zero_le _) (by omega)
  simp only [step, hcl, he, Bool.false_eq_true, if_false]
  obtain ⟨h1, h2⟩ := hw
  refine ⟨h1, ?_⟩
  rcases h2 with ⟨a1, a2, a3, a4, a5, a6, a7, a8⟩ | h2
  · refine Or.inl ⟨a1, RunInvG.intro a2 a3 ?_, a6, a7.trans he, ?_⟩
    · rw [a5, hd, ByteArray.extract_zero_size]
    · simp only [W2.step, hcl, Bool.false_eq_true, if_false, a8]
  · exact Or.inr h2

theorem step_flush_F (c : Cfg) (hc : CfgOk' c) (M : Matcher σ) (I : σ → ByteArray → ByteArray → Prop)
    (hI : MatcherInv' c M I) (F : Plan) (s : FSt σ) (d : ByteArray) (h : RunInvG c I s.w d) (he : s.err = none) :
    (step c M F s .flush).2.panic = false ∧
    (((step c M F s .flush).2.err = none ∧ RunInvG c I (step c M F s .flush).1.w d ∧
        (step c M F s .flush).1.hit = s.hit ∧ (step c M F s .flush).1.err = none ∧
        W2.step c M s.w .flush = ((step c M F s .flush).1.w, ({} : W2.CallRes)) ∧ (step c M F s .flush).2.n = 0) ∨
     ((step c M F s .flush).2.err = some .sink ∧ (step c M F s .flush).1.err = some .sink ∧
        (step c M F s .flush).1.hit = true)) := by
  obtain ⟨hg, hwr, hd, hcl⟩ := h.elim
  have hfl := flushLoop_F c hc M I hI F (s.w.written + 1) s hg (by omega)
  have hmax : 0 < Gen.lzma_maxUncompressed := by decide
  simp only [step, hcl, he, Bool.false_eq_true, if_false]
  cases hr : W2F.flushLoop c M F (s.w.written + 1) s with
  | ok s' =>
    rw [hr] at hfl
    obtain ⟨c1, c2, c3, c4, c5, c6⟩ := hfl
    refine ⟨rfl, Or.inl ⟨rfl, RunInvG.intro c1 (by show s'.w.written < _; omega) (c3.trans hd), c4, c5.trans he, ?_, rfl⟩⟩
    simp only [W2.step, hcl, Bool.false_eq_true, if_false, c6]
  | err s' e =>
    rw [hr] at hfl
    obtain ⟨e1, e2, e3⟩ := hfl
    subst e1
    exact ⟨rfl, Or.inr ⟨rfl, e2, e3⟩⟩
  | panic s' => rw [hr] at hfl; exact absurd hfl id

theorem step_close_F (c : Cfg) (hc : CfgOk' c) (M : Matcher σ) (I : σ → ByteArray → ByteArray → Prop)
    (hI : MatcherInv' c M I) (F : Plan) (s : FSt σ) (d : ByteArray) (h : RunInvG c I s.w d) (he : s.err = none) :
    (step c M F s .close).2.panic = false ∧
    (((step c M F s .close).2.err = none ∧ (step c M F s .close).1.w.closed = true ∧
        (step c M F s .close).1.hit = s.hit ∧ (step c M F s .close).1.err = none ∧
        W2.step c M s.w .close = ((step c M F s .close).1.w, ({} : W2.CallRes)) ∧ (step c M F s .close).2.n = 0) ∨
     ((step c M F s .close).2.err = some .sink ∧ (step c M F s .close).1.err = some .sink ∧
        (step c M F s .close).1.hit = true) ∨
     ((step c M F s .close).2.err = some .sink ∧ (step c M F s .close).1.hit = true ∧
        (step c M F s .close).1.err = none ∧ RunInvG c I (step c M F s .close).1.w d)) := by
  obtain ⟨hg, hwr, hd, hcl⟩ := h.elim
  have hfl := flushLoop_F c hc M I hI F (s.w.written + 1) s hg (by omega)
  have hmax : 0 < Gen.lzma_maxUncompressed := by decide
  simp only [step, hcl, he, Bool.false_eq_true, if_false]
  cases hr : W2F.flushLoop c M F (s.w.written + 1) s with
  | ok s' =>
    rw [hr] at hfl
    obtain ⟨c1, c2, c3, c4, c5, c6⟩ := hfl
    dsimp only
    obtain ⟨a1, a2, a3, a4, a5⟩ := sinkWrite_spec F s' (ByteArray.empty.push 0)
    rcases hsw : sinkWrite F s' (ByteArray.empty.push 0) with ⟨s'', b⟩
    rw [hsw] at a1 a2 a3 a4 a5
    cases b with
    | false =>
      refine ⟨rfl, Or.inr (Or.inr ⟨rfl, a5 rfl, (a2.trans c5).trans he, ?_⟩)⟩
      have hg'' : InvG c I s''.w := by
        obtain ⟨t, ht, hit⟩ := c1
        exact ⟨t, ht.trans a1.symm, hit⟩
      obtain ⟨f1, f2, f3, f4, f5⟩ := er_fields a1
      exact RunInvG.intro hg'' (by show s''.w.written < _; rw [f5]; omega) (by
        show s''.w.hist ++ s''.w.look = d
        rw [f1, f2, c3, hd])
    | true =>
      obtain ⟨b1, b2⟩ := a4 rfl
      refine ⟨rfl, Or.inl ⟨rfl, rfl, b1.trans c4, (a2.trans c5).trans he, ?_, rfl⟩⟩
      simp only [W2.step, hcl, Bool.false_eq_true, if_false, c6]
      have hs'' : s''.w = setOut s'.w (s'.w.out.push 0) := by
        have := er_eq a1
        rw [this, b2, ← push_eq_append]
      rw [hs'']
      rfl
  | err s' e =>
    rw [hr] at hfl
    obtain ⟨e1, e2, e3⟩ := hfl
    subst e1
    exact ⟨rfl, Or.inr (Or.inl ⟨rfl, e2, e3⟩)⟩
  | panic s' => rw [hr] at hfl; exact absurd hfl id

theorem init_runInvG (c : Cfg) (I : σ → ByteArray → ByteArray → Prop) (m0 : σ)
    (h0 : I m0 ByteArray.empty ByteArray.empty) : RunInvG c I (init c m0).w ByteArray.empty :=
  ⟨W2.init c m0, rfl, init_inv c I m0 h0⟩

end W2F
