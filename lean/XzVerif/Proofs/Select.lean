import XzVerif.Model.Select
import XzVerif.Proofs.Ring
import XzVerif.Proofs.Writer2
import XzVerif.Proofs.SelectLemmas

/-!
  Whatever candidate distances the search structures of the two match finders deliver, what `hashTable.NextOp` and
  `binTree.NextOp` propose is applicable: a literal is the next byte of the look-ahead; a match lies inside the
  dictionary window, inside the look-ahead, has a codable length and really repeats the bytes `dist` back.
  Stated at the level of the encoder dictionary's ring (Model/Ring.lean) related to the abstract byte sequence.
-/
namespace Sel
open Ring W2

/-- the proposal is applicable with respect to the abstract dictionary `a` (all bytes `W`, read position `r`):
    the list-level counterpart of `W2.GoOpOk` with `hist = W[0, r)`, `look = W[r, …)` -/
def OpOkAbs (a : Abs) (dc : Nat) (rep0 : Nat) : GoOp → Prop
  | .lit b => a.r < a.W.length ∧ b = (a.W[a.r]!).toNat
  | .mtch dist n =>
    1 ≤ dist ∧ dist ≤ min a.r dc ∧ n ≤ a.W.length - a.r ∧ n ≤ 273 ∧
    (2 ≤ n ∨ (n = 1 ∧ dist - 1 = rep0)) ∧
    ∀ k, k < n → a.W[a.r + k]! = a.W[a.r - dist + k]!

/-! ## helper lemmas -/

/-- what the finders make of the final loop state is applicable -/
theorem fin_ok {d : EDict} {a : Abs} {dc bs : Nat} (h : d.Rel a dc bs) (rep0 : Nat) (m : Nat × Nat)
    (hsz : ¬ (d.buf.peek 273).size = 0) (hm : Inv a dc rep0 (d.buf.peek 273) m) :
    OpOkAbs a dc rep0 (if m.2 = 0 then .lit ((d.buf.peek 273).get! 0).toNat else .mtch m.1 m.2) := by
  have hs := peek_size h 273
  split_ifs with h0
  · refine ⟨by omega, ?_⟩
    rw [peek_get h 273 0 (by omega)]; rfl
  · rcases hm with hm | ⟨i1, i2, i3, i4, i5⟩
    · exact absurd hm h0
    · refine ⟨i1, i2, by omega, by omega, i4, ?_⟩
      intro k hk
      rw [← peek_get h 273 k (by omega)]
      exact i5 k hk


theorem fin_res {a : Abs} {dc rep0 : Nat} {m : Nat × Nat} {x : Nat} {g : GoOp}
    (hr : (if m.2 = 0 then Res.op (.lit x) else Res.op (.mtch m.1 m.2)) = .op g)
    (hok : OpOkAbs a dc rep0 (if m.2 = 0 then .lit x else .mtch m.1 m.2)) : OpOkAbs a dc rep0 g := by
  split_ifs at hr hok <;> cases hr <;> exact hok


theorem fin_ne_panic (m : Nat × Nat) (x : Nat) :
    (if m.2 = 0 then Res.op (.lit x) else Res.op (.mtch m.1 m.2)) ≠ .panic := by
  split_ifs <;> exact Res.noConfusion


/-! ## statements to prove (do not change them) -/

/-- **HashTable4.** For every ring state representing `a`, every list of candidates (any length, any values, any
    order) and every rep0: if `NextOp` returns an operation (no index panic), it is applicable. -/
theorem nextOpHT_sound (d : EDict) (a : Abs) (dc bs : Nat) (h : d.Rel a dc bs) (cands : List Nat) (rep0 : Nat)
    (g : GoOp) (hr : nextOpHT d cands rep0 = .op g) : OpOkAbs a dc rep0 g := by
  unfold nextOpHT at hr
  simp only at hr
  split_ifs at hr with hsz
  split at hr
  · cases hr
  · rename_i dist n hl
    have hpos : ∀ x ∈ [1, 2, 3, 4, 5, 6, 7, 8] ++ cands.filter (fun x => decide (x > 8)), 1 ≤ x := by
      intro x hx
      rcases List.mem_append.mp hx with hx | hx
      · simp at hx; omega
      · have := (List.mem_filter.mp hx).2
        simp at this; omega
    have hinv := htLoop_inv h 273 rep0 _ hpos (0, 0) (dist, n) (Or.inl rfl) hl
    have := fin_ok h rep0 (dist, n) hsz hinv
    simp only at this
    split_ifs at hr this with h0 <;> cases hr <;> exact this

/-- **BinaryTree.** The same for `binTree.NextOp`, whatever the tree iterators deliver, as long as the
    distances are positive (`binTree.distance` returns `dist + wordLen − 1 ≥ 4`).  Positivity is needed: unlike
    `hashTable.NextOp` (whose list is 1…8 followed by the candidates > 8) nothing in `binTree.match` rejects a
    distance 0, for which the quick reject and `matchLen` compare the look-ahead with itself — see the check
    below. -/
theorem nextOpBT_sound (d : EDict) (a : Abs) (dc bs : Nat) (h : d.Rel a dc bs) (special : Bool) (ca cb : List Nat)
    (rep0 : Nat) (g : GoOp) (hca : ∀ x ∈ ca, 1 ≤ x) (hcb : ∀ x ∈ cb, 1 ≤ x)
    (hr : nextOpBT d special ca cb rep0 = .op g) : OpOkAbs a dc rep0 g := by
  have h321 : ∀ x ∈ [3, 2, 1], 1 ≤ x := by intro x hx; simp at hx; omega
  unfold nextOpBT at hr
  simp only at hr
  by_cases hsz : (d.buf.peek 273).size = 0
  · rw [if_pos hsz] at hr; cases hr
  rw [if_neg hsz] at hr
  split at hr
  · cases hr
  · rename_i m1 ck1 acc1 hb1
    have i1 : Inv a dc rep0 (d.buf.peek 273) m1 := btMatch_inv h 273 _ _ h321 (0, 0) 0 _ (Or.inl rfl) hb1
    cases acc1
    · simp only [Bool.false_eq_true, if_false] at hr
      cases special
      · simp only [Bool.false_eq_true, if_false] at hr
        split at hr
        · cases hr
        · rename_i m2 ck2 acc2 hb2
          have i2 : Inv a dc rep0 (d.buf.peek 273) m2 := btMatch_inv h 273 _ _ hca m1 0 _ i1 hb2
          cases acc2
          · simp only [Bool.false_eq_true, if_false] at hr
            split at hr
            · cases hr
            · rename_i m3 ck3 acc3 hb3
              have i3 : Inv a dc rep0 (d.buf.peek 273) m3 := btMatch_inv h 273 _ _ hcb m2 0 _ i2 hb3
              exact fin_res hr (fin_ok h rep0 m3 hsz i3)
          · simp only [if_true] at hr
            exact fin_res hr (fin_ok h rep0 m2 hsz i2)
      · simp only [if_true] at hr
        split at hr
        · cases hr
        · rename_i m2 ck2 acc2 hb2
          have i2 : Inv a dc rep0 (d.buf.peek 273) m2 := btMatch_inv h 273 _ _ hca m1 0 _ i1 hb2
          exact fin_res hr (fin_ok h rep0 m2 hsz i2)
    · simp only [if_true] at hr
      exact fin_res hr (fin_ok h rep0 m1 hsz i1)

/-! Counterexample to `nextOpBT_sound` without `hca` / `hcb` (evaluated, not kernel-reduced: `btMatch` is defined
    by well-founded recursion): the dictionary `(EDict.write (EDict.new 4 4) ⟨#[1, 2, 3]⟩).1` (array
    `#[1,2,3,0,0,0,0,0,0]`, front 3, rear 0, head 0, capacity 4) represents `⟨[1, 2, 3], 0⟩` by `new_rel` /
    `edict_write`, and a candidate distance 0 is proposed as the match `(0, 3)`, which violates `1 ≤ dist`. -/
#guard nextOpBT (EDict.write (EDict.new 4 4) ⟨#[1, 2, 3]⟩).1 false [0] [] 5 = .op (.mtch 0 3)
#guard nextOpBT (EDict.write (EDict.new 4 4) ⟨#[1, 2, 3]⟩).1 true [0] [] 5 = .op (.mtch 0 3)
#guard nextOpBT (EDict.write (EDict.new 4 4) ⟨#[1, 2, 3]⟩).1 false [] [0] 5 = .op (.mtch 0 3)

/-- **BinaryTree never hits the index panic**: its quick-reject byte index is wrapped at both ends. -/
theorem nextOpBT_no_panic (d : EDict) (a : Abs) (dc bs : Nat) (h : d.Rel a dc bs) (hbuf : a.r < a.W.length)
    (special : Bool) (ca cb : List Nat) (rep0 : Nat) : nextOpBT d special ca cb rep0 ≠ .panic := by
  have hs := peek_size h 273
  have hsz : ¬ (d.buf.peek 273).size = 0 := by omega
  unfold nextOpBT
  simp only
  rw [if_neg hsz]
  obtain ⟨⟨m1, ck1, acc1⟩, hb1, hl1⟩ := btMatch_ne_none h 273
    { rep0 := rep0, nAccept := 273, check := 32, stopShorter := false } [3, 2, 1] (0, 0) 0 (Nat.zero_le _)
  rw [hb1]
  simp only
  cases acc1
  · simp only [Bool.false_eq_true, if_false]
    cases special
    · simp only [Bool.false_eq_true, if_false]
      obtain ⟨⟨m2, ck2, acc2⟩, hb2, hl2⟩ := btMatch_ne_none h 273
        { rep0 := rep0, nAccept := 273, check := 32 - ck1, stopShorter := true } ca m1 0 hl1
      rw [hb2]
      simp only
      cases acc2
      · simp only [Bool.false_eq_true, if_false]
        obtain ⟨⟨m3, ck3, acc3⟩, hb3, hl3⟩ := btMatch_ne_none h 273
          { rep0 := rep0, nAccept := 273, check := 32 - ck1 - ck2, stopShorter := true } cb m2 0 hl2
        rw [hb3]
        exact fin_ne_panic _ _
      · simp only [if_true]
        exact fin_ne_panic _ _
    · simp only [if_true]
      obtain ⟨⟨m2, ck2, acc2⟩, hb2, hl2⟩ := btMatch_ne_none h 273
        { rep0 := rep0, nAccept := 273, check := 32 - ck1, stopShorter := false } ca m1 0 hl1
      rw [hb2]
      exact fin_ne_panic _ _
  · simp only [if_true]
    exact fin_ne_panic _ _

/-- **HashTable4 does not hit the index panic when the candidates come in ascending distance** (the short
    distances 1…8 first, then the hash chain from the most recent position backwards), because `matchLen` stops at
    the physical end of the array: a match found at distance `dm` has `rear − dm + n ≤ len`. -/
theorem nextOpHT_no_panic (d : EDict) (a : Abs) (dc bs : Nat) (h : d.Rel a dc bs) (hbuf : a.r < a.W.length)
    (cands : List Nat) (hasc : ((cands.filter (fun x => x > 8))).Pairwise (· < ·)) (rep0 : Nat) :
    nextOpHT d cands rep0 ≠ .panic := by
  have hs := peek_size h 273
  have hsz : ¬ (d.buf.peek 273).size = 0 := by omega
  have hrl : d.buf.rear < d.buf.len := by
    have := h.buf.rear_lt; have := h.buf.len_eq; omega
  have hpw : ([1, 2, 3, 4, 5, 6, 7, 8] ++ cands.filter (fun x => decide (x > 8))).Pairwise (· < ·) := by
    rw [List.pairwise_append]
    refine ⟨by decide, hasc, ?_⟩
    intro x hx y hy
    have := (List.mem_filter.mp hy).2
    simp at this hx
    omega
  have hne := htLoop_ne_none hrl (d.buf.peek 273) rep0 _ hpw (0, 0) (Or.inl rfl)
  unfold nextOpHT
  simp only
  rw [if_neg hsz]
  split
  · rename_i hb; exact absurd hb hne
  · split_ifs <;> exact Res.noConfusion

/-- bridge to the Writer2 theorems: an abstractly applicable proposal is `W2.GoOpOk` for the byte arrays the
    Writer2 model keeps (`hist` = everything behind the read position, `look` = the buffered bytes) -/
theorem opOkAbs_goOpOk (a : Abs) (c : W2.Cfg) (hist look : ByteArray) (s : Lzma.St) (g : GoOp)
    (hh : hist.data.toList = a.W.take a.r) (hl : look.data.toList = a.W.drop a.r) (hr : a.r ≤ a.W.length)
    (hok : OpOkAbs a c.dictCap s.r0 g) : W2.GoOpOk c hist look s g := by
  have hhs : hist.size = a.r := by rw [← length_toList, hh, List.length_take]; omega
  have hls : look.size = a.W.length - a.r := by rw [← length_toList, hl, List.length_drop]
  have hlg : ∀ k, look.get! k = a.W[a.r + k]! := by
    intro k; rw [← get!_toList, hl, getElem!_drop]
  cases g with
  | lit b =>
    obtain ⟨o1, o2⟩ := hok
    refine ⟨by omega, ?_⟩
    rw [hlg 0]; exact o2
  | mtch dist n =>
    obtain ⟨o1, o2, o3, o4, o5, o6⟩ := hok
    refine ⟨o1, by omega, by omega, o4, o5, ?_⟩
    intro i hi
    rw [hlg i, o6 i hi, ← get!_toList, ByteArray.data_append, Array.toList_append, hh, hl,
      List.take_append_drop, hhs]
    congr 1; omega

end Sel

#print axioms Sel.nextOpHT_sound
#print axioms Sel.nextOpBT_sound
#print axioms Sel.nextOpBT_no_panic
#print axioms Sel.nextOpHT_no_panic
#print axioms Sel.opOkAbs_goOpOk
