import XzVerif.Proofs.Writer2Inv

/-!
  `flushChunk`: closing the range coder, choosing the chunk form, emitting the chunk and moving to the next
  chunk state re-establishes the invariant with one more recorded chunk.
-/

set_option linter.unusedSimpArgs false
set_option linter.unusedVariables false

namespace W2
open Lzma Rc Lzma2 Spec

variable {σ : Type}

/-- the margin leaves room for at least one operation in a fresh range coder (true for every sensible value
    of the constant; the only place where its value is looked at) -/
theorem margin_small : Gen.lzma_opLenMargin + 5 ≤ Gen.lzma_maxCompressed := by decide

theorem H0_size (c : Cfg) (w : WSt σ) (h : w.start ≤ w.hist.size) : (H0 c w).out.size = w.start := by
  unfold H0
  dsimp only
  rw [ByteArray.size_extract]
  omega

/-- nothing compressed in the open chunk: the coder is fresh -/
theorem Inv.fresh {c : Cfg} {w : WSt σ} (hi : Inv c w) (h0 : w.compressed = 0) :
    w.curOps = #[] ∧ w.digits = 1 := by
  have hs := hi.start
  have hsz := finalH_size _ _ _ hi.ops
  have hsh := encodeOps_sh c.props w.snapS w.snapTbl (H0 c w) w.curOps.toList
  rw [hi.enc] at hsh
  rw [← hsh.2, H0_size c w hs] at hsz
  have hl : w.curOps.toList.length = 0 := by
    unfold WSt.compressed at h0
    have : (HH c w).out.size = w.hist.size := rfl
    dsimp only at hsz
    omega
  have hnil : w.curOps.toList = [] := List.length_eq_zero_iff.mp hl
  have henc := hi.enc
  rw [hnil] at henc
  unfold encodeOps at henc
  simp only [List.foldl_nil, EncSt.mk.injEq] at henc
  obtain ⟨_, _, he, hb, _⟩ := henc
  refine ⟨Array.toList_eq_nil_iff.mp hnil, ?_⟩
  unfold WSt.digits
  rw [← he, ← hb]
  rfl

/-- something compressed: operations recorded -/
theorem Inv.nonempty {c : Cfg} {w : WSt σ} (hi : Inv c w) (h0 : 0 < w.compressed) : w.curOps ≠ #[] := by
  intro hnil
  have henc := hi.enc
  rw [hnil] at henc
  unfold encodeOps at henc
  simp only [List.foldl_nil, EncSt.mk.injEq, Array.toList_empty] at henc
  obtain ⟨_, _, _, _, hh⟩ := henc
  have := congrArg (fun h : Hist => h.out.size) hh
  simp only [H0_size c w hi.start] at this
  have h2 : (HH c w).out.size = w.hist.size := rfl
  unfold WSt.compressed at h0
  omega

/-- the state after `encoder.Close` succeeded on `w` -/
def closeSt (w : WSt σ) : WSt σ :=
  { w with e := { sl5 w.e with out := [] }, body := (sl5 w.e).out.foldl (fun a x => a.push x.toUInt8) w.body }

def ClosePost (c : Cfg) (I : σ → ByteArray → ByteArray → Prop) (w : WSt σ) : Except Err (WSt σ) → Prop
  | .ok w1 => ∃ w', InvI c I w' ∧ Frame w w' ByteArray.empty ∧ 0 < w'.compressed ∧ w1 = closeSt w' ∧
      w'.body.size + w'.e.digits + 9 ≤ Gen.lzma_maxCompressed ∧
      (Gen.lzma_maxCompressed < w'.digits + 4 + Gen.lzma_opLenMargin ∨ w'.look.size = 0)
  | .error e => e = .limit ∧ ¬ 25 ≤ Gen.lzma_opLenMargin

theorem fin_spec (c : Cfg) (I : σ → ByteArray → ByteArray → Prop) (w w' : WSt σ) (hi : InvI c I w') (hf : Frame w w' ByteArray.empty) (hpos : 0 < w'.compressed)
    (hwhy : Gen.lzma_maxCompressed < w'.digits + 4 + Gen.lzma_opLenMargin ∨ w'.look.size = 0) :
    ClosePost c I w
      (match closeChk w'.body.size 5 w'.e with
       | none => .error .limit
       | some e' => .ok { w' with e := (flushOut e' w'.body).1, body := (flushOut e' w'.body).2 }) := by
  cases hcl : closeChk w'.body.size 5 w'.e with
  | none =>
    refine ⟨rfl, ?_⟩
    intro hm
    have := hi.lim hm
    rw [digits_eq w' hi.eout] at this
    rw [closeChk_ok _ _ this] at hcl
    exact absurd hcl (by simp)
  | some e' =>
    obtain ⟨rfl, hb⟩ := closeChk_some _ _ _ hi.erest.toInv hcl
    exact ⟨w', hi, hf, hpos, rfl, hb, hwhy⟩

theorem encClose_spec (c : Cfg) (hc : CfgOk' c) (M : Matcher σ) (I : σ → ByteArray → ByteArray → Prop)
    (hI : MatcherInv' c M I) (w : WSt σ)
    (hi : InvI c I w) (hw : 0 < w.written) : ClosePost c I w (encClose c M w) := by
  have hcs := compress_spec c hc M I hI true (w.look.size + 1) w hi (by omega)
  unfold encClose
  simp only []
  cases hr : compress c M true (w.look.size + 1) w with
  | ok w' =>
    rw [hr] at hcs
    obtain ⟨a1, a2, a3⟩ := hcs
    have hwr := a2.written hi.start
    have hpos : 0 < w'.compressed := by
      unfold thr at a3
      simp only [if_true] at a3
      rw [ByteArray.size_empty] at hwr
      unfold WSt.written at hwr hw
      omega
    exact fin_spec c I w w' a1 a2 hpos (Or.inr (by unfold thr at a3; simp only [if_true] at a3; omega))
  | limit w' =>
    rw [hr] at hcs
    obtain ⟨a1, a2, a3, a4⟩ := hcs
    have hpos : 0 < w'.compressed := by
      by_contra h0
      have := (a1.toInv.fresh (by omega)).2
      have := margin_small
      omega
    exact fin_spec c I w w' a1 a2 hpos (Or.inl a3)
  | broken w' => rw [hr] at hcs; exact ⟨rfl, hcs⟩
  | bad w' s => rw [hr] at hcs; exact absurd hcs id

/-! ### the next chunk -/

theorem EE_push (c : Cfg) (w w3 : WSt σ) (ck : Chunk) (h : w3.chunks = w.chunks.push ck) :
    EE c w3 = emitChunk (EE c w) ck := by
  unfold EE
  rw [h, Array.toList_push, List.foldl_append]
  rfl

theorem Inv.next (c : Cfg) (w' w3 : WSt σ) (hi : Inv c w') (ck : Chunk) (q q' : SeqState)
    (hq : ∀ strict, COk strict (e0 c.dictCap) .init w'.chunks.toList q)
    (hok : ∀ strict, ChunkOk strict (EE c w') q ck) (hseq : seqStep q ck.kind = some q')
    (hch : w3.chunks = w'.chunks.push ck) (hout : w3.out = w'.out ++ chunkBytes (EE c w') ck)
    (hst : StOk c w3 q') (hctype : w3.ctype = Model.defaultChunkType w3.cstate)
    (hhist : w3.hist = w'.hist) (hlook : w3.look = w'.look) (hstart : w3.start = w'.hist.size)
    (hs : w3.s = w3.snapS) (htbl : w3.tbl = w3.snapTbl) (he : w3.e = Enc.init)
    (hbody : w3.body = ByteArray.empty) (hops : w3.curOps = #[])
    (hEh : (emitChunk (EE c w') ck).h = HH c w')
    (hsnapok : w3.snapTbl.ok) (hr0 : w3.snapS.r0 + 1 ≤ max 1 (min w'.hist.size c.dictCap)) : Inv c w3 := by
  have hEE := EE_push c w' w3 ck hch
  have hH0 : H0 c w3 = HH c w' := by
    unfold H0 HH
    rw [hstart, hhist, ByteArray.extract_zero_size]
  have hHH : HH c w3 = HH c w' := by
    unfold HH; rw [hhist]
  refine ⟨⟨q', fun strict => ?_, hst⟩, ?_, hctype, ?_, ?_, ?_, ?_, ?_, ?_, hsnapok, ?_, ?_, ?_, ?_, ?_, ?_⟩
  · rw [hch, Array.toList_push]
    exact COk.snoc strict _ _ _ _ _ _ (hq strict) (hok strict) hseq
  · rw [hout, hi.out, hch, Array.toList_push, chunksBytes_snoc]
    rfl
  · rw [hEE, hEh, hH0]
  · rw [hops, hH0, hHH, hs, htbl, he, hbody]
    rfl
  · rw [hops]; exact OpsOk.nil _ _
  · rw [he]; rfl
  · rw [he]; exact init_rest
  · rw [htbl]; exact hsnapok
  · rw [hhist, hlook]; exact hi.space
  · rw [hstart, hhist]
  · have := hi.wr
    have := hi.start
    unfold WSt.written WSt.compressed at *
    rw [hstart, hhist, hlook]
    omega
  · rw [hs, hhist]; exact hr0
  · rw [hstart]; exact hr0
  · intro _
    unfold WSt.digits
    rw [he, hbody]
    decide

theorem raw_size (w' : WSt σ) (hs : w'.start ≤ w'.hist.size) :
    (w'.hist.extract w'.start w'.hist.size).size = w'.compressed := by
  rw [ByteArray.size_extract]
  unfold WSt.compressed
  omega

theorem raw_chunk (c : Cfg) (w' : WSt σ) (hi : Inv c w') (k : ChunkKind) (hk : k = .ud ∨ k = .u)
    (hud : k = .ud → w'.chunks = #[]) (q q' : SeqState) (hseq : seqStep q k = some q')
    (hpos : 0 < w'.compressed) (hle : w'.compressed ≤ 65536) (ck : Chunk)
    (hck : ck = { kind := k, usize := (w'.hist.extract w'.start w'.hist.size).size,
                  raw := w'.hist.extract w'.start w'.hist.size }) :
    (∀ strict, ChunkOk strict (EE c w') q ck) ∧
    chunkBytes (EE c w') ck = (ByteArray.empty.push (ctrlOf k).toUInt8 ++ be16 ((w'.compressed - 1) % 65536)) ++
      w'.hist.extract w'.start w'.hist.size ∧
    (emitChunk (EE c w') ck).h = HH c w' ∧ (emitChunk (EE c w') ck).s = (EE c w').s ∧
    (emitChunk (EE c w') ck).tbl = (EE c w').tbl ∧ (emitChunk (EE c w') ck).props = (EE c w').props := by
  have hrs := raw_size w' hi.start
  have hmod : (w'.compressed - 1) % 65536 = w'.compressed - 1 := Nat.mod_eq_of_lt (by omega)
  have hcat : w'.hist.extract 0 w'.start ++ w'.hist.extract w'.start w'.hist.size = w'.hist := by
    rw [ByteArray.extract_append_extract, Nat.min_eq_left (Nat.zero_le _), Nat.max_eq_right hi.start,
      ByteArray.extract_zero_size]
  have heh := hi.eh
  subst hck
  rcases hk with rfl | rfl
  · have hE : EE c w' = e0 c.dictCap := by unfold EE; rw [hud rfl]; rfl
    have hst : w'.start = 0 := by
      have := H0_size c w' hi.start
      rw [← heh, hE] at this
      exact this.symm
    refine ⟨fun strict => ⟨by rw [show ({ kind := ChunkKind.ud, usize := _, raw := _ } : Chunk).kind = .ud from rfl, hseq]; rfl,
      ?_⟩, ?_, ?_, rfl, rfl, rfl⟩
    · show RawOk _
      unfold RawOk
      dsimp only
      omega
    · simp only [chunkBytes, hrs, hmod]
    · simp only [emitChunk, if_true, Hist.reset]
      rw [heh]
      unfold H0 HH
      dsimp only
      rw [hcat, ByteArray.size_extract, hst]
      rfl
  · refine ⟨fun strict => ⟨by rw [show ({ kind := ChunkKind.u, usize := _, raw := _ } : Chunk).kind = .u from rfl, hseq]; rfl,
      ?_⟩, ?_, ?_, rfl, rfl, rfl⟩
    · show RawOk _
      unfold RawOk
      dsimp only
      omega
    · simp only [chunkBytes, hrs, hmod]
    · simp only [emitChunk, reduceCtorEq, if_false]
      rw [heh]
      unfold H0 HH
      dsimp only
      rw [hcat]

theorem closeSt_body_size (w' : WSt σ) (hinv : w'.e.Inv) (hout : w'.e.out = []) :
    (closeSt w').body.size = w'.body.size + w'.e.digits + 4 := by
  unfold closeSt
  dsimp only
  rw [foldl_push_size, sl5_out]
  have := (close_spec w'.e hinv (dig_of_out_nil _ hout)).2.1
  omega

theorem lz_chunk (c : Cfg) (hc : CfgOk' c) (w' : WSt σ) (hi : Inv c w') (k : ChunkKind) (pr : Option Props)
    (q q' : SeqState) (hseq : seqStep q k = some q') (hpos : 0 < w'.compressed)
    (hb : w'.body.size + w'.e.digits + 9 ≤ Gen.lzma_maxCompressed) (ck : Chunk)
    (hck : ck = { kind := k, usize := 0, props := pr, ops := w'.curOps })
    (hlz : isLz k)
    (hS : lzS (EE c w') k = w'.snapS) (hT : lzTbl (EE c w') k c.props = w'.snapTbl)
    (hH : lzH (EE c w') k = H0 c w') (hP : lzProps (EE c w') ck = c.props)
    (hprops : if k = .lrn ∨ k = .lrnd then pr = some c.props else pr = none ∧ (EE c w').props.isSome) :
    (∀ strict, ChunkOk strict (EE c w') q ck) ∧
    lzBody (EE c w') ck = (closeSt w').body ∧ (closeSt w').body.size + 5 ≤ 65536 ∧
    lzUsize (EE c w') ck = w'.compressed ∧
    emitChunk (EE c w') ck = { out := (EE c w').out ++ lzHdr (EE c w') ck ++ lzBody (EE c w') ck, h := HH c w',
                               props := some c.props, s := w'.s, tbl := w'.tbl } := by
  have hkind : ck.kind = k := by rw [hck]
  have hops : ck.ops = w'.curOps := by rw [hck]
  have hpr : ck.props = pr := by rw [hck]
  have hEnc : lzEnc (EE c w') ck = ⟨w'.s, w'.tbl, w'.e, w'.body, HH c w'⟩ := by
    unfold lzEnc
    rw [hP, hkind, hops, hS, hT, hH]
    exact hi.enc
  have hBody : lzBody (EE c w') ck = (closeSt w').body := by
    unfold lzBody
    rw [hEnc]
    rfl
  have hsz := closeSt_body_size w' hi.erest.toInv hi.eout
  have hsz5 : (closeSt w').body.size + 5 ≤ 65536 := by
    unfold Gen.lzma_maxCompressed at hb
    omega
  have hU : lzUsize (EE c w') ck = w'.compressed := by
    unfold lzUsize
    rw [hEnc, hkind, hH, H0_size c w' hi.start]
    rfl
  have hwr := hi.wr
  have hLz : ∀ strict, LzOk strict (EE c w') ck := by
    intro strict
    refine ⟨by rw [hops]; exact hi.nonempty hpos, ?_, ?_, ?_, ?_, ?_⟩
    · rw [hkind, hpr]
      by_cases hkk : k = .lrn ∨ k = .lrnd
      · rw [if_pos hkk] at hprops ⊢
        exact ⟨c.props, hprops, hc.1⟩
      · rw [if_neg hkk] at hprops ⊢
        exact hprops
    · rw [hkind, hops, hS, hH]; exact hi.ops
    · rw [hU]
      unfold WSt.written Gen.lzma_maxUncompressed at hwr
      omega
    · rw [hBody]; omega
    · intro _; rw [hP]; exact hc.2.1
  refine ⟨fun strict => ⟨by rw [hkind, hseq]; rfl, ?_⟩, hBody, hsz5, hU, ?_⟩
  · have := hLz strict
    rcases hlz with h | h | h | h <;> rw [h] at hkind <;> rw [hkind] <;> exact this
  · rw [emitChunk_lz _ _ (by rw [hkind]; exact hlz), hEnc, hP]

/-! ### `writeChunk` and the tail of `flushChunk` evaluated -/

theorem writeChunk_raw (c : Cfg) (w1 : WSt σ) (hpos : 0 < w1.compressed) (hs : w1.start ≤ w1.hist.size)
    (hcond : 3 + w1.compressed < headerLenOf w1.ctype + w1.body.size ∧ w1.compressed ≤ w1.lenE c) :
    writeChunk c w1 = .ok { w1 with
      ctype := Model.demote w1.ctype, s := w1.snapS, tbl := w1.snapTbl,
      out := w1.out ++ ((ByteArray.empty.push (hdrByte (Model.demote w1.ctype)).toUInt8) ++
        be16 ((w1.compressed - 1) % 65536)) ++ w1.hist.extract w1.start w1.hist.size,
      chunks := w1.chunks.push { kind := kindOf (Model.demote w1.ctype),
                                 usize := (w1.hist.extract w1.start w1.hist.size).size,
                                 raw := w1.hist.extract w1.start w1.hist.size } } := by
  have hst : w1.hist.size - min w1.compressed (w1.lenE c) = w1.start := by
    have := hcond.2
    unfold WSt.compressed at *
    omega
  unfold writeChunk
  simp only []
  rw [if_pos hcond]
  unfold writeRaw
  simp only []
  rw [if_neg (by omega), if_neg (by omega), hst]

theorem writeChunk_lz (c : Cfg) (w1 : WSt σ) (hpos : 0 < w1.compressed)
    (hcond : ¬ (3 + w1.compressed < headerLenOf w1.ctype + w1.body.size ∧ w1.compressed ≤ w1.lenE c)) :
    writeChunk c w1 = .ok { w1 with
      out := w1.out ++
        (if (decide (w1.ctype = Gen.lzma_cLRN) || decide (w1.ctype = Gen.lzma_cLRND)) = true then
          ((ByteArray.empty.push (hdrByte w1.ctype + ((w1.compressed - 1) / 65536) % 32).toUInt8) ++
            be16 ((w1.compressed - 1) % 65536) ++ be16 ((w1.body.size - 1) % 65536)).push (byteOfProps c.props).toUInt8
         else
          (ByteArray.empty.push (hdrByte w1.ctype + ((w1.compressed - 1) / 65536) % 32).toUInt8) ++
            be16 ((w1.compressed - 1) % 65536) ++ be16 ((w1.body.size - 1) % 65536)) ++ w1.body,
      chunks := w1.chunks.push
        { kind := kindOf w1.ctype, usize := 0,
          props := if (decide (w1.ctype = Gen.lzma_cLRN) || decide (w1.ctype = Gen.lzma_cLRND)) = true
            then some c.props else none,
          ops := w1.curOps } } := by
  unfold writeChunk
  simp only []
  rw [if_neg hcond]
  unfold writeLz
  simp only []
  rw [if_neg (by omega)]

theorem flushChunk_eq (c : Cfg) (M : Matcher σ) (w w1 w2 : WSt σ) (cs' : Nat) (hw : ¬ w.written = 0)
    (h1 : encClose c M w = .ok w1) (h2 : writeChunk c w1 = .ok w2)
    (h3 : Model.chunkNext w2.cstate w2.ctype = some cs') :
    flushChunk c M w = .ok { w2 with body := ByteArray.empty, e := Enc.init, start := w2.hist.size, cstate := cs',
                                     ctype := Model.defaultChunkType cs', snapS := w2.s, snapTbl := w2.tbl,
                                     curOps := #[] } := by
  unfold flushChunk
  rw [if_neg hw, h1]
  simp only [h2, h3]

theorem writeChunk_raw' (c : Cfg) (w1 : WSt σ) (M : Nat) (hct : w1.ctype = M) (hpos : 0 < w1.compressed)
    (hs : w1.start ≤ w1.hist.size)
    (hcond : 3 + w1.compressed < headerLenOf M + w1.body.size ∧ w1.compressed ≤ w1.lenE c) :
    writeChunk c w1 = .ok { w1 with
      ctype := Model.demote M, s := w1.snapS, tbl := w1.snapTbl,
      out := w1.out ++ ((ByteArray.empty.push (hdrByte (Model.demote M)).toUInt8) ++
        be16 ((w1.compressed - 1) % 65536)) ++ w1.hist.extract w1.start w1.hist.size,
      chunks := w1.chunks.push { kind := kindOf (Model.demote M),
                                 usize := (w1.hist.extract w1.start w1.hist.size).size,
                                 raw := w1.hist.extract w1.start w1.hist.size } } := by
  subst hct
  exact writeChunk_raw c w1 hpos hs hcond

theorem writeChunk_lz' (c : Cfg) (w1 : WSt σ) (M : Nat) (hct : w1.ctype = M) (hpos : 0 < w1.compressed)
    (hcond : ¬ (3 + w1.compressed < headerLenOf M + w1.body.size ∧ w1.compressed ≤ w1.lenE c)) :
    writeChunk c w1 = .ok { w1 with
      out := w1.out ++
        (if (decide (M = Gen.lzma_cLRN) || decide (M = Gen.lzma_cLRND)) = true then
          ((ByteArray.empty.push (hdrByte M + ((w1.compressed - 1) / 65536) % 32).toUInt8) ++
            be16 ((w1.compressed - 1) % 65536) ++ be16 ((w1.body.size - 1) % 65536)).push (byteOfProps c.props).toUInt8
         else
          (ByteArray.empty.push (hdrByte M + ((w1.compressed - 1) / 65536) % 32).toUInt8) ++
            be16 ((w1.compressed - 1) % 65536) ++ be16 ((w1.body.size - 1) % 65536)) ++ w1.body,
      chunks := w1.chunks.push
        { kind := kindOf M, usize := 0,
          props := if (decide (M = Gen.lzma_cLRN) || decide (M = Gen.lzma_cLRND)) = true
            then some c.props else none,
          ops := w1.curOps } } := by
  subst hct
  exact writeChunk_lz c w1 hpos hcond

/-! ### the two ways a chunk is recorded -/

theorem raw_step (c : Cfg) (w' w3 : WSt σ) (hi : Inv c w') (q q' : SeqState)
    (hq : ∀ strict, COk strict (e0 c.dictCap) .init w'.chunks.toList q)
    (k : ChunkKind) (hk : k = .ud ∨ k = .u) (hud : k = .ud → w'.chunks = #[])
    (hseq : seqStep q k = some q') (hpos : 0 < w'.compressed) (hle : w'.compressed ≤ 65536)
    (hch : w3.chunks = w'.chunks.push { kind := k, usize := (w'.hist.extract w'.start w'.hist.size).size,
                                        raw := w'.hist.extract w'.start w'.hist.size })
    (hout : w3.out = w'.out ++ (ByteArray.empty.push (ctrlOf k).toUInt8 ++ be16 ((w'.compressed - 1) % 65536)) ++
      w'.hist.extract w'.start w'.hist.size)
    (hctype : w3.ctype = Model.defaultChunkType w3.cstate)
    (hhist : w3.hist = w'.hist) (hlook : w3.look = w'.look) (hstart : w3.start = w'.hist.size)
    (hs : w3.s = w'.snapS) (htbl : w3.tbl = w'.snapTbl) (hsS : w3.snapS = w'.snapS) (hsT : w3.snapTbl = w'.snapTbl)
    (he : w3.e = Enc.init) (hbody : w3.body = ByteArray.empty) (hops : w3.curOps = #[])
    (hst : (w3.cstate = 82 ∧ q' = .run false true ∧ w'.snapS = {} ∧
              w'.snapTbl = initTable c.props.lc c.props.lp) ∨
           (w3.cstate = 85 ∧ q' = .run false false ∧ w'.snapS = (EE c w').s ∧ w'.snapTbl = (EE c w').tbl ∧
              (EE c w').props = some c.props)) :
    Inv c w3 := by
  obtain ⟨a1, a2, a3, a4, a5, a6⟩ := raw_chunk c w' hi k hk hud q q' hseq hpos hle _ rfl
  have hEE := EE_push c w' w3 _ hch
  apply Inv.next c w' w3 hi _ q q' hq a1 hseq hch
  · rw [hout, a2, ByteArray.append_assoc]
  · rcases hst with ⟨h1, h2, h3, h4⟩ | ⟨h1, h2, h3, h4, h5⟩
    · exact Or.inr (Or.inl ⟨h1, h2, hsS.trans h3, hsT.trans h4⟩)
    · refine Or.inr (Or.inr ⟨Or.inr h1, h2, ?_, ?_, ?_⟩)
      · rw [hEE, a4, hsS]; exact h3
      · rw [hEE, a5, hsT]; exact h4
      · rw [hEE, a6]; exact h5
  · exact hctype
  · exact hhist
  · exact hlook
  · exact hstart
  · exact hs.trans hsS.symm
  · exact htbl.trans hsT.symm
  · exact he
  · exact hbody
  · exact hops
  · exact a3
  · rw [hsT]; exact hi.snapok
  · rw [hsS]
    have := hi.r0s
    have := hi.start
    omega

theorem lz_step (c : Cfg) (hc : CfgOk' c) (w' w3 : WSt σ) (hi : Inv c w') (q q' : SeqState)
    (hq : ∀ strict, COk strict (e0 c.dictCap) .init w'.chunks.toList q)
    (k : ChunkKind) (pr : Option Props) (hseq : seqStep q k = some q') (hq' : q' = .run false false)
    (hpos : 0 < w'.compressed)
    (hb : w'.body.size + w'.e.digits + 9 ≤ Gen.lzma_maxCompressed)
    (hlz : isLz k)
    (hS : lzS (EE c w') k = w'.snapS) (hT : lzTbl (EE c w') k c.props = w'.snapTbl)
    (hH : lzH (EE c w') k = H0 c w')
    (hP : lzProps (EE c w') { kind := k, usize := 0, props := pr, ops := w'.curOps } = c.props)
    (hprops : if k = .lrn ∨ k = .lrnd then pr = some c.props else pr = none ∧ (EE c w').props.isSome)
    (hdr : ByteArray)
    (hhdr : hdr = match (generalizing := false) pr with
      | some p => ((ByteArray.empty.push (ctrlOf k + ((w'.compressed - 1) / 65536) % 32).toUInt8) ++
          be16 ((w'.compressed - 1) % 65536) ++ be16 (((closeSt w').body.size - 1) % 65536)).push (byteOfProps p).toUInt8
      | none => (ByteArray.empty.push (ctrlOf k + ((w'.compressed - 1) / 65536) % 32).toUInt8) ++
          be16 ((w'.compressed - 1) % 65536) ++ be16 (((closeSt w').body.size - 1) % 65536))
    (hch : w3.chunks = w'.chunks.push { kind := k, usize := 0, props := pr, ops := w'.curOps })
    (hout : w3.out = w'.out ++ hdr ++ (closeSt w').body)
    (hcs3 : w3.cstate = 76) (hctype : w3.ctype = Model.defaultChunkType w3.cstate)
    (hhist : w3.hist = w'.hist) (hlook : w3.look = w'.look) (hstart : w3.start = w'.hist.size)
    (hs : w3.s = w'.s) (htbl : w3.tbl = w'.tbl) (hsS : w3.snapS = w'.s) (hsT : w3.snapTbl = w'.tbl)
    (he : w3.e = Enc.init) (hbody : w3.body = ByteArray.empty) (hops : w3.curOps = #[]) :
    Inv c w3 := by
  obtain ⟨a1, a2, a3, a4, a5⟩ := lz_chunk c hc w' hi k pr q q' hseq hpos hb _ rfl hlz hS hT hH hP hprops
  have hEE := EE_push c w' w3 _ hch
  have hwr := hi.wr
  have hU : w'.compressed ≤ 2 ^ 21 := by
    unfold WSt.written Gen.lzma_maxUncompressed at hwr
    omega
  have hsz := closeSt_body_size w' hi.erest.toInv hi.eout
  have hlzHdr : lzHdr (EE c w') { kind := k, usize := 0, props := pr, ops := w'.curOps } = hdr := by
    unfold lzHdr
    rw [a4, a2, hhdr]
    have e1 : (w'.compressed - 1) / 65536 % 32 = (w'.compressed - 1) / 65536 := Nat.mod_eq_of_lt (by omega)
    have e2 : ((closeSt w').body.size - 1) % 65536 = (closeSt w').body.size - 1 := Nat.mod_eq_of_lt (by omega)
    rw [e1, e2]
    cases pr <;> rfl
  apply Inv.next c w' w3 hi _ q q' hq a1 hseq hch
  · rw [hout, chunkBytes_lz _ _ hlz, hlzHdr, a2, ByteArray.append_assoc]
  · refine Or.inr (Or.inr ⟨Or.inl hcs3, hq', ?_, ?_, ?_⟩)
    · rw [hEE, a5, hsS]
    · rw [hEE, a5, hsT]
    · rw [hEE, a5]
  · exact hctype
  · exact hhist
  · exact hlook
  · exact hstart
  · exact hs.trans hsS.symm
  · exact htbl.trans hsT.symm
  · exact he
  · exact hbody
  · exact hops
  · rw [a5]
  · rw [hsT]; exact hi.tblok
  · rw [hsS]; exact hi.r0

/-! ### `flushChunk` -/

def FlushPost (c : Cfg) (I : σ → ByteArray → ByteArray → Prop) (w : WSt σ) : Except Err (WSt σ) → Prop
  | .ok w'' => InvI c I w'' ∧ w''.hist ++ w''.look = w.hist ++ w.look ∧ w''.written ≤ w.written ∧
      (0 < w.written → w''.written < w.written)
  | .error e => e = .limit ∧ ¬ 25 ≤ Gen.lzma_opLenMargin

theorem Inv.start_zero {c : Cfg} {w : WSt σ} (hi : Inv c w) (h : w.chunks = #[]) : w.start = 0 := by
  have hE : EE c w = e0 c.dictCap := by unfold EE; rw [h]; rfl
  have := H0_size c w hi.start
  rw [← hi.eh, hE] at this
  exact this.symm

theorem post_of (c : Cfg) (I : σ → ByteArray → ByteArray → Prop) (w w' w3 : WSt σ)
    (hf : Frame w w' ByteArray.empty) (hs : w.start ≤ w.hist.size)
    (hpos : 0 < w'.compressed) (hi3 : Inv c w3) (hsync : I w'.m w'.hist w'.look) (hm : w3.m = w'.m)
    (hhist : w3.hist = w'.hist) (hlook : w3.look = w'.look) (hstart : w3.start = w'.hist.size) :
    FlushPost c I w (.ok w3) := by
  have hwr := hf.written hs
  rw [ByteArray.size_empty] at hwr
  have hd := hf.data
  rw [ByteArray.append_empty] at hd
  have h3 : w3.written + w'.compressed = w'.written := by
    unfold WSt.written WSt.compressed at *
    rw [hhist, hlook, hstart]
    omega
  exact ⟨⟨hi3, by rw [hm, hhist, hlook]; exact hsync⟩, by rw [hhist, hlook, hd], by omega, fun _ => by omega⟩

theorem flushChunk_spec (c : Cfg) (hc : CfgOk' c) (M : Matcher σ) (I : σ → ByteArray → ByteArray → Prop)
    (hI : MatcherInv' c M I) (w : WSt σ)
    (hi : InvI c I w) : FlushPost c I w (flushChunk c M w) := by
  by_cases hw : w.written = 0
  · unfold flushChunk
    rw [if_pos hw]
    exact ⟨hi, rfl, Nat.le_refl _, fun h => by omega⟩
  · have hcl := encClose_spec c hc M I hI w hi (by omega)
    cases h1 : encClose c M w with
    | error e =>
      rw [h1] at hcl
      unfold flushChunk
      rw [if_neg hw, h1]
      exact hcl
    | ok w1 =>
      rw [h1] at hcl
      obtain ⟨w', hi'I, hf, hpos, rfl, hb, _⟩ := hcl
      have hi' := hi'I.toInv
      obtain ⟨q, hq, hst⟩ := hi'.cks
      have hct := hi'.ctype
      have hsz := closeSt_body_size w' hi'.erest.toInv hi'.eout
      have hbb : (closeSt w').body.size ≤ 65531 := by
        unfold Gen.lzma_maxCompressed at hb; omega
      have hpos1 : 0 < (closeSt w').compressed := hpos
      have hs1 : (closeSt w').start ≤ (closeSt w').hist.size := hi'.start
      rcases hst with ⟨hcs, hch0, hq0, hS0, hT0⟩ | ⟨hcs, hq0, hS0, hT0⟩ | ⟨hcs, hq0, hS0, hT0, hP0⟩
      · -- state S
        have hct' : (closeSt w').ctype = 6 := by show w'.ctype = 6; rw [hct, hcs]; rfl
        subst hq0
        by_cases hcond : 3 + (closeSt w').compressed < headerLenOf 6 + (closeSt w').body.size ∧
            (closeSt w').compressed ≤ (closeSt w').lenE c
        · have h2 := writeChunk_raw' c (closeSt w') 6 hct' hpos1 hs1 hcond
          have hle : w'.compressed ≤ 65536 := by
            have h6 : headerLenOf 6 = 6 := rfl
            have := hcond.1
            rw [h6] at this
            have : (closeSt w').compressed = w'.compressed := rfl
            omega
          rw [flushChunk_eq c M w _ _ 82 hw h1 h2 (by show Model.chunkNext w'.cstate (Model.demote 6) = some 82; rw [hcs]; rfl)]
          refine post_of c I w w' _ hf hi.start hpos ?_ hi'I.sync rfl rfl rfl rfl
          exact raw_step c w' _ hi' _ (.run false true) hq .ud (Or.inl rfl) (fun _ => hch0) rfl hpos hle
            rfl rfl rfl rfl rfl rfl rfl rfl rfl rfl rfl rfl rfl (Or.inl ⟨rfl, rfl, hS0, hT0⟩)
        · have h2 := writeChunk_lz' c (closeSt w') 6 hct' hpos1 hcond
          rw [flushChunk_eq c M w _ _ 76 hw h1 h2 (by show Model.chunkNext w'.cstate w'.ctype = some 76; rw [hct, hcs]; rfl)]
          refine post_of c I w w' _ hf hi.start hpos ?_ hi'I.sync rfl rfl rfl rfl
          have hH : lzH (EE c w') .lrnd = H0 c w' := by
            unfold lzH
            rw [if_pos rfl, hi'.eh]
            unfold Hist.reset
            rw [H0_size c w' hi'.start, hi'.start_zero hch0]
            rfl
          exact lz_step c hc w' _ hi' _ (.run false false) hq .lrnd (some c.props) rfl rfl hpos hb
            (Or.inr (Or.inr (Or.inr rfl))) hS0.symm hT0.symm hH rfl (by simp) _ rfl rfl rfl rfl rfl rfl rfl rfl
            rfl rfl rfl rfl rfl rfl rfl
      · -- state R
        have hct' : (closeSt w').ctype = 5 := by show w'.ctype = 5; rw [hct, hcs]; rfl
        subst hq0
        by_cases hcond : 3 + (closeSt w').compressed < headerLenOf 5 + (closeSt w').body.size ∧
            (closeSt w').compressed ≤ (closeSt w').lenE c
        · have h2 := writeChunk_raw' c (closeSt w') 5 hct' hpos1 hs1 hcond
          have hle : w'.compressed ≤ 65536 := by
            have h6 : headerLenOf 5 = 6 := rfl
            have := hcond.1
            rw [h6] at this
            have : (closeSt w').compressed = w'.compressed := rfl
            omega
          rw [flushChunk_eq c M w _ _ 82 hw h1 h2 (by show Model.chunkNext w'.cstate (Model.demote 5) = some 82; rw [hcs]; rfl)]
          refine post_of c I w w' _ hf hi.start hpos ?_ hi'I.sync rfl rfl rfl rfl
          exact raw_step c w' _ hi' _ (.run false true) hq .u (Or.inr rfl) (fun h => by cases h) rfl hpos hle
            rfl rfl rfl rfl rfl rfl rfl rfl rfl rfl rfl rfl rfl (Or.inl ⟨rfl, rfl, hS0, hT0⟩)
        · have h2 := writeChunk_lz' c (closeSt w') 5 hct' hpos1 hcond
          rw [flushChunk_eq c M w _ _ 76 hw h1 h2 (by show Model.chunkNext w'.cstate w'.ctype = some 76; rw [hct, hcs]; rfl)]
          refine post_of c I w w' _ hf hi.start hpos ?_ hi'I.sync rfl rfl rfl rfl
          have hH : lzH (EE c w') .lrn = H0 c w' := by
            unfold lzH
            rw [if_neg (by simp), hi'.eh]
          exact lz_step c hc w' _ hi' _ (.run false false) hq .lrn (some c.props) rfl rfl hpos hb
            (Or.inr (Or.inr (Or.inl rfl))) hS0.symm hT0.symm hH rfl (by simp) _ rfl rfl rfl rfl rfl rfl rfl rfl
            rfl rfl rfl rfl rfl rfl rfl
      · -- states L and U
        subst hq0
        rcases hcs with hcs | hcs
        · have hct' : (closeSt w').ctype = 3 := by show w'.ctype = 3; rw [hct, hcs]; rfl
          by_cases hcond : 3 + (closeSt w').compressed < headerLenOf 3 + (closeSt w').body.size ∧
              (closeSt w').compressed ≤ (closeSt w').lenE c
          · have h2 := writeChunk_raw' c (closeSt w') 3 hct' hpos1 hs1 hcond
            have hle : w'.compressed ≤ 65536 := by
              have h6 : headerLenOf 3 = 5 := rfl
              have := hcond.1
              rw [h6] at this
              have : (closeSt w').compressed = w'.compressed := rfl
              omega
            rw [flushChunk_eq c M w _ _ 85 hw h1 h2 (by show Model.chunkNext w'.cstate (Model.demote 3) = some 85; rw [hcs]; rfl)]
            refine post_of c I w w' _ hf hi.start hpos ?_ hi'I.sync rfl rfl rfl rfl
            exact raw_step c w' _ hi' _ (.run false false) hq .u (Or.inr rfl) (fun h => by cases h) rfl hpos hle
              rfl rfl rfl rfl rfl rfl rfl rfl rfl rfl rfl rfl rfl (Or.inr ⟨rfl, rfl, hS0, hT0, hP0⟩)
          · have h2 := writeChunk_lz' c (closeSt w') 3 hct' hpos1 hcond
            rw [flushChunk_eq c M w _ _ 76 hw h1 h2 (by show Model.chunkNext w'.cstate w'.ctype = some 76; rw [hct, hcs]; rfl)]
            refine post_of c I w w' _ hf hi.start hpos ?_ hi'I.sync rfl rfl rfl rfl
            have hH : lzH (EE c w') .l = H0 c w' := by
              unfold lzH
              rw [if_neg (by simp), hi'.eh]
            have hS : lzS (EE c w') .l = w'.snapS := by
              unfold lzS
              rw [if_neg (by simp)]; exact hS0.symm
            have hT : lzTbl (EE c w') .l c.props = w'.snapTbl := by
              unfold lzTbl
              rw [if_neg (by simp)]; exact hT0.symm
            have hP : lzProps (EE c w') { kind := .l, usize := 0, props := none, ops := w'.curOps } = c.props := by
              unfold lzProps
              simp only [hP0, Option.getD_some]
            exact lz_step c hc w' _ hi' _ (.run false false) hq .l none rfl rfl hpos hb
              (Or.inl rfl) hS hT hH hP (by simp [hP0]) _ rfl rfl rfl rfl rfl rfl rfl rfl
              rfl rfl rfl rfl rfl rfl rfl
        · have hct' : (closeSt w').ctype = 3 := by show w'.ctype = 3; rw [hct, hcs]; rfl
          by_cases hcond : 3 + (closeSt w').compressed < headerLenOf 3 + (closeSt w').body.size ∧
              (closeSt w').compressed ≤ (closeSt w').lenE c
          · have h2 := writeChunk_raw' c (closeSt w') 3 hct' hpos1 hs1 hcond
            have hle : w'.compressed ≤ 65536 := by
              have h6 : headerLenOf 3 = 5 := rfl
              have := hcond.1
              rw [h6] at this
              have : (closeSt w').compressed = w'.compressed := rfl
              omega
            rw [flushChunk_eq c M w _ _ 85 hw h1 h2 (by show Model.chunkNext w'.cstate (Model.demote 3) = some 85; rw [hcs]; rfl)]
            refine post_of c I w w' _ hf hi.start hpos ?_ hi'I.sync rfl rfl rfl rfl
            exact raw_step c w' _ hi' _ (.run false false) hq .u (Or.inr rfl) (fun h => by cases h) rfl hpos hle
              rfl rfl rfl rfl rfl rfl rfl rfl rfl rfl rfl rfl rfl (Or.inr ⟨rfl, rfl, hS0, hT0, hP0⟩)
          · have h2 := writeChunk_lz' c (closeSt w') 3 hct' hpos1 hcond
            rw [flushChunk_eq c M w _ _ 76 hw h1 h2 (by show Model.chunkNext w'.cstate w'.ctype = some 76; rw [hct, hcs]; rfl)]
            refine post_of c I w w' _ hf hi.start hpos ?_ hi'I.sync rfl rfl rfl rfl
            have hH : lzH (EE c w') .l = H0 c w' := by
              unfold lzH
              rw [if_neg (by simp), hi'.eh]
            have hS : lzS (EE c w') .l = w'.snapS := by
              unfold lzS
              rw [if_neg (by simp)]; exact hS0.symm
            have hT : lzTbl (EE c w') .l c.props = w'.snapTbl := by
              unfold lzTbl
              rw [if_neg (by simp)]; exact hT0.symm
            have hP : lzProps (EE c w') { kind := .l, usize := 0, props := none, ops := w'.curOps } = c.props := by
              unfold lzProps
              simp only [hP0, Option.getD_some]
            exact lz_step c hc w' _ hi' _ (.run false false) hq .l none rfl rfl hpos hb
              (Or.inl rfl) hS hT hH hP (by simp [hP0]) _ rfl rfl rfl rfl rfl rfl rfl rfl
              rfl rfl rfl rfl rfl rfl rfl

end W2
