import XzVerif.Proofs.SizeBound
import XzVerif.Proofs.RunPotTab

/-!
  Amortised cost of the range coder inside a run of one byte value.

  The 44 probability contexts the steady-state operation `rep0, len 273` (coder state 11) asks have an
  *expected symbol* `sig a`.  `S t` is the product over these contexts of the weight `Wq q` of the probability
  `q / 2048` the table `t` currently gives to the UNEXPECTED symbol.  Then
  * a decision for the expected symbol in one of these contexts costs, amortised, the factor `KE / LE`
    (0.0222 bit: the probability floor 31/2048);
  * any other adaptive decision costs at most the factor 128 (7 bits), a direct bit the factor 3.
-/

namespace RunCost
open Lzma Rc

def KE : Nat := 2048 * 8192
def LE : Nat := 2017 * 8191

/-- the contexts of the steady-state operation: isMatch[11][ps], isRep[11], isRepG0[11], isRepG0Long[11][ps],
    the two choice bits of the rep length coder and the path of the value 255 in its high tree -/
def AL : List Nat :=
  [176, 177, 178, 179, 180, 181, 182, 183, 184, 185, 186, 187, 188, 189, 190, 191, 203, 215,
   416, 417, 418, 419, 420, 421, 422, 423, 424, 425, 426, 427, 428, 429, 430, 431, 946, 947,
   1205, 1207, 1211, 1219, 1235, 1267, 1331, 1459]

theorem AL_nodup : AL.Nodup := by decide
theorem AL_length : AL.length = 44 := rfl
theorem AL_lt : ∀ a ∈ AL, a < 1856 := by decide

/-- expected symbol of a context -/
def sig (a : Nat) : Bool := a != 215

/-- probability (× 2048) of the unexpected symbol -/
def qOf (a p : Nat) : Nat := if a = 215 then 2048 - p else p

def wOf (a p : Nat) : Nat := Wq (qOf a p)

/-- the potential of a probability table -/
def S (t : Tbl) : Nat := (AL.map (fun a => wOf a (t.get a))).prod

theorem qOf_ok (a p : Nat) (hp : POk p) : qOf a p < 2018 ∧ 31 ≤ qOf a p := by
  unfold qOf POk at *
  split <;> omega

theorem wOf_bounds (a p : Nat) (hp : POk p) : 2 ^ 40 ≤ wOf a p ∧ wOf a p ≤ 2 ^ 113 := by
  obtain ⟨h1, h2⟩ := qOf_ok a p hp
  exact (Wtab_ok _ h1 h2).2.2

theorem wOf_pos (a p : Nat) (hp : POk p) : 0 < wOf a p :=
  Nat.lt_of_lt_of_le (Nat.pow_pos (by omega)) (wOf_bounds a p hp).1

/-! ### products over a duplicate-free list -/

theorem prod_map_congr (l : List Nat) (f g : Nat → Nat) (h : ∀ x ∈ l, f x = g x) :
    (l.map f).prod = (l.map g).prod := by
  induction l with
  | nil => rfl
  | cons x l ih =>
    simp only [List.map_cons, List.prod_cons]
    rw [h x (List.mem_cons_self ..), ih (fun y hy => h y (List.mem_cons_of_mem _ hy))]

theorem prod_map_upd (l : List Nat) (f g : Nat → Nat) (a : Nat) (hnd : l.Nodup) (ha : a ∈ l)
    (h : ∀ x, x ≠ a → g x = f x) : (l.map g).prod * f a = (l.map f).prod * g a := by
  induction l with
  | nil => cases ha
  | cons x l ih =>
    obtain ⟨hx, hnd'⟩ := List.nodup_cons.mp hnd
    simp only [List.map_cons, List.prod_cons]
    by_cases hxa : x = a
    · subst hxa
      have : (l.map g).prod = (l.map f).prod :=
        prod_map_congr l g f (fun y hy => h y (fun e => hx (e ▸ hy)))
      rw [this]
      ring
    · have ha' : a ∈ l := by
        rcases List.mem_cons.mp ha with e | e
        · exact absurd e.symm hxa
        · exact e
      rw [h x hxa]
      calc f x * (l.map g).prod * f a = f x * ((l.map g).prod * f a) := by ring
        _ = f x * ((l.map f).prod * g a) := by rw [ih hnd' ha']
        _ = f x * (l.map f).prod * g a := by ring

theorem prod_ge (l : List Nat) (f : Nat → Nat) (m : Nat) (h : ∀ x ∈ l, m ≤ f x) :
    m ^ l.length ≤ (l.map f).prod := by
  induction l with
  | nil => simp
  | cons x l ih =>
    simp only [List.map_cons, List.prod_cons, List.length_cons]
    rw [Nat.pow_succ, Nat.mul_comm]
    exact Nat.mul_le_mul (h x (List.mem_cons_self ..)) (ih (fun y hy => h y (List.mem_cons_of_mem _ hy)))

theorem prod_le (l : List Nat) (f : Nat → Nat) (m : Nat) (h : ∀ x ∈ l, f x ≤ m) :
    (l.map f).prod ≤ m ^ l.length := by
  induction l with
  | nil => simp
  | cons x l ih =>
    simp only [List.map_cons, List.prod_cons, List.length_cons]
    rw [Nat.pow_succ, Nat.mul_comm (m ^ l.length)]
    exact Nat.mul_le_mul (h x (List.mem_cons_self ..)) (ih (fun y hy => h y (List.mem_cons_of_mem _ hy)))

/-! ### the potential of a table -/

theorem S_ge (t : Tbl) (ht : t.ok) : Smin ≤ S t := by
  unfold Smin
  have := prod_ge AL (fun a => wOf a (t.get a)) (2 ^ 40) (fun a _ => (wOf_bounds a _ (ht a)).1)
  rwa [AL_length] at this

theorem S_le (t : Tbl) (ht : t.ok) : S t ≤ Smin * 2 ^ SmaxB := by
  rw [← Wmax]
  have := prod_le AL (fun a => wOf a (t.get a)) (2 ^ 113) (fun a _ => (wOf_bounds a _ (ht a)).2)
  rwa [AL_length] at this

theorem S_pos (t : Tbl) (ht : t.ok) : 0 < S t :=
  Nat.lt_of_lt_of_le (Nat.pow_pos (Nat.pow_pos (by omega))) (S_ge t ht)

theorem S_init (lc lp : Nat) : S (initTable lc lp) ≤ Smin * 2 ^ SinitB := by
  have hget : ∀ a, (initTable lc lp).get a = 1024 := by
    intro a
    unfold initTable Tbl.get
    simp only [Array.getD_eq_getD_getElem?, Array.getElem?_replicate]
    split <;> rfl
  have h1 : S (initTable lc lp) = (AL.map (fun _ => Wq 1024)).prod := by
    unfold S
    apply prod_map_congr
    intro a _
    rw [hget]
    unfold wOf qOf
    split <;> rfl
  have h2 := prod_le AL (fun _ => Wq 1024) (Wq 1024) (fun _ _ => Nat.le_refl _)
  rw [AL_length] at h2
  rw [h1]
  have h3 := W1024
  generalize Smin * 2 ^ SinitB = X at *
  exact Nat.le_trans h2 h3

theorem S_upd_mem (t : Tbl) (a v : Nat) (ha : a ∈ AL) (hlt : a < t.size) :
    S (t.upd a v) * wOf a (t.get a) = S t * wOf a v := by
  unfold S
  have := prod_map_upd AL (fun x => wOf x (t.get x)) (fun x => wOf x ((t.upd a v).get x)) a AL_nodup ha
    (fun x hx => by
      show wOf x ((t.upd a v).get x) = wOf x (t.get x)
      rw [Tbl.get_upd, if_neg (fun h => hx h.1)])
  rw [this]
  show _ * wOf a ((t.upd a v).get a) = _
  rw [Tbl.get_upd, if_pos ⟨rfl, hlt⟩]

theorem S_upd_not (t : Tbl) (a v : Nat) (ha : a ∉ AL ∨ t.size ≤ a) : S (t.upd a v) = S t := by
  unfold S
  apply prod_map_congr
  intro x hx
  show wOf x ((t.upd a v).get x) = wOf x (t.get x)
  rw [Tbl.get_upd, if_neg]
  rintro ⟨rfl, h2⟩
  rcases ha with ha | ha
  · exact ha hx
  · omega

theorem upd_size (t : Tbl) (a v : Nat) : (t.upd a v).size = t.size := by
  unfold Tbl.upd
  simp

/-! ### one decision, before normalisation -/

theorem A1 (r : Nat) (hr : 2 ^ 24 ≤ r) : r * 8191 ≤ r / 2048 * (2048 * 8192) := by
  have : 16777216 ≤ r := hr
  omega

theorem A2 (r p : Nat) (hp : p ≤ 2048) : r * (2048 - p) ≤ (r - r / 2048 * p) * 2048 := by
  have h1 : r / 2048 * 2048 ≤ r := Nat.div_mul_le_self r 2048
  have h2 : r / 2048 * p * 2048 ≤ r * p := by
    calc r / 2048 * p * 2048 = r / 2048 * 2048 * p := by ring
      _ ≤ r * p := Nat.mul_le_mul_right _ h1
  have h3 : r * (2048 - p) = r * 2048 - r * p := by rw [Nat.mul_sub]
  have h4 : (r - r / 2048 * p) * 2048 = r * 2048 - r / 2048 * p * 2048 := by rw [Nat.sub_mul]
  rw [h3, h4]
  omega

theorem probNext_q_exp (a p : Nat) (hp : POk p) :
    qOf a (probNext p (sig a)) = qOf a p - qOf a p / 32 := by
  unfold qOf sig probNext POk at *
  by_cases ha : a = 215
  · subst ha
    simp only [bne_self_eq_false, Bool.false_eq_true, if_false, if_true]
    omega
  · have : (a != 215) = true := by simpa using ha
    simp only [this, if_true, if_neg ha]

theorem probNext_q_unexp (a p : Nat) (hp : POk p) :
    qOf a (probNext p (!sig a)) = qOf a p + (2048 - qOf a p) / 32 := by
  unfold qOf sig probNext POk at *
  by_cases ha : a = 215
  · subst ha
    simp only [bne_self_eq_false, Bool.not_false, if_true]
    omega
  · have : (a != 215) = true := by simpa using ha
    simp only [this, Bool.not_true, Bool.false_eq_true, if_false, if_neg ha]

/-- range left for a symbol of probability mass `q`... the expected symbol -/
theorem apply_range_exp (e : Enc) (he : e.Rest) (a p : Nat) (hp : POk p) :
    e.range * 8191 * (2048 - qOf a p) ≤ (e.apply ⟨some p, sig a⟩).range * (2048 * 8192) := by
  have hlo := he.rlo
  unfold Enc.apply qOf sig POk at *
  dsimp only
  by_cases ha : a = 215
  · subst ha
    simp only [bne_self_eq_false, Bool.false_eq_true, if_false, if_true]
    rw [show 2048 - (2048 - p) = p by omega]
    calc e.range * 8191 * p ≤ e.range / 2048 * (2048 * 8192) * p := Nat.mul_le_mul_right _ (A1 _ hlo)
      _ = e.range / 2048 * p * (2048 * 8192) := by ring
  · have : (a != 215) = true := by simpa using ha
    simp only [this, if_true, if_neg ha]
    have h2 := A2 e.range p (by omega)
    calc e.range * 8191 * (2048 - p) = e.range * (2048 - p) * 8191 := by ring
      _ ≤ (e.range - e.range / 2048 * p) * 2048 * 8191 := Nat.mul_le_mul_right _ h2
      _ ≤ (e.range - e.range / 2048 * p) * 2048 * 8192 := Nat.mul_le_mul_left _ (by omega)
      _ = _ := by ring

theorem apply_range_unexp (e : Enc) (he : e.Rest) (a p : Nat) (hp : POk p) :
    e.range * 8191 * qOf a p ≤ (e.apply ⟨some p, !sig a⟩).range * (2048 * 8192) := by
  have hlo := he.rlo
  unfold Enc.apply qOf sig POk at *
  dsimp only
  by_cases ha : a = 215
  · subst ha
    simp only [bne_self_eq_false, Bool.not_false, if_true]
    have h2 := A2 e.range p (by omega)
    calc e.range * 8191 * (2048 - p) = e.range * (2048 - p) * 8191 := by ring
      _ ≤ (e.range - e.range / 2048 * p) * 2048 * 8191 := Nat.mul_le_mul_right _ h2
      _ ≤ (e.range - e.range / 2048 * p) * 2048 * 8192 := Nat.mul_le_mul_left _ (by omega)
      _ = _ := by ring
  · have : (a != 215) = true := by simpa using ha
    simp only [this, Bool.not_true, Bool.false_eq_true, if_false, if_neg ha]
    calc e.range * 8191 * p ≤ e.range / 2048 * (2048 * 8192) * p := Nat.mul_le_mul_right _ (A1 _ hlo)
      _ = e.range / 2048 * p * (2048 * 8192) := by ring

/-- the expected symbol in one of the steady-state contexts: amortised factor `KE / LE` -/
theorem apply_exp (e : Enc) (he : e.Rest) (a p : Nat) (hp : POk p) :
    e.range * (wOf a (probNext p (sig a)) * LE) ≤ (e.apply ⟨some p, sig a⟩).range * (wOf a p * KE) := by
  obtain ⟨h1, h2⟩ := qOf_ok a p hp
  have hE := (Wtab_ok _ h1 h2).1
  have hr := apply_range_exp e he a p hp
  unfold wOf
  rw [probNext_q_exp a p hp]
  generalize qOf a p = q at *
  generalize (e.apply ⟨some p, sig a⟩).range = r' at *
  unfold cE at hE
  unfold KE LE
  calc e.range * (Wq (q - q / 32) * (2017 * 8191)) = (e.range * 8191) * (Wq (q - q / 32) * 2017) := by ring
    _ ≤ (e.range * 8191) * (Wq q * (2048 - q)) := Nat.mul_le_mul_left _ hE
    _ = (e.range * 8191 * (2048 - q)) * Wq q := by ring
    _ ≤ (r' * (2048 * 8192)) * Wq q := Nat.mul_le_mul_right _ hr
    _ = r' * (Wq q * (2048 * 8192)) := by ring

/-- any symbol in one of the steady-state contexts: amortised factor 128 -/
theorem apply_any (e : Enc) (he : e.Rest) (a p : Nat) (hp : POk p) (b : Bool) :
    e.range * wOf a (probNext p b) ≤ (e.apply ⟨some p, b⟩).range * (wOf a p * 128) := by
  by_cases hb : b = sig a
  · subst hb
    have h := apply_exp e he a p hp
    have hk : KE ≤ 128 * LE := by decide
    have : e.range * wOf a (probNext p (sig a)) * LE ≤ (e.apply ⟨some p, sig a⟩).range * (wOf a p * 128) * LE := by
      calc e.range * wOf a (probNext p (sig a)) * LE = e.range * (wOf a (probNext p (sig a)) * LE) := by ring
        _ ≤ (e.apply ⟨some p, sig a⟩).range * (wOf a p * KE) := h
        _ ≤ (e.apply ⟨some p, sig a⟩).range * (wOf a p * (128 * LE)) :=
            Nat.mul_le_mul_left _ (Nat.mul_le_mul_left _ hk)
        _ = _ := by ring
    exact Nat.le_of_mul_le_mul_right this (by decide)
  · have hb' : b = !sig a := by cases b <;> cases h : sig a <;> simp_all
    subst hb'
    obtain ⟨h1, h2⟩ := qOf_ok a p hp
    have hU := (Wtab_ok _ h1 h2).2.1
    have hr := apply_range_unexp e he a p hp
    unfold wOf
    rw [probNext_q_unexp a p hp]
    generalize qOf a p = q at *
    generalize (e.apply ⟨some p, !sig a⟩).range = r' at *
    unfold cU at hU
    have : e.range * Wq (q + (2048 - q) / 32) * (2048 * 8192) ≤ r' * (Wq q * 128) * (2048 * 8192) := by
      calc e.range * Wq (q + (2048 - q) / 32) * (2048 * 8192)
          = e.range * (Wq (q + (2048 - q) / 32) * (2048 * 8192)) := by ring
        _ ≤ e.range * (Wq q * (8191 * q * 128)) := Nat.mul_le_mul_left _ hU
        _ = (e.range * 8191 * q) * (Wq q * 128) := by ring
        _ ≤ (r' * (2048 * 8192)) * (Wq q * 128) := Nat.mul_le_mul_right _ hr
        _ = _ := by ring
    exact Nat.le_of_mul_le_mul_right this (by decide)

/-! ### one decision with the table -/

theorem step_pot_any (t : Tbl) (ht : t.ok) (e : Enc) (he : e.Rest) (a : Nat) (b : Bool) :
    e.range * S (t.upd a (pm.next (t.get a) b)) ≤ (e.apply ⟨some (t.get a), b⟩).range * (S t * 128) := by
  have hdn : (⟨some (t.get a), b⟩ : Decn).ok := by
    intro p hp; simp at hp; subst hp; exact ht a
  by_cases ha : a ∈ AL ∧ a < t.size
  · have hS := S_upd_mem t a (pm.next (t.get a) b) ha.1 ha.2
    have hA := apply_any e he a (t.get a) (ht a) b
    have hw := wOf_pos a (t.get a) (ht a)
    have hpm : pm.next (t.get a) b = probNext (t.get a) b := rfl
    rw [hpm] at hS ⊢
    generalize (e.apply ⟨some (t.get a), b⟩).range = r' at *
    apply Nat.le_of_mul_le_mul_right _ hw
    calc e.range * S (t.upd a (probNext (t.get a) b)) * wOf a (t.get a)
        = e.range * (S (t.upd a (probNext (t.get a) b)) * wOf a (t.get a)) := by ring
      _ = e.range * (S t * wOf a (probNext (t.get a) b)) := by rw [hS]
      _ = (e.range * wOf a (probNext (t.get a) b)) * S t := by ring
      _ ≤ (r' * (wOf a (t.get a) * 128)) * S t := Nat.mul_le_mul_right _ hA
      _ = r' * (S t * 128) * wOf a (t.get a) := by ring
  · rw [S_upd_not t a _ (by
      by_cases h1 : a ∈ AL
      · exact Or.inr (Nat.le_of_not_lt (fun h => ha ⟨h1, h⟩))
      · exact Or.inl h1)]
    have h67 := apply_grow_adaptive e he _ hdn (t.get a) rfl
    calc e.range * S t ≤ (e.apply ⟨some (t.get a), b⟩).range * 67 * S t := Nat.mul_le_mul_right _ h67
      _ ≤ (e.apply ⟨some (t.get a), b⟩).range * 128 * S t :=
          Nat.mul_le_mul_right _ (Nat.mul_le_mul_left _ (by omega))
      _ = _ := by ring

theorem step_pot_exp (t : Tbl) (ht : t.ok) (e : Enc) (he : e.Rest) (a : Nat) (ha : a ∈ AL) (hlt : a < t.size) :
    e.range * (S (t.upd a (pm.next (t.get a) (sig a))) * LE) ≤
      (e.apply ⟨some (t.get a), sig a⟩).range * (S t * KE) := by
  have hS := S_upd_mem t a (pm.next (t.get a) (sig a)) ha hlt
  have hA := apply_exp e he a (t.get a) (ht a)
  have hw := wOf_pos a (t.get a) (ht a)
  have hpm : pm.next (t.get a) (sig a) = probNext (t.get a) (sig a) := rfl
  rw [hpm] at hS ⊢
  generalize (e.apply ⟨some (t.get a), sig a⟩).range = r' at *
  apply Nat.le_of_mul_le_mul_right _ hw
  calc e.range * (S (t.upd a (probNext (t.get a) (sig a))) * LE) * wOf a (t.get a)
      = e.range * LE * (S (t.upd a (probNext (t.get a) (sig a))) * wOf a (t.get a)) := by ring
    _ = e.range * LE * (S t * wOf a (probNext (t.get a) (sig a))) := by rw [hS]
    _ = (e.range * (wOf a (probNext (t.get a) (sig a)) * LE)) * S t := by ring
    _ ≤ (r' * (wOf a (t.get a) * KE)) * S t := Nat.mul_le_mul_right _ hA
    _ = r' * (S t * KE) * wOf a (t.get a) := by ring

/-! ### paths -/

/-- chaining two steps of the form `r · s' · L · P' ≤ r' · s · K · P` -/
theorem chain2 (r0 r1 r2 s0 s1 s2 L1 L2 K1 K2 P0 P1 P2 : Nat) (hpos : 0 < r1 * s1 * P1)
    (h1 : r0 * s1 * L1 * P1 ≤ r1 * s0 * K1 * P0) (h2 : r1 * s2 * L2 * P2 ≤ r2 * s1 * K2 * P1) :
    r0 * s2 * (L1 * L2) * P2 ≤ r2 * s0 * (K1 * K2) * P0 := by
  apply Nat.le_of_mul_le_mul_right _ hpos
  calc r0 * s2 * (L1 * L2) * P2 * (r1 * s1 * P1) = (r0 * s1 * L1 * P1) * (r1 * s2 * L2 * P2) := by ring
    _ ≤ (r1 * s0 * K1 * P0) * (r2 * s1 * K2 * P1) := Nat.mul_le_mul h1 h2
    _ = r2 * s0 * (K1 * K2) * P0 * (r1 * s1 * P1) := by ring

/-- **any path**: 7 bits per adaptive decision, factor 3 per direct bit, potential included -/
theorem path_pot_any (π : Path) : ∀ (t : Tbl) (e : Enc), t.ok → e.Rest →
    e.range * S (tblAfter t π) * 1 * 256 ^ (e.encodeAll (toDecns pm t π)).digits ≤
      (e.encodeAll (toDecns pm t π)).range * S t * (128 ^ nA π * 3 ^ nD π) * 256 ^ e.digits := by
  induction π with
  | nil => intro t e _ _; simp [toDecns, Enc.encodeAll, tblAfter]
  | cons qb π ih =>
    intro t e ht he
    obtain ⟨q, bit⟩ := qb
    cases q with
    | adaptive a =>
      have hdn : (⟨some (t.get a), bit⟩ : Decn).ok := by
        intro p hp; simp at hp; subst hp; exact ht a
      have ht1 := t.upd_ok ht a _ (pm.ok _ bit (ht a))
      have he1 := step_rest e he _ hdn
      have h1 := step_grow e he _ hdn (S t * 128) (S (t.upd a (pm.next (t.get a) bit)))
        (step_pot_any t ht e he a bit)
      have h2 := ih _ _ ht1 he1
      have hpos : 0 < (e.step ⟨some (t.get a), bit⟩).range * S (t.upd a (pm.next (t.get a) bit)) *
          256 ^ (e.step ⟨some (t.get a), bit⟩).digits :=
        Nat.mul_pos (Nat.mul_pos (Nat.lt_of_lt_of_le (by decide) he1.rlo) (S_pos _ ht1)) (Nat.pow_pos (by omega))
      simp only [toDecns, tblAfter, nA_adaptive, nD_adaptive]
      have heq : ∀ l, e.encodeAll (⟨some (t.get a), bit⟩ :: l) = (e.step ⟨some (t.get a), bit⟩).encodeAll l :=
        fun _ => rfl
      rw [heq]
      have h1' : e.range * S (t.upd a (pm.next (t.get a) bit)) * 1 *
          256 ^ (e.step ⟨some (t.get a), bit⟩).digits ≤
          (e.step ⟨some (t.get a), bit⟩).range * S t * 128 * 256 ^ e.digits := by
        calc e.range * S (t.upd a (pm.next (t.get a) bit)) * 1 * 256 ^ (e.step ⟨some (t.get a), bit⟩).digits
            = e.range * S (t.upd a (pm.next (t.get a) bit)) * 256 ^ (e.step ⟨some (t.get a), bit⟩).digits := by ring
          _ ≤ (e.step ⟨some (t.get a), bit⟩).range * (S t * 128) * 256 ^ e.digits := h1
          _ = _ := by ring
      have := chain2 _ _ _ _ _ _ _ _ _ _ _ _ _ hpos h1' h2
      calc _ = e.range * S (tblAfter (t.upd a (pm.next (t.get a) bit)) π) * (1 * 1) *
            256 ^ ((e.step ⟨some (t.get a), bit⟩).encodeAll
              (toDecns pm (t.upd a (pm.next (t.get a) bit)) π)).digits := by ring
        _ ≤ _ := this
        _ = _ := by rw [Nat.pow_succ]; ring
    | direct =>
      have hdn : (⟨none, bit⟩ : Decn).ok := by intro p hp; simp at hp
      have he1 := step_rest e he _ hdn
      have h1 := step_grow_direct3 e he _ hdn rfl
      have h2 := ih t _ ht he1
      have hpos : 0 < (e.step ⟨none, bit⟩).range * S t * 256 ^ (e.step ⟨none, bit⟩).digits :=
        Nat.mul_pos (Nat.mul_pos (Nat.lt_of_lt_of_le (by decide) he1.rlo) (S_pos _ ht)) (Nat.pow_pos (by omega))
      simp only [toDecns, tblAfter, nA_direct, nD_direct]
      have heq : ∀ l, e.encodeAll (⟨none, bit⟩ :: l) = (e.step ⟨none, bit⟩).encodeAll l := fun _ => rfl
      rw [heq]
      have h1' : e.range * S t * 1 * 256 ^ (e.step ⟨none, bit⟩).digits ≤
          (e.step ⟨none, bit⟩).range * S t * 3 * 256 ^ e.digits := by
        calc e.range * S t * 1 * 256 ^ (e.step ⟨none, bit⟩).digits
            = (e.range * 256 ^ (e.step ⟨none, bit⟩).digits) * S t := by ring
          _ ≤ ((e.step ⟨none, bit⟩).range * 3 * 256 ^ e.digits) * S t := Nat.mul_le_mul_right _ h1
          _ = _ := by ring
      have := chain2 _ _ _ _ _ _ _ _ _ _ _ _ _ hpos h1' h2
      calc _ = e.range * S (tblAfter t π) * (1 * 1) *
            256 ^ ((e.step ⟨none, bit⟩).encodeAll (toDecns pm t π)).digits := by ring
        _ ≤ _ := this
        _ = _ := by rw [Nat.pow_succ]; ring

/-- every question of the path is a steady-state context answered with its expected symbol -/
def ExpPath (n : Nat) (π : Path) : Prop := ∀ x ∈ π, ∃ a, x = (.adaptive a, sig a) ∧ a ∈ AL ∧ a < n

/-- **a path of expected symbols**: factor `KE / LE` per decision -/
theorem path_pot_exp (π : Path) : ∀ (t : Tbl) (e : Enc), t.ok → e.Rest → ExpPath t.size π →
    e.range * S (tblAfter t π) * LE ^ π.length * 256 ^ (e.encodeAll (toDecns pm t π)).digits ≤
      (e.encodeAll (toDecns pm t π)).range * S t * KE ^ π.length * 256 ^ e.digits := by
  induction π with
  | nil => intro t e _ _ _; simp [toDecns, Enc.encodeAll, tblAfter]
  | cons qb π ih =>
    intro t e ht he hx
    obtain ⟨a, rfl, ha, hlt⟩ := hx qb (List.mem_cons_self ..)
    have hdn : (⟨some (t.get a), sig a⟩ : Decn).ok := by
      intro p hp; simp at hp; subst hp; exact ht a
    have ht1 := t.upd_ok ht a _ (pm.ok _ (sig a) (ht a))
    have he1 := step_rest e he _ hdn
    have h1 := step_grow e he _ hdn (S t * KE) (S (t.upd a (pm.next (t.get a) (sig a))) * LE)
      (step_pot_exp t ht e he a ha hlt)
    have h2 := ih _ _ ht1 he1 (by
      intro x hxm
      rw [upd_size]
      exact hx x (List.mem_cons_of_mem _ hxm))
    have hpos : 0 < (e.step ⟨some (t.get a), sig a⟩).range * S (t.upd a (pm.next (t.get a) (sig a))) *
        256 ^ (e.step ⟨some (t.get a), sig a⟩).digits :=
      Nat.mul_pos (Nat.mul_pos (Nat.lt_of_lt_of_le (by decide) he1.rlo) (S_pos _ ht1)) (Nat.pow_pos (by omega))
    simp only [toDecns, tblAfter, List.length_cons]
    have heq : ∀ l, e.encodeAll (⟨some (t.get a), sig a⟩ :: l) = (e.step ⟨some (t.get a), sig a⟩).encodeAll l :=
      fun _ => rfl
    rw [heq]
    have h1' : e.range * S (t.upd a (pm.next (t.get a) (sig a))) * LE *
        256 ^ (e.step ⟨some (t.get a), sig a⟩).digits ≤
        (e.step ⟨some (t.get a), sig a⟩).range * S t * KE * 256 ^ e.digits := by
      calc e.range * S (t.upd a (pm.next (t.get a) (sig a))) * LE * 256 ^ (e.step ⟨some (t.get a), sig a⟩).digits
          = e.range * (S (t.upd a (pm.next (t.get a) (sig a))) * LE) *
              256 ^ (e.step ⟨some (t.get a), sig a⟩).digits := by ring
        _ ≤ (e.step ⟨some (t.get a), sig a⟩).range * (S t * KE) * 256 ^ e.digits := h1
        _ = _ := by ring
    have := chain2 _ _ _ _ _ _ _ _ _ _ _ _ _ hpos h1' h2
    calc _ = e.range * S (tblAfter (t.upd a (pm.next (t.get a) (sig a))) π) * (LE * LE ^ π.length) *
          256 ^ ((e.step ⟨some (t.get a), sig a⟩).encodeAll
            (toDecns pm (t.upd a (pm.next (t.get a) (sig a))) π)).digits := by rw [Nat.pow_succ]; ring
      _ ≤ _ := this
      _ = _ := by rw [Nat.pow_succ]; ring

theorem tblAfter_size (π : Path) : ∀ t : Tbl, (tblAfter t π).size = t.size := by
  induction π with
  | nil => intro t; rfl
  | cons qb π ih =>
    intro t
    obtain ⟨q, b⟩ := qb
    cases q with
    | adaptive c => simp only [tblAfter]; rw [ih, upd_size]
    | direct => simp only [tblAfter]; exact ih t

end RunCost
