import XzVerif.Model.Lzma1
import XzVerif.Model.Xz
import XzVerif.Proofs.Rc
import XzVerif.Proofs.Segment
import XzVerif.Proofs.Lzma1RoundTrip
import XzVerif.Proofs.LazyDecLemmas
import XzVerif.Proofs.XzSound

/-!
  Helper lemmas for Proofs/Fuel.lean: the recursion bounds of the batch readers are never reached.
  * one decoder step appends at least one byte, so `size + 2` steps suffice for a segment of known size;
  * the range decoder consumes an input byte at least every 384 decoded bits (`range` shrinks by the factor
    2018/2048 at least with every bit and is renormalised below 2^24), every operation decodes at least one bit,
    so an input of `L` bytes admits at most `384 · (L + 1)` operations;
  * chunks, blocks, streams and padding words advance the read position.
-/

set_option linter.unusedSimpArgs false
set_option linter.unusedVariables false

namespace FuelL
open Lzma Rc

/-- the status the models use for an exhausted recursion bound -/
abbrev FE : Status := .err "fuel exhausted"

theorem initStatus_ne_FE (seg : List Nat) : initStatus seg ≠ FE := by
  unfold initStatus
  cases seg with
  | nil => simp
  | cons b0 t => simp only; split_ifs <;> simp

/-! ### one decoder step -/

theorem decStep_fail_status (p : Props) (d d' : DecSt) (st : Status) (h : decStep p d = .fail d' st) : st ≠ FE := by
  obtain ⟨s, tbl, rd, hh, ops⟩ := d
  simp only [decStep] at h
  cases hdt : decTree pm (opDec (mkCtx p s hh)) tbl rd with
  | none =>
    rw [hdt] at h
    simp only [StepRes.fail.injEq] at h
    rw [← h.2]; simp
  | some x =>
    obtain ⟨op, tbl', rd'⟩ := x
    rw [hdt] at h
    dsimp only at h
    cases op with
    | lit b => cases h
    | mtch len dd =>
      dsimp only at h
      split at h
      · cases h
      · unfold DecSt.copy at h
        split at h
        · cases h
        · simp only [StepRes.fail.injEq] at h; rw [← h.2]; simp
    | rep g len =>
      dsimp only at h
      unfold DecSt.copy at h
      split at h
      · cases h
      · simp only [StepRes.fail.injEq] at h; rw [← h.2]; simp
    | shortRep =>
      dsimp only at h
      unfold DecSt.copy at h
      split at h
      · cases h
      · simp only [StepRes.fail.injEq] at h; rw [← h.2]; simp

/-- a step that continues (or sees the marker) has decoded an operation with the range decoder -/
theorem decStep_tree (p : Props) (s : St) (tbl : Tbl) (rd : Dec) (hh : Hist) (ops : Array RawOp) (d' : DecSt)
    (h : decStep p ⟨s, tbl, rd, hh, ops⟩ = .cont d' ∨ decStep p ⟨s, tbl, rd, hh, ops⟩ = .marker d') :
    ∃ op, decTree pm (opDec (mkCtx p s hh)) tbl rd = some (op, d'.tbl, d'.rd) := by
  simp only [decStep] at h
  cases hdt : decTree pm (opDec (mkCtx p s hh)) tbl rd with
  | none => rw [hdt] at h; rcases h with h | h <;> cases h
  | some x =>
    obtain ⟨op, tbl', rd'⟩ := x
    rw [hdt] at h
    dsimp only at h
    refine ⟨op, ?_⟩
    cases op with
    | lit b =>
      rcases h with h | h
      · simp only [StepRes.cont.injEq] at h; rw [← h]
      · cases h
    | mtch len dd =>
      dsimp only at h
      split at h
      · rcases h with h | h
        · cases h
        · simp only [StepRes.marker.injEq] at h; rw [← h]
      · unfold DecSt.copy at h
        split at h
        · rcases h with h | h
          · simp only [StepRes.cont.injEq] at h; rw [← h]
          · cases h
        · rcases h with h | h <;> cases h
    | rep g len =>
      dsimp only at h
      unfold DecSt.copy at h
      split at h
      · rcases h with h | h
        · simp only [StepRes.cont.injEq] at h; rw [← h]
        · cases h
      · rcases h with h | h <;> cases h
    | shortRep =>
      dsimp only at h
      unfold DecSt.copy at h
      split at h
      · rcases h with h | h
        · simp only [StepRes.cont.injEq] at h; rw [← h]
        · cases h
      · rcases h with h | h <;> cases h

/-- a continuing step appends at least one byte -/
theorem decStep_cont_grow (p : Props) (d d' : DecSt) (h : decStep p d = .cont d') :
    d.h.out.size + 1 ≤ d'.h.out.size := by
  obtain ⟨s, tbl, rd, hh, ops⟩ := d
  simp only [decStep] at h
  cases hdt : decTree pm (opDec (mkCtx p s hh)) tbl rd with
  | none => rw [hdt] at h; cases h
  | some x =>
    obtain ⟨op, tbl', rd'⟩ := x
    have hlen := LazyDec.opDec_len _ _ _ _ _ _ hdt
    rw [hdt] at h
    dsimp only at h
    cases op with
    | lit b =>
      simp only [StepRes.cont.injEq] at h
      rw [← h]
      simp only [Hist.push, ByteArray.size_push]
      omega
    | mtch len dd =>
      dsimp only at h
      have hl : 2 ≤ len := hlen.1
      split at h
      · cases h
      · unfold DecSt.copy at h
        split at h
        · simp only [StepRes.cont.injEq] at h
          rw [← h]
          dsimp only
          rw [copyMatch_size]; omega
        · cases h
    | rep g len =>
      dsimp only at h
      have hl : 2 ≤ len := hlen.1
      unfold DecSt.copy at h
      split at h
      · simp only [StepRes.cont.injEq] at h
        rw [← h]
        dsimp only
        rw [copyMatch_size]; omega
      · cases h
    | shortRep =>
      dsimp only at h
      unfold DecSt.copy at h
      split at h
      · simp only [StepRes.cont.injEq] at h
        rw [← h]
        dsimp only
        rw [copyMatch_size]
      · cases h

/-! ### segments of known size -/

theorem finish_status (p : Props) (snm : Bool) (d : DecSt) : (decSegment.finish p snm d).status ≠ FE := by
  unfold decSegment.finish
  split
  · simp
  · split
    · simp
    · cases hs : decStep p d with
      | fail d' st => exact decStep_fail_status p d d' st hs
      | marker d' => simp
      | cont d' => simp

theorem decSegment_some_fuel (p : Props) (sz start : Nat) (snm : Bool) : ∀ (fuel : Nat) (d : DecSt),
    start ≤ d.h.out.size → sz - (d.h.out.size - start) + 1 ≤ fuel →
    (decSegment p (some sz) start snm fuel d).status ≠ FE := by
  intro fuel
  induction fuel with
  | zero => intro d _ h; omega
  | succ fuel ih =>
    intro d hst hf
    rw [decSegment]
    split
    · exact finish_status p snm d
    · rename_i hne
      cases hs : decStep p d with
      | fail d' st => exact decStep_fail_status p d d' st hs
      | marker d' =>
        dsimp only
        split
        · simp
        · split
          · simp
          · split <;> simp
      | cont d' =>
        dsimp only
        have hg := decStep_cont_grow p d d' hs
        split
        · split
          · simp
          · exact finish_status p snm d'
        · rename_i hlt
          have hne' : sz ≠ d.h.out.size - start := by
            intro h; apply hne; rw [h]
          exact ih d' (by omega) (by omega)

/-! ### the range decoder consumes input -/

/-- rest-point invariant of the range decoder (holds whatever the input is) -/
def RInv (d : Dec) : Prop := 2 ^ 24 ≤ d.range ∧ d.range < 2 ^ 32

/-- potential after `N` decoded bits (`C` is fixed by the start state): every bit costs the factor 2018/2048,
    every input byte pays back the factor 256 -/
def Pot (C : Nat) (d : Dec) (N : Nat) : Prop := d.range * (2048 ^ N * 256 ^ d.inp.length) ≤ C * 2018 ^ N

theorem pot_step (C N r r1 len r' len' : Nat) (h1 : r1 * 2048 ≤ r * 2018) (h2 : r' * 256 ^ len' = r1 * 256 ^ len)
    (hp : r * (2048 ^ N * 256 ^ len) ≤ C * 2018 ^ N) : r' * (2048 ^ (N + 1) * 256 ^ len') ≤ C * 2018 ^ (N + 1) := by
  calc r' * (2048 ^ (N + 1) * 256 ^ len') = (r' * 256 ^ len') * (2048 * 2048 ^ N) := by ring
    _ = (r1 * 256 ^ len) * (2048 * 2048 ^ N) := by rw [h2]
    _ = (r1 * 2048) * (2048 ^ N * 256 ^ len) := by ring
    _ ≤ (r * 2018) * (2048 ^ N * 256 ^ len) := Nat.mul_le_mul_right _ h1
    _ = 2018 * (r * (2048 ^ N * 256 ^ len)) := by ring
    _ ≤ 2018 * (C * 2018 ^ N) := Nat.mul_le_mul_left _ hp
    _ = C * 2018 ^ (N + 1) := by ring

theorem norm_spec (d d' : Dec) (h : d.norm = some d') (h16 : 2 ^ 16 ≤ d.range) (h32 : d.range < 2 ^ 32) :
    RInv d' ∧ d'.range * 256 ^ d'.inp.length = d.range * 256 ^ d.inp.length := by
  unfold Dec.norm at h
  split at h
  · rename_i hlt
    cases hi : d.inp with
    | nil => rw [hi] at h; cases h
    | cons x r =>
      rw [hi] at h
      simp only [Option.some.injEq] at h
      subst h
      refine ⟨⟨by dsimp only; omega, by dsimp only; omega⟩, ?_⟩
      dsimp only
      rw [List.length_cons, Nat.pow_succ]
      ring
  · simp only [Option.some.injEq] at h
    subst h
    exact ⟨⟨by omega, h32⟩, rfl⟩

/-- one decoded bit -/
theorem step_spec (d d' : Dec) (q : Option Nat) (b : Bool) (hr : RInv d) (hq : ∀ p, q = some p → POk p)
    (h : d.step q = some (b, d')) :
    RInv d' ∧ ∀ C N, Pot C d N → Pot C d' (N + 1) := by
  obtain ⟨h24, h32⟩ := hr
  have key : ∀ (dm : Dec), dm.inp = d.inp → dm.range * 2048 ≤ d.range * 2018 → 2 ^ 16 ≤ dm.range →
      dm.range < 2 ^ 32 → dm.norm.map (fun d' => (b, d')) = some (b, d') →
      RInv d' ∧ ∀ C N, Pot C d N → Pot C d' (N + 1) := by
    intro dm hi h1 h16 h32' hn
    cases hnm : dm.norm with
    | none => rw [hnm] at hn; cases hn
    | some d1 =>
      rw [hnm] at hn
      simp only [Option.map_some, Option.some.injEq, Prod.mk.injEq, true_and] at hn
      subst hn
      obtain ⟨a1, a2⟩ := norm_spec dm d1 hnm h16 h32'
      refine ⟨a1, fun C N hp => ?_⟩
      rw [hi] at a2
      exact pot_step C N d.range dm.range d.inp.length d1.range d1.inp.length h1 a2 hp
  unfold Dec.step at h
  cases q with
  | some p =>
    obtain ⟨p1, p2⟩ := hq p rfl
    dsimp only at h
    have hk : 2 ^ 13 ≤ d.range / 2048 := by omega
    have hm1 : d.range / 2048 * 31 ≤ d.range / 2048 * p := Nat.mul_le_mul_left _ p1
    have hm2 : d.range / 2048 * p ≤ d.range / 2048 * 2017 := Nat.mul_le_mul_left _ p2
    split at h
    · have hb : some (false, d') = some (b, d') → b = false := fun e => by
        simp only [Option.some.injEq, Prod.mk.injEq] at e; exact e.1.symm
      have : b = false := by
        cases hn : ({ d with range := d.range / 2048 * p } : Dec).norm with
        | none => rw [hn] at h; cases h
        | some d1 => rw [hn] at h; simp only [Option.map_some, Option.some.injEq, Prod.mk.injEq] at h; exact h.1.symm
      subst this
      exact key ({ d with range := d.range / 2048 * p } : Dec) rfl (by dsimp only; omega) (by dsimp only; omega) (by dsimp only; omega) h
    · have : b = true := by
        cases hn : ({ d with code := d.code - d.range / 2048 * p, range := d.range - d.range / 2048 * p } : Dec).norm with
        | none => rw [hn] at h; cases h
        | some d1 => rw [hn] at h; simp only [Option.map_some, Option.some.injEq, Prod.mk.injEq] at h; exact h.1.symm
      subst this
      exact key ({ d with code := d.code - d.range / 2048 * p, range := d.range - d.range / 2048 * p } : Dec) rfl (by dsimp only; omega) (by dsimp only; omega) (by dsimp only; omega) h
  | none =>
    dsimp only at h
    split at h
    · have : b = false := by
        cases hn : ({ d with range := d.range / 2 } : Dec).norm with
        | none => rw [hn] at h; cases h
        | some d1 => rw [hn] at h; simp only [Option.map_some, Option.some.injEq, Prod.mk.injEq] at h; exact h.1.symm
      subst this
      exact key ({ d with range := d.range / 2 } : Dec) rfl (by dsimp only; omega) (by dsimp only; omega) (by dsimp only; omega) h
    · have : b = true := by
        cases hn : ({ d with code := (2 ^ 32 + d.code - d.range / 2) % 2 ^ 32, range := d.range / 2 } : Dec).norm with
        | none => rw [hn] at h; cases h
        | some d1 => rw [hn] at h; simp only [Option.map_some, Option.some.injEq, Prod.mk.injEq] at h; exact h.1.symm
      subst this
      exact key ({ d with code := (2 ^ 32 + d.code - d.range / 2) % 2 ^ 32, range := d.range / 2 } : Dec) rfl (by dsimp only; omega) (by dsimp only; omega) (by dsimp only; omega) h

def isAsk {α : Type} : DecTree α → Prop
  | .ask _ _ => True
  | .ret _ => False

/-- a decision tree run by the range decoder: every question costs one bit -/
theorem decTree_spec {α : Type} (t : DecTree α) : ∀ (tbl : Tbl) (rd : Dec) (a : α) (tbl' : Tbl) (rd' : Dec),
    tbl.ok → RInv rd → decTree pm t tbl rd = some (a, tbl', rd') →
    tbl'.ok ∧ RInv rd' ∧ ∃ k, (isAsk t → 1 ≤ k) ∧ ∀ C N, Pot C rd N → Pot C rd' (N + k) := by
  induction t with
  | ret a0 =>
    intro tbl rd a tbl' rd' ht hr h
    simp only [decTree, Option.some.injEq, Prod.mk.injEq] at h
    obtain ⟨_, h2, h3⟩ := h
    subst h2 h3
    exact ⟨ht, hr, 0, fun h => absurd h id, fun C N hp => hp⟩
  | ask q kf ih =>
    intro tbl rd a tbl' rd' ht hr h
    cases q with
    | adaptive c =>
      simp only [decTree] at h
      cases hs : rd.step (some (tbl.get c)) with
      | none => rw [hs] at h; cases h
      | some x =>
        obtain ⟨b, d1⟩ := x
        rw [hs] at h
        dsimp only at h
        obtain ⟨r1, p1⟩ := step_spec rd d1 _ b hr (fun p hp => by cases hp; exact ht c) hs
        obtain ⟨a1, a2, k, _, a4⟩ := ih b _ _ _ _ _ (tbl.upd_ok ht c _ (pm.ok _ b (ht c))) r1 h
        refine ⟨a1, a2, k + 1, fun _ => by omega, fun C N hp => ?_⟩
        have := a4 C (N + 1) (p1 C N hp)
        rwa [Nat.add_assoc, Nat.add_comm 1 k] at this
    | direct =>
      simp only [decTree] at h
      cases hs : rd.step none with
      | none => rw [hs] at h; cases h
      | some x =>
        obtain ⟨b, d1⟩ := x
        rw [hs] at h
        dsimp only at h
        obtain ⟨r1, p1⟩ := step_spec rd d1 _ b hr (fun p hp => by cases hp) hs
        obtain ⟨a1, a2, k, _, a4⟩ := ih b _ _ _ _ _ ht r1 h
        refine ⟨a1, a2, k + 1, fun _ => by omega, fun C N hp => ?_⟩
        have := a4 C (N + 1) (p1 C N hp)
        rwa [Nat.add_assoc, Nat.add_comm 1 k] at this

/-- at most 384 bits per input byte -/
theorem pot_bound (L0 : Nat) (d : Dec) (N : Nat) (hr : RInv d) (hp : Pot (2 ^ 32 * 256 ^ L0) d N) :
    N ≤ 384 * (L0 + 1) := by
  apply Lzma1.decisions_le
  unfold Pot at hp
  have h1 : 2 ^ 24 * (2048 ^ N * 1) ≤ d.range * (2048 ^ N * 256 ^ d.inp.length) :=
    Nat.mul_le_mul hr.1 (Nat.mul_le_mul_left _ (Nat.pow_pos (by omega)))
  have h2 : 2 ^ 24 * 2048 ^ N ≤ 2 ^ 24 * (2018 ^ N * 256 ^ (L0 + 1)) := by
    calc 2 ^ 24 * 2048 ^ N = 2 ^ 24 * (2048 ^ N * 1) := by ring
      _ ≤ d.range * (2048 ^ N * 256 ^ d.inp.length) := h1
      _ ≤ 2 ^ 32 * 256 ^ L0 * 2018 ^ N := hp
      _ = 2 ^ 24 * (2018 ^ N * 256 ^ (L0 + 1)) := by ring
  exact Nat.le_of_mul_le_mul_left h2 (by omega)

/-! ### segments of unknown size -/

theorem decSegment_none_fuel (p : Props) (start : Nat) (snm : Bool) (L0 : Nat) : ∀ (fuel : Nat) (d : DecSt) (N : Nat),
    d.tbl.ok → RInv d.rd → Pot (2 ^ 32 * 256 ^ L0) d.rd N → 384 * (L0 + 1) - N + 1 ≤ fuel →
    (decSegment p none start snm fuel d).status ≠ FE := by
  intro fuel
  induction fuel with
  | zero => intro d N _ _ _ h; omega
  | succ fuel ih =>
    intro d N ht hr hp hf
    rw [decSegment]
    rw [if_neg (by simp)]
    obtain ⟨s, tbl, rd, hh, ops⟩ := d
    cases hs : decStep p ⟨s, tbl, rd, hh, ops⟩ with
    | fail d' st => exact decStep_fail_status p _ d' st hs
    | marker d' =>
      dsimp only
      split
      · simp
      · split <;> simp
    | cont d' =>
      dsimp only
      obtain ⟨op, hdt⟩ := decStep_tree p s tbl rd hh ops d' (Or.inl hs)
      obtain ⟨a1, a2, k, a3, a4⟩ := decTree_spec _ _ _ _ _ _ ht hr hdt
      have hk : 1 ≤ k := a3 (by unfold opDec; trivial)
      have hp' := a4 _ _ hp
      have hb := pot_bound L0 d'.rd (N + k) a2 hp'
      exact ih d' (N + k) a1 a2 hp' (by omega)

/-! ### the classic reader -/

theorem init_spec (l : List Nat) (rd : Dec) (h : Dec.init l = some rd) :
    rd.range = 2 ^ 32 - 1 ∧ rd.inp.length + 5 = l.length := by
  rcases l with _ | ⟨b0, _ | ⟨b1, _ | ⟨b2, _ | ⟨b3, _ | ⟨b4, r⟩⟩⟩⟩⟩ <;> simp only [Dec.init] at h <;> try cases h
  split at h
  · cases h
  · split at h
    · cases h
    · simp only [Option.some.injEq] at h
      subst h
      exact ⟨rfl, by simp⟩

theorem bytesToList_length (b : ByteArray) (lo hi : Nat) : (bytesToList b lo hi).length = hi - lo := by
  unfold bytesToList
  simp

theorem lzma1_read_fuel (cfgCap : Nat) (inp : ByteArray) : (Lzma1.read cfgCap inp).status ≠ FE := by
  unfold Lzma1.read
  split
  · dsimp only; split <;> simp
  · cases Lzma2.propsOfByte (Lzma2.get inp 0) with
    | none => simp
    | some p =>
      dsimp only
      split
      · simp
      · cases hi : Dec.init (bytesToList inp 13 inp.size) with
        | none => dsimp only; exact initStatus_ne_FE _
        | some rd =>
          dsimp only
          obtain ⟨h1, h2⟩ := init_spec _ _ hi
          rw [bytesToList_length] at h2
          split
          · rename_i hsz
            -- unknown size
            simp only [hsz, if_true]
            apply decSegment_none_fuel p 0 false rd.inp.length _ _ 0 (Lzma1.initTable_ok _ _)
            · show 2 ^ 24 ≤ rd.range ∧ rd.range < 2 ^ 32
              rw [h1]; omega
            · show rd.range * (2048 ^ 0 * 256 ^ rd.inp.length) ≤ 2 ^ 32 * 256 ^ rd.inp.length * 2018 ^ 0
              rw [h1]
              simp only [Nat.pow_zero, Nat.one_mul, Nat.mul_one]
              exact Nat.mul_le_mul_right _ (by omega)
            · omega
          · rename_i hsz
            simp only [hsz, if_false]
            exact decSegment_some_fuel p _ 0 false _ _ (Nat.zero_le _) (by
              show Lzma1.le inp 5 8 - (ByteArray.empty.size - 0) + 1 ≤ Lzma1.le inp 5 8 + 2
              have : ByteArray.empty.size = 0 := rfl
              omega)

/-! ### LZMA2 chunks -/

open Lzma2 in
def ChunkPost (r : RState) : ChunkRes → Prop
  | .next r' => r'.inp = r.inp ∧ r.pos + 1 ≤ r'.pos ∧ r.pos < r.inp.size
  | .done r' st => st ≠ FE ∧ r.pos ≤ r'.pos

/-- the part of `readChunk` after the range decoder was started -/
macro "lz_tail" : tactic => `(tactic| (
  split
  · exact ⟨initStatus_ne_FE _, by (try dsimp only); omega⟩
  · try dsimp only
    generalize hres : decSegment _ _ _ _ _ _ = res
    have hst : res.status ≠ FE := by
      rw [← hres]
      exact decSegment_some_fuel _ _ _ _ _ _ (Nat.le_refl _) (by (try dsimp only); omega)
    cases hs : res.status with
    | eof =>
      try dsimp only
      split
      · exact ⟨by simp, by (try dsimp only); omega⟩
      · exact ⟨rfl, by (try dsimp only); omega, by omega⟩
    | unexpectedEOF => exact ⟨by simp, by (try dsimp only); omega⟩
    | err w => exact ⟨by rw [← hs]; exact hst, by (try dsimp only); omega⟩))

open Lzma2 in
theorem readChunk_post (strict : Bool) (r : RState) : ChunkPost r (readChunk strict r) := by
  unfold readChunk
  simp only []
  by_cases h1 : r.pos ≥ r.inp.size
  · rw [if_pos h1]; exact ⟨by simp, Nat.le_refl _⟩
  rw [if_neg h1]
  generalize hk : Spec.ctrl (get r.inp r.pos) = ck
  cases ck with
  | none => exact ⟨by simp, Nat.le_refl _⟩
  | some kind =>
    cases kind
    case eos =>
      simp only [reduceCtorEq, or_self, if_false, ne_eq, not_true_eq_false, not_false_eq_true, or_true, true_or, if_true, or_false, false_or]
      by_cases h2 : r.pos + 1 > r.inp.size
      · rw [if_pos h2]; exact ⟨by simp, Nat.le_refl _⟩
      rw [if_neg h2]
      cases Spec.seqStep r.seq Spec.ChunkKind.eos with
      | none => exact ⟨by simp, Nat.le_refl _⟩
      | some seq' => exact ⟨by simp, by dsimp only; omega⟩
    case ud =>
      simp only [reduceCtorEq, or_self, if_false, ne_eq, not_true_eq_false, not_false_eq_true, or_true, true_or, if_true, or_false, false_or]
      by_cases h2 : r.pos + 3 > r.inp.size
      · rw [if_pos h2]; exact ⟨by simp, Nat.le_refl _⟩
      rw [if_neg h2]
      cases Spec.seqStep r.seq Spec.ChunkKind.ud with
      | none => exact ⟨by simp, Nat.le_refl _⟩
      | some seq' =>
        dsimp only
        split
        · exact ⟨by simp, by dsimp only; omega⟩
        · exact ⟨rfl, by dsimp only; omega, by omega⟩
    case u =>
      simp only [reduceCtorEq, or_self, if_false, ne_eq, not_true_eq_false, not_false_eq_true, or_true, true_or, if_true, or_false, false_or]
      by_cases h2 : r.pos + 3 > r.inp.size
      · rw [if_pos h2]; exact ⟨by simp, Nat.le_refl _⟩
      rw [if_neg h2]
      cases Spec.seqStep r.seq Spec.ChunkKind.u with
      | none => exact ⟨by simp, Nat.le_refl _⟩
      | some seq' =>
        dsimp only
        split
        · exact ⟨by simp, by dsimp only; omega⟩
        · exact ⟨rfl, by dsimp only; omega, by omega⟩
    case l =>
      simp only [reduceCtorEq, or_self, if_false, ne_eq, not_true_eq_false, not_false_eq_true, or_true, true_or, if_true, or_false, false_or]
      by_cases h2 : r.pos + 5 > r.inp.size
      · rw [if_pos h2]; exact ⟨by simp, Nat.le_refl _⟩
      rw [if_neg h2]
      cases Spec.seqStep r.seq Spec.ChunkKind.l with
      | none => exact ⟨by simp, Nat.le_refl _⟩
      | some seq' =>
        dsimp only
        cases r.props with
        | none => exact ⟨by simp, Nat.le_refl _⟩
        | some p =>
          dsimp only
          by_cases h3 : strict = true ∧ p.lc + p.lp > 4
          · rw [if_pos h3]; exact ⟨by simp, Nat.le_refl _⟩
          rw [if_neg h3]
          lz_tail
    case lr =>
      simp only [reduceCtorEq, or_self, if_false, ne_eq, not_true_eq_false, not_false_eq_true, or_true, true_or, if_true, or_false, false_or]
      by_cases h2 : r.pos + 5 > r.inp.size
      · rw [if_pos h2]; exact ⟨by simp, Nat.le_refl _⟩
      rw [if_neg h2]
      cases Spec.seqStep r.seq Spec.ChunkKind.lr with
      | none => exact ⟨by simp, Nat.le_refl _⟩
      | some seq' =>
        dsimp only
        cases r.props with
        | none => exact ⟨by simp, Nat.le_refl _⟩
        | some p =>
          dsimp only
          by_cases h3 : strict = true ∧ p.lc + p.lp > 4
          · rw [if_pos h3]; exact ⟨by simp, Nat.le_refl _⟩
          rw [if_neg h3]
          lz_tail
    case lrn =>
      simp only [reduceCtorEq, or_self, if_false, ne_eq, not_true_eq_false, not_false_eq_true, or_true, true_or, if_true, or_false, false_or]
      by_cases h2 : r.pos + 6 > r.inp.size
      · rw [if_pos h2]; exact ⟨by simp, Nat.le_refl _⟩
      rw [if_neg h2]
      cases propsOfByte (Lzma2.get r.inp (r.pos + 5)) with
      | none => exact ⟨by simp, Nat.le_refl _⟩
      | some p =>
        dsimp only
        cases Spec.seqStep r.seq Spec.ChunkKind.lrn with
        | none => exact ⟨by simp, Nat.le_refl _⟩
        | some seq' =>
          dsimp only
          by_cases h3 : strict = true ∧ p.lc + p.lp > 4
          · rw [if_pos h3]; exact ⟨by simp, Nat.le_refl _⟩
          rw [if_neg h3]
          lz_tail
    case lrnd =>
      simp only [reduceCtorEq, or_self, if_false, ne_eq, not_true_eq_false, not_false_eq_true, or_true, true_or, if_true, or_false, false_or]
      by_cases h2 : r.pos + 6 > r.inp.size
      · rw [if_pos h2]; exact ⟨by simp, Nat.le_refl _⟩
      rw [if_neg h2]
      cases propsOfByte (Lzma2.get r.inp (r.pos + 5)) with
      | none => exact ⟨by simp, Nat.le_refl _⟩
      | some p =>
        dsimp only
        cases Spec.seqStep r.seq Spec.ChunkKind.lrnd with
        | none => exact ⟨by simp, Nat.le_refl _⟩
        | some seq' =>
          dsimp only
          by_cases h3 : strict = true ∧ p.lc + p.lp > 4
          · rw [if_pos h3]; exact ⟨by simp, Nat.le_refl _⟩
          rw [if_neg h3]
          lz_tail

open Lzma2 in
theorem readAll_fuel (strict : Bool) : ∀ (fuel : Nat) (r : RState), r.inp.size - r.pos + 1 ≤ fuel →
    (readAll strict fuel r).2 ≠ FE ∧ r.pos ≤ (readAll strict fuel r).1.pos := by
  intro fuel
  induction fuel with
  | zero => intro r h; omega
  | succ fuel ih =>
    intro r hf
    rw [readAll]
    have hp := readChunk_post strict r
    cases hc : readChunk strict r with
    | done r' st => rw [hc] at hp; exact hp
    | next r' =>
      rw [hc] at hp
      obtain ⟨a1, a2, a3⟩ := hp
      dsimp only
      obtain ⟨b1, b2⟩ := ih r' (by rw [a1]; omega)
      exact ⟨b1, by omega⟩

theorem lzma2_decode_fuel (strict : Bool) (cap : Nat) (inp : ByteArray) (pos : Nat) (out : ByteArray) :
    (Lzma2.decode strict cap inp pos out).2 ≠ FE ∧ pos ≤ (Lzma2.decode strict cap inp pos out).1.pos := by
  unfold Lzma2.decode
  exact readAll_fuel strict _ _ (by dsimp only; omega)

/-! ### the xz container -/

open Xz

theorem recLoop_status (inp : ByteArray) :
    ∀ (n p : Nat) (acc : Array (Nat × Nat)) (p1 : Nat) (st : Status) (parsed : Array (Nat × Nat)),
      readTail.recLoop inp n p acc = some (p1, st, parsed) → st ≠ FE := by
  intro n
  induction n with
  | zero =>
    intro p acc p1 st parsed h
    rw [readTail.recLoop.eq_1] at h
    simp only [Option.some.injEq, Prod.mk.injEq] at h
    rw [← h.2.1]; simp
  | succ n ih =>
    intro p acc p1 st parsed h
    rw [readTail.recLoop.eq_2] at h
    generalize readUvarint inp p inp.size = u1 at h
    cases u1 with
    | eof _ => simp only [Option.some.injEq, Prod.mk.injEq] at h; rw [← h.2.1]; simp
    | overflow => simp only [Option.some.injEq, Prod.mk.injEq] at h; rw [← h.2.1]; simp
    | ok a ka =>
      simp only at h
      split at h
      · simp only [Option.some.injEq, Prod.mk.injEq] at h; rw [← h.2.1]; simp
      · generalize readUvarint inp (p + ka) inp.size = u2 at h
        cases u2 with
        | eof _ => simp only [Option.some.injEq, Prod.mk.injEq] at h; rw [← h.2.1]; simp
        | overflow => simp only [Option.some.injEq, Prod.mk.injEq] at h; rw [← h.2.1]; simp
        | ok b kb =>
          simp only at h
          split at h
          · simp only [Option.some.injEq, Prod.mk.injEq] at h; rw [← h.2.1]; simp
          · exact ih _ _ _ _ _ h

/-- a literal status is not the fuel status -/
macro "st_ne" : tactic => `(tactic| first | decide | (dsimp only; decide) | simp)

theorem ite2 {α : Type} {c : Prop} [Decidable c] {a b : α × Status} (ha : a.2 ≠ FE) (hb : b.2 ≠ FE) :
    (if c then a else b).2 ≠ FE := by
  split <;> assumption

theorem readTail_status (flags : Nat) (recs : Array (Nat × Nat)) (r : RdState) : (readTail flags recs r).2 ≠ FE := by
  unfold readTail
  dsimp only
  generalize readUvarint r.inp (r.pos + 1) r.inp.size = u
  cases u with
  | eof _ => st_ne
  | overflow => st_ne
  | ok cnt k =>
    dsimp only
    by_cases hc : cnt ≠ recs.size
    · rw [if_pos hc]; st_ne
    · rw [if_neg hc]
      generalize hl : readTail.recLoop r.inp cnt (r.pos + 1 + k) #[] = lr
      rcases lr with _ | ⟨p1, st, parsed⟩
      · st_ne
      · have hst := recLoop_status r.inp _ _ _ _ _ _ hl
        cases st with
        | eof =>
          dsimp only
          exact ite2 (by st_ne) (ite2 (by st_ne) (ite2 (by st_ne) (ite2 (by st_ne) (ite2 (by st_ne) (ite2 (by st_ne) (ite2 (by st_ne) (ite2 (by st_ne) (ite2 (by st_ne) (ite2 (by st_ne) (ite2 (by st_ne) (ite2 (by st_ne) (by st_ne))))))))))))
        | unexpectedEOF => st_ne
        | err w => exact hst

theorem readBlock_status (strict : Bool) (cfgCap flags : Nat) (hdr : BlockHeader) (r : RdState) :
    (readBlock strict cfgCap flags hdr r).2.1 ≠ FE ∧ r.pos ≤ (readBlock strict cfgCap flags hdr r).1.pos := by
  unfold readBlock
  simp only
  generalize hcap : (if strict = true then dictSize hdr.dictCode else max cfgCap (dictSize hdr.dictCode)) = cap
  obtain ⟨d1, d2⟩ := lzma2_decode_fuel strict cap r.inp r.pos r.out
  generalize Lzma2.decode strict cap r.inp r.pos r.out = dres at d1 d2
  obtain ⟨l2, dst⟩ := dres
  dsimp only at d1 d2 ⊢
  repeat' split
  all_goals
    refine ⟨?_, by dsimp only; omega⟩
    first
      | exact d1
      | (dsimp only; decide)

theorem readStreamHeader_facts (inp : ByteArray) (pos : Nat) :
    (readStreamHeader inp pos = .padding → pos + 4 ≤ inp.size) ∧
    (∀ fl, readStreamHeader inp pos = .ok fl → pos + 12 ≤ inp.size) ∧
    (∀ st, readStreamHeader inp pos = .fail st → st ≠ FE) := by
  unfold readStreamHeader
  repeat' split
  all_goals
    refine ⟨fun h => ?_, fun fl h => ?_, fun st h => ?_⟩
    all_goals first
      | omega
      | (simp only [SHdr.fail.injEq] at h; rw [← h]; decide)
      | cases h


theorem ite_ne {c : Prop} [Decidable c] {a b x : HdrRes} (ha : a ≠ x) (hb : b ≠ x) : (if c then a else b) ≠ x := by
  split <;> assumption

theorem readBlockHeader_ne (strict : Bool) (inp : ByteArray) (pos : Nat) :
    readBlockHeader strict inp pos ≠ .fail FE := by
  unfold readBlockHeader
  dsimp only
  refine ite_ne (by simp) (ite_ne (by simp) (ite_ne (by simp) (ite_ne (by simp) (ite_ne (by simp) ?_))))
  generalize (if Lzma2.get inp (pos + 1) &&& 0x40 ≠ 0 then _ else _ : Option (Option Nat × Nat)) = r1
  rcases r1 with _ | ⟨cs, p1⟩
  · simp
  dsimp only
  generalize (if Lzma2.get inp (pos + 1) &&& 0x80 ≠ 0 then _ else _ : Option (Option Nat × Nat)) = r2
  rcases r2 with _ | ⟨us, p2⟩
  · simp
  dsimp only
  refine ite_ne (by simp) ?_
  generalize readUvarint inp p2 _ = u3
  cases u3 with
  | ok id k =>
    dsimp only
    exact ite_ne (by simp) (ite_ne (by simp) (ite_ne (by simp) (ite_ne (by simp) (ite_ne (by simp)
      (ite_ne (by simp) (by simp))))))
  | eof _ => simp
  | overflow => simp

theorem readBlockHeader_status (strict : Bool) (inp : ByteArray) (pos : Nat) (st : Status)
    (h : readBlockHeader strict inp pos = .fail st) : st ≠ FE := by
  intro hst
  rw [hst] at h
  exact readBlockHeader_ne strict inp pos h

theorem readBlocks_fuel (strict : Bool) (cfgCap flags : Nat) :
    ∀ (fuel : Nat) (r : RdState) (bs : Array Block) (recs : Array (Nat × Nat)), r.inp.size - r.pos + 1 ≤ fuel →
      (readBlocks strict cfgCap flags fuel r bs recs).2.1 ≠ FE ∧
      ((readBlocks strict cfgCap flags fuel r bs recs).2.1 = .eof →
        r.pos ≤ (readBlocks strict cfgCap flags fuel r bs recs).1.pos) := by
  intro fuel
  induction fuel with
  | zero => intro r bs recs h; omega
  | succ fuel ih =>
    intro r bs recs hf
    rw [readBlocks]
    cases hh : readBlockHeader strict r.inp r.pos with
    | fail st => exact ⟨readBlockHeader_status strict _ _ st hh, fun _ => Nat.le_refl _⟩
    | index =>
      dsimp only
      refine ⟨readTail_status flags recs r, fun he => ?_⟩
      have := (readTail_sound flags recs r (readTail flags recs r).1 (by rw [← he])).2.2.2.1
      omega
    | ok hdr =>
      dsimp only
      obtain ⟨k1, k2, k3, _⟩ := readBlockHeader_ok_sound strict r.inp r.pos hdr hh
      have hlen : 8 ≤ hdr.len := by
        have : 1 ≤ Lzma2.get r.inp r.pos := Nat.pos_of_ne_zero k3
        rw [k2]; omega
      obtain ⟨b1, b2⟩ := readBlock_status strict cfgCap flags hdr { r with pos := r.pos + hdr.len }
      have b3 := (readBlock_inp strict cfgCap flags hdr { r with pos := r.pos + hdr.len }).1
      rcases hb : readBlock strict cfgCap flags hdr { r with pos := r.pos + hdr.len } with ⟨r1, st, blk⟩
      rw [hb] at b1 b2 b3
      dsimp only at b1 b2 b3 ⊢
      cases st with
      | eof =>
        cases blk with
        | none => exact ⟨by st_ne, fun h => by simp at h⟩
        | some b =>
          dsimp only
          obtain ⟨i1, i2⟩ := ih r1 (bs.push b) (recs.push (hdr.len + b.csize + (checkSize flags).getD 0, b.usize))
            (by rw [b3]; omega)
          exact ⟨i1, fun he => by have := i2 he; omega⟩
      | unexpectedEOF => exact ⟨by st_ne, fun h => by simp at h⟩
      | err w =>
        refine ⟨?_, fun h => by simp at h⟩
        simpa using b1

theorem readStreams_fuel (strict : Bool) (cfgCap : Nat) (single : Bool) :
    ∀ (fuel : Nat) (first : Bool) (r : RdState), (r.inp.size - r.pos) / 4 + 2 ≤ fuel →
      (readStreams strict cfgCap single fuel first r).2 ≠ FE := by
  intro fuel
  induction fuel with
  | zero => intro first r h; omega
  | succ fuel ih =>
    intro first r hf
    rw [readStreams]
    obtain ⟨f1, f2, f3⟩ := readStreamHeader_facts r.inp r.pos
    cases hsh : readStreamHeader r.inp r.pos with
    | cleanEnd => dsimp only; split <;> st_ne
    | padding =>
      dsimp only
      have := f1 hsh
      split
      · st_ne
      · apply ih
        cases r.streams.back? <;> (dsimp only; omega)
    | fail st => exact f3 st hsh
    | ok flags =>
      dsimp only
      have h12 := f2 flags hsh
      obtain ⟨b1, b2⟩ := readBlocks_fuel strict cfgCap flags (r.inp.size - r.pos + 2) { r with pos := r.pos + 12 } #[] #[]
        (by dsimp only; omega)
      have b3 := (readBlocks_inp strict cfgCap flags (r.inp.size - r.pos + 2) { r with pos := r.pos + 12 } #[] #[]).1
      rcases hb : readBlocks strict cfgCap flags (r.inp.size - r.pos + 2) { r with pos := r.pos + 12 } #[] #[]
        with ⟨r1, st, bs⟩
      rw [hb] at b1 b2 b3
      dsimp only at b1 b2 b3 ⊢
      by_cases hst : st ≠ .eof
      · rw [if_pos hst]; exact b1
      · rw [if_neg hst]
        have he : st = .eof := by
          cases st with
          | eof => rfl
          | unexpectedEOF => exact absurd (by simp) hst
          | err w => exact absurd (by simp) hst
        have hp := b2 he
        split
        · split <;> st_ne
        · apply ih
          dsimp only
          rw [b3]
          omega

theorem xz_read_fuel (strict : Bool) (cfgCap : Nat) (single : Bool) (inp : ByteArray) :
    (Xz.read strict cfgCap single inp).status ≠ FE := by
  unfold Xz.read
  dsimp only
  exact readStreams_fuel strict cfgCap single _ true _ (by dsimp only; omega)

end FuelL
