import XzVerif.Codec.Lzma
import XzVerif.Proofs.Rc
import Mathlib.Tactic.Ring
import Mathlib.Tactic.Linarith

/-! L2 of DESIGN.md: every LZMA bit-level decoder tree follows the path written by the
    corresponding encoder back to the encoded value. -/

namespace Lzma
open Rc

theorem follow_map {α β : Type} (t : DecTree α) (f : α → β) (π r : Path) (a : α)
    (h : t.follow π = some (a, r)) : (DecTree.map t f).follow π = some (f a, r) := by
  unfold DecTree.map
  rw [follow_bind t _ π r a h]
  rfl

theorem follow_ask {α : Type} (q : Ask) (k : Bool → DecTree α) (b : Bool) (π : Path) :
    (DecTree.ask q k).follow ((q, b) :: π) = (k b).follow π := by
  simp only [DecTree.follow, ↓reduceIte]

theorem mod_pow_succ_hi (v n : Nat) : v % 2 ^ (n + 1) = (v / 2 ^ n % 2) * 2 ^ n + v % 2 ^ n := by
  rw [Nat.pow_succ, Nat.mod_mul]; ring

theorem mod_pow_succ_lo (v n : Nat) : v % 2 ^ (n + 1) = v % 2 + 2 * (v / 2 % 2 ^ n) := by
  rw [Nat.pow_succ', Nat.mod_mul]

theorem bitOf_decide (x : Nat) : bitOf (decide (x % 2 = 1)) = x % 2 := by
  unfold bitOf
  by_cases h : x % 2 = 1
  · simp [h]
  · have : x % 2 = 0 := by omega
    simp [this]

theorem treeDec_treeEnc (base bits v : Nat) (h : v < 2 ^ bits) (rest : Path) :
    (treeDec base bits).follow (treeEnc base bits v ++ rest) = some (v, rest) := by
  unfold treeDec treeEnc
  rw [follow_map _ _ _ _ _ (tree_mirror base bits 1 v rest)]
  congr 2
  rw [Nat.mod_eq_of_lt h]
  omega

theorem rtree_mirror (base : Nat) : ∀ (n m j acc v : Nat) (rest : Path),
    (rtreeDecGo base n m j acc).follow (rtreeEncGo base n m v ++ rest)
      = some (acc + (v % 2 ^ n) * 2 ^ j, rest) := by
  intro n
  induction n with
  | zero => intro m j acc v rest; simp [rtreeDecGo, rtreeEncGo, DecTree.follow, Nat.mod_one]
  | succ n ih =>
    intro m j acc v rest
    simp only [rtreeDecGo, rtreeEncGo, List.cons_append, follow_ask]
    rw [ih, bitOf_decide, mod_pow_succ_lo]
    congr 2
    rw [Nat.pow_succ]; ring

theorem rtreeDec_rtreeEnc (base bits v : Nat) (h : v < 2 ^ bits) (rest : Path) :
    (rtreeDec base bits).follow (rtreeEnc base bits v ++ rest) = some (v, rest) := by
  unfold rtreeDec rtreeEnc
  rw [rtree_mirror, Nat.mod_eq_of_lt h]
  simp

theorem direct_mirror : ∀ (n acc v : Nat) (rest : Path),
    (directDecGo n acc).follow (directEnc n v ++ rest) = some (acc * 2 ^ n + v % 2 ^ n, rest) := by
  intro n
  induction n with
  | zero => intro acc v rest; simp [directDecGo, directEnc, DecTree.follow, Nat.mod_one]
  | succ n ih =>
    intro acc v rest
    simp only [directDecGo, directEnc, List.cons_append, follow_ask]
    rw [ih, bitOf_decide, mod_pow_succ_hi]
    congr 2
    rw [Nat.pow_succ]; ring

theorem directDec_directEnc (n v : Nat) (h : v < 2 ^ n) (rest : Path) :
    (directDec n).follow (directEnc n v ++ rest) = some (v, rest) := by
  unfold directDec
  rw [direct_mirror, Nat.mod_eq_of_lt h]
  simp

theorem litPlain_mirror (base : Nat) : ∀ (n sym s : Nat) (rest : Path),
    (litPlainDec base n sym).follow (litPlainEnc base n sym s ++ rest)
      = some (sym * 2 ^ n + s % 2 ^ n - 0x100, rest) := by
  intro n
  induction n with
  | zero => intro sym s rest; simp [litPlainDec, litPlainEnc, DecTree.follow, Nat.mod_one]
  | succ n ih =>
    intro sym s rest
    simp only [litPlainDec, litPlainEnc, List.cons_append, follow_ask]
    rw [ih, bitOf_decide, mod_pow_succ_hi]
    congr 3
    rw [Nat.pow_succ]; ring

theorem litPlainDec_litPlainEnc (base s : Nat) (h : s < 256) (rest : Path) :
    (litPlainDec base 8 1).follow (litPlainEnc base 8 1 s ++ rest) = some (s, rest) := by
  have e := litPlain_mirror base 8 1 s rest
  have e2 : 1 * 2 ^ 8 + s % 2 ^ 8 - 0x100 = s := by omega
  rw [e2] at e
  exact e

theorem litMatched_mirror (base mb : Nat) : ∀ (n sym s : Nat) (rest : Path),
    (litMatchedDec base n sym mb).follow (litMatchedEnc base n sym mb s ++ rest)
      = some (sym * 2 ^ n + s % 2 ^ n - 0x100, rest) := by
  intro n
  induction n with
  | zero => intro sym s rest; simp [litMatchedDec, litMatchedEnc, DecTree.follow, Nat.mod_one]
  | succ n ih =>
    intro sym s rest
    simp only [litMatchedDec, litMatchedEnc, List.cons_append, follow_ask]
    have e : (sym * 2 ^ (n + 1) + s % 2 ^ (n + 1))
        = ((2 * sym + s / 2 ^ n % 2) * 2 ^ n + s % 2 ^ n) := by
      rw [mod_pow_succ_hi, Nat.pow_succ]; ring
    split
    · rw [ih, bitOf_decide, e]
    · rw [litPlain_mirror, bitOf_decide, e]

theorem litMatchedDec_litMatchedEnc (base mb s : Nat) (h : s < 256) (rest : Path) :
    (litMatchedDec base 8 1 mb).follow (litMatchedEnc base 8 1 mb s ++ rest) = some (s, rest) := by
  have e := litMatched_mirror base mb 8 1 s rest
  have e2 : 1 * 2 ^ 8 + s % 2 ^ 8 - 0x100 = s := by omega
  rw [e2] at e
  exact e

theorem lenDec_lenEnc (L ps l : Nat) (h : l < 272) (rest : Path) :
    (lenDec L ps).follow (lenEnc L ps l ++ rest) = some (l, rest) := by
  unfold lenDec lenEnc
  by_cases h8 : l < 8
  · rw [if_pos h8]
    simp only [List.cons_append, follow_ask, Bool.not_false, ↓reduceIte]
    exact treeDec_treeEnc _ 3 l (by omega) rest
  · rw [if_neg h8]
    by_cases h16 : l < 16
    · rw [if_pos h16]
      simp only [List.cons_append, follow_ask, Bool.not_false, Bool.not_true, Bool.false_eq_true,
        ↓reduceIte]
      rw [follow_map _ _ _ _ _ (treeDec_treeEnc _ 3 (l - 8) (by omega) rest)]
      congr 2
      omega
    · rw [if_neg h16]
      simp only [List.cons_append, follow_ask, Bool.not_true, Bool.false_eq_true, ↓reduceIte]
      rw [follow_map _ _ _ _ _ (treeDec_treeEnc _ 8 (l - 16) (by omega) rest)]
      congr 2
      omega

/-! ### distance codec -/

theorem posSlot_spec (dist : Nat) (h4 : 4 ≤ dist) (h : dist < 2 ^ 32) :
    ∃ k, 2 ≤ k ∧ k ≤ 31 ∧ posSlot dist = 2 * k + (dist / 2 ^ (k - 1)) % 2 ∧
      2 ^ k ≤ dist ∧ dist < 2 ^ (k + 1) := by
  have hne : dist ≠ 0 := by omega
  refine ⟨Nat.log2 dist, ?_, ?_, ?_, Nat.log2_self_le hne, Nat.lt_log2_self⟩
  · by_contra hlt
    have : Nat.log2 dist < 2 := by omega
    rw [Nat.log2_lt hne] at this
    omega
  · have : Nat.log2 dist < 32 := by rw [Nat.log2_lt hne]; exact h
    omega
  · have hk : 2 ≤ Nat.log2 dist := by
      by_contra hlt
      have : Nat.log2 dist < 2 := by omega
      rw [Nat.log2_lt hne] at this
      omega
    unfold posSlot log2
    rw [if_neg (by omega)]
    simp only
    have : Nat.log2 dist - 1 + 1 = Nat.log2 dist := by omega
    rw [this]

/-- with `P = 2^(k-1)` and `2P ≤ dist < 4P`, the slot parity and footer reassemble `dist` -/
theorem dist_split (dist P : Nat) (hlo : 2 * P ≤ dist) (hhi : dist < 4 * P) :
    (2 + (dist / P) % 2) * P + dist % P = dist := by
  have hP : 0 < P := by omega
  have h2 : 2 ≤ dist / P := by
    rw [Nat.le_div_iff_mul_le hP]; exact hlo
  have h3 : dist / P < 4 := by
    rw [Nat.div_lt_iff_lt_mul hP]; exact hhi
  have hq : 2 + (dist / P) % 2 = dist / P := by omega
  rw [hq]
  have := Nat.div_add_mod dist P
  rw [Nat.mul_comm] at this
  exact this

theorem distDec_prefix (l slot : Nat) (hs : slot < 2 ^ 6) (π : Path) :
    (distDec l).follow (treeEnc (aDist + lenState l * 64) 6 slot ++ π) =
    (if slot < 4 then DecTree.ret slot
     else if slot < 14 then
       DecTree.map (rtreeDec (aDist + 256 + posModelOff slot) (slot / 2 - 1))
         ((2 + slot % 2) * 2 ^ (slot / 2 - 1) + ·)
     else
       (directDec (slot / 2 - 1 - 4)).bind (fun u =>
         DecTree.map (rtreeDec aAlign 4)
           (fun a => (2 + slot % 2) * 2 ^ (slot / 2 - 1) + u * 16 + a))).follow π := by
  unfold distDec
  rw [follow_bind _ _ _ _ _ (treeDec_treeEnc _ 6 slot hs π)]

theorem distDec_distEnc (dist l : Nat) (h : dist < 2 ^ 32) (rest : Path) :
    (distDec l).follow (distEnc dist l ++ rest) = some (dist, rest) := by
  by_cases h4 : dist < 4
  · have hs : posSlot dist = dist := by unfold posSlot; rw [if_pos h4]
    unfold distEnc
    simp only [hs, if_pos h4]
    rw [distDec_prefix _ _ (by omega), if_pos h4]
    rfl
  · obtain ⟨k, hk2, hk31, hs, hlo, hhi⟩ := posSlot_spec dist (by omega) h
    obtain ⟨b, rfl⟩ : ∃ b, k = b + 2 := ⟨k - 2, by omega⟩
    have hb1 : b + 2 - 1 = b + 1 := by omega
    rw [hb1] at hs
    have hP2 : 2 ^ (b + 2) = 2 * 2 ^ (b + 1) := by rw [Nat.pow_succ]; ring
    have hP4 : 2 ^ (b + 2 + 1) = 4 * 2 ^ (b + 1) := by rw [Nat.pow_succ, Nat.pow_succ]; ring
    rw [hP2] at hlo
    rw [hP4] at hhi
    have hsplit := dist_split dist (2 ^ (b + 1)) hlo hhi
    have hmodlt : dist % 2 ^ (b + 1) < 2 ^ (b + 1) := Nat.mod_lt _ (Nat.pow_pos (by omega))
    unfold distEnc
    simp only
    generalize posSlot dist = slot at *
    have hbits : slot / 2 - 1 = b + 1 := by omega
    have hpar : slot % 2 = dist / 2 ^ (b + 1) % 2 := by omega
    have hn4 : ¬ slot < 4 := by omega
    have hs64 : slot < 2 ^ 6 := by omega
    rw [if_neg hn4, hbits]
    by_cases h14 : slot < 14
    · rw [if_pos h14, List.append_assoc, distDec_prefix _ _ hs64, if_neg hn4, if_pos h14, hbits,
        follow_map _ _ _ _ _ (rtreeDec_rtreeEnc _ (b + 1) _ hmodlt rest), hpar, hsplit]
    · rw [if_neg h14, List.append_assoc, List.append_assoc, distDec_prefix _ _ hs64, if_neg hn4,
        if_neg h14, hbits]
      obtain ⟨c, rfl⟩ : ∃ c, b = c + 4 := ⟨b - 4, by omega⟩
      have hc : c + 4 + 1 - 4 = c + 1 := by omega
      rw [hc]
      have hP16 : 2 ^ (c + 4 + 1) = 2 ^ (c + 1) * 16 := by rw [Nat.pow_add 2 (c + 1) 4]
      have hdlt : dist % 2 ^ (c + 4 + 1) / 16 < 2 ^ (c + 1) := by
        rw [Nat.div_lt_iff_lt_mul (by omega), ← hP16]; exact hmodlt
      rw [follow_bind _ _ _ _ _ (directDec_directEnc (c + 1) _ hdlt _)]
      rw [follow_map _ _ _ _ _ (rtreeDec_rtreeEnc aAlign 4 (dist % 16) (Nat.mod_lt _ (by omega)) rest)]
      congr 2
      rw [hpar]
      have hmm : dist % 16 = dist % 2 ^ (c + 4 + 1) % 16 := by
        rw [Nat.mod_mod_of_dvd]
        exact ⟨2 ^ (c + 1), by rw [hP16]; ring⟩
      rw [hmm]
      have := Nat.div_add_mod (dist % 2 ^ (c + 4 + 1)) 16
      omega

/-! ### operations -/

theorem repLenDec_follow (c : Ctx) (g len : Nat) (h2 : 2 ≤ len) (h273 : len ≤ 273) (rest : Path) :
    (repLenDec c g).follow (lenEnc aRepLen c.ps (len - 2) ++ rest) = some (.rep g len, rest) := by
  unfold repLenDec
  rw [follow_map _ _ _ _ _ (lenDec_lenEnc aRepLen c.ps (len - 2) (by omega) rest)]
  have : len - 2 + 2 = len := by omega
  rw [this]

/-- the headline: decoding the bits the encoder writes for an operation yields that operation -/
theorem opDec_opEnc (c : Ctx) (op : RawOp) (h : op.wf) (rest : Path) :
    (opDec c).follow (opEnc c op ++ rest) = some (op, rest) := by
  cases op with
  | lit s =>
    have hs : s < 256 := h
    unfold opDec opEnc
    simp only [List.cons_append, follow_ask, Bool.not_false, ↓reduceIte]
    by_cases h7 : c.st ≥ 7
    · rw [if_pos h7, if_pos h7]
      exact follow_map _ _ _ _ _ (litMatchedDec_litMatchedEnc _ _ s hs rest)
    · rw [if_neg h7, if_neg h7]
      exact follow_map _ _ _ _ _ (litPlainDec_litPlainEnc _ s hs rest)
  | mtch len d =>
    obtain ⟨h2, h273, hd⟩ : 2 ≤ len ∧ len ≤ 273 ∧ d < 2 ^ 32 := h
    unfold opDec opEnc
    simp only [List.cons_append, follow_ask, Bool.not_false, Bool.not_true, Bool.false_eq_true,
      ↓reduceIte, List.append_assoc]
    rw [follow_bind _ _ _ _ _ (lenDec_lenEnc aLen c.ps (len - 2) (by omega) _)]
    rw [follow_map _ _ _ _ _ (distDec_distEnc d (len - 2) hd rest)]
    have : len - 2 + 2 = len := by omega
    rw [this]
  | shortRep =>
    unfold opDec opEnc
    simp only [List.cons_append, follow_ask, Bool.not_false, Bool.not_true, Bool.false_eq_true,
      ↓reduceIte, List.nil_append, DecTree.follow]
  | rep g len =>
    obtain ⟨hg, h2, h273⟩ : g < 4 ∧ 2 ≤ len ∧ len ≤ 273 := h
    have hl := fun g => repLenDec_follow c g len h2 h273 rest
    unfold opDec opEnc
    match g, hg with
    | 0, _ =>
      simp only [List.cons_append, follow_ask, Bool.not_false, Bool.not_true, Bool.false_eq_true,
        ↓reduceIte, List.nil_append, hl]
    | 1, _ =>
      simp only [List.cons_append, follow_ask, Bool.not_false, Bool.not_true, Bool.false_eq_true,
        ↓reduceIte, List.nil_append, hl]
    | 2, _ =>
      simp only [List.cons_append, follow_ask, Bool.not_false, Bool.not_true, Bool.false_eq_true,
        ↓reduceIte, List.nil_append, hl]
    | 3, _ =>
      simp only [List.cons_append, follow_ask, Bool.not_true, Bool.false_eq_true,
        ↓reduceIte, List.nil_append, hl]

end Lzma

#print axioms Lzma.opDec_opEnc
