import XzVerif.Model.Writer2
import XzVerif.Proofs.Lzma2RoundTrip
import XzVerif.Proofs.Chunk
import XzVerif.Proofs.SizeBound

/-!
  Helper lemmas for the Writer2 refinement (Proofs/Writer2.lean): the checked range coder
  (`encPathChk`, `closeChk`) against the unchecked one, byte-array facts, and what an applicable
  Go operation (`GoOpOk`) means for the operation-level encoder (`OpOk`, `Hist.applyOp`).
-/

set_option linter.unusedSimpArgs false
set_option linter.unusedVariables false

namespace W2
open Lzma Rc Lzma2 Spec

variable {σ : Type}

/-! ### the checked range coder -/

theorem encPathChk_eq (base : Nat) : ∀ (π : Path) (t : Tbl) (e : Enc) (r : Tbl × Enc),
    encPathChk base t e π = some r → r = encPath t e π := by
  intro π
  induction π with
  | nil =>
    intro t e r h
    simp only [encPathChk, Option.some.injEq] at h
    rw [← h]; rfl
  | cons qb π ih =>
    intro t e r h
    obtain ⟨q, b⟩ := qb
    cases q with
    | adaptive a =>
      simp only [encPathChk] at h
      split at h
      · exact absurd h (by simp)
      · simp only [encPath]; exact ih _ _ _ h
    | direct =>
      simp only [encPathChk] at h
      split at h
      · exact absurd h (by simp)
      · simp only [encPath]; exact ih _ _ _ h

theorem overflow_false (base : Nat) (e e' : Enc) (h : base + e.digits + 5 ≤ Gen.lzma_maxCompressed) :
    overflow base e e' = false := by
  unfold overflow
  unfold Enc.digits at h
  have : ¬ (Gen.lzma_maxCompressed < base + e.out.length + e.cacheLen + 5) := by omega
  simp only [this, decide_false, Bool.and_false]

theorem encPath_digits_ge (π : Path) (t : Tbl) (e : Enc) (ht : t.ok) (he : e.Rest) :
    e.digits ≤ (encPath t e π).2.digits ∧ (encPath t e π).2.Rest := by
  rw [encPath_eq]
  obtain ⟨h1, h2, _, _⟩ := encodeAll_nest e he _ (toDecns_ok pm π t ht)
  exact ⟨h2, h1⟩

theorem encPathChk_ok (base : Nat) : ∀ (π : Path) (t : Tbl) (e : Enc), t.ok → e.Rest →
    base + (encPath t e π).2.digits + 5 ≤ Gen.lzma_maxCompressed →
    encPathChk base t e π = some (encPath t e π) := by
  intro π
  induction π with
  | nil => intro t e _ _ _; rfl
  | cons qb π ih =>
    intro t e ht he hb
    obtain ⟨q, b⟩ := qb
    cases q with
    | adaptive a =>
      have hdn : (⟨some (t.get a), b⟩ : Decn).ok := by
        intro p hp; simp at hp; subst hp; exact ht a
      have ht' := t.upd_ok ht a _ (pm.ok _ b (ht a))
      have he' := step_rest e he _ hdn
      have hd := (step_digits_le e he _ hdn).1
      simp only [encPath] at hb ⊢
      have hd' := (encPath_digits_ge π _ _ ht' he').1
      simp only [encPathChk]
      rw [overflow_false base e _ (by omega)]
      simp only [Bool.false_eq_true, if_false]
      exact ih _ _ ht' he' hb
    | direct =>
      have hdn : (⟨none, b⟩ : Decn).ok := by intro p hp; simp at hp
      have he' := step_rest e he _ hdn
      have hd := (step_digits_le e he _ hdn).1
      simp only [encPath] at hb ⊢
      have hd' := (encPath_digits_ge π _ _ ht he').1
      simp only [encPathChk]
      rw [overflow_false base e _ (by omega)]
      simp only [Bool.false_eq_true, if_false]
      exact ih _ _ ht he' hb

def sl5 (e : Enc) : Enc := e.shiftLow.shiftLow.shiftLow.shiftLow.shiftLow

theorem sl5_out (e : Enc) : (sl5 e).out = e.close := rfl

theorem closeChk_ok (base : Nat) (e : Enc) (h : base + e.digits + 9 ≤ Gen.lzma_maxCompressed) :
    closeChk base 5 e = some (sl5 e) := by
  have d1 := shiftLow_digits e
  have d2 := shiftLow_digits e.shiftLow
  have d3 := shiftLow_digits e.shiftLow.shiftLow
  have d4 := shiftLow_digits e.shiftLow.shiftLow.shiftLow
  simp only [closeChk]
  rw [overflow_false base e _ (by omega), overflow_false base e.shiftLow _ (by omega),
    overflow_false base e.shiftLow.shiftLow _ (by omega),
    overflow_false base e.shiftLow.shiftLow.shiftLow _ (by omega),
    overflow_false base e.shiftLow.shiftLow.shiftLow.shiftLow _ (by omega)]
  rfl

theorem closeChk_some (base : Nat) (e e' : Enc) (hinv : e.Inv) (h : closeChk base 5 e = some e') :
    e' = sl5 e ∧ base + e.digits + 9 ≤ Gen.lzma_maxCompressed := by
  have d1 := shiftLow_digits e
  have d2 := shiftLow_digits e.shiftLow
  have d3 := shiftLow_digits e.shiftLow.shiftLow
  have d4 := shiftLow_digits e.shiftLow.shiftLow.shiftLow
  have i1 := shiftLow_inv e hinv
  have i2 := shiftLow_inv _ i1
  have i3 := shiftLow_inv _ i2
  have i4 := shiftLow_inv _ i3
  have l1 := shiftLow_low e
  have l2 := shiftLow_low e.shiftLow
  have l3 := shiftLow_low e.shiftLow.shiftLow
  have l4 := shiftLow_low e.shiftLow.shiftLow.shiftLow
  have hl4 : e.shiftLow.shiftLow.shiftLow.shiftLow.low = 0 := by
    have := hinv.low
    omega
  simp only [closeChk] at h
  split at h
  · exact absurd h (by simp)
  split at h
  · exact absurd h (by simp)
  split at h
  · exact absurd h (by simp)
  split at h
  · exact absurd h (by simp)
  split at h
  · exact absurd h (by simp)
  rename_i _ _ _ _ h5
  refine ⟨(Option.some.inj h).symm, ?_⟩
  generalize e.shiftLow.shiftLow.shiftLow.shiftLow = e4 at *
  have hcl := i4.cl
  have hgrow : e4.shiftLow.out.length > e4.out.length := by
    unfold Enc.shiftLow
    rw [hl4]
    simp only [Nat.zero_mod, Nat.zero_div, ne_eq, not_true_eq_false, or_false]
    rw [if_pos (by omega)]
    simp only [emit_length]
    omega
  unfold overflow at h5
  simp only [hgrow, decide_true, Bool.true_and, decide_eq_true_eq] at h5
  unfold Enc.digits at d1 d2 d3 d4 ⊢
  omega

theorem foldl_push_size (l : List Nat) : ∀ acc : ByteArray,
    (l.foldl (fun a x => a.push x.toUInt8) acc).size = acc.size + l.length := by
  induction l with
  | nil => intro acc; rfl
  | cons x l ih =>
    intro acc
    simp only [List.foldl_cons, List.length_cons]
    rw [ih, ByteArray.size_push]
    omega

/-! ### byte arrays -/

theorem get!_extract0 (a : ByteArray) (k i : Nat) (hi : i < k) : (a.extract 0 k).get! i = a.get! i := by
  rw [get!_eq', get!_eq', ByteArray.data_extract, Array.getElem?_extract]
  simp only [Nat.sub_zero, Nat.zero_add]
  by_cases h : i < min k a.data.size
  · rw [if_pos h]
  · rw [if_neg h]
    have : a.data.size ≤ i := by omega
    rw [Array.getElem?_eq_none this]

theorem extract_push (a : ByteArray) (k : Nat) (hk : k < a.size) :
    (a.extract 0 k).push (a.get! k) = a.extract 0 (k + 1) := by
  have hk' : k < a.data.size := hk
  apply ByteArray.ext
  rw [ByteArray.data_push, ByteArray.data_extract, ByteArray.data_extract, get!_eq',
    Array.getElem?_eq_getElem hk']
  simp only [Option.getD_some]
  rw [Array.extract_succ_right (by omega) hk']

theorem extract_split (a : ByteArray) (n : Nat) (hn : n ≤ a.size) :
    a.extract 0 n ++ a.extract n a.size = a := by
  rw [ByteArray.extract_append_extract, Nat.min_eq_left (Nat.zero_le _), Nat.max_eq_right hn,
    ByteArray.extract_zero_size]

theorem copyMatch_eq (hist look : ByteArray) (cap dist : Nat) (hd1 : 1 ≤ dist) (hd : dist ≤ hist.size)
    (n : Nat) (hn : n ≤ look.size)
    (hrep : ∀ i, i < n → look.get! i = (hist ++ look).get! (hist.size + i - dist)) :
    ∀ (j k : Nat), k + j = n →
      (⟨hist ++ look.extract 0 k, 0, cap⟩ : Hist).copyMatch dist j = ⟨hist ++ look.extract 0 n, 0, cap⟩ := by
  intro j
  induction j with
  | zero => intro k hk; simp only [Nat.add_zero] at hk; subst hk; rfl
  | succ j ih =>
    intro k hk
    simp only [Hist.copyMatch]
    have hksz : (look.extract 0 k).size = k := by rw [ByteArray.size_extract]; omega
    have hget : (hist ++ look.extract 0 k).get! ((hist ++ look.extract 0 k).size - dist) = look.get! k := by
      rw [hrep k (by omega), ByteArray.size_append, hksz]
      by_cases hlt : hist.size + k - dist < hist.size
      · rw [get!_append_left hlt, get!_append_left hlt]
      · obtain ⟨i, hi⟩ : ∃ i, hist.size + k - dist = hist.size + i := ⟨k - dist, by omega⟩
        rw [hi, get!_append_right, get!_append_right, get!_extract0 _ _ _ (by omega)]
    rw [hget]
    have hpush : (hist ++ look.extract 0 k).push (look.get! k) = hist ++ look.extract 0 (k + 1) := by
      rw [push_eq_append, ByteArray.append_assoc, ← push_eq_append, extract_push _ _ (by omega)]
    rw [hpush]
    exact ih (k + 1) (by omega)

theorem copyMatch_look (hist look : ByteArray) (cap dist : Nat) (hd1 : 1 ≤ dist) (hd : dist ≤ hist.size)
    (n : Nat) (hn : n ≤ look.size)
    (hrep : ∀ i, i < n → look.get! i = (hist ++ look).get! (hist.size + i - dist)) :
    (⟨hist, 0, cap⟩ : Hist).copyMatch dist n = ⟨hist ++ look.extract 0 n, 0, cap⟩ := by
  have := copyMatch_eq hist look cap dist hd1 hd n hn hrep n 0 (by omega)
  rw [ByteArray.extract_same, ByteArray.append_empty] at this
  exact this

/-! ### applicable Go operations

  `CfgOk'`, `GoOpOk'`, `MatcherOk'` are verbatim copies of the definitions of Proofs/Writer2.lean (which
  imports this file); they are identified there by `rfl`. -/

def CfgOk' (c : Cfg) : Prop :=
  PropsOk c.props ∧ c.props.lc + c.props.lp ≤ 4 ∧ 1 ≤ c.dictCap ∧ c.dictCap ≤ Gen.lzma_MaxDictCap ∧
  Gen.lzma_maxMatchLen ≤ c.bufSize

def GoOpOk' (c : Cfg) (hist look : ByteArray) (s : St) : GoOp → Prop
  | .lit b => 1 ≤ look.size ∧ b = (look.get! 0).toNat
  | .mtch dist n =>
    1 ≤ dist ∧ dist ≤ min hist.size c.dictCap ∧ n ≤ look.size ∧ n ≤ Gen.lzma_maxMatchLen ∧
    (2 ≤ n ∨ (n = 1 ∧ dist - 1 = s.r0)) ∧
    ∀ i, i < n → look.get! i = (hist ++ look).get! (hist.size + i - dist)

def MatcherOk' (c : Cfg) (M : Matcher σ) : Prop :=
  ∀ (m : σ) (hist look : ByteArray) (s : St), 1 ≤ look.size → GoOpOk' c hist look s (M.next m hist look s).1

/-- copy of `MatcherInv` of Proofs/Writer2.lean (over `GoOpOk'`) -/
structure MatcherInv' (c : Cfg) (M : Matcher σ) (I : σ → ByteArray → ByteArray → Prop) : Prop where
  ok : ∀ (m : σ) (hist look : ByteArray) (s : St), I m hist look → 1 ≤ look.size →
        look.size + min hist.size c.dictCap ≤ c.dictCap + c.bufSize →
        GoOpOk' c hist look s (M.next m hist look s).1
  consume : ∀ (m : σ) (hist look : ByteArray) (s : St), I m hist look → 1 ≤ look.size →
        look.size + min hist.size c.dictCap ≤ c.dictCap + c.bufSize →
        I (M.next m hist look s).2 (hist ++ look.extract 0 (M.next m hist look s).1.len)
          (look.extract (M.next m hist look s).1.len look.size)
  drop : ∀ (m : σ) (hist look : ByteArray) (s : St), I m hist look → 1 ≤ look.size →
        look.size + min hist.size c.dictCap ≤ c.dictCap + c.bufSize →
        I (M.next m hist look s).2 hist look
  grow : ∀ (m : σ) (hist look x : ByteArray), I m hist look →
        (look ++ x).size + min hist.size c.dictCap ≤ c.dictCap + c.bufSize → I m hist (look ++ x)

theorem classify_mtch_cases (s : St) (dist n : Nat) (h2 : 2 ≤ n ∨ (n = 1 ∧ dist - 1 = s.r0)) :
    (s.apply (classify s (.mtch dist n))).r0 = dist - 1 ∧
    ((classify s (.mtch dist n) = .shortRep ∧ n = 1) ∨
     (∃ g, g < 4 ∧ classify s (.mtch dist n) = .rep g n ∧ 2 ≤ n) ∨
     (classify s (.mtch dist n) = .mtch n (dist - 1) ∧ 2 ≤ n)) := by
  unfold classify
  simp only []
  by_cases h0 : dist - 1 = s.r0
  · rw [if_pos h0]
    by_cases h1 : n = 1
    · rw [if_pos h1]
      exact ⟨h0.symm, Or.inl ⟨rfl, h1⟩⟩
    · rw [if_neg h1]
      exact ⟨h0.symm, Or.inr (Or.inl ⟨0, by omega, rfl, by omega⟩)⟩
  · rw [if_neg h0]
    have hn : 2 ≤ n := by
      rcases h2 with h | ⟨_, h⟩
      · exact h
      · exact absurd h h0
    by_cases h1 : dist - 1 = s.r1
    · rw [if_pos h1]
      exact ⟨h1.symm, Or.inr (Or.inl ⟨1, by omega, rfl, hn⟩)⟩
    · rw [if_neg h1]
      by_cases h2' : dist - 1 = s.r2
      · rw [if_pos h2']
        exact ⟨h2'.symm, Or.inr (Or.inl ⟨2, by omega, rfl, hn⟩)⟩
      · rw [if_neg h2']
        by_cases h3 : dist - 1 = s.r3
        · rw [if_pos h3]
          exact ⟨h3.symm, Or.inr (Or.inl ⟨3, by omega, rfl, hn⟩)⟩
        · rw [if_neg h3]
          exact ⟨rfl, Or.inr (Or.inr ⟨rfl, hn⟩)⟩

theorem goOp_encodable (c : Cfg) (hc : CfgOk' c) (hist look : ByteArray) (s : St) (g : GoOp)
    (hg : GoOpOk' c hist look s g) :
    g.encodable s look.size = true ∧ 1 ≤ g.len ∧ g.len ≤ look.size := by
  obtain ⟨_, _, _, hcap, _⟩ := hc
  unfold Gen.lzma_MaxDictCap at hcap
  cases g with
  | lit b =>
    obtain ⟨h1, h2⟩ := hg
    have hb : b < 256 := by rw [h2]; exact UInt8.toNat_lt _
    refine ⟨?_, Nat.le_refl 1, h1⟩
    simp only [GoOp.encodable, hb, h1, decide_true, Bool.and_self]
  | mtch dist n =>
    obtain ⟨h1, h2, h3, h4, h5, _⟩ := hg
    have hd : dist ≤ 2 ^ 32 := by omega
    have hl : (2 ≤ n ∧ n ≤ Gen.lzma_maxMatchLen) ∨ (dist - 1 = s.r0 ∧ n = 1) := by
      rcases h5 with h | ⟨ha, hb⟩
      · exact Or.inl ⟨h, h4⟩
      · exact Or.inr ⟨hb, ha⟩
    refine ⟨?_, ?_, h3⟩
    · simp only [GoOp.encodable, h1, hd, h3, decide_true, Bool.true_and, Bool.and_true, Bool.or_eq_true,
        decide_eq_true_eq]
      exact hl
    · show 1 ≤ n
      omega

theorem classify_opOk (c : Cfg) (hc : CfgOk' c) (hist look : ByteArray) (s : St) (g : GoOp)
    (hg : GoOpOk' c hist look s g) : OpOk ⟨hist, 0, c.dictCap⟩ s (classify s g) := by
  obtain ⟨_, _, _, hcap, _⟩ := hc
  unfold Gen.lzma_MaxDictCap at hcap
  cases g with
  | lit b =>
    obtain ⟨h1, h2⟩ := hg
    have hb : b < 256 := by rw [h2]; exact UInt8.toNat_lt _
    exact ⟨hb, trivial⟩
  | mtch dist n =>
    obtain ⟨h1, h2, h3, h4, h5, _⟩ := hg
    unfold Gen.lzma_maxMatchLen at h4
    obtain ⟨hr0, hcases⟩ := classify_mtch_cases s dist n h5
    have hdl : (⟨hist, 0, c.dictCap⟩ : Hist).dictLen = min hist.size c.dictCap := by
      simp only [Hist.dictLen, Hist.pos, Nat.sub_zero]
    rcases hcases with ⟨ho, hn⟩ | ⟨gg, hg4, ho, hn⟩ | ⟨ho, hn⟩
    · rw [ho] at hr0 ⊢
      refine ⟨trivial, ?_⟩
      show s.r0 + 1 ≤ _
      have : (s.apply RawOp.shortRep).r0 = s.r0 := rfl
      rw [hdl]; omega
    · rw [ho] at hr0 ⊢
      refine ⟨⟨hg4, hn, h4⟩, ?_⟩
      show (s.apply (RawOp.rep gg n)).r0 + 1 ≤ _
      rw [hdl]; omega
    · rw [ho]
      refine ⟨⟨hn, h4, by omega⟩, ?_, ?_⟩
      · unfold eosDist; omega
      · rw [hdl]; omega

theorem push_look0 (hist look : ByteArray) (h1 : 1 ≤ look.size) :
    hist.push (look.get! 0) = hist ++ look.extract 0 1 := by
  rw [push_eq_append, ← extract_push look 0 (by omega), ByteArray.extract_same, ← push_eq_append]

theorem classify_applyOp (c : Cfg) (hc : CfgOk' c) (hist look : ByteArray) (s : St) (g : GoOp)
    (hg : GoOpOk' c hist look s g) :
    (⟨hist, 0, c.dictCap⟩ : Hist).applyOp (s.apply (classify s g)) (classify s g) =
      ⟨hist ++ look.extract 0 g.len, 0, c.dictCap⟩ := by
  cases g with
  | lit b =>
    obtain ⟨h1, h2⟩ := hg
    simp only [classify, Hist.applyOp, Hist.push, GoOp.len]
    have : b.toUInt8 = look.get! 0 := by
      rw [h2]; exact UInt8.ofNat_toNat
    rw [this, push_look0 hist look h1]
  | mtch dist n =>
    obtain ⟨h1, h2, h3, h4, h5, h6⟩ := hg
    have hcm := copyMatch_look hist look c.dictCap dist h1 (by omega) n h3 h6
    have hd : dist - 1 + 1 = dist := Nat.sub_add_cancel h1
    have heos : ¬ dist - 1 = eosDist := by
      obtain ⟨_, _, _, hcap, _⟩ := hc
      unfold Gen.lzma_MaxDictCap at hcap
      unfold eosDist; omega
    obtain ⟨hr0, hcases⟩ := classify_mtch_cases s dist n h5
    simp only [GoOp.len]
    rcases hcases with ⟨ho, hn⟩ | ⟨gg, hg4, ho, hn⟩ | ⟨ho, hn⟩
    · rw [ho] at hr0 ⊢
      simp only [Hist.applyOp]
      rw [hr0, hd]; subst hn; exact hcm
    · rw [ho] at hr0 ⊢
      simp only [Hist.applyOp]
      rw [hr0, hd]; exact hcm
    · rw [ho]
      simp only [Hist.applyOp]
      rw [if_neg heos, hd]; exact hcm

theorem classify_r0 (c : Cfg) (hist look : ByteArray) (s : St) (g : GoOp) (hg : GoOpOk' c hist look s g)
    (hcap : 1 ≤ c.dictCap) (hr0 : s.r0 + 1 ≤ max 1 (min hist.size c.dictCap)) :
    (s.apply (classify s g)).r0 + 1 ≤ max 1 (min (hist.size + g.len) c.dictCap) := by
  cases g with
  | lit b =>
    have : (s.apply (classify s (.lit b))).r0 = s.r0 := rfl
    rw [this]
    simp only [GoOp.len]
    omega
  | mtch dist n =>
    obtain ⟨h1, h2, h3, h4, h5, h6⟩ := hg
    have := (classify_mtch_cases s dist n h5).1
    rw [this]
    simp only [GoOp.len]
    omega

/-! ### the coding context of the Go encoder is the model's -/

theorem byteAtE_eq (c : Cfg) (w : WSt σ) (d : Nat)
    (hspace : w.look.size + min w.hist.size c.dictCap ≤ ringCap c)
    (hd : d ≤ max 1 (min w.hist.size c.dictCap)) (hcap : 1 ≤ c.dictCap) :
    w.byteAtE c d = (⟨w.hist, 0, c.dictCap⟩ : Hist).byteAt d := by
  unfold WSt.byteAtE Hist.byteAt
  have hiff : (0 < d ∧ d ≤ w.lenE c) ↔ (0 < d ∧ d ≤ (⟨w.hist, 0, c.dictCap⟩ : Hist).dictLen) := by
    unfold WSt.lenE WSt.bufAvail Hist.dictLen Hist.pos
    unfold ringCap at *
    simp only [Nat.sub_zero]
    omega
  by_cases h : 0 < d ∧ d ≤ w.lenE c
  · rw [if_pos h, if_pos (hiff.mp h)]
  · rw [if_neg h, if_neg (fun h' => h (hiff.mpr h'))]

theorem ctx_eq (c : Cfg) (w : WSt σ) (hcap : 1 ≤ c.dictCap)
    (hspace : w.look.size + min w.hist.size c.dictCap ≤ ringCap c)
    (hr0 : w.s.r0 + 1 ≤ max 1 (min w.hist.size c.dictCap)) :
    w.ctx c = mkCtx c.props w.s ⟨w.hist, 0, c.dictCap⟩ := by
  unfold WSt.ctx mkCtx
  rw [byteAtE_eq c w 1 hspace (by omega) hcap, byteAtE_eq c w (w.s.r0 + 1) hspace hr0 hcap]
  simp only [Hist.pos, Nat.sub_zero]

/-! ### operation lists and chunk lists extended at the end -/

theorem encodeOps_snoc (p : Props) (s : St) (t : Tbl) (h : Hist) (ops : List RawOp) (op : RawOp) :
    encodeOps p s t h (ops ++ [op]) = encStep p (encodeOps p s t h ops) op := by
  unfold encodeOps
  rw [List.foldl_append]
  rfl

theorem encodeOps_sh (p : Props) (s : St) (t : Tbl) (h : Hist) (ops : List RawOp) :
    (encodeOps p s t h ops).s = finalS s ops ∧ (encodeOps p s t h ops).h = finalH s h ops := by
  obtain ⟨_, _, a3, _, a5⟩ := encodeOps_rep p ops
    { s := s, tbl := t, e := Enc.init, bytes := ByteArray.empty, h := h } rfl
  exact ⟨a3, a5⟩

theorem OpsOk_snoc : ∀ (ops : List RawOp) (s : St) (h : Hist) (op : RawOp), OpsOk s h ops →
    OpOk (finalH s h ops) (finalS s ops) op → OpsOk s h (ops ++ [op]) := by
  intro ops
  induction ops with
  | nil =>
    intro s h op _ hop
    exact OpsOk.cons _ _ _ _ hop (OpsOk.nil _ _)
  | cons o ops ih =>
    intro s h op hok hop
    cases hok with
    | cons _ _ _ _ h1 h2 =>
      exact OpsOk.cons _ _ _ _ h1 (ih _ _ op h2 hop)

def COk (strict : Bool) : EState → SeqState → List Chunk → SeqState → Prop
  | _, q, [], q' => q = q'
  | e, q, ck :: cs, q' =>
    ∃ q1, ChunkOk strict e q ck ∧ seqStep q ck.kind = some q1 ∧ COk strict (emitChunk e ck) q1 cs q'

theorem COk.chunksOk (strict : Bool) : ∀ (cs : List Chunk) (e : EState) (q q' : SeqState),
    COk strict e q cs q' → ChunksOk strict e q cs := by
  intro cs
  induction cs with
  | nil => intro e q q' _; exact ChunksOk.nil _ _
  | cons ck cs ih =>
    intro e q q' h
    obtain ⟨q1, h1, h2, h3⟩ := h
    exact ChunksOk.cons _ _ q1 _ _ h1 h2 (ih _ _ _ h3)

theorem COk.snoc (strict : Bool) : ∀ (cs : List Chunk) (e : EState) (q q' : SeqState) (ck : Chunk)
    (q'' : SeqState), COk strict e q cs q' → ChunkOk strict (cs.foldl emitChunk e) q' ck →
    seqStep q' ck.kind = some q'' → COk strict e q (cs ++ [ck]) q'' := by
  intro cs
  induction cs with
  | nil =>
    intro e q q' ck q'' h hck hs
    have : q = q' := h
    subst this
    exact ⟨q'', hck, hs, rfl⟩
  | cons c0 cs ih =>
    intro e q q' ck q'' h hck hs
    obtain ⟨q1, h1, h2, h3⟩ := h
    exact ⟨q1, h1, h2, ih _ _ _ _ _ h3 hck hs⟩

theorem chunksBytes_snoc : ∀ (cs : List Chunk) (e : EState) (ck : Chunk),
    chunksBytes e (cs ++ [ck]) = chunksBytes e cs ++ chunkBytes (cs.foldl emitChunk e) ck := by
  intro cs
  induction cs with
  | nil =>
    intro e ck
    simp only [List.nil_append, chunksBytes, List.foldl_nil, ByteArray.append_empty, ByteArray.empty_append]
  | cons c0 cs ih =>
    intro e ck
    simp only [List.cons_append, chunksBytes, List.foldl_cons, ih, ByteArray.append_assoc]

/-- what `chunk_sizes` says about one chunk -/
def SizeOk (ck : Chunk) : Prop :=
  (ck.kind = .u ∨ ck.kind = .ud) ∧ 1 ≤ ck.raw.size ∧ ck.raw.size ≤ 65536 ∨ isLz ck.kind ∧ ck.ops ≠ #[]

theorem ChunkOk.sizeOk (strict : Bool) (e : EState) (q : SeqState) (ck : Chunk) (h : ChunkOk strict e q ck) :
    SizeOk ck := by
  obtain ⟨_, h⟩ := h
  unfold SizeOk
  cases hk : ck.kind <;> rw [hk] at h <;> dsimp only at h
  · exact Or.inl ⟨Or.inr rfl, h.1, h.2⟩
  · exact Or.inl ⟨Or.inl rfl, h.1, h.2⟩
  · exact Or.inr ⟨Or.inl rfl, h.1⟩
  · exact Or.inr ⟨Or.inr (Or.inl rfl), h.1⟩
  · exact Or.inr ⟨Or.inr (Or.inr (Or.inl rfl)), h.1⟩
  · exact Or.inr ⟨Or.inr (Or.inr (Or.inr rfl)), h.1⟩

theorem COk.sizeOk (strict : Bool) : ∀ (cs : List Chunk) (e : EState) (q q' : SeqState),
    COk strict e q cs q' → ∀ ck ∈ cs, SizeOk ck := by
  intro cs
  induction cs with
  | nil => intro e q q' _ ck hck; simp at hck
  | cons c0 cs ih =>
    intro e q q' h ck hck
    obtain ⟨q1, h1, h2, h3⟩ := h
    rcases List.mem_cons.mp hck with rfl | hm
    · exact ChunkOk.sizeOk strict e q _ h1
    · exact ih _ _ _ h3 ck hm

end W2
