import XzVerif.Model.XzWriter

/-! Block bookkeeping of the xz writer: every closed block but the last holds exactly `bs` bytes, the last one
    between 1 and `bs` (0 only when nothing was written), and the sizes add up to what was written. -/
namespace XW

def total (st : St) : Nat := st.blocks.sum + st.cur

/-- invariant between calls -/
structure Inv (bs : Nat) (st : St) : Prop where
  cur : st.cur ≤ bs
  full : ∀ b ∈ st.blocks, b = bs
  open_ : st.blocks ≠ [] → 1 ≤ st.cur
  live : st.closed = false

/-- invariant inside the loop of `Writer.Write` with `len` bytes still to place -/
structure LoopInv (bs : Nat) (st : St) (len : Nat) : Prop where
  cur : st.cur ≤ bs
  full : ∀ b ∈ st.blocks, b = bs
  open_ : st.blocks ≠ [] → 1 ≤ st.cur + len
  live : st.closed = false

theorem writeLoop_spec (bs : Nat) (hbs : 1 ≤ bs) : ∀ (fuel : Nat) (st : St) (len : Nat),
    LoopInv bs st len → len + 1 + (if st.cur = bs then 1 else 0) ≤ fuel →
    Inv bs (writeLoop bs fuel st len) ∧ total (writeLoop bs fuel st len) = total st + len := by
  intro fuel
  induction fuel with
  | zero => intro st len _ h; omega
  | succ fuel ih =>
    intro st len hinv hf
    have hc := hinv.cur
    unfold writeLoop
    by_cases hgt : len > bs - st.cur
    · simp only [hgt, if_true]
      have hinv' : LoopInv bs { st with blocks := st.blocks ++ [st.cur + (bs - st.cur)], cur := 0 }
          (len - (bs - st.cur)) := by
        refine ⟨by simp, ?_, ?_, hinv.live⟩
        · intro b hb
          simp only [List.mem_append, List.mem_singleton] at hb
          rcases hb with hb | hb
          · exact hinv.full b hb
          · omega
        · intro _
          show 1 ≤ 0 + (len - (bs - st.cur))
          omega
      have hfuel : (len - (bs - st.cur)) + 1 +
          (if ({ st with blocks := st.blocks ++ [st.cur + (bs - st.cur)], cur := 0 } : St).cur = bs then 1 else 0) ≤ fuel := by
        have h0 : ¬ ((0 : Nat) = bs) := by omega
        show (len - (bs - st.cur)) + 1 + (if (0 : Nat) = bs then 1 else 0) ≤ fuel
        rw [if_neg h0]
        by_cases hcb : st.cur = bs
        · rw [if_pos hcb] at hf; omega
        · rw [if_neg hcb] at hf; omega
      obtain ⟨h1, h2⟩ := ih _ _ hinv' hfuel
      refine ⟨h1, ?_⟩
      rw [h2]
      unfold total
      simp only [List.sum_append, List.sum_cons, List.sum_nil]
      omega
    · simp only [hgt, if_false]
      refine ⟨⟨by show st.cur + len ≤ bs; omega, hinv.full, ?_, hinv.live⟩, ?_⟩
      · intro h; have := hinv.open_ h; show 1 ≤ st.cur + len; omega
      · unfold total; show st.blocks.sum + (st.cur + len) = st.blocks.sum + st.cur + len; omega

theorem init_inv (bs : Nat) : Inv bs {} := by
  refine ⟨Nat.zero_le _, ?_, ?_, rfl⟩
  · intro b hb; exact absurd hb (by simp)
  · intro h; exact absurd rfl h

/-- one `Write` of `len` bytes: everything is accepted, the invariant holds, the total grows by `len` -/
theorem write_spec (bs : Nat) (hbs : 1 ≤ bs) (st : St) (len : Nat) (h : Inv bs st) :
    (write bs st len).2 = .ok len ∧ Inv bs (write bs st len).1 ∧ total (write bs st len).1 = total st + len := by
  unfold write
  rw [h.live]
  simp only [Bool.false_eq_true, if_false]
  have hl : LoopInv bs st len := ⟨h.cur, h.full, fun hb => by have := h.open_ hb; omega, h.live⟩
  have hf : len + 1 + (if st.cur = bs then 1 else 0) ≤ len + 2 := by split <;> omega
  obtain ⟨g1, g2⟩ := writeLoop_spec bs hbs _ st len hl hf
  exact ⟨trivial, g1, g2⟩

theorem foldl_write_spec (bs : Nat) (hbs : 1 ≤ bs) : ∀ (lens : List Nat) (st : St), Inv bs st →
    Inv bs (lens.foldl (fun st l => (write bs st l).1) st) ∧
    total (lens.foldl (fun st l => (write bs st l).1) st) = total st + lens.sum := by
  intro lens
  induction lens with
  | nil => intro st h; exact ⟨h, by simp⟩
  | cons l ls ih =>
    intro st h
    obtain ⟨_, h2, h3⟩ := write_spec bs hbs st l h
    obtain ⟨g1, g2⟩ := ih _ h2
    refine ⟨g1, ?_⟩
    simp only [List.foldl_cons, List.sum_cons]
    rw [g2, h3]; omega

/-- **Block discipline.** After any history of writes followed by Close: the block sizes add up to the bytes
    written; every block but the last holds exactly `bs` bytes; the last holds at most `bs`, and at least one
    byte unless it is the only block (which is then empty exactly when nothing was written). -/
theorem run_spec (bs : Nat) (hbs : 1 ≤ bs) (lens : List Nat) :
    let st := run bs lens
    st.closed = true ∧ st.blocks.sum = lens.sum ∧ st.blocks ≠ [] ∧
    (∀ b ∈ st.blocks.dropLast, b = bs) ∧
    (∀ b, st.blocks.getLast? = some b → b ≤ bs ∧ (2 ≤ st.blocks.length → 1 ≤ b)) := by
  obtain ⟨h1, h2⟩ := foldl_write_spec bs hbs lens {} (init_inv bs)
  generalize hst : lens.foldl (fun st l => (write bs st l).1) {} = s at h1 h2
  have hrun : run bs lens = { blocks := s.blocks ++ [s.cur], cur := 0, closed := true } := by
    unfold run close
    rw [hst, h1.live]
    rfl
  show (run bs lens).closed = true ∧ (run bs lens).blocks.sum = lens.sum ∧ (run bs lens).blocks ≠ [] ∧
    (∀ b ∈ (run bs lens).blocks.dropLast, b = bs) ∧
    (∀ b, (run bs lens).blocks.getLast? = some b → b ≤ bs ∧ (2 ≤ (run bs lens).blocks.length → 1 ≤ b))
  rw [hrun]
  refine ⟨rfl, ?_, by simp, ?_, ?_⟩
  · show (s.blocks ++ [s.cur]).sum = lens.sum
    have h0 : total ({} : St) = 0 := rfl
    rw [h0] at h2
    rw [List.sum_append]; simp only [List.sum_cons, List.sum_nil]
    unfold total at h2; omega
  · intro b hb
    rw [List.dropLast_concat] at hb
    exact h1.full b hb
  · intro b hb
    rw [List.getLast?_concat] at hb
    cases hb
    refine ⟨h1.cur, ?_⟩
    intro hlen
    apply h1.open_
    intro hnil
    rw [hnil] at hlen
    simp at hlen

end XW
