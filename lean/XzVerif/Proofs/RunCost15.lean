import XzVerif.Proofs.RunGen15
import XzVerif.Proofs.RunCostBT

/-!
  The `n / 500 + 213` (HashTable4) and `n / 500 + 229` (BinaryTree) bounds for dictionaries of at least 32 KiB.
  With the crude cost of a ring wrap (455 bits for the truncated match and its two follow-up operations) the ring
  has to have at least ≈ 31 200 bytes; the proposal lemmas themselves need no bound on the dictionary
  (BinaryTree: `3 ≤ dictCap`).
-/

namespace RunCost
open W2 Lzma Rc

theorem run_compresses_213_d15 (c : Cfg) (hc : CfgOk c) (hd : 32768 ≤ c.dictCap) (b : UInt8) (n : Nat) :
    (lzma2OfRun c b n).size ≤ n / 500 + 213 := by
  have h := run_size_gen15 c hc hd b HT.HT4 (HT.Synced c) (HT.ht4_matcherInv c) (HT.St.new c.dictCap c.bufSize)
    (HT.synced_new c) 0 1 (ht4_runSpec c hc b) n
  have hD : D0 1 = 3 := rfl
  rw [hD] at h
  exact h

theorem run_compresses_229_bt_d15 (c : Cfg) (hc : CfgOk c) (hd : 32768 ≤ c.dictCap) (b : UInt8) (n : Nat) :
    (lzma2OfRunBT c b n).size ≤ n / 500 + 229 := by
  have h := run_size_gen15 c hc hd b BT.BT4 (BT.Synced c) (BT.bt4_matcherInv c) (BT.St.new c.dictCap c.bufSize)
    (BT.synced_new c) 2 3 (bt4_runSpec c hc (by omega) b) n
  have hD : D0 3 = 4 := rfl
  rw [hD] at h
  exact h

end RunCost

#print axioms RunCost.run_compresses_213_d15
#print axioms RunCost.run_compresses_229_bt_d15
