import XzVerif.Proofs.Writer2FLemmas

/-!
  The LZMA2 writer model (Model/Writer2.lean) only ever APPENDS to its sink bytes `out` and never reads them:
  running it on a state whose `out` carries a prefix `o` gives the same run with `o` in front (`pre o`).
  Used by Proofs/XzWF.lean, where the block writers of the xz container write behind the bytes already in the sink.
-/

set_option linter.unusedSimpArgs false
set_option linter.unusedVariables false

namespace W2F
open W2 Lzma Rc Lzma2 Spec

variable {σ : Type}

/-- the state with `o` in front of its sink bytes -/
def pre (o : ByteArray) (w : WSt σ) : WSt σ := setOut w (o ++ w.out)

def opMap (g : WSt σ → WSt σ) : OpRes σ → OpRes σ
  | .ok w => .ok (g w)
  | .limit w => .limit (g w)
  | .broken w => .broken (g w)
  | .bad w s => .bad (g w) s

def exMap (g : WSt σ → WSt σ) : Except Err (WSt σ) → Except Err (WSt σ)
  | .ok w => .ok (g w)
  | .error e => .error e

theorem push_append' (a b : ByteArray) (x : UInt8) : (a ++ b).push x = a ++ b.push x := by
  rw [push_eq_append, push_eq_append b, ByteArray.append_assoc]

theorem pre_er (o : ByteArray) (w : WSt σ) : er (pre o w) = er w := rfl

theorem pre_out (o : ByteArray) (w : WSt σ) : (pre o w).out = o ++ w.out := rfl

theorem pre_pre (o o' : ByteArray) (w : WSt σ) : pre o (pre o' w) = pre (o ++ o') w := by
  unfold pre setOut
  dsimp only
  rw [ByteArray.append_assoc]

/-! ### the encoder part leaves `out` alone -/

theorem opSetOut_of_out (r : OpRes σ) (o x : ByteArray)
    (h : match r with | .ok w => w.out = x | .limit w => w.out = x | .broken w => w.out = x | .bad w _ => w.out = x) :
    opSetOut r (o ++ x) = opMap (pre o) r := by
  cases r <;> simp only [opSetOut, opMap, pre] <;> dsimp only at h <;> rw [h]

theorem encWrite_pre (c : Cfg) (M : Matcher σ) (p : ByteArray) (o : ByteArray) (fuel : Nat) (w : WSt σ) (n : Nat) :
    encWrite c M p fuel (pre o w) n = (opMap (pre o) (encWrite c M p fuel w n).1, (encWrite c M p fuel w n).2) := by
  have h := encWrite_setOut c M p w.out fuel w n
  rw [setOut_self] at h
  have h1 : (encWrite c M p fuel w n).1 = opSetOut (encWrite c M p fuel w n).1 w.out := congrArg Prod.fst h
  unfold pre
  rw [encWrite_setOut]
  congr 1
  apply opSetOut_of_out
  generalize (encWrite c M p fuel w n).1 = r at h1
  cases r <;> simp only [opSetOut] at h1 <;> injection h1 with h1 <;> rw [h1] <;> rfl

theorem encClose_pre (c : Cfg) (M : Matcher σ) (o : ByteArray) (w : WSt σ) :
    W2.encClose c M (pre o w) = exMap (pre o) (W2.encClose c M w) := by
  have h := encClose_setOut c M w w.out
  rw [setOut_self] at h
  unfold pre
  rw [encClose_setOut]
  generalize W2.encClose c M w = r at h
  cases r with
  | error e => rfl
  | ok w1 =>
    simp only [exSetOut] at h
    have h1 := Except.ok.inj h
    simp only [exSetOut, exMap, pre]
    rw [h1]
    rfl

/-! ### the chunk writer appends -/

theorem writeChunk_pre (c : Cfg) (o : ByteArray) (w : WSt σ) :
    writeChunk c (pre o w) = exMap (pre o) (writeChunk c w) := by
  unfold writeChunk
  simp only [show (pre o w).compressed = w.compressed from rfl, show (pre o w).ctype = w.ctype from rfl,
    show (pre o w).body = w.body from rfl, show (pre o w).lenE c = w.lenE c from rfl]
  split
  · unfold writeRaw
    simp only [show (pre o w).compressed = w.compressed from rfl, show (pre o w).lenE c = w.lenE c from rfl]
    split
    · rfl
    · split
      · rfl
      · simp only [exMap, pre, setOut, Except.ok.injEq, ByteArray.append_assoc]
  · unfold writeLz
    simp only [show (pre o w).compressed = w.compressed from rfl]
    split
    · rfl
    · simp only [exMap, pre, setOut, Except.ok.injEq, ByteArray.append_assoc]
      rfl

theorem flushChunk_pre (c : Cfg) (M : Matcher σ) (o : ByteArray) (w : WSt σ) :
    W2.flushChunk c M (pre o w) = exMap (pre o) (W2.flushChunk c M w) := by
  unfold W2.flushChunk
  rw [show (pre o w).written = w.written from rfl]
  by_cases hw : w.written = 0
  · rw [if_pos hw, if_pos hw]; rfl
  · rw [if_neg hw, if_neg hw, encClose_pre]
    cases W2.encClose c M w with
    | error e => rfl
    | ok w1 =>
      simp only [exMap]
      rw [writeChunk_pre]
      cases writeChunk c w1 with
      | error e => rfl
      | ok w2 =>
        simp only [exMap]
        rw [show (pre o w2).cstate = w2.cstate from rfl, show (pre o w2).ctype = w2.ctype from rfl]
        cases Model.chunkNext w2.cstate w2.ctype with
        | none => rfl
        | some cs' => rfl

theorem write_pre (c : Cfg) (M : Matcher σ) (p : ByteArray) (o : ByteArray) : ∀ (fuel : Nat) (w : WSt σ) (n : Nat),
    W2.write c M p fuel (pre o w) n =
      (pre o (W2.write c M p fuel w n).1, (W2.write c M p fuel w n).2.1, (W2.write c M p fuel w n).2.2) := by
  intro fuel
  induction fuel with
  | zero => intro w n; rfl
  | succ fuel ih =>
    intro w n
    rw [W2.write, W2.write]
    by_cases hlt : n < p.size
    · rw [if_pos hlt, if_pos hlt]
      simp only []
      rw [show (pre o w).written = w.written from rfl]
      by_cases hm : Gen.lzma_maxUncompressed - w.written = 0
      · rw [if_pos hm, if_pos hm]
      · rw [if_neg hm, if_neg hm]
        generalize (p.extract n _) = q
        rw [encWrite_pre]
        rcases encWrite c M q (q.size + 2) w 0 with ⟨res, k⟩
        cases res with
        | bad w' what => rfl
        | broken w' =>
          simp only [opMap]
          rw [show (pre o w').look = w'.look from rfl]
          split <;> rfl
        | limit w' =>
          simp only [opMap]
          rw [flushChunk_pre]
          cases W2.flushChunk c M w' with
          | error e => rfl
          | ok w'' => simp only [exMap]; exact ih w'' (n + k)
        | ok w' =>
          simp only [opMap]
          split
          · rw [flushChunk_pre]
            cases W2.flushChunk c M w' with
            | error e => rfl
            | ok w'' => simp only [exMap]; exact ih w'' (n + k)
          · exact ih w' (n + k)
    · rw [if_neg hlt, if_neg hlt]

theorem flushLoop_pre (c : Cfg) (M : Matcher σ) (o : ByteArray) : ∀ (fuel : Nat) (w : WSt σ),
    W2.flushLoop c M fuel (pre o w) = exMap (pre o) (W2.flushLoop c M fuel w) := by
  intro fuel
  induction fuel with
  | zero => intro w; rfl
  | succ fuel ih =>
    intro w
    rw [W2.flushLoop, W2.flushLoop, show (pre o w).written = w.written from rfl]
    by_cases hw : w.written > 0
    · rw [if_pos hw, if_pos hw, flushChunk_pre]
      cases W2.flushChunk c M w with
      | error e => rfl
      | ok w' => simp only [exMap]; exact ih w'
    · rw [if_neg hw, if_neg hw]; rfl

theorem step_pre (c : Cfg) (M : Matcher σ) (o : ByteArray) (w : WSt σ) (call : Call) :
    W2.step c M (pre o w) call = (pre o (W2.step c M w call).1, (W2.step c M w call).2) := by
  cases call with
  | write p =>
    simp only [W2.step, show (pre o w).closed = w.closed from rfl, show (pre o w).written = w.written from rfl]
    split
    · rfl
    · rw [write_pre]
  | flush =>
    simp only [W2.step, show (pre o w).closed = w.closed from rfl, show (pre o w).written = w.written from rfl]
    split
    · rfl
    · rw [flushLoop_pre]
      cases W2.flushLoop c M (w.written + 1) w with
      | error e => rfl
      | ok w' => rfl
  | close =>
    simp only [W2.step, show (pre o w).closed = w.closed from rfl, show (pre o w).written = w.written from rfl]
    split
    · rfl
    · rw [flushLoop_pre]
      cases W2.flushLoop c M (w.written + 1) w with
      | error e => rfl
      | ok w' =>
        simp only [exMap, pre, setOut, Prod.mk.injEq, and_true, push_append']

theorem run_pre (c : Cfg) (M : Matcher σ) (o : ByteArray) : ∀ (calls : List Call) (w : WSt σ),
    (W2.run c M (pre o w) calls).1 = pre o (W2.run c M w calls).1 := by
  intro calls
  induction calls with
  | nil => intro w; rfl
  | cons call rest ih =>
    intro w
    rw [W2.run_cons, W2.run_cons, step_pre]
    exact ih _

end W2F
