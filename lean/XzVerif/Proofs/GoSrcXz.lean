import XzVerif.Gen.GoSrc
import XzVerif.Model.Xz
import XzVerif.Model.DictCap
/-
  Proofs.GoSrcXz — the REGENERATED translation of format.go `padLen`, bits.go `readUvarint` (loop over an
  io.ByteReader, shift accumulation in uint64, overflow rule of the tenth byte, an eleventh byte READ before the
  overflow is reported) and lzma/header2.go `decodeDictCap` / `DecodeDictCap` / `EncodeDictCap` (binary search over byte
  codes) refines the hand-written models (Model/Xz.lean, Model/DictCap.lean).  Statements are fixed.
-/
namespace GoSrcP
open GoSrc

theorem padLen_spec (n : BitVec 64) (h : n.toNat < 2 ^ 63) : (padLen n).toNat = Xz.padLen n.toNat := by
  have hm : n.msb = false := by
    rw [BitVec.msb_eq_false_iff_two_mul_lt]; omega
  have h4 : (4#64).msb = false := by decide
  have hk : BitVec.srem n 4#64 = n % 4#64 := by
    simp only [BitVec.srem, hm, h4, BitVec.umod_eq]
  unfold padLen Xz.padLen
  simp only [hk]
  have hk2 : (n % 4#64).toNat = n.toNat % 4 := by simp
  by_cases h0 : n.toNat % 4 = 0
  · have : n % 4#64 = 0#64 := by apply BitVec.eq_of_toNat_eq; simp [h0]
    simp [this, h0, BitVec.slt]
  · have hs : BitVec.slt 0#64 (n % 4#64) = true := by
      simp only [BitVec.slt, BitVec.toInt_eq_toNat_cond, hk2, decide_eq_true_eq]
      simp; omega
    simp only [hs, if_true, BitVec.toNat_sub, hk2]
    simp; omega

theorem decodeDictCap_spec (c : BitVec 8) (h : c.toNat < 40) :
    (decodeDictCap c).toNat = Model.decodeDictCapRaw c.toNat := by
  revert c; decide +kernel

theorem DecodeDictCap_spec (c : BitVec 8) :
    match Model.decodeDictCap c.toNat with
    | some n => DecodeDictCap c = (BitVec.ofNat 64 n, Go.Err.nil)
    | none => ∃ e, DecodeDictCap c = (0#64, e) ∧ e ≠ Go.Err.nil := by
  unfold Model.decodeDictCap DecodeDictCap
  have h40 : Gen.lzma_maxDictCapCode = 40 := rfl
  simp only [h40, ge_iff_le]
  by_cases h1 : 40 ≤ c.toNat
  · have h1' : BitVec.ule 40#8 c = true := by
      simp only [BitVec.ule, decide_eq_true_eq]; exact h1
    simp only [h1, h1', if_true]
    by_cases h2 : c.toNat = 40
    · have : c = 40#8 := BitVec.eq_of_toNat_eq h2
      subst this
      simp
    · have : (c == 40#8) = false := by
        simp only [beq_eq_false_iff_ne, ne_eq]
        intro hc; subst hc; exact h2 rfl
      simp only [h2, this, if_false]
      exact ⟨_, rfl, by simp⟩
  · have h1' : BitVec.ule 40#8 c = false := by
      simp only [BitVec.ule, decide_eq_false_iff_not]; exact h1
    simp only [h1, h1', if_false]
    have := decodeDictCap_spec c (by omega)
    rw [← this]
    simp

theorem raw_lt : ∀ c, c < 40 → Model.decodeDictCapRaw c < 2 ^ 32 := by decide

theorem mid_eq (a b : Nat) (hab : a < b) (hb : b ≤ 40) :
    BitVec.ofNat 8 a + BitVec.ushiftRight (BitVec.ofNat 8 b - BitVec.ofNat 8 a) 1
      = BitVec.ofNat 8 (a + (b - a) / 2) := by
  apply BitVec.eq_of_toNat_eq
  simp only [BitVec.ushiftRight_eq, BitVec.toNat_add, BitVec.toNat_ushiftRight, BitVec.toNat_sub,
    BitVec.toNat_ofNat, Nat.shiftRight_eq_div_pow]
  omega

theorem enc_loop (n : BitVec 64) (hn : n.toNat < 2 ^ 63) :
    ∀ (k g m a b : Nat), a ≤ b → b ≤ 40 → b - a < 2 ^ k → k + 1 ≤ g → k ≤ m →
      (EncodeDictCap_loop1 g n (BitVec.ofNat 8 a) (BitVec.ofNat 8 b)).bind (fun lr_4 =>
        match lr_4 with
        | Sum.inl lr_4 => Go.Res.ok lr_4
        | Sum.inr (_, a, _) => Go.Res.ok a)
      = Go.Res.ok (BitVec.ofNat 8 (Model.encodeLoop m a b n.toNat)) := by
  intro k
  induction k with
  | zero =>
    intro g m a b hab hb hk hg hm
    have : a = b := by omega
    subst this
    obtain ⟨g, rfl⟩ : ∃ g', g = g' + 1 := ⟨g - 1, by omega⟩
    unfold EncodeDictCap_loop1
    have h1 : BitVec.ult (BitVec.ofNat 8 a) (BitVec.ofNat 8 a) = false := by simp [BitVec.ult]
    simp only [h1]
    cases m with
    | zero => simp [Model.encodeLoop]
    | succ m => simp [Model.encodeLoop]
  | succ k ih =>
    intro g m a b hab hb hk hg hm
    obtain ⟨g, rfl⟩ : ∃ g', g = g' + 1 := ⟨g - 1, by omega⟩
    obtain ⟨m, rfl⟩ : ∃ m', m = m' + 1 := ⟨m - 1, by omega⟩
    unfold EncodeDictCap_loop1 Model.encodeLoop
    by_cases hlt : a < b
    · have h1 : BitVec.ult (BitVec.ofNat 8 a) (BitVec.ofNat 8 b) = true := by
        simp only [BitVec.ult, BitVec.toNat_ofNat, decide_eq_true_eq]; omega
      simp only [h1, hlt, if_true, mid_eq a b hlt hb]
      have hc : a + (b - a) / 2 < b := by omega
      have hca : a ≤ a + (b - a) / 2 := by omega
      have hk' : a + (b - a) / 2 - a < 2 ^ k := by omega
      have hk'' : b - (a + (b - a) / 2 + 1) < 2 ^ k := by omega
      generalize a + (b - a) / 2 = c at *
      have hc8 : (BitVec.ofNat 8 c).toNat = c := by simp; omega
      have hd := decodeDictCap_spec (BitVec.ofNat 8 c) (by omega)
      rw [hc8] at hd
      have hr := raw_lt c (by omega)
      generalize decodeDictCap (BitVec.ofNat 8 c) = mm at *
      have hsle : BitVec.sle n mm = decide (n.toNat ≤ Model.decodeDictCapRaw c) := by
        rw [← hd]; simp only [BitVec.sle, BitVec.toInt_eq_toNat_cond]
        congr 1; apply propext; omega
      have heq : (n == mm) = decide (n.toNat = Model.decodeDictCapRaw c) := by
        rw [← hd]
        by_cases h : n = mm
        · subst h; simp
        · have : ¬ n.toNat = mm.toNat := fun h' => h (BitVec.eq_of_toNat_eq h')
          simp [h, this]
      simp only [hsle, heq]
      by_cases hle : n.toNat ≤ Model.decodeDictCapRaw c
      · by_cases hee : n.toNat = Model.decodeDictCapRaw c
        · simp [hee]
        · simp only [hle, hee, decide_true, decide_false, if_true]
          exact ih g m a c hca (by omega) hk' (by omega) (by omega)
      · simp only [hle, decide_false]
        have : BitVec.ofNat 8 c + 1#8 = BitVec.ofNat 8 (c + 1) := by
          apply BitVec.eq_of_toNat_eq; simp
        simp only [this]
        exact ih g m (c + 1) b (by omega) hb hk'' (by omega) (by omega)
    · have : a = b := by omega
      subst this
      have h1 : BitVec.ult (BitVec.ofNat 8 a) (BitVec.ofNat 8 a) = false := by simp [BitVec.ult]
      simp [h1]

/-- the binary search of `EncodeDictCap` as written in Go (byte arithmetic for the codes, signed 64-bit comparison
    of the capacity) computes `Model.encodeDictCap` for every non-negative int64; it never runs out of the loop bound -/
theorem EncodeDictCap_spec (n : BitVec 64) (hn : n.toNat < 2 ^ 63) (fuel : Nat) (hf : 8 ≤ fuel) :
    EncodeDictCap fuel n = Go.Res.ok (BitVec.ofNat 8 (Model.encodeDictCap n.toNat)) := by
  unfold EncodeDictCap Model.encodeDictCap
  exact enc_loop n hn 6 fuel 41 0 40 (by omega) (by omega) (by omega) (by omega) (by omega)

/-- the bytes `b[pos, lim)` as a byte source -/
def sliceBV (b : ByteArray) (pos lim : Nat) : List (BitVec 8) :=
  (List.range (lim - pos)).map (fun k => BitVec.ofNat 8 (Lzma2.get b (pos + k)))

theorem sliceBV_nil (b : ByteArray) (p lim : Nat) (h : lim ≤ p) : sliceBV b p lim = [] := by
  unfold sliceBV
  have : lim - p = 0 := by omega
  rw [this]; rfl

theorem sliceBV_cons (b : ByteArray) (p lim : Nat) (h : p < lim) :
    sliceBV b p lim = BitVec.ofNat 8 (Lzma2.get b p) :: sliceBV b (p + 1) lim := by
  unfold sliceBV
  have : lim - p = (lim - (p + 1)) + 1 := by omega
  rw [this, List.range_succ_eq_map, List.map_cons, List.map_map]
  congr 1
  apply List.map_congr_left
  intro k _
  simp only [Function.comp, Nat.succ_eq_add_one]
  congr 2; omega

theorem get_lt (b : ByteArray) (p : Nat) : Lzma2.get b p < 256 := by
  unfold Lzma2.get; exact UInt8.toNat_lt _

/-- `x | c<<s = x + c*2^s` in uint64 when `x < 2^s` and nothing is shifted out -/
theorem or_shift (X c s : Nat) (hX : X < 2 ^ s) (hc : c < 256) (hs : s < 64) (hb : X + c * 2 ^ s < 2 ^ 64) :
    BitVec.ofNat 64 X ||| BitVec.shiftLeft (BitVec.setWidth 64 (BitVec.ofNat 8 c)) (BitVec.ofNat 64 s).toNat
      = BitVec.ofNat 64 (X + c * 2 ^ s) := by
  apply BitVec.eq_of_toNat_eq
  have hs' : s % 2 ^ 64 = s := Nat.mod_eq_of_lt (by omega)
  have hc' : c % 2 ^ 8 = c := Nat.mod_eq_of_lt (by omega)
  have hX64 : X < 2 ^ 64 := by
    have : c * 2 ^ s ≥ 0 := Nat.zero_le _
    omega
  have hcs : c * 2 ^ s < 2 ^ 64 := by omega
  have hc64 : c % 2 ^ 64 = c := Nat.mod_eq_of_lt (by omega)
  simp only [BitVec.shiftLeft_eq, BitVec.toNat_or, BitVec.toNat_shiftLeft, BitVec.toNat_setWidth,
    BitVec.toNat_ofNat, hs', hc', hc64, Nat.shiftLeft_eq]
  rw [Nat.mod_eq_of_lt hX64, Nat.mod_eq_of_lt hcs, Nat.mod_eq_of_lt hb]
  rw [← Nat.shiftLeft_eq, Nat.or_comm, Nat.add_comm]
  exact (Nat.shiftLeft_add_eq_or_of_lt hX c).symm

theorem and127 (c : Nat) : BitVec.ofNat 8 c &&& 127#8 = BitVec.ofNat 8 (c % 128) := by
  apply BitVec.eq_of_toNat_eq
  have := Nat.and_two_pow_sub_one_eq_mod (c % 2 ^ 8) 7
  simp only [BitVec.toNat_and, BitVec.toNat_ofNat]
  simp only [Nat.reducePow, Nat.reduceSub, Nat.reduceMod] at this ⊢
  rw [this]; omega

theorem step_bound (X d s : Nat) (hX : X < 2 ^ s) (hd : d < 128) : X + d * 2 ^ s < 2 ^ (s + 7) := by
  have h1 : (d + 1) * 2 ^ s ≤ 128 * 2 ^ s := Nat.mul_le_mul_right _ (by omega)
  rw [Nat.add_mul] at h1
  rw [Nat.pow_add]
  omega

theorem readByte_nil : Go.ByteReader.ReadByte { inp := [] } = (0#8, Go.Err.named "io.EOF", { inp := [] }) := rfl
theorem readByte_cons (c : BitVec 8) (t : List (BitVec 8)) :
    Go.ByteReader.ReadByte { inp := c :: t } = (c, Go.Err.nil, { inp := t }) := rfl

theorem uv_loop (b : ByteArray) (pos lim : Nat) :
    ∀ (m i X S g : Nat) (x n0 : BitVec 64) (err0 : Go.Err), i ≤ 10 → 11 ≤ m + i → m ≤ g → S = 7 * i →
      (i < 10 → x = BitVec.ofNat 64 X ∧ X < 2 ^ S) →
      match Xz.readUvarint.go b pos lim m i X S with
      | .ok xv nv => ∃ r', readUvarint_loop1 g { inp := sliceBV b (pos + i) lim } x n0 err0
                          (BitVec.ofNat 64 S) (BitVec.ofNat 64 i)
                        = Go.Res.ok (Sum.inl (BitVec.ofNat 64 xv, BitVec.ofNat 64 nv, Go.Err.nil, r'))
                      ∧ r'.inp = sliceBV b (pos + nv) lim ∧ xv < 2 ^ 64
      | .eof nv => ∃ xv r', readUvarint_loop1 g { inp := sliceBV b (pos + i) lim } x n0 err0
                          (BitVec.ofNat 64 S) (BitVec.ofNat 64 i)
                        = Go.Res.ok (Sum.inl (xv, BitVec.ofNat 64 nv, Go.Err.named "io.EOF", r'))
      | .overflow => ∃ xv nv r', readUvarint_loop1 g { inp := sliceBV b (pos + i) lim } x n0 err0
                          (BitVec.ofNat 64 S) (BitVec.ofNat 64 i)
                        = Go.Res.ok (Sum.inl (xv, nv, Go.Err.named "errOverflowU64", r')) := by
  intro m
  induction m with
  | zero => intro i X S g x n0 err0 hi hm; omega
  | succ m ih =>
    intro i X S g x n0 err0 hi hm hg hS hinv
    obtain ⟨g, rfl⟩ : ∃ g', g = g' + 1 := ⟨g - 1, by omega⟩
    unfold readUvarint_loop1 Xz.readUvarint.go
    by_cases hend : pos + i ≥ lim
    · simp only [hend, if_true, sliceBV_nil b _ _ hend, readByte_nil]
      exact ⟨_, _, rfl⟩
    · have hne : (Go.Err.nil != Go.Err.nil) = false := by decide
      have hi1 : BitVec.ofNat 64 i + 1#64 = BitVec.ofNat 64 (i + 1) := by
        apply BitVec.eq_of_toNat_eq; simp
      simp only [hend, if_false, sliceBV_cons b _ _ (Nat.lt_of_not_ge hend), readByte_cons, hne, hi1]
      have hc := get_lt b (pos + i)
      generalize Lzma2.get b (pos + i) = c at hc ⊢
      have hslt : BitVec.slt 10#64 (BitVec.ofNat 64 (i + 1)) = decide (i ≥ 10) := by
        simp only [BitVec.slt, BitVec.toInt_eq_toNat_cond, BitVec.toNat_ofNat]
        congr 1; apply propext; omega
      have hult : BitVec.ult (BitVec.ofNat 8 c) 128#8 = decide (c < 128) := by
        simp only [BitVec.ult, BitVec.toNat_ofNat]
        congr 1; apply propext; omega
      have hult1 : BitVec.ult 1#8 (BitVec.ofNat 8 c) = decide (c > 1) := by
        simp only [BitVec.ult, BitVec.toNat_ofNat]
        congr 1; apply propext; omega
      have hbeq : (BitVec.ofNat 64 (i + 1) == 10#64) = decide (i + 1 = 10) := by
        by_cases h : i + 1 = 10
        · simp [h]
        · have : ¬ BitVec.ofNat 64 (i + 1) = 10#64 := by
            intro h'
            have := congrArg BitVec.toNat h'
            simp only [BitVec.toNat_ofNat] at this
            omega
          simp [h, this]
      have hff : (false = true) = False := by simp
      simp only [hslt, hult, hult1, hbeq, hff, if_false]
      by_cases h10 : i ≥ 10
      · simp only [h10, decide_true, if_true]
        exact ⟨_, _, _, rfl⟩
      · obtain ⟨hx, hX⟩ := hinv (by omega)
        subst hx
        have hS63 : S < 64 := by omega
        simp only [h10, decide_false, if_false]
        by_cases h128 : c < 128
        · simp only [h128, decide_true, if_true]
          by_cases hov : i + 1 = 10 ∧ c > 1
          · simp only [hov.1, hov.2, and_self, decide_true, Bool.and_self, if_true]
            exact ⟨_, _, _, rfl⟩
          · have hov' : (decide (i + 1 = 10) && decide (c > 1)) = false := by
              simp only [Bool.and_eq_false_iff, decide_eq_false_iff_not]; omega
            simp only [hov, hov', if_false]
            have hb : X + c * 2 ^ S < 2 ^ 64 := by
              by_cases h9 : i + 1 = 10
              · have : S = 63 := by omega
                subst this
                have : c ≤ 1 := by omega
                have : c * 2 ^ 63 ≤ 1 * 2 ^ 63 := Nat.mul_le_mul_right _ this
                omega
              · have h1 := step_bound X c S hX h128
                have h2 : 2 ^ (S + 7) ≤ 2 ^ 63 := Nat.pow_le_pow_right (by omega) (by omega)
                omega
            rw [or_shift X c S hX hc hS63 hb]
            exact ⟨_, rfl, by simp only [Nat.add_assoc], hb⟩
        · simp only [h128, decide_false, if_false]
          have hS7 : BitVec.ofNat 64 S + 7#64 = BitVec.ofNat 64 (S + 7) := by
            apply BitVec.eq_of_toNat_eq; simp
          rw [and127, hS7]
          have := ih (i + 1) (X + c % 128 * 2 ^ S) (S + 7) g
            (BitVec.ofNat 64 X ||| BitVec.shiftLeft (BitVec.setWidth 64 (BitVec.ofNat 8 (c % 128)))
              (BitVec.ofNat 64 S).toNat) n0 err0 (by omega) (by omega) (by omega) (by omega) (by
              intro h9
              have h1 := step_bound X (c % 128) S hX (by omega)
              have h2 : 2 ^ (S + 7) ≤ 2 ^ 63 := Nat.pow_le_pow_right (by omega) (by omega)
              exact ⟨or_shift X (c % 128) S hX (by omega) hS63 (by omega), h1⟩)
          simp only [Nat.add_assoc] at this ⊢
          exact this

theorem readUvarint_spec (b : ByteArray) (pos lim : Nat) (hl : lim ≤ b.size) (fuel : Nat) (hf : 12 ≤ fuel) :
    match Xz.readUvarint b pos lim with
    | .ok x n => ∃ r', readUvarint fuel { inp := sliceBV b pos lim }
                        = Go.Res.ok (BitVec.ofNat 64 x, BitVec.ofNat 64 n, Go.Err.nil, r')
                      ∧ r'.inp = sliceBV b (pos + n) lim ∧ x < 2 ^ 64
    | .eof n => ∃ x r', readUvarint fuel { inp := sliceBV b pos lim }
                        = Go.Res.ok (x, BitVec.ofNat 64 n, Go.Err.named "io.EOF", r')
    | .overflow => ∃ x n r', readUvarint fuel { inp := sliceBV b pos lim }
                        = Go.Res.ok (x, n, Go.Err.named "errOverflowU64", r') := by
  have _ := hl
  have := uv_loop b pos lim 11 0 0 0 fuel 0#64 0#64 Go.Err.nil (by omega) (by omega) (by omega) (by omega)
    (by intro _; exact ⟨rfl, by omega⟩)
  unfold readUvarint Xz.readUvarint
  simp only [Nat.add_zero] at this
  generalize Xz.readUvarint.go b pos lim 11 0 0 0 = res at this ⊢
  cases res with
  | ok xv nv =>
    obtain ⟨r', h1, h2, h3⟩ := this
    refine ⟨r', ?_, h2, h3⟩
    simp only [h1, Go.Res.bind_ok]
  | eof nv =>
    obtain ⟨xv, r', h1⟩ := this
    refine ⟨xv, r', ?_⟩
    simp only [h1, Go.Res.bind_ok]
  | overflow =>
    obtain ⟨xv, nv, r', h1⟩ := this
    refine ⟨xv, nv, r', ?_⟩
    simp only [h1, Go.Res.bind_ok]

end GoSrcP
