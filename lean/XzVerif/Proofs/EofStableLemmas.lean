import XzVerif.Proofs.LazyXz

/-! helper lemmas for Proofs/EofStable.lean -/
namespace EofStable
open Lzma Rc Ring LazyDec

/-! ### schedules that go on after the end: the generic argument -/

def seqG {σ : Type} (step : σ → Nat → σ × ByteArray × RStat) : σ → List Nat → List (ByteArray × RStat)
  | _, [] => []
  | s, len :: rest => ((step s len).2.1, (step s len).2.2) :: seqG step (step s len).1 rest

/-- what a call on a reader that has reported the end returns -/
def AfterEnd (zeroOk : Bool) (len : Nat) (r : ByteArray × RStat) : Prop :=
  r.1 = ByteArray.empty ∧ (r.2 = .eof ∨ (zeroOk = true ∧ len = 0 ∧ r.2 = .ok))

theorem seqG_dead {σ : Type} (step : σ → Nat → σ × ByteArray × RStat) (zeroOk : Bool) (Dead : σ → Prop)
    (hd : ∀ s len, Dead s → Dead (step s len).1 ∧ AfterEnd zeroOk len ((step s len).2.1, (step s len).2.2)) :
    ∀ (lens : List Nat) (s : σ), Dead s → ∀ j, j < (seqG step s lens).length →
      AfterEnd zeroOk lens[j]! (seqG step s lens)[j]! := by
  intro lens
  induction lens with
  | nil => intro s _ j hj; simp [seqG] at hj
  | cons len rest ih =>
    intro s hs j hj
    obtain ⟨h1, h2⟩ := hd s len hs
    cases j with
    | zero => simpa [seqG] using h2
    | succ j =>
      simp only [seqG, List.length_cons] at hj
      have := ih _ h1 j (by omega)
      simpa [seqG] using this

/-- "once the end has been reported, nothing but the end follows", for every schedule -/
theorem seqG_stable {σ : Type} (step : σ → Nat → σ × ByteArray × RStat) (zeroOk : Bool) (W Dead : σ → Prop)
    (hw : ∀ s len, W s → W (step s len).1 ∧ ((step s len).2.2 = .eof → Dead (step s len).1))
    (hd : ∀ s len, Dead s → Dead (step s len).1 ∧ AfterEnd zeroOk len ((step s len).2.1, (step s len).2.2)) :
    ∀ (lens : List Nat) (s : σ), W s → ∀ i j, i < j → j < (seqG step s lens).length →
      ((seqG step s lens)[i]!).2 = .eof → AfterEnd zeroOk lens[j]! (seqG step s lens)[j]! := by
  intro lens
  induction lens with
  | nil => intro s _ i j _ hj; simp [seqG] at hj
  | cons len rest ih =>
    intro s hs i j hij hj he
    obtain ⟨h1, h2⟩ := hw s len hs
    cases j with
    | zero => omega
    | succ j =>
      simp only [seqG, List.length_cons] at hj
      cases i with
      | zero =>
        have hdead := h2 (by simpa [seqG] using he)
        have := seqG_dead step zeroOk Dead hd rest _ hdead j (by omega)
        simpa [seqG] using this
      | succ i =>
        have := ih _ h1 i j (by omega) (by omega) (by simpa [seqG] using he)
        simpa [seqG] using this


/-! ### LZMA2: the end is stored -/

theorem readLoop2_eof (len : Nat) : ∀ (fuel : Nat) (r : LazyDec2.R2) (acc : ByteArray),
    (LazyDec2.readLoop len fuel r acc).2.2 = .eof → (LazyDec2.readLoop len fuel r acc).1.err = some .eof := by
  intro fuel
  induction fuel with
  | zero => intro r acc h; simp [LazyDec2.readLoop] at h
  | succ fuel ih =>
    intro r acc h
    rw [LazyDec2.readLoop] at h ⊢
    by_cases hlt : acc.size < len
    swap
    · rw [if_neg hlt] at h; cases h
    rw [if_pos hlt] at h ⊢
    rcases hcr : LazyDec2.chunkRead r (len - acc.size) with ⟨r1, chunk, st⟩
    rw [hcr] at h
    simp only at h ⊢
    cases st with
    | ok =>
      simp only at h ⊢
      by_cases c : chunk.size = 0
      · rw [if_pos c] at h; cases h
      · rw [if_neg c] at h ⊢; exact ih _ _ h
    | eof =>
      simp only at h ⊢
      rcases hsc : LazyDec2.startChunk (if r1.cur = .lz then { r1 with pos := r1.segEnd - r1.l.rd.inp.length } else r1)
        with ⟨r3, st'⟩
      rw [hsc] at h
      cases st' with
      | ok => exact ih _ _ h
      | eof => rfl
      | err e => cases h
    | err e => cases h

theorem read2_step (r : LazyDec2.R2) (len : Nat) :
    (True → True ∧ ((LazyDec2.read r len).2.2 = .eof → (LazyDec2.read r len).1.err = some .eof)) ∧
    (r.err = some .eof → (LazyDec2.read r len).1.err = some .eof ∧
      AfterEnd false len ((LazyDec2.read r len).2.1, (LazyDec2.read r len).2.2)) := by
  constructor
  · intro _
    refine ⟨trivial, fun h => ?_⟩
    unfold LazyDec2.read at h ⊢
    cases he : r.err with
    | none => rw [he] at h; exact readLoop2_eof _ _ _ _ h
    | some e => rw [he] at h; simp only at h ⊢; rw [he, h]
  · intro he
    unfold LazyDec2.read
    rw [he]
    exact ⟨he, rfl, Or.inl rfl⟩

/-! ### xz: after the end the reader stands between streams at the end of the input -/

open LazyXz in
def DeadX (x : LazyXz.X) : Prop :=
  x.sr = none ∧
  (if x.single then ¬ x.pos < x.inp.size else LazyXz.readLoop.skip x (x.inp.size / 4 + 2) x.pos = .fail .eof) ∧
  x.srcErr = false

theorem readLoopX_eof (len : Nat) : ∀ (fuel : Nat) (x : LazyXz.X) (acc : ByteArray),
    (LazyXz.readLoop len fuel x acc).2.2 = .eof → DeadX (LazyXz.readLoop len fuel x acc).1 := by
  intro fuel
  induction fuel with
  | zero => intro x acc h; simp [LazyXz.readLoop] at h
  | succ fuel ih =>
    intro x acc h
    rw [LazyXz.readLoop] at h ⊢
    by_cases hlt : acc.size < len
    swap
    · rw [if_neg hlt] at h; cases h
    rw [if_pos hlt] at h ⊢
    cases hsr : x.sr with
    | none =>
      rw [hsr] at h
      simp only at h ⊢
      by_cases hs : x.single = true
      · rw [if_pos hs] at h ⊢
        by_cases hp : x.pos < x.inp.size
        · rw [if_pos hp] at h; cases h
        · rw [if_neg hp] at h ⊢
          have hse : x.srcErr = false := by
            cases hb : x.srcErr with
            | false => rfl
            | true => rw [hb] at h; cases h
          exact ⟨hsr, by rw [if_pos hs]; exact hp, hse⟩
      · rw [if_neg hs] at h ⊢
        cases hsk : LazyXz.readLoop.skip x (x.inp.size / 4 + 2) x.pos with
        | ok sr pos => rw [hsk] at h; exact ih _ _ h
        | fail st =>
          rw [hsk] at h
          simp only at h ⊢
          subst h
          exact ⟨hsr, by rw [if_neg hs]; exact hsk, LazyXz.skip_fail_eof _ _ _ hsk⟩
        | padding p => rw [hsk] at h; cases h
    | some sr =>
      rw [hsr] at h
      simp only at h ⊢
      rcases hst : LazyXz.streamRead (len - acc.size) (len - acc.size + x.inp.size + 4) x sr ByteArray.empty
        with ⟨x', sr', out, st⟩
      rw [hst] at h
      cases st with
      | ok => exact ih _ _ h
      | eof => exact ih _ _ h
      | err e => cases h

theorem readX_step (x : LazyXz.X) (len : Nat) :
    (True → True ∧ ((LazyXz.read x len).2.2 = .eof → DeadX (LazyXz.read x len).1)) ∧
    (DeadX x → DeadX (LazyXz.read x len).1 ∧ AfterEnd true len ((LazyXz.read x len).2.1, (LazyXz.read x len).2.2)) := by
  constructor
  · intro _
    exact ⟨trivial, fun h => readLoopX_eof _ _ _ _ h⟩
  · intro hd
    obtain ⟨h1, h2, h3⟩ := hd
    unfold LazyXz.read
    rw [show len + x.inp.size + 4 = (len + x.inp.size + 3) + 1 by omega, LazyXz.readLoop]
    have he : ByteArray.empty.size = 0 := rfl
    by_cases h0 : len = 0
    · rw [if_neg (by rw [he, h0]; omega)]
      exact ⟨⟨h1, h2, h3⟩, rfl, Or.inr ⟨rfl, h0, rfl⟩⟩
    · rw [if_pos (by rw [he]; omega), h1]
      simp only
      by_cases hs : x.single = true
      · rw [if_pos hs] at h2 ⊢
        rw [if_neg h2, LazyXz.ite_src h3]
        exact ⟨⟨h1, by rw [if_pos hs]; exact h2, h3⟩, rfl, Or.inl rfl⟩
      · rw [if_neg hs] at h2 ⊢
        rw [h2]
        exact ⟨⟨h1, by rw [if_neg hs]; exact h2, h3⟩, rfl, Or.inl rfl⟩

/-! ### classic: the ring stays a ring whatever happens; the end is reported only with an empty ring -/

def WD (d : DDict) : Prop := ∃ (a : Abs) (cap base : Nat), d.RelB a cap base

def W1 (l : LSt) : Prop := WD l.dict

def Dead1 (l : LSt) : Prop := l.eos = true ∧ ∃ (a : Abs) (cap base : Nat), l.dict.RelB a cap base ∧ a.W.length = a.r

theorem WD_writeByte {d d' : DDict} {c : UInt8} (h : WD d) (hw : d.writeByte c = some d') : WD d' := by
  obtain ⟨a, cap, base, hr⟩ := h
  have hfit := hr.buf.fit
  by_cases hlt : a.W.length - a.r < cap
  · obtain ⟨d2, e1, e2⟩ := relB_writeByte d a cap base hr c hlt
    rw [hw] at e1
    cases e1
    exact ⟨_, cap, base, e2⟩
  · have := (writeByte_rel d.buf a cap hr.buf c).2 (by omega)
    simp only [DDict.writeByte, this] at hw
    cases hw

theorem WD_writeMatch {d d' : DDict} {dist len : Nat} (h : WD d) (hw : d.writeMatch dist len = .ok d') : WD d' := by
  obtain ⟨a, cap, base, hr⟩ := h
  have hav := available_eq d.buf a cap hr.buf
  have hdl := hr.dictLen_eq
  unfold DDict.writeMatch at hw
  by_cases c1 : ¬ (0 < dist ∧ dist ≤ d.dictLen)
  · rw [if_pos c1] at hw; cases hw
  rw [if_neg c1] at hw
  by_cases c2 : ¬ (0 < len ∧ len ≤ 273)
  · rw [if_pos c2] at hw; cases hw
  rw [if_neg c2] at hw
  by_cases c3 : len > d.buf.available
  · rw [if_pos c3] at hw; cases hw
  have hw0 : d.writeMatch dist len = .ok d' := by
    unfold DDict.writeMatch
    rw [if_neg c1, if_neg c2, if_neg c3]
    rw [if_neg c3] at hw
    exact hw
  obtain ⟨d2, e1, e2⟩ := (relB_writeMatch d a cap base hr dist len).2 (by rw [← hdl]; exact not_not.mp c1)
    (not_not.mp c2) (by omega)
  rw [hw0] at e1
  cases e1
  exact ⟨_, cap, base, e2⟩

theorem apply_W {l l' : LSt} {o : RawOp} (h : W1 l) (ha : apply l o = .ok l') : W1 l' := by
  have hwm : ∀ dist len, wmRes l dist len = .ok l' → W1 l' := by
    intro dist len hh
    unfold wmRes at hh
    split at hh
    · rename_i d hd
      cases hh
      exact WD_writeMatch h hd
    all_goals cases hh
  cases o with
  | lit b =>
    simp only [apply] at ha
    split at ha
    · rename_i d hd
      cases ha
      exact WD_writeByte h hd
    · cases ha
  | mtch len dd => exact hwm _ _ (by rw [← apply_mtch]; exact ha)
  | rep g len => exact hwm _ _ (by rw [← apply_rep]; exact ha)
  | shortRep => exact hwm _ _ (by rw [← apply_shortRep]; exact ha)

def orSt : OpRes → LSt
  | .op _ l => l
  | .marker l => l
  | .dry l => l

theorem readOp_dict (l : LSt) : (orSt (readOp l)).dict = l.dict := by
  cases hres : decTree pm (opDec l.ctx) l.tbl l.rd with
  | none => rw [readOp_none l hres]; rfl
  | some x =>
    obtain ⟨o, tbl', rd'⟩ := x
    rw [readOp_some l o tbl' rd' hres]
    split_ifs <;> rfl

def drSt : DRes → LSt
  | .more l => l
  | .eof l => l
  | .err l _ => l

theorem tail_W {l : LSt} (h : W1 l) : W1 (drSt (tail l)) := by
  unfold tail
  split_ifs
  · exact h
  · have := readOp_dict l
    cases hr : readOp l <;> rw [hr] at this <;> simp only [orSt] at this <;> simp only [drSt, W1, this] <;> exact h

theorem fill_W : ∀ (fuel : Nat) (l : LSt), W1 l → W1 (drSt (fill fuel l)) := by
  intro fuel
  induction fuel with
  | zero => intro l h; exact h
  | succ fuel ih =>
    intro l h
    rw [fill]
    split_ifs
    swap
    · exact h
    have hd := readOp_dict l
    cases hr : readOp l with
    | dry l' =>
      rw [hr] at hd
      simp only [orSt] at hd
      simp only
      split_ifs <;> (simp only [drSt, W1, hd]; exact h)
    | marker l' =>
      rw [hr] at hd
      simp only [orSt] at hd
      simp only
      have hw : W1 ({ l' with eos := true } : LSt) := by simp only [W1, hd]; exact h
      split_ifs
      · exact hw
      · split
        · split_ifs <;> exact hw
        · exact hw
    | op o l' =>
      rw [hr] at hd
      simp only [orSt] at hd
      have hw' : W1 l' := by simp only [W1, hd]; exact h
      simp only
      cases ha : apply l' o with
      | error e => exact hw'
      | ok l'' =>
        have hw2 := apply_W hw' ha
        simp only
        split
        · split_ifs
          · exact hw2
          · exact tail_W (l := { l'' with eos := true }) hw2
          · exact ih _ hw2
        · exact ih _ hw2

theorem decompress_W {l : LSt} (h : W1 l) : W1 (drSt (decompress l)) := by
  unfold decompress
  split_ifs
  · exact h
  · exact tail_W (l := { l with eos := true }) h
  · exact fill_W _ _ h

theorem readLoop1_spec (len : Nat) : ∀ (fuel : Nat) (l : LSt) (acc : ByteArray), W1 l → acc.size < len →
    W1 (LazyDec.readLoop len fuel l acc).1 ∧
    ((LazyDec.readLoop len fuel l acc).2.2 = .eof → Dead1 (LazyDec.readLoop len fuel l acc).1) := by
  intro fuel
  induction fuel with
  | zero => intro l acc h _; exact ⟨h, fun hh => by simp [LazyDec.readLoop] at hh⟩
  | succ fuel ih =>
    intro l acc h hlt
    obtain ⟨a, cap, base, hr⟩ := h
    obtain ⟨r1, r2⟩ := relB_read l.dict a cap base hr (len - acc.size)
    have hrle := hr.buf.rle
    rw [LazyDec.readLoop]
    rcases hrd : l.dict.read (len - acc.size) with ⟨d', chunk⟩
    rw [hrd] at r1 r2
    simp only at r1 r2 ⊢
    have hw1 : W1 ({ l with dict := d' } : LSt) := ⟨_, cap, base, r2⟩
    by_cases c1 : chunk.size = 0 ∧ l.eos = true
    · rw [if_pos c1]
      refine ⟨hw1, fun _ => ⟨c1.2, _, cap, base, r2, ?_⟩⟩
      have := congrArg List.length r1
      rw [length_toList, List.length_take, List.length_drop, c1.1] at this
      simp only
      omega
    rw [if_neg c1]
    by_cases c2 : (acc ++ chunk).size ≥ len
    · rw [if_pos c2]
      exact ⟨hw1, fun hh => by cases hh⟩
    rw [if_neg c2]
    have hdw := decompress_W hw1
    cases hdc : decompress ({ l with dict := d' } : LSt) with
    | err l' e =>
      rw [hdc] at hdw
      exact ⟨hdw, fun hh => by cases hh⟩
    | more l' =>
      rw [hdc] at hdw
      exact ih l' _ hdw (by omega)
    | eof l' =>
      rw [hdc] at hdw
      exact ih l' _ hdw (by omega)

theorem read1_step (l : LSt) (len : Nat) :
    (W1 l → W1 (LazyDec.read l len).1 ∧ ((LazyDec.read l len).2.2 = .eof → Dead1 (LazyDec.read l len).1)) ∧
    (Dead1 l → Dead1 (LazyDec.read l len).1 ∧
      AfterEnd true len ((LazyDec.read l len).2.1, (LazyDec.read l len).2.2)) := by
  constructor
  · intro h
    unfold LazyDec.read
    by_cases h0 : len = 0
    · rw [if_pos h0]; exact ⟨h, fun hh => by cases hh⟩
    · rw [if_neg h0]
      exact readLoop1_spec len _ l ByteArray.empty h (by show 0 < len; omega)
  · intro hd
    obtain ⟨he, a, cap, base, hr, hlen⟩ := hd
    unfold LazyDec.read
    by_cases h0 : len = 0
    · rw [if_pos h0]; exact ⟨⟨he, a, cap, base, hr, hlen⟩, rfl, Or.inr ⟨rfl, h0, rfl⟩⟩
    · rw [if_neg h0, show len + 3 = (len + 2) + 1 by omega, LazyDec.readLoop]
      obtain ⟨r1, r2⟩ := relB_read l.dict a cap base hr (len - ByteArray.empty.size)
      rcases hrd : l.dict.read (len - ByteArray.empty.size) with ⟨d', chunk⟩
      rw [hrd] at r1 r2
      simp only at r1 r2 ⊢
      have hcs : chunk.size = 0 := by
        rw [← length_toList, r1, List.length_take, List.length_drop]; omega
      rw [if_pos ⟨hcs, he⟩]
      exact ⟨⟨he, _, cap, base, r2, by simp only; omega⟩, rfl, Or.inl rfl⟩
end EofStable
