import XzVerif.Model.ReadLoops
/-
  Proofs.ReadLoops — the loops of `decoder.Read` and of the chaining readers refine the
  caller-visible contract `ReadLoop.readCall`.  Core-only.
-/
namespace ReadLoops
open ReadLoop

variable {α : Type}

/-! ### facts about the contract -/

theorem readCall_append_lt (b P : List α) (m : Nat) (h : b.length < m) :
    readCall (b ++ P) m =
      (b ++ (readCall P (m - b.length)).1, (readCall P (m - b.length)).2.1,
        (readCall P (m - b.length)).2.2) := by
  unfold readCall
  have h1 : m ≠ 0 := by omega
  have h2 : m - b.length ≠ 0 := by omega
  simp only [h1, h2, if_false, List.length_append]
  by_cases h3 : P.length < m - b.length
  · have h4 : b.length + P.length < m := by omega
    simp [h3, h4]
  · have h4 : ¬ b.length + P.length < m := by omega
    simp [h3, h4, List.take_append, List.drop_append,
      List.take_of_length_le (Nat.le_of_lt h), List.drop_of_length_le (Nat.le_of_lt h)]

theorem readCall_append_ge (b P : List α) (m : Nat) (h0 : m ≠ 0) (h : m ≤ b.length) :
    readCall (b ++ P) m = (b.take m, false, b.drop m ++ P) := by
  unfold readCall
  have h4 : ¬ b.length + P.length < m := by omega
  have h5 : m - b.length = 0 := by omega
  simp [h0, h4, List.take_append, List.drop_append, h5]

theorem readCall_nil (m : Nat) (h0 : m ≠ 0) :
    readCall ([] : List α) m = ([], true, []) := by
  unfold readCall
  have : 0 < m := by omega
  simp [h0, this]

/-! ### `decoder.Read` -/

/-- the invariant: once `eos` is set nothing is pending -/
def Dec.Inv (d : Dec α) : Prop := d.eos = true → d.pending = []

theorem Dec.decompress_content (d : Dec α) : d.decompress.content = d.content := by
  unfold Dec.decompress Dec.content
  by_cases he : d.eos = true
  · simp [he]
  · cases hp : d.pending with
    | nil => simp [he]
    | cons c rest => simp [he, List.append_assoc]

theorem Dec.decompress_inv (d : Dec α) (h : d.Inv) : d.decompress.Inv := by
  unfold Dec.decompress Dec.Inv at *
  by_cases he : d.eos = true
  · simpa [he] using h
  · cases hp : d.pending with
    | nil => simp [he]
    | cons c rest => simp [he, List.isEmpty_iff]

/-- iterations the loop still needs -/
def Dec.need (d : Dec α) : Nat :=
  if d.eos then (if d.buffered.length = 0 then 1 else 2) else d.pending.length + 2

theorem Dec.need_le (d : Dec α) : d.need ≤ d.pending.length + 2 := by
  unfold Dec.need
  split
  · split <;> omega
  · omega

/-- fuel for the state after taking the whole buffer and calling `decompress` -/
theorem Dec.need_step (d : Dec α) (fuel : Nat) (hf : d.need ≤ fuel + 1)
    (hne : ¬ (d.buffered.length = 0 ∧ d.eos = true)) :
    (Dec.decompress { d with buffered := [] }).need ≤ fuel := by
  unfold Dec.need at hf
  unfold Dec.decompress Dec.need
  by_cases he : d.eos = true
  · have hb : d.buffered.length ≠ 0 := fun hb => hne ⟨hb, he⟩
    simp [he, hb] at hf
    simp [he]; omega
  · simp [he] at hf
    cases hp : d.pending with
    | nil => simp [he]; rw [hp] at hf; simp at hf; omega
    | cons c rest =>
      rw [hp] at hf; simp at hf
      simp [he]
      split
      · split <;> omega
      · omega

/-- generalised loop lemma -/
theorem Dec.readLoop_spec (fuel : Nat) : ∀ (d : Dec α) (n : Nat) (acc : List α),
    d.Inv → acc.length < n → d.need ≤ fuel →
    (Dec.readLoop fuel d n acc).1 = acc ++ (readCall d.content (n - acc.length)).1 ∧
    (Dec.readLoop fuel d n acc).2.1 = (readCall d.content (n - acc.length)).2.1 ∧
    (Dec.readLoop fuel d n acc).2.2.content = (readCall d.content (n - acc.length)).2.2 ∧
    (Dec.readLoop fuel d n acc).2.2.Inv := by
  induction fuel with
  | zero =>
    intro d n acc _ _ hf
    unfold Dec.need at hf
    exfalso
    split at hf
    · split at hf <;> omega
    · omega
  | succ fuel ih =>
    intro d n acc hinv hacc hf
    have hm0 : n - acc.length ≠ 0 := by omega
    unfold Dec.readLoop
    by_cases hge : n - acc.length ≤ d.buffered.length
    · -- the buffer satisfies the request
      have hk : min (n - acc.length) d.buffered.length = n - acc.length := Nat.min_eq_left hge
      have hlen : (acc ++ d.buffered.take (n - acc.length)).length ≥ n := by
        simp [List.length_append, List.length_take, hk]; omega
      simp only [hk]
      rw [if_neg (by intro h; exact hm0 h.1), if_pos hlen]
      have hc : readCall d.content (n - acc.length)
          = (d.buffered.take (n - acc.length), false,
              d.buffered.drop (n - acc.length) ++ d.pending.flatten) := by
        unfold Dec.content
        exact readCall_append_ge _ _ _ hm0 hge
      rw [hc]
      refine ⟨rfl, rfl, rfl, ?_⟩
      exact hinv
    · have hlt : d.buffered.length < n - acc.length := by omega
      have hk : min (n - acc.length) d.buffered.length = d.buffered.length :=
        Nat.min_eq_right (Nat.le_of_lt hlt)
      simp only [hk, List.take_length, List.drop_length]
      by_cases hstop : d.buffered.length = 0 ∧ d.eos = true
      · rw [if_pos hstop]
        have hb : d.buffered = [] := List.eq_nil_of_length_eq_zero hstop.1
        have hp : d.pending = [] := hinv hstop.2
        have hc : d.content = [] := by unfold Dec.content; simp [hb, hp]
        rw [hc, readCall_nil _ hm0]
        simp [hinv]
      · rw [if_neg hstop]
        have hlen : ¬ (acc ++ d.buffered).length ≥ n := by
          simp [List.length_append]; omega
        rw [if_neg hlen]
        have hacc' : (acc ++ d.buffered).length < n := by
          simp [List.length_append]; omega
        have hinv1 : Dec.Inv ({ d with buffered := [] } : Dec α) := hinv
        have h := ih (Dec.decompress { d with buffered := [] }) n (acc ++ d.buffered)
          (Dec.decompress_inv _ hinv1) hacc' (Dec.need_step d fuel hf hstop)
        rw [Dec.decompress_content] at h
        have hc1 : Dec.content ({ d with buffered := [] } : Dec α) = d.pending.flatten := by
          unfold Dec.content; simp
        have hsub : n - (acc ++ d.buffered).length = n - acc.length - d.buffered.length := by
          simp [List.length_append]; omega
        rw [hc1, hsub] at h
        have hc : readCall d.content (n - acc.length) = _ :=
          readCall_append_lt d.buffered d.pending.flatten (n - acc.length) hlt
        rw [hc]
        obtain ⟨h1, h2, h3, h4⟩ := h
        refine ⟨?_, h2, h3, h4⟩
        rw [h1, List.append_assoc]

/-- 1. `decoder.Read` refines the contract and keeps the invariant -/
theorem Dec.read_refines (d : Dec α) (n : Nat) (hinv : d.eos = true → d.pending = []) :
    let r := d.read n
    r.1 = (readCall d.content n).1 ∧ r.2.1 = (readCall d.content n).2.1 ∧
    r.2.2.content = (readCall d.content n).2.2 ∧
    (r.2.2.eos = true → r.2.2.pending = []) := by
  intro r
  show (d.read n).1 = _ ∧ (d.read n).2.1 = _ ∧ (d.read n).2.2.content = _ ∧
    ((d.read n).2.2.eos = true → (d.read n).2.2.pending = [])
  unfold Dec.read
  by_cases h0 : n = 0
  · subst h0
    simp [readCall]
    exact hinv
  · rw [if_neg h0]
    have hf : d.need ≤ d.pending.length + 3 := Nat.le_succ_of_le (Dec.need_le d)
    have h := Dec.readLoop_spec (d.pending.length + 3) d n [] hinv
      (by simp; omega) hf
    simpa [Dec.Inv] using h

/-- 2. a zero-length read never reports EOF (the F11 fix) -/
theorem Dec.read_zero (d : Dec α) : d.read 0 = ([], false, d) := by
  simp [Dec.read]

/-! ### chained readers -/

theorem chainRead_done (fuel : Nat) (parts : List (List α)) (n : Nat) (acc : List α)
    (h : acc.length ≥ n) : chainRead (fuel + 1) parts n acc = (acc, false, parts) := by
  unfold chainRead
  rw [if_pos h]

/-- generalised statement: any fuel `≥ parts.length + 2` suffices -/
theorem chainRead_spec : ∀ (parts : List (List α)) (fuel n : Nat) (acc : List α),
    acc.length < n → parts.length + 2 ≤ fuel →
    (chainRead fuel parts n acc).1 = acc ++ (readCall parts.flatten (n - acc.length)).1 ∧
    (chainRead fuel parts n acc).2.1 = (readCall parts.flatten (n - acc.length)).2.1 ∧
    (chainRead fuel parts n acc).2.2.flatten = (readCall parts.flatten (n - acc.length)).2.2 := by
  intro parts
  induction parts with
  | nil =>
    intro fuel n acc hacc hf
    have hm0 : n - acc.length ≠ 0 := by omega
    obtain ⟨f, rfl⟩ : ∃ f, fuel = f + 1 := ⟨fuel - 1, by simp at hf; omega⟩
    unfold chainRead
    rw [if_neg (by omega)]
    simp [readCall_nil _ hm0]
  | cons cur rest ih =>
    intro fuel n acc hacc hf
    have hm0 : n - acc.length ≠ 0 := by omega
    obtain ⟨f, rfl⟩ : ∃ f, fuel = f + 1 := ⟨fuel - 1, by simp at hf; omega⟩
    have hf' : rest.length + 2 ≤ f := by simp at hf; omega
    unfold chainRead
    rw [if_neg (by omega)]
    simp only [List.flatten_cons]
    by_cases hlt : cur.length < n - acc.length
    · -- the part ends inside this call
      have hr : readCall cur (n - acc.length) = (cur, true, []) := by
        unfold readCall; simp [hm0, hlt]
      simp only [hr, if_true]
      have hacc' : (acc ++ cur).length < n := by simp [List.length_append]; omega
      have h := ih f n (acc ++ cur) hacc' hf'
      have hsub : n - (acc ++ cur).length = n - acc.length - cur.length := by
        simp [List.length_append]; omega
      rw [hsub] at h
      rw [readCall_append_lt cur rest.flatten (n - acc.length) hlt]
      obtain ⟨h1, h2, h3⟩ := h
      refine ⟨?_, h2, h3⟩
      rw [h1, List.append_assoc]
    · have hge : n - acc.length ≤ cur.length := by omega
      have hr : readCall cur (n - acc.length)
          = (cur.take (n - acc.length), false, cur.drop (n - acc.length)) := by
        unfold readCall; simp [hm0, hlt]
      simp only [hr]
      have hlen : (acc ++ cur.take (n - acc.length)).length ≥ n := by
        simp [List.length_append, List.length_take, Nat.min_eq_left hge]; omega
      obtain ⟨g, rfl⟩ : ∃ g, f = g + 1 := ⟨f - 1, by omega⟩
      simp only [Bool.false_eq_true, if_false]
      rw [chainRead_done g _ n _ hlen, readCall_append_ge cur rest.flatten _ hm0 hge]
      simp

/-- 3. the chaining reader refines the contract for the concatenated content -/
theorem chainReadCall_refines (parts : List (List α)) (n : Nat) :
    let r := chainReadCall parts n
    r.1 = (readCall parts.flatten n).1 ∧ r.2.1 = (readCall parts.flatten n).2.1 ∧
    r.2.2.flatten = (readCall parts.flatten n).2.2 := by
  intro r
  show (chainReadCall parts n).1 = _ ∧ (chainReadCall parts n).2.1 = _ ∧
    (chainReadCall parts n).2.2.flatten = _
  unfold chainReadCall
  by_cases h0 : n = 0
  · subst h0
    simp [readCall]
  · rw [if_neg h0]
    have h := chainRead_spec parts (parts.length + n + 2) n [] (by simp; omega) (by omega)
    simpa using h

/-! ### whole schedules -/

/-- a sequence of `decoder.Read` calls, threading the decoder state -/
def Dec.readSeq : Dec α → List Nat → List (List α × Bool)
  | _, [] => []
  | d, n :: ns =>
    let r := d.read n
    (r.1, r.2.1) :: Dec.readSeq r.2.2 ns

/-- a sequence of calls on the chaining reader, threading the remaining parts -/
def chainReadSeq : List (List α) → List Nat → List (List α × Bool)
  | _, [] => []
  | parts, n :: ns =>
    let r := chainReadCall parts n
    (r.1, r.2.1) :: chainReadSeq r.2.2 ns

/-- 4a. every schedule of `decoder.Read` calls is the contract's schedule -/
theorem Dec.readSeq_refines (sizes : List Nat) : ∀ (d : Dec α),
    (d.eos = true → d.pending = []) →
    Dec.readSeq d sizes = ReadLoop.readSeq d.content sizes := by
  induction sizes with
  | nil => intro d _; rfl
  | cons n ns ih =>
    intro d hinv
    obtain ⟨h1, h2, h3, h4⟩ := Dec.read_refines d n hinv
    simp only [Dec.readSeq, ReadLoop.readSeq]
    rw [ih _ h4, h1, h2, h3]

/-- 4b. every schedule of calls on the chaining reader is the contract's schedule -/
theorem chainReadSeq_refines (sizes : List Nat) : ∀ (parts : List (List α)),
    chainReadSeq parts sizes = ReadLoop.readSeq parts.flatten sizes := by
  induction sizes with
  | nil => intro parts; rfl
  | cons n ns ih =>
    intro parts
    obtain ⟨h1, h2, h3⟩ := chainReadCall_refines parts n
    simp only [chainReadSeq, ReadLoop.readSeq]
    rw [ih, h1, h2, h3]

end ReadLoops

#print axioms ReadLoops.Dec.read_refines
#print axioms ReadLoops.Dec.read_zero
#print axioms ReadLoops.chainReadCall_refines
#print axioms ReadLoops.Dec.readSeq_refines
#print axioms ReadLoops.chainReadSeq_refines
