import XzVerif.Proofs.LazyDec2
import XzVerif.Proofs.LazyDec2Pos
import XzVerif.Proofs.Lzma2RoundTrip

/-! helper lemmas for Proofs/LazyReject.lean:
    * lazy side: a schedule that ends with an error while the batch reader rejects a chunk HEADER (`HdrSt`) has
      delivered the whole batch output (the error comes out of `startChunk`, at a chunk boundary: ring drained);
    * batch side: the batch reader on `emit (pre ++ #[bad] ++ rest)` reads `pre` and rejects `bad`'s header. -/

namespace LazyDec2
open Lzma Rc Ring LazyDec Spec Lzma2

theorem readSeq2_whole {cap : Nat} {inp : ByteArray} {off : Nat} {B : RState × Status} (hcap : 274 ≤ cap) :
    ∀ (lens : List Nat) (r : R2) (D : ByteArray),
    C2 cap inp off B r D → r.err = none → ∀ e, lastStat (readSeq r lens) = .err e → KB B → HdrSt B.2 →
    (D ++ delivered (readSeq r lens)).data.toList = B.1.h.out.data.toList.drop off := by
  intro lens
  induction lens with
  | nil =>
    intro r D _ _ e h
    simp only [readSeq] at h
    cases h
  | cons len rest ih =>
    intro r D hc he e hl hK hh
    have hr := read2_spec hcap hc he len
    rw [readSeq] at hl ⊢
    rcases hrd : read r len with ⟨r', out, st⟩
    rw [hrd] at hr hl
    obtain ⟨q1, _, q2, q3⟩ := hr
    simp only at q1 q2 q3 hl ⊢
    cases st with
    | ok =>
      simp only at hl ⊢
      obtain ⟨o1, o2, o3⟩ := q2 rfl
      rw [lastStat_cons_ok] at hl
      have := ih r' (D ++ out) o2 o3 e hl hK hh
      rw [delivered_cons, ← ByteArray.append_assoc]
      exact this
    | eof =>
      simp only at hl
      cases hl
    | err e' =>
      simp only at hl ⊢
      obtain ⟨t1, t2, _⟩ := q3 (by intro h; cases h)
      have hd1 : delivered [(out, RStat.err e')] = out := by
        rw [delivered_cons, delivered_nil, ByteArray.append_empty]
      rw [hd1]
      exact t1.2.2 hK hh

/-- a schedule on the reader `NewReader2` returns that ends with an error, while the batch reader stops with a
    rejected chunk header: everything the batch reader decoded has been delivered -/
theorem schedule2_whole (cfgCap : Nat) (hcap : 4096 ≤ effCap cfgCap) (inp : ByteArray) (lens : List Nat) (e : Err)
    (hl : lastStat (readSeq (newReader2 cfgCap inp) lens) = .err e)
    (hh : HdrSt (Lzma2.decode false (effCap cfgCap) inp 0 ByteArray.empty).2) :
    delivered (readSeq (newReader2 cfgCap inp) lens) =
      (Lzma2.decode false (effCap cfgCap) inp 0 ByteArray.empty).1.h.out := by
  have hc : 274 ≤ (if cfgCap = 0 then 8 * 1024 * 1024 else cfgCap) := by
    unfold effCap at hcap; omega
  have hK : KB (Lzma2.decode false (effCap cfgCap) inp 0 ByteArray.empty) := decode_fuel _ _ _ _
  have he0 : ByteArray.empty ++ ByteArray.empty = ByteArray.empty := ByteArray.append_empty
  apply ba_ext
  show (delivered (readSeq (newReader2At cfgCap inp 0) lens)).data.toList = _
  have hl' : lastStat (readSeq (newReader2At cfgCap inp 0) lens) = .err e := hl
  rcases init_spec cfgCap inp 0 ByteArray.empty with ⟨h1, h2, _⟩ | ⟨st, h1, h2, h3, h4, _⟩
  · have := readSeq2_whole hc lens _ _ h2 h1 e hl' hK hh
    rw [ByteArray.empty_append] at this
    exact this
  · cases lens with
    | nil => simp only [readSeq] at hl'; cases hl'
    | cons len rest =>
      rw [readSeq_err _ st h1 h2] at hl' ⊢
      have hst : st = .err e := hl'
      subst hst
      have hd1 : delivered [(ByteArray.empty, RStat.err e)] = ByteArray.empty := by
        rw [delivered_cons, delivered_nil, ByteArray.append_empty]
      rw [hd1]
      exact h3.2.2 hK hh

end LazyDec2

namespace Lzma2
open Lzma Rc Spec

/-! ### the body of an LZMA chunk is never empty -/

theorem rc_emit_length (out : List Nat) (f r : Nat) : ∀ n, (Rc.emit out f r n).length = out.length + n
  | 0 => rfl
  | n + 1 => by
    have : ∀ (n : Nat) (out : List Nat) (f : Nat), (Rc.emit out f r n).length = out.length + n := by
      intro n
      induction n with
      | zero => intro out f; rfl
      | succ n ih =>
        intro out f
        rw [Rc.emit, ih, List.length_append]
        simp only [List.length_cons, List.length_nil]; omega
    exact this _ _ _

theorem shiftLow_low (e : Enc) : e.shiftLow.low = (e.low % 2 ^ 24) * 256 := by
  unfold Enc.shiftLow
  split_ifs <;> rfl

theorem shiftLow_cl (e : Enc) : 1 ≤ e.shiftLow.cacheLen := by
  unfold Enc.shiftLow
  split_ifs
  · exact Nat.le_refl _
  · simp only; omega

theorem shiftLow_out0 (e : Enc) (h : e.low = 0) : e.shiftLow.out.length = e.out.length + e.cacheLen := by
  unfold Enc.shiftLow
  rw [if_pos (by left; rw [h]; decide)]
  simp only
  rw [rc_emit_length]

theorem close_length_pos (e : Enc) : 1 ≤ e.close.length := by
  unfold Enc.close
  have h1 := shiftLow_low e
  have h2 := shiftLow_low e.shiftLow
  have h3 := shiftLow_low e.shiftLow.shiftLow
  have h4 := shiftLow_low e.shiftLow.shiftLow.shiftLow
  have h0 : e.shiftLow.shiftLow.shiftLow.shiftLow.low = 0 := by
    generalize e.shiftLow.shiftLow.shiftLow.shiftLow.low = l4 at *
    generalize e.shiftLow.shiftLow.shiftLow.low = l3 at *
    generalize e.shiftLow.shiftLow.low = l2 at *
    generalize e.shiftLow.low = l1 at *
    omega
  rw [shiftLow_out0 _ h0]
  have := shiftLow_cl e.shiftLow.shiftLow.shiftLow
  omega

theorem foldl_push_size (l : List Nat) : ∀ acc : ByteArray,
    (l.foldl (fun a x => a.push x.toUInt8) acc).size = acc.size + l.length := by
  induction l with
  | nil => intro acc; rfl
  | cons x l ih =>
    intro acc
    rw [List.foldl_cons, ih, ByteArray.size_push, List.length_cons]; omega

theorem encClose_size_pos (x : EncSt) : 1 ≤ (encClose x).size := by
  unfold encClose flushOut
  simp only
  rw [foldl_push_size]
  have := close_length_pos x.e
  omega

/-! ### the header of an arbitrary emitted chunk -/

theorem get_first (x : Nat) (hx : x < 256) (t : ByteArray) : get (ByteArray.empty.push x.toUInt8 ++ t) 0 = x := by
  rw [get_append_left (by rw [ByteArray.size_push]; exact Nat.succ_pos _), get_eq_blist, blist_push _ _ hx, blist_empty]
  rfl

/-- the control byte of an emitted chunk decodes to its kind, and the header is complete.
    For LZMA chunks the control byte `ctrlOf kind + (usize - 1) / 65536` must not overflow: `usize ≤ 2 ^ 21`. -/
theorem chunkBytes_hdr (e : EState) (c : Chunk) (hk : c.kind ≠ .eos) (hsz : lzUsize e c ≤ 2097152) :
    ∃ x t, chunkBytes e c = ByteArray.empty.push x.toUInt8 ++ t ∧ x < 256 ∧ Spec.ctrl x = some c.kind ∧
      LazyDec2.hlenOf c.kind ≤ 1 + t.size := by
  have hlz : isLz c.kind → ∃ x t, chunkBytes e c = ByteArray.empty.push x.toUInt8 ++ t ∧ x < 256 ∧
      Spec.ctrl x = some c.kind ∧ 6 ≤ 1 + t.size := by
    intro hl
    obtain ⟨hc1, _, hc3⟩ := ctrl_lz c.kind hl ((lzUsize e c - 1) / 65536) (by omega)
    have hb := encClose_size_pos (lzEnc e c)
    rw [chunkBytes_lz e c hl]
    unfold lzHdr
    cases c.props with
    | none =>
      refine ⟨_, be16 ((lzUsize e c - 1) % 65536) ++ be16 ((lzBody e c).size - 1) ++ lzBody e c, ?_, hc3, hc1, ?_⟩
      · simp only [ByteArray.append_assoc]
      · simp only [ByteArray.size_append, be16_size]
        unfold lzBody; omega
    | some p =>
      refine ⟨_, be16 ((lzUsize e c - 1) % 65536) ++ be16 ((lzBody e c).size - 1) ++
        ByteArray.empty.push (byteOfProps p).toUInt8 ++ lzBody e c, ?_, hc3, hc1, ?_⟩
      · simp only
        rw [push_eq_append]
        simp only [ByteArray.append_assoc]
      · simp only [ByteArray.size_append, be16_size, ByteArray.size_push]
        omega
  obtain ⟨kind, usize, csize, props, ops, raw, consumed, marker⟩ := c
  cases kind
  · exact absurd rfl hk
  · refine ⟨1, be16 (raw.size - 1) ++ raw, ?_, by omega, rfl, ?_⟩
    · simp only [chunkBytes, ByteArray.append_assoc]; rfl
    · simp only [ByteArray.size_append, be16_size, LazyDec2.hlenOf]; omega
  · refine ⟨2, be16 (raw.size - 1) ++ raw, ?_, by omega, rfl, ?_⟩
    · simp only [chunkBytes, ByteArray.append_assoc]; rfl
    · simp only [ByteArray.size_append, be16_size, LazyDec2.hlenOf]; omega
  all_goals
    obtain ⟨x, t, h1, h2, h3, h4⟩ := hlz (by simp [isLz])
    refine ⟨x, t, h1, h2, h3, ?_⟩
    simp only [LazyDec2.hlenOf]; omega

/-- the batch reader at the header of a chunk the sequencing automaton does not allow -/
theorem readChunk_bad (e : EState) (q : SeqState) (c : Chunk) (r : RState) (pre post : ByteArray)
    (hseq : r.seq = q) (hq : q ≠ .ended) (hbad : seqStep q c.kind = none) (hsz : lzUsize e c ≤ 2097152)
    (hinp : r.inp = pre ++ chunkBytes e c ++ post) (hpos : r.pos = pre.size) :
    ∃ st, readChunk false r = .done r st ∧ LazyDec2.HdrSt st := by
  have hk : c.kind ≠ .eos := by
    intro hk
    rw [hk] at hbad
    cases q with
    | ended => exact hq rfl
    | run a b => simp [seqStep] at hbad
  obtain ⟨x, t, h1, h2, h3, h4⟩ := chunkBytes_hdr e c hk hsz
  have hsize : r.inp.size = pre.size + (1 + t.size) + post.size := by
    rw [hinp, h1]
    simp only [ByteArray.size_append, ByteArray.size_push]
    rfl
  have hg : get r.inp r.pos = x := by
    have := get_mid pre (chunkBytes e c) post 0 (by rw [h1, ByteArray.size_append, ByteArray.size_push]; omega)
    rw [hinp, hpos]
    rw [Nat.add_zero] at this
    rw [this, h1]
    exact get_first x h2 t
  rw [LazyDec2.readChunk_eq, if_neg (by omega), hg, h3]
  simp only
  rw [if_neg (by omega)]
  cases LazyDec2.hpropsOf r.inp r.pos c.kind with
  | none => exact ⟨_, rfl, Or.inr rfl⟩
  | some hp =>
    simp only
    rw [hseq, hbad]
    exact ⟨_, rfl, Or.inl rfl⟩

/-! ### reading the accepted chunks in front -/

theorem readAll_pre : ∀ (cs : List Chunk) (e : EState) (q : SeqState) (r : RState) (pre post : ByteArray) (fuel : Nat),
    Matches r e q → ChunksOk false e q cs →
    r.inp = pre ++ chunksBytes e cs ++ post → r.pos = pre.size →
    ∃ r', readAll false (cs.length + fuel) r = readAll false fuel r' ∧
      Matches r' (cs.foldl emitChunk e) (cs.foldl (fun q c => (seqStep q c.kind).getD q) q) ∧ r'.inp = r.inp ∧
      r'.pos = pre.size + (chunksBytes e cs).size := by
  intro cs
  induction cs with
  | nil =>
    intro e q r pre post fuel hm _ _ hpos
    refine ⟨r, by rw [List.length_nil, Nat.zero_add], hm, rfl, ?_⟩
    rw [hpos]; rfl
  | cons c cs ih =>
    intro e q r pre post fuel hm hok hinp hpos
    cases hok with
    | cons _ _ q1 _ _ hc hs hrest =>
    have hinp1 : r.inp = pre ++ chunkBytes e c ++ (chunksBytes (emitChunk e c) cs ++ post) := by
      rw [hinp]; simp only [chunksBytes, ByteArray.append_assoc]
    obtain ⟨r1, q', hq', hne, h1, h2, h3, h4, _⟩ := readChunk_emitChunk false e q c r pre _ hm hc hinp1 hpos
    have hqq : q' = q1 := by rw [hs] at hq'; exact (Option.some.inj hq').symm
    subst hqq
    have hinp2 : r1.inp = (pre ++ chunkBytes e c) ++ chunksBytes (emitChunk e c) cs ++ post := by
      rw [h3, hinp]; simp only [chunksBytes, ByteArray.append_assoc]
    have hpos2 : r1.pos = (pre ++ chunkBytes e c).size := by
      rw [h4, hpos, ByteArray.size_append]
    obtain ⟨r', g1, g2, g3, g4⟩ := ih (emitChunk e c) q' r1 (pre ++ chunkBytes e c) post fuel h2 hrest hinp2 hpos2
    refine ⟨r', ?_, ?_, by rw [g3, h3], ?_⟩
    · rw [show (c :: cs).length + fuel = (cs.length + fuel) + 1 by rw [List.length_cons]; omega]
      simp only [readAll, h1]
      exact g1
    · simp only [List.foldl_cons, hs, Option.getD_some]
      exact g2
    · rw [g4]; simp only [chunksBytes, ByteArray.size_append]; omega

/-- **batch side.** on `emit (pre ++ #[bad] ++ rest)` the batch reader decodes `pre` and stops at `bad`'s header with
    "unexpected chunk type" (or "invalid properties code", if `bad` carries no valid properties byte) -/
theorem decode_bad (cap : Nat) (pre : Array Chunk) (bad : Chunk) (rest : Array Chunk)
    (hok : ChunksOk false (e0 cap) .init pre.toList)
    (hne : pre.toList.foldl (fun q c => (seqStep q c.kind).getD q) .init ≠ .ended)
    (hbad : seqStep (pre.toList.foldl (fun q c => (seqStep q c.kind).getD q) .init) bad.kind = none)
    (hsz : lzUsize (pre.foldl emitChunk (e0 cap)) bad ≤ 2097152) :
    ∃ rB st, decode false cap (emit cap (pre ++ #[bad] ++ rest)) 0 ByteArray.empty = (rB, st) ∧ LazyDec2.HdrSt st ∧
      rB.h.out = (pre.foldl emitChunk (e0 cap)).h.out := by
  have hemit : emit cap (pre ++ #[bad] ++ rest) =
      ByteArray.empty ++ chunksBytes (e0 cap) pre.toList ++
        (chunkBytes (pre.toList.foldl emitChunk (e0 cap)) bad ++
          chunksBytes (emitChunk (pre.toList.foldl emitChunk (e0 cap)) bad) rest.toList) := by
    show ((pre ++ #[bad] ++ rest).foldl emitChunk (e0 cap)).out = _
    rw [← Array.foldl_toList]
    simp only [Array.toList_append, List.foldl_append, List.foldl_cons, List.foldl_nil]
    rw [foldl_emitChunk_out, emitChunk_out, foldl_emitChunk_out]
    simp only [ByteArray.append_assoc]
    rfl
  rw [← Array.foldl_toList] at hsz ⊢
  unfold decode
  generalize hinp : emit cap (pre ++ #[bad] ++ rest) = inp at *
  have hm : Matches { inp := inp, pos := 0, h := { out := ByteArray.empty, dictStart := ByteArray.empty.size, cap := cap } }
      (e0 cap) .init := ⟨rfl, rfl, rfl, rfl, rfl, empty_tbl_ok⟩
  have hlen := chunksBytes_size pre.toList (e0 cap)
  have hsize : (chunksBytes (e0 cap) pre.toList).size ≤ inp.size := by
    rw [hemit]; simp only [ByteArray.size_append]; omega
  obtain ⟨f, hf⟩ : ∃ f, inp.size - 0 + 2 = pre.toList.length + (f + 1) := ⟨inp.size + 1 - pre.toList.length, by omega⟩
  obtain ⟨r', g1, g2, g3, g4⟩ := readAll_pre pre.toList (e0 cap) .init _ ByteArray.empty _ (f + 1) hm hok
    (by show inp = _; exact hemit) rfl
  have hinp' : r'.inp = (ByteArray.empty ++ chunksBytes (e0 cap) pre.toList) ++
      chunkBytes (pre.toList.foldl emitChunk (e0 cap)) bad ++
        chunksBytes (emitChunk (pre.toList.foldl emitChunk (e0 cap)) bad) rest.toList := by
    rw [g3]; show inp = _
    rw [hemit]; simp only [ByteArray.append_assoc]
  have hpos' : r'.pos = (ByteArray.empty ++ chunksBytes (e0 cap) pre.toList).size := by
    rw [g4, ByteArray.size_append]
  obtain ⟨st, k1, k2⟩ := readChunk_bad _ _ bad r' _ _ g2.seq hne hbad hsz hinp' hpos'
  refine ⟨r', st, ?_, k2, ?_⟩
  · rw [hf, g1]
    simp only [readAll, k1]
  · rw [g2.h]

end Lzma2
