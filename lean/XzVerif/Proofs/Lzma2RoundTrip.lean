import XzVerif.Codec.Lzma2
import XzVerif.Proofs.Segment

/-! LZMA2 chunk-level round trip: the chunk reader (`readChunk` / `readAll` / `decode`) run on the bytes
    produced by the chunk emitter (`emitChunk` / `emit`) recovers the emitter's state chunk by chunk,
    consumes every byte and ends with `.eof`. -/

set_option linter.unusedSimpArgs false

namespace Lzma2
open Lzma Rc Spec

/-! ### byte-array helpers -/

theorem get!_eq' (a : ByteArray) (i : Nat) : a.get! i = a.data[i]?.getD default := by
  show a.data[i]! = _
  by_cases h : i < a.data.size
  · rw [getElem!_pos a.data i h, Array.getElem?_eq_getElem h]; rfl
  · rw [getElem!_neg a.data i h, Array.getElem?_eq_none (by omega)]; rfl

theorem get!_append_left {a b : ByteArray} {i : Nat} (h : i < a.size) : (a ++ b).get! i = a.get! i := by
  have h' : i < a.data.size := h
  rw [get!_eq', get!_eq', ByteArray.data_append, Array.getElem?_append_left h']

theorem get!_append_right (a b : ByteArray) (i : Nat) : (a ++ b).get! (a.size + i) = b.get! i := by
  have hs : a.size = a.data.size := rfl
  rw [get!_eq', get!_eq', ByteArray.data_append, hs, Array.getElem?_append_right (Nat.le_add_right _ _)]
  congr 2
  exact Nat.add_sub_cancel_left _ _

theorem get_append_left {a b : ByteArray} {i : Nat} (h : i < a.size) : get (a ++ b) i = get a i := by
  unfold get; rw [get!_append_left h]

theorem get_mid (pre cb post : ByteArray) (i : Nat) (h : i < cb.size) :
    get (pre ++ cb ++ post) (pre.size + i) = get cb i := by
  unfold get
  rw [get!_append_left (by rw [ByteArray.size_append]; omega), get!_append_right]

theorem blist_append (a b : ByteArray) : blist (a ++ b) = blist a ++ blist b := by
  simp [blist]

theorem blist_length (a : ByteArray) : (blist a).length = a.size := by
  unfold blist
  rw [List.length_map, Array.length_toList]
  rfl

theorem get_eq_blist (b : ByteArray) (i : Nat) : get b i = (blist b)[i]?.getD 0 := by
  unfold get blist
  rw [get!_eq']
  simp only [List.getElem?_map, Array.getElem?_toList]
  cases b.data[i]? <;> rfl

theorem blist_be16 (n : Nat) (h : n < 65536) : blist (be16 n) = [n / 256, n % 256] := by
  unfold be16
  rw [blist_push _ _ (by omega), blist_push _ _ (by omega), blist_empty]
  rfl

theorem be16_size (n : Nat) : (be16 n).size = 2 := rfl

theorem bytesToList_mid (pre cb post : ByteArray) :
    bytesToList (pre ++ cb ++ post) pre.size (pre.size + cb.size) = blist cb := by
  rw [← bytesToList_eq]
  unfold bytesToList
  simp only [Nat.add_sub_cancel_left, Nat.sub_zero]
  apply List.map_congr_left
  intro i hi
  simp only [List.mem_range] at hi
  rw [get!_append_left (by rw [ByteArray.size_append]; omega), get!_append_right, Nat.zero_add]

theorem extract_mid (pre cb post : ByteArray) :
    (pre ++ cb ++ post).extract pre.size (pre.size + cb.size) = cb := by
  rw [ByteArray.append_assoc]
  have := @ByteArray.extract_append_size_add pre (cb ++ post) 0 cb.size
  rw [Nat.add_zero] at this
  rw [this, ByteArray.extract_append_eq_left rfl]

theorem push_eq_append (a : ByteArray) (x : UInt8) : a.push x = a ++ ByteArray.empty.push x := by
  apply ByteArray.ext
  simp

/-! ### `readChunk` evaluated on the three shapes of chunk -/

theorem readChunk_eos (strict : Bool) (r : RState) (seq' : SeqState)
    (h1 : r.pos < r.inp.size) (h2 : get r.inp r.pos = 0) (h3 : seqStep r.seq .eos = some seq') :
    readChunk strict r =
      .done { r with pos := r.pos + 1, seq := seq', chunks := r.chunks.push { kind := .eos, usize := 0 } } .eof := by
  unfold readChunk
  simp only []
  rw [if_neg (by omega), h2]
  have hc : ctrl 0 = some .eos := rfl
  simp only [hc]
  rw [if_neg (by omega)]
  simp only [reduceCtorEq, or_self, if_false, h3, if_true]

theorem readChunk_raw (strict : Bool) (r : RState) (kind : ChunkKind) (seq' : SeqState)
    (hk : kind = .ud ∨ kind = .u)
    (h1 : r.pos + 3 ≤ r.inp.size) (h2 : ctrl (get r.inp r.pos) = some kind) (h3 : seqStep r.seq kind = some seq')
    (usize : Nat) (hu : usize = get r.inp (r.pos + 1) * 256 + get r.inp (r.pos + 2) + 1)
    (h4 : r.pos + 3 + usize ≤ r.inp.size) :
    readChunk strict r =
      .next { r with pos := r.pos + 3 + usize, seq := seq',
                     h := { (if kind = .ud then r.h.reset else r.h) with
                            out := (if kind = .ud then r.h.reset else r.h).out ++ r.inp.extract (r.pos + 3) (r.pos + 3 + usize) }
                     chunks := r.chunks.push { kind := kind, usize := usize, raw := r.inp.extract (r.pos + 3) (r.pos + 3 + usize) } } := by
  unfold readChunk
  simp only []
  rw [if_neg (by omega), h2]
  simp only []
  rcases hk with rfl | rfl
  · simp only [reduceCtorEq, or_self, if_false, h3, if_true, or_false, or_true, true_or]
    rw [if_neg (by omega)]
    rw [← hu]
    have : min usize (r.inp.size - (r.pos + 3)) = usize := by omega
    rw [this, if_neg (by omega)]
  · simp only [reduceCtorEq, or_self, if_false, h3, if_true, or_false, or_true, true_or, false_or]
    rw [if_neg (by omega)]
    rw [← hu]
    have : min usize (r.inp.size - (r.pos + 3)) = usize := by omega
    rw [this, if_neg (by omega)]

def hlenOf (k : ChunkKind) : Nat := if k = .lrn ∨ k = .lrnd then 6 else 5

theorem readChunk_lz (strict : Bool) (r : RState) (kind : ChunkKind) (seq' : SeqState) (p : Props)
    (hp : Option Props) (rd : Dec)
    (hk : kind = .l ∨ kind = .lr ∨ kind = .lrn ∨ kind = .lrnd)
    (h1 : r.pos + hlenOf kind ≤ r.inp.size)
    (h2 : ctrl (get r.inp r.pos) = some kind)
    (h3 : seqStep r.seq kind = some seq')
    (hprops : if kind = .lrn ∨ kind = .lrnd then propsOfByte (get r.inp (r.pos + 5)) = some p ∧ hp = some p
              else hp = none ∧ r.props = some p)
    (hstrict : strict = true → p.lc + p.lp ≤ 4)
    (usize csize : Nat)
    (hu : usize = ((get r.inp r.pos % 32) * 65536 + get r.inp (r.pos + 1) * 256 + get r.inp (r.pos + 2)) + 1)
    (hc : csize = get r.inp (r.pos + 3) * 256 + get r.inp (r.pos + 4) + 1)
    (h4 : r.pos + hlenOf kind + csize ≤ r.inp.size)
    (hinit : Dec.init (bytesToList r.inp (r.pos + hlenOf kind) (r.pos + hlenOf kind + csize)) = some rd)
    (hh : Hist) (hhh : hh = if kind = .lrnd then r.h.reset else r.h)
    (res : SegRes)
    (hres : res = decSegment p (some usize) hh.out.size strict (usize + 2)
      { s := if kind ≠ .l then {} else r.s, tbl := if kind ≠ .l then initTable p.lc p.lp else r.tbl, rd := rd, h := hh })
    (hst : res.status = .eof) (hcons : res.d.rd.inp = []) :
    readChunk strict r =
      .next { r with pos := r.pos + hlenOf kind + csize, seq := seq', h := res.d.h, props := some p,
                     s := res.d.s, tbl := res.d.tbl,
                     chunks := r.chunks.push { kind := kind, usize := usize, csize := csize, props := hp,
                                               ops := res.d.ops, consumed := csize, marker := res.sawMarker } } := by
  have hstr : ¬ (strict = true ∧ p.lc + p.lp > 4) := by
    intro ⟨a, b⟩; have := hstrict a; omega
  unfold readChunk
  simp only []
  rw [if_neg (by unfold hlenOf at h1; split at h1 <;> omega), h2]
  simp only []
  rcases hk with rfl | rfl | rfl | rfl
  · simp only [hlenOf, reduceCtorEq, or_self, if_false, if_true, or_false, or_true, true_or, false_or] at *
    rw [if_neg (by omega)]
    simp only [h3, hprops.2]
    rw [if_neg hstr, ← hc, ← hu]
    have hmin : min csize (r.inp.size - (r.pos + 5)) = csize := by omega
    rw [hmin, hinit]
    subst hhh
    simp only []
    rw [← hres]
    simp only [hst, hcons, List.length_nil, Nat.sub_zero, ne_eq, not_true_eq_false, and_false, if_false, hprops.1]
  · simp only [hlenOf, reduceCtorEq, or_self, if_false, if_true, or_false, or_true, true_or, false_or] at *
    rw [if_neg (by omega)]
    simp only [h3, hprops.2]
    rw [if_neg hstr, ← hc, ← hu]
    have hmin : min csize (r.inp.size - (r.pos + 5)) = csize := by omega
    rw [hmin, hinit]
    subst hhh
    simp only []
    rw [← hres]
    simp only [hst, hcons, List.length_nil, Nat.sub_zero, ne_eq, not_true_eq_false, and_false, if_false, hprops.1]
  · simp only [hlenOf, reduceCtorEq, or_self, if_false, if_true, or_false, or_true, true_or, false_or] at *
    rw [if_neg (by omega)]
    simp only [h3, hprops.1]
    rw [if_neg hstr, ← hc, ← hu]
    have hmin : min csize (r.inp.size - (r.pos + 6)) = csize := by omega
    rw [hmin, hinit]
    subst hhh
    simp only []
    rw [← hres]
    simp only [hst, hcons, List.length_nil, Nat.sub_zero, ne_eq, not_true_eq_false, and_false, if_false, hprops.2]
  · simp only [hlenOf, reduceCtorEq, or_self, if_false, if_true, or_false, or_true, true_or, false_or] at *
    rw [if_neg (by omega)]
    simp only [h3, hprops.1]
    rw [if_neg hstr, ← hc, ← hu]
    have hmin : min csize (r.inp.size - (r.pos + 6)) = csize := by omega
    rw [hmin, hinit]
    subst hhh
    simp only []
    rw [← hres]
    simp only [hst, hcons, List.length_nil, Nat.sub_zero, ne_eq, not_true_eq_false, and_false, if_false, hprops.2]


/-! ### the emitter in closed form -/

def isLz (k : ChunkKind) : Prop := k = .l ∨ k = .lr ∨ k = .lrn ∨ k = .lrnd

def lzProps (e : EState) (c : Chunk) : Props :=
  match c.props with
  | some p => p
  | none => e.props.getD ⟨0, 0, 0⟩
def lzS (e : EState) (k : ChunkKind) : St := if k ≠ .l then {} else e.s
def lzTbl (e : EState) (k : ChunkKind) (p : Props) : Tbl := if k ≠ .l then initTable p.lc p.lp else e.tbl
def lzH (e : EState) (k : ChunkKind) : Hist := if k = .lrnd then e.h.reset else e.h
def lzEnc (e : EState) (c : Chunk) : EncSt :=
  encodeOps (lzProps e c) (lzS e c.kind) (lzTbl e c.kind (lzProps e c)) (lzH e c.kind) c.ops.toList
def lzUsize (e : EState) (c : Chunk) : Nat := (lzEnc e c).h.out.size - (lzH e c.kind).out.size
def lzBody (e : EState) (c : Chunk) : ByteArray := encClose (lzEnc e c)
def lzHdr (e : EState) (c : Chunk) : ByteArray :=
  let hdr := (ByteArray.empty.push (ctrlOf c.kind + (lzUsize e c - 1) / 65536).toUInt8) ++
    be16 ((lzUsize e c - 1) % 65536) ++ be16 ((lzBody e c).size - 1)
  match c.props with
  | some p => hdr.push (byteOfProps p).toUInt8
  | none => hdr

def chunkBytes (e : EState) (c : Chunk) : ByteArray :=
  match c.kind with
  | .eos => ByteArray.empty.push 0
  | .ud | .u => ByteArray.empty.push (ctrlOf c.kind).toUInt8 ++ be16 (c.raw.size - 1) ++ c.raw
  | _ => lzHdr e c ++ lzBody e c

/-- what the reader records for chunk `c` emitted in state `e`: the same kind, properties, operations and raw
    bytes, with the size fields filled in from the emitted bytes -/
def parsedChunk (e : EState) (c : Chunk) : Chunk :=
  match c.kind with
  | .eos => { kind := .eos, usize := 0 }
  | .ud | .u => { kind := c.kind, usize := c.raw.size, raw := c.raw }
  | _ => { kind := c.kind, usize := lzUsize e c, csize := (lzBody e c).size, props := c.props, ops := c.ops,
           consumed := (lzBody e c).size, marker := false }

theorem emitChunk_lz (e : EState) (c : Chunk) (hk : isLz c.kind) :
    emitChunk e c = { out := e.out ++ lzHdr e c ++ lzBody e c, h := (lzEnc e c).h, props := some (lzProps e c),
                      s := (lzEnc e c).s, tbl := (lzEnc e c).tbl } := by
  obtain ⟨kind, usize, csize, props, ops, raw, consumed, marker⟩ := c
  unfold isLz at hk
  dsimp only at hk
  rcases hk with rfl | rfl | rfl | rfl <;> cases props <;>
  · simp only [emitChunk, lzHdr, lzBody, lzUsize, lzEnc, encodeOps, lzProps, lzS, lzTbl, lzH, ← Array.foldl_toList]

theorem emitChunk_out (e : EState) (c : Chunk) : (emitChunk e c).out = e.out ++ chunkBytes e c := by
  obtain ⟨kind, usize, csize, props, ops, raw, consumed, marker⟩ := c
  cases kind
  · simp only [emitChunk, chunkBytes]; exact push_eq_append _ _
  · simp only [emitChunk, chunkBytes]; rw [push_eq_append]; simp only [ByteArray.append_assoc]
  · simp only [emitChunk, chunkBytes]; rw [push_eq_append]; simp only [ByteArray.append_assoc]
  all_goals
    rw [emitChunk_lz _ _ (by simp [isLz])]
    simp only [chunkBytes, ByteArray.append_assoc]

/-! ### legality of a chunk in an emitter state, and the reader/emitter correspondence -/

/-- properties that fit the properties byte -/
def PropsOk (p : Props) : Prop := p.lc ≤ 8 ∧ p.lp ≤ 4 ∧ p.pb ≤ 4

/-- an uncompressed chunk: the 16-bit size field holds `raw.size - 1` -/
def RawOk (c : Chunk) : Prop := 1 ≤ c.raw.size ∧ c.raw.size ≤ 65536

/-- an LZMA chunk emitted in state `e`: operations present; properties carried by the header exactly for
    `lrn`/`lrnd` (otherwise inherited from `e`); the operations are applicable from the state / history the
    emitter starts the chunk with (`lzS`: fresh unless kind `l`; `lzH`: dictionary reset for `lrnd`); the
    uncompressed size fits 21 bits and the encoded body 16 bits; under `strict`, `lc + lp ≤ 4` -/
def LzOk (strict : Bool) (e : EState) (c : Chunk) : Prop :=
  c.ops ≠ #[] ∧
  (if c.kind = .lrn ∨ c.kind = .lrnd then ∃ p, c.props = some p ∧ PropsOk p
   else c.props = none ∧ e.props.isSome) ∧
  OpsOk (lzS e c.kind) (lzH e c.kind) c.ops.toList ∧
  lzUsize e c ≤ 2 ^ 21 ∧
  (lzBody e c).size ≤ 65536 ∧
  (strict = true → (lzProps e c).lc + (lzProps e c).lp ≤ 4)

/-- chunk `c` (not the end marker) can legally follow in emitter state `e` and sequencing state `q` -/
def ChunkOk (strict : Bool) (e : EState) (q : SeqState) (c : Chunk) : Prop :=
  (seqStep q c.kind).isSome ∧
  match c.kind with
  | .eos => False
  | .ud | .u => RawOk c
  | _ => LzOk strict e c

/-- reader state `r` corresponds to emitter state `e` with sequencing state `q`.  `tblOk` (all probabilities in
    range) is an invariant of the emitter: it holds initially (`#[]`) and is preserved by every chunk. -/
structure Matches (r : RState) (e : EState) (q : SeqState) : Prop where
  h : r.h = e.h
  props : r.props = e.props
  s : r.s = e.s
  tbl : r.tbl = e.tbl
  seq : r.seq = q
  tblOk : e.tbl.ok

theorem blist_rawHdr (k : ChunkKind) (n : Nat) (hk : ctrlOf k < 256) (hn : n < 65536) :
    blist (ByteArray.empty.push (ctrlOf k).toUInt8 ++ be16 n) = [ctrlOf k, n / 256, n % 256] := by
  rw [blist_append, blist_push _ _ hk, blist_be16 _ hn, blist_empty]
  rfl

def eosChunk : Chunk := { kind := .eos, usize := 0 }

theorem readChunk_emitChunk_eos (strict : Bool) (e : EState) (q : SeqState) (r : RState) (pre post : ByteArray)
    (hm : Matches r e q) (hq : q ≠ .ended)
    (hinp : r.inp = pre ++ ByteArray.empty.push 0 ++ post) (hpos : r.pos = pre.size) :
    ∃ r', readChunk strict r = .done r' .eof ∧ r'.h = e.h ∧ r'.inp = r.inp ∧ r'.pos = r.pos + 1 ∧ r'.seq = .ended ∧
      r'.chunks = r.chunks.push eosChunk := by
  have hsz : r.inp.size = pre.size + 1 + post.size := by
    rw [hinp]; simp only [ByteArray.size_append, ByteArray.size_push]; rfl
  have g0 : get r.inp r.pos = 0 := by
    rw [hinp, hpos]
    exact get_mid pre (ByteArray.empty.push 0) post 0 (by decide)
  have hs : seqStep r.seq .eos = some .ended := by
    rw [hm.seq]; cases q with
    | ended => exact absurd rfl hq
    | run a b => rfl
  refine ⟨_, readChunk_eos strict r .ended (by omega) g0 hs, hm.h, rfl, rfl, rfl, rfl⟩

theorem readChunk_emitChunk_raw (strict : Bool) (e : EState) (q q' : SeqState) (c : Chunk) (r : RState)
    (pre post : ByteArray) (hk : c.kind = .ud ∨ c.kind = .u)
    (hm : Matches r e q) (hraw : RawOk c) (hq : seqStep q c.kind = some q')
    (hinp : r.inp = pre ++ chunkBytes e c ++ post) (hpos : r.pos = pre.size) :
    ∃ r', readChunk strict r = .next r' ∧ Matches r' (emitChunk e c) q' ∧ r'.inp = r.inp ∧
      r'.pos = r.pos + (chunkBytes e c).size ∧ r'.chunks = r.chunks.push (parsedChunk e c) := by
  obtain ⟨kind, usize, csize, props, ops, raw, consumed, marker⟩ := c
  obtain ⟨hr1, hr2⟩ := hraw
  dsimp only at hk hr1 hr2 hq
  have hcb : chunkBytes e ⟨kind, usize, csize, props, ops, raw, consumed, marker⟩ =
      ByteArray.empty.push (ctrlOf kind).toUInt8 ++ be16 (raw.size - 1) ++ raw := by
    rcases hk with rfl | rfl <;> rfl
  have hck : ctrlOf kind < 256 := by rcases hk with rfl | rfl <;> decide
  have hctrl : ctrl (ctrlOf kind) = some kind := by rcases hk with rfl | rfl <;> rfl
  rw [hcb] at hinp ⊢
  generalize hhdr : ByteArray.empty.push (ctrlOf kind).toUInt8 ++ be16 (raw.size - 1) = hdr at hinp
  have hbl : blist hdr = [ctrlOf kind, (raw.size - 1) / 256, (raw.size - 1) % 256] := by
    rw [← hhdr]; exact blist_rawHdr kind _ hck (by omega)
  have hhsz : hdr.size = 3 := by rw [← blist_length, hbl]; rfl
  have hsz : r.inp.size = pre.size + (3 + raw.size) + post.size := by
    rw [hinp]; simp only [ByteArray.size_append, hhsz]
  have hg : ∀ i, i < 3 → get r.inp (r.pos + i) = (blist hdr)[i]?.getD 0 := by
    intro i hi
    rw [hinp, hpos, get_mid pre (hdr ++ raw) post i (by rw [ByteArray.size_append]; omega),
      get_append_left (by omega), get_eq_blist]
  have g0 : get r.inp r.pos = ctrlOf kind := by
    have := hg 0 (by omega); rw [hbl] at this; exact this
  have g1 : get r.inp (r.pos + 1) = (raw.size - 1) / 256 := by
    have := hg 1 (by omega); rw [hbl] at this; exact this
  have g2 : get r.inp (r.pos + 2) = (raw.size - 1) % 256 := by
    have := hg 2 (by omega); rw [hbl] at this; exact this
  have hu : raw.size = get r.inp (r.pos + 1) * 256 + get r.inp (r.pos + 2) + 1 := by
    rw [g1, g2]; omega
  have hs : seqStep r.seq kind = some q' := by rw [hm.seq]; exact hq
  have hex : r.inp.extract (r.pos + 3) (r.pos + 3 + raw.size) = raw := by
    have h1 : r.inp = (pre ++ hdr) ++ raw ++ post := by rw [hinp]; simp only [ByteArray.append_assoc]
    have h2 : r.pos + 3 = (pre ++ hdr).size := by rw [ByteArray.size_append, hhsz, hpos]
    rw [h2, h1]
    exact extract_mid _ _ _
  have := readChunk_raw strict r kind q' hk (by omega) (by rw [g0]; exact hctrl) hs raw.size hu (by omega)
  rw [hex] at this
  refine ⟨_, this, ?_, rfl, ?_, ?_⟩
  · rcases hk with rfl | rfl
    · exact ⟨by simp only [emitChunk, hm.h, if_true], hm.props, hm.s, hm.tbl, rfl, hm.tblOk⟩
    · exact ⟨by simp only [emitChunk, hm.h, reduceCtorEq, if_false], hm.props, hm.s, hm.tbl, rfl, hm.tblOk⟩
  · simp only [ByteArray.size_append, hhsz]; omega
  · rcases hk with rfl | rfl <;> rfl

theorem initTable_ok (lc lp : Nat) : (initTable lc lp).ok := by
  intro c
  unfold Tbl.get initTable
  by_cases h : c < tableSize lc lp
  · simp [Array.getD, h, POk]
  · simp [Array.getD, h, POk]

theorem empty_tbl_ok : Tbl.ok #[] := by
  intro c
  simp [Tbl.get, POk]

theorem propsOfByte_byteOfProps (p : Props) (h : PropsOk p) : propsOfByte (byteOfProps p) = some p := by
  obtain ⟨lc, lp, pb⟩ := p
  obtain ⟨h1, h2, h3⟩ := h
  dsimp only at h1 h2 h3
  unfold propsOfByte byteOfProps
  dsimp only
  rw [if_neg (by omega)]
  congr 2 <;> omega

theorem byteOfProps_lt (p : Props) (h : PropsOk p) : byteOfProps p < 256 := by
  obtain ⟨lc, lp, pb⟩ := p
  obtain ⟨h1, h2, h3⟩ := h
  dsimp only at h1 h2 h3
  unfold byteOfProps
  dsimp only
  omega

theorem ctrl_big (b : Nat) (h : 128 ≤ b) :
    ctrl b = match (b / 32) % 4 with
      | 0 => some .l | 1 => some .lr | 2 => some .lrn | _ => some .lrnd := by
  unfold ctrl
  rw [if_neg (by omega), if_neg (by omega), if_neg (by omega), if_neg (by omega)]
  rfl

theorem ctrl_lz (k : ChunkKind) (hk : isLz k) (j : Nat) (hj : j < 32) :
    ctrl (ctrlOf k + j) = some k ∧ (ctrlOf k + j) % 32 = j ∧ ctrlOf k + j < 256 := by
  rcases hk with rfl | rfl | rfl | rfl
  · have h1 : ctrlOf .l = 128 := rfl
    refine ⟨?_, by omega, by omega⟩
    rw [ctrl_big _ (by omega)]
    have : (ctrlOf .l + j) / 32 % 4 = 0 := by omega
    rw [this]
    rfl
  · have h1 : ctrlOf .lr = 160 := rfl
    refine ⟨?_, by omega, by omega⟩
    rw [ctrl_big _ (by omega)]
    have : (ctrlOf .lr + j) / 32 % 4 = 1 := by omega
    rw [this]
    rfl
  · have h1 : ctrlOf .lrn = 192 := rfl
    refine ⟨?_, by omega, by omega⟩
    rw [ctrl_big _ (by omega)]
    have : (ctrlOf .lrn + j) / 32 % 4 = 2 := by omega
    rw [this]
    rfl
  · have h1 : ctrlOf .lrnd = 224 := rfl
    refine ⟨?_, by omega, by omega⟩
    rw [ctrl_big _ (by omega)]
    have : (ctrlOf .lrnd + j) / 32 % 4 = 3 := by omega
    rw [this]
    rfl

theorem init_some_len (l : List Nat) (rd : Dec) (h : Dec.init l = some rd) : 5 ≤ l.length := by
  rcases l with _ | ⟨b0, _ | ⟨b1, _ | ⟨b2, _ | ⟨b3, _ | ⟨b4, r⟩⟩⟩⟩⟩ <;> simp [Dec.init] at h ⊢

theorem lzHdr_blist (e : EState) (c : Chunk) (hk : isLz c.kind) (hU : lzUsize e c ≤ 2 ^ 21)
    (hB : (lzBody e c).size ≤ 65536) (hB1 : 1 ≤ (lzBody e c).size)
    (hp : ∀ p, c.props = some p → PropsOk p) :
    blist (lzHdr e c) =
      [ctrlOf c.kind + (lzUsize e c - 1) / 65536, (lzUsize e c - 1) % 65536 / 256, (lzUsize e c - 1) % 65536 % 256,
        ((lzBody e c).size - 1) / 256, ((lzBody e c).size - 1) % 256] ++
      (match c.props with
        | some p => [byteOfProps p]
        | none => []) := by
  have hc := (ctrl_lz c.kind hk ((lzUsize e c - 1) / 65536) (by omega)).2.2
  unfold lzHdr
  cases hcp : c.props with
  | none =>
    simp only []
    rw [blist_append, blist_append, blist_push _ _ hc, blist_be16 _ (by omega), blist_be16 _ (by omega), blist_empty]
    rfl
  | some p =>
    simp only []
    rw [blist_push _ _ (byteOfProps_lt p (hp p hcp)), blist_append, blist_append, blist_push _ _ hc,
      blist_be16 _ (by omega), blist_be16 _ (by omega), blist_empty]
    rfl

theorem chunkBytes_lz (e : EState) (c : Chunk) (hk : isLz c.kind) : chunkBytes e c = lzHdr e c ++ lzBody e c := by
  obtain ⟨kind, usize, csize, props, ops, raw, consumed, marker⟩ := c
  unfold isLz at hk
  dsimp only at hk
  rcases hk with rfl | rfl | rfl | rfl <;> rfl

theorem readChunk_emitChunk_lz (strict : Bool) (e : EState) (q q' : SeqState) (c : Chunk) (r : RState)
    (pre post : ByteArray) (hk : isLz c.kind)
    (hm : Matches r e q) (hok : LzOk strict e c) (hq : seqStep q c.kind = some q')
    (hinp : r.inp = pre ++ chunkBytes e c ++ post) (hpos : r.pos = pre.size) :
    ∃ r', readChunk strict r = .next r' ∧ Matches r' (emitChunk e c) q' ∧ r'.inp = r.inp ∧
      r'.pos = r.pos + (chunkBytes e c).size ∧ r'.chunks = r.chunks.push (parsedChunk e c) := by
  obtain ⟨hne, hpr, hops, hU, hB, hstr⟩ := hok
  rw [chunkBytes_lz e c hk] at hinp ⊢
  have htbl : (lzTbl e c.kind (lzProps e c)).ok := by
    unfold lzTbl; split
    · exact initTable_ok _ _
    · exact hm.tblOk
  have hnel : c.ops.toList ≠ [] := by
    intro h; apply hne; exact Array.toList_eq_nil_iff.mp h
  have hlen1 : 1 ≤ c.ops.toList.length := by
    rcases hl : c.ops.toList with _ | ⟨a, l⟩
    · exact absurd hl hnel
    · simp
  -- the segment round trip
  have hseg : ∃ rd, Dec.init (bytesToList (lzBody e c) 0 (lzBody e c).size) = some rd ∧
      ∀ res, res = decSegment (lzProps e c) (some (lzUsize e c)) (lzH e c.kind).out.size strict (lzUsize e c + 2)
          { s := lzS e c.kind, tbl := lzTbl e c.kind (lzProps e c), rd := rd, h := lzH e c.kind } →
        res.status = .eof ∧ res.sawMarker = false ∧ res.d.h = (lzEnc e c).h ∧ res.d.s = (lzEnc e c).s ∧
        res.d.tbl = (lzEnc e c).tbl ∧ res.d.ops = c.ops.toList.toArray ∧ res.d.rd.inp = [] ∧ res.d.rd.code = 0 := by
    obtain ⟨rd, h1, h2⟩ := segment_roundtrip (lzProps e c) strict (lzS e c.kind) (lzTbl e c.kind (lzProps e c)) htbl
      (lzH e c.kind) c.ops.toList hops hnel
    exact ⟨rd, h1, fun res hres => by subst hres; exact h2⟩
  obtain ⟨rd, hinit, hres⟩ := hseg
  have hencs := encodeOps_bytes (lzProps e c) (lzS e c.kind) (lzTbl e c.kind (lzProps e c)) htbl (lzH e c.kind)
    c.ops.toList
  have hU1 : 1 ≤ lzUsize e c := by
    have h1 := finalH_size c.ops.toList _ _ hops
    have h2 : (lzEnc e c).h = _ := hencs.2.2.2
    unfold lzUsize; rw [h2]; omega
  have hB5 : 5 ≤ (lzBody e c).size := by
    have := init_some_len _ _ hinit
    rw [bytesToList_eq, blist_length] at this
    exact this
  have hpk : ∀ p, c.props = some p → PropsOk p := by
    intro p hp
    by_cases hkk : c.kind = .lrn ∨ c.kind = .lrnd
    · rw [if_pos hkk] at hpr; obtain ⟨p', h1, h2⟩ := hpr; rw [h1] at hp; cases hp; exact h2
    · rw [if_neg hkk] at hpr; rw [hpr.1] at hp; cases hp
  have hbl := lzHdr_blist e c hk hU hB (by omega) hpk
  have hhsz : (lzHdr e c).size = hlenOf c.kind := by
    rw [← blist_length, hbl]; unfold hlenOf
    by_cases hkk : c.kind = .lrn ∨ c.kind = .lrnd
    · rw [if_pos hkk] at hpr ⊢; obtain ⟨p', h1, h2⟩ := hpr; rw [h1]; rfl
    · rw [if_neg hkk] at hpr ⊢; rw [hpr.1]; rfl
  have hl5 : 5 ≤ hlenOf c.kind := by unfold hlenOf; split <;> omega
  have hsz : r.inp.size = pre.size + (hlenOf c.kind + (lzBody e c).size) + post.size := by
    rw [hinp]; simp only [ByteArray.size_append, hhsz]
  have hg : ∀ i, i < hlenOf c.kind → get r.inp (r.pos + i) = (blist (lzHdr e c))[i]?.getD 0 := by
    intro i hi
    rw [hinp, hpos, get_mid pre (lzHdr e c ++ lzBody e c) post i (by rw [ByteArray.size_append]; omega),
      get_append_left (by omega), get_eq_blist]
  have g0 : get r.inp r.pos = ctrlOf c.kind + (lzUsize e c - 1) / 65536 := by
    have := hg 0 (by omega); rw [hbl] at this; exact this
  have g1 : get r.inp (r.pos + 1) = (lzUsize e c - 1) % 65536 / 256 := by
    have := hg 1 (by omega); rw [hbl] at this; exact this
  have g2 : get r.inp (r.pos + 2) = (lzUsize e c - 1) % 65536 % 256 := by
    have := hg 2 (by omega); rw [hbl] at this; exact this
  have g3 : get r.inp (r.pos + 3) = ((lzBody e c).size - 1) / 256 := by
    have := hg 3 (by omega); rw [hbl] at this; exact this
  have g4 : get r.inp (r.pos + 4) = ((lzBody e c).size - 1) % 256 := by
    have := hg 4 (by omega); rw [hbl] at this; exact this
  obtain ⟨hc1, hc2, hc3⟩ := ctrl_lz c.kind hk ((lzUsize e c - 1) / 65536) (by omega)
  have hu : lzUsize e c =
      (get r.inp r.pos % 32) * 65536 + get r.inp (r.pos + 1) * 256 + get r.inp (r.pos + 2) + 1 := by
    rw [g0, g1, g2, hc2]; omega
  have hc : (lzBody e c).size = get r.inp (r.pos + 3) * 256 + get r.inp (r.pos + 4) + 1 := by
    rw [g3, g4]; omega
  have hbt : bytesToList r.inp (r.pos + hlenOf c.kind) (r.pos + hlenOf c.kind + (lzBody e c).size) =
      bytesToList (lzBody e c) 0 (lzBody e c).size := by
    have h1 : r.inp = (pre ++ lzHdr e c) ++ lzBody e c ++ post := by rw [hinp]; simp only [ByteArray.append_assoc]
    have h2 : r.pos + hlenOf c.kind = (pre ++ lzHdr e c).size := by rw [ByteArray.size_append, hhsz, hpos]
    rw [bytesToList_eq, h2, h1]
    exact bytesToList_mid _ _ _
  have hprops : if c.kind = .lrn ∨ c.kind = .lrnd then
        propsOfByte (get r.inp (r.pos + 5)) = some (lzProps e c) ∧ c.props = some (lzProps e c)
      else c.props = none ∧ r.props = some (lzProps e c) := by
    by_cases hkk : c.kind = .lrn ∨ c.kind = .lrnd
    · rw [if_pos hkk] at hpr ⊢
      obtain ⟨p', h1, h2⟩ := hpr
      have hlp : lzProps e c = p' := by unfold lzProps; rw [h1]
      have g5 : get r.inp (r.pos + 5) = byteOfProps p' := by
        have := hg 5 (by unfold hlenOf; rw [if_pos hkk]; omega); rw [hbl, h1] at this; exact this
      rw [g5, hlp]
      exact ⟨propsOfByte_byteOfProps p' h2, h1⟩
    · rw [if_neg hkk] at hpr ⊢
      obtain ⟨h1, h2⟩ := hpr
      refine ⟨h1, ?_⟩
      rw [hm.props]
      rcases hep : e.props with _ | p'
      · rw [hep] at h2; simp at h2
      · unfold lzProps; rw [h1, hep]; rfl
  have hS : (if c.kind ≠ .l then ({} : St) else r.s) = lzS e c.kind := by unfold lzS; rw [hm.s]
  have hT : (if c.kind ≠ .l then initTable (lzProps e c).lc (lzProps e c).lp else r.tbl) =
      lzTbl e c.kind (lzProps e c) := by unfold lzTbl; rw [hm.tbl]
  have hH : lzH e c.kind = if c.kind = .lrnd then r.h.reset else r.h := by unfold lzH; rw [hm.h]
  obtain ⟨res, hresd⟩ : ∃ res, res = decSegment (lzProps e c) (some (lzUsize e c)) (lzH e c.kind).out.size strict
      (lzUsize e c + 2) { s := lzS e c.kind, tbl := lzTbl e c.kind (lzProps e c), rd := rd, h := lzH e c.kind } :=
    ⟨_, rfl⟩
  obtain ⟨a1, a2, a3, a4, a5, a6, a7, a8⟩ := hres res hresd
  have := readChunk_lz strict r c.kind q' (lzProps e c) c.props rd hk (by omega) (by rw [g0]; exact hc1)
    (by rw [hm.seq]; exact hq) hprops hstr (lzUsize e c) (lzBody e c).size hu hc (by omega)
    (by rw [hbt]; exact hinit) (lzH e c.kind) hH res (by rw [hS, hT]; exact hresd) a1 a7
  refine ⟨_, this, ?_, rfl, ?_, ?_⟩
  · rw [emitChunk_lz e c hk]
    refine ⟨a3, rfl, a4, a5, rfl, ?_⟩
    have h2 : (lzEnc e c).tbl = _ := hencs.2.2.1
    show (lzEnc e c).tbl.ok
    rw [h2]
    exact tblAfter_ok _ _ htbl
  · simp only [ByteArray.size_append, hhsz]; omega
  · have hpc : parsedChunk e c =
        ⟨c.kind, lzUsize e c, (lzBody e c).size, c.props, c.ops, ByteArray.empty, (lzBody e c).size, false⟩ := by
      unfold parsedChunk
      rcases hk with h | h | h | h <;> rw [h]
    rw [hpc]
    show r.chunks.push _ = _
    rw [a6, a2, Array.toArray_toList]

theorem seqStep_not_ended (q q' : SeqState) (k : ChunkKind) (hk : k ≠ .eos) (h : seqStep q k = some q') :
    q' ≠ .ended := by
  cases q with
  | ended => simp [seqStep] at h
  | run a b =>
    cases k <;> cases a <;> cases b <;> simp [seqStep] at h hk ⊢ <;> (subst h; simp)

/-- **Per-chunk round trip.** -/
theorem readChunk_emitChunk (strict : Bool) (e : EState) (q : SeqState) (c : Chunk) (r : RState)
    (pre post : ByteArray) (hm : Matches r e q) (hok : ChunkOk strict e q c)
    (hinp : r.inp = pre ++ chunkBytes e c ++ post) (hpos : r.pos = pre.size) :
    ∃ r' q', seqStep q c.kind = some q' ∧ q' ≠ .ended ∧ readChunk strict r = .next r' ∧
      Matches r' (emitChunk e c) q' ∧ r'.inp = r.inp ∧ r'.pos = r.pos + (chunkBytes e c).size ∧
      r'.chunks = r.chunks.push (parsedChunk e c) := by
  obtain ⟨hq, hrest⟩ := hok
  obtain ⟨q', hq'⟩ := Option.isSome_iff_exists.mp hq
  cases hck : c.kind <;> rw [hck] at hrest <;> dsimp only at hrest
  all_goals
    have hne : q' ≠ .ended := seqStep_not_ended q q' c.kind (by rw [hck]; simp) hq'
  · obtain ⟨r', h1, h2, h3, h4⟩ := readChunk_emitChunk_raw strict e q q' c r pre post (Or.inl hck) hm hrest hq' hinp hpos
    exact ⟨r', q', hck ▸ hq', hne, h1, h2, h3, h4⟩
  · obtain ⟨r', h1, h2, h3, h4⟩ := readChunk_emitChunk_raw strict e q q' c r pre post (Or.inr hck) hm hrest hq' hinp hpos
    exact ⟨r', q', hck ▸ hq', hne, h1, h2, h3, h4⟩
  · obtain ⟨r', h1, h2, h3, h4⟩ := readChunk_emitChunk_lz strict e q q' c r pre post (Or.inl hck) hm hrest hq' hinp hpos
    exact ⟨r', q', hck ▸ hq', hne, h1, h2, h3, h4⟩
  · obtain ⟨r', h1, h2, h3, h4⟩ := readChunk_emitChunk_lz strict e q q' c r pre post (Or.inr (Or.inl hck)) hm hrest hq' hinp hpos
    exact ⟨r', q', hck ▸ hq', hne, h1, h2, h3, h4⟩
  · obtain ⟨r', h1, h2, h3, h4⟩ := readChunk_emitChunk_lz strict e q q' c r pre post (Or.inr (Or.inr (Or.inl hck))) hm hrest hq' hinp hpos
    exact ⟨r', q', hck ▸ hq', hne, h1, h2, h3, h4⟩
  · obtain ⟨r', h1, h2, h3, h4⟩ := readChunk_emitChunk_lz strict e q q' c r pre post (Or.inr (Or.inr (Or.inr hck))) hm hrest hq' hinp hpos
    exact ⟨r', q', hck ▸ hq', hne, h1, h2, h3, h4⟩

/-! ### chunk sequences -/

def chunksBytes : EState → List Chunk → ByteArray
  | _, [] => ByteArray.empty
  | e, c :: cs => chunkBytes e c ++ chunksBytes (emitChunk e c) cs

/-- the chunk records the reader produces for the emitted sequence -/
def parsedChunks : EState → List Chunk → List Chunk
  | _, [] => []
  | e, c :: cs => parsedChunk e c :: parsedChunks (emitChunk e c) cs

theorem foldl_emitChunk_out (cs : List Chunk) : ∀ e : EState,
    (cs.foldl emitChunk e).out = e.out ++ chunksBytes e cs := by
  induction cs with
  | nil => intro e; simp only [List.foldl_nil, chunksBytes, ByteArray.append_empty]
  | cons c cs ih =>
    intro e
    simp only [List.foldl_cons, chunksBytes]
    rw [ih, emitChunk_out, ByteArray.append_assoc]

inductive ChunksOk (strict : Bool) : EState → SeqState → List Chunk → Prop
  | nil (e : EState) (q : SeqState) : ChunksOk strict e q []
  | cons (e : EState) (q q' : SeqState) (c : Chunk) (cs : List Chunk) :
      ChunkOk strict e q c → seqStep q c.kind = some q' → ChunksOk strict (emitChunk e c) q' cs →
      ChunksOk strict e q (c :: cs)

theorem lzHdr_size_pos (e : EState) (c : Chunk) : 1 ≤ (lzHdr e c).size := by
  unfold lzHdr
  cases c.props <;> simp only [ByteArray.size_append, ByteArray.size_push, be16_size] <;> omega

theorem lz_size_pos (e : EState) (c : Chunk) : 1 ≤ (lzHdr e c ++ lzBody e c).size := by
  have := lzHdr_size_pos e c
  rw [ByteArray.size_append]; omega

theorem chunkBytes_size_pos (e : EState) (c : Chunk) : 1 ≤ (chunkBytes e c).size := by
  obtain ⟨kind, usize, csize, props, ops, raw, consumed, marker⟩ := c
  cases kind
  · simp only [chunkBytes, ByteArray.size_push]; omega
  · simp only [chunkBytes, ByteArray.size_append, ByteArray.size_push, be16_size]; omega
  · simp only [chunkBytes, ByteArray.size_append, ByteArray.size_push, be16_size]; omega
  all_goals
    rw [chunkBytes_lz _ _ (by simp [isLz])]
    exact lz_size_pos _ _

theorem chunksBytes_size (cs : List Chunk) : ∀ e : EState, cs.length ≤ (chunksBytes e cs).size := by
  induction cs with
  | nil => intro e; exact Nat.zero_le _
  | cons c cs ih =>
    intro e
    simp only [chunksBytes, ByteArray.size_append, List.length_cons]
    have := ih (emitChunk e c)
    have := chunkBytes_size_pos e c
    omega

theorem readAll_emit (strict : Bool) : ∀ (cs : List Chunk) (e : EState) (q : SeqState) (r : RState)
    (pre post : ByteArray) (fuel : Nat),
    Matches r e q → q ≠ .ended → ChunksOk strict e q cs →
    r.inp = pre ++ chunksBytes e cs ++ (ByteArray.empty.push 0 ++ post) → r.pos = pre.size →
    cs.length + 1 ≤ fuel →
    ∃ r', readAll strict fuel r = (r', .eof) ∧ r'.h = (cs.foldl emitChunk e).h ∧ r'.inp = r.inp ∧
      r'.pos = pre.size + (chunksBytes e cs).size + 1 ∧ r'.seq = .ended ∧
      r'.chunks.toList = r.chunks.toList ++ parsedChunks e cs ++ [eosChunk] := by
  intro cs
  induction cs with
  | nil =>
    intro e q r pre post fuel hm hq _ hinp hpos hfuel
    obtain ⟨f, rfl⟩ : ∃ f, fuel = f + 1 := ⟨fuel - 1, by omega⟩
    have hinp' : r.inp = pre ++ ByteArray.empty.push 0 ++ post := by
      rw [hinp]; simp only [chunksBytes, ByteArray.append_empty, ByteArray.append_assoc]
    obtain ⟨r', h1, h2, h3, h4, h5, h6⟩ := readChunk_emitChunk_eos strict e q r pre post hm hq hinp' hpos
    refine ⟨r', ?_, h2, h3, ?_, h5, ?_⟩
    · simp only [readAll, h1]
    · rw [h4, hpos]; rfl
    · rw [h6]; simp only [Array.toList_push, parsedChunks, List.append_nil]
  | cons c cs ih =>
    intro e q r pre post fuel hm hq hok hinp hpos hfuel
    obtain ⟨f, rfl⟩ : ∃ f, fuel = f + 1 := ⟨fuel - 1, by omega⟩
    cases hok with
    | cons _ _ q1 _ _ hc hs hrest =>
    have hinp1 : r.inp = pre ++ chunkBytes e c ++
        (chunksBytes (emitChunk e c) cs ++ (ByteArray.empty.push 0 ++ post)) := by
      rw [hinp]; simp only [chunksBytes, ByteArray.append_assoc]
    obtain ⟨r1, q', hq', hne, h1, h2, h3, h4, h5⟩ := readChunk_emitChunk strict e q c r pre _ hm hc hinp1 hpos
    have hqq : q' = q1 := by rw [hs] at hq'; exact (Option.some.inj hq').symm
    subst hqq
    have hinp2 : r1.inp = (pre ++ chunkBytes e c) ++ chunksBytes (emitChunk e c) cs ++
        (ByteArray.empty.push 0 ++ post) := by
      rw [h3, hinp]; simp only [chunksBytes, ByteArray.append_assoc]
    have hpos2 : r1.pos = (pre ++ chunkBytes e c).size := by
      rw [h4, hpos, ByteArray.size_append]
    obtain ⟨r', g1, g2, g3, g4, g5, g6⟩ := ih (emitChunk e c) q' r1 (pre ++ chunkBytes e c) post f h2 hne hrest hinp2 hpos2
      (by simp only [List.length_cons] at hfuel; omega)
    refine ⟨r', ?_, g2, by rw [g3, h3], ?_, g5, ?_⟩
    · simp only [readAll, h1]; exact g1
    · rw [g4]; simp only [chunksBytes, ByteArray.size_append]; omega
    · rw [g6, h5]; simp only [Array.toList_push, parsedChunks, List.append_assoc, List.cons_append, List.nil_append]

/-- the emitter's start state -/
def e0 (cap : Nat) : EState := { h := { out := ByteArray.empty, dictStart := 0, cap := cap } }

theorem emit_eq (cap : Nat) (cs : Array Chunk) :
    emit cap (cs.push eosChunk) = chunksBytes (e0 cap) cs.toList ++ ByteArray.empty.push 0 := by
  unfold emit
  rw [Array.foldl_push]
  show ((cs.foldl emitChunk (e0 cap)).out.push 0) = _
  rw [← Array.foldl_toList, foldl_emitChunk_out, push_eq_append]
  show ByteArray.empty ++ _ ++ _ = _
  rw [ByteArray.empty_append]

/-- **Headline.** -/
theorem decode_emit (strict : Bool) (cap : Nat) (cs : Array Chunk)
    (hok : ChunksOk strict (e0 cap) .init cs.toList) :
    ∃ r, decode strict cap (emit cap (cs.push { kind := .eos, usize := 0 })) 0 ByteArray.empty = (r, .eof) ∧
      r.h = (cs.foldl emitChunk (e0 cap)).h ∧
      r.h.out = (cs.foldl emitChunk (e0 cap)).h.out ∧
      r.pos = (emit cap (cs.push { kind := .eos, usize := 0 })).size ∧
      r.seq = .ended ∧
      r.chunks.toList = parsedChunks (e0 cap) cs.toList ++ [eosChunk] := by
  have hemit := emit_eq cap cs
  unfold eosChunk at hemit
  unfold decode
  generalize hinp : emit cap (cs.push { kind := .eos, usize := 0 }) = inp at *
  have hm : Matches { inp := inp, pos := 0, h := { out := ByteArray.empty, dictStart := ByteArray.empty.size, cap := cap } }
      (e0 cap) .init := ⟨rfl, rfl, rfl, rfl, rfl, empty_tbl_ok⟩
  have hsz : inp.size = (chunksBytes (e0 cap) cs.toList).size + 1 := by
    rw [hemit, ByteArray.size_append]; rfl
  have hlen := chunksBytes_size cs.toList (e0 cap)
  obtain ⟨r', g1, g2, g3, g4, g5, g6⟩ := readAll_emit strict cs.toList (e0 cap) .init _ ByteArray.empty ByteArray.empty
    (inp.size - 0 + 2) hm (by simp [SeqState.init]) hok
    (by show inp = _; rw [hemit, ByteArray.empty_append, ByteArray.append_empty]) rfl (by omega)
  refine ⟨r', g1, ?_, ?_, ?_, g5, ?_⟩
  · rw [g2, Array.foldl_toList]
  · rw [g2, Array.foldl_toList]
  · rw [g4, hsz]; show 0 + _ + 1 = _; omega
  · rw [g6]; rfl

#print axioms Lzma2.readChunk_emitChunk_eos
#print axioms Lzma2.readChunk_emitChunk_raw
#print axioms Lzma2.readChunk_emitChunk_lz
#print axioms Lzma2.emitChunk_out
#print axioms Lzma2.readAll_emit
#print axioms Lzma2.readChunk_emitChunk
#print axioms Lzma2.decode_emit

end Lzma2
