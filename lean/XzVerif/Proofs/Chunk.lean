import XzVerif.Model.Chunk

/-! Helper lemmas for C16: the regenerated transition table refines the format's two-flag
    automaton; lifted to sequences by induction. -/

namespace Proofs.Chunk
open Spec Model

/-- refinement map from Go's chunk states to the format's flags -/
def R (s : Nat) : Option SeqState :=
  if s = 83 then some (.run true true)        -- 'S'
  else if s = 82 then some (.run false true)  -- 'R'
  else if s = 76 then some (.run false false) -- 'L'
  else if s = 85 then some (.run false false) -- 'U'
  else if s = 84 then some .ended             -- 'T'
  else none

def known : List Nat := [83, 82, 76, 85, 84]

/-- one step commutes with the refinement map, on the whole (finite) table -/
theorem step_refines : ∀ s ∈ known, ∀ k ∈ ChunkKind.all,
    (R s).bind (fun a => seqStep a k) = (chunkNext s (ctypeOf k)).bind R ∧
    (chunkNext s (ctypeOf k)).all (fun s' => decide (s' ∈ known)) = true := by decide

theorem mem_all (k : ChunkKind) : k ∈ ChunkKind.all := by cases k <;> decide

theorem R_known : ∀ s ∈ known, (R s).isSome = true := by decide

theorem run_refines (ks : List ChunkKind) : ∀ s ∈ known, ∀ a, R s = some a →
    (readerRun s ks).isSome = (seqRun a ks).isSome ∧
    ∀ i, readerFirstReject s ks i = firstIllegal a ks i := by
  induction ks with
  | nil => intro s _ a _; simp [readerRun, seqRun, readerFirstReject, firstIllegal]
  | cons k ks ih =>
    intro s hs a ha
    obtain ⟨h1, h2⟩ := step_refines s hs k (mem_all k)
    rw [ha] at h1
    simp only [Option.bind_some] at h1
    simp only [readerRun, seqRun, readerFirstReject, firstIllegal]
    cases hn : chunkNext s (ctypeOf k) with
    | none =>
      rw [hn] at h1
      simp only [Option.bind_none] at h1
      simp [h1]
    | some s' =>
      rw [hn] at h1 h2
      simp only [Option.bind_some] at h1
      simp only [Option.all_some, decide_eq_true_eq] at h2
      have hsome := R_known s' h2
      cases hr : R s' with
      | none => rw [hr] at hsome; simp at hsome
      | some a' =>
        rw [hr] at h1
        obtain ⟨ih1, ih2⟩ := ih s' h2 a' hr
        simp [h1, ih1, ih2]

/-- writer: from every non-final state both the default chunk type and its raw demotion are
    accepted by `next`, and lead to a non-final known state -/
def live : List Nat := [83, 82, 76, 85]

theorem writer_step : ∀ s ∈ live, ∀ raw : Bool,
    let c := if raw then demote (defaultChunkType s) else defaultChunkType s
    ∃ s', chunkNext s c = some s' ∧ s' ∈ live ∧ (kindOfCtype c).isSome ∧ c ≠ Gen.lzma_cEOS := by
  decide

end Proofs.Chunk
