import XzVerif.Model.Src

/-!
  Helper lemmas for Proofs/Src.lean: what one `S.read` returns (for an unknown fragment length `k`), and the
  loops of `io.ReadFull`, `io.Copy` over one and over two limits, by induction on the fuel.
-/

set_option linter.unusedSimpArgs false
set_option linter.unusedVariables false

namespace Src

/-- what an access leaves unchanged (copy of `Same` in Proofs/Src.lean, identified there by `Iff.rfl`) -/
def Same' (s s' : S) : Prop :=
  s'.data = s.data ∧ s'.ends = s.ends ∧ s'.frag = s.frag ∧ s'.together = s.together ∧
  s.pos ≤ s'.pos ∧ s'.pos ≤ s'.data.size

theorem Same'.refl (s : S) (h : s.pos ≤ s.data.size) : Same' s s :=
  ⟨rfl, rfl, rfl, rfl, Nat.le_refl _, h⟩

theorem Same'.trans {a b c : S} (h1 : Same' a b) (h2 : Same' b c) : Same' a c := by
  obtain ⟨a1, a2, a3, a4, a5, a6⟩ := h1
  obtain ⟨b1, b2, b3, b4, b5, b6⟩ := h2
  exact ⟨b1.trans a1, b2.trans a2, b3.trans a3, b4.trans a4, Nat.le_trans a5 b5, b6⟩

/-! ### byte arrays -/

theorem ext_app (a : ByteArray) (p q r : Nat) (h1 : p ≤ q) (h2 : q ≤ r) :
    a.extract p q ++ a.extract q r = a.extract p r := by
  rw [ByteArray.extract_append_extract, Nat.min_eq_left h1, Nat.max_eq_right h2]

theorem ext_size (a : ByteArray) (p q : Nat) (h : q ≤ a.size) : (a.extract p q).size = q - p := by
  rw [ByteArray.size_extract, Nat.min_eq_left h]

theorem endSt_ne_ok (s : S) : s.endSt ≠ .ok := by
  unfold S.endSt
  cases s.ends <;> simp

/-! ### one `Read` -/

/-- the result of `s.read len`: some `k` bytes, `k ≤ len`, at least one if possible; the end is reported when
    nothing is left, or together with the last bytes if the source does that -/
theorem read_spec (s : S) (len : Nat) (h : s.pos ≤ s.data.size) :
    ∃ k, k ≤ len ∧ s.pos + k ≤ s.data.size ∧ (0 < len → s.pos < s.data.size → 0 < k) ∧
      (s.read len).1.pos = s.pos + k ∧ Same' s (s.read len).1 ∧
      (s.read len).2.1 = s.data.extract s.pos (s.pos + k) ∧
      (s.read len).2.2 =
        if 0 < len ∧ (s.pos = s.data.size ∨ (s.together = true ∧ s.pos + k = s.data.size)) then s.endSt
        else .ok := by
  unfold S.read
  by_cases hl : len = 0
  · rw [if_pos hl]
    refine ⟨0, by omega, by omega, by omega, rfl, Same'.refl s h, ?_, ?_⟩
    · show ByteArray.empty = _
      rw [Nat.add_zero, ByteArray.extract_same]
    · rw [if_neg (by omega)]
  · rw [if_neg hl]
    by_cases ha : s.avail = 0
    · rw [if_pos ha]
      unfold S.avail at ha
      refine ⟨0, by omega, by omega, by omega, rfl, ⟨rfl, rfl, rfl, rfl, Nat.le_refl _, h⟩, ?_, ?_⟩
      · show ByteArray.empty = _
        rw [Nat.add_zero, ByteArray.extract_same]
      · show s.endSt = _
        rw [if_pos ⟨by omega, Or.inl (by omega)⟩]
    · rw [if_neg ha]
      unfold S.avail at ha
      dsimp only
      generalize hk : min len (min (max 1 (s.frag s.calls)) s.avail) = k
      have hk1 : k ≤ len := by omega
      have hk2 : s.pos + k ≤ s.data.size := by unfold S.avail at hk; omega
      have hk3 : 0 < k := by unfold S.avail at hk; omega
      refine ⟨k, hk1, hk2, fun _ _ => hk3, rfl, ⟨rfl, rfl, rfl, rfl, by show s.pos ≤ s.pos + k; omega, hk2⟩, rfl, ?_⟩
      unfold S.avail
      dsimp only
      by_cases ht : s.together = true ∧ s.data.size - (s.pos + k) = 0
      · rw [if_pos ht, if_pos ⟨by omega, Or.inr ⟨ht.1, by omega⟩⟩]
      · rw [if_neg ht, if_neg]
        intro hc
        apply ht
        rcases hc.2 with h1 | h1
        · omega
        · exact ⟨h1.1, by omega⟩

/-! ### `io.ReadFull` -/

theorem readFullLoop_spec (n : Nat) : ∀ (fuel : Nat) (s : S) (acc : ByteArray) (r : S × ByteArray × St),
    s.pos ≤ s.data.size → (n - acc.size) + 1 ≤ fuel → readFullLoop n fuel s acc = r →
    Same' s r.1 ∧
    (if n - acc.size ≤ s.data.size - s.pos then
       r.1.pos = s.pos + (n - acc.size) ∧ r.2.1 = acc ++ s.data.extract s.pos (s.pos + (n - acc.size)) ∧ r.2.2 = .ok
     else
       r.1.pos = s.data.size ∧ r.2.1 = acc ++ s.data.extract s.pos s.data.size ∧
       r.2.2 = match s.ends with
         | .fail => .src
         | .eof => if acc.size + (s.data.size - s.pos) = 0 then .eof else .unexpectedEOF) := by
  intro fuel
  induction fuel with
  | zero => intro s acc r _ hf; omega
  | succ fuel ih =>
    intro s acc r h hf hr
    unfold readFullLoop at hr
    by_cases hge : acc.size ≥ n
    · rw [if_pos hge] at hr
      subst hr
      refine ⟨Same'.refl s h, ?_⟩
      have h0 : n - acc.size = 0 := by omega
      rw [h0, if_pos (Nat.zero_le _)]
      refine ⟨rfl, ?_, rfl⟩
      show acc = _
      rw [Nat.add_zero, ByteArray.extract_same, ByteArray.append_empty]
    · rw [if_neg hge] at hr
      obtain ⟨k, hk1, hk2, hk3, hpos, hsame, hchunk, hst⟩ := read_spec s (n - acc.size) h
      rcases hrd : s.read (n - acc.size) with ⟨s', chunk, st⟩
      rw [hrd] at hpos hsame hchunk hst hr
      dsimp only at hpos hsame hchunk hst hr
      have hd := hsame.1
      have hsz : (acc ++ chunk).size = acc.size + k := by
        rw [ByteArray.size_append, hchunk, ext_size _ _ _ hk2]; omega
      by_cases hcond : 0 < n - acc.size ∧ (s.pos = s.data.size ∨ (s.together = true ∧ s.pos + k = s.data.size))
      · -- the end was reported
        rw [if_pos hcond] at hst
        have hne := endSt_ne_ok s
        rw [← hst] at hne
        have hr' : (if (acc ++ chunk).size ≥ n then (s', acc ++ chunk, St.ok)
            else if (acc ++ chunk).size > 0 ∧ st = .eof then (s', acc ++ chunk, St.unexpectedEOF)
            else (s', acc ++ chunk, st)) = r := by
          cases st with
          | ok => exact absurd rfl hne
          | eof => exact hr
          | unexpectedEOF => exact hr
          | src => exact hr
          | noData => exact hr
        refine ⟨by rw [← hr']; split <;> (try split) <;> exact hsame, ?_⟩
        have hend : s.pos + k = s.data.size := by
          rcases hcond.2 with h1 | h1
          · have : ¬ s.pos < s.data.size := by omega
            omega
          · exact h1.2
        by_cases hfull : (acc ++ chunk).size ≥ n
        · rw [if_pos hfull] at hr'
          subst hr'
          rw [hsz] at hfull
          have hkm : k = n - acc.size := by omega
          rw [if_pos (by omega)]
          refine ⟨by show s'.pos = _; rw [hpos, hkm], ?_, rfl⟩
          show acc ++ chunk = _
          rw [hchunk, hkm]
        · rw [if_neg hfull] at hr'
          rw [hsz] at hfull
          rw [if_neg (by omega)]
          have hch : chunk = s.data.extract s.pos s.data.size := by rw [hchunk, hend]
          unfold S.endSt at hst
          cases he : s.ends with
          | eof =>
            rw [he] at hst
            dsimp only at hst ⊢
            subst hst
            by_cases hpos0 : (acc ++ chunk).size > 0
            · rw [if_pos ⟨hpos0, rfl⟩] at hr'
              subst hr'
              rw [hsz] at hpos0
              refine ⟨by show s'.pos = _; omega, by show acc ++ chunk = _; rw [hch], ?_⟩
              show St.unexpectedEOF = _
              rw [if_neg (by omega)]
            · rw [if_neg (fun hh => hpos0 hh.1)] at hr'
              subst hr'
              rw [hsz] at hpos0
              refine ⟨by show s'.pos = _; omega, by show acc ++ chunk = _; rw [hch], ?_⟩
              show St.eof = _
              rw [if_pos (by omega)]
          | fail =>
            rw [he] at hst
            dsimp only at hst ⊢
            subst hst
            rw [if_neg (fun hh => by cases hh.2)] at hr'
            subst hr'
            exact ⟨by show s'.pos = _; omega, by show acc ++ chunk = _; rw [hch], rfl⟩
      · -- nil: go on
        rw [if_neg hcond] at hst
        subst hst
        dsimp only at hr
        have hkpos : 0 < k := hk3 (by omega)
          (Decidable.byContradiction (fun hh => hcond ⟨by omega, Or.inl (by omega)⟩))
        have hs'pos : s'.pos ≤ s'.data.size := hsame.2.2.2.2.2
        obtain ⟨i1, i2⟩ := ih s' (acc ++ chunk) r hs'pos (by rw [hsz]; omega) hr
        refine ⟨hsame.trans i1, ?_⟩
        rw [hsz, hd, hpos, hsame.2.1] at i2
        have hmk : n - (acc.size + k) = n - acc.size - k := by omega
        by_cases hfit : n - acc.size ≤ s.data.size - s.pos
        · rw [if_pos hfit]
          rw [if_pos (by omega)] at i2
          obtain ⟨j1, j2, j3⟩ := i2
          refine ⟨by omega, ?_, j3⟩
          rw [j2, hchunk, ByteArray.append_assoc, ext_app _ _ _ _ (by omega) (by omega)]
          congr 2
          omega
        · rw [if_neg hfit]
          rw [if_neg (by omega)] at i2
          obtain ⟨j1, j2, j3⟩ := i2
          refine ⟨j1, ?_, ?_⟩
          · rw [j2, hchunk, ByteArray.append_assoc, ext_app _ _ _ _ (by omega) (by omega)]
          · rw [j3]
            cases s.ends with
            | fail => rfl
            | eof =>
              dsimp only
              have : acc.size + k + (s.data.size - (s.pos + k)) = acc.size + (s.data.size - s.pos) := by omega
              rw [this]

/-! ### the limited reader -/

theorem limRead_zero (s : S) (len : Nat) : limRead s 0 len = (s, 0, ByteArray.empty, .eof) := by
  unfold limRead
  rw [if_pos rfl]

theorem limRead_pos (s : S) (N len : Nat) (hN : N ≠ 0) :
    limRead s N len = ((s.read (min len N)).1, N - (s.read (min len N)).2.1.size, (s.read (min len N)).2.1,
      (s.read (min len N)).2.2) := by
  unfold limRead
  rw [if_neg hN]

/-! ### `io.Copy` from a limited reader -/

theorem copyLoop_spec (B : Nat) (hB : 1 ≤ B) : ∀ (fuel : Nat) (s : S) (N : Nat) (acc : ByteArray)
    (r : S × Nat × ByteArray × St),
    s.pos ≤ s.data.size → N + 1 ≤ fuel → copyLoop B fuel s N acc = r →
    Same' s r.1 ∧
    (if N ≤ s.data.size - s.pos then
       r.1.pos = s.pos + N ∧ r.2.2.1 = acc ++ s.data.extract s.pos (s.pos + N)
     else
       r.1.pos = s.data.size ∧ r.2.2.1 = acc ++ s.data.extract s.pos s.data.size ∧
       r.2.2.2 = match s.ends with
         | .eof => .ok
         | .fail => .src) := by
  intro fuel
  induction fuel with
  | zero => intro s N acc r _ hf; omega
  | succ fuel ih =>
    intro s N acc r h hf hr
    unfold copyLoop at hr
    by_cases hN : N = 0
    · subst hN
      rw [limRead_zero] at hr
      dsimp only at hr
      subst hr
      refine ⟨Same'.refl s h, ?_⟩
      rw [if_pos (Nat.zero_le _)]
      refine ⟨rfl, ?_⟩
      show acc ++ ByteArray.empty = _
      rw [Nat.add_zero, ByteArray.extract_same]
    · rw [limRead_pos s N B hN] at hr
      obtain ⟨k, hk1, hk2, hk3, hpos, hsame, hchunk, hst⟩ := read_spec s (min B N) h
      rcases hrd : s.read (min B N) with ⟨s', chunk, st⟩
      rw [hrd] at hpos hsame hchunk hst hr
      dsimp only at hpos hsame hchunk hst hr
      have hd := hsame.1
      have hcs : chunk.size = k := by
        rw [hchunk, ext_size _ _ _ hk2]; omega
      have hlen : 0 < min B N := by omega
      by_cases hcond : 0 < min B N ∧ (s.pos = s.data.size ∨ (s.together = true ∧ s.pos + k = s.data.size))
      · rw [if_pos hcond] at hst
        have hend : s.pos + k = s.data.size := by
          rcases hcond.2 with h1 | h1
          · have : ¬ s.pos < s.data.size := by omega
            omega
          · exact h1.2
        unfold S.endSt at hst
        cases he : s.ends with
        | eof =>
          rw [he] at hst
          dsimp only at hst
          subst hst
          dsimp only at hr
          subst hr
          refine ⟨hsame, ?_⟩
          by_cases hfit : N ≤ s.data.size - s.pos
          · rw [if_pos hfit]
            have hkN : k = N := by omega
            exact ⟨by show s'.pos = _; rw [hpos, hkN], by show acc ++ chunk = _; rw [hchunk, hkN]⟩
          · rw [if_neg hfit]
            exact ⟨by show s'.pos = _; omega, by show acc ++ chunk = _; rw [hchunk, hend], rfl⟩
        | fail =>
          rw [he] at hst
          dsimp only at hst
          subst hst
          dsimp only at hr
          subst hr
          refine ⟨hsame, ?_⟩
          by_cases hfit : N ≤ s.data.size - s.pos
          · rw [if_pos hfit]
            have hkN : k = N := by omega
            exact ⟨by show s'.pos = _; rw [hpos, hkN], by show acc ++ chunk = _; rw [hchunk, hkN]⟩
          · rw [if_neg hfit]
            exact ⟨by show s'.pos = _; omega, by show acc ++ chunk = _; rw [hchunk, hend], rfl⟩
      · rw [if_neg hcond] at hst
        subst hst
        dsimp only at hr
        have hkpos : 0 < k := hk3 hlen
          (Decidable.byContradiction (fun hh => hcond ⟨hlen, Or.inl (by omega)⟩))
        have hs'pos : s'.pos ≤ s'.data.size := hsame.2.2.2.2.2
        rw [hcs] at hr
        obtain ⟨i1, i2⟩ := ih s' (N - k) (acc ++ chunk) r hs'pos (by omega) hr
        refine ⟨hsame.trans i1, ?_⟩
        rw [hd, hpos, hsame.2.1] at i2
        by_cases hfit : N ≤ s.data.size - s.pos
        · rw [if_pos hfit]
          rw [if_pos (by omega)] at i2
          obtain ⟨j1, j2⟩ := i2
          refine ⟨by omega, ?_⟩
          rw [j2, hchunk, ByteArray.append_assoc, ext_app _ _ _ _ (by omega) (by omega)]
          congr 2
          omega
        · rw [if_neg hfit]
          rw [if_neg (by omega)] at i2
          obtain ⟨j1, j2, j3⟩ := i2
          refine ⟨j1, ?_, j3⟩
          rw [j2, hchunk, ByteArray.append_assoc, ext_app _ _ _ _ (by omega) (by omega)]

/-! ### the copy through two limits -/

/-- the exceptional configuration at a loop state -/
def Exc (s : S) (N W : Nat) : Prop :=
  s.ends = .fail ∧ s.together = true ∧ 0 < N ∧ N = s.data.size - s.pos ∧ N < W

instance (s : S) (N W : Nat) : Decidable (Exc s N W) := by
  unfold Exc
  infer_instance

theorem limLoop_spec (B : Nat) (hB : 1 ≤ B) : ∀ (fuel : Nat) (s : S) (N W : Nat) (acc : ByteArray)
    (r : S × Nat × ByteArray × St),
    s.pos ≤ s.data.size → W + 1 ≤ fuel → copyLim.loop B fuel s N W acc = r →
    Same' s r.1 ∧ r.1.pos = s.pos + min W (min N (s.data.size - s.pos)) ∧
    r.2.1 = N - min W (min N (s.data.size - s.pos)) ∧
    r.2.2.1 = acc ++ s.data.extract s.pos (s.pos + min W (min N (s.data.size - s.pos))) ∧
    (min W (min N (s.data.size - s.pos)) < W →
      r.2.2.2 = if Exc s N W then .src
        else if s.ends = .fail ∧ s.data.size - s.pos < min W N then .src else .ok) := by
  intro fuel
  induction fuel with
  | zero => intro s N W acc r _ hf; omega
  | succ fuel ih =>
    intro s N W acc r h hf hr
    unfold copyLim.loop at hr
    by_cases hW : W = 0
    · rw [if_pos hW] at hr
      subst hr
      subst hW
      have hK : min 0 (min N (s.data.size - s.pos)) = 0 := by omega
      rw [hK]
      refine ⟨Same'.refl s h, rfl, rfl, ?_, fun hh => absurd hh (by omega)⟩
      show acc = _
      rw [Nat.add_zero, ByteArray.extract_same, ByteArray.append_empty]
    · rw [if_neg hW] at hr
      by_cases hN : N = 0
      · subst hN
        rw [limRead_zero] at hr
        dsimp only at hr
        subst hr
        have hK : min W (min 0 (s.data.size - s.pos)) = 0 := by omega
        rw [hK]
        refine ⟨Same'.refl s h, rfl, rfl, ?_, fun _ => ?_⟩
        · show acc ++ ByteArray.empty = _
          rw [Nat.add_zero, ByteArray.extract_same]
        · show St.ok = _
          rw [if_neg (fun hx => by have := hx.2.2.1; omega), if_neg (fun hx => by have := hx.2; omega)]
      · rw [limRead_pos s N (min B W) hN] at hr
        obtain ⟨k, hk1, hk2, hk3, hpos, hsame, hchunk, hst⟩ := read_spec s (min (min B W) N) h
        rcases hrd : s.read (min (min B W) N) with ⟨s', chunk, st⟩
        rw [hrd] at hpos hsame hchunk hst hr
        dsimp only at hpos hsame hchunk hst hr
        have hd := hsame.1
        have hcs : chunk.size = k := by
          rw [hchunk, ext_size _ _ _ hk2]; omega
        have hlen : 0 < min (min B W) N := by omega
        by_cases hcond : 0 < min (min B W) N ∧
            (s.pos = s.data.size ∨ (s.together = true ∧ s.pos + k = s.data.size))
        · rw [if_pos hcond] at hst
          have hend : s.pos + k = s.data.size := by
            rcases hcond.2 with h1 | h1
            · have : ¬ s.pos < s.data.size := by omega
              omega
            · exact h1.2
          have hK : min W (min N (s.data.size - s.pos)) = k := by omega
          rw [hK]
          unfold S.endSt at hst
          cases he : s.ends with
          | eof =>
            rw [he] at hst
            dsimp only at hst
            subst hst
            dsimp only at hr
            subst hr
            refine ⟨hsame, hpos, by show N - chunk.size = _; rw [hcs],
              by show acc ++ chunk = _; rw [hchunk], fun _ => ?_⟩
            show St.ok = _
            rw [if_neg (fun hx => by have := hx.1; rw [he] at this; cases this),
              if_neg (fun hx => by cases hx.1)]
          | fail =>
            rw [he] at hst
            dsimp only at hst
            subst hst
            dsimp only at hr
            subst hr
            refine ⟨hsame, hpos, by show N - chunk.size = _; rw [hcs],
              by show acc ++ chunk = _; rw [hchunk], fun hkW => ?_⟩
            show St.src = _
            by_cases hkN : k = N
            · have htog : s.together = true := by
                rcases hcond.2 with h1 | h1
                · omega
                · exact h1.1
              rw [if_pos ⟨he, htog, by omega, by omega, by omega⟩]
            · by_cases hx : Exc s N W
              · rw [if_pos hx]
              · rw [if_neg hx, if_pos ⟨rfl, by omega⟩]
        · rw [if_neg hcond] at hst
          subst hst
          dsimp only at hr
          have hkpos : 0 < k := hk3 hlen
            (Decidable.byContradiction (fun hh => hcond ⟨hlen, Or.inl (by omega)⟩))
          have hs'pos : s'.pos ≤ s'.data.size := hsame.2.2.2.2.2
          rw [hcs] at hr
          obtain ⟨i1, i2, i3, i4, i5⟩ := ih s' (N - k) (W - k) (acc ++ chunk) r hs'pos (by omega) hr
          rw [hd, hpos] at i2 i3 i4 i5
          have hK : min (W - k) (min (N - k) (s.data.size - (s.pos + k))) =
              min W (min N (s.data.size - s.pos)) - k := by omega
          have hKk : k ≤ min W (min N (s.data.size - s.pos)) := by omega
          rw [hK] at i2 i3 i4 i5
          refine ⟨hsame.trans i1, by omega, by omega, ?_, fun hlt => ?_⟩
          · rw [i4, hchunk, ByteArray.append_assoc, ext_app _ _ _ _ (by omega) (by omega)]
            congr 2
            omega
          · rw [i5 (by omega)]
            have hiff1 : Exc s' (N - k) (W - k) ↔ Exc s N W := by
              unfold Exc
              rw [hd, hpos, hsame.2.1, hsame.2.2.2.1]
              constructor
              · intro hx
                exact ⟨hx.1, hx.2.1, by omega, by omega, by omega⟩
              · intro hx
                refine ⟨hx.1, hx.2.1, ?_, by omega, by omega⟩
                apply Decidable.byContradiction
                intro hn
                exact hcond ⟨hlen, Or.inr ⟨hx.2.1, by omega⟩⟩
            have hiff2 : (s'.ends = .fail ∧ s.data.size - (s.pos + k) < min (W - k) (N - k)) ↔
                (s.ends = .fail ∧ s.data.size - s.pos < min W N) := by
              rw [hsame.2.1]
              constructor
              · intro hx; exact ⟨hx.1, by omega⟩
              · intro hx; exact ⟨hx.1, by omega⟩
            by_cases hx : Exc s N W
            · rw [if_pos hx, if_pos (hiff1.mpr hx)]
            · rw [if_neg hx, if_neg (fun hh => hx (hiff1.mp hh))]
              by_cases hy : s.ends = .fail ∧ s.data.size - s.pos < min W N
              · rw [if_pos hy, if_pos (hiff2.mpr hy)]
              · rw [if_neg hy, if_neg (fun hh => hy (hiff2.mp hh))]

/-! ### `ReadByte` -/

theorem get!_eq' (a : ByteArray) (i : Nat) : a.get! i = a.data[i]?.getD default := by
  show a.data[i]! = _
  by_cases h : i < a.data.size
  · rw [getElem!_pos a.data i h, Array.getElem?_eq_getElem h]; rfl
  · rw [getElem!_neg a.data i h, Array.getElem?_eq_none (by omega)]; rfl

theorem get!_extract (a : ByteArray) (p : Nat) (h : p < a.size) : (a.extract p (p + 1)).get! 0 = a.get! p := by
  have h' : p < a.data.size := h
  rw [get!_eq', get!_eq', ByteArray.data_extract, Array.getElem?_extract]
  rw [if_pos (by omega)]
  rfl

end Src
