import XzVerif.Proofs.RunCost
import XzVerif.Proofs.BinTree
import XzVerif.Proofs.XzW
import XzVerif.Proofs.XzWFSim
import XzVerif.Proofs.RunGen
import XzVerif.Proofs.RunProposalBT
/-!
  C17 clause 1 for the BinaryTree match finder model, and for the whole xz writer model (single block).

  The BinaryTree result goes through a generic version of the HashTable4 development (Proofs/RunGStep.lean,
  RunGInv.lean, RunGFlush.lean, RunGen.lean: any match finder whose proposals inside a run satisfy `RunSpec`),
  with the irregular operations counted in bits (126 for an operation at a distance ≤ 4, 203 for an arbitrary
  one); Proofs/RunProposalBT.lean has the proposals of `binTree.NextOp` inside a run: distances 3, 2, 1 are tried
  first, so the steady state is `rep0 = 2` (operations: literal, rep0 273 at distance 1, match 273 at distance 3,
  rep0 273 …, and `rep1` at distance 1 for the short end of a chunk).
-/
namespace RunCost
open W2 Lzma Rc

/-- the LZMA2 stream the writer model with the BinaryTree model produces for one Write of the run followed by Close -/
def lzma2OfRunBT (c : Cfg) (b : UInt8) (n : Nat) : ByteArray :=
  (W2.run c BT.BT4 (W2.init c (BT.St.new c.dictCap c.bufSize)) [.write (runOf b n), .close]).1.out

/-- the proposals of the BinaryTree model inside a run: steady distance 3 (`rep0 = 2`) from 3 bytes of history on -/
theorem bt4_runSpec (c : Cfg) (hc : CfgOk c) (hd3 : 3 ≤ c.dictCap) (b : UInt8) :
    RunSpec c b BT.BT4 (BT.Synced c) 2 3 := by
  refine ⟨by omega, by omega, by omega, ?_, ?_, ?_⟩
  · intro m hist look s hI hh hl h3 h273 hsp hphys
    exact bt4_steady c hc hd3 b m hist look s hI hh hl h3 h273 hsp (by unfold Lc at hphys; omega)
  · intro m hist look s hI hh hl h1 h2 hsp hphys
    obtain ⟨dist, hd, hres⟩ := bt4_run c hc b m hist look s hI hh hl h1 h2 hsp (by unfold Lc at hphys; omega)
    exact ⟨dist, by omega, hres⟩
  · intro m hist look s hI hh hl h1 hl1 hsp hw1 hw2
    obtain ⟨dist, n, hres, hn⟩ := bt4_wrap c hc hd3 b m hist look s hI hh hl hl1 hsp
      (by unfold Lc at hw1 hw2; exact ⟨hw1, by omega⟩)
    exact ⟨dist, n, hres, by unfold Lc; omega⟩

/-- BinaryTree, sharper constant: `n / 500 + 229` -/
theorem run_compresses_partial_bt_229 (c : Cfg) (hc : CfgOk c) (hd : 65536 ≤ c.dictCap) (b : UInt8) (n : Nat) :
    (lzma2OfRunBT c b n).size ≤ n / 500 + 229 := by
  have h := run_size_gen c hc hd b BT.BT4 (BT.Synced c) (BT.bt4_matcherInv c) (BT.St.new c.dictCap c.bufSize)
    (BT.synced_new c) 2 3 (bt4_runSpec c hc (by omega) b) n
  have hD : D0 3 = 4 := rfl
  rw [hD] at h
  exact h

/-- BinaryTree: a run of `n` equal bytes compresses to at most `n / 500 + 251` bytes, every valid configuration
    with a dictionary of at least 64 KiB -/
theorem run_compresses_partial_bt (c : Cfg) (hc : CfgOk c) (hd : 65536 ≤ c.dictCap) (b : UInt8) (n : Nat) :
    (lzma2OfRunBT c b n).size ≤ n / 500 + 251 := by
  have := run_compresses_partial_bt_229 c hc hd b n
  omega

/-! ### HashTable4 through the generic theorem: a sharper constant -/

theorem ht4_runSpec (c : Cfg) (hc : CfgOk c) (b : UInt8) : RunSpec c b HT.HT4 (HT.Synced c) 0 1 := by
  refine ⟨by omega, by omega, by omega, ?_, ?_, ?_⟩
  · intro m hist look s hI hh hl h1 h273 hsp hphys
    have h := ht4_run c hc b m hist look s hI h1 (by omega) hsp (hh _ (by omega)) hl
      (by unfold Lc at hphys; omega) (Or.inl (by omega))
    rw [h, Nat.min_eq_left h273]
  · intro m hist look s hI hh hl h1 h2 hsp hphys
    exact ⟨1, by omega, ht4_run c hc b m hist look s hI h1 (by omega) hsp (hh _ (by omega)) hl
      (by unfold Lc at hphys; omega) (Or.inl (by omega))⟩
  · intro m hist look s hI hh hl h1 hl1 hsp hw1 hw2
    obtain ⟨dist, n, hres, hn⟩ := ht4_wrap c hc b m hist look s hI h1 hl1 hsp (hh _ (by omega)) hl
      (by unfold Lc at hw1 hw2; exact ⟨hw1, by omega⟩)
    exact ⟨dist, n, hres, by unfold Lc; omega⟩

/-- HashTable4, sharper constant than `run_compresses_partial`: `n / 500 + 213` -/
theorem run_compresses_partial_213 (c : Cfg) (hc : CfgOk c) (hd : 65536 ≤ c.dictCap) (b : UInt8) (n : Nat) :
    (lzma2OfRun c b n).size ≤ n / 500 + 213 := by
  have h := run_size_gen c hc hd b HT.HT4 (HT.Synced c) (HT.ht4_matcherInv c) (HT.St.new c.dictCap c.bufSize)
    (HT.synced_new c) 0 1 (ht4_runSpec c hc b) n
  have hD : D0 1 = 3 := rfl
  rw [hD] at h
  exact h

/-! ### the whole xz writer model, one block -/

theorem split_single (bs : Nat) (p : ByteArray) (hp : p.size ≤ bs) : XzW.split bs [p] = [[p]] := by
  unfold XzW.split
  simp only [List.foldl_cons, List.foldl_nil]
  rw [XzW.writeLoop, if_neg (by omega)]
  simp only [List.nil_append, ByteArray.extract_zero_size]

theorem putUvarint_one : (Xz.putUvarint 1).size = 1 := by decide

theorem pad_le (n k : Nat) (hn : n ≤ 4 * k) : n + Xz.padLen n ≤ 4 * k := by
  unfold Xz.padLen; omega

/-- the whole xz writer model with HashTable4, one block: container overhead at most 100 bytes on top
    (in fact at most 95: stream header 12, block header 12, block padding ≤ 3, check ≤ 32, index ≤ 24, footer 12) -/
theorem xz_run_compresses_partial (c : XzW.Cfg) (hc : XzW.CfgOk c) (hd : 65536 ≤ c.w2.dictCap) (b : UInt8) (n : Nat)
    (hblk : n ≤ c.blockSize) (hn : n < 2 ^ 40) :
    (XzW.run c HT.HT4 (HT.St.new c.w2.dictCap c.w2.bufSize) [runOf b n]).size ≤ n / 500 + 251 + 100 := by
  obtain ⟨hw2, hbs, hfl⟩ := hc
  have hrun := XzWF.xzw_run_eq c hw2 HT.HT4 (HT.Synced c.w2) (HT.ht4_matcherInv c.w2)
    (HT.St.new c.w2.dictCap c.w2.bufSize) (HT.synced_new c.w2) [runOf b n]
  rw [split_single c.blockSize (runOf b n) (by rw [runOf_size]; exact hblk)] at hrun
  rw [hrun]
  simp only [List.map_cons, List.map_nil]
  have hout : (XzW.runBlock c HT.HT4 (HT.St.new c.w2.dictCap c.w2.bufSize) [runOf b n]).out =
      lzma2OfRun c.w2 b n := rfl
  have hsz := run_compresses_partial c.w2 hw2 hd b n
  have hcs : (Xz.checkSize c.flags).getD 0 ≤ 32 := by
    rcases Xz.checkSize_cases c.flags hfl with h | h | h | h <;> rw [h] <;> decide
  have hbh := XzWF.blockHeader_size c hw2
  have hcat : (XzW.cat [runOf b n]).size = n := by rw [XzW.cat_single, runOf_size]
  have hpl := (Xz.padLen_lt (lzma2OfRun c.w2 b n).size).1
  have hrec1 : (XzWF.recW c HT.HT4 (HT.St.new c.w2.dictCap c.w2.bufSize) [runOf b n]).1 < 2 ^ 63 := by
    show (XzWF.blockHeader c).size + (XzW.runBlock c HT.HT4 _ [runOf b n]).out.size + (Xz.checkSize c.flags).getD 0 < _
    rw [hout, hbh]; omega
  have hrec2 : (XzWF.recW c HT.HT4 (HT.St.new c.w2.dictCap c.w2.bufSize) [runOf b n]).2 < 2 ^ 63 := by
    show (XzW.cat [runOf b n]).size < _
    rw [hcat]; omega
  have hu1 := (Xz.putUvarint_size _ hrec1).2
  have hu2 := (Xz.putUvarint_size _ hrec2).2
  generalize XzWF.recW c HT.HT4 (HT.St.new c.w2.dictCap c.w2.bufSize) [runOf b n] = r at *
  have hib : (Xz.indexBody [r]).size ≤ 4 * 5 := by
    unfold Xz.indexBody Xz.recsBytes Xz.recsBytes
    simp only [ByteArray.size_append, List.length_cons, List.length_nil, ByteArray.size_empty, Nat.zero_add]
    have : (ByteArray.empty.push 0).size = 1 := rfl
    have := putUvarint_one
    omega
  have hidx : (Xz.indexBytes [r]).size ≤ 24 := by
    rw [Xz.indexBytes_size]
    unfold Xz.indexPadded
    rw [ByteArray.size_append, Xz.zeros_size]
    have := pad_le _ 5 hib
    omega
  unfold XzWF.SP XzWF.blockW
  simp only [List.map_cons, List.map_nil, XzW.cat_single, ByteArray.size_append, Xz.streamHeader_size,
    Xz.footerBytes_size, Xz.zeros_size, Xz.checkValue_size c.flags hfl, hout, hbh]
  omega

end RunCost

#print axioms RunCost.run_compresses_partial_bt_229
#print axioms RunCost.run_compresses_partial_bt
#print axioms RunCost.xz_run_compresses_partial
#print axioms RunCost.run_compresses_partial_213
