import XzVerif.Proofs.Writer2Lemmas

/-!
  The invariant of reachable, not yet closed Writer2 states (`Inv`) and its preservation by the
  encoder part of the machine: `encodeOp`, `compress`, `dictWrite`, `encWrite`.
-/

set_option linter.unusedSimpArgs false
set_option linter.unusedVariables false

namespace W2
open Lzma Rc Lzma2 Spec

variable {σ : Type}

/-- emitter state after the recorded chunks -/
def EE (c : Cfg) (w : WSt σ) : EState := w.chunks.toList.foldl emitChunk (e0 c.dictCap)
/-- history at the start of the open chunk -/
def H0 (c : Cfg) (w : WSt σ) : Hist := ⟨w.hist.extract 0 w.start, 0, c.dictCap⟩
/-- history at the read position -/
def HH (c : Cfg) (w : WSt σ) : Hist := ⟨w.hist, 0, c.dictCap⟩

/-- Go's chunk state against the format automaton state `q` and the state snapshot -/
def StOk (c : Cfg) (w : WSt σ) (q : SeqState) : Prop :=
  (w.cstate = 83 ∧ w.chunks = #[] ∧ q = .run true true ∧ w.snapS = {} ∧
    w.snapTbl = initTable c.props.lc c.props.lp) ∨
  (w.cstate = 82 ∧ q = .run false true ∧ w.snapS = {} ∧ w.snapTbl = initTable c.props.lc c.props.lp) ∨
  ((w.cstate = 76 ∨ w.cstate = 85) ∧ q = .run false false ∧ w.snapS = (EE c w).s ∧ w.snapTbl = (EE c w).tbl ∧
    (EE c w).props = some c.props)

structure Inv (c : Cfg) (w : WSt σ) : Prop where
  cks : ∃ q, (∀ strict, COk strict (e0 c.dictCap) .init w.chunks.toList q) ∧ StOk c w q
  out : w.out = chunksBytes (e0 c.dictCap) w.chunks.toList
  ctype : w.ctype = Model.defaultChunkType w.cstate
  eh : (EE c w).h = H0 c w
  enc : encodeOps c.props w.snapS w.snapTbl (H0 c w) w.curOps.toList = ⟨w.s, w.tbl, w.e, w.body, HH c w⟩
  ops : OpsOk w.snapS (H0 c w) w.curOps.toList
  eout : w.e.out = []
  erest : w.e.Rest
  tblok : w.tbl.ok
  snapok : w.snapTbl.ok
  space : w.look.size + min w.hist.size c.dictCap ≤ ringCap c
  start : w.start ≤ w.hist.size
  wr : w.written ≤ Gen.lzma_maxUncompressed
  r0 : w.s.r0 + 1 ≤ max 1 (min w.hist.size c.dictCap)
  r0s : w.snapS.r0 + 1 ≤ max 1 (min w.start c.dictCap)
  lim : 25 ≤ Gen.lzma_opLenMargin → w.digits + 9 ≤ Gen.lzma_maxCompressed

/-- the invariant together with the sync invariant `I` of the match finder (state against history / look-ahead) -/
structure InvI (c : Cfg) (I : σ → ByteArray → ByteArray → Prop) (w : WSt σ) : Prop extends Inv c w where
  sync : I w.m w.hist w.look

/-- chunk-level state untouched, `d` appended to the data -/
structure Frame (w w' : WSt σ) (d : ByteArray) : Prop where
  out : w'.out = w.out
  chunks : w'.chunks = w.chunks
  cstate : w'.cstate = w.cstate
  ctype : w'.ctype = w.ctype
  start : w'.start = w.start
  snapS : w'.snapS = w.snapS
  snapTbl : w'.snapTbl = w.snapTbl
  data : w'.hist ++ w'.look = w.hist ++ w.look ++ d
  hist : w.hist.size ≤ w'.hist.size
  dig : w.digits ≤ w'.digits

theorem Frame.refl (w : WSt σ) : Frame w w ByteArray.empty :=
  ⟨rfl, rfl, rfl, rfl, rfl, rfl, rfl, by rw [ByteArray.append_empty], Nat.le_refl _, Nat.le_refl _⟩

theorem Frame.trans {w w1 w2 : WSt σ} {d1 d2 : ByteArray} (h1 : Frame w w1 d1) (h2 : Frame w1 w2 d2) :
    Frame w w2 (d1 ++ d2) :=
  ⟨h2.out.trans h1.out, h2.chunks.trans h1.chunks, h2.cstate.trans h1.cstate, h2.ctype.trans h1.ctype,
   h2.start.trans h1.start, h2.snapS.trans h1.snapS, h2.snapTbl.trans h1.snapTbl,
   by rw [h2.data, h1.data, ByteArray.append_assoc], Nat.le_trans h1.hist h2.hist, Nat.le_trans h1.dig h2.dig⟩

theorem Frame.trans0 {w w1 w2 : WSt σ} {d : ByteArray} (h1 : Frame w w1 ByteArray.empty) (h2 : Frame w1 w2 d) :
    Frame w w2 d := by
  have := h1.trans h2
  rwa [ByteArray.empty_append] at this

theorem Frame.trans0' {w w1 w2 : WSt σ} {d : ByteArray} (h1 : Frame w w1 d) (h2 : Frame w1 w2 ByteArray.empty) :
    Frame w w2 d := by
  have := h1.trans h2
  rwa [ByteArray.append_empty] at this

theorem Frame.sizes {w w' : WSt σ} {d : ByteArray} (h : Frame w w' d) :
    w'.hist.size + w'.look.size = w.hist.size + w.look.size + d.size := by
  have := congrArg ByteArray.size h.data
  simpa only [ByteArray.size_append] using this

theorem Frame.written {w w' : WSt σ} {d : ByteArray} (h : Frame w w' d) (hs : w.start ≤ w.hist.size) :
    w'.written = w.written + d.size := by
  have h1 := h.sizes
  have h2 := h.hist
  have h3 := h.start
  unfold WSt.written WSt.compressed
  omega

theorem Inv.setM {c : Cfg} {w : WSt σ} (hi : Inv c w) (m' : σ) : Inv c { w with m := m' } :=
  ⟨hi.cks, hi.out, hi.ctype, hi.eh, hi.enc, hi.ops, hi.eout, hi.erest, hi.tblok, hi.snapok, hi.space,
   hi.start, hi.wr, hi.r0, hi.r0s, hi.lim⟩

theorem Frame.setM (w : WSt σ) (m' : σ) : Frame w { w with m := m' } ByteArray.empty :=
  ⟨rfl, rfl, rfl, rfl, rfl, rfl, rfl, by rw [ByteArray.append_empty], Nat.le_refl _, Nat.le_refl _⟩

theorem extract_append_le (a b : ByteArray) (k : Nat) (hk : k ≤ a.size) :
    (a ++ b).extract 0 k = a.extract 0 k := by
  rw [ByteArray.extract_append]
  have : k - a.size = 0 := by omega
  rw [this, Nat.zero_sub, ByteArray.extract_same, ByteArray.append_empty]

theorem rest_clear_out (e : Enc) (h : e.Rest) : ({ e with out := [] } : Enc).Rest :=
  ⟨⟨h.cl, h.cache, h.low, h.ff⟩, h.rlo, h.rhi, h.sum, h.ffs⟩

/-- the digits of a state with an empty `e.out` -/
theorem digits_eq (w : WSt σ) (h : w.e.out = []) : w.digits = w.body.size + w.e.digits := by
  unfold WSt.digits Enc.digits
  rw [h]
  simp only [List.length_nil]
  omega

/-! ### one operation -/

def OpPost (c : Cfg) (w : WSt σ) (g : GoOp) : OpRes σ → Prop
  | .ok w' => Inv c w' ∧ Frame w w' ByteArray.empty ∧ w'.look.size + 1 ≤ w.look.size ∧
      w'.m = w.m ∧ w'.hist = w.hist ++ w.look.extract 0 g.len ∧ w'.look = w.look.extract g.len w.look.size
  | .limit _ => False
  | .broken _ => ¬ 25 ≤ Gen.lzma_opLenMargin
  | .bad _ _ => False

theorem encodeOp_spec (c : Cfg) (hc : CfgOk' c) (w : WSt σ) (g : GoOp) (hi : Inv c w)
    (hg : GoOpOk' c w.hist w.look w.s g)
    (hadm : w.digits + 4 + Gen.lzma_opLenMargin ≤ Gen.lzma_maxCompressed) :
    OpPost c w g (encodeOp c w g) := by
  obtain ⟨henc, hlen1, hlen2⟩ := goOp_encodable c hc w.hist w.look w.s g hg
  have hcap : 1 ≤ c.dictCap := hc.2.2.1
  have hctx := ctx_eq c w hcap hi.space hi.r0
  have hopok := classify_opOk c hc w.hist w.look w.s g hg
  have happ := classify_applyOp c hc w.hist w.look w.s g hg
  have hr0 := classify_r0 c w.hist w.look w.s g hg hcap hi.r0
  have hdig := digits_eq w hi.eout
  generalize hop : classify w.s g = op at *
  have hbound := op_digits_bound (mkCtx c.props w.s (HH c w)) op hopok.1 w.tbl w.e hi.tblok hi.erest
  unfold opB at hbound
  have hpath := encPath_eq (opEnc (mkCtx c.props w.s (HH c w)) op) w.tbl w.e
  have hnest := encodeAll_nest w.e hi.erest _ (toDecns_ok pm (opEnc (mkCtx c.props w.s (HH c w)) op) w.tbl hi.tblok)
  unfold encodeOp
  rw [henc]
  simp only [Bool.not_true, Bool.false_eq_true, if_false, hop, hctx]
  change OpPost c w g (match encPathChk w.body.size w.tbl w.e (opEnc (mkCtx c.props w.s (HH c w)) op) with
    | none => OpRes.broken w
    | some (tbl', e') => _)
  cases hchk : encPathChk w.body.size w.tbl w.e (opEnc (mkCtx c.props w.s (HH c w)) op) with
  | none =>
    simp only [OpPost]
    intro hm
    have := encPathChk_ok w.body.size (opEnc (mkCtx c.props w.s (HH c w)) op) w.tbl w.e hi.tblok hi.erest
      (by rw [hpath]; dsimp only; omega)
    rw [this] at hchk
    exact absurd hchk (by simp)
  | some r =>
    obtain ⟨tbl', e'⟩ := r
    have hr := encPathChk_eq _ _ _ _ _ hchk
    rw [hpath] at hr
    simp only [Prod.mk.injEq] at hr
    obtain ⟨rfl, rfl⟩ := hr
    simp only [flushOut, OpPost]
    generalize hE : w.e.encodeAll (toDecns pm w.tbl (opEnc (mkCtx c.props w.s (HH c w)) op)) = E' at *
    have hhs : (w.hist ++ w.look.extract 0 g.len).size = w.hist.size + g.len := by
      rw [ByteArray.size_append, ByteArray.size_extract]; omega
    have hls : (w.look.extract g.len w.look.size).size = w.look.size - g.len := by
      rw [ByteArray.size_extract]; omega
    have hH0 : (⟨(w.hist ++ w.look.extract 0 g.len).extract 0 w.start, 0, c.dictCap⟩ : Hist) = H0 c w := by
      unfold H0
      rw [extract_append_le _ _ _ hi.start]
    have hsh := encodeOps_sh c.props w.snapS w.snapTbl (H0 c w) w.curOps.toList
    rw [hi.enc] at hsh
    refine ⟨⟨hi.cks, hi.out, hi.ctype, ?_, ?_, ?_, rfl, rest_clear_out _ hnest.1, tblAfter_ok _ _ hi.tblok,
      hi.snapok, ?_, ?_, ?_, ?_, hi.r0s, ?_⟩, ⟨rfl, rfl, rfl, rfl, rfl, rfl, rfl, ?_, ?_, ?_⟩, ?_, ?_, ?_, ?_⟩
    · show (EE c w).h = _
      rw [hi.eh]; exact hH0.symm
    · show encodeOps c.props w.snapS w.snapTbl ⟨(w.hist ++ w.look.extract 0 g.len).extract 0 w.start, 0, c.dictCap⟩
        (w.curOps.push op).toList = _
      rw [hH0, Array.toList_push, encodeOps_snoc, hi.enc, encStep_eq]
      dsimp only
      rw [hE, show (HH c w).applyOp (w.s.apply op) op = _ from happ]
      rfl
    · show OpsOk w.snapS ⟨(w.hist ++ w.look.extract 0 g.len).extract 0 w.start, 0, c.dictCap⟩
        (w.curOps.push op).toList
      rw [hH0, Array.toList_push]
      apply OpsOk_snoc _ _ _ _ hi.ops
      rw [← hsh.1, ← hsh.2]
      exact hopok
    · show (w.look.extract g.len w.look.size).size + min (w.hist ++ w.look.extract 0 g.len).size c.dictCap ≤ _
      have := hi.space
      rw [hhs, hls]; omega
    · show w.start ≤ (w.hist ++ w.look.extract 0 g.len).size
      have := hi.start
      rw [hhs]; omega
    · have := hi.wr
      have := hi.start
      unfold WSt.written WSt.compressed at *
      dsimp only
      rw [hhs, hls]; omega
    · show (w.s.apply op).r0 + 1 ≤ max 1 (min (w.hist ++ w.look.extract 0 g.len).size c.dictCap)
      rw [hhs]; exact hr0
    · intro hm
      unfold WSt.digits
      dsimp only
      rw [foldl_push_size]
      unfold Enc.digits at hbound
      simp only [List.length_nil]
      unfold Enc.digits at hdig
      omega
    · show (w.hist ++ w.look.extract 0 g.len) ++ w.look.extract g.len w.look.size = _
      rw [ByteArray.append_assoc, extract_split _ _ hlen2, ByteArray.append_empty]
    · show w.hist.size ≤ (w.hist ++ w.look.extract 0 g.len).size
      rw [hhs]; omega
    · have h1 := hnest.2.1
      unfold WSt.digits
      dsimp only
      rw [foldl_push_size]
      unfold Enc.digits at h1 hdig
      simp only [List.length_nil]
      unfold WSt.digits at hdig
      omega
    · show (w.look.extract g.len w.look.size).size + 1 ≤ w.look.size
      rw [hls]; omega
    · first | rfl | trivial
    · first | rfl | trivial
    · first | rfl | trivial

/-! ### `compress` -/

def thr (all : Bool) : Nat := if all then 0 else Gen.lzma_maxMatchLen - 1

def CompPost (c : Cfg) (I : σ → ByteArray → ByteArray → Prop) (all : Bool) (w : WSt σ) : OpRes σ → Prop
  | .ok w' => InvI c I w' ∧ Frame w w' ByteArray.empty ∧ w'.look.size ≤ thr all
  | .limit w' => InvI c I w' ∧ Frame w w' ByteArray.empty ∧
      Gen.lzma_maxCompressed < w'.digits + 4 + Gen.lzma_opLenMargin ∧ thr all < w'.look.size
  | .broken _ => ¬ 25 ≤ Gen.lzma_opLenMargin
  | .bad _ _ => False

theorem CompPost.trans {c : Cfg} {I : σ → ByteArray → ByteArray → Prop} {all : Bool} {w w1 : WSt σ} {r : OpRes σ}
    (h1 : Frame w w1 ByteArray.empty) (h2 : CompPost c I all w1 r) : CompPost c I all w r := by
  cases r with
  | ok w' => exact ⟨h2.1, h1.trans0 h2.2.1, h2.2.2⟩
  | limit w' => exact ⟨h2.1, h1.trans0 h2.2.1, h2.2.2⟩
  | broken w' => exact h2
  | bad w' s => exact h2

theorem compress_spec (c : Cfg) (hc : CfgOk' c) (M : Matcher σ) (I : σ → ByteArray → ByteArray → Prop)
    (hI : MatcherInv' c M I) (all : Bool) :
    ∀ (fuel : Nat) (w : WSt σ), InvI c I w → w.look.size < fuel →
      CompPost c I all w (compress c M all fuel w) := by
  intro fuel
  induction fuel with
  | zero => intro w _ h; omega
  | succ fuel ih =>
    intro w hi hf
    unfold compress
    by_cases hl : w.look.size > thr all
    · have hl' : w.look.size > (if all = true then 0 else Gen.lzma_maxMatchLen - 1) := hl
      rw [if_pos hl']
      rcases hnx : M.next w.m w.hist w.look w.s with ⟨g, m'⟩
      simp only []
      have hi1 := hi.toInv.setM m'
      have hf1 := Frame.setM w m'
      have hdrop : I ({ w with m := m' } : WSt σ).m ({ w with m := m' } : WSt σ).hist
          ({ w with m := m' } : WSt σ).look := by
        have := hI.drop w.m w.hist w.look w.s hi.sync (by omega) hi.space
        rw [hnx] at this
        exact this
      have hcons : I ({ w with m := m' } : WSt σ).m
          (({ w with m := m' } : WSt σ).hist ++ ({ w with m := m' } : WSt σ).look.extract 0 g.len)
          (({ w with m := m' } : WSt σ).look.extract g.len ({ w with m := m' } : WSt σ).look.size) := by
        have := hI.consume w.m w.hist w.look w.s hi.sync (by omega) hi.space
        rw [hnx] at this
        exact this
      have hlk : ({ w with m := m' } : WSt σ).look.size = w.look.size := rfl
      have hg : GoOpOk' c ({ w with m := m' } : WSt σ).hist ({ w with m := m' } : WSt σ).look
          ({ w with m := m' } : WSt σ).s g := by
        have := hI.ok w.m w.hist w.look w.s hi.sync (by omega) hi.space
        rw [hnx] at this
        exact this
      generalize ({ w with m := m' } : WSt σ) = w1 at *
      by_cases hlim : Gen.lzma_maxCompressed < w1.digits + 4 + Gen.lzma_opLenMargin
      · rw [if_pos hlim]
        exact ⟨⟨hi1, hdrop⟩, hf1, hlim, by omega⟩
      · rw [if_neg hlim]
        have hop := encodeOp_spec c hc w1 g hi1 hg (by omega)
        cases hr : encodeOp c w1 g with
        | ok w' =>
          rw [hr] at hop
          obtain ⟨h1, h2, h3, hm, hh, hl⟩ := hop
          exact CompPost.trans (hf1.trans0 h2) (ih w' ⟨h1, by rw [hm, hh, hl]; exact hcons⟩ (by omega))
        | limit w' => rw [hr] at hop; exact absurd hop id
        | broken w' => rw [hr] at hop; exact hop
        | bad w' s => rw [hr] at hop; exact absurd hop id
    · have hl' : ¬ w.look.size > (if all = true then 0 else Gen.lzma_maxMatchLen - 1) := hl
      rw [if_neg hl']
      exact ⟨hi, Frame.refl w, by omega⟩

/-! ### `dictWrite`, `encWrite` -/

theorem dictWrite_spec (c : Cfg) (w : WSt σ) (p : ByteArray) (n : Nat) (hi : Inv c w) (hn : n ≤ p.size)
    (hwr : w.written + (p.size - n) ≤ Gen.lzma_maxUncompressed) :
    Inv c (w.dictWrite c p n).1 ∧
    Frame w (w.dictWrite c p n).1 (p.extract n (n + (w.dictWrite c p n).2)) ∧
    (w.dictWrite c p n).2 = min (p.size - n) (w.dictAvail c) ∧
    (w.dictWrite c p n).1.m = w.m ∧ (w.dictWrite c p n).1.hist = w.hist ∧
    (w.dictWrite c p n).1.look = w.look ++ p.extract n (n + (w.dictWrite c p n).2) := by
  unfold WSt.dictWrite
  dsimp only
  generalize hk : min (p.size - n) (w.dictAvail c) = k
  have hex : (p.extract n (n + k)).size = k := by
    rw [ByteArray.size_extract]; omega
  refine ⟨⟨hi.cks, hi.out, hi.ctype, hi.eh, hi.enc, hi.ops, hi.eout, hi.erest, hi.tblok, hi.snapok, ?_,
    hi.start, ?_, hi.r0, hi.r0s, hi.lim⟩, ⟨rfl, rfl, rfl, rfl, rfl, rfl, rfl, ?_, Nat.le_refl _, Nat.le_refl _⟩, rfl, rfl, rfl, rfl⟩
  · show (w.look ++ p.extract n (n + k)).size + min w.hist.size c.dictCap ≤ ringCap c
    have := hi.space
    rw [ByteArray.size_append, hex]
    unfold WSt.dictAvail WSt.bufAvail WSt.dictLen at hk
    omega
  · have := hi.wr
    unfold WSt.written WSt.compressed at *
    dsimp only
    rw [ByteArray.size_append, hex]
    omega
  · show w.hist ++ (w.look ++ p.extract n (n + k)) = _
    rw [ByteArray.append_assoc]

def EWPost (c : Cfg) (I : σ → ByteArray → ByteArray → Prop) (p : ByteArray) (w : WSt σ) (n : Nat) :
    OpRes σ × Nat → Prop
  | (.ok w', n') => InvI c I w' ∧ Frame w w' (p.extract n n') ∧ n' = p.size
  | (.limit w', n') => InvI c I w' ∧ Frame w w' (p.extract n n') ∧ n ≤ n' ∧ n' ≤ p.size ∧
      Gen.lzma_maxCompressed < w'.digits + 4 + Gen.lzma_opLenMargin ∧ 272 < w'.look.size
  | (.broken _, _) => ¬ 25 ≤ Gen.lzma_opLenMargin
  | (.bad _ _, _) => False

theorem EWPost.trans {c : Cfg} {I : σ → ByteArray → ByteArray → Prop} {p : ByteArray} {w w1 : WSt σ} {n n1 : Nat}
    {r : OpRes σ × Nat}
    (h1 : Frame w w1 (p.extract n n1)) (hn : n ≤ n1) (hn1 : n1 ≤ p.size) (h2 : EWPost c I p w1 n1 r) :
    EWPost c I p w n r := by
  obtain ⟨r, n'⟩ := r
  cases r with
  | ok w' =>
    obtain ⟨a, b, rfl⟩ := h2
    refine ⟨a, ?_, rfl⟩
    have := h1.trans b
    rwa [ByteArray.extract_append_extract, Nat.min_eq_left hn, Nat.max_eq_right hn1] at this
  | limit w' =>
    obtain ⟨a, b, c1, c2, c3, c4⟩ := h2
    refine ⟨a, ?_, by omega, c2, c3, c4⟩
    have := h1.trans b
    rwa [ByteArray.extract_append_extract, Nat.min_eq_left hn, Nat.max_eq_right c1] at this
  | broken w' => exact h2
  | bad w' s => exact h2

theorem encWrite_spec (c : Cfg) (hc : CfgOk' c) (M : Matcher σ) (I : σ → ByteArray → ByteArray → Prop)
    (hI : MatcherInv' c M I) (p : ByteArray) :
    ∀ (fuel : Nat) (w : WSt σ) (n : Nat), InvI c I w → n ≤ p.size →
      w.written + (p.size - n) ≤ Gen.lzma_maxUncompressed →
      (p.size - n) + (if 1 ≤ w.dictAvail c then 1 else 2) ≤ fuel →
      EWPost c I p w n (encWrite c M p fuel w n) := by
  intro fuel
  induction fuel with
  | zero => intro w n _ _ _ h; split at h <;> omega
  | succ fuel ih =>
    intro w n hi hn hwr hf
    obtain ⟨h1, h2, h3, h4, h5, h6⟩ := dictWrite_spec c w p n hi.toInv hn hwr
    have h1I : InvI c I (w.dictWrite c p n).1 := by
      refine ⟨h1, ?_⟩
      have hsp := h1.space
      rw [h6] at hsp
      rw [h4, h5, h6]
      exact hI.grow _ _ _ _ hi.sync hsp
    unfold encWrite
    simp only []
    have hw1 := h2.written hi.start
    generalize (w.dictWrite c p n).1 = w1 at *
    generalize (w.dictWrite c p n).2 = k at *
    have hex : (p.extract n (n + k)).size = k := by
      rw [ByteArray.size_extract]; omega
    by_cases hlt : n + k < p.size
    · rw [if_pos hlt]
      have hcs := compress_spec c hc M I hI false (w1.look.size + 1) w1 h1I (by omega)
      cases hr : compress c M false (w1.look.size + 1) w1 with
      | ok w2 =>
        rw [hr] at hcs
        obtain ⟨a1, a2, a3⟩ := hcs
        simp only []
        have hw2 := a2.written h1.start
        have hav : 1 ≤ w2.dictAvail c := by
          have hb := hc.2.2.2.2
          unfold thr Gen.lzma_maxMatchLen at a3
          unfold Gen.lzma_maxMatchLen at hb
          simp only [Bool.false_eq_true, if_false] at a3
          unfold WSt.dictAvail WSt.bufAvail WSt.dictLen ringCap
          omega
        apply EWPost.trans (h2.trans0' a2) (by omega) (by omega)
        apply ih w2 (n + k) a1 (by omega)
        · rw [hw2, hw1, hex, ByteArray.size_empty]; omega
        · rw [if_pos hav]
          split at hf <;> omega
      | limit w2 =>
        rw [hr] at hcs
        obtain ⟨a1, a2, a3, a4⟩ := hcs
        simp only []
        unfold thr Gen.lzma_maxMatchLen at a4
        simp only [Bool.false_eq_true, if_false] at a4
        exact ⟨a1, h2.trans0' a2, by omega, by omega, a3, by omega⟩
      | broken w2 => rw [hr] at hcs; exact hcs
      | bad w2 s => rw [hr] at hcs; exact absurd hcs id
    · rw [if_neg hlt]
      have : n + k = p.size := by omega
      exact ⟨h1I, h2, this⟩

end W2
