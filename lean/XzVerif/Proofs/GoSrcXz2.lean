import XzVerif.Gen.GoSrc
import XzVerif.Model.Xz
import XzVerif.Proofs.GoSrcXz
/-
  Proofs.GoSrcXz2 — the REGENERATED translation of format.go `readSizeInBlockHeader` (the optional size fields of a block
  header: 2^63 and above are rejected, an absent field is −1), `readRecord` (an index record: two uvarints, "negative"
  = top bit set rejected) and `verifyFlags` (the four check ids) in terms of the reader model's `Xz.readUvarint` and
  `Xz.checkSize`.  Statements are fixed; only proofs may change.
-/
namespace GoSrcP
open GoSrc

theorem verifyFlags_spec (f : BitVec 8) :
    (verifyFlags f = Go.Err.nil ↔ (Xz.checkSize f.toNat).isSome) ∧
    (verifyFlags f ≠ Go.Err.nil → verifyFlags f = Go.Err.named "errInvalidFlags") := by
  revert f; decide +kernel

theorem readSizeInBlockHeader_absent (fuel : Nat) (r : Go.ByteReader) :
    readSizeInBlockHeader fuel r false = Go.Res.ok (BitVec.ofInt 64 (-1), Go.Err.nil, r) := by
  rfl

theorem err_ne_nil_named (s : String) : (Go.Err.named s != Go.Err.nil) = true := by
  simp

theorem err_nil_ne_nil : (Go.Err.nil != Go.Err.nil) = false := by decide

theorem ule63 (x : Nat) (hx : x < 2 ^ 64) :
    BitVec.ule (9223372036854775808#64) (BitVec.ofNat 64 x) = decide (2 ^ 63 ≤ x) := by
  simp only [BitVec.ule, BitVec.toNat_ofNat]
  congr 1; apply propext
  rw [Nat.mod_eq_of_lt hx]

theorem slt0 (x : Nat) (hx : x < 2 ^ 64) :
    BitVec.slt (BitVec.ofNat 64 x) (0#64) = decide (x ≥ 2 ^ 63) := by
  simp only [BitVec.slt, BitVec.toInt_eq_toNat_cond, BitVec.toNat_ofNat]
  rw [Nat.mod_eq_of_lt hx]
  congr 1; apply propext
  simp; omega

theorem readSizeInBlockHeader_spec (b : ByteArray) (pos lim : Nat) (hl : lim ≤ b.size) (fuel : Nat) (hf : 12 ≤ fuel) :
    match Xz.readUvarint b pos lim with
    | .ok x n =>
      if 2 ^ 63 ≤ x then
        ∃ r', readSizeInBlockHeader fuel { inp := sliceBV b pos lim } true
                = Go.Res.ok (0#64, Go.Err.new "xz: size overflow in block header", r')
      else
        ∃ r', readSizeInBlockHeader fuel { inp := sliceBV b pos lim } true = Go.Res.ok (BitVec.ofNat 64 x, Go.Err.nil, r')
              ∧ r'.inp = sliceBV b (pos + n) lim
    | .eof _ => ∃ r', readSizeInBlockHeader fuel { inp := sliceBV b pos lim } true
                = Go.Res.ok (0#64, Go.Err.named "io.EOF", r')
    | .overflow => ∃ r', readSizeInBlockHeader fuel { inp := sliceBV b pos lim } true
                = Go.Res.ok (0#64, Go.Err.named "errOverflowU64", r') := by
  have h := readUvarint_spec b pos lim hl fuel hf
  unfold readSizeInBlockHeader
  simp only [Bool.not_true, Bool.false_eq_true, if_false]
  generalize Xz.readUvarint b pos lim = res at h ⊢
  cases res with
  | ok x n =>
    obtain ⟨r', h1, h2, h3⟩ := h
    simp only [h1, Go.Res.bind_ok, err_nil_ne_nil, Bool.false_eq_true, if_false, ule63 x h3]
    by_cases hx : 2 ^ 63 ≤ x
    · simp only [hx, decide_true, if_true]
      exact ⟨_, rfl⟩
    · simp only [hx, decide_false, Bool.false_eq_true, if_false]
      exact ⟨_, rfl, h2⟩
  | eof n =>
    obtain ⟨x, r', h1⟩ := h
    simp only [h1, Go.Res.bind_ok, err_ne_nil_named, if_true]
    exact ⟨_, rfl⟩
  | overflow =>
    obtain ⟨x, n, r', h1⟩ := h
    simp only [h1, Go.Res.bind_ok, err_ne_nil_named, if_true]
    exact ⟨_, rfl⟩

/-- an index record as the reader model parses it (`recLoop` of Xz.readTail): `some (a, b, bytes)` or the error class -/
inductive RecRes where
  | ok (a b n : Nat)
  | eof
  | overflow
  | negUnpadded
  | negUncompressed
  deriving DecidableEq, Repr

def modelRecord (b : ByteArray) (pos lim : Nat) : RecRes :=
  match Xz.readUvarint b pos lim with
  | .eof _ => .eof
  | .overflow => .overflow
  | .ok a ka =>
    if a ≥ 2 ^ 63 then .negUnpadded else
    match Xz.readUvarint b (pos + ka) lim with
    | .eof _ => .eof
    | .overflow => .overflow
    | .ok c kb => if c ≥ 2 ^ 63 then .negUncompressed else .ok a c (ka + kb)

theorem reader_eta (r : Go.ByteReader) (l : List (BitVec 8)) (h : r.inp = l) : r = { inp := l } := by
  cases r; simp only at h; subst h; rfl

theorem readRecord_spec (b : ByteArray) (pos lim : Nat) (hl : lim ≤ b.size) (fuel : Nat) (hf : 12 ≤ fuel) :
    match modelRecord b pos lim with
    | .ok a c n => ∃ r', readRecord fuel { inp := sliceBV b pos lim }
          = Go.Res.ok ({ unpaddedSize := BitVec.ofNat 64 a, uncompressedSize := BitVec.ofNat 64 c }, BitVec.ofNat 64 n, Go.Err.nil, r')
          ∧ r'.inp = sliceBV b (pos + n) lim
    | .eof => ∃ rc n r', readRecord fuel { inp := sliceBV b pos lim } = Go.Res.ok (rc, n, Go.Err.named "io.EOF", r')
    | .overflow => ∃ rc n r', readRecord fuel { inp := sliceBV b pos lim } = Go.Res.ok (rc, n, Go.Err.named "errOverflowU64", r')
    | .negUnpadded => ∃ rc n r', readRecord fuel { inp := sliceBV b pos lim }
          = Go.Res.ok (rc, n, Go.Err.new "xz: unpadded size negative", r')
    | .negUncompressed => ∃ rc n r', readRecord fuel { inp := sliceBV b pos lim }
          = Go.Res.ok (rc, n, Go.Err.new "xz: uncompressed size negative", r') := by
  have h := readUvarint_spec b pos lim hl fuel hf
  unfold readRecord modelRecord
  generalize Xz.readUvarint b pos lim = res at h ⊢
  cases res with
  | eof n =>
    obtain ⟨x, r', h1⟩ := h
    simp only [h1, Go.Res.bind_ok, err_ne_nil_named, if_true]
    exact ⟨_, _, _, rfl⟩
  | overflow =>
    obtain ⟨x, n, r', h1⟩ := h
    simp only [h1, Go.Res.bind_ok, err_ne_nil_named, if_true]
    exact ⟨_, _, _, rfl⟩
  | ok a ka =>
    obtain ⟨r', h1, h2, h3⟩ := h
    have hr := reader_eta r' _ h2
    subst hr
    simp only [h1, Go.Res.bind_ok, err_nil_ne_nil, Bool.false_eq_true, if_false, slt0 a h3]
    by_cases ha : a ≥ 2 ^ 63
    · simp only [ha, decide_true, if_true]
      exact ⟨_, _, _, rfl⟩
    · simp only [ha, decide_false, Bool.false_eq_true, if_false]
      have h' := readUvarint_spec b (pos + ka) lim hl fuel hf
      generalize Xz.readUvarint b (pos + ka) lim = res2 at h' ⊢
      cases res2 with
      | eof n =>
        obtain ⟨x, r'', h1'⟩ := h'
        simp only [h1', Go.Res.bind_ok, err_ne_nil_named, if_true]
        exact ⟨_, _, _, rfl⟩
      | overflow =>
        obtain ⟨x, n, r'', h1'⟩ := h'
        simp only [h1', Go.Res.bind_ok, err_ne_nil_named, if_true]
        exact ⟨_, _, _, rfl⟩
      | ok c kb =>
        obtain ⟨r'', h1', h2', h3'⟩ := h'
        simp only [h1', Go.Res.bind_ok, err_nil_ne_nil, Bool.false_eq_true, if_false, slt0 c h3']
        by_cases hc : c ≥ 2 ^ 63
        · simp only [hc, decide_true, if_true]
          exact ⟨_, _, _, rfl⟩
        · simp only [hc, decide_false, Bool.false_eq_true, if_false]
          refine ⟨r'', ?_, ?_⟩
          · have hn : 0#64 + BitVec.ofNat 64 ka + BitVec.ofNat 64 kb = BitVec.ofNat 64 (ka + kb) := by
              apply BitVec.eq_of_toNat_eq; simp
            rw [hn]
          · rw [h2', Nat.add_assoc]

end GoSrcP
