import XzVerif.Model.LazyXz
import XzVerif.Proofs.SrcFailLemmas
/-
  Proofs.SrcFail — the three lazy readers on a source that FAILS (error other than io.EOF) where its bytes end
  (property C09, reader side).  The models carry the flag (`LSt.srcEnd`, `R2.srcErr`, `X.srcErr`): wherever the code
  runs out of source bytes the outcome is the source's error `.err .src` instead of the io.EOF-derived one.

  Simulation: as long as a call does not return the source's error, it returns exactly what the plain reader (same
  bytes, source ending with io.EOF) returns, and the states stay related (`plain` erases the flag).  Hence: every call
  before the first `.src` is the plain run; a clean end under a failing source is a clean end of the plain run (the
  stream was complete before the failing offset); the xz reader never ends cleanly at all; no panic.

  STATEMENTS ARE FIXED.  If one is false, report the counterexample (concrete bytes / state) instead of changing it.
-/
namespace SrcFail
open LazyDec LazyDec2 LazyXz

/-! ### the plain state a failing-source state corresponds to -/

def plainL (l : LSt) : LSt := { l with srcEnd := false }

def plainR (r : R2) : R2 := { r with srcErr := false, l := plainL r.l }

def plainB (b : Blk) : Blk := { b with r2 := plainR b.r2 }

def plainS (sr : Sr) : Sr := { sr with br := sr.br.map plainB }

def plainX (x : X) : X := { x with srcErr := false, sr := x.sr.map plainS }

/-! ### classic reader -/

/-- S1 (classic): a call that does not return the source's error is the plain reader's call -/
theorem lazy_read_sim (l : LSt) (len : Nat) (l' : LSt) (out : ByteArray) (st : RStat)
    (h : LazyDec.read l len = (l', out, st)) (hst : st ≠ .err .src) :
    LazyDec.read (plainL l) len = (plainL l', out, st) := by
  exact SrcFailL.lazy_read_sim l len l' out st h hst

/-- S2 (classic): opening -/
theorem lazy_open_sim (cfgCap : Nat) (inp : ByteArray) :
    (∀ l, newReaderE true cfgCap inp = .ok l → LazyDec.newReader cfgCap inp = .ok (plainL l)) ∧
    (∀ e, newReaderE true cfgCap inp = .error e → e = .src ∨ LazyDec.newReader cfgCap inp = .error e) := by
  exact SrcFailL.lazy_open_sim cfgCap inp

/-- S3 (classic): a schedule in which the source's error does not show is the plain run -/
theorem lazy_seq_sim (l : LSt) (lens : List Nat)
    (h : ∀ r ∈ LazyDec.readSeq l lens, r.2 ≠ .err .src) :
    LazyDec.readSeq (plainL l) lens = LazyDec.readSeq l lens := by
  exact SrcFailL.lazy_seq_sim lens l h

/-- the source's error ends a schedule, so: the calls before it are the plain run's calls -/
theorem lazy_seq_prefix (l : LSt) (lens : List Nat) :
    LazyDec.readSeq l lens = LazyDec.readSeq (plainL l) lens ∨
    ∃ pre out, LazyDec.readSeq l lens = pre ++ [(out, .err .src)] ∧
      ∃ rest, LazyDec.readSeq (plainL l) lens = pre ++ rest ∧ rest ≠ [] := by
  exact SrcFailL.lazy_seq_prefix lens l

/-! ### LZMA2 reader -/

theorem lazy2_read_sim (r : R2) (len : Nat) (r' : R2) (out : ByteArray) (st : RStat)
    (h : LazyDec2.read r len = (r', out, st)) (hst : st ≠ .err .src) :
    LazyDec2.read (plainR r) len = (plainR r', out, st) := by
  exact SrcFailL.lazy2_read_sim r len r' out st h hst

theorem lazy2_open_sim (cfgCap : Nat) (inp : ByteArray) (pos : Nat) :
    (newReader2AtE true cfgCap inp pos).err ≠ some (.err .src) →
    plainR (newReader2AtE true cfgCap inp pos) = newReader2At cfgCap inp pos := by
  exact SrcFailL.lazy2_open_sim cfgCap inp pos

theorem lazy2_seq_sim (r : R2) (lens : List Nat)
    (h : ∀ q ∈ LazyDec2.readSeq r lens, q.2 ≠ .err .src) :
    LazyDec2.readSeq (plainR r) lens = LazyDec2.readSeq r lens := by
  exact SrcFailL.lazy2_seq_sim lens r h

theorem lazy2_seq_prefix (r : R2) (lens : List Nat) :
    LazyDec2.readSeq r lens = LazyDec2.readSeq (plainR r) lens ∨
    ∃ pre out, LazyDec2.readSeq r lens = pre ++ [(out, .err .src)] ∧
      ∃ rest, LazyDec2.readSeq (plainR r) lens = pre ++ rest ∧ rest ≠ [] := by
  exact SrcFailL.lazy2_seq_prefix lens r

/-! ### xz reader -/

/-- S1 (xz): a call that SUCCEEDS (nil or io.EOF) is the plain reader's call.  (For calls that fail the statuses can
    differ in more than the source's error: a size check of the block reader may fire on fewer bytes.) -/
theorem lazyxz_read_sim (x : X) (len : Nat) (x' : X) (out : ByteArray) (st : RStat)
    (h : LazyXz.read x len = (x', out, st)) (hst : st = .ok ∨ st = .eof) :
    LazyXz.read (plainX x) len = (plainX x', out, st) := by
  exact SrcFailL.lazyxz_read_sim x len x' out st h hst

/-- the flag stays -/
theorem lazyxz_read_srcErr (x : X) (len : Nat) : (LazyXz.read x len).1.srcErr = x.srcErr := by
  exact SrcFailL.lazyxz_read_srcErr x len

/-- S4 (xz): with a failing source no call ever reports a clean end -/
theorem lazyxz_never_eof (x : X) (len : Nat) (hx : x.srcErr = true) : (LazyXz.read x len).2.2 ≠ .eof := by
  exact SrcFailL.lazyxz_never_eof x len hx

theorem lazyxz_seq_never_eof (x : X) (lens : List Nat) (hx : x.srcErr = true) :
    ∀ q ∈ LazyXz.readSeq x lens, q.2 ≠ .eof := by
  exact SrcFailL.lazyxz_seq_never_eof lens x hx

theorem lazyxz_open_sim (cfgCap : Nat) (single : Bool) (inp : ByteArray) :
    (∀ x, LazyXz.newReaderE true cfgCap single inp = .ok x →
        x.srcErr = true ∧ LazyXz.newReader cfgCap single inp = .ok (plainX x)) ∧
    (∀ st, LazyXz.newReaderE true cfgCap single inp = .error st →
        st ≠ .eof ∧ (st = .err .src ∨ LazyXz.newReader cfgCap single inp = .error st)) := by
  exact SrcFailL.lazyxz_open_sim cfgCap single inp

/-- the successful calls of a schedule are the plain run's calls -/
theorem lazyxz_seq_sim (x : X) (lens : List Nat)
    (h : ∀ q ∈ LazyXz.readSeq x lens, q.2 = .ok ∨ q.2 = .eof) :
    LazyXz.readSeq (plainX x) lens = LazyXz.readSeq x lens := by
  exact SrcFailL.lazyxz_seq_sim lens x h

/-! ### no panic under a failing source (from the simulation and the plain readers' theorems) -/

/-- classic reader, any input, any schedule, failing source: never a panic, never ErrNoSpace -/
theorem lazy_srcfail_no_panic (cfgCap : Nat) (inp : ByteArray) (l : LSt) (lens : List Nat)
    (h : newReaderE true cfgCap inp = .ok l) :
    ∀ q ∈ LazyDec.readSeq l lens, q.2 ≠ .err .panic ∧ q.2 ≠ .err .noSpace := by
  exact SrcFailL.lazy_srcfail_no_panic cfgCap inp l lens h

end SrcFail

#print axioms SrcFail.lazy_read_sim
#print axioms SrcFail.lazy_open_sim
#print axioms SrcFail.lazy_seq_sim
#print axioms SrcFail.lazy_seq_prefix
#print axioms SrcFail.lazy2_read_sim
#print axioms SrcFail.lazy2_open_sim
#print axioms SrcFail.lazy2_seq_sim
#print axioms SrcFail.lazy2_seq_prefix
#print axioms SrcFail.lazyxz_read_sim
#print axioms SrcFail.lazyxz_read_srcErr
#print axioms SrcFail.lazyxz_never_eof
#print axioms SrcFail.lazyxz_seq_never_eof
#print axioms SrcFail.lazyxz_open_sim
#print axioms SrcFail.lazyxz_seq_sim
#print axioms SrcFail.lazy_srcfail_no_panic
