import XzVerif.Proofs.Writer2
import XzVerif.Proofs.SizeBound

/-!
  Size accounting for the Writer2 machine: without intermediate Flush the emitted LZMA2 stream is at most
  `n + n/500 + 128` bytes for `n` bytes written (in fact `n + n/1000 + 4`).

  * every chunk occupies at most `3 + u` bytes of the sink (`u` = its content): the compressed form is taken only
    when `hdr + body ≤ 3 + u`, because with `dictCap ≥ 65536` the second condition of the raw decision
    (`u ≤ Len()`) holds whenever the first does;
  * a chunk ended by the byte limit has a body of more than `65536 − opLenMargin` bytes, hence (20 bytes per
    operation, `segment_out_ge`) at least 3000 bytes of content; a chunk ended by the 2 MiB limit has 2^21;
  * so all chunks but the last one written by `Close` carry at least 3000 bytes.
-/

set_option linter.unusedSimpArgs false
set_option linter.unusedVariables false

namespace W2
open Lzma Rc Lzma2 Spec
variable {σ : Type}

/-- the margin is small against the compressed-size limit (true for 16 and for 25; anything up to 5531 would do) -/
theorem margin_le : Gen.lzma_opLenMargin ≤ 536 := by decide

/-- a chunk whose range coder ran into the margin carries at least 3000 bytes -/
theorem Inv.fill {c : Cfg} {w : WSt σ} (hi : Inv c w)
    (h : Gen.lzma_maxCompressed < w.digits + 4 + Gen.lzma_opLenMargin) : 3000 ≤ w.compressed := by
  have hseg := segment_out_ge c.props w.snapS w.snapTbl hi.snapok (H0 c w) w.curOps.toList hi.ops
  have hsh := encodeOps_sh c.props w.snapS w.snapTbl (H0 c w) w.curOps.toList
  rw [hi.enc] at hsh hseg
  rw [← hsh.2, H0_size c w hi.start] at hseg
  have hb : (Lzma.encClose (⟨w.s, w.tbl, w.e, w.body, HH c w⟩ : EncSt)).size = (closeSt w).body.size := rfl
  have hsz := closeSt_body_size w hi.erest.toInv hi.eout
  have hd := digits_eq w hi.eout
  have hm := margin_le
  have hh : (HH c w).out.size = w.hist.size := rfl
  unfold Gen.lzma_maxCompressed at h
  unfold WSt.compressed
  dsimp only at hseg
  rw [hb, hh] at hseg
  omega

theorem Inv.ctype_cases {c : Cfg} {w : WSt σ} (hi : Inv c w) : w.ctype = 3 ∨ w.ctype = 5 ∨ w.ctype = 6 := by
  obtain ⟨q, _, hst⟩ := hi.cks
  have := hi.ctype
  rcases hst with ⟨h, _⟩ | ⟨h, _⟩ | ⟨h | h, _⟩ <;> rw [h] at this
  · exact Or.inr (Or.inr this)
  · exact Or.inr (Or.inl this)
  · exact Or.inl this
  · exact Or.inl this

theorem hl_eq (M : Nat) (h : M = 3 ∨ M = 5 ∨ M = 6) :
    headerLenOf M = 5 + (if (decide (M = Gen.lzma_cLRN) || decide (M = Gen.lzma_cLRND)) = true then 1 else 0) := by
  rcases h with rfl | rfl | rfl <;> rfl

theorem ite_push_size (b : Bool) (X : ByteArray) (y : UInt8) :
    (if b = true then X.push y else X).size = X.size + (if b = true then 1 else 0) := by
  cases b
  · simp only [Bool.false_eq_true, if_false, Nat.add_zero]
  · simp only [if_true, ByteArray.size_push]

/-- what one successful `flushChunk` (with something pending) does to the sink and to the byte accounting -/
theorem flushChunk_size (c : Cfg) (hc : CfgOk' c) (hdict : 65536 ≤ c.dictCap) (M : Matcher σ)
    (I : σ → ByteArray → ByteArray → Prop) (hI : MatcherInv' c M I)
    (w w'' : WSt σ) (hi : InvI c I w) (hw : 0 < w.written) (hfc : flushChunk c M w = .ok w'') :
    ∃ u, 0 < u ∧ w''.start = w.start + u ∧ w''.out.size ≤ w.out.size + 3 + u ∧ w''.written + u = w.written ∧
      (3000 ≤ u ∨ w''.written = 0) ∧
      (Gen.lzma_maxCompressed < w.digits + 4 + Gen.lzma_opLenMargin → 3000 ≤ u) := by
  have hw0 : ¬ w.written = 0 := by omega
  have hcl := encClose_spec c hc M I hI w hi hw
  cases h1 : encClose c M w with
  | error e =>
    unfold flushChunk at hfc
    rw [if_neg hw0, h1] at hfc
    exact absurd hfc (by simp)
  | ok w1 =>
    rw [h1] at hcl
    obtain ⟨w', hi'I, hf, hpos, rfl, hb, hwhy⟩ := hcl
    have hi' := hi'I.toInv
    have hsz := closeSt_body_size w' hi'.erest.toInv hi'.eout
    have hwr := hf.written hi.start
    rw [ByteArray.size_empty] at hwr
    have hs' := hi'.start
    have hst := hf.start
    have hout := hf.out
    have hu3 : (Gen.lzma_maxCompressed < w'.digits + 4 + Gen.lzma_opLenMargin ∨ w'.look.size = 0) := hwhy
    have hfill : Gen.lzma_maxCompressed < w'.digits + 4 + Gen.lzma_opLenMargin → 3000 ≤ w'.compressed := hi'.fill
    have hdig := hf.dig
    have hpos1 : 0 < (closeSt w').compressed := hpos
    have hs1 : (closeSt w').start ≤ (closeSt w').hist.size := hi'.start
    have hraw := raw_size w' hi'.start
    -- the sink after `writeChunk`
    have hw2 : ∃ w2, writeChunk c (closeSt w') = .ok w2 ∧ w2.out.size ≤ w'.out.size + 3 + w'.compressed ∧
        w2.hist = w'.hist ∧ w2.look = w'.look := by
      by_cases hcond : 3 + (closeSt w').compressed < headerLenOf (closeSt w').ctype + (closeSt w').body.size ∧
          (closeSt w').compressed ≤ (closeSt w').lenE c
      · refine ⟨_, writeChunk_raw c (closeSt w') hpos1 hs1 hcond, ?_, rfl, rfl⟩
        show (w'.out ++ (ByteArray.empty.push _ ++ be16 _) ++ w'.hist.extract w'.start w'.hist.size).size ≤ _
        simp only [ByteArray.size_append, ByteArray.size_push, be16_size, ByteArray.size_empty, hraw]
        omega
      · refine ⟨_, writeChunk_lz c (closeSt w') hpos1 hcond, ?_, rfl, rfl⟩
        have hhl := hl_eq (closeSt w').ctype hi'.ctype_cases
        have hlen : (closeSt w').compressed ≤ (closeSt w').lenE c ∨
            ¬ 3 + (closeSt w').compressed < headerLenOf (closeSt w').ctype + (closeSt w').body.size := by
          by_cases h3 : 3 + (closeSt w').compressed < headerLenOf (closeSt w').ctype + (closeSt w').body.size
          · left
            have hsp := hi'.space
            have hc1 : (closeSt w').compressed = w'.compressed := rfl
            have hl1 : (closeSt w').lenE c = min (ringCap c - w'.look.size) w'.hist.size := rfl
            unfold Gen.lzma_maxCompressed at hb
            unfold WSt.compressed at hc1 hpos ⊢
            rw [hl1]
            split at hhl <;> omega
          · exact Or.inr h3
        have hle : headerLenOf (closeSt w').ctype + (closeSt w').body.size ≤ 3 + w'.compressed := by
          rcases hlen with h | h
          · have hc1 : (closeSt w').compressed = w'.compressed := rfl
            by_contra hgt
            exact hcond ⟨by omega, h⟩
          · have hc1 : (closeSt w').compressed = w'.compressed := rfl
            omega
        show ((closeSt w').out ++ (if _ then ByteArray.push _ _ else _) ++ (closeSt w').body).size ≤ _
        rw [ByteArray.size_append, ByteArray.size_append, ite_push_size]
        simp only [ByteArray.size_append, ByteArray.size_push, be16_size, ByteArray.size_empty]
        have ho : (closeSt w').out.size = w'.out.size := rfl
        omega
    obtain ⟨w2, h2, hosz, hh2, hl2⟩ := hw2
    unfold flushChunk at hfc
    rw [if_neg hw0, h1] at hfc
    simp only [h2] at hfc
    split at hfc
    · exact absurd hfc (by simp)
    · have hw'' := (Except.ok.inj hfc).symm
      subst hw''
      refine ⟨w'.compressed, hpos, ?_, ?_, ?_, ?_, ?_⟩
      · show w2.hist.size = _
        rw [hh2]; unfold WSt.compressed; omega
      · show w2.out.size ≤ _
        rw [hout] at hosz
        omega
      · show (w2.hist.size - w2.hist.size + w2.look.size) + _ = _
        rw [hh2, hl2]
        unfold WSt.written at hwr ⊢
        unfold WSt.compressed at *
        omega
      · rcases hu3 with h | h
        · exact Or.inl (hfill h)
        · right
          show w2.hist.size - w2.hist.size + w2.look.size = 0
          rw [hl2]; omega
      · intro h
        exact hfill (by omega)

/-! ### accounting over a history -/

/-- `k` chunks so far, each stored in at most `3 + u` bytes and each with at least 3000 bytes of content -/
def Acc (w : WSt σ) : Prop := ∃ k, w.out.size ≤ w.start + 3 * k ∧ 3000 * k ≤ w.start

theorem Acc.frame {w w' : WSt σ} {d : ByteArray} (h : Acc w) (hf : Frame w w' d) : Acc w' := by
  obtain ⟨k, a, b⟩ := h
  exact ⟨k, by rw [hf.out, hf.start]; exact a, by rw [hf.start]; exact b⟩

theorem Acc.flush {w w'' : WSt σ} {u : Nat} (h : Acc w) (h1 : w''.start = w.start + u)
    (h2 : w''.out.size ≤ w.out.size + 3 + u) (h3 : 3000 ≤ u) : Acc w'' := by
  obtain ⟨k, a, b⟩ := h
  exact ⟨k + 1, by omega, by omega⟩

theorem write_acc (c : Cfg) (hc : CfgOk' c) (hdict : 65536 ≤ c.dictCap) (M : Matcher σ)
    (I : σ → ByteArray → ByteArray → Prop) (hI : MatcherInv' c M I)
    (p : ByteArray) :
    ∀ (fuel : Nat) (w : WSt σ) (n : Nat), InvI c I w → w.written < Gen.lzma_maxUncompressed → n ≤ p.size → Acc w →
      (write c M p fuel w n).2.2 = none → Acc (write c M p fuel w n).1 := by
  intro fuel
  induction fuel with
  | zero => intro w n _ _ _ _ h; exact absurd h (by simp [write])
  | succ fuel ih =>
    intro w n hi hwr hn hacc
    unfold write
    by_cases hlt : n < p.size
    · rw [if_pos hlt]
      simp only []
      generalize hm : Gen.lzma_maxUncompressed - w.written = m
      rw [if_neg (by omega)]
      generalize hq : p.extract n (if n + m < p.size then n + m else p.size) = q
      have hqs : q.size = min m (p.size - n) := by
        rw [← hq, ByteArray.size_extract]
        split <;> omega
      have hew := encWrite_spec c hc M I hI q (q.size + 2) w 0 hi (Nat.zero_le _) (by omega)
        (by split <;> omega)
      rcases hr : encWrite c M q (q.size + 2) w 0 with ⟨res, k⟩
      rw [hr] at hew
      cases res with
      | bad w' s => exact absurd hew id
      | broken w' => intro h; exact absurd h (by simp)
      | limit w' =>
        obtain ⟨a1, a2, a3, a4, a5, a6⟩ := hew
        simp only []
        have hw' := a2.written hi.start
        rw [ByteArray.size_extract] at hw'
        have hfl := flushChunk_spec c hc M I hI w' a1
        cases hfc : flushChunk c M w' with
        | error e => intro h; exact absurd h (by simp)
        | ok w'' =>
          rw [hfc] at hfl
          obtain ⟨b1, b2, b3, b4⟩ := hfl
          simp only []
          have hpos : 0 < w'.written := by unfold WSt.written; omega
          have := b4 hpos
          obtain ⟨u, u1, u2, u3, u4, u5, u6⟩ := flushChunk_size c hc hdict M I hI w' w'' a1 hpos hfc
          exact ih w'' (n + k) b1 (by omega) (by omega) ((hacc.frame a2).flush u2 u3 (u6 a5))
      | ok w' =>
        obtain ⟨a1, a2, a3⟩ := hew
        simp only []
        have hw' := a2.written hi.start
        rw [ByteArray.size_extract] at hw'
        by_cases hkm : k = m
        · rw [if_pos hkm]
          have hfl := flushChunk_spec c hc M I hI w' a1
          cases hfc : flushChunk c M w' with
          | error e => intro h; exact absurd h (by simp)
          | ok w'' =>
            rw [hfc] at hfl
            obtain ⟨b1, b2, b3, b4⟩ := hfl
            simp only []
            have hpos : 0 < w'.written := by omega
            have := b4 hpos
            obtain ⟨u, u1, u2, u3, u4, u5, u6⟩ := flushChunk_size c hc hdict M I hI w' w'' a1 hpos hfc
            have hu : 3000 ≤ u := by
              have hmax : Gen.lzma_maxUncompressed = 2097152 := rfl
              rcases u5 with h | h
              · exact h
              · omega
            exact ih w'' (n + k) b1 (by omega) (by omega) ((hacc.frame a2).flush u2 u3 hu)
        · rw [if_neg hkm]
          exact ih w' (n + k) a1 (by omega) (by omega) (hacc.frame a2)
    · rw [if_neg hlt]
      intro _
      exact hacc

theorem flushLoop_acc (c : Cfg) (hc : CfgOk' c) (hdict : 65536 ≤ c.dictCap) (M : Matcher σ)
    (I : σ → ByteArray → ByteArray → Prop) (hI : MatcherInv' c M I) :
    ∀ (fuel : Nat) (w w' : WSt σ), InvI c I w → Acc w → flushLoop c M fuel w = .ok w' →
      ∃ k, w'.out.size ≤ w'.start + 3 * k ∧ 3000 * (k - 1) ≤ w'.start := by
  intro fuel
  induction fuel with
  | zero => intro w w' _ _ h; exact absurd h (by simp [flushLoop])
  | succ fuel ih =>
    intro w w' hi hacc h
    unfold flushLoop at h
    by_cases hw : w.written > 0
    · rw [if_pos hw] at h
      have hfl := flushChunk_spec c hc M I hI w hi
      cases hfc : flushChunk c M w with
      | error e => rw [hfc] at h; exact absurd h (by simp)
      | ok w1 =>
        rw [hfc] at hfl h
        obtain ⟨b1, b2, b3, b4⟩ := hfl
        simp only [] at h
        obtain ⟨u, u1, u2, u3, u4, u5, u6⟩ := flushChunk_size c hc hdict M I hI w w1 hi hw hfc
        rcases u5 with h5 | h5
        · exact ih w1 w' b1 (hacc.flush u2 u3 h5) h
        · have hw' : w' = w1 := by
            cases fuel with
            | zero => exact absurd h (by simp [flushLoop])
            | succ f =>
              unfold flushLoop at h
              rw [if_neg (by omega)] at h
              exact (Except.ok.inj h).symm
          subst hw'
          obtain ⟨k, a, b⟩ := hacc
          exact ⟨k + 1, by omega, by simp only [Nat.add_sub_cancel]; omega⟩
    · rw [if_neg hw] at h
      have hw' : w' = w := (Except.ok.inj h).symm
      subst hw'
      obtain ⟨k, a, b⟩ := hacc
      exact ⟨k, a, by omega⟩

theorem step_write_eq (c : Cfg) (M : Matcher σ) (w : WSt σ) (p : ByteArray) (hcl : w.closed = false) :
    (step c M w (.write p)).1 = (write c M p (2 * p.size + w.written + 2) w 0).1 ∧
    (step c M w (.write p)).2.err = (write c M p (2 * p.size + w.written + 2) w 0).2.2 := by
  unfold step
  rw [hcl]
  exact ⟨rfl, rfl⟩

theorem not_close_of_write (ps : List ByteArray) : ∀ call ∈ ps.map Call.write, ¬ (call matches .close) := by
  intro call h
  obtain ⟨p, _, rfl⟩ := List.mem_map.mp h
  simp

theorem run_writes_acc (c : Cfg) (hc : CfgOk c) (hdict : 65536 ≤ c.dictCap) (M : Matcher σ)
    (I : σ → ByteArray → ByteArray → Prop) (hI : MatcherInv c M I) :
    ∀ (ps : List ByteArray) (w : WSt σ) (d : ByteArray), RunInv c I w d → Acc w →
      allOk (run c M w (ps.map .write)).2 → Acc (run c M w (ps.map .write)).1 := by
  intro ps
  induction ps with
  | nil => intro w d _ h _; exact h
  | cons p ps ih =>
    intro w d h hacc hok
    rw [List.map_cons, run_cons] at hok ⊢
    rw [allOk_cons] at hok
    obtain ⟨herr, hrest⟩ := hok
    have h1 := (step_write c (cfgOk' hc) M I (matcherInv' hI) w d p h).2 herr
    obtain ⟨e1, e2⟩ := step_write_eq c M w p h.inv.toInv.notClosed
    have hacc1 : Acc (step c M w (.write p)).1 := by
      rw [e1]
      exact write_acc c (cfgOk' hc) hdict M I (matcherInv' hI) p _ w 0 h.inv h.wr (Nat.zero_le _) hacc
        (by rw [← e2]; exact herr)
    exact ih _ _ h1 hacc1 hrest

theorem init_acc (c : Cfg) (m0 : σ) : Acc (init c m0) := ⟨0, Nat.le_refl _, Nat.le_refl _⟩

/-- **No noticeable expansion (C17, third clause) for the LZMA2 writer.** Without intermediate Flush, with a
    dictionary of at least 64 KiB, the emitted stream is at most n + n/500 + 128 bytes for n bytes written:
    every chunk is stored in a form not larger than its raw form (`3 + u`), and every chunk but the last was
    ended by the compressed-size limit or the 2 MiB limit and therefore carries at least 3000 bytes
    (one operation costs at most 20 range-coder bytes). -/
theorem no_flush_size_bound_I (c : Cfg) (hc : CfgOk c) (hdict : 65536 ≤ c.dictCap) (M : Matcher σ)
    (I : σ → ByteArray → ByteArray → Prop) (hI : MatcherInv c M I) (m0 : σ)
    (h0 : I m0 ByteArray.empty ByteArray.empty) (ps : List ByteArray)
    (hok : allOk (run c M (init c m0) (ps.map .write ++ [.close])).2) :
    let w := (run c M (init c m0) (ps.map .write ++ [.close])).1
    let n := (payload (ps.map .write)).size
    w.out.size ≤ n + n / 500 + 128 := by
  intro w n
  obtain ⟨hw, hall⟩ := run_snoc c M (ps.map .write) .close (init c m0)
  obtain ⟨hok1, herr⟩ := hall.mp hok
  have h := init_run c hc M I hI m0 h0 (ps.map .write) (not_close_of_write ps) hok1
  have hacc := run_writes_acc c hc hdict M I hI ps _ _ (init_inv c I m0 h0) (init_acc c m0) hok1
  have hwe : w = (step c M (run c M (init c m0) (ps.map .write)).1 .close).1 := hw
  generalize (run c M (init c m0) (ps.map .write)).1 = wf at *
  have hfl := flushLoop_spec c (cfgOk' hc) M I (matcherInv' hI) (wf.written + 1) wf h.inv (by omega)
  have hcl := h.inv.toInv.notClosed
  unfold step at herr hwe
  simp only [hcl, Bool.false_eq_true, if_false] at herr hwe
  cases hr : flushLoop c M (wf.written + 1) wf with
  | error e =>
    rw [hr] at herr
    exact absurd herr (by simp)
  | ok w' =>
    rw [hr] at hfl hwe
    obtain ⟨a1, a2, a3⟩ := hfl
    obtain ⟨k, b1, b2⟩ := flushLoop_acc c (cfgOk' hc) hdict M I (matcherInv' hI) _ wf w' h.inv hacc hr
    have hn : n = w'.hist.size + w'.look.size := by
      show (payload (ps.map .write)).size = _
      rw [← h.data, ← a3, ByteArray.size_append]
    have hs := a1.start
    have hout : w.out.size = w'.out.size + 1 := by
      rw [hwe]
      show (w'.out.push 0).size = _
      rw [ByteArray.size_push]
    unfold WSt.written WSt.compressed at a2
    omega

/-- **No noticeable expansion (C17, third clause) for the LZMA2 writer.** Without intermediate Flush, with a
    dictionary of at least 64 KiB, the emitted stream is at most n + n/500 + 128 bytes for n bytes written:
    every chunk is stored in a form not larger than its raw form (`3 + u`), and every chunk but the last was
    ended by the compressed-size limit or the 2 MiB limit and therefore carries at least 3000 bytes
    (one operation costs at most 20 range-coder bytes). -/
theorem no_flush_size_bound (c : Cfg) (hc : CfgOk c) (hdict : 65536 ≤ c.dictCap) (M : Matcher σ)
    (hM : MatcherOk c M) (m0 : σ) (ps : List ByteArray)
    (hok : allOk (run c M (init c m0) (ps.map .write ++ [.close])).2) :
    let w := (run c M (init c m0) (ps.map .write ++ [.close])).1
    let n := (payload (ps.map .write)).size
    w.out.size ≤ n + n / 500 + 128 := by
  exact no_flush_size_bound_I c hc hdict M (fun _ _ _ => True) (matcherInv_of_ok hM) m0 trivial ps hok

#print axioms W2.no_flush_size_bound_I
#print axioms W2.no_flush_size_bound

end W2
