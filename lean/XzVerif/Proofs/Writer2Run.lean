import XzVerif.Proofs.Writer2Chunk

/-!
  `Writer2.Write`, `Flush`, `Close` (`write`, `flushLoop`, `step`) preserve the invariant; the only error that can
  surface is the byte limit, and none under a sufficient margin.
-/

set_option linter.unusedSimpArgs false
set_option linter.unusedVariables false

namespace W2
open Lzma Rc Lzma2 Spec

variable {σ : Type}

/-! ### `write` -/

def WritePost (c : Cfg) (I : σ → ByteArray → ByteArray → Prop) (p : ByteArray) (w : WSt σ) (n : Nat) :
    WSt σ × Nat × Option Err → Prop
  | (w', n', none) => InvI c I w' ∧ w'.written < Gen.lzma_maxUncompressed ∧ n' = p.size ∧
      w'.hist ++ w'.look = w.hist ++ w.look ++ p.extract n p.size
  | (_, _, some e) => e = .limit ∧ ¬ 25 ≤ Gen.lzma_opLenMargin

theorem WritePost.trans {c : Cfg} {I : σ → ByteArray → ByteArray → Prop} {p : ByteArray} {w w1 : WSt σ} {n n1 : Nat} {r : WSt σ × Nat × Option Err}
    (hd : w1.hist ++ w1.look = w.hist ++ w.look ++ p.extract n n1) (hn : n ≤ n1) (hn1 : n1 ≤ p.size)
    (h : WritePost c I p w1 n1 r) : WritePost c I p w n r := by
  obtain ⟨w', n', e⟩ := r
  cases e with
  | none =>
    obtain ⟨a1, a2, a3, a4⟩ := h
    refine ⟨a1, a2, a3, ?_⟩
    rw [a4, hd, ByteArray.append_assoc, ByteArray.extract_append_extract, Nat.min_eq_left hn,
      Nat.max_eq_right hn1]
  | some e => exact h

theorem write_spec (c : Cfg) (hc : CfgOk' c) (M : Matcher σ) (I : σ → ByteArray → ByteArray → Prop)
    (hI : MatcherInv' c M I) (p : ByteArray) :
    ∀ (fuel : Nat) (w : WSt σ) (n : Nat), InvI c I w → w.written < Gen.lzma_maxUncompressed → n ≤ p.size →
      2 * (p.size - n) + w.written + 1 ≤ fuel → WritePost c I p w n (write c M p fuel w n) := by
  intro fuel
  induction fuel with
  | zero => intro w n _ _ _ h; omega
  | succ fuel ih =>
    intro w n hi hwr hn hf
    unfold write
    by_cases hlt : n < p.size
    · rw [if_pos hlt]
      simp only []
      generalize hm : Gen.lzma_maxUncompressed - w.written = m
      rw [if_neg (by omega)]
      generalize hq : p.extract n (if n + m < p.size then n + m else p.size) = q
      have hqs : q.size = min m (p.size - n) := by
        rw [← hq, ByteArray.size_extract]
        split <;> omega
      have hqe : ∀ k, k ≤ q.size → q.extract 0 k = p.extract n (n + k) := by
        intro k hk
        rw [← hq, ByteArray.extract_extract]
        congr 1
        split <;> omega
      have hew := encWrite_spec c hc M I hI q (q.size + 2) w 0 hi (Nat.zero_le _) (by omega)
        (by split <;> omega)
      rcases hr : encWrite c M q (q.size + 2) w 0 with ⟨res, k⟩
      rw [hr] at hew
      cases res with
      | bad w' s => exact absurd hew id
      | broken w' => exact ⟨rfl, hew⟩
      | limit w' =>
        obtain ⟨a1, a2, a3, a4, a5, a6⟩ := hew
        simp only []
        have hw' := a2.written hi.start
        rw [ByteArray.size_extract] at hw'
        have hfl := flushChunk_spec c hc M I hI w' a1
        have hd' := a2.data
        rw [hqe k a4] at hd'
        cases hfc : flushChunk c M w' with
        | error e => rw [hfc] at hfl; exact hfl
        | ok w'' =>
          rw [hfc] at hfl
          obtain ⟨b1, b2, b3, b4⟩ := hfl
          simp only []
          have hpos : 0 < w'.written := by unfold WSt.written; omega
          have := b4 hpos
          apply WritePost.trans (w1 := w'') (n1 := n + k) (by rw [b2, hd']) (by omega) (by omega)
          exact ih w'' (n + k) b1 (by omega) (by omega) (by omega)
      | ok w' =>
        obtain ⟨a1, a2, a3⟩ := hew
        simp only []
        have hw' := a2.written hi.start
        rw [ByteArray.size_extract] at hw'
        have hd' := a2.data
        rw [hqe k (by omega)] at hd'
        by_cases hkm : k = m
        · rw [if_pos hkm]
          have hfl := flushChunk_spec c hc M I hI w' a1
          cases hfc : flushChunk c M w' with
          | error e => rw [hfc] at hfl; exact hfl
          | ok w'' =>
            rw [hfc] at hfl
            obtain ⟨b1, b2, b3, b4⟩ := hfl
            simp only []
            have := b4 (by omega)
            apply WritePost.trans (w1 := w'') (n1 := n + k) (by rw [b2, hd']) (by omega) (by omega)
            exact ih w'' (n + k) b1 (by omega) (by omega) (by omega)
        · rw [if_neg hkm]
          apply WritePost.trans (w1 := w') (n1 := n + k) hd' (by omega) (by omega)
          exact ih w' (n + k) a1 (by omega) (by omega) (by omega)
    · rw [if_neg hlt]
      have : n = p.size := by omega
      subst this
      refine ⟨hi, hwr, rfl, ?_⟩
      rw [ByteArray.extract_same, ByteArray.append_empty]

/-! ### `flushLoop` -/

def FLPost (c : Cfg) (I : σ → ByteArray → ByteArray → Prop) (w : WSt σ) : Except Err (WSt σ) → Prop
  | .ok w' => InvI c I w' ∧ w'.written = 0 ∧ w'.hist ++ w'.look = w.hist ++ w.look
  | .error e => e = .limit ∧ ¬ 25 ≤ Gen.lzma_opLenMargin

theorem flushLoop_spec (c : Cfg) (hc : CfgOk' c) (M : Matcher σ) (I : σ → ByteArray → ByteArray → Prop)
    (hI : MatcherInv' c M I) :
    ∀ (fuel : Nat) (w : WSt σ), InvI c I w → w.written < fuel → FLPost c I w (flushLoop c M fuel w) := by
  intro fuel
  induction fuel with
  | zero => intro w _ h; omega
  | succ fuel ih =>
    intro w hi hf
    unfold flushLoop
    by_cases hw : w.written > 0
    · rw [if_pos hw]
      have hfl := flushChunk_spec c hc M I hI w hi
      cases hfc : flushChunk c M w with
      | error e => rw [hfc] at hfl; exact hfl
      | ok w' =>
        rw [hfc] at hfl
        obtain ⟨b1, b2, b3, b4⟩ := hfl
        simp only []
        have := b4 hw
        have h := ih w' b1 (by omega)
        cases hr : flushLoop c M fuel w' with
        | error e => rw [hr] at h; exact h
        | ok w'' =>
          rw [hr] at h
          exact ⟨h.1, h.2.1, by rw [h.2.2, b2]⟩
    · rw [if_neg hw]
      exact ⟨hi, by omega, rfl⟩

/-! ### `step` -/

/-- what can be said about the error of a call: only the byte limit, and nothing under a sufficient margin -/
def ErrOk (e : Option Err) : Prop := (e = none ∨ e = some .limit) ∧ (25 ≤ Gen.lzma_opLenMargin → e = none)

theorem ErrOk.none : ErrOk (none : Option Err) := ⟨Or.inl rfl, fun _ => rfl⟩

theorem ErrOk.limit {e : Err} (h : e = .limit ∧ ¬ 25 ≤ Gen.lzma_opLenMargin) : ErrOk (some e) :=
  ⟨Or.inr (by rw [h.1]), fun hm => absurd hm h.2⟩

/-- a state between two calls, with the data accepted so far -/
structure RunInv (c : Cfg) (I : σ → ByteArray → ByteArray → Prop) (w : WSt σ) (d : ByteArray) : Prop where
  inv : InvI c I w
  wr : w.written < Gen.lzma_maxUncompressed
  data : w.hist ++ w.look = d

theorem Inv.notClosed {c : Cfg} {w : WSt σ} (hi : Inv c w) : w.closed = false := by
  obtain ⟨q, _, hst⟩ := hi.cks
  unfold WSt.closed
  rcases hst with ⟨h, _⟩ | ⟨h, _⟩ | ⟨h | h, _⟩ <;> rw [h] <;> decide

theorem step_write (c : Cfg) (hc : CfgOk' c) (M : Matcher σ) (I : σ → ByteArray → ByteArray → Prop)
    (hI : MatcherInv' c M I) (w : WSt σ) (d p : ByteArray)
    (h : RunInv c I w d) :
    ErrOk (step c M w (.write p)).2.err ∧
    ((step c M w (.write p)).2.err = none → RunInv c I (step c M w (.write p)).1 (d ++ p)) := by
  have hws := write_spec c hc M I hI p (2 * p.size + w.written + 2) w 0 h.inv h.wr (Nat.zero_le _) (by omega)
  unfold step
  simp only [h.inv.toInv.notClosed, Bool.false_eq_true, if_false]
  rcases hr : write c M p (2 * p.size + w.written + 2) w 0 with ⟨w', n', e⟩
  rw [hr] at hws
  cases e with
  | none =>
    obtain ⟨a1, a2, a3, a4⟩ := hws
    refine ⟨ErrOk.none, fun _ => ⟨a1, a2, ?_⟩⟩
    show w'.hist ++ w'.look = d ++ p
    rw [a4, h.data, ByteArray.extract_zero_size]
  | some e =>
    exact ⟨ErrOk.limit hws, fun h => by cases h⟩

theorem step_flush (c : Cfg) (hc : CfgOk' c) (M : Matcher σ) (I : σ → ByteArray → ByteArray → Prop)
    (hI : MatcherInv' c M I) (w : WSt σ) (d : ByteArray)
    (h : RunInv c I w d) :
    ErrOk (step c M w .flush).2.err ∧
    ((step c M w .flush).2.err = none →
      RunInv c I (step c M w .flush).1 d ∧ (step c M w .flush).1.written = 0) := by
  have hfl := flushLoop_spec c hc M I hI (w.written + 1) w h.inv (by omega)
  unfold step
  simp only [h.inv.toInv.notClosed, Bool.false_eq_true, if_false]
  cases hr : flushLoop c M (w.written + 1) w with
  | error e =>
    rw [hr] at hfl
    exact ⟨ErrOk.limit hfl, fun h => by cases h⟩
  | ok w' =>
    rw [hr] at hfl
    obtain ⟨a1, a2, a3⟩ := hfl
    have hmax : 0 < Gen.lzma_maxUncompressed := by decide
    exact ⟨ErrOk.none, fun _ => ⟨⟨a1, by show w'.written < _; omega, by show w'.hist ++ w'.look = d; rw [a3, h.data]⟩, a2⟩⟩

theorem step_close (c : Cfg) (hc : CfgOk' c) (M : Matcher σ) (I : σ → ByteArray → ByteArray → Prop)
    (hI : MatcherInv' c M I) (w : WSt σ) (d : ByteArray)
    (h : RunInv c I w d) :
    ErrOk (step c M w .close).2.err ∧
    ((step c M w .close).2.err = none →
      ∃ w', InvI c I w' ∧ w'.written = 0 ∧ w'.hist ++ w'.look = d ∧
        (step c M w .close).1 = { w' with out := w'.out.push 0, cstate := Gen.lzma_stateStop,
                                           chunks := w'.chunks.push { kind := .eos, usize := 0 } }) := by
  have hfl := flushLoop_spec c hc M I hI (w.written + 1) w h.inv (by omega)
  unfold step
  simp only [h.inv.toInv.notClosed, Bool.false_eq_true, if_false]
  cases hr : flushLoop c M (w.written + 1) w with
  | error e =>
    rw [hr] at hfl
    exact ⟨ErrOk.limit hfl, fun h => by cases h⟩
  | ok w' =>
    rw [hr] at hfl
    obtain ⟨a1, a2, a3⟩ := hfl
    exact ⟨ErrOk.none, fun _ => ⟨w', a1, a2, by rw [a3, h.data], rfl⟩⟩

/-! ### the start state -/

theorem init_inv (c : Cfg) (I : σ → ByteArray → ByteArray → Prop) (m0 : σ) (h0 : I m0 ByteArray.empty ByteArray.empty) :
    RunInv c I (init c m0) ByteArray.empty := by
  have hE : EE c (init c m0) = e0 c.dictCap := rfl
  refine ⟨⟨⟨⟨.run true true, fun _ => rfl, Or.inl ⟨rfl, rfl, rfl, rfl, rfl⟩⟩, rfl, rfl, rfl, rfl, OpsOk.nil _ _, rfl,
    init_rest, initTable_ok _ _, initTable_ok _ _, ?_, Nat.le_refl _, ?_, ?_, ?_, fun _ => ?_⟩, h0⟩, ?_, rfl⟩
  · show 0 + min 0 c.dictCap ≤ ringCap c
    omega
  · show (0 : Nat) - 0 + 0 ≤ Gen.lzma_maxUncompressed
    decide
  · show 0 + 1 ≤ max 1 (min 0 c.dictCap)
    omega
  · show 0 + 1 ≤ max 1 (min 0 c.dictCap)
    omega
  · show (0 : Nat) + 0 + 1 + 9 ≤ Gen.lzma_maxCompressed
    decide
  · show (0 : Nat) - 0 + 0 < Gen.lzma_maxUncompressed
    decide

end W2
