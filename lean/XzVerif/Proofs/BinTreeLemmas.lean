import XzVerif.Model.BinTree
import XzVerif.Proofs.Ring
import XzVerif.Proofs.HashTableLemmas

/-! helper lemmas for Proofs/BinTree.lean: the ring part of `sync` (shared scheme with `HT.St.sync`), the
    candidate lists, the state `BT4.next` returns -/
namespace BT
open Ring W2 HT

/-- the ring part of `sync`: from a ring representing a prefix `h0 ++ l0` of `hist ++ look` (read up to
    `h0.size`) to the ring representing `hist ++ look` read up to `hist.size` -/
theorem ring_sync (dc bs : Nat) (d : EDict) (wlen : Nat) (hist look h0 l0 : ByteArray)
    (hrel : d.Rel ⟨(h0 ++ l0).data.toList, h0.size⟩ dc bs) (hw : wlen = (h0 ++ l0).size)
    (hle2 : (h0 ++ l0).size ≤ (hist ++ look).size)
    (hext : (hist ++ look).extract 0 (h0 ++ l0).size = h0 ++ l0)
    (hroom : look.size + min hist.size dc ≤ dc + bs) :
    EDict.Rel
      { d with
        head := hist.size,
        buf := {
          data := ringStore
            (if wlen < hist.size then ringStore d.buf.data (wlen % d.buf.len) hist wlen hist.size else d.buf.data)
            (max wlen hist.size % d.buf.len) look (max wlen hist.size - hist.size) look.size,
          front := (hist.size + look.size) % d.buf.len,
          rear := hist.size % d.buf.len } }
      ⟨(hist ++ look).data.toList, hist.size⟩ dc bs := by
  have hlen : d.buf.len = dc + bs + 1 := hrel.buf.len_eq
  have hsz : d.buf.data.size = dc + bs + 1 := hrel.buf.size
  have hpos : 0 < dc + bs + 1 := by omega
  have hWl : (hist ++ look).data.toList.length = hist.size + look.size := by
    rw [length_toList, ByteArray.size_append]
  have hwl : wlen ≤ hist.size + look.size := by
    rw [hw, ← ByteArray.size_append]; exact hle2
  generalize hF : (fun (j : Nat) => ((hist ++ look).data.toList[j]! : UInt8)) = F
  have hF1 : ∀ j, j < hist.size → F j = hist.get! j := by
    intro j hj
    rw [← hF]; simp only
    rw [toList_append, getElem!_append, length_toList, if_pos hj, get!_toList]
  have hF2 : ∀ i, F (hist.size + i) = look.get! i := by
    intro i
    rw [← hF]; simp only
    rw [toList_append, getElem!_append, length_toList, if_neg (by omega), get!_toList]
    congr 1; omega
  have hpre : ∀ j, j < wlen → (h0 ++ l0).data.toList[j]! = F j := by
    intro j hj
    rw [← hext, toList_extract0, getElem!_take _ _ _ (by omega), ← hF]
  have k0 : ∀ j, j < wlen → wlen - j ≤ dc + bs + 1 → d.buf.data.get! (j % (dc + bs + 1)) = F j := by
    intro j hj hjk
    rw [← hpre j hj]
    have hl : (h0 ++ l0).data.toList.length = wlen := by rw [length_toList, hw]
    exact hrel.buf.kept j (by simp only; omega) (by simp only; omega)
  have k1 : ∃ data1, data1 = (if wlen < hist.size then
        ringStore d.buf.data (wlen % (dc + bs + 1)) hist wlen hist.size else d.buf.data) ∧
      data1.size = dc + bs + 1 ∧
      ∀ j, j < max wlen hist.size → max wlen hist.size - j ≤ dc + bs + 1 →
        data1.get! (j % (dc + bs + 1)) = F j := by
    refine ⟨_, rfl, ?_⟩
    split_ifs with hc
    · obtain ⟨e1, e2⟩ := ringStore_kept d.buf.data _ hsz hpos F wlen hist wlen hist.size k0
        (fun k hk => (hF1 _ (by omega)).symm)
      rw [show max wlen hist.size = wlen + (hist.size - wlen) by omega]
      exact ⟨e1, e2⟩
    · rw [show max wlen hist.size = wlen by omega]
      exact ⟨hsz, k0⟩
  obtain ⟨data1, hd1, s1, k1⟩ := k1
  generalize hw1 : max wlen hist.size = w1 at *
  have hw1a : hist.size ≤ w1 := by omega
  have hw1b : w1 ≤ hist.size + look.size := by omega
  obtain ⟨s2, k2⟩ := ringStore_kept data1 _ s1 hpos F w1 look (w1 - hist.size) look.size k1
    (fun k hk => by rw [← hF2]; congr 1; omega)
  rw [show w1 + (look.size - (w1 - hist.size)) = hist.size + look.size by omega] at k2
  simp only [hlen, ← hd1]
  refine ⟨⟨s2, ?_, ?_, ?_, rfl, ?_⟩, rfl, hrel.capacity, ?_⟩
  · simp only [hWl]; omega
  · simp only [hWl]; omega
  · simp only [hWl]
  · simp only [hWl]
    intro j hj hjk
    rw [k2 j hj hjk, ← hF]
  · simp only [hWl]; omega

/-! ### the candidate lists -/

theorem distance_pos (t : Tree) (v : Nat) : 1 ≤ t.distance v := by
  unfold Tree.distance; omega

theorem sp_pos (t : Tree) (x : Nat) : ∀ (fuel u : Nat) (acc : List Nat), (∀ y ∈ acc, 1 ≤ y) →
    ∀ y ∈ Tree.cands.sp t x fuel u acc, 1 ≤ y := by
  intro fuel
  induction fuel with
  | zero => intro u acc h y hy; rw [Tree.cands.sp.eq_1] at hy; exact h y (List.mem_reverse.mp hy)
  | succ fuel ih =>
    intro u acc h y hy
    rw [Tree.cands.sp.eq_2] at hy
    by_cases hu : u = null
    · rw [if_pos hu] at hy; exact h y (List.mem_reverse.mp hy)
    · rw [if_neg hu] at hy
      refine ih _ (t.distance u :: acc) ?_ y hy
      intro z hz
      rcases List.mem_cons.mp hz with hz | hz
      · rw [hz]; exact distance_pos t u
      · exact h z hz

theorem su_pos (t : Tree) : ∀ (fuel u : Nat) (acc : List Nat), (∀ y ∈ acc, 1 ≤ y) →
    ∀ y ∈ Tree.cands.su t fuel u acc, 1 ≤ y := by
  intro fuel
  induction fuel with
  | zero => intro u acc h y hy; rw [Tree.cands.su.eq_1] at hy; exact h y (List.mem_reverse.mp hy)
  | succ fuel ih =>
    intro u acc h y hy
    rw [Tree.cands.su.eq_2] at hy
    by_cases hu : u = null
    · rw [if_pos hu] at hy; exact h y (List.mem_reverse.mp hy)
    · rw [if_neg hu] at hy
      refine ih _ (t.distance u :: acc) ?_ y hy
      intro z hz
      rcases List.mem_cons.mp hz with hz | hz
      · rw [hz]; exact distance_pos t u
      · exact h z hz

theorem pr_pos (t : Tree) : ∀ (fuel u : Nat) (acc : List Nat), (∀ y ∈ acc, 1 ≤ y) →
    ∀ y ∈ Tree.cands.pr t fuel u acc, 1 ≤ y := by
  intro fuel
  induction fuel with
  | zero => intro u acc h y hy; rw [Tree.cands.pr.eq_1] at hy; exact h y (List.mem_reverse.mp hy)
  | succ fuel ih =>
    intro u acc h y hy
    rw [Tree.cands.pr.eq_2] at hy
    by_cases hu : u = null
    · rw [if_pos hu] at hy; exact h y (List.mem_reverse.mp hy)
    · rw [if_neg hu] at hy
      refine ih _ (t.distance u :: acc) ?_ y hy
      intro z hz
      rcases List.mem_cons.mp hz with hz | hz
      · rw [hz]; exact distance_pos t u
      · exact h z hz

theorem cands_pos' (t : Tree) (data : ByteArray) :
    (∀ x ∈ (t.cands data).2.1, 1 ≤ x) ∧ (∀ x ∈ (t.cands data).2.2, 1 ≤ x) := by
  have hnil : ∀ y ∈ ([] : List Nat), 1 ≤ y := by intro y hy; cases hy
  unfold Tree.cands
  simp only
  split
  · exact ⟨sp_pos t _ 40 _ [] hnil, hnil⟩
  · exact ⟨su_pos t 40 _ [] hnil, pr_pos t 40 _ [] hnil⟩

theorem next_snd (s : St) (hist look : ByteArray) (st : Lzma.St) :
    (BT4.next s hist look st).2 = s.sync hist look := by
  simp only [BT4]
  split <;> rfl

end BT
