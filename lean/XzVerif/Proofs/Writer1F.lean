import XzVerif.Model.Writer1F
import XzVerif.Proofs.Writer1FLemmas
/-
  Proofs.Writer1F — the classic .lzma writer on a failing sink (Model/Writer1F.lean), property C09:
  "at least one call returns a non-nil error when a sink write fails; success is reported only when the sink accepted a
  complete valid stream" — for EVERY fault plan, both kinds of sink, every history `Write* Close`.

  STATEMENTS ARE FIXED.  If one is false, report the counterexample instead of changing it.
-/
namespace W1F
open W1 W2 W2F

variable {σ : Type}

/-- the history `Write p₁ … Write pₙ Close` -/
def hist (ws : List ByteArray) : List W1.Call := ws.map W1.Call.write ++ [W1.Call.close]

/-- a call result that reports success -/
def Res.isNil : Res → Bool
  | .done _ none => true
  | _ => false

/-- a call result that reports the sink's error -/
def Res.isSink : Res → Bool
  | .sink _ => true
  | _ => false

theorem isNil_eq (r : Res) : r.isNil = r.nil := by
  cases r with
  | done n e => cases e <;> rfl
  | sink n => rfl
  | open_ => rfl
  | err => rfl

theorem isSink_eq (r : Res) : r.isSink = r.sinkErr := by
  cases r <;> rfl

/-- T1: a plan that never faults — the run is the fault-free writer of Model/Writer1.lean: same per-call results, and when
    Close succeeds the sink holds exactly its stream -/
theorem no_fault_is_plain (c : W1.Cfg) (M : Matcher σ) (k : Kind) (F : Plan) (m0 : σ) (ws : List ByteArray)
    (hF : ∀ i, F i = none) :
    (W1F.new c k F m0).2 = true ∧
    ((W1F.run c M k F (W1F.new c k F m0).1 (hist ws)).2.map (·.1)).length = ((W1.run c M (W1.init c m0) (hist ws)).1).length ∧
    (∀ (i : Nat) (r : Res), ((W1F.run c M k F (W1F.new c k F m0).1 (hist ws)).2.map (·.1))[i]? = some r →
        ∃ (n : Nat) (e : Option W1.Err), r = Res.done n e ∧
          ((W1.run c M (W1.init c m0) (hist ws)).1)[i]? = some (n, e)) ∧
    (∀ out, (W1.run c M (W1.init c m0) (hist ws)).2 = some out →
        (W1F.run c M k F (W1F.new c k F m0).1 (hist ws)).1.sunk = out) := by
  obtain ⟨n1, n2, n3⟩ := new_spec c k F m0
  have hnew := n3 hF
  obtain ⟨hf, hi⟩ := n2 hnew
  obtain ⟨A, _⟩ := run_hist c M k F ws (W1F.new c k F m0).1 hf hi
  obtain ⟨hmap, hout⟩ := A hF
  rw [n1] at hmap hout
  unfold hist
  refine ⟨hnew, ?_, ?_, hout⟩
  · rw [hmap, List.length_map]
  · intro i r h
    rw [hmap, List.getElem?_map] at h
    cases hx : (W1.run c M (W1.init c m0) (ws.map W1.Call.write ++ [W1.Call.close])).1[i]? with
    | none => rw [hx] at h; cases h
    | some x =>
      rw [hx] at h
      simp only [Option.map_some, Option.some.injEq] at h
      exact ⟨x.1, x.2, h.symm, rfl⟩

/-- T2: ANY plan — if NewWriter and every call of the history report success, the sink holds exactly the stream of the
    fault-free writer (which Proofs/Writer1I.lean shows to decode to the data written) -/
theorem all_nil_complete_stream (c : W1.Cfg) (M : Matcher σ) (k : Kind) (F : Plan) (m0 : σ) (ws : List ByteArray)
    (hnew : (W1F.new c k F m0).2 = true)
    (hall : ∀ r ∈ (W1F.run c M k F (W1F.new c k F m0).1 (hist ws)).2, r.1.isNil = true) :
    ∃ out, (W1.run c M (W1.init c m0) (hist ws)).2 = some out ∧
      (W1F.run c M k F (W1F.new c k F m0).1 (hist ws)).1.sunk = out ∧
      (∀ r ∈ (W1.run c M (W1.init c m0) (hist ws)).1, r.2 = none) := by
  obtain ⟨n1, n2, _⟩ := new_spec c k F m0
  obtain ⟨hf, hi⟩ := n2 hnew
  obtain ⟨_, B⟩ := run_hist c M k F ws (W1F.new c k F m0).1 hf hi
  rw [n1] at B
  unfold hist at hall ⊢
  exact B (fun r hr => by rw [← isNil_eq]; exact hall r hr)

/-- T3: ANY plan, any list of calls — if a sink call failed (during NewWriter or later), NewWriter failed or the call in
    which it struck returned the sink's error -/
theorem fault_is_reported (c : W1.Cfg) (M : Matcher σ) (k : Kind) (F : Plan) (m0 : σ) (calls : List W1.Call)
    (hnew : (W1F.new c k F m0).2 = true)
    (hf : (W1F.run c M k F (W1F.new c k F m0).1 calls).1.failed = true) :
    ∃ r ∈ (W1F.run c M k F (W1F.new c k F m0).1 calls).2, r.1.isSink = true := by
  obtain ⟨_, n2, _⟩ := new_spec c k F m0
  obtain ⟨hf0, hi⟩ := n2 hnew
  obtain ⟨r, hr, hr2⟩ := (run_inv c M k F calls (W1F.new c k F m0).1 hf0 hi).2 hf
  exact ⟨r, hr, by rw [isSink_eq]; exact hr2⟩

/-- T4: plain sink (bufio keeps the error): after the call that returned the sink's error no Close reports success and
    the sink is not called again -/
theorem plain_close_after_fault (c : W1.Cfg) (M : Matcher σ) (F : Plan) (s : FSt σ) (calls : List W1.Call)
    (hs : s.failed = true) :
    (∀ r ∈ (W1F.run c M .plain F s calls).2, r.1.isNil = false) ∧
    (W1F.run c M .plain F s calls).1.calls = s.calls ∧ (W1F.run c M .plain F s calls).1.sunk = s.sunk := by
  obtain ⟨h1, h2⟩ := run_failed c M .plain F calls s hs
  rw [h1]
  exact ⟨fun r hr => by rw [isNil_eq]; exact h2 r hr, rfl, rfl⟩

/-- T5: what the sink holds is, at every moment, a prefix of what the writer has produced (nothing reordered, nothing
    invented), as long as no fault struck; with a fault: that prefix plus a part of the block that failed -/
theorem sunk_is_prefix (c : W1.Cfg) (M : Matcher σ) (k : Kind) (F : Plan) (m0 : σ) (calls : List W1.Call)
    (hnew : (W1F.new c k F m0).2 = true) (hf : (W1F.run c M k F (W1F.new c k F m0).1 calls).1.failed = false) :
    let sf := (W1F.run c M k F (W1F.new c k F m0).1 calls).1
    sf.sunk = (produced c sf.w).extract 0 sf.given ∧ sf.given ≤ (produced c sf.w).size := by
  obtain ⟨_, n2, _⟩ := new_spec c k F m0
  obtain ⟨hf0, hi⟩ := n2 hnew
  exact (run_inv c M k F calls (W1F.new c k F m0).1 hf0 hi).1 hf

#print axioms W1F.no_fault_is_plain
#print axioms W1F.all_nil_complete_stream
#print axioms W1F.fault_is_reported
#print axioms W1F.plain_close_after_fault
#print axioms W1F.sunk_is_prefix

end W1F
