import XzVerif.Gen.GoSrc
import XzVerif.Codec.LzmaDec
import XzVerif.Model.Writer2
import XzVerif.Proofs.GoSrcMisc
import XzVerif.Proofs.GoSrcLen
import XzVerif.Proofs.GoSrcDist
import XzVerif.Proofs.GoSrcLit
/-
  Proofs.GoSrcOp — the OPERATION level from the source: the REGENERATED translation of lzma/decoder.go `readOp` /
  `decodeLiteral` and lzma/encoder.go `writeLiteral` / `writeMatch` (Gen/GoSrc.lean) refines the per-operation decision
  tree `Lzma.opDec` resp. the path `Lzma.opEnc` of Codec/Lzma.lean, the state machine and rep registers `St.apply`, and the
  classification of a match into rep0–3 / short rep / plain match (`W2.classify`, Model/Writer2.lean).
  The dictionaries are abstracted by what the code asks of them (position and `byteAt`); their ring-level behaviour is the
  subject of Model/Ring.lean.  Statements are fixed; only proofs may change.
-/
namespace GoSrcP
open GoSrc Rc Lzma

/-- a Go probability array is the block `[base, base + n)` of the model's flat table -/
structure ArrRel (a : Array (BitVec 16)) (tbl : Tbl) (base n : Nat) : Prop where
  size : a.size = n
  inb : base + n ≤ tbl.size
  val : ∀ i, i < n → (a.getD i 0#16).toNat = tbl.get (base + i)

/-- the Go coder state `gs` represents the model's `(s, tbl)` for the properties `p` -/
structure StRel (gs : T_state) (s : St) (tbl : Tbl) (p : Props) : Prop where
  st : gs.state.toNat = s.st
  stlt : s.st < 12
  rsize : gs.rep.size = 4
  r0 : (gs.rep.getD 0 0#32).toNat = s.r0
  r1 : (gs.rep.getD 1 0#32).toNat = s.r1
  r2 : (gs.rep.getD 2 0#32).toNat = s.r2
  r3 : (gs.rep.getD 3 0#32).toNat = s.r3
  pb : p.pb ≤ 4
  mask : gs.posBitMask = BitVec.ofNat 32 (2 ^ p.pb - 1)
  lc : gs.Properties.LC.toNat = p.lc
  lp : gs.Properties.LP.toNat = p.lp
  lcle : p.lc ≤ 8
  lple : p.lp ≤ 4
  isMatch : ArrRel gs.isMatch tbl aIsMatch 192
  isRep : ArrRel gs.isRep tbl aIsRep 12
  isRepG0 : ArrRel gs.isRepG0 tbl aIsRepG0 12
  isRepG1 : ArrRel gs.isRepG1 tbl aIsRepG1 12
  isRepG2 : ArrRel gs.isRepG2 tbl aIsRepG2 12
  isRepG0Long : ArrRel gs.isRepG0Long tbl aIsRepG0Long 192
  len : LenRel gs.lenCodec tbl aLen
  repLen : LenRel gs.repLenCodec tbl aRepLen
  dist : DistRel gs.distCodec tbl
  lit : LitRel gs.litCodec tbl (0x300 * 2 ^ (p.lc + p.lp))
  tok : tbl.ok

/-- coding context from what the code asks of its dictionary: the position and `byteAt` -/
def ctxOf (p : Props) (s : St) (pos : Nat) (bat : Nat → Nat) : Ctx :=
  { st := s.st
    ps := pos % 2 ^ p.pb
    litBase := aLit + 0x300 * litState p.lc p.lp pos (bat 1)
    matchByte := bat (s.r0 + 1) }

/-- the Go value of an operation the decoder hands to `apply`: a literal, or a match with real distance and length -/
def goOpOf (s' : St) : RawOp → S_operation
  | .lit b => .lit { b := BitVec.ofNat 8 b }
  | .mtch len dd => .match_ { distance := BitVec.ofNat 64 (dd + 1), n := BitVec.ofNat 64 len }
  | .rep _ len => .match_ { distance := BitVec.ofNat 64 (s'.r0 + 1), n := BitVec.ofNat 64 len }
  | .shortRep => .match_ { distance := BitVec.ofNat 64 (s'.r0 + 1), n := 1#64 }

end GoSrcP
