import XzVerif.Model.LazyXz
import XzVerif.Proofs.LazyDec2
import XzVerif.Proofs.LazyXzLemmas
/-!
  The lazy xz reader (Model/LazyXz.lean: call by call, multi-stream / padding / SingleStream, block reader checks on
  every call) refines the batch xz reader (Model/Xz.lean `read false`), for EVERY input and EVERY schedule.
-/
namespace LazyXz
open Lzma Xz LazyDec LazyDec2

def batch (cfgCap : Nat) (single : Bool) (inp : ByteArray) : Xz.Result := Xz.read false cfgCap single inp

def lastStat (rs : List (ByteArray × RStat)) : RStat := (rs.getLast?.map (·.2)).getD .ok

def statusOfR : RStat → Status
  | .ok => .err "not finished"
  | .eof => .eof
  | .err e => statusOf e

/-- the schedule facts against `batch` -/
theorem schedule_batch (cfgCap : Nat) (single : Bool) (inp : ByteArray) (x : X)
    (h : newReader cfgCap single inp = .ok x) (lens : List Nat) :
    SeqPostX (bx cfgCap single inp) ByteArray.empty lens (readSeq x lens) :=
  readSeqX_spec lens x ByteArray.empty (newReader_init cfgCap single inp x h)

theorem batch_eq (cfgCap : Nat) (single : Bool) (inp : ByteArray) :
    (batch cfgCap single inp).out = (bx cfgCap single inp).1.out ∧
    (batch cfgCap single inp).status = (bx cfgCap single inp).2 :=
  xzread_eq _ _ _

theorem lastStat_eq (rs : List (ByteArray × RStat)) : lastStat rs = LazyDec.lastStat rs := rfl

/-- T0. NewReader fails exactly when the batch reader fails before delivering anything in its first stream header -/
theorem newReader_err (cfgCap : Nat) (hcfg : cfgCap = 0 ∨ (4096 ≤ cfgCap ∧ cfgCap ≤ 2 ^ 32 - 1)) (single : Bool)
    (inp : ByteArray) (st : RStat) (h : newReader cfgCap single inp = .error st) :
    (batch cfgCap single inp).status.cls = (statusOfR st).cls ∧ (batch cfgCap single inp).out = ByteArray.empty := by
  obtain ⟨e1, e2⟩ := batch_eq cfgCap single inp
  rw [e1, e2]
  unfold newReader newReaderE newStreamReaderE at h
  simp only [Bool.false_eq_true, if_false, ofStatusE_false] at h
  rw [if_neg (by omega)] at h
  unfold bx
  cases hh : readStreamHeader inp 0 with
  | cleanEnd =>
    rw [hh] at h
    simp only at h
    cases h
    rw [readStreams_clean _ _ _ _ _ hh]
    exact ⟨rfl, rfl⟩
  | padding =>
    rw [hh] at h
    simp only at h
    cases h
    rw [readStreams_pad_first _ _ _ _ hh]
    exact ⟨rfl, rfl⟩
  | fail st0 =>
    rw [hh] at h
    have hne := rsh_fail_ne _ _ _ hh
    rw [readStreams_fail _ _ _ _ _ _ hh]
    cases st0 with
    | eof => exact absurd rfl hne
    | unexpectedEOF => simp only [ofStatus] at h; cases h; exact ⟨rfl, rfl⟩
    | err w => simp only [ofStatus] at h; cases h; exact ⟨rfl, rfl⟩
  | ok flags =>
    rw [hh] at h
    simp only at h
    cases h

/-- T1. nothing panics, the ring never lacks space -/
theorem never_noSpace (cfgCap : Nat) (single : Bool) (inp : ByteArray) (x : X)
    (h : newReader cfgCap single inp = .ok x) (lens : List Nat) :
    ∀ r ∈ readSeq x lens, r.2 ≠ .err .noSpace ∧ r.2 ≠ .err .lenRange ∧ r.2 ≠ .err .panic := by
  exact (schedule_batch cfgCap single inp x h lens).1

/-- T2. Read contract per call -/
theorem call_sizes (cfgCap : Nat) (single : Bool) (inp : ByteArray) (x : X)
    (h : newReader cfgCap single inp = .ok x) (lens : List Nat) :
    (readSeq x lens).length ≤ lens.length ∧
    ∀ i (hi : i < (readSeq x lens).length),
      ((readSeq x lens)[i]).1.size ≤ lens[i]! ∧ (((readSeq x lens)[i]).2 = .ok → ((readSeq x lens)[i]).1.size = lens[i]!) := by
  exact (schedule_batch cfgCap single inp x h lens).2.1

/-- T3. the delivered bytes are a prefix of what the batch reader decodes -/
theorem delivered_prefix (cfgCap : Nat) (single : Bool) (inp : ByteArray) (x : X)
    (h : newReader cfgCap single inp = .ok x) (lens : List Nat)
    (hfuel : (batch cfgCap single inp).status ≠ .err "fuel exhausted") :
    let out := (batch cfgCap single inp).out
    (delivered (readSeq x lens)).size ≤ out.size ∧
    delivered (readSeq x lens) = out.extract 0 (delivered (readSeq x lens)).size := by
  have hs := schedule_batch cfgCap single inp x h lens
  obtain ⟨e1, e2⟩ := batch_eq cfgCap single inp
  have hK : KX (bx cfgCap single inp) := by rw [KX, ← e2]; exact hfuel
  have hp := hs.2.2.1 hK
  rw [ByteArray.empty_append] at hp
  have hlen := hp.length_le
  rw [Ring.length_toList, Ring.length_toList] at hlen
  show (delivered (readSeq x lens)).size ≤ (batch cfgCap single inp).out.size ∧
    delivered (readSeq x lens) = (batch cfgCap single inp).out.extract 0 (delivered (readSeq x lens)).size
  rw [e1]
  refine ⟨hlen, ?_⟩
  apply ba_ext
  rw [LazyDec.toList_extract0]
  obtain ⟨t, ht⟩ := hp
  rw [← ht, ← Ring.length_toList, List.take_left']
  rfl

/-- T4. a schedule that ends with io.EOF has delivered everything, and the batch reader ends cleanly -/
theorem eof_complete (cfgCap : Nat) (single : Bool) (inp : ByteArray) (x : X)
    (h : newReader cfgCap single inp = .ok x) (lens : List Nat)
    (hfuel : (batch cfgCap single inp).status ≠ .err "fuel exhausted")
    (he : lastStat (readSeq x lens) = .eof) :
    (batch cfgCap single inp).status = .eof ∧ delivered (readSeq x lens) = (batch cfgCap single inp).out := by
  have hs := schedule_batch cfgCap single inp x h lens
  obtain ⟨e1, e2⟩ := batch_eq cfgCap single inp
  have hK : KX (bx cfgCap single inp) := by rw [KX, ← e2]; exact hfuel
  obtain ⟨a1, a2⟩ := hs.2.2.2.1 he hK
  rw [ByteArray.empty_append] at a2
  rw [e1, e2]
  exact ⟨a1, ba_ext a2⟩

/-- T5. a schedule that ends with an error: the batch reader fails too.  (Not: "with an error of the same
    class" — the batch model checks the declared block sizes against everything the LZMA2 layer decoded and against
    the position before a failed chunk header, the Go reader and this lazy model only against what was delivered and
    consumed; see the two evaluated inputs below.) -/
theorem err_agrees (cfgCap : Nat) (single : Bool) (inp : ByteArray) (x : X)
    (h : newReader cfgCap single inp = .ok x) (lens : List Nat)
    (e : Err) (he : lastStat (readSeq x lens) = .err e) :
    (batch cfgCap single inp).status ≠ .eof := by
  have hs := schedule_batch cfgCap single inp x h lens
  rw [(batch_eq cfgCap single inp).2]
  exact hs.2.2.2.2.1 e he


/-! The two inputs on which the batch model and the lazy reader (like the Go reader) report errors of different
    classes (evaluated):
    * `cexU`: the block header declares uncompressed size 1, the LZMA chunk is cut off after 1646 bytes have been
      decoded into the dictionary but none delivered — batch: "wrong uncompressed size for block", lazy/Go: unexpected EOF;
    * `cexC`: the block header declares compressed size 10, a complete 10-byte chunk is followed by one byte of the
      next chunk header — batch: unexpected EOF, lazy/Go: "wrong compressed size for block". -/
def cexU : ByteArray := ⟨#[253, 55, 122, 88, 90, 0, 0, 1, 105, 34, 222, 54, 2, 128, 1, 33, 1, 12, 0, 0, 246, 121, 74, 41,
  224, 12, 127, 0, 31, 93, 0, 48, 152, 136, 152, 62, 203, 226, 111, 59, 80, 252, 100, 160, 63, 255, 236, 38, 145, 192,
  245, 21, 157, 236]⟩
def cexC : ByteArray := ⟨#[253, 55, 122, 88, 90, 0, 0, 1, 105, 34, 222, 54, 2, 64, 10, 33, 1, 12, 0, 0, 190, 22, 144, 143,
  1, 0, 6, 97, 98, 99, 100, 101, 102, 103, 1]⟩
def lastOf (inp : ByteArray) (lens : List Nat) : List RStat :=
  match newReader 0 false inp with
  | .ok x => (readSeq x lens).map (fun r => r.2)
  | .error st => [st]
#guard (batch 0 false cexU).status = .err "wrong uncompressed size for block"
#guard lastOf cexU [100] = [.err .unexpectedEOF]
#guard (batch 0 false cexC).status = .unexpectedEOF
#guard lastOf cexC [100] = [.err (.other "wrong compressed size for block")]

/-- T6. progress -/
theorem reaches_eof (cfgCap : Nat) (single : Bool) (inp : ByteArray) (x : X)
    (h : newReader cfgCap single inp = .ok x) (lens : List Nat)
    (hclean : (batch cfgCap single inp).status = .eof) (hsum : (batch cfgCap single inp).out.size < lens.sum) :
    lastStat (readSeq x lens) = .eof := by
  have hs := schedule_batch cfgCap single inp x h lens
  obtain ⟨e1, e2⟩ := batch_eq cfgCap single inp
  rw [e2] at hclean
  rw [e1] at hsum
  have hK : KX (bx cfgCap single inp) := by rw [KX, hclean]; intro hh; cases hh
  have hp := hs.2.2.1 hK
  rw [ByteArray.empty_append] at hp
  have hlen := hp.length_le
  rw [Ring.length_toList, Ring.length_toList] at hlen
  cases hl : lastStat (readSeq x lens) with
  | eof => rfl
  | ok =>
    have := hs.2.2.2.2.2 hl
    omega
  | err e => exact absurd hclean (hs.2.2.2.2.1 e hl)

end LazyXz

#print axioms LazyXz.newReader_err
#print axioms LazyXz.never_noSpace
#print axioms LazyXz.call_sizes
#print axioms LazyXz.delivered_prefix
#print axioms LazyXz.eof_complete
#print axioms LazyXz.err_agrees
#print axioms LazyXz.reaches_eof
