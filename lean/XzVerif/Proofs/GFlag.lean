/-
  Proofs.GFlag — theorems about the gxz command-line model (`Model.GFlag`): fuel independence of
  `parseGo`, `--` ends option parsing, operands-only command lines, the per-file plan and target
  naming.  Core-only.
-/
import XzVerif.Model.GFlag

namespace GFlag

/-! ### the arguments left over by `processExtra` / `processShorts` are a suffix -/

theorem processExtra_suffix {o : Opts} {f : Opt} {rest : List String} {o' : Opts} {rest' : List String}
    (h : processExtra o f rest = some (o', rest')) : rest' <:+ rest := by
  unfold processExtra at h
  split at h
  · cases h; exact List.suffix_refl _
  · split at h
    · split at h
      · simp only [Option.map_eq_some_iff, Prod.mk.injEq] at h
        obtain ⟨_, _, _, rfl⟩ := h
        exact List.suffix_cons _ _
      · cases h
    · cases h
  · split at h
    · split at h
      · split at h
        · cases h; exact List.suffix_cons _ _
        · cases h; exact List.suffix_refl _
      · cases h; exact List.suffix_refl _
    · cases h; exact List.suffix_refl _

theorem processShorts_suffix {cs : List Char} : ∀ {o : Opts} {rest : List String} {o' : Opts} {rest' : List String},
    processShorts o cs rest = some (o', rest') → rest' <:+ rest := by
  induction cs with
  | nil => intro o rest o' rest' h; simp [processShorts] at h; obtain ⟨_, rfl⟩ := h; exact List.suffix_refl _
  | cons c cs ih =>
    intro o rest o' rest' h
    unfold processShorts at h
    split at h
    · cases h
    · split at h
      · cases h
      · rename_i o1 r1 he
        exact (ih h).trans (processExtra_suffix he)

/-! ### one step of `parseGo`, with the recursive call abstracted -/

/-- the body of `parseGo (fuel + 1)` with `parseGo fuel` replaced by `rec` -/
def step (rec : Opts → List String → List String → Option (Opts × List String))
    (o : Opts) (acc : List String) : List String → Option (Opts × List String)
  | [] => some (o, acc.reverse)
  | arg :: rest =>
    if arg.length < 2 ∨ !startsWithDash arg then rec o (arg :: acc) rest
    else if arg.startsWith "--" then
      if arg.length = 2 then some (o, acc.reverse ++ rest)
      else
        let body := (arg.drop 2).toString
        match body.splitOn "=" with
        | [name] =>
          if name.length < 2 then none else
          match longOpt name with
          | none => none
          | some f =>
            match processExtra o f rest with
            | none => none
            | some (o', rest') => rec o' acc rest'
        | name :: vparts =>
          if name.length < 2 then none else
          match longOpt name with
          | none => none
          | some f =>
            if f.hasArg = .noArg then none
            else match set o f ("=".intercalate vparts) with
              | none => none
              | some o' => rec o' acc rest
        | [] => none
    else
      match processShorts o (arg.drop 1).toString.toList rest with
      | none => none
      | some (o', rest') => rec o' acc rest'

theorem parseGo_succ (f : Nat) (o : Opts) (acc args : List String) :
    parseGo (f + 1) o acc args = step (parseGo f) o acc args := by
  cases args with
  | nil => simp only [parseGo, step]
  | cons a r =>
    simp only [parseGo, step]
    generalize (a.drop 2).toString.splitOn "=" = l
    generalize processShorts o (a.drop 1).toString.toList r = ps
    split
    · rfl
    · split
      · split
        · rfl
        · cases l with
          | nil => rfl
          | cons n v => cases v <;> rfl
      · cases ps <;> rfl

theorem length_lt_of_suffix_tail {a : String} {rest rest' : List String} (h : rest' <:+ rest) :
    rest'.length < (a :: rest).length := by
  have := h.length_le
  simp only [List.length_cons]; omega

/-- `step` only calls `rec` on strictly shorter argument lists; any reflexive relation between the
    results of two `rec`s on shorter lists lifts to the results of `step`. -/
theorem step_rel (R : Option (Opts × List String) → Option (Opts × List String) → Prop)
    (hR : ∀ x, R x x) {rec1 rec2 : Opts → List String → List String → Option (Opts × List String)}
    (o : Opts) (acc args : List String)
    (h : ∀ o' acc' rest', rest'.length < args.length → R (rec1 o' acc' rest') (rec2 o' acc' rest')) :
    R (step rec1 o acc args) (step rec2 o acc args) := by
  cases args with
  | nil => exact hR _
  | cons a r =>
    simp only [step]
    generalize (a.drop 2).toString.splitOn "=" = l
    split
    · exact h _ _ _ (by simp)
    · split
      · split
        · exact hR _
        · cases l with
          | nil => exact hR _
          | cons n v =>
            cases v with
            | nil =>
              simp only
              split
              · exact hR _
              · split
                · exact hR _
                · split
                  · exact hR _
                  · rename_i he
                    exact h _ _ _ (length_lt_of_suffix_tail (processExtra_suffix he))
            | cons v1 vs =>
              simp only
              split
              · exact hR _
              · split
                · exact hR _
                · split
                  · exact hR _
                  · split
                    · exact hR _
                    · exact h _ _ _ (by simp)
      · split
        · exact hR _
        · rename_i he
          exact h _ _ _ (length_lt_of_suffix_tail (processShorts_suffix he))

/-! ### 1. fuel independence -/

theorem parseGo_zero (o : Opts) (acc args : List String) : parseGo 0 o acc args = none := by
  cases args <;> rfl

theorem parseGo_fuel_succ : ∀ (f : Nat) (o : Opts) (acc args : List String) (r : Opts × List String),
    parseGo f o acc args = some r → parseGo (f + 1) o acc args = some r := by
  intro f
  induction f with
  | zero => intro o acc args r h; rw [parseGo_zero] at h; cases h
  | succ f ih =>
    intro o acc args r h
    rw [parseGo_succ] at h ⊢
    exact step_rel (fun a b => ∀ r, a = some r → b = some r) (fun _ _ h => h) o acc args
      (fun o' acc' rest' _ r h => ih o' acc' rest' r h) r h

/-- **Fuel independence**: a result obtained with some fuel is obtained with any larger fuel. -/
theorem parseGo_fuel_mono {f : Nat} {o : Opts} {acc args : List String} {r : Opts × List String} (k : Nat)
    (h : parseGo f o acc args = some r) : parseGo (f + k) o acc args = some r := by
  induction k with
  | zero => exact h
  | succ k ih => exact parseGo_fuel_succ _ _ _ _ _ ih

theorem parseGo_fuel_irrel : ∀ (f g : Nat) (o : Opts) (acc args : List String),
    args.length + 1 ≤ f → args.length + 1 ≤ g → parseGo f o acc args = parseGo g o acc args := by
  intro f
  induction f with
  | zero => intro g o acc args hf; omega
  | succ f ih =>
    intro g o acc args hf hg
    obtain ⟨g, rfl⟩ : ∃ g', g = g' + 1 := ⟨g - 1, by omega⟩
    rw [parseGo_succ, parseGo_succ]
    exact step_rel Eq (fun _ => rfl) o acc args
      (fun o' acc' rest' hlt => ih g o' acc' rest' (by omega) (by omega))

/-- **Enough fuel always terminates**: with at least `args.length + 1` fuel the result no longer depends
    on the fuel (each recursive call consumes at least one argument). -/
theorem parseGo_fuel_enough {f : Nat} {o : Opts} {acc args : List String} (hf : args.length + 1 ≤ f) :
    parseGo f o acc args = parseGo (args.length + 1) o acc args :=
  parseGo_fuel_irrel _ _ _ _ _ hf (Nat.le_refl _)

theorem parse_eq_parseGo {f : Nat} {args : List String} (hf : args.length + 1 ≤ f) :
    parse args = parseGo f {} [] args :=
  parseGo_fuel_irrel _ _ _ _ _ (by omega) hf

/-! ### 2. `--` ends option parsing -/

theorem dd_length : "--".length = 2 := by decide
theorem dd_isEmpty : "--".isEmpty = false := by decide
theorem dd_startsWithDash : startsWithDash "--" = true := by simp [startsWithDash]
theorem dd_startsWith_dd : "--".startsWith "--" = true := by simp

theorem eq_dd_of_startsWith {a : String} (h : a.startsWith "--" = true) (hl : a.length = 2) : a = "--" := by
  rw [String.startsWith_string_iff] at h
  rw [← String.length_toList] at hl
  apply String.ext_iff.2
  obtain ⟨t, ht⟩ := h
  rw [← ht] at hl ⊢
  have : t = [] := by
    cases t with
    | nil => rfl
    | cons c cs => simp at hl
  subst this
  simp

theorem processExtra_dd (o : Opts) (f : Opt) (rest files : List String) :
    processExtra o f (rest ++ "--" :: files)
      = (processExtra o f rest).map (fun p => (p.1, p.2 ++ "--" :: files)) := by
  unfold processExtra
  cases f.hasArg with
  | noArg => rfl
  | required =>
    cases rest with
    | nil => simp [dd_isEmpty, dd_startsWithDash]
    | cons a r =>
      simp only [List.cons_append]
      split
      · cases set o f a <;> rfl
      · rfl
  | optional =>
    cases rest with
    | nil => simp [dd_isEmpty, dd_startsWithDash]
    | cons a r =>
      simp only [List.cons_append]
      split
      · cases set o f a <;> rfl
      · rfl

theorem processShorts_dd (files : List String) : ∀ (cs : List Char) (o : Opts) (rest : List String),
    processShorts o cs (rest ++ "--" :: files)
      = (processShorts o cs rest).map (fun p => (p.1, p.2 ++ "--" :: files)) := by
  intro cs
  induction cs with
  | nil => intro o rest; rfl
  | cons c cs ih =>
    intro o rest
    simp only [processShorts]
    cases shortOpt c with
    | none => rfl
    | some f =>
      simp only [processExtra_dd]
      cases processExtra o f rest with
      | none => rfl
      | some p => obtain ⟨o', r'⟩ := p; exact ih o' r'

theorem not_mem_of_suffix {x : String} {l l' : List String} (h : l' <:+ l) (hx : x ∉ l) : x ∉ l' :=
  fun hm => hx (h.subset hm)

theorem parseGo_dashdash (files : List String) : ∀ (f : Nat) (o : Opts) (acc args : List String),
    "--" ∉ args → args.length + 1 ≤ f →
    parseGo f o acc (args ++ "--" :: files) = (parseGo f o acc args).map (fun r => (r.1, r.2 ++ files)) := by
  intro f
  induction f with
  | zero => intro o acc args _ hf; omega
  | succ f ih =>
    intro o acc args hn hf
    rw [parseGo_succ, parseGo_succ]
    cases args with
    | nil =>
      simp [step, dd_length, dd_startsWithDash]
    | cons a r =>
      have ha : a ≠ "--" := fun h => hn (by simp [h])
      have hr : "--" ∉ r := fun h => hn (by simp [h])
      simp only [List.length_cons] at hf
      simp only [List.cons_append, step]
      generalize (a.drop 2).toString.splitOn "=" = l
      split
      · exact ih _ _ _ hr (by omega)
      · split
        · split
          · rename_i h1 h2
            exact absurd (eq_dd_of_startsWith h1 h2) ha
          · cases l with
            | nil => rfl
            | cons n v =>
              cases v with
              | nil =>
                simp only
                split
                · rfl
                · split
                  · rfl
                  · rw [processExtra_dd]
                    cases he : processExtra o _ r with
                    | none => rfl
                    | some p =>
                      obtain ⟨o', r'⟩ := p
                      have hs := processExtra_suffix he
                      have := hs.length_le
                      exact ih o' acc r' (not_mem_of_suffix hs hr) (by omega)
              | cons v1 vs =>
                simp only
                split
                · rfl
                · split
                  · rfl
                  · split
                    · rfl
                    · split
                      · rfl
                      · exact ih _ _ _ hr (by omega)
        · rw [processShorts_dd]
          cases he : processShorts o _ r with
          | none => rfl
          | some p =>
            obtain ⟨o', r'⟩ := p
            have hs := processShorts_suffix he
            have := hs.length_le
            exact ih o' acc r' (not_mem_of_suffix hs hr) (by omega)

/-- **`--` ends option parsing**: everything after the first `--` is an operand verbatim and has no
    influence on the options. -/
theorem parse_dashdash (args files : List String) (h : "--" ∉ args) :
    parse (args ++ "--" :: files) = (parse args).map (fun r => (r.1, r.2 ++ files)) := by
  have hlen : (args ++ "--" :: files).length = args.length + files.length + 1 := by
    simp only [List.length_append, List.length_cons]; omega
  rw [parse_eq_parseGo (f := args.length + files.length + 2) (by omega),
    parse_eq_parseGo (args := args) (f := args.length + files.length + 2) (by omega)]
  exact parseGo_dashdash files _ _ _ _ h (by omega)

/-! ### 3. operands only -/

theorem parseGo_operands : ∀ (f : Nat) (o : Opts) (acc args : List String),
    (∀ a ∈ args, ¬ startsWithDash a = true) → args.length + 1 ≤ f →
    parseGo f o acc args = some (o, acc.reverse ++ args) := by
  intro f
  induction f with
  | zero => intro o acc args _ hf; omega
  | succ f ih =>
    intro o acc args hn hf
    rw [parseGo_succ]
    cases args with
    | nil => simp [step]
    | cons a r =>
      simp only [List.length_cons] at hf
      have ha : startsWithDash a = false := by simpa using hn a (by simp)
      simp only [step, ha, Bool.not_false, or_true, if_true]
      rw [ih o (a :: acc) r (fun b hb => hn b (by simp [hb])) (by omega)]
      simp

/-- **Operands only**: a command line without any argument starting with a dash is returned unchanged
    with the default options. -/
theorem parse_operands (args : List String) (h : ∀ a ∈ args, ¬ startsWithDash a = true) :
    parse args = some ({}, args) := by
  rw [parse_eq_parseGo (Nat.le_refl _), parseGo_operands _ _ _ _ h (Nat.le_refl _)]
  simp

/-! ### `String` facts via `toList` -/

theorem hasSuffix_iff {s suf : String} : hasSuffix s suf = true ↔ suf.toList <:+ s.toList := by
  simp [hasSuffix, ← String.endsWith_toSlice]

theorem toList_dropSuffix (s suf : String) :
    (dropSuffix s suf).toList = s.toList.take (s.toList.length - suf.toList.length) := by
  simp [dropSuffix, String.length_toList]

theorem hasSuffix_append (s suf : String) : hasSuffix (s ++ suf) suf = true := by
  rw [hasSuffix_iff, String.toList_append]; exact List.suffix_append _ _

theorem dropSuffix_append (s suf : String) : dropSuffix (s ++ suf) suf = s := by
  apply String.ext_iff.2
  rw [toList_dropSuffix, String.toList_append]
  simp

theorem eq_append_of_hasSuffix {s suf : String} (h : hasSuffix s suf = true) :
    s = dropSuffix s suf ++ suf := by
  rw [hasSuffix_iff] at h
  obtain ⟨t, ht⟩ := h
  apply String.ext_iff.2
  rw [String.toList_append, toList_dropSuffix, ← ht]
  simp

theorem append_ne_self {s ext : String} (h : ext ≠ "") : s ++ ext ≠ s := by
  intro he
  have := congrArg (fun x => x.toList.length) he
  simp only [String.toList_append, List.length_append] at this
  have h0 : ext.toList = [] := List.eq_nil_of_length_eq_zero (by omega)
  exact h (String.ext_iff.2 (by simpa using h0))

theorem append_left_cancel {s a b : String} (h : s ++ a = s ++ b) : a = b := by
  have := String.ext_iff.1 h
  simp only [String.toList_append, List.append_cancel_left_eq] at this
  exact String.ext_iff.2 this

theorem dot_append_ne_empty (fmt : String) : "." ++ fmt ≠ "" := by
  intro h
  have := String.ext_iff.1 h
  simp at this

theorem append_isEmpty_false (s : String) {ext : String} (h : ext ≠ "") : (s ++ ext).isEmpty = false := by
  rw [String.isEmpty_eq_false_iff]
  intro he
  have h1 : s = "" ∧ ext = "" := by simpa using String.ext_iff.1 he
  exact h h1.2

/-! ### 5. target naming -/

theorem targetName_compress {p fmt t : String} (h : targetName p fmt false = some t) :
    p.isEmpty = false ∧ t = p ++ ("." ++ fmt) := by
  unfold targetName at h
  split at h
  · cases h
  · rename_i hp
    simp only [Bool.not_false, if_true, Option.ite_none_left_eq_some, Option.some.injEq] at h
    exact ⟨by simpa using hp, h.2.symm⟩

/-- compress then decompress restores the name (for every format string, in particular "xz" and "lzma") -/
theorem targetName_roundtrip {p fmt t : String} (h : targetName p fmt false = some t) :
    targetName t fmt true = some p := by
  obtain ⟨_, rfl⟩ := targetName_compress h
  unfold targetName
  simp only [append_isEmpty_false p (dot_append_ne_empty fmt), Bool.false_eq_true, if_false,
    Bool.not_true, hasSuffix_append, if_true, dropSuffix_append]

theorem targetName_roundtrip_xz {p t : String} (h : targetName p "xz" false = some t) :
    targetName t "xz" true = some p := targetName_roundtrip h

theorem targetName_roundtrip_lzma {p t : String} (h : targetName p "lzma" false = some t) :
    targetName t "lzma" true = some p := targetName_roundtrip h

theorem not_hasSuffix_append {b big small : String}
    (hn : ¬ small.toList <:+ big.toList) (hn' : ¬ big.toList <:+ small.toList) :
    hasSuffix (b ++ big) small = false := by
  rw [Bool.eq_false_iff]
  intro h
  rw [hasSuffix_iff, String.toList_append] at h
  rcases List.suffix_or_suffix_of_suffix h (List.suffix_append _ _) with h' | h'
  · exact hn h'
  · exact hn' h'

/-- `.txz` maps to `.tar` -/
theorem targetName_txz (b : String) : targetName (b ++ ".txz") "xz" true = some (b ++ ".tar") := by
  have h1 : hasSuffix (b ++ ".txz") ("." ++ "xz") = false :=
    not_hasSuffix_append (by decide) (by decide)
  have h2 : (if "xz" = "lzma" then ".tlz" else ".txz") = ".txz" := by decide
  unfold targetName
  simp only [append_isEmpty_false b (show ".txz" ≠ "" by decide), Bool.false_eq_true, if_false,
    Bool.not_true, h1, h2, hasSuffix_append, if_true, dropSuffix_append]

/-- `.tlz` maps to `.tar` -/
theorem targetName_tlz (b : String) : targetName (b ++ ".tlz") "lzma" true = some (b ++ ".tar") := by
  have h1 : hasSuffix (b ++ ".tlz") ("." ++ "lzma") = false :=
    not_hasSuffix_append (by decide) (by decide)
  unfold targetName
  simp only [append_isEmpty_false b (show ".tlz" ≠ "" by decide), Bool.false_eq_true, if_false,
    Bool.not_true, h1, hasSuffix_append, if_true, dropSuffix_append]

/-- the target name is never the input's own name (any format string, either direction) -/
theorem targetName_ne {path fmt t : String} {d : Bool} (h : targetName path fmt d = some t) : t ≠ path := by
  cases d with
  | false =>
    obtain ⟨_, rfl⟩ := targetName_compress h
    exact append_ne_self (dot_append_ne_empty fmt)
  | true =>
    unfold targetName at h
    split at h
    · cases h
    · simp only [Bool.not_true, Bool.false_eq_true, if_false] at h
      by_cases h1 : hasSuffix path ("." ++ fmt) = true
      · rw [if_pos h1] at h
        simp only [Option.some.injEq] at h
        subst h
        intro he
        have := eq_append_of_hasSuffix h1
        rw [he] at this
        exact append_ne_self (dot_append_ne_empty fmt) this.symm
      · rw [if_neg h1] at h
        by_cases h2 : hasSuffix path (if fmt = "lzma" then ".tlz" else ".txz") = true
        · rw [if_pos h2] at h
          simp only [Option.some.injEq] at h
          subst h
          intro he
          have hp := eq_append_of_hasSuffix h2
          have := append_left_cancel (he.trans hp)
          split at this
          · exact absurd this (by decide)
          · exact absurd this (by decide)
        · rw [if_neg h2] at h
          exact absurd h (by simp)

/-! ### 4. plan theorems -/

/-- the format actually used by `plan` -/
def planFmt (o : Opts) (fmt : String) (content : Content) : Option String :=
  if o.decompress then
    match fmt, content with
    | "auto", .xz => some "xz"
    | "auto", .lzma => some "lzma"
    | "auto", .plain => none
    | "xz", .xz => some "xz"
    | "lzma", .lzma => some "lzma"
    | _, _ => none
  else some fmt

theorem plan_eq (o : Opts) (fmt path : String) (c : Content) (te : Bool) :
    plan o fmt path c te =
      match planFmt o fmt c with
      | none => .fail
      | some f =>
        if o.stdout then .toStdout
        else match targetName path f o.decompress with
          | none => .fail
          | some t => if te ∧ !o.force then .fail else .toFile t o.keep := by
  rfl

/-- with `-c` nothing is written to a file -/
theorem plan_stdout {o : Opts} {fmt path : String} {c : Content} {te : Bool}
    (hs : o.stdout = true) (hne : plan o fmt path c te ≠ .fail) : plan o fmt path c te = .toStdout := by
  rw [plan_eq] at hne ⊢
  revert hne
  cases planFmt o fmt c with
  | none => intro hne; exact absurd rfl hne
  | some f => intro _; simp only [hs, if_true]

/-- shape of a plan that writes a file -/
theorem plan_toFile {o : Opts} {fmt path : String} {c : Content} {te : Bool} {t : String} {k : Bool}
    (h : plan o fmt path c te = .toFile t k) :
    ∃ f, planFmt o fmt c = some f ∧ o.stdout = false ∧ targetName path f o.decompress = some t ∧
      ¬ (te = true ∧ o.force = false) ∧ k = o.keep := by
  rw [plan_eq] at h
  cases hf : planFmt o fmt c with
  | none => rw [hf] at h; cases h
  | some f =>
    rw [hf] at h
    simp only at h
    refine ⟨f, rfl, ?_⟩
    cases hs : o.stdout with
    | true => rw [hs] at h; simp at h
    | false =>
      rw [hs] at h
      simp only [Bool.false_eq_true, if_false] at h
      cases ht : targetName path f o.decompress with
      | none => rw [ht] at h; cases h
      | some t' =>
        rw [ht] at h
        simp only at h
        split at h
        · cases h
        · rename_i hc
          simp only [Action.toFile.injEq] at h
          obtain ⟨rfl, rfl⟩ := h
          refine ⟨rfl, rfl, ?_, rfl⟩
          simpa using hc

/-- the input is kept exactly when `-k` was given -/
theorem plan_keep {o : Opts} {fmt path : String} {c : Content} {te : Bool} {t : String} {k : Bool}
    (h : plan o fmt path c te = .toFile t k) : k = o.keep := by
  obtain ⟨_, _, _, _, _, hk⟩ := plan_toFile h
  exact hk

/-- an existing target is never overwritten without `-f` -/
theorem plan_no_overwrite {o : Opts} {fmt path : String} {c : Content} {te : Bool}
    (hte : te = true) (hf : o.force = false) (hs : o.stdout = false) : plan o fmt path c te = .fail := by
  rw [plan_eq]
  cases planFmt o fmt c with
  | none => rfl
  | some f =>
    simp only [hs, Bool.false_eq_true, if_false]
    cases targetName path f o.decompress with
    | none => rfl
    | some t => simp [hte, hf]

/-- the output never goes to the input's own name (for every format string) -/
theorem plan_target_differs' {o : Opts} {fmt path : String} {c : Content} {te : Bool} {t : String} {k : Bool}
    (h : plan o fmt path c te = .toFile t k) : t ≠ path := by
  obtain ⟨f, _, _, ht, _, _⟩ := plan_toFile h
  exact targetName_ne ht

/-- the output never goes to the input's own name -/
theorem plan_target_differs {o : Opts} {fmt path : String} {c : Content} {te : Bool} {t : String} {k : Bool}
    (_hfmt : fmt = "xz" ∨ fmt = "lzma" ∨ fmt = "auto")
    (h : plan o fmt path c te = .toFile t k) : t ≠ path :=
  plan_target_differs' h

/-! ### axioms -/

#print axioms parseGo_fuel_mono
#print axioms parseGo_fuel_enough
#print axioms parse_dashdash
#print axioms parse_operands
#print axioms plan_stdout
#print axioms plan_keep
#print axioms plan_no_overwrite
#print axioms plan_target_differs
#print axioms targetName_roundtrip
#print axioms targetName_txz
#print axioms targetName_tlz

end GFlag
