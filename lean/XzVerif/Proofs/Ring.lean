import XzVerif.Model.Ring
import XzVerif.Proofs.RingLemmas

/-!
  Refinement of the ring-level model (Model/Ring.lean: lzma/buffer.go, decoderdict.go, encoderdict.go with
  their index arithmetic) to the list level: a buffer is "all bytes ever written" `W` plus the number `r` of
  bytes read; the array keeps the last `cap + 1` of them at position `j mod (cap + 1)`.
-/
namespace Ring

/-- abstract state of a buffer: every byte ever written and the number of bytes read / discarded -/
structure Abs where
  W : List UInt8
  r : Nat

/-- the ring `b` of capacity `cap` represents `a` -/
structure Buf.Rel (b : Buf) (a : Abs) (cap : Nat) : Prop where
  size : b.data.size = cap + 1
  rle : a.r ≤ a.W.length
  fit : a.W.length - a.r ≤ cap
  front : b.front = a.W.length % (cap + 1)
  rear : b.rear = a.r % (cap + 1)
  kept : ∀ j, j < a.W.length → a.W.length - j ≤ cap + 1 → b.data.get! (j % (cap + 1)) = a.W[j]!

/-- LZ copy at the list level: `len` times append the byte `dist` back -/
def copyMatchList (W : List UInt8) (dist : Nat) : Nat → List UInt8
  | 0 => W
  | n + 1 => copyMatchList (W ++ [W[W.length - dist]!]) dist n

/-! ## helper lemmas about the representation invariant -/

theorem Buf.Rel.len_eq {b : Buf} {a : Abs} {cap : Nat} (h : b.Rel a cap) : b.len = cap + 1 := h.size

theorem Buf.Rel.front_lt {b : Buf} {a : Abs} {cap : Nat} (h : b.Rel a cap) : b.front < cap + 1 := by
  rw [h.front]; exact Nat.mod_lt _ (by omega)

theorem Buf.Rel.rear_lt {b : Buf} {a : Abs} {cap : Nat} (h : b.Rel a cap) : b.rear < cap + 1 := by
  rw [h.rear]; exact Nat.mod_lt _ (by omega)

/-- `front` is `rear` plus the number of buffered bytes, wrapped at most once -/
theorem Buf.Rel.front_cases {b : Buf} {a : Abs} {cap : Nat} (h : b.Rel a cap) :
    (b.front = b.rear + (a.W.length - a.r) ∧ b.rear + (a.W.length - a.r) < cap + 1) ∨
    (b.front + (cap + 1) = b.rear + (a.W.length - a.r) ∧ cap + 1 ≤ b.rear + (a.W.length - a.r)) := by
  have h1 := h.rle
  have h2 := h.fit
  have h3 := h.rear_lt
  have hr := h.rear
  have key : ∀ B, a.W.length = a.r + B → B ≤ cap →
      (b.front = b.rear + B ∧ b.rear + B < cap + 1) ∨
      (b.front + (cap + 1) = b.rear + B ∧ cap + 1 ≤ b.rear + B) := by
    intro B hB hBc
    by_cases hc : b.rear + B < cap + 1
    · left
      refine ⟨?_, hc⟩
      rw [h.front, hB, mod_add_eq (cap + 1) a.r B (b.rear + B) 0] <;> omega
    · right
      refine ⟨?_, by omega⟩
      rw [h.front, hB, mod_add_eq (cap + 1) a.r B (b.rear + B - (cap + 1)) 1] <;> omega
  exact key _ (by omega) h2

theorem addIndex_eq (b : Buf) (L x n : Nat) (hlen : b.len = L) (hL : 0 < L) (hn : n ≤ L) :
    b.addIndex (x % L) n = (x + n) % L := by
  have hlt := Nat.mod_lt x hL
  unfold Buf.addIndex
  rw [hlen]
  split_ifs with hc
  · rw [mod_add_eq L x n (x % L + n - L) 1] <;> omega
  · rw [mod_add_eq L x n (x % L + n) 0] <;> omega

/-- moving `rear` forward over `k` buffered bytes -/
theorem Buf.Rel.advance_rear {b : Buf} {a : Abs} {cap : Nat} (h : b.Rel a cap) (k : Nat)
    (hk : k ≤ a.W.length - a.r) :
    Buf.Rel { b with rear := b.addIndex b.rear k } ⟨a.W, a.r + k⟩ cap := by
  have h1 := h.rle
  have h2 := h.fit
  refine ⟨h.size, by simp only; omega, by simp only; omega, h.front, ?_, h.kept⟩
  simp only
  rw [h.rear, addIndex_eq b (cap + 1) a.r k h.len_eq] <;> omega

/-- a stretch of kept bytes that does not cross the physical end of the array -/
theorem Buf.Rel.extract_eq {b : Buf} {a : Abs} {cap : Nat} (h : b.Rel a cap) (s m i : Nat)
    (hi : i = s % (cap + 1))
    (hs : s + m ≤ a.W.length) (hk : a.W.length - s ≤ cap + 1) (hnw : i + m ≤ cap + 1) :
    (b.data.extract i (i + m)).data.toList = (a.W.drop s).take m := by
  have hsz := h.size
  apply toList_eq_of_get!
  · rw [size_extract' _ _ _ (by omega), List.length_take, List.length_drop]; omega
  · intro k hk'
    rw [List.length_take, List.length_drop] at hk'
    rw [get!_extract _ _ _ _ (by omega) (by omega), getElem!_take _ _ _ (by omega), getElem!_drop]
    rw [← h.kept (s + k) (by omega) (by omega)]
    rw [mod_add_eq (cap + 1) s k (i + k) 0 (by omega) (by omega)]

/-! ## statements to prove (do not change them) -/

theorem new_rel (cap : Nat) : (Buf.new cap).Rel ⟨[], 0⟩ cap := by
  refine ⟨?_, by simp, by simp, by simp [Buf.new], by simp [Buf.new], ?_⟩
  · simp [Buf.new, size_zeros]
  · intro j hj; simp at hj

theorem buffered_eq (b : Buf) (a : Abs) (cap : Nat) (h : b.Rel a cap) : b.buffered = a.W.length - a.r := by
  have h3 := h.rear_lt
  have h4 := h.front_lt
  have h5 := h.fit
  have hl := h.len_eq
  unfold Buf.buffered
  rcases h.front_cases with ⟨h1, h2⟩ | ⟨h1, h2⟩ <;> split_ifs <;> omega

theorem available_eq (b : Buf) (a : Abs) (cap : Nat) (h : b.Rel a cap) :
    b.available = cap - (a.W.length - a.r) := by
  have h3 := h.rear_lt
  have h4 := h.front_lt
  have h5 := h.fit
  have hl := h.len_eq
  unfold Buf.available
  rcases h.front_cases with ⟨h1, h2⟩ | ⟨h1, h2⟩ <;> split_ifs <;> omega

/-- `Write` appends as many bytes as fit and reports ErrNoSpace exactly when it had to cut -/
theorem write_rel (b : Buf) (a : Abs) (cap : Nat) (h : b.Rel a cap) (p : ByteArray) :
    let n := min p.size (cap - (a.W.length - a.r))
    (b.write p).2.1 = n ∧ (b.write p).2.2 = decide (cap - (a.W.length - a.r) < p.size) ∧
    (b.write p).1.Rel ⟨a.W ++ p.data.toList.take n, a.r⟩ cap := by
  intro n
  have hav := available_eq b a cap h
  have hl := h.len_eq
  have h1 := h.rle
  have h2 := h.fit
  have h3 := h.front_lt
  have hsz := h.size
  have hf := h.front
  have hn : n = min p.size (cap - (a.W.length - a.r)) := rfl
  clear_value n
  simp only [Buf.write, hav, hl, ← hn]
  refine ⟨trivial, trivial, ?_⟩
  show Buf.Rel _ ⟨a.W ++ p.data.toList.take n, a.r⟩ cap
  have hn1 : n ≤ p.size := by omega
  have hn2 : n ≤ cap - (a.W.length - a.r) := by omega
  generalize hk : min n (cap + 1 - b.front) = k
  have hlen : (a.W ++ p.data.toList.take n).length = a.W.length + n := by
    rw [List.length_append, List.length_take, length_toList]; omega
  have hs1 : (blit b.data b.front p 0 k).size = cap + 1 := by
    rw [size_blit _ _ _ _ _ (by omega)]; exact hsz
  refine ⟨?_, by simp only [hlen]; omega, by simp only [hlen]; omega, ?_, h.rear, ?_⟩
  · simp only
    split_ifs
    · rw [size_blit _ _ _ _ _ (by omega)]; exact hs1
    · exact hs1
  · simp only [hlen]
    rw [hf, addIndex_eq b (cap + 1) a.W.length n hl] <;> omega
  · simp only [hlen]
    intro j hj hjk
    have hg1 : ∀ t, (blit b.data b.front p 0 k).get! t =
        if b.front ≤ t ∧ t < b.front + (k - 0) then p.get! (0 + (t - b.front)) else b.data.get! t :=
      fun t => get!_blit _ _ _ _ _ t (by omega) (by omega)
    have hg2 : ∀ t, (blit (blit b.data b.front p 0 k) 0 p k n).get! t =
        if 0 ≤ t ∧ t < 0 + (n - k) then p.get! (k + (t - 0)) else (blit b.data b.front p 0 k).get! t :=
      fun t => get!_blit _ _ _ _ _ t (by omega) (by omega)
    rw [getElem!_append]
    by_cases hjW : j < a.W.length
    · rw [if_pos hjW, ← h.kept j hjW (by omega)]
      rw [mod_bwd (cap + 1) a.W.length j (by omega) (by omega) (by omega), ← hf]
      split_ifs <;> simp only [hg1, hg2] <;> split_ifs <;> first | rfl | (exfalso; omega)
    · rw [if_neg hjW, getElem!_take _ _ _ (by omega), get!_toList]
      rw [mod_fwd (cap + 1) a.W.length j (by omega) (by omega) (by omega), ← hf]
      split_ifs <;> simp only [hg1, hg2] <;> split_ifs <;>
        first | (exfalso; omega) | (congr 1; omega)

theorem writeByte_rel (b : Buf) (a : Abs) (cap : Nat) (h : b.Rel a cap) (c : UInt8) :
    (a.W.length - a.r < cap → ∃ b', b.writeByte c = some b' ∧ b'.Rel ⟨a.W ++ [c], a.r⟩ cap) ∧
    (a.W.length - a.r = cap → b.writeByte c = none) := by
  have hav := available_eq b a cap h
  have hl := h.len_eq
  have h1 := h.rle
  have h2 := h.fit
  have h3 := h.front_lt
  have hsz := h.size
  have hf := h.front
  constructor
  · intro hlt
    have hna : ¬ b.available < 1 := by omega
    refine ⟨_, by simp only [Buf.writeByte, if_neg hna]; rfl, ?_⟩
    have hlen : (a.W ++ [c]).length = a.W.length + 1 := by simp
    refine ⟨?_, by simp only [hlen]; omega, by simp only [hlen]; omega, ?_, h.rear, ?_⟩
    · simp only [size_set!]; exact hsz
    · simp only [hlen]
      rw [hf, addIndex_eq b (cap + 1) a.W.length 1 hl] <;> omega
    · simp only [hlen]
      intro j hj hjk
      rw [getElem!_append, get!_set! _ _ _ _ (by omega)]
      by_cases hjW : j < a.W.length
      · rw [if_pos hjW, ← h.kept j hjW (by omega)]
        rw [mod_bwd (cap + 1) a.W.length j (by omega) (by omega) (by omega), ← hf]
        split_ifs <;> first | rfl | (exfalso; omega)
      · have : j = a.W.length := by omega
        subst this
        rw [if_neg hjW, if_pos hf.symm]; simp
  · intro heq
    have : b.available < 1 := by omega
    simp only [Buf.writeByte, if_pos this]

/-- `Peek` returns the first bytes not yet read -/
theorem peek_eq (b : Buf) (a : Abs) (cap : Nat) (h : b.Rel a cap) (l : Nat) :
    (b.peek l).data.toList = (a.W.drop a.r).take l := by
  have hb := buffered_eq b a cap h
  have hl := h.len_eq
  have h1 := h.rle
  have h2 := h.fit
  have h3 := h.rear_lt
  simp only [Buf.peek, hb, hl, ByteArray.data_append, Array.toList_append]
  have hn : (a.W.drop a.r).take l = (a.W.drop a.r).take (min l (a.W.length - a.r)) := by
    rw [List.take_eq_take_min, List.length_drop]
  rw [hn]
  generalize hn' : min l (a.W.length - a.r) = n
  generalize hk' : min n (cap + 1 - b.rear) = k
  have e1 := h.extract_eq a.r k b.rear h.rear (by omega) (by omega) (by omega)
  rw [e1]
  by_cases hc : k = n
  · subst hc
    have : (b.data.extract 0 (k - k)).data.toList = [] := by
      apply List.eq_nil_of_length_eq_zero
      rw [length_toList, ByteArray.size_extract]; omega
    rw [this, List.append_nil]
  · have hr := h.rear
    have hi : 0 = (a.r + k) % (cap + 1) := by
      rw [mod_add_eq (cap + 1) a.r k 0 1] <;> omega
    have e2 := h.extract_eq (a.r + k) (n - k) 0 hi (by omega) (by omega) (by omega)
    rw [Nat.zero_add] at e2
    rw [e2, ← List.drop_drop, ← List.take_add]
    congr 1; omega

theorem read_rel (b : Buf) (a : Abs) (cap : Nat) (h : b.Rel a cap) (l : Nat) :
    (b.read l).2.data.toList = (a.W.drop a.r).take l ∧
    (b.read l).1.Rel ⟨a.W, a.r + min l (a.W.length - a.r)⟩ cap := by
  have hp := peek_eq b a cap h l
  refine ⟨hp, ?_⟩
  have hsz : (b.peek l).size = min l (a.W.length - a.r) := by
    rw [← length_toList, hp, List.length_take, List.length_drop]
  simp only [Buf.read, hsz]
  exact h.advance_rear _ (Nat.min_le_right _ _)

theorem discard_rel (b : Buf) (a : Abs) (cap : Nat) (h : b.Rel a cap) (n : Nat) :
    (b.discard n).2.1 = min n (a.W.length - a.r) ∧ (b.discard n).2.2 = decide (a.W.length - a.r < n) ∧
    (b.discard n).1.Rel ⟨a.W, a.r + min n (a.W.length - a.r)⟩ cap := by
  have hb := buffered_eq b a cap h
  simp only [Buf.discard, hb]
  exact ⟨trivial, trivial, h.advance_rear _ (Nat.min_le_right _ _)⟩

/-- `matchLen` is sound: it never claims more than `p` has, and every byte it counts really equals the byte
    `dist` behind the read position (in the history or, for overlapping matches, in the look-ahead itself) -/
theorem matchLen_sound (b : Buf) (a : Abs) (cap : Nat) (h : b.Rel a cap) (dist : Nat) (p : ByteArray)
    (hd1 : 1 ≤ dist) (hd2 : dist ≤ a.r) (hkept : a.W.length - (a.r - dist) ≤ cap + 1)
    (hp : p.size ≤ a.W.length - a.r) :
    b.matchLen dist p ≤ p.size ∧
    ∀ k, k < b.matchLen dist p → p.get! k = a.W[a.r - dist + k]! := by
  have hl := h.len_eq
  have h1 := h.rle
  have h3 := h.rear_lt
  have hr := h.rear
  have hL : 0 < cap + 1 := by omega
  unfold Buf.matchLen
  simp only [hl]
  split_ifs with hc hn
  · -- no wrap: the match source starts at `rear - dist`
    obtain ⟨_, i2, i3, i4⟩ := prefixLen_spec p 0 b.data (b.rear - dist) (cap + 1) p.size 0 (by omega) (by omega)
    refine ⟨by omega, ?_⟩
    intro k hk
    have e := i4 k (by omega) hk
    rw [Nat.zero_add] at e
    rw [e, ← h.kept (a.r - dist + k) (by omega) (by omega)]
    have e0 : (a.r - dist) % (cap + 1) = b.rear - dist := by
      rw [mod_sub_eq0 (cap + 1) a.r dist hL (by omega), ← hr]
    rw [mod_add_eq (cap + 1) (a.r - dist) k (b.rear - dist + k) 0 (by omega) (by omega)]
  · -- the source starts before the physical beginning and the match ends there
    obtain ⟨_, i2, i3, i4⟩ :=
      prefixLen_spec p 0 b.data (cap + 1 - (dist - b.rear)) (cap + 1) p.size 0 (by omega) (by omega)
    refine ⟨by omega, ?_⟩
    intro k hk
    have e := i4 k (by omega) hk
    rw [Nat.zero_add] at e
    rw [e, ← h.kept (a.r - dist + k) (by omega) (by omega)]
    have e0 : (a.r - dist) % (cap + 1) = b.rear + (cap + 1) - dist := by
      rw [mod_sub_eq1 (cap + 1) a.r dist hL (by omega) (by omega) (by omega), ← hr]
    rw [mod_add_eq (cap + 1) (a.r - dist) k (cap + 1 - (dist - b.rear) + k) 0 (by omega) (by omega)]
  · -- the match continues at the physical beginning
    obtain ⟨_, i2, i3, i4⟩ :=
      prefixLen_spec p 0 b.data (cap + 1 - (dist - b.rear)) (cap + 1) p.size 0 (by omega) (by omega)
    generalize prefixLen p 0 b.data (cap + 1 - (dist - b.rear)) (cap + 1) p.size 0 = n1 at *
    obtain ⟨_, j2, j3, j4⟩ := prefixLen_spec p n1 b.data 0 (cap + 1) p.size 0 (by omega) (by omega)
    generalize prefixLen p n1 b.data 0 (cap + 1) p.size 0 = n2 at *
    refine ⟨by omega, ?_⟩
    intro k hk
    have e0 : (a.r - dist) % (cap + 1) = b.rear + (cap + 1) - dist := by
      rw [mod_sub_eq1 (cap + 1) a.r dist hL (by omega) (by omega) (by omega), ← hr]
    rw [← h.kept (a.r - dist + k) (by omega) (by omega)]
    by_cases hk1 : k < n1
    · have e := i4 k (by omega) hk1
      rw [Nat.zero_add] at e
      rw [e, mod_add_eq (cap + 1) (a.r - dist) k (cap + 1 - (dist - b.rear) + k) 0 (by omega) (by omega)]
    · have e := j4 (k - n1) (by omega) (by omega)
      rw [Nat.zero_add, show n1 + (k - n1) = k by omega] at e
      rw [e, mod_add_eq (cap + 1) (a.r - dist) k (k - n1) 1 (by omega) (by omega)]

/-! ### decoder dictionary -/

/-- the decoder dictionary of capacity `cap` represents the output `W` of which `r` bytes were handed out -/
structure DDict.Rel (d : DDict) (a : Abs) (cap : Nat) : Prop where
  buf : d.buf.Rel a cap
  head : d.head = a.W.length
  pos : 1 ≤ cap

/-! ### the LZ copy -/

theorem copyMatchList_length (W : List UInt8) (dist n : Nat) :
    (copyMatchList W dist n).length = W.length + n := by
  induction n generalizing W with
  | zero => rfl
  | succ n ih => rw [copyMatchList, ih, List.length_append, List.length_singleton]; omega

theorem copyMatchList_add (W : List UInt8) (dist m n : Nat) :
    copyMatchList W dist (m + n) = copyMatchList (copyMatchList W dist m) dist n := by
  induction m generalizing W with
  | zero => rw [Nat.zero_add]; rfl
  | succ m ih => rw [show m + 1 + n = (m + n) + 1 by omega, copyMatchList, ih, copyMatchList]

/-- a copy no longer than the distance takes its bytes from the old history only -/
theorem copyMatchList_short (W : List UInt8) (dist n : Nat) (hd : dist ≤ W.length) (hn : n ≤ dist) :
    copyMatchList W dist n = W ++ (W.drop (W.length - dist)).take n := by
  induction n with
  | zero => simp [copyMatchList]
  | succ n ih =>
    rw [copyMatchList_add, ih (by omega)]
    simp only [copyMatchList]
    rw [List.length_append, List.length_take, List.length_drop, List.append_assoc]
    congr 1
    rw [List.take_add_one]
    congr 1
    have hlt : W.length - dist + n < W.length := by omega
    rw [show W.length + min n (W.length - (W.length - dist)) - dist = W.length - dist + n by omega]
    rw [getElem!_append, if_pos hlt, List.getElem?_drop, List.getElem?_eq_getElem hlt,
      List.getElem!_eq_getElem?_getD, List.getElem?_eq_getElem hlt]
    rfl

theorem DDict.Rel.dictLen_eq {d : DDict} {a : Abs} {cap : Nat} (h : d.Rel a cap) :
    d.dictLen = min a.W.length cap := by
  have h1 := h.buf.size
  have h2 := h.head
  unfold DDict.dictLen Buf.cap
  split_ifs <;> omega

/-- the array index computed by `byteAt` / `writeMatch` for a distance inside the dictionary -/
theorem Buf.Rel.back_index {b : Buf} {a : Abs} {cap : Nat} (h : b.Rel a cap) (dist : Nat)
    (h1 : dist ≤ a.W.length) (h2 : dist ≤ cap + 1) :
    (if dist ≤ b.front then b.front - dist else b.front + b.len - dist) = (a.W.length - dist) % (cap + 1) := by
  have hf := h.front
  rw [h.len_eq, mod_bwd (cap + 1) a.W.length (a.W.length - dist) (by omega) (by omega) (by omega), ← hf]
  rw [show a.W.length - (a.W.length - dist) = dist by omega]

/-- the copy loop of `writeMatch` performs the LZ copy and never reaches its panic -/
theorem copyLoop_rel (cap dist : Nat) (hd1 : 1 ≤ dist) (hcap : dist ≤ cap) :
    ∀ (fuel : Nat) (b : Buf) (W : List UInt8) (r i len : Nat),
      b.Rel ⟨W, r⟩ cap → dist ≤ W.length → len ≤ cap - (W.length - r) → len ≤ fuel →
      (len = 0 ∨ i = (W.length - dist) % (cap + 1)) →
      ∃ b', DDict.copyLoop fuel b i len = some b' ∧ b'.Rel ⟨copyMatchList W dist len, r⟩ cap := by
  intro fuel
  induction fuel with
  | zero =>
    intro b W r i len h hdW hav hfuel hi
    have : len = 0 := by omega
    subst this
    exact ⟨b, by simp [DDict.copyLoop], h⟩
  | succ fuel ih =>
    intro b W r i len h hdW hav hfuel hi
    by_cases hlen : len = 0
    · subst hlen
      exact ⟨b, by simp [DDict.copyLoop], h⟩
    · have hi' : i = (W.length - dist) % (cap + 1) := by omega
      have hl := h.len_eq
      have hf := h.front
      have hfl := h.front_lt
      have h1 := h.rle
      have h2 := h.fit
      simp only at h1 h2 hf
      rw [mod_bwd (cap + 1) W.length (W.length - dist) (by omega) (by omega) (by omega), ← hf,
        show W.length - (W.length - dist) = dist by omega] at hi'
      rw [DDict.copyLoop, if_neg hlen]
      simp only [hl]
      generalize hhi : (if i ≥ b.front then cap + 1 else b.front) = hi
      generalize hi2 : (if i ≥ b.front then 0 else b.front) = i2
      generalize hn : min (hi - i) len = n
      have hn1 : 1 ≤ n := by split_ifs at hhi hi' <;> omega
      have hn2 : n ≤ dist := by split_ifs at hhi hi' <;> omega
      have hn3 : i + n ≤ cap + 1 := by split_ifs at hhi hi' <;> omega
      have hn4 : n ≤ len := by omega
      have hi3 : len - n = 0 ∨ i2 = (W.length + n - dist) % (cap + 1) := by
        by_cases hc : len - n = 0
        · exact Or.inl hc
        · right
          rw [show W.length + n - dist = W.length - dist + n by omega]
          have hmod : (W.length - dist) % (cap + 1) = i := by
            rw [mod_bwd (cap + 1) W.length (W.length - dist) (by omega) (by omega) (by omega), ← hf,
              show W.length - (W.length - dist) = dist by omega]
            exact hi'.symm
          split_ifs at hhi hi' hi2 <;>
            first
            | (exfalso; omega)
            | (rw [mod_add_eq (cap + 1) (W.length - dist) n i2 0] <;> omega)
            | (rw [mod_add_eq (cap + 1) (W.length - dist) n i2 1] <;> omega)
      have hp : (b.data.extract i (i + n)).data.toList = (W.drop (W.length - dist)).take n := by
        apply h.extract_eq (W.length - dist) n i
        · rw [mod_bwd (cap + 1) W.length (W.length - dist) (by omega) (by omega) (by omega), ← hf,
            show W.length - (W.length - dist) = dist by omega]
          exact hi'
        all_goals first | omega | (simp only; omega)
      have hps : (b.data.extract i (i + n)).size = n := by
        rw [← length_toList, hp, List.length_take, List.length_drop]; omega
      obtain ⟨w1, w2, w3⟩ := write_rel b ⟨W, r⟩ cap h (b.data.extract i (i + n))
      simp only [hps, hp] at w1 w2 w3
      rcases hw : b.write (b.data.extract i (i + n)) with ⟨b1, n1, e1⟩
      rw [hw] at w1 w2 w3
      simp only at w1 w2 w3
      have hmin : min n (cap - (W.length - r)) = n := by omega
      rw [hmin] at w3
      have he : e1 = false := by rw [w2]; simp; omega
      subst he
      simp only [Bool.false_eq_true, if_false]
      rw [List.take_take, Nat.min_self, ← copyMatchList_short W dist n hdW hn2] at w3
      obtain ⟨b', hb1, hb2⟩ := ih b1 (copyMatchList W dist n) r i2 (len - n) w3
        (by rw [copyMatchList_length]; omega) (by rw [copyMatchList_length]; omega) (by omega)
        (by rw [copyMatchList_length]; exact hi3)
      refine ⟨b', hb1, ?_⟩
      rw [← copyMatchList_add, show n + (len - n) = len by omega] at hb2
      exact hb2
theorem ddict_byteAt (d : DDict) (a : Abs) (cap : Nat) (h : d.Rel a cap) (dist : Nat) :
    d.byteAt dist = if 0 < dist ∧ dist ≤ min a.W.length cap then a.W[a.W.length - dist]! else 0 := by
  rw [DDict.byteAt, h.dictLen_eq]
  by_cases hc : 0 < dist ∧ dist ≤ min a.W.length cap
  · rw [if_pos hc, if_pos hc, h.buf.back_index dist (by omega) (by omega)]
    exact h.buf.kept _ (by omega) (by omega)
  · rw [if_neg hc, if_neg hc]

/-- `writeMatch`: the explicit panic of the copy loop is unreachable; an accepted match appends exactly the LZ
    copy; errors are reported exactly for a distance outside the dictionary, a length outside 1…273 and
    missing space -/
theorem ddict_writeMatch (d : DDict) (a : Abs) (cap : Nat) (h : d.Rel a cap) (dist len : Nat) :
    (¬ (0 < dist ∧ dist ≤ min a.W.length cap) → d.writeMatch dist len = .distRange) ∧
    ((0 < dist ∧ dist ≤ min a.W.length cap) → ¬ (0 < len ∧ len ≤ 273) → d.writeMatch dist len = .lenRange) ∧
    ((0 < dist ∧ dist ≤ min a.W.length cap) → (0 < len ∧ len ≤ 273) → cap - (a.W.length - a.r) < len →
        d.writeMatch dist len = .noSpace) ∧
    ((0 < dist ∧ dist ≤ min a.W.length cap) → (0 < len ∧ len ≤ 273) → len ≤ cap - (a.W.length - a.r) →
        ∃ d', d.writeMatch dist len = .ok d' ∧ d'.Rel ⟨copyMatchList a.W dist len, a.r⟩ cap) := by
  have hav := available_eq d.buf a cap h.buf
  have hdl := h.dictLen_eq
  have h1 := h.buf.rle
  refine ⟨?_, ?_, ?_, ?_⟩
  · intro hc
    rw [DDict.writeMatch, hdl, if_pos hc]
  · intro hc hc2
    rw [DDict.writeMatch, hdl, if_neg (fun hh => hh hc), if_pos hc2]
  · intro hc hc2 hc3
    rw [DDict.writeMatch, hdl, if_neg (fun hh => hh hc), if_neg (fun hh => hh hc2), hav, if_pos hc3]
  · intro hc hc2 hc3
    rw [DDict.writeMatch, hdl, if_neg (fun hh => hh hc), if_neg (fun hh => hh hc2), hav,
      if_neg (by omega)]
    simp only
    rw [h.buf.back_index dist (by omega) (by omega)]
    obtain ⟨b', hb1, hb2⟩ := copyLoop_rel cap dist (by omega) (by omega) (len + 1) d.buf a.W a.r
      ((a.W.length - dist) % (cap + 1)) len h.buf (by omega) hc3 (by omega) (Or.inr rfl)
    rw [hb1]
    refine ⟨_, rfl, ⟨hb2, ?_, h.pos⟩⟩
    simp only [copyMatchList_length, h.head]

theorem ddict_write (d : DDict) (a : Abs) (cap : Nat) (h : d.Rel a cap) (p : ByteArray) :
    let n := min p.size (cap - (a.W.length - a.r))
    (d.write p).2.1 = n ∧ (d.write p).1.Rel ⟨a.W ++ p.data.toList.take n, a.r⟩ cap := by
  intro n
  obtain ⟨w1, _, w3⟩ := write_rel d.buf a cap h.buf p
  refine ⟨w1, ⟨w3, ?_, h.pos⟩⟩
  show d.head + (d.buf.write p).2.1 = _
  rw [w1, h.head, List.length_append, List.length_take, length_toList]
  omega

theorem ddict_read (d : DDict) (a : Abs) (cap : Nat) (h : d.Rel a cap) (l : Nat) :
    (d.read l).2.data.toList = (a.W.drop a.r).take l ∧
    (d.read l).1.Rel ⟨a.W, a.r + min l (a.W.length - a.r)⟩ cap := by
  obtain ⟨r1, r2⟩ := read_rel d.buf a cap h.buf l
  exact ⟨r1, ⟨r2, h.head, h.pos⟩⟩

/-! ### encoder dictionary: `W` = everything written into it, `r` = `head` = bytes already encoded -/

structure EDict.Rel (d : EDict) (a : Abs) (dictCap bufSize : Nat) : Prop where
  buf : d.buf.Rel a (dictCap + bufSize)
  head : d.head = a.r
  capacity : d.capacity = dictCap
  room : (a.W.length - a.r) + min a.r dictCap ≤ dictCap + bufSize

theorem EDict.Rel.dictLen_eq {d : EDict} {a : Abs} {dc bs : Nat} (h : d.Rel a dc bs) :
    d.dictLen = min a.r dc := by
  have h1 := h.head
  have h2 := h.capacity
  unfold EDict.dictLen
  split_ifs <;> omega

theorem EDict.Rel.len_eq {d : EDict} {a : Abs} {dc bs : Nat} (h : d.Rel a dc bs) :
    d.len = min (dc + bs - (a.W.length - a.r)) a.r := by
  rw [EDict.len, available_eq d.buf a _ h.buf, h.head]

/-- the array index `dist` bytes behind the read position -/
theorem Buf.Rel.back_index_rear {b : Buf} {a : Abs} {cap : Nat} (h : b.Rel a cap) (dist : Nat)
    (h1 : dist ≤ a.r) (h2 : dist ≤ cap + 1) :
    (if dist ≤ b.rear then b.rear - dist else b.rear + b.len - dist) = (a.r - dist) % (cap + 1) := by
  have hf := h.rear
  rw [h.len_eq, mod_bwd (cap + 1) a.r (a.r - dist) (by omega) (by omega) (by omega), ← hf]
  rw [show a.r - (a.r - dist) = dist by omega]

/-- `ByteAt(dist)` for a distance inside the dictionary window is the byte `dist` behind the read position -/
theorem edict_byteAt (d : EDict) (a : Abs) (dc bs : Nat) (h : d.Rel a dc bs) (dist : Nat)
    (h1 : 0 < dist) (h2 : dist ≤ min a.r dc) : d.byteAt dist = a.W[a.r - dist]! := by
  have hr := h.room
  have hle := h.buf.rle
  have hc : 0 < dist ∧ dist ≤ d.len := by rw [h.len_eq]; omega
  rw [EDict.byteAt, if_pos hc, h.buf.back_index_rear dist (by omega) (by omega)]
  exact h.buf.kept _ (by omega) (by omega)

/-- `Write` takes what fits beside the look-ahead and the dictionary window and keeps the relation -/
theorem edict_write (d : EDict) (a : Abs) (dc bs : Nat) (h : d.Rel a dc bs) (p : ByteArray) :
    let n := min p.size (dc + bs - (a.W.length - a.r) - min a.r dc)
    (d.write p).2.1 = n ∧ (d.write p).2.2 = decide (dc + bs - (a.W.length - a.r) - min a.r dc < p.size) ∧
    (d.write p).1.Rel ⟨a.W ++ p.data.toList.take n, a.r⟩ dc bs := by
  intro n
  have hn : n = min p.size (dc + bs - (a.W.length - a.r) - min a.r dc) := rfl
  clear_value n
  have hr := h.room
  have hle := h.buf.rle
  have hav : d.available = dc + bs - (a.W.length - a.r) - min a.r dc := by
    rw [EDict.available, available_eq d.buf a _ h.buf, h.dictLen_eq]
  generalize hq : (if p.size > d.available then p.extract 0 d.available else p) = q
  have hqs : q.size = n := by
    rw [← hq]; split_ifs
    · rw [ByteArray.size_extract]; omega
    · omega
  have hql : q.data.toList.take n = p.data.toList.take n := by
    rw [← hq]; split_ifs
    · rw [ByteArray.data_extract, Array.toList_extract, List.take_take]
      simp only [List.drop_zero, Nat.sub_zero]
      congr 1; omega
    · rfl
  obtain ⟨w1, w2, w3⟩ := write_rel d.buf a _ h.buf q
  simp only [hqs] at w1 w2 w3
  have hmin : min n (dc + bs - (a.W.length - a.r)) = n := by omega
  rw [hmin] at w1 w3
  rw [hql] at w3
  simp only [EDict.write, hq]
  refine ⟨w1, ?_, ⟨w3, h.head, h.capacity, ?_⟩⟩
  · rw [w2, hav]; 
    by_cases hc : dc + bs - (a.W.length - a.r) - min a.r dc < p.size <;> simp [hc] <;> omega
  · simp only [List.length_append, List.length_take, length_toList]; omega

/-- `Discard(n)` of buffered bytes moves them into the history and hands exactly them to the match finder -/
theorem edict_discard (d : EDict) (a : Abs) (dc bs : Nat) (h : d.Rel a dc bs) (n : Nat)
    (hn : n ≤ a.W.length - a.r) (hn2 : n ≤ 273) :
    ∃ d' p, d.discard n = some (d', p) ∧ p.data.toList = (a.W.drop a.r).take n ∧ d'.Rel ⟨a.W, a.r + n⟩ dc bs := by
  have hr := h.room
  have hle := h.buf.rle
  obtain ⟨r1, r2⟩ := read_rel d.buf a _ h.buf n
  have hsz : (d.buf.read n).2.size = n := by
    rw [← length_toList, r1, List.length_take, List.length_drop]; omega
  rw [Nat.min_eq_left hn] at r2
  refine ⟨{ d with buf := (d.buf.read n).1, head := d.head + n }, (d.buf.read n).2, ?_, r1, ?_⟩
  · simp only [EDict.discard, if_neg (show ¬ n > 273 by omega), if_neg (show ¬ (d.buf.read n).2.size < n by omega)]
  · exact ⟨r2, by simp only [h.head], h.capacity, by simp only; omega⟩

/-- `CopyN(n)` for `n ≤ Len()` returns the last `n` bytes before the read position (the raw-chunk copy) -/
theorem edict_copyN (d : EDict) (a : Abs) (dc bs : Nat) (h : d.Rel a dc bs) (n : Nat)
    (hn : n ≤ min (dc + bs - (a.W.length - a.r)) a.r) :
    (d.copyN n).1.data.toList = (a.W.take a.r).drop (a.r - n) ∧ (d.copyN n).2 = false := by
  have hle := h.buf.rle
  have hfit := h.buf.fit
  have hrl := h.buf.rear_lt
  have hr := h.buf.rear
  have hl := h.buf.len_eq
  have hL : 0 < dc + bs + 1 := by omega
  by_cases h0 : n = 0
  · subst h0
    simp [EDict.copyN]
  · simp only [EDict.copyN, if_neg h0, h.len_eq, hl]
    refine ⟨?_, by simp; omega⟩
    rw [Nat.min_eq_left hn, List.drop_take, show a.r - (a.r - n) = n by omega]
    split_ifs with hc
    · have e := h.buf.extract_eq (a.r - n) n (d.buf.rear - n)
        (by rw [mod_sub_eq0 _ _ _ hL (by omega), ← hr]) (by omega) (by omega) (by omega)
      rw [show d.buf.rear - n + n = d.buf.rear by omega] at e
      exact e
    · have e1 := h.buf.extract_eq (a.r - n) (n - d.buf.rear) (d.buf.rear + (dc + bs + 1) - n)
        (by rw [mod_sub_eq1 _ _ _ hL (by omega) (by omega) (by omega), ← hr]) (by omega) (by omega) (by omega)
      rw [show d.buf.rear + (dc + bs + 1) - n + (n - d.buf.rear) = dc + bs + 1 by omega] at e1
      have e2 := h.buf.extract_eq (a.r - d.buf.rear) d.buf.rear 0
        (by rw [mod_sub_eq0 _ _ _ hL (by omega), ← hr]; omega) (by omega) (by omega) (by omega)
      rw [Nat.zero_add] at e2
      rw [ByteArray.data_append, Array.toList_append, e1, e2]
      rw [show a.r - d.buf.rear = (a.r - n) + (n - d.buf.rear) by omega, ← List.drop_drop, ← List.take_add]
      congr 1; omega

/-- the look-ahead based `matchLen` used by both match finders is sound for every distance in the window -/
theorem edict_matchLen_sound (d : EDict) (a : Abs) (dc bs : Nat) (h : d.Rel a dc bs) (dist l : Nat)
    (h1 : 1 ≤ dist) (h2 : dist ≤ min a.r dc) :
    let p := d.buf.peek l
    d.buf.matchLen dist p ≤ p.size ∧
    ∀ k, k < d.buf.matchLen dist p → p.get! k = a.W[a.r - dist + k]! := by
  intro p
  have hr := h.room
  have hle := h.buf.rle
  have hp := peek_eq d.buf a _ h.buf l
  have hsz : p.size ≤ a.W.length - a.r := by
    rw [← length_toList]
    show (d.buf.peek l).data.toList.length ≤ _
    rw [hp, List.length_take, List.length_drop]; omega
  exact matchLen_sound d.buf a _ h.buf dist p h1 (by omega) (by omega) hsz

end Ring

#print axioms Ring.new_rel
#print axioms Ring.buffered_eq
#print axioms Ring.available_eq
#print axioms Ring.write_rel
#print axioms Ring.writeByte_rel
#print axioms Ring.peek_eq
#print axioms Ring.read_rel
#print axioms Ring.discard_rel
#print axioms Ring.matchLen_sound
#print axioms Ring.ddict_byteAt
#print axioms Ring.ddict_writeMatch
#print axioms Ring.ddict_write
#print axioms Ring.ddict_read
#print axioms Ring.edict_byteAt
#print axioms Ring.edict_write
#print axioms Ring.edict_discard
#print axioms Ring.edict_copyN
#print axioms Ring.edict_matchLen_sound
