import XzVerif.Proofs.RunOps
import XzVerif.Proofs.RunStep

/-!
  Generic version of Proofs/RunStep.lean: one operation of the LZMA2 writer inside a run of one byte value for ANY
  match finder whose proposals inside a run are known (`RunSpec`: a steady distance `rho + 1` with the full
  look-ahead from history length `h0` on, some distance ≤ 4 with the full look-ahead before that and at the end of
  a chunk, anything reaching the physical end of the ring when the match source hits it).  The irregular
  operations are counted in bits: 126 for an operation without direct bits and at most 18 adaptive decisions
  (every operation with a distance ≤ 4), 203 for an arbitrary one.
-/

set_option linter.unusedSimpArgs false
set_option linter.unusedVariables false
set_option maxRecDepth 8000

namespace RunCost
open Lzma Rc W2

variable {σ : Type}

/-- all bytes equal `b` -/
def AllB (b : UInt8) (a : ByteArray) : Prop := ∀ i, i < a.size → a.get! i = b

/-- the dictionary holds nothing but `b` -/
structure RunA (b : UInt8) (w : WSt σ) : Prop where
  hist : AllB b w.hist
  look : AllB b w.look

/-! ### cheap operations -/

/-- operations without direct bits and with at most 18 adaptive decisions -/
def Cheap : RawOp → Prop
  | .lit _ => True
  | .mtch _ d => d < 4
  | .rep _ _ => True
  | .shortRep => True

theorem cheap_count (cx : Ctx) (op : RawOp) (h : Cheap op) : nA (opEnc cx op) ≤ 18 ∧ nD (opEnc cx op) = 0 := by
  cases op with
  | lit s =>
    simp only [opEnc]
    split <;> simp [litMatchedEnc_count, litPlainEnc_count]
  | mtch len d =>
    have h1 := lenEnc_count aLen cx.ps (len - 2)
    have hd : d < 4 := h
    have hs : posSlot d = d := by unfold posSlot; rw [if_pos hd]
    have h2 : nA (distEnc d (len - 2)) = 6 ∧ nD (distEnc d (len - 2)) = 0 := by
      unfold distEnc
      simp only [hs, if_pos hd]
      exact treeEnc_count _ _ _
    simp only [opEnc, nA_adaptive, nD_adaptive, nA_append, nD_append]
    omega
  | shortRep => simp [opEnc]
  | rep g len =>
    have h1 := lenEnc_count aRepLen cx.ps (len - 2)
    simp only [opEnc, nA_append, nD_append]
    rcases g with _ | _ | _ | g <;> simp <;> omega

theorem cheap_cost (x y : Nat) (hx : x ≤ 18) (hy : y = 0) : 128 ^ x * 3 ^ y ≤ 2 ^ 126 := by
  subst hy
  have : (128 : Nat) ^ 18 = 2 ^ 126 := by decide +kernel
  rw [← this]
  simpa using Nat.pow_le_pow_right (by omega : 0 < 128) hx

theorem any_cost (x y : Nat) (hx : x ≤ 23) (hy : y ≤ 26) : 128 ^ x * 3 ^ y ≤ 2 ^ 203 := g_bound x y hx hy

/-- a proposal with a distance of at most 4 is classified as a cheap operation -/
theorem classify_cheap (s : Lzma.St) (dist n : Nat) (hd : dist ≤ 4) : Cheap (classify s (.mtch dist n)) := by
  unfold classify
  simp only
  split_ifs <;> first | trivial | (show dist - 1 < 4; omega)

/-- a proposal of length 1 is classified as a cheap operation -/
theorem classify_cheap1 (c : Cfg) (hist look : ByteArray) (s : Lzma.St) (g : GoOp)
    (hg : GoOpOk' c hist look s g) (hlen : g.len ≤ 1) : Cheap (classify s g) := by
  cases g with
  | lit b => trivial
  | mtch dist n =>
    obtain ⟨_, _, _, _, h5, _⟩ := hg
    have hn : n ≤ 1 := hlen
    have h5' : n = 1 ∧ dist - 1 = s.r0 := by
      rcases h5 with h | h
      · omega
      · exact h
    unfold classify
    simp only
    rw [if_pos h5'.2, if_pos h5'.1]
    trivial

/-! ### the cost invariant of the open chunk, irregular operations counted in bits -/

structure LocG (c : Cfg) (dbt : Lzma.St → Nat → Nat) (w : WSt σ) (X E A : Nat) : Prop where
  li : Enc.init.range * S w.tbl * LE ^ X * 256 ^ w.digits ≤ w.e.range * S w.snapTbl * KE ^ X * 2 ^ E * 256
  x : X * 273 ≤ 14 * (w.hist.size - w.start)
  y : E + 126 * dbt w.s w.hist.size ≤ 455 * (w.hist.size / Lc c - w.start / Lc c) + 126 * dbt w.snapS w.start + A
  yf : E ≤ 455 * (w.hist.size / Lc c - w.start / Lc c) + 126 * dbt w.snapS w.start + 126
  tsz : 1856 ≤ w.tbl.size

/-- potential part after an operation whose decisions cost at most `2^k` -/
theorem li_cost (c : Cfg) (w w' : WSt σ) (g : GoOp) (hi : Inv c w) (k : Nat)
    (hk : 128 ^ nA (opEnc (w.ctx c) (classify w.s g)) * 3 ^ nD (opEnc (w.ctx c) (classify w.s g)) ≤ 2 ^ k)
    (h : encodeOp c w g = .ok w') (hsn : w'.snapTbl = w.snapTbl) {X E : Nat}
    (hli : Enc.init.range * S w.tbl * LE ^ X * 256 ^ w.digits ≤ w.e.range * S w.snapTbl * KE ^ X * 2 ^ E * 256) :
    Enc.init.range * S w'.tbl * LE ^ X * 256 ^ w'.digits ≤
      w'.e.range * S w'.snapTbl * KE ^ X * 2 ^ (E + k) * 256 := by
  obtain ⟨_, ht, hr, hd⟩ := encodeOp_ok c w w' g h
  generalize opEnc (w.ctx c) (classify w.s g) = π at *
  have hpp := path_pot_any π w.tbl w.e hi.tblok hi.erest
  have hdig := digits_eq w hi.eout
  rw [ht, hr, hd, hsn]
  rw [hdig] at hli
  generalize (w.e.encodeAll (toDecns pm w.tbl π)) = E' at *
  have hpos : 0 < w.e.range * S w.tbl * 256 ^ (w.body.size + w.e.digits) :=
    Nat.mul_pos (Nat.mul_pos (Nat.lt_of_lt_of_le (by decide) hi.erest.rlo) (S_pos _ hi.tblok))
      (Nat.pow_pos (by omega))
  have h2 : w.e.range * S (tblAfter w.tbl π) * 256 ^ (w.body.size + E'.digits) ≤
      E'.range * S w.tbl * 2 ^ k * 256 ^ (w.body.size + w.e.digits) := by
    rw [Nat.pow_add, Nat.pow_add]
    calc w.e.range * S (tblAfter w.tbl π) * (256 ^ w.body.size * 256 ^ E'.digits)
        = (w.e.range * S (tblAfter w.tbl π) * 1 * 256 ^ E'.digits) * 256 ^ w.body.size := by ring
      _ ≤ (E'.range * S w.tbl * (128 ^ nA π * 3 ^ nD π) * 256 ^ w.e.digits) * 256 ^ w.body.size :=
          Nat.mul_le_mul_right _ hpp
      _ ≤ (E'.range * S w.tbl * 2 ^ k * 256 ^ w.e.digits) * 256 ^ w.body.size :=
          Nat.mul_le_mul_right _ (Nat.mul_le_mul_right _ (Nat.mul_le_mul_left _ hk))
      _ = _ := by ring
  have h1 : (Enc.init.range * LE ^ X) * S w.tbl * 256 ^ (w.body.size + w.e.digits) ≤
      w.e.range * (S w.snapTbl * KE ^ X * 2 ^ E * 256) := by
    calc _ = Enc.init.range * S w.tbl * LE ^ X * 256 ^ (w.body.size + w.e.digits) := by ring
      _ ≤ _ := hli
      _ = _ := by ring
  have := comb _ _ _ _ _ _ _ _ _ hpos h1 h2
  calc _ = Enc.init.range * LE ^ X * S (tblAfter w.tbl π) * 256 ^ (w.body.size + E'.digits) := by ring
    _ ≤ _ := this
    _ = _ := by rw [Nat.pow_add]; ring

/-- potential part after the steady-state operation -/
theorem li_regG (c : Cfg) (w w' : WSt σ) (g : GoOp) (hi : Inv c w) (hcl : classify w.s g = .rep 0 273)
    (hst : w.s.st = 11) (hps : (w.ctx c).ps < 16) (htsz : 1856 ≤ w.tbl.size)
    (h : encodeOp c w g = .ok w') (hsn : w'.snapTbl = w.snapTbl) {X E : Nat}
    (hli : Enc.init.range * S w.tbl * LE ^ X * 256 ^ w.digits ≤ w.e.range * S w.snapTbl * KE ^ X * 2 ^ E * 256) :
    Enc.init.range * S w'.tbl * LE ^ (X + 14) * 256 ^ w'.digits ≤
      w'.e.range * S w'.snapTbl * KE ^ (X + 14) * 2 ^ E * 256 := by
  have hG : (2 : Nat) ^ E = (2 ^ E) ^ 1 := by rw [Nat.pow_one]
  obtain ⟨_, ht, hr, hd⟩ := encodeOp_ok c w w' g h
  rw [hcl] at ht hr hd
  obtain ⟨hexp, hlen⟩ := reg_path (w.ctx c) hst hps
  generalize opEnc (w.ctx c) (.rep 0 273) = π at *
  have hpp := path_pot_exp π w.tbl w.e hi.tblok hi.erest (expPath_mono hexp htsz)
  rw [hlen] at hpp
  have hdig := digits_eq w hi.eout
  rw [ht, hr, hd, hsn]
  rw [hdig] at hli
  generalize (w.e.encodeAll (toDecns pm w.tbl π)) = E' at *
  have hpos : 0 < w.e.range * S w.tbl * 256 ^ (w.body.size + w.e.digits) :=
    Nat.mul_pos (Nat.mul_pos (Nat.lt_of_lt_of_le (by decide) hi.erest.rlo) (S_pos _ hi.tblok))
      (Nat.pow_pos (by omega))
  have h2 : w.e.range * (S (tblAfter w.tbl π) * LE ^ 14) * 256 ^ (w.body.size + E'.digits) ≤
      E'.range * S w.tbl * KE ^ 14 * 256 ^ (w.body.size + w.e.digits) := by
    rw [Nat.pow_add, Nat.pow_add]
    calc w.e.range * (S (tblAfter w.tbl π) * LE ^ 14) * (256 ^ w.body.size * 256 ^ E'.digits)
        = (w.e.range * S (tblAfter w.tbl π) * LE ^ 14 * 256 ^ E'.digits) * 256 ^ w.body.size := by ring
      _ ≤ (E'.range * S w.tbl * KE ^ 14 * 256 ^ w.e.digits) * 256 ^ w.body.size :=
          Nat.mul_le_mul_right _ hpp
      _ = _ := by ring
  have h1 : (Enc.init.range * LE ^ X) * S w.tbl * 256 ^ (w.body.size + w.e.digits) ≤
      w.e.range * (S w.snapTbl * KE ^ X * 2 ^ E * 256) := by
    calc _ = Enc.init.range * S w.tbl * LE ^ X * 256 ^ (w.body.size + w.e.digits) := by ring
      _ ≤ _ := hli
      _ = _ := by ring
  have := comb _ _ _ _ _ _ _ _ _ hpos h1 h2
  calc _ = Enc.init.range * LE ^ X * (S (tblAfter w.tbl π) * LE ^ 14) * 256 ^ (w.body.size + E'.digits) := by
        rw [Nat.pow_add]; ring
    _ ≤ _ := this
    _ = _ := by rw [Nat.pow_add]; ring

/-! ### what has to be known about the match finder -/

/-- the proposals of a match finder inside a run -/
structure RunSpec (c : Cfg) (b : UInt8) (M : Matcher σ) (I : σ → ByteArray → ByteArray → Prop) (rho h0 : Nat) :
    Prop where
  rho_lt : rho < 4
  h0_pos : 1 ≤ h0
  h0_le : h0 ≤ 3
  /-- steady state: distance `rho + 1`, 273 bytes -/
  p1 : ∀ (m : σ) (hist look : ByteArray) (s : Lzma.St), I m hist look → AllB b hist → AllB b look →
    h0 ≤ hist.size → 273 ≤ look.size → look.size + min hist.size c.dictCap ≤ c.dictCap + c.bufSize →
    (hist.size % Lc c = 0 ∨ hist.size % Lc c + 273 ≤ Lc c + 1) →
    (M.next m hist look s).1 = .mtch (rho + 1) 273
  /-- otherwise: the whole look-ahead at a distance of at most 4 -/
  p2 : ∀ (m : σ) (hist look : ByteArray) (s : Lzma.St), I m hist look → AllB b hist → AllB b look →
    1 ≤ hist.size → 2 ≤ look.size → look.size + min hist.size c.dictCap ≤ c.dictCap + c.bufSize →
    (hist.size % Lc c = 0 ∨ hist.size % Lc c + min 273 look.size ≤ Lc c + 1) →
    ∃ dist, dist ≤ 4 ∧ (M.next m hist look s).1 = .mtch dist (min 273 look.size)
  /-- the match source hits the physical end of the ring: some match reaching at least the end of the array -/
  p3 : ∀ (m : σ) (hist look : ByteArray) (s : Lzma.St), I m hist look → AllB b hist → AllB b look →
    1 ≤ hist.size → 1 ≤ look.size → look.size + min hist.size c.dictCap ≤ c.dictCap + c.bufSize →
    1 ≤ hist.size % Lc c → Lc c + 1 < hist.size % Lc c + min 273 look.size →
    ∃ dist n, (M.next m hist look s).1 = .mtch dist n ∧ Lc c + 1 - hist.size % Lc c ≤ n

/-- irregular operations still to come (generic form of `dbt`) -/
def dbtG (rho h0 : Nat) (s : Lzma.St) (hs : Nat) : Nat :=
  if hs = 0 then (if h0 ≤ 1 then 3 else 4) else if hs < h0 then 3
  else if s.r0 ≠ rho then 2 else if s.st = 11 then 0 else if 7 ≤ s.st then 1 else 2

/-- the debt of the initial state -/
def D0 (h0 : Nat) : Nat := if h0 ≤ 1 then 3 else 4

theorem dbtG_init (rho h0 : Nat) (s : Lzma.St) : dbtG rho h0 s 0 = D0 h0 := by
  unfold dbtG D0; rw [if_pos rfl]

theorem dbtG_le4 (rho h0 : Nat) (s : Lzma.St) (hs : Nat) : dbtG rho h0 s hs ≤ 4 := by
  unfold dbtG; split_ifs <;> omega

theorem dbtG_pos (rho h0 : Nat) (s : Lzma.St) (hs : Nat) (h : 1 ≤ hs) : dbtG rho h0 s hs + 1 ≤ D0 h0 := by
  unfold dbtG D0
  rw [if_neg (by omega)]
  split_ifs <;> omega

theorem dbtG_le2 (rho h0 : Nat) (s : Lzma.St) (hs : Nat) (h : h0 ≤ hs) (h1 : 1 ≤ hs) : dbtG rho h0 s hs ≤ 2 := by
  unfold dbtG
  rw [if_neg (by omega), if_neg (by omega)]
  split_ifs <;> omega

theorem dbtG_zero (rho h0 : Nat) (s : Lzma.St) (hs : Nat) (h : h0 ≤ hs) (h1 : 1 ≤ hs) (hr : s.r0 = rho)
    (hst : s.st = 11) : dbtG rho h0 s hs = 0 := by
  unfold dbtG
  rw [if_neg (by omega), if_neg (by omega), if_neg (by omega), if_pos hst]

theorem dbtG_r0 (rho h0 : Nat) (s : Lzma.St) (hs : Nat) (h : h0 ≤ hs) (h1 : 1 ≤ hs) (hr : s.r0 ≠ rho) :
    dbtG rho h0 s hs = 2 := by
  unfold dbtG
  rw [if_neg (by omega), if_neg (by omega), if_pos hr]

theorem dbtG_lit (rho h0 : Nat) (s : Lzma.St) (hs : Nat) (h : h0 ≤ hs) (h1 : 1 ≤ hs) (hr : s.r0 = rho)
    (hst : s.st < 7) : dbtG rho h0 s hs = 2 := by
  unfold dbtG
  rw [if_neg (by omega), if_neg (by omega), if_neg (by omega), if_neg (by omega), if_neg (by omega)]

theorem dbtG_mid (rho h0 : Nat) (s : Lzma.St) (hs : Nat) (h : h0 ≤ hs) (h1 : 1 ≤ hs) (hr : s.r0 = rho)
    (h7 : 7 ≤ s.st) (hst : s.st ≠ 11) : dbtG rho h0 s hs = 1 := by
  unfold dbtG
  rw [if_neg (by omega), if_neg (by omega), if_neg (by omega), if_neg hst, if_pos h7]

theorem dbtG_ge7 (rho h0 : Nat) (s : Lzma.St) (hs : Nat) (h : h0 ≤ hs) (h1 : 1 ≤ hs) (hr : s.r0 = rho)
    (h7 : 7 ≤ s.st) : dbtG rho h0 s hs ≤ 1 := by
  unfold dbtG
  rw [if_neg (by omega), if_neg (by omega), if_neg (by omega)]
  split_ifs <;> omega

theorem dbtG_small (rho h0 : Nat) (s : Lzma.St) (hs : Nat) (h1 : 1 ≤ hs) (h : hs < h0) : dbtG rho h0 s hs = 3 := by
  unfold dbtG
  rw [if_neg (by omega), if_pos h]

/-- the proposal `(rho + 1, N)` with `rep0 = rho` is `rep0 N` -/
theorem classify_rep0G (s : Lzma.St) (rho N : Nat) (hN : 2 ≤ N) (hr : s.r0 = rho) :
    classify s (.mtch (rho + 1) N) = .rep 0 N := by
  unfold classify
  simp only [Nat.add_sub_cancel]
  rw [if_pos hr.symm, if_neg (by omega)]

/-- the proposal `(rho + 1, N)` with `rep0 ≠ rho` makes `rep0 = rho` and leaves the literal states -/
theorem classify_fixG (s : Lzma.St) (rho N : Nat) (hr : s.r0 ≠ rho) :
    (s.apply (classify s (.mtch (rho + 1) N))).r0 = rho ∧ 7 ≤ (s.apply (classify s (.mtch (rho + 1) N))).st := by
  unfold classify
  simp only [Nat.add_sub_cancel]
  rw [if_neg (fun h => hr h.symm)]
  have hu : ∀ x, 7 ≤ updRep x := by intro x; unfold updRep; split <;> omega
  have hm : ∀ x, 7 ≤ updMatch x := by intro x; unfold updMatch; split <;> omega
  by_cases h1 : rho = s.r1
  · rw [if_pos h1]; exact ⟨h1.symm, hu _⟩
  · rw [if_neg h1]
    by_cases h2 : rho = s.r2
    · rw [if_pos h2]; exact ⟨h2.symm, hu _⟩
    · rw [if_neg h2]
      by_cases h3 : rho = s.r3
      · rw [if_pos h3]; exact ⟨h3.symm, hu _⟩
      · rw [if_neg h3]; exact ⟨rfl, hm _⟩

/-! ### one operation -/

/-- what the chunk-level part of the proof needs of one operation -/
def OpStep (c : Cfg) (b : UInt8) (M : Matcher σ) (I : σ → ByteArray → ByteArray → Prop)
    (dbt : Lzma.St → Nat → Nat) : Prop :=
  ∀ (w w' : WSt σ) (X E : Nat), InvI c I w → RunA b w → 1 ≤ w.look.size →
    w.digits + 4 + Gen.lzma_opLenMargin ≤ Gen.lzma_maxCompressed → LocG c dbt w X E 0 →
    encodeOp c { w with m := (M.next w.m w.hist w.look w.s).2 } (M.next w.m w.hist w.look w.s).1 = .ok w' →
    RunA b w' ∧ ∃ X' E', LocG c dbt w' X' E' 0 ∨ (w.look.size < 273 ∧ w'.look.size = 0 ∧ LocG c dbt w' X' E' 504)

theorem x_stepG (X h s : Nat) (hx : X * 273 ≤ 14 * (h - s)) (hs : s ≤ h) :
    (X + 14) * 273 ≤ 14 * (h + 273 - s) := by omega

/-- **one operation** of the writer inside a run, for a match finder with known proposals -/
theorem opstepG (c : Cfg) (hc : CfgOk c) (b : UInt8) (M : Matcher σ) (I : σ → ByteArray → ByteArray → Prop)
    (hMI : MatcherInv c M I) (rho h0 : Nat) (hsp : RunSpec c b M I rho h0) :
    OpStep c b M I (dbtG rho h0) := by
  intro w w' X E hi hb hl hadm hloc hres
  have hMI' := matcherInv' hMI
  have hc' := cfgOk' hc
  have hg := hMI'.ok w.m w.hist w.look w.s hi.sync hl hi.space
  have hi1 := hi.toInv.setM (M.next w.m w.hist w.look w.s).2
  generalize hgg : (M.next w.m w.hist w.look w.s).1 = g at *
  have hop := encodeOp_spec c hc' _ g hi1 hg hadm
  rw [hres] at hop
  obtain ⟨hi', hf, hlk, _, hh', hl'⟩ := hop
  have hh'' : w'.hist = w.hist ++ w.look.extract 0 g.len := hh'
  have hl'' : w'.look = w.look.extract g.len w.look.size := hl'
  obtain ⟨_, hlen1, hlen2⟩ := goOp_encodable c hc' w.hist w.look w.s g hg
  have hwf := (classify_opOk c hc' w.hist w.look w.s g hg).1
  have hhs : w'.hist.size = w.hist.size + g.len := by
    rw [hh'', ByteArray.size_append, ByteArray.size_extract]; omega
  have hls : w'.look.size = w.look.size - g.len := by
    rw [hl'', ByteArray.size_extract]; omega
  have hbuf : 273 ≤ c.bufSize := hc.2.2.2.2
  have hLpos : 0 < Lc c := by unfold Lc; omega
  have hL3 : 275 ≤ Lc c := by have := hc.2.2.1; unfold Lc; omega
  have hsn : w'.snapTbl = w.snapTbl := hf.snapTbl
  have hss : w'.snapS = w.snapS := hf.snapS
  have hstart : w'.start = w.start := hf.start
  have hs0 := hi.start
  have hmono : w.hist.size / Lc c ≤ w'.hist.size / Lc c := Nat.div_le_div_right (by omega)
  have hmono0 : w.start / Lc c ≤ w.hist.size / Lc c := Nat.div_le_div_right hs0
  obtain ⟨hsapp, htbl, _, _⟩ := encodeOp_ok c _ w' g hres
  have hsapp' : w'.s = w.s.apply (classify w.s g) := hsapp
  have htsz' : 1856 ≤ w'.tbl.size := by rw [htbl, tblAfter_size]; exact hloc.tsz
  -- the bytes
  have hb' : RunA b w' := by
    constructor
    · intro i hi2
      rw [hh'']
      by_cases hlt : i < w.hist.size
      · rw [Lzma2.get!_append_left hlt]; exact hb.hist i hlt
      · rw [hhs] at hi2
        rw [show i = w.hist.size + (i - w.hist.size) by omega, Lzma2.get!_append_right,
          get!_extract0 _ _ _ (by omega)]
        exact hb.look _ (by omega)
    · intro i hi2
      rw [hls] at hi2
      rw [hl'', Ring.get!_extract w.look g.len w.look.size i (Nat.le_refl _) (by omega)]
      exact hb.look _ (by omega)
  refine ⟨hb', ?_⟩
  have hcntany := opEnc_count_le (({ w with m := (M.next w.m w.hist w.look w.s).2 } : WSt σ).ctx c)
    (classify w.s g) hwf
  have hany := li_cost c _ w' g hi1 203 (any_cost _ _ hcntany.1 hcntany.2) hres hsn hloc.li
  have hcheap : Cheap (classify w.s g) →
      Enc.init.range * S w'.tbl * LE ^ X * 256 ^ w'.digits ≤
        w'.e.range * S w'.snapTbl * KE ^ X * 2 ^ (E + 126) * 256 := by
    intro hch
    have hcnt := cheap_count (({ w with m := (M.next w.m w.hist w.look w.s).2 } : WSt σ).ctx c)
      (classify w.s g) hch
    exact li_cost c _ w' g hi1 126 (cheap_cost _ _ hcnt.1 hcnt.2) hres hsn hloc.li
  have hy := hloc.y
  have hyf := hloc.yf
  have hx := hloc.x
  have hdpos := dbtG_pos rho h0 w'.s w'.hist.size (by omega)
  have hD4 : D0 h0 ≤ 4 := by unfold D0; split <;> omega
  -- a cheap irregular operation whose debt decreases
  have irrC : Cheap (classify w.s g) →
      (dbtG rho h0 w'.s w'.hist.size + 1 ≤ dbtG rho h0 w.s w.hist.size ∨
        (w.look.size < 273 ∧ w'.look.size = 0)) →
      ∃ X' E', LocG c (dbtG rho h0) w' X' E' 0 ∨
        (w.look.size < 273 ∧ w'.look.size = 0 ∧ LocG c (dbtG rho h0) w' X' E' 504) := by
    intro hch hcase
    refine ⟨X, E + 126, ?_⟩
    rcases hcase with hcase | ⟨h1, h2⟩
    · left
      refine ⟨hcheap hch, by rw [hstart]; omega, ?_, ?_, htsz'⟩
      · rw [hstart, hss]; omega
      · rw [hstart, hss]; omega
    · right
      refine ⟨h1, h2, hcheap hch, by rw [hstart]; omega, ?_, ?_, htsz'⟩
      · rw [hstart, hss]; omega
      · rw [hstart, hss]; omega
  by_cases hh0 : w.hist.size = 0
  · -- the very first operation: a literal
    have hchp : Cheap (classify w.s g) := by
      cases g with
      | lit b => trivial
      | mtch dist n =>
        obtain ⟨h1, h2, _⟩ := hg
        omega
    apply irrC hchp
    left
    rw [hh0, dbtG_init]
    exact hdpos
  have hh1 : 1 ≤ w.hist.size := by omega
  by_cases hwrap : 1 ≤ w.hist.size % Lc c ∧ Lc c + 1 < w.hist.size % Lc c + min 273 w.look.size
  · -- the match source hits the physical end of the ring
    obtain ⟨dist, n, hgn, hn⟩ := hsp.p3 w.m w.hist w.look w.s hi.sync hb.hist hb.look hh1 hl hi.space hwrap.1 hwrap.2
    rw [hgg] at hgn
    subst hgn
    have hlen : (GoOp.mtch dist n).len = n := rfl
    rw [hlen] at hhs
    have hmod : w.hist.size % Lc c < Lc c := Nat.mod_lt _ hLpos
    have hds := div_step (Lc c) w.hist.size n hLpos (by omega)
    have hd2 : dbtG rho h0 w'.s w'.hist.size ≤ 2 := dbtG_le2 _ _ _ _ (by have := hsp.h0_le; omega) (by omega)
    rw [hhs] at hd2 hmono
    refine ⟨X, E + 203, Or.inl ⟨hany, by rw [hstart]; omega, ?_, ?_, htsz'⟩⟩
    · rw [hstart, hss, hhs]; omega
    · rw [hstart, hss, hhs]; omega
  · have hphys : w.hist.size % Lc c = 0 ∨ w.hist.size % Lc c + min 273 w.look.size ≤ Lc c + 1 := by omega
    by_cases hn : 2 ≤ w.look.size
    · obtain ⟨dist, hd4, hgn⟩ := hsp.p2 w.m w.hist w.look w.s hi.sync hb.hist hb.look hh1 hn hi.space hphys
      rw [hgg] at hgn
      have hchp : Cheap (classify w.s g) := by rw [hgn]; exact classify_cheap _ _ _ hd4
      have hlenN : g.len = min 273 w.look.size := by rw [hgn]; rfl
      rw [hlenN] at hhs hls
      by_cases hbig : 273 ≤ w.look.size
      · have hN : min 273 w.look.size = 273 := by omega
        rw [hN] at hhs hls hphys
        have hh0' : h0 ≤ w'.hist.size := by have := hsp.h0_le; omega
        by_cases hsmall : w.hist.size < h0
        · apply irrC hchp
          left
          rw [dbtG_small _ _ _ _ hh1 hsmall]
          have := dbtG_le2 rho h0 w'.s w'.hist.size hh0' (by omega)
          omega
        · have hge : h0 ≤ w.hist.size := by omega
          have hg1 := hsp.p1 w.m w.hist w.look w.s hi.sync hb.hist hb.look hge hbig hi.space hphys
          rw [hgg] at hg1
          subst hg1
          by_cases hr0 : w.s.r0 = rho
          · have hcl := classify_rep0G w.s rho 273 (by omega) hr0
            rw [hcl] at hsapp'
            have hst' : w'.s.st = updRep w.s.st := by rw [hsapp']; rfl
            have hr0' : w'.s.r0 = rho := by rw [hsapp']; exact hr0
            by_cases hst : w.s.st = 11
            · -- the steady-state operation
              have hps : (({ w with m := (M.next w.m w.hist w.look w.s).2 } : WSt σ).ctx c).ps < 16 := by
                show w.hist.size % 2 ^ c.props.pb < 16
                have hpb : c.props.pb ≤ 4 := hc.1.2.2
                have h16 : 2 ^ c.props.pb ≤ 2 ^ 4 := Nat.pow_le_pow_right (by omega) hpb
                have := Nat.mod_lt w.hist.size (Nat.pow_pos (by omega) : 0 < 2 ^ c.props.pb)
                omega
              have hreg := li_regG c _ w' _ hi1 hcl hst hps hloc.tsz hres hsn hloc.li
              have hst2 : w'.s.st = 11 := by rw [hst', hst]; rfl
              have hd0 : dbtG rho h0 w.s w.hist.size = 0 := dbtG_zero _ _ _ _ hge hh1 hr0 hst
              have hd1 : dbtG rho h0 w'.s w'.hist.size = 0 := dbtG_zero _ _ _ _ hh0' (by omega) hr0' hst2
              refine ⟨X + 14, E, Or.inl ⟨hreg, ?_, ?_, ?_, htsz'⟩⟩
              · rw [hstart, hhs]; exact x_stepG _ _ _ hx hs0
              · rw [hstart, hss, hd1]
                rw [hd0] at hy
                omega
              · rw [hstart, hss]; omega
            · apply irrC hchp
              left
              by_cases h7 : w.s.st < 7
              · have hd0 : dbtG rho h0 w.s w.hist.size = 2 := dbtG_lit _ _ _ _ hge hh1 hr0 h7
                have hst2 : w'.s.st = 8 := by rw [hst']; unfold updRep; rw [if_pos h7]
                have hd1 : dbtG rho h0 w'.s w'.hist.size ≤ 1 := dbtG_ge7 _ _ _ _ hh0' (by omega) hr0' (by omega)
                omega
              · have hd0 : dbtG rho h0 w.s w.hist.size = 1 := dbtG_mid _ _ _ _ hge hh1 hr0 (by omega) hst
                have hst2 : w'.s.st = 11 := by rw [hst']; unfold updRep; rw [if_neg h7]
                have hd1 : dbtG rho h0 w'.s w'.hist.size = 0 := dbtG_zero _ _ _ _ hh0' (by omega) hr0' hst2
                omega
          · obtain ⟨f1, f2⟩ := classify_fixG w.s rho 273 hr0
            rw [← hsapp'] at f1 f2
            apply irrC hchp
            left
            have hd0 : dbtG rho h0 w.s w.hist.size = 2 := dbtG_r0 _ _ _ _ hge hh1 hr0
            have hd1 : dbtG rho h0 w'.s w'.hist.size ≤ 1 := dbtG_ge7 _ _ _ _ hh0' (by omega) f1 f2
            omega
      · apply irrC hchp
        right
        exact ⟨by omega, by omega⟩
    · -- one byte left: whatever is proposed consumes it
      apply irrC (classify_cheap1 c w.hist w.look w.s g hg (by omega))
      right
      exact ⟨by omega, by omega⟩

end RunCost
