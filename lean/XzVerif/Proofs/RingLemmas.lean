import XzVerif.Model.Ring
import Mathlib.Tactic.SplitIfs

/-! helper lemmas for Proofs/Ring.lean: ByteArray pointwise facts, modular index arithmetic, lists -/
namespace Ring

/-! ### ByteArray -/

theorem get!_eq (a : ByteArray) (i : Nat) : a.get! i = a.data[i]?.getD default := by
  obtain ⟨d⟩ := a; simp only [ByteArray.get!, getElem!_def]; cases d[i]? <;> rfl

theorem get!_toList (a : ByteArray) (i : Nat) : a.data.toList[i]! = a.get! i := by
  rw [get!_eq]; simp

theorem length_toList (a : ByteArray) : a.data.toList.length = a.size := by
  simp

theorem size_blit (dst : ByteArray) (at_ : Nat) (src : ByteArray) (lo hi : Nat)
    (h1 : at_ + (hi - lo) ≤ dst.size) :
    (blit dst at_ src lo hi).size = dst.size := by
  simp only [blit, ByteArray.copySlice, ByteArray.size]
  simp only [Array.size_append, Array.size_extract, ← ByteArray.size_data] at *
  omega

theorem get!_blit (dst : ByteArray) (at_ : Nat) (src : ByteArray) (lo hi i : Nat)
    (h1 : at_ + (hi - lo) ≤ dst.size) (h2 : hi ≤ src.size) :
    (blit dst at_ src lo hi).get! i =
      if at_ ≤ i ∧ i < at_ + (hi - lo) then src.get! (lo + (i - at_)) else dst.get! i := by
  simp only [get!_eq, blit, ByteArray.copySlice]
  simp only [Array.getElem?_append, Array.getElem?_extract, Array.size_append, Array.size_extract,
    ← ByteArray.size_data] at *
  split_ifs <;> try first | rfl | (exfalso; omega) | (congr 2; omega)
  rw [Array.getElem?_eq_none]; omega

theorem size_zeros (n : Nat) (a : ByteArray) : (zeros n a).size = a.size + n := by
  induction n generalizing a with
  | zero => rfl
  | succ n ih => rw [zeros, ih, ByteArray.size_push]; omega

theorem size_set! (a : ByteArray) (i : Nat) (c : UInt8) : (a.set! i c).size = a.size := by
  obtain ⟨d⟩ := a; simp [ByteArray.set!, ByteArray.size]

theorem get!_set! (a : ByteArray) (i j : Nat) (c : UInt8) (h : i < a.size) :
    (a.set! i c).get! j = if j = i then c else a.get! j := by
  obtain ⟨d⟩ := a
  simp only [get!_eq, ByteArray.set!, ByteArray.size] at *
  simp only [Array.set!_eq_setIfInBounds, Array.getElem?_setIfInBounds]
  by_cases hji : j = i
  · subst hji; simp [h]
  · rw [if_neg (fun h' => hji h'.symm), if_neg hji]

theorem size_extract' (a : ByteArray) (s e : Nat) (h : e ≤ a.size) : (a.extract s e).size = e - s := by
  rw [ByteArray.size_extract]; omega

theorem get!_extract (a : ByteArray) (s e k : Nat) (h : e ≤ a.size) (hk : s + k < e) :
    (a.extract s e).get! k = a.get! (s + k) := by
  simp only [get!_eq, ByteArray.data_extract, Array.getElem?_extract, ← ByteArray.size_data] at *
  rw [if_pos (by omega)]

/-- a byte array is the list it agrees with pointwise -/
theorem toList_eq_of_get! (a : ByteArray) (X : List UInt8) (hs : a.size = X.length)
    (h : ∀ k, k < X.length → a.get! k = X[k]!) : a.data.toList = X := by
  apply List.ext_getElem
  · simpa using hs
  · intro k h1 h2
    have := h k h2
    rw [← get!_toList] at this
    simp only [List.getElem!_eq_getElem?_getD, List.getElem?_eq_getElem h1,
      List.getElem?_eq_getElem h2, Option.getD_some] at this
    exact this

/-! ### lists -/

theorem getElem!_append (W X : List UInt8) (j : Nat) :
    (W ++ X)[j]! = if j < W.length then W[j]! else X[j - W.length]! := by
  simp only [List.getElem!_eq_getElem?_getD, List.getElem?_append]
  split_ifs <;> rfl

theorem getElem!_take (X : List UInt8) (n k : Nat) (h : k < n) : (X.take n)[k]! = X[k]! := by
  simp only [List.getElem!_eq_getElem?_getD, List.getElem?_take, if_pos h]

theorem getElem!_drop (X : List UInt8) (s k : Nat) : (X.drop s)[k]! = X[s + k]! := by
  simp only [List.getElem!_eq_getElem?_getD, List.getElem?_drop]

/-! ### prefixLen -/

theorem prefixLen_spec (a : ByteArray) (ao : Nat) (b : ByteArray) (bo bhi fuel acc : Nat)
    (h1 : ao + acc ≤ a.size) (h2 : bo + acc ≤ bhi) :
    acc ≤ prefixLen a ao b bo bhi fuel acc ∧
    ao + prefixLen a ao b bo bhi fuel acc ≤ a.size ∧
    bo + prefixLen a ao b bo bhi fuel acc ≤ bhi ∧
    ∀ k, acc ≤ k → k < prefixLen a ao b bo bhi fuel acc → a.get! (ao + k) = b.get! (bo + k) := by
  induction fuel generalizing acc with
  | zero =>
    simp only [prefixLen]
    exact ⟨Nat.le_refl _, h1, h2, fun k hk1 hk2 => by omega⟩
  | succ fuel ih =>
    simp only [prefixLen]
    split_ifs with hc
    · obtain ⟨i1, i2, i3, i4⟩ := ih (acc + 1) (by omega) (by omega)
      refine ⟨by omega, i2, i3, ?_⟩
      intro k hk1 hk2
      by_cases hk : k = acc
      · subst hk; exact hc.2.2
      · exact i4 k (by omega) hk2
    · exact ⟨Nat.le_refl _, h1, h2, fun k hk1 hk2 => by omega⟩

/-! ### index arithmetic modulo the array length -/

theorem mul_add_mod' (L q t : Nat) (ht : t < L) : (L * q + t) % L = t := by
  rw [Nat.mul_add_mod]; exact Nat.mod_eq_of_lt ht

/-- going forward `d` positions from `x`, wrapping `k` times -/
theorem mod_add_eq (L x d t k : Nat) (h : x % L + d = k * L + t) (ht : t < L) : (x + d) % L = t := by
  have hx := Nat.div_add_mod x L
  have : x + d = L * (x / L + k) + t := by
    rw [Nat.mul_add, Nat.mul_comm L k]; omega
  rw [this]; exact mul_add_mod' L _ t ht

/-- going back `d ≤ x % L` positions: no wrap -/
theorem mod_sub_eq0 (L x d : Nat) (hL : 0 < L) (hd : d ≤ x % L) : (x - d) % L = x % L - d := by
  have hx := Nat.div_add_mod x L
  have hlt := Nat.mod_lt x hL
  have : x - d = L * (x / L) + (x % L - d) := by omega
  rw [this]; exact mul_add_mod' L _ _ (by omega)

/-- going back `d > x % L` positions: one wrap -/
theorem mod_sub_eq1 (L x d : Nat) (hL : 0 < L) (hd : x % L < d) (hd2 : d ≤ x) (hd3 : d ≤ L + x % L) :
    (x - d) % L = x % L + L - d := by
  have hx := Nat.div_add_mod x L
  have hlt := Nat.mod_lt x hL
  obtain ⟨q, hq⟩ : ∃ q, x / L = q + 1 := by
    cases hq : x / L with
    | zero => rw [hq] at hx; simp at hx; omega
    | succ q => exact ⟨q, rfl⟩
  rw [hq, Nat.mul_succ] at hx
  by_cases hc : d = L + x % L
  · have : x - d = L * q + 0 := by omega
    rw [this, mul_add_mod' L q 0 hL]; omega
  · have : x - d = L * q + (x % L + L - d) := by omega
    rw [this]; exact mul_add_mod' L _ _ (by omega)

/-- the array position of an index at or after `x` (less than one lap ahead) -/
theorem mod_fwd (L x j : Nat) (hL : 0 < L) (h1 : x ≤ j) (h2 : j - x < L) :
    j % L = if x % L + (j - x) < L then x % L + (j - x) else x % L + (j - x) - L := by
  have hlt := Nat.mod_lt x hL
  have hj : j = x + (j - x) := by omega
  split_ifs with hc
  · rw [hj, mod_add_eq L x (j - x) (x % L + (j - x)) 0] <;> omega
  · rw [hj, mod_add_eq L x (j - x) (x % L + (j - x) - L) 1] <;> omega

/-- the array position of an index before `x` (at most one lap behind) -/
theorem mod_bwd (L x j : Nat) (hL : 0 < L) (h1 : j ≤ x) (h2 : x - j ≤ L) :
    j % L = if x - j ≤ x % L then x % L - (x - j) else x % L + L - (x - j) := by
  have hlt := Nat.mod_lt x hL
  have hj : j = x - (x - j) := by omega
  split_ifs with hc
  · rw [hj, mod_sub_eq0 L x (x - j) hL hc]; omega
  · rw [hj, mod_sub_eq1 L x (x - j) hL (by omega) (by omega) (by omega)]; omega

end Ring
