import XzVerif.Gen.GoSrc
import XzVerif.Model.HashTable
import XzVerif.Proofs.GoSrcMisc
import Mathlib.Tactic.SplitIfs
/-
  Proofs.GoSrcHash — the REGENERATED translation of lzma/hashtable.go's table maintenance (`hashTableExponent`,
  `buffered`, `addIndex`, `putDelta`, `putEntry`: the slot `h & mask`, position + 1 stored in the slot, the delta to the
  previous word with the same hash put into the circular list, 0 when the previous word is out of reach) refines the
  hand-written HashTable4 model (Model/HashTable.lean: `Tab.writeByte` after the rolling hash), the model behind the
  computed-stream ties and the match-finder theorems.  Statements are fixed; only proofs may change.
-/
namespace GoSrcP
open GoSrc

theorem hte_aux : ∀ k : Fin 32,
    (if BitVec.slt (30#64 - BitVec.ofNat 64 (31 - k.val)) (9#64) then Go.Res.ok (9#64)
     else if BitVec.slt (20#64) (30#64 - BitVec.ofNat 64 (31 - k.val)) then Go.Res.ok (20#64)
     else Go.Res.ok (30#64 - BitVec.ofNat 64 (31 - k.val)))
    = Go.Res.ok (BitVec.ofNat 64 (if k.val - 1 < 9 then 9 else if k.val - 1 > 20 then 20 else k.val - 1)) := by
  decide +kernel

theorem hashTableExponent_spec (n : BitVec 32) :
    hashTableExponent n = Go.Res.ok (BitVec.ofNat 64 (HT.tableExponent n.toNat)) := by
  unfold hashTableExponent
  rw [nlz32_spec]
  simp only [Go.Res.bind_ok, HT.tableExponent]
  by_cases hx : n.toNat = 0
  · simp only [hx, if_true]; decide
  · have hk : Nat.log2 n.toNat < 32 := (Nat.log2_lt hx).2 n.isLt
    simp only [if_neg hx]
    exact hte_aux ⟨_, hk⟩

/-- the Go hash table `g` is the model table `t` -/
structure TabRel (g : T_hashTable) (t : HT.Tab) : Prop where
  tsize : g.t.size = t.t.size
  tval : ∀ i, i < t.t.size → (g.t.getD i 0#64).toNat = t.t.getD i 0
  tsmall : ∀ i, i < t.t.size → t.t.getD i 0 < 2 ^ 62
  dsize : g.data.size = t.data.size
  dval : ∀ i, i < t.data.size → (g.data.getD i 0#32).toNat = t.data.getD i 0
  front : g.front.toNat = t.front
  fin : t.front < t.data.size
  mask : g.mask.toNat = t.mask
  pow : ∃ e, e ≤ 30 ∧ t.mask + 1 = 2 ^ e ∧ t.t.size = 2 ^ e
  hoff : g.hoff.toInt = (t.n : Int) - 4
  small : t.n < 2 ^ 62 ∧ t.data.size < 2 ^ 62

/-- the table update of `Tab.writeByte` (Model/HashTable.lean) for a word with hash `h` at position `t.n − 4`
    (`t.n` already counts the byte just written) -/
def putEntryM (t : HT.Tab) (h : Nat) : HT.Tab :=
  let pos := t.n - 4
  let i := h % (t.mask + 1)
  let old := t.t.getD i 0
  let delta :=
    if old = 0 then 0 else
    let d := pos - (old - 1)
    if d > 2 ^ 32 - 1 ∨ d > t.buffered then 0 else d
  { t with t := t.t.setIfInBounds i (pos + 1), data := t.data.setIfInBounds t.front delta,
           front := if t.front + 1 ≥ t.data.size then 0 else t.front + 1 }

/-- `putEntryM` is what `Tab.writeByte` does after the rolling hash -/
theorem writeByte_eq_putEntryM (t : HT.Tab) (c : UInt8) :
    t.writeByte c =
      (let t' := { t with n := t.n + 1, b1 := t.b2, b2 := t.b3, b3 := c }
       if t'.n < 4 then t' else putEntryM t' (HT.hash4 t.b1 t.b2 t.b3 c).toNat) := by
  rfl

theorem buffered_val (g : T_hashTable) (n sz : Nat) (hh : g.hoff.toInt = (n : Int) - 4) (hn : n < 2 ^ 62)
    (hsz : g.data.size = sz) (hs : sz < 2 ^ 62) :
    (hashTable_buffered g).toNat = if n < 4 then 0 else if n - 3 ≥ sz then sz else n - 3 := by
  unfold hashTable_buffered
  have h1 := g.hoff.isLt
  simp only [BitVec.sle, BitVec.toInt_eq_toNat_cond, decide_eq_true_eq, BitVec.toNat_add, BitVec.toNat_ofNat] at *
  subst hsz
  split_ifs at hh ⊢ <;> (try simp only [BitVec.toNat_ofNat, BitVec.toNat_add]) <;> omega

theorem buffered_refines (g : T_hashTable) (t : HT.Tab) (rel : TabRel g t) :
    (hashTable_buffered g).toNat = t.buffered := by
  obtain ⟨_, _, _, dsize, _, _, _, _, _, hoff, hs1, hs2⟩ := rel
  exact buffered_val g t.n t.data.size hoff hs1 dsize hs2

theorem getD_setIfInBounds' {α : Type} (a : Array α) (i j : Nat) (x d : α) :
    (a.setIfInBounds i x).getD j d = if i = j ∧ j < a.size then x else a.getD j d := by
  simp only [Array.getD_eq_getD_getElem?, Array.getElem?_setIfInBounds]
  by_cases h : i = j <;> by_cases h2 : j < a.size <;> simp [h, h2]

theorem addIndex_one (x : BitVec 64) (f sz : Nat) (hx : x.toNat = f) (hlt : f < sz) (hs : sz < 2 ^ 62) :
    (if BitVec.slt (x + (1#64 - BitVec.ofNat 64 sz)) (0#64) then x + (1#64 - BitVec.ofNat 64 sz) + BitVec.ofNat 64 sz
     else x + (1#64 - BitVec.ofNat 64 sz)) = BitVec.ofNat 64 (if f + 1 ≥ sz then 0 else f + 1) := by
  apply BitVec.eq_of_toNat_eq
  simp only [BitVec.slt, BitVec.toInt_eq_toNat_cond, decide_eq_true_eq, BitVec.toNat_add, BitVec.toNat_sub,
    BitVec.toNat_ofNat, hx]
  split_ifs <;> simp only [BitVec.toNat_add, BitVec.toNat_sub, BitVec.toNat_ofNat, hx] <;> omega

theorem putDelta_ok (g : T_hashTable) (dl : BitVec 32) (f : Nat) (hf : g.front.toNat = f) (hlt : f < g.data.size)
    (hs : g.data.size < 2 ^ 62) :
    hashTable_putDelta g dl = Go.Res.ok
      { g with data := g.data.setIfInBounds f dl,
               front := BitVec.ofNat 64 (if f + 1 ≥ g.data.size then 0 else f + 1) } := by
  unfold hashTable_putDelta hashTable_addIndex
  have hti : g.front.toInt = (f : Int) := by
    rw [BitVec.toInt_eq_toNat_cond]; split_ifs <;> omega
  simp only [hti, Int.toNat_natCast, Array.size_setIfInBounds]
  rw [if_neg (by omega)]
  rw [addIndex_one g.front f g.data.size hf hlt hs]

theorem tabRel_put (g : T_hashTable) (t : HT.Tab) (rel : TabRel g t) (i dm : Nat) (dl : BitVec 32)
    (hn : 4 ≤ t.n) (hdl : dl.toNat = dm) :
    TabRel { g with t := g.t.setIfInBounds i (BitVec.ofNat 64 (t.n - 4) + 1#64),
                    data := g.data.setIfInBounds t.front dl,
                    front := BitVec.ofNat 64 (if t.front + 1 ≥ g.data.size then 0 else t.front + 1) }
           { t with t := t.t.setIfInBounds i (t.n - 4 + 1), data := t.data.setIfInBounds t.front dm,
                    front := if t.front + 1 ≥ t.data.size then 0 else t.front + 1 } := by
  obtain ⟨tsize, tval, tsmall, dsize, dval, front, fin, mask, pow, hoff, hs1, hs2⟩ := rel
  constructor <;> simp only [Array.size_setIfInBounds, getD_setIfInBounds']
  · exact tsize
  · intro j hj
    rw [tsize]
    by_cases hc : i = j ∧ j < t.t.size
    · simp only [if_pos hc, BitVec.toNat_add, BitVec.toNat_ofNat]; omega
    · simp only [if_neg hc]; exact tval j hj
  · intro j hj
    by_cases hc : i = j ∧ j < t.t.size
    · simp only [if_pos hc]; omega
    · simp only [if_neg hc]; exact tsmall j hj
  · exact dsize
  · intro j hj
    rw [dsize]
    by_cases hc : t.front = j ∧ j < t.data.size
    · simp only [if_pos hc]; exact hdl
    · simp only [if_neg hc]; exact dval j hj
  · rw [dsize]
    simp only [BitVec.toNat_ofNat]
    split_ifs <;> omega
  · split_ifs <;> omega
  · exact mask
  · exact pow
  · exact hoff
  · exact ⟨hs1, hs2⟩

theorem slt_small (x y : BitVec 64) (hx : x.toNat < 2 ^ 63) (hy : y.toNat < 2 ^ 63) :
    BitVec.slt x y = decide (x.toNat < y.toNat) := by
  have h1 : x.toInt = (x.toNat : Int) := by rw [BitVec.toInt_eq_toNat_cond, if_pos (by omega)]
  have h2 : y.toInt = (y.toNat : Int) := by rw [BitVec.toInt_eq_toNat_cond, if_pos (by omega)]
  simp only [BitVec.slt, h1, h2, Int.ofNat_lt]

theorem sle_small (x y : BitVec 64) (hx : x.toNat < 2 ^ 63) (hy : y.toNat < 2 ^ 63) :
    BitVec.sle x y = decide (x.toNat ≤ y.toNat) := by
  have h1 : x.toInt = (x.toNat : Int) := by rw [BitVec.toInt_eq_toNat_cond, if_pos (by omega)]
  have h2 : y.toInt = (y.toNat : Int) := by rw [BitVec.toInt_eq_toNat_cond, if_pos (by omega)]
  simp only [BitVec.sle, h1, h2, Int.ofNat_le]

/-- `putEntry(h, hoff)` of the source = the model's table update; never an index panic on a well-formed table;
    positions stored stay ordered by construction (`old − 1 ≤ pos` is an invariant of the model: `Tab.WF`) -/
theorem putEntry_refines (g : T_hashTable) (t : HT.Tab) (rel : TabRel g t) (h : BitVec 64) (hn : 4 ≤ t.n)
    (hord : ∀ i, i < t.t.size → t.t.getD i 0 ≤ t.n - 4 + 1) :
    ∃ g', hashTable_putEntry g h (BitVec.ofNat 64 (t.n - 4)) = Go.Res.ok g' ∧ TabRel g' (putEntryM t h.toNat) := by
  obtain ⟨e, he30, hm, hsz⟩ := rel.pow
  have hs1 := rel.small.1
  have hs2 := rel.small.2
  have hpos : (BitVec.ofNat 64 (t.n - 4)).toNat = t.n - 4 := by
    simp only [BitVec.toNat_ofNat]; omega
  have hnotneg : BitVec.slt (BitVec.ofNat 64 (t.n - 4)) (0#64) = false := by
    rw [slt_small _ _ (by omega) (by decide)]; simp
  have hi : (h &&& g.mask).toNat = h.toNat % (t.mask + 1) := by
    have : t.mask = 2 ^ e - 1 := by omega
    rw [BitVec.toNat_and, rel.mask, hm, this, Nat.and_two_pow_sub_one_eq_mod]
  have hilt : h.toNat % (t.mask + 1) < t.t.size := by
    rw [hm, hsz]; exact Nat.mod_lt _ (Nat.two_pow_pos e)
  have hov := rel.tval _ hilt
  have hosm := rel.tsmall _ hilt
  have hoord := hord _ hilt
  have hbuf : ∀ x, (hashTable_buffered { g with t := x }).toNat = t.buffered := fun x =>
    buffered_val { g with t := x } t.n t.data.size rel.hoff hs1 rel.dsize hs2
  have hble : t.buffered ≤ t.data.size := by
    unfold HT.Tab.buffered; split_ifs <;> omega
  have hpd : ∀ x dl, hashTable_putDelta { g with t := x } dl = Go.Res.ok
      { g with t := x, data := g.data.setIfInBounds t.front dl,
               front := BitVec.ofNat 64 (if t.front + 1 ≥ g.data.size then 0 else t.front + 1) } := fun x dl =>
    putDelta_ok { g with t := x } dl t.front rel.front (by rw [rel.dsize]; exact rel.fin) (by rw [rel.dsize]; exact hs2)
  unfold hashTable_putEntry
  simp only [hnotneg, Bool.false_eq_true, if_false, hi]
  rw [if_neg (by rw [rel.tsize]; omega)]
  simp only [hpd, Go.Res.bind_ok]
  rw [if_neg (by rw [rel.tsize]; omega)]
  generalize hgv : g.t.getD (h.toNat % (t.mask + 1)) 0#64 = gv at *
  by_cases ho0 : t.t.getD (h.toNat % (t.mask + 1)) 0 = 0
  · have hsle : BitVec.sle (0#64) (gv - 1#64) = false := by
      have : gv = 0#64 := BitVec.eq_of_toNat_eq (by rw [hov, ho0]; rfl)
      subst this; decide
    simp only [hsle, Bool.false_eq_true, if_false]
    refine ⟨_, rfl, ?_⟩
    have := tabRel_put g t rel (h.toNat % (t.mask + 1)) 0 (BitVec.setWidth 32 0#64) hn (by decide)
    simpa only [putEntryM, ho0, if_true] using this
  · have hold : (gv - 1#64).toNat = t.t.getD (h.toNat % (t.mask + 1)) 0 - 1 := by
      simp only [BitVec.toNat_sub, BitVec.toNat_ofNat, hov]; omega
    have hsle : BitVec.sle (0#64) (gv - 1#64) = true := by
      rw [sle_small _ _ (by decide) (by omega)]; simp
    have hd : (BitVec.ofNat 64 (t.n - 4) - (gv - 1#64)).toNat
        = t.n - 4 - (t.t.getD (h.toNat % (t.mask + 1)) 0 - 1) := by
      rw [BitVec.toNat_sub, hold, hpos]; omega
    simp only [hsle, if_true]
    rw [slt_small _ _ (by decide) (by omega), slt_small _ _ (by rw [hbuf]; omega) (by omega), hbuf, hd]
    by_cases hc : t.n - 4 - (t.t.getD (h.toNat % (t.mask + 1)) 0 - 1) > 2 ^ 32 - 1 ∨
        t.n - 4 - (t.t.getD (h.toNat % (t.mask + 1)) 0 - 1) > t.buffered
    · rw [if_pos (by
        simp only [Bool.or_eq_true, decide_eq_true_eq]
        rcases hc with hc | hc
        · left; exact hc
        · right; exact hc)]
      refine ⟨_, rfl, ?_⟩
      have := tabRel_put g t rel (h.toNat % (t.mask + 1)) 0 (BitVec.setWidth 32 0#64) hn (by decide)
      simpa only [putEntryM, if_neg ho0, if_pos hc] using this
    · rw [if_neg (by
        simp only [Bool.or_eq_true, decide_eq_true_eq]
        intro hc'
        apply hc
        rcases hc' with hc' | hc'
        · left; exact hc'
        · right; exact hc')]
      refine ⟨_, rfl, ?_⟩
      have := tabRel_put g t rel (h.toNat % (t.mask + 1))
        (t.n - 4 - (t.t.getD (h.toNat % (t.mask + 1)) 0 - 1)) (BitVec.setWidth 32
        (BitVec.ofNat 64 (t.n - 4) - (gv - 1#64))) hn (by
          rw [BitVec.toNat_setWidth, hd]
          exact Nat.mod_eq_of_lt (by omega))
      simpa only [putEntryM, if_neg ho0, if_neg hc] using this

/-- before four bytes are in (`hoff < 0`) nothing is entered -/
theorem putEntry_early (g : T_hashTable) (h pos : BitVec 64) (hneg : pos.toInt < 0) :
    hashTable_putEntry g h pos = Go.Res.ok g := by
  unfold hashTable_putEntry
  have : BitVec.slt pos (0#64) = true := by
    rw [BitVec.slt_iff_toInt_lt]; simpa using hneg
  rw [if_pos this]

end GoSrcP
